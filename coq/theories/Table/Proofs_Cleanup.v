(* C08 - proofs about Table/Model_Cleanup.v *)
From LanceV Require Import Common.Base Table.Model_Cleanup.
Local Open Scope N_scope.

(* ------------------------------------------------------------------------------------------ *)
(* equality / membership                                                                        *)
(* ------------------------------------------------------------------------------------------ *)
Lemma seg_eqb_eq : forall a b : seg, seg_eqb a b = true <-> a = b.
Proof. apply list_eqb_eq. intros x y. apply N.eqb_eq. Qed.

Lemma path_eqb_eq : forall a b : path, path_eqb a b = true <-> a = b.
Proof. apply list_eqb_eq. exact seg_eqb_eq. Qed.

Lemma seg_eqb_refl : forall a, seg_eqb a a = true.
Proof. intro a. apply seg_eqb_eq. reflexivity. Qed.

Lemma path_eqb_refl : forall a, path_eqb a a = true.
Proof. intro a. apply path_eqb_eq. reflexivity. Qed.

Lemma mem_path_In : forall p l, mem_path p l = true <-> In p l.
Proof.
  intros p l. unfold mem_path. rewrite existsb_exists. split.
  - intros [x [Hx He]]. apply path_eqb_eq in He. subst. exact Hx.
  - intro H. exists p. split; [exact H | apply path_eqb_refl].
Qed.

Lemma mem_seg_In : forall p l, mem_seg p l = true <-> In p l.
Proof.
  intros p l. unfold mem_seg. rewrite existsb_exists. split.
  - intros [x [Hx He]]. apply seg_eqb_eq in He. subst. exact Hx.
  - intro H. exists p. split; [exact H | apply seg_eqb_refl].
Qed.

Lemma mem_N_In : forall x l, mem_N x l = true <-> In x l.
Proof.
  intros x l. unfold mem_N. rewrite existsb_exists. split.
  - intros [y [Hy He]]. apply N.eqb_eq in He. subst. exact Hy.
  - intro H. exists x. split; [exact H | apply N.eqb_refl].
Qed.

Lemma mem_path_false : forall p l, mem_path p l = false <-> ~ In p l.
Proof.
  intros p l. rewrite <- mem_path_In. destruct (mem_path p l); split; intro H; try reflexivity; try discriminate.
  exfalso; apply H; reflexivity.
Qed.

Lemma mem_seg_false : forall p l, mem_seg p l = false <-> ~ In p l.
Proof.
  intros p l. rewrite <- mem_seg_In. destruct (mem_seg p l); split; intro H; try reflexivity; try discriminate.
  exfalso; apply H; reflexivity.
Qed.

(* ------------------------------------------------------------------------------------------ *)
(* string prefixes                                                                              *)
(* ------------------------------------------------------------------------------------------ *)
Lemma prefixb_app : forall x y, prefixb x (x ++ y) = true.
Proof.
  induction x as [|a x IH]; intro y; cbn [prefixb app]; [reflexivity|].
  rewrite N.eqb_refl. cbn [andb]. apply IH.
Qed.

(* two prefixes of one string: one is a prefix of the other *)
Lemma prefixb_both : forall x y s, prefixb x s = true -> prefixb y s = true ->
  prefixb x y = true \/ prefixb y x = true.
Proof.
  induction x as [|a x IH]; intros y s Hx Hy; [left; reflexivity|].
  destruct y as [|b y]; [right; reflexivity|].
  destruct s as [|c s]; cbn [prefixb] in Hx, Hy; [discriminate|].
  apply andb_true_iff in Hx as [Ha Hx]. apply andb_true_iff in Hy as [Hb Hy].
  apply N.eqb_eq in Ha. apply N.eqb_eq in Hb. subst.
  cbn [prefixb]. rewrite N.eqb_refl. cbn [andb]. eapply IH; eassumption.
Qed.

Lemma prefixb_excl : forall x y s, prefixb x s = true -> prefixb x y = false -> prefixb y x = false ->
  prefixb y s = false.
Proof.
  intros x y s Hx Hxy Hyx. destruct (prefixb y s) eqn:Hy; [|reflexivity].
  destruct (prefixb_both x y s Hx Hy) as [H|H]; congruence.
Qed.

Lemma join_cons2 : forall s s2 r, join (s :: s2 :: r) = s ++ 47 :: join (s2 :: r).
Proof. reflexivity. Qed.

(* a relative path whose first segment is exactly `dir` and that has a second segment *)
Lemma under_inv : forall dir p, under dir p = true -> exists s2 r, p = sg dir :: s2 :: r.
Proof.
  intros dir p H. unfold under in H. destruct p as [|s [|s2 r]]; try discriminate.
  apply seg_eqb_eq in H. subst. eauto.
Qed.

Lemma starts_with_dir : forall dir s2 r pre,
  prefixb (sg pre) (sg dir ++ [47]) = true -> starts_with (sg dir :: s2 :: r) pre = true.
Proof.
  intros dir s2 r pre H. unfold starts_with. rewrite join_cons2.
  replace (sg dir ++ 47 :: join (s2 :: r)) with ((sg dir ++ [47]) ++ join (s2 :: r)) by (rewrite <- app_assoc; reflexivity).
  remember (sg dir ++ [47]) as d. remember (sg pre) as q. clear Heqd Heqq.
  revert d H. induction q as [|a q IH]; intros d H; [reflexivity|].
  destruct d as [|b d]; cbn [prefixb] in H; [discriminate|].
  apply andb_true_iff in H as [Ha H]. cbn [app prefixb]. rewrite Ha. cbn [andb]. apply IH. exact H.
Qed.

Lemma not_starts_with_dir : forall dir s2 r pre,
  prefixb (sg pre) (sg dir ++ [47]) = false -> prefixb (sg dir ++ [47]) (sg pre) = false ->
  starts_with (sg dir :: s2 :: r) pre = false.
Proof.
  intros dir s2 r pre H1 H2. unfold starts_with. rewrite join_cons2.
  replace (sg dir ++ 47 :: join (s2 :: r)) with ((sg dir ++ [47]) ++ join (s2 :: r)) by (rewrite <- app_assoc; reflexivity).
  eapply prefixb_excl; [apply prefixb_app | exact H2 | exact H1].
Qed.

(* the four directories against the five prefixes of the decision tree *)
Ltac sw_true := apply starts_with_dir; vm_compute; reflexivity.
Ltac sw_false := apply not_starts_with_dir; vm_compute; reflexivity.

(* ------------------------------------------------------------------------------------------ *)
(* the decision tree protects what the inspection calls referenced                              *)
(* ------------------------------------------------------------------------------------------ *)
Lemma pinr_data : forall p mip insp,
  under "data" p = true -> In p (r_data (i_ref insp)) -> path_if_not_referenced p mip insp = false.
Proof.
  intros p mip insp Hu Hin. destruct (under_inv _ _ Hu) as (s2 & r & ->).
  unfold path_if_not_referenced.
  replace (starts_with (sg "data" :: s2 :: r) "_versions/.tmp") with false by (symmetry; sw_false).
  replace (starts_with (sg "data" :: s2 :: r) "_indices") with false by (symmetry; sw_false).
  replace (starts_with (sg "data" :: s2 :: r) "data") with true by (symmetry; sw_true).
  replace (starts_with (sg "data" :: s2 :: r) "_deletions") with false by (symmetry; sw_false).
  replace (starts_with (sg "data" :: s2 :: r) "_transactions") with false by (symmetry; sw_false).
  apply mem_path_In in Hin. rewrite Hin.
  destruct (ext_kind (extension (sg "data" :: s2 :: r))); reflexivity.
Qed.

Lemma pinr_del : forall p mip insp,
  under "_deletions" p = true -> In p (r_del (i_ref insp)) -> path_if_not_referenced p mip insp = false.
Proof.
  intros p mip insp Hu Hin. destruct (under_inv _ _ Hu) as (s2 & r & ->).
  unfold path_if_not_referenced.
  replace (starts_with (sg "_deletions" :: s2 :: r) "_versions/.tmp") with false by (symmetry; sw_false).
  replace (starts_with (sg "_deletions" :: s2 :: r) "_indices") with false by (symmetry; sw_false).
  replace (starts_with (sg "_deletions" :: s2 :: r) "data") with false by (symmetry; sw_false).
  replace (starts_with (sg "_deletions" :: s2 :: r) "_deletions") with true by (symmetry; sw_true).
  replace (starts_with (sg "_deletions" :: s2 :: r) "_transactions") with false by (symmetry; sw_false).
  apply mem_path_In in Hin. rewrite Hin.
  destruct (ext_kind (extension (sg "_deletions" :: s2 :: r))); reflexivity.
Qed.

Lemma pinr_tx : forall p mip insp,
  under "_transactions" p = true -> In p (r_tx (i_ref insp)) -> path_if_not_referenced p mip insp = false.
Proof.
  intros p mip insp Hu Hin. destruct (under_inv _ _ Hu) as (s2 & r & ->).
  unfold path_if_not_referenced.
  replace (starts_with (sg "_transactions" :: s2 :: r) "_versions/.tmp") with false by (symmetry; sw_false).
  replace (starts_with (sg "_transactions" :: s2 :: r) "_indices") with false by (symmetry; sw_false).
  replace (starts_with (sg "_transactions" :: s2 :: r) "data") with false by (symmetry; sw_false).
  replace (starts_with (sg "_transactions" :: s2 :: r) "_deletions") with false by (symmetry; sw_false).
  replace (starts_with (sg "_transactions" :: s2 :: r) "_transactions") with true by (symmetry; sw_true).
  apply mem_path_In in Hin. rewrite Hin.
  destruct (ext_kind (extension (sg "_transactions" :: s2 :: r))); reflexivity.
Qed.

Lemma starts_with_tmp_not_indices : forall p,
  starts_with p "_indices" = true -> starts_with p "_versions/.tmp" = false.
Proof.
  intros p H. unfold starts_with in *. eapply prefixb_excl; [exact H | vm_compute; reflexivity | vm_compute; reflexivity].
Qed.

(* the `_indices` block, with its string-prefix test *)
Lemma pinr_idx : forall p mip insp u,
  starts_with p "_indices" = true -> nth_error p 1 = Some u -> In u (r_idx (i_ref insp)) ->
  path_if_not_referenced p mip insp = false.
Proof.
  intros p mip insp u Hs Hn Hin. unfold path_if_not_referenced.
  rewrite (starts_with_tmp_not_indices p Hs), Hs, Hn.
  apply mem_seg_In in Hin. rewrite Hin. reflexivity.
Qed.

Lemma index_uuid_inv : forall p u, index_uuid p = Some u ->
  starts_with p "_indices" = true /\ nth_error p 1 = Some u.
Proof.
  intros p u H. unfold index_uuid in H. destruct p as [|s [|u' r]]; try discriminate.
  destruct (seg_eqb s (sg "_indices")) eqn:E; [|discriminate]. inversion H; subst.
  apply seg_eqb_eq in E. subst. split; [sw_true | reflexivity].
Qed.

(* touches r p, for well-formed r *)
Lemma touches_cases : forall r p, touches r p = true ->
  In p (r_data r) \/ In p (r_del r) \/ In p (r_tx r) \/
  (starts_with p "_indices" = true /\ exists u, nth_error p 1 = Some u /\ In u (r_idx r)).
Proof.
  intros r p H. unfold touches, needs_refs in H.
  repeat (apply orb_true_iff in H as [H|H]).
  - left. apply mem_path_In. exact H.
  - right; left. apply mem_path_In. exact H.
  - right; right; left. apply mem_path_In. exact H.
  - right; right; right. destruct (index_uuid p) as [u|] eqn:E; [|discriminate].
    destruct (index_uuid_inv _ _ E) as [A B]. split; [exact A|]. exists u. split; [exact B | apply mem_seg_In; exact H].
  - right; right; right. apply andb_true_iff in H as [A H]. split; [exact A|].
    destruct (nth_error p 1) as [u|]; [|discriminate]. exists u. split; [reflexivity | apply mem_seg_In; exact H].
Qed.

Lemma needs_touches : forall r p, needs_refs r p = true -> touches r p = true.
Proof. intros r p H. unfold touches. rewrite H. reflexivity. Qed.

Lemma wf_refs_inv : forall r, wf_refs r = true ->
  (forall p, In p (r_data r) -> under "data" p = true) /\
  (forall p, In p (r_del r) -> under "_deletions" p = true) /\
  (forall p, In p (r_tx r) -> under "_transactions" p = true).
Proof.
  intros r H. unfold wf_refs in H. apply andb_true_iff in H as [H H3]. apply andb_true_iff in H as [H1 H2].
  rewrite forallb_forall in H1, H2, H3. auto.
Qed.

(* ------------------------------------------------------------------------------------------ *)
(* process_manifests: what ends up referenced, verified, old                                    *)
(* ------------------------------------------------------------------------------------------ *)
Section Fold.
  Variable dsv : N.
  Variable tags : list N.
  Variable pol : policy.
  Notation ws := (in_working_set dsv tags pol).
  Notation pmf := (process_manifest_file dsv tags pol).

  Variable A : Type.
  Variable sel : refs -> list A.
  Hypothesis sel_add : forall a b, sel (refs_add a b) = sel b ++ sel a.

  Lemma fold_ref : forall ms insp0 x,
    In x (sel (i_ref (fold_left pmf ms insp0))) <->
    In x (sel (i_ref insp0)) \/ exists m, In m ms /\ ws m = true /\ In x (sel (m_refs m)).
  Proof.
    induction ms as [|m ms IH]; intros insp0 x; cbn [fold_left].
    - split; [auto | intros [H|[m [[] _]]]; exact H].
    - rewrite IH. unfold process_manifest_file at 1. cbn [i_ref].
      destruct (ws m) eqn:W.
      + rewrite sel_add, in_app_iff. split.
        * intros [[H|H]|[m' [H1 [H2 H3]]]]; [right; exists m; cbn; auto | auto | right; exists m'; cbn; auto].
        * intros [H|[m' [[->|H1] [H2 H3]]]]; [auto | auto | right; exists m'; auto].
      + split.
        * intros [H|[m' [H1 [H2 H3]]]]; [auto | right; exists m'; cbn; auto].
        * intros [H|[m' [[->|H1] [H2 H3]]]]; [auto | congruence | right; exists m'; auto].
  Qed.

  Lemma fold_ver : forall ms insp0 x,
    In x (sel (i_ver (fold_left pmf ms insp0))) <->
    In x (sel (i_ver insp0)) \/ exists m, In m ms /\ ws m = false /\ In x (sel (m_refs m)).
  Proof.
    induction ms as [|m ms IH]; intros insp0 x; cbn [fold_left].
    - split; [auto | intros [H|[m [[] _]]]; exact H].
    - rewrite IH. unfold process_manifest_file at 1. cbn [i_ver].
      destruct (ws m) eqn:W.
      + split.
        * intros [H|[m' [H1 [H2 H3]]]]; [auto | right; exists m'; cbn; auto].
        * intros [H|[m' [[->|H1] [H2 H3]]]]; [auto | congruence | right; exists m'; auto].
      + rewrite sel_add, in_app_iff. split.
        * intros [[H|H]|[m' [H1 [H2 H3]]]]; [right; exists m; cbn; auto | auto | right; exists m'; cbn; auto].
        * intros [H|[m' [[->|H1] [H2 H3]]]]; [auto | auto | right; exists m'; auto].
  Qed.
End Fold.

Lemma fold_old : forall dsv tags pol ms insp0 m',
  In m' (i_old (fold_left (process_manifest_file dsv tags pol) ms insp0)) <->
  In m' (i_old insp0) \/ (In m' ms /\ in_working_set dsv tags pol m' = false).
Proof.
  intros dsv tags pol. induction ms as [|m ms IH]; intros insp0 m'; cbn [fold_left].
  - split; [auto | intros [H|[[] _]]; exact H].
  - rewrite IH. unfold process_manifest_file at 1. cbn [i_old].
    destruct (in_working_set dsv tags pol m) eqn:W.
    + split.
      * intros [H|[H1 H2]]; [auto | right; cbn; auto].
      * intros [H|[[->|H1] H2]]; [auto | congruence | auto].
    + rewrite in_app_iff. cbn [In]. split.
      * intros [[H|[->|[]]]|[H1 H2]]; [auto | right; auto | right; auto].
      * intros [H|[[->|H1] H2]]; [auto | auto | auto].
Qed.

Lemma sel_data_add : forall a b, r_data (refs_add a b) = r_data b ++ r_data a. Proof. reflexivity. Qed.
Lemma sel_del_add : forall a b, r_del (refs_add a b) = r_del b ++ r_del a. Proof. reflexivity. Qed.
Lemma sel_tx_add : forall a b, r_tx (refs_add a b) = r_tx b ++ r_tx a. Proof. reflexivity. Qed.
Lemma sel_idx_add : forall a b, r_idx (refs_add a b) = r_idx b ++ r_idx a. Proof. reflexivity. Qed.

Section Inspect.
  Variable dsv : N.
  Variable tags : list N.
  Variable pol : policy.
  Variable ms : list manifest.
  Notation ws := (in_working_set dsv tags pol).
  Notation insp := (process_manifests dsv tags pol ms).

  Lemma insp_old : forall m, In m (i_old insp) <-> In m ms /\ ws m = false.
  Proof.
    intro m. unfold process_manifests. rewrite fold_old. cbn [i_old inspection0 In]. tauto.
  Qed.

  Ltac insp_tac L S := unfold process_manifests; rewrite (L dsv tags pol _ _ S); cbn; tauto.

  Lemma insp_ref_data : forall x, In x (r_data (i_ref insp)) <-> exists m, In m ms /\ ws m = true /\ In x (r_data (m_refs m)).
  Proof. intro x. unfold process_manifests. rewrite (fold_ref dsv tags pol _ _ sel_data_add). cbn. tauto. Qed.
  Lemma insp_ref_del : forall x, In x (r_del (i_ref insp)) <-> exists m, In m ms /\ ws m = true /\ In x (r_del (m_refs m)).
  Proof. intro x. unfold process_manifests. rewrite (fold_ref dsv tags pol _ _ sel_del_add). cbn. tauto. Qed.
  Lemma insp_ref_tx : forall x, In x (r_tx (i_ref insp)) <-> exists m, In m ms /\ ws m = true /\ In x (r_tx (m_refs m)).
  Proof. intro x. unfold process_manifests. rewrite (fold_ref dsv tags pol _ _ sel_tx_add). cbn. tauto. Qed.
  Lemma insp_ref_idx : forall x, In x (r_idx (i_ref insp)) <-> exists m, In m ms /\ ws m = true /\ In x (r_idx (m_refs m)).
  Proof. intro x. unfold process_manifests. rewrite (fold_ref dsv tags pol _ _ sel_idx_add). cbn. tauto. Qed.
  Lemma insp_ver_data : forall x, In x (r_data (i_ver insp)) <-> exists m, In m ms /\ ws m = false /\ In x (r_data (m_refs m)).
  Proof. intro x. unfold process_manifests. rewrite (fold_ver dsv tags pol _ _ sel_data_add). cbn. tauto. Qed.
  Lemma insp_ver_del : forall x, In x (r_del (i_ver insp)) <-> exists m, In m ms /\ ws m = false /\ In x (r_del (m_refs m)).
  Proof. intro x. unfold process_manifests. rewrite (fold_ver dsv tags pol _ _ sel_del_add). cbn. tauto. Qed.
  Lemma insp_ver_tx : forall x, In x (r_tx (i_ver insp)) <-> exists m, In m ms /\ ws m = false /\ In x (r_tx (m_refs m)).
  Proof. intro x. unfold process_manifests. rewrite (fold_ver dsv tags pol _ _ sel_tx_add). cbn. tauto. Qed.
  Lemma insp_ver_idx : forall x, In x (r_idx (i_ver insp)) <-> exists m, In m ms /\ ws m = false /\ In x (r_idx (m_refs m)).
  Proof. intro x. unfold process_manifests. rewrite (fold_ver dsv tags pol _ _ sel_idx_add). cbn. tauto. Qed.

  (* the core of C08: an object the decision tree hands to remove_stream is connected with no
     manifest of the working set *)
  Lemma decision_safe : forall p mip m,
    path_if_not_referenced p mip insp = true ->
    In m ms -> ws m = true -> wf_refs (m_refs m) = true -> touches (m_refs m) p = false.
  Proof.
    intros p mip m Hd Hm Hw Hwf. destruct (touches (m_refs m) p) eqn:T; [exfalso|reflexivity].
    destruct (wf_refs_inv _ Hwf) as (W1 & W2 & W3).
    destruct (touches_cases _ _ T) as [H|[H|[H|[Hs [u [Hn Hu]]]]]].
    - rewrite (pinr_data p mip insp (W1 _ H)) in Hd; [discriminate|]. apply insp_ref_data. eauto.
    - rewrite (pinr_del p mip insp (W2 _ H)) in Hd; [discriminate|]. apply insp_ref_del. eauto.
    - rewrite (pinr_tx p mip insp (W3 _ H)) in Hd; [discriminate|]. apply insp_ref_tx. eauto.
    - rewrite (pinr_idx p mip insp u Hs Hn) in Hd; [discriminate|]. apply insp_ref_idx. eauto.
  Qed.

  (* the safety window: a young object that no old (non-retained) manifest is connected with is never
     handed to remove_stream when maybe_in_progress holds *)
  Lemma decision_in_progress : forall p,
    (forall m, In m ms -> ws m = false -> touches (m_refs m) p = false) ->
    path_if_not_referenced p true insp = false.
  Proof.
    intros p Hnt. unfold path_if_not_referenced.
    destruct (starts_with p "_versions/.tmp"); [reflexivity|].
    assert (Vd : mem_path p (r_data (i_ver insp)) = false).
    { apply mem_path_false. intro H. apply insp_ver_data in H as (m & A & B & C).
      pose proof (Hnt m A B) as T. unfold touches, needs_refs in T. apply mem_path_In in C. rewrite C in T. discriminate. }
    assert (Vl : mem_path p (r_del (i_ver insp)) = false).
    { apply mem_path_false. intro H. apply insp_ver_del in H as (m & A & B & C).
      pose proof (Hnt m A B) as T. unfold touches, needs_refs in T. apply mem_path_In in C. rewrite C in T.
      rewrite orb_true_r in T. discriminate. }
    assert (Vt : mem_path p (r_tx (i_ver insp)) = false).
    { apply mem_path_false. intro H. apply insp_ver_tx in H as (m & A & B & C).
      pose proof (Hnt m A B) as T. unfold touches, needs_refs in T. apply mem_path_In in C. rewrite C in T.
      rewrite !orb_true_r in T. discriminate. }
    rewrite Vd, Vl, Vt. cbn [negb orb].
    destruct (starts_with p "_indices") eqn:Si.
    - destruct (nth_error p 1) as [u|] eqn:Hn; [|reflexivity].
      destruct (mem_seg u (r_idx (i_ref insp))); [reflexivity|].
      assert (Vi : mem_seg u (r_idx (i_ver insp)) = false).
      { apply mem_seg_false. intro H. apply insp_ver_idx in H as (m & A & B & C).
        pose proof (Hnt m A B) as T. unfold touches in T. rewrite Si, Hn in T. apply mem_seg_In in C. rewrite C in T.
        rewrite orb_true_r in T. discriminate. }
      rewrite Vi.
      destruct (ext_kind (extension p)); try reflexivity;
        repeat match goal with |- context [if ?b then _ else _] => destruct b end; reflexivity.
    - destruct (ext_kind (extension p)); try reflexivity;
        repeat match goal with |- context [if ?b then _ else _] => destruct b end; reflexivity.
  Qed.
End Inspect.

(* manifest files are not reachable through the listing *)
Lemma pinr_manifest_file : forall p mip insp, wf_manifest_path p = true -> path_if_not_referenced p mip insp = false.
Proof.
  intros p mip insp H. unfold wf_manifest_path in H.
  destruct p as [|d [|f [|x r]]]; try discriminate.
  apply andb_true_iff in H as [H He]. apply andb_true_iff in H as [Hd Ht].
  apply seg_eqb_eq in Hd. subst d. apply negb_true_iff in Ht.
  unfold path_if_not_referenced.
  assert (T : starts_with [sg "_versions"; f] "_versions/.tmp" = false).
  { unfold starts_with. cbn [join].
    change (sg "_versions/.tmp") with (sg "_versions/" ++ sg ".tmp").
    change (sg "_versions" ++ 47 :: f) with (sg "_versions/" ++ f).
    generalize (sg "_versions/"). intro l. induction l as [|a l IH]; cbn [app prefixb]; [exact Ht|].
    rewrite N.eqb_refl. exact IH. }
  rewrite T.
  assert (I : starts_with [sg "_versions"; f] "_indices" = false) by sw_false.
  rewrite I.
  destruct (ext_kind (extension [sg "_versions"; f])); try discriminate. reflexivity.
Qed.

(* ------------------------------------------------------------------------------------------ *)
(* the sequential theorem                                                                       *)
(* ------------------------------------------------------------------------------------------ *)
Lemma run_cleanup_ok : forall dsv tags pol now ms files r,
  run_cleanup dsv tags pol now ms files = Ok r ->
  r = delete_unreferenced_files pol now (process_manifests dsv tags pol ms) files.
Proof.
  intros dsv tags pol now ms files r H. unfold run_cleanup in H.
  destruct (error_if_tagged_old_versions pol && _); [discriminate|]. inversion H. reflexivity.
Qed.

Lemma latest_version_ge : forall ms m, In m ms -> m_version m <= latest_version ms.
Proof.
  unfold latest_version. induction ms as [|a ms IH]; intros m H; [destruct H|].
  cbn [map fold_right]. destruct H as [->|H]; [lia|]. specialize (IH m H). lia.
Qed.

Theorem retained_readable : forall dsv tags pol now ms files r,
  run_cleanup dsv tags pol now ms files = Ok r ->
  (* objects *)
  (forall m f, In m ms -> in_working_set dsv tags pol m = true -> wf_refs (m_refs m) = true ->
               In f (rm_files r) -> touches (m_refs m) (f_path f) = false /\ needs m (f_path f) = false)
  /\ (forall f, In f (rm_files r) -> In f files /\ wf_manifest_path (f_path f) = false)
  (* manifests: exactly the ones the policy selects, never the latest / a tagged one *)
  /\ (forall m, In m (rm_manifests r) <->
                In m ms /\ m_version m < dsv /\ should_clean pol m = true /\ ~ In (m_version m) tags)
  /\ (forall m, In m ms -> dsv <= latest_version ms -> m_version m = latest_version ms -> ~ In m (rm_manifests r))
  /\ (forall m, In m ms -> In (m_version m) tags -> ~ In m (rm_manifests r)).
Proof.
  intros dsv tags pol now ms files r H. apply run_cleanup_ok in H. subst r.
  unfold delete_unreferenced_files. cbn [rm_files rm_manifests].
  assert (OLD : forall m, In m (i_old (process_manifests dsv tags pol ms)) <->
                In m ms /\ m_version m < dsv /\ should_clean pol m = true /\ ~ In (m_version m) tags).
  { intro m. rewrite insp_old. unfold in_working_set, is_latest.
    rewrite !orb_false_iff, negb_false_iff, N.leb_gt, <- mem_N_In. split.
    - intros [A [[B C] D]]. repeat split; auto. intro E; congruence.
    - intros [A [B [C D]]]. repeat split; auto.
      destruct (mem_N (m_version m) tags); [exfalso; apply D; reflexivity | reflexivity]. }
  split; [|split; [|split; [|split]]].
  - intros m f Hm Hw Hwf Hf. apply filter_In in Hf as [_ Hf]. unfold removes in Hf.
    apply andb_true_iff in Hf as [_ Hf].
    pose proof (decision_safe dsv tags pol ms _ _ m Hf Hm Hw Hwf) as T. split; [exact T|].
    unfold needs. destruct (needs_refs (m_refs m) (f_path f)) eqn:E; [|reflexivity].
    apply needs_touches in E. congruence.
  - intros f Hf. apply filter_In in Hf as [Hin Hf]. split; [exact Hin|]. unfold removes in Hf.
    apply andb_true_iff in Hf as [_ Hf].
    destruct (wf_manifest_path (f_path f)) eqn:E; [|reflexivity].
    rewrite (pinr_manifest_file _ _ _ E) in Hf. discriminate.
  - exact OLD.
  - intros m Hm Hd Hv Ho. apply OLD in Ho as (_ & Hlt & _). lia.
  - intros m Hm Ht Ho. apply OLD in Ho as (_ & _ & _ & Hn). exact (Hn Ht).
Qed.

(* ------------------------------------------------------------------------------------------ *)
(* F7: references from branches / shallow clones                                                *)
(* ------------------------------------------------------------------------------------------ *)
Theorem outside_branch_class : forall dsv tags pol now ms files r ext,
  run_cleanup dsv tags pol now ms files = Ok r ->
  (forall m, In m ms -> wf_refs (m_refs m) = true) ->
  Known_C08_cleanup_ignores_branch_refs dsv tags pol ms ext = false ->
  forall e f, In e ext -> In f (rm_files r) -> needs_refs e (f_path f) = false.
Proof.
  intros dsv tags pol now ms files r ext Hrun Hwf Hk e f He Hf.
  destruct (retained_readable _ _ _ _ _ _ _ Hrun) as (SAFE & _).
  unfold Known_C08_cleanup_ignores_branch_refs in Hk.
  assert (Hke : negb (forallb (kept_needs dsv tags pol ms) (r_data e ++ r_del e ++ r_tx e))
                || negb (forallb (kept_idx dsv tags pol ms) (r_idx e)) = false).
  { destruct (negb (forallb (kept_needs dsv tags pol ms) (r_data e ++ r_del e ++ r_tx e))
              || negb (forallb (kept_idx dsv tags pol ms) (r_idx e))) eqn:E; [|reflexivity].
    assert (X : existsb (fun r0 => negb (forallb (kept_needs dsv tags pol ms) (r_data r0 ++ r_del r0 ++ r_tx r0))
                                   || negb (forallb (kept_idx dsv tags pol ms) (r_idx r0))) ext = true).
    { apply existsb_exists. exists e. split; assumption. }
    congruence. }
  apply orb_false_iff in Hke as [K1 K2]. apply negb_false_iff in K1. apply negb_false_iff in K2.
  rewrite forallb_forall in K1, K2.
  assert (KN : forall p, kept_needs dsv tags pol ms p = true -> p = f_path f -> False).
  { intros p Hp ->. unfold kept_needs in Hp. apply existsb_exists in Hp as (m & Hm & Hp).
    apply andb_true_iff in Hp as [Hw Hn].
    destruct (SAFE m f Hm Hw (Hwf m Hm) Hf) as [_ N]. congruence. }
  destruct (needs_refs e (f_path f)) eqn:E; [exfalso|reflexivity].
  unfold needs_refs in E. repeat (apply orb_true_iff in E as [E|E]).
  - apply mem_path_In in E. eapply KN; [apply K1; rewrite !in_app_iff; left; exact E | reflexivity].
  - apply mem_path_In in E. eapply KN; [apply K1; rewrite !in_app_iff; right; left; exact E | reflexivity].
  - apply mem_path_In in E. eapply KN; [apply K1; rewrite !in_app_iff; right; right; exact E | reflexivity].
  - destruct (index_uuid (f_path f)) as [u|] eqn:U; [|discriminate]. apply mem_seg_In in E.
    pose proof (K2 u E) as Hk2. unfold kept_idx in Hk2. apply existsb_exists in Hk2 as (m & Hm & Hp).
    apply andb_true_iff in Hp as [Hw Hn].
    destruct (SAFE m f Hm Hw (Hwf m Hm) Hf) as [_ N]. unfold needs, needs_refs in N. rewrite U, Hn in N.
    rewrite !orb_true_r in N. discriminate.
Qed.

(* the scenario of F7: main v1 = {a}, branch dev created from v1, main overwritten (v2 = {b}), cleanup *)
Definition f7_a : path := [sg "data"; sg "a.lance"].
Definition f7_b : path := [sg "data"; sg "b.lance"].
Definition f7_ms : list manifest :=
  [ {| m_path := [sg "_versions"; sg "1.manifest"]; m_version := 1; m_ts := 1000; m_size := 10;
       m_refs := {| r_data := [f7_a]; r_del := []; r_tx := []; r_idx := [] |} |};
    {| m_path := [sg "_versions"; sg "2.manifest"]; m_version := 2; m_ts := 2000; m_size := 10;
       m_refs := {| r_data := [f7_b]; r_del := []; r_tx := []; r_idx := [] |} |} ].
Definition f7_files : list file :=
  [ {| f_path := f7_a; f_mtime := 900; f_size := 5 |}; {| f_path := f7_b; f_mtime := 1900; f_size := 5 |} ].
Definition f7_branch : refs := {| r_data := [f7_a]; r_del := []; r_tx := []; r_idx := [] |}.
Definition f7_pol : policy :=
  {| before_timestamp := Some 5000; before_version := None; delete_unverified := false; error_if_tagged_old_versions := false |}.

Lemma branch_refs_refuted :
  Known_C08_cleanup_ignores_branch_refs 2 [] f7_pol f7_ms [f7_branch] = true /\
  (forall m, In m f7_ms -> wf_refs (m_refs m) = true) /\ wf_refs f7_branch = true /\
  exists r f, run_cleanup 2 [] f7_pol 1000000000000000000 f7_ms f7_files = Ok r /\
              In f (rm_files r) /\ needs_refs f7_branch (f_path f) = true.
Proof.
  split; [vm_compute; reflexivity|]. split.
  { intros m [<-|[<-|[]]]; vm_compute; reflexivity. }
  split; [vm_compute; reflexivity|].
  eexists. exists {| f_path := f7_a; f_mtime := 900; f_size := 5 |}.
  split; [vm_compute; reflexivity|]. split; [left; reflexivity | vm_compute; reflexivity].
Qed.

(* ------------------------------------------------------------------------------------------ *)
(* auto_cleanup_hook                                                                            *)
(* ------------------------------------------------------------------------------------------ *)
Definition auto_policy (cfg : auto_cfg) (now : N) (bv : option N) : policy :=
  {| before_timestamp := match ac_older_than cfg with Good d => Some (now - d) | _ => None end;
     before_version := bv; delete_unverified := false; error_if_tagged_old_versions := true |}.

Theorem auto_trigger : forall cfg version now versions,
  (* it fires only when version mod interval = 0, and then with exactly the configured policy *)
  (forall pol, auto_cleanup_hook cfg version now versions = Ok (Some pol) ->
     exists i, ac_interval cfg = Good i /\ i <> 0 /\ version mod i = 0 /\
               ((ac_retain cfg = Absent /\ pol = auto_policy cfg now None) \/
                (exists n v, ac_retain cfg = Good n /\ retain_n_versions versions n = Ok v /\ pol = auto_policy cfg now (Some v))))
  (* it does fire then *)
  /\ (forall i, ac_interval cfg = Good i -> i <> 0 -> version mod i = 0 -> ac_older_than cfg <> Bad ->
        (ac_retain cfg = Absent -> auto_cleanup_hook cfg version now versions = Ok (Some (auto_policy cfg now None))) /\
        (forall n v, ac_retain cfg = Good n -> retain_n_versions versions n = Ok v ->
                     auto_cleanup_hook cfg version now versions = Ok (Some (auto_policy cfg now (Some v)))))
  (* and does nothing otherwise *)
  /\ (forall i, ac_interval cfg = Good i -> i <> 0 -> version mod i <> 0 -> auto_cleanup_hook cfg version now versions = Ok None)
  /\ (ac_interval cfg = Absent -> auto_cleanup_hook cfg version now versions = Ok None).
Proof.
  intros cfg version now versions. unfold auto_cleanup_hook, auto_policy.
  split; [|split; [|split]].
  - intros pol H. destruct (ac_interval cfg) as [| |i] eqn:I; try discriminate.
    destruct (i =? 0) eqn:Z; [discriminate|]. apply N.eqb_neq in Z.
    destruct (version mod i =? 0) eqn:M; cbn [negb] in H; [|discriminate]. apply N.eqb_eq in M.
    exists i. repeat split; auto.
    destruct (ac_older_than cfg) eqn:O; try discriminate;
      destruct (ac_retain cfg) as [| |n] eqn:R; try discriminate.
    + left. inversion H. split; reflexivity.
    + right. destruct (retain_n_versions versions n) as [v| |] eqn:RV; try discriminate. inversion H. exists n, v. auto.
    + left. inversion H. split; reflexivity.
    + right. destruct (retain_n_versions versions n) as [v'| |] eqn:RV; try discriminate. inversion H. exists n, v'. auto.
  - intros i I Z M O. rewrite I. apply N.eqb_neq in Z. rewrite Z. apply N.eqb_eq in M. rewrite M. cbn [negb].
    split.
    + intro R. rewrite R. destruct (ac_older_than cfg); try reflexivity. congruence.
    + intros n v R RV. rewrite R, RV. destruct (ac_older_than cfg); try reflexivity. congruence.
  - intros i I Z M. rewrite I. apply N.eqb_neq in Z. rewrite Z. apply N.eqb_neq in M. rewrite M. reflexivity.
  - intro I. rewrite I. reflexivity.
Qed.

(* ------------------------------------------------------------------------------------------ *)
(* cleanup interleaved with writers                                                             *)
(* ------------------------------------------------------------------------------------------ *)
Definition touch_spec (r : refs) (p : path) : Prop :=
  In p (r_data r) \/ In p (r_del r) \/ In p (r_tx r) \/
  (starts_with p "_indices" = true /\ exists u, nth_error p 1 = Some u /\ In u (r_idx r)).

Lemma touches_iff : forall r p, touches r p = true <-> touch_spec r p.
Proof.
  intros r p. split; [apply touches_cases|].
  unfold touch_spec, touches, needs_refs. intros [H|[H|[H|[Hs [u [Hn Hu]]]]]].
  - apply mem_path_In in H. rewrite H. reflexivity.
  - apply mem_path_In in H. rewrite H. rewrite !orb_true_r. reflexivity.
  - apply mem_path_In in H. rewrite H. rewrite !orb_true_r. reflexivity.
  - apply mem_seg_In in Hu. rewrite Hs, Hn, Hu. rewrite !orb_true_r. reflexivity.
Qed.

Lemma touches_add : forall a b p, touches (refs_add a b) p = true -> touches a p = true \/ touches b p = true.
Proof.
  intros a b p H. apply touches_iff in H. rewrite !touches_iff. unfold touch_spec in *. cbn [refs_add r_data r_del r_tx r_idx] in H.
  rewrite !in_app_iff in H. destruct H as [[H|H]|[[H|H]|[[H|H]|[Hs [u [Hn Hu]]]]]]; auto 6.
  apply in_app_iff in Hu as [Hu|Hu]; [right|left]; right; right; right; split; auto; exists u; auto.
Qed.

Lemma touches_keep : forall k ki r p, touches (keep_refs k ki r) p = true -> touches r p = true.
Proof.
  intros k ki r p H. apply touches_iff in H. apply touches_iff. unfold touch_spec in *. cbn [keep_refs r_data r_del r_tx r_idx] in H.
  destruct H as [H|[H|[H|[Hs [u [Hn Hu]]]]]].
  - apply filter_In in H as [H _]. auto.
  - apply filter_In in H as [H _]. auto.
  - apply filter_In in H as [H _]. auto.
  - apply filter_In in Hu as [Hu _]. right; right; right. split; auto. exists u. auto.
Qed.

Lemma touches_no_refs : forall p, touches no_refs p = false.
Proof.
  intro p. destruct (touches no_refs p) eqn:E; [|reflexivity]. apply touches_iff in E.
  destruct E as [[]|[[]|[[]|[_ [u [_ []]]]]]].
Qed.

Lemma forallb_app' : forall {A} (f : A -> bool) l1 l2, forallb f (l1 ++ l2) = forallb f l1 && forallb f l2.
Proof. intros A f l1 l2. induction l1 as [|a l1 IH]; cbn [app forallb]; [reflexivity|]. rewrite IH, andb_assoc. reflexivity. Qed.

Lemma forallb_filter : forall {A} (f k : A -> bool) l, forallb f l = true -> forallb f (filter k l) = true.
Proof.
  intros A f k l H. rewrite forallb_forall in *. intros x Hx. apply filter_In in Hx as [Hx _]. auto.
Qed.

Lemma wf_add : forall a b, wf_refs a = true -> wf_refs b = true -> wf_refs (refs_add a b) = true.
Proof.
  intros a b Ha Hb. unfold wf_refs in *. cbn [refs_add r_data r_del r_tx].
  apply andb_true_iff in Ha as [Ha Ha3]. apply andb_true_iff in Ha as [Ha1 Ha2].
  apply andb_true_iff in Hb as [Hb Hb3]. apply andb_true_iff in Hb as [Hb1 Hb2].
  rewrite !forallb_app', Ha1, Ha2, Ha3, Hb1, Hb2, Hb3. reflexivity.
Qed.

Lemma wf_keep : forall k ki r, wf_refs r = true -> wf_refs (keep_refs k ki r) = true.
Proof.
  intros k ki r H. unfold wf_refs in *. cbn [keep_refs r_data r_del r_tx].
  apply andb_true_iff in H as [H H3]. apply andb_true_iff in H as [H1 H2].
  rewrite (forallb_filter _ k _ H1), (forallb_filter _ k _ H2), (forallb_filter _ k _ H3). reflexivity.
Qed.

Lemma wf_no_refs : wf_refs no_refs = true. Proof. reflexivity. Qed.

Lemma latest_refs_cases : forall ms,
  latest_refs ms = no_refs \/ exists m, In m ms /\ m_version m = latest_version ms /\ latest_refs ms = m_refs m.
Proof.
  intro ms. unfold latest_refs.
  destruct (filter (fun m => m_version m =? latest_version ms) ms) as [|m l] eqn:E; [left; reflexivity|].
  right. exists m. assert (H : In m (filter (fun m => m_version m =? latest_version ms) ms)) by (rewrite E; left; reflexivity).
  apply filter_In in H as [H1 H2]. apply N.eqb_eq in H2. auto.
Qed.

Lemma find_file_some : forall p fs f, find_file p fs = Some f -> In f fs /\ p = f_path f.
Proof.
  intros p fs f. induction fs as [|g fs IH]; cbn [find_file]; [discriminate|].
  destruct (path_eqb p (f_path g)) eqn:E.
  - intro H. inversion H; subst. apply path_eqb_eq in E. split; [left; reflexivity | exact E].
  - intro H. destruct (IH H) as [A B]. split; [right; exact A | exact B].
Qed.

Lemma latest_attained : forall ms, ms <> [] -> exists m, In m ms /\ m_version m = latest_version ms.
Proof.
  induction ms as [|a l IH]; [congruence|]. intros _. destruct l as [|b l'].
  - exists a. split; [left; reflexivity|]. unfold latest_version. cbn [map fold_right]. lia.
  - destruct IH as (m & Hm & Hv); [discriminate|]. unfold latest_version in *.
    change (fold_right N.max 0 (map m_version (a :: b :: l')))
      with (N.max (m_version a) (fold_right N.max 0 (map m_version (b :: l')))).
    destruct (N.max_spec (m_version a) (fold_right N.max 0 (map m_version (b :: l')))) as [[_ E]|[_ E]]; rewrite E.
    + exists m. split; [right; exact Hm | exact Hv].
    + exists a. split; [left; reflexivity | reflexivity].
Qed.

Section Race.
  Variable dsv : N.
  Variable tags : list N.
  Variable pol : policy.
  Variable now : N.
  Variable writers : N -> writer.
  Variable files0 : list file.
  Variable ms0 : list manifest.

  Notation thr := (verification_threshold now).
  Notation ws := (in_working_set dsv tags pol).
  Definition tclaims (t : N) (p : path) : bool := touches (w_own (writers t)) p.

  Hypothesis Hdu : delete_unverified pol = false.
  Hypothesis Hdsv : dsv <= latest_version ms0.
  Hypothesis Hne : ms0 <> [].
  Hypothesis Hwf0 : forall m, In m ms0 -> wf_refs (m_refs m) = true.
  Hypothesis Hwfw : forall t, wf_refs (w_own (writers t)) = true.
  Hypothesis Hfresh_m : forall t p m, tclaims t p = true -> In m ms0 -> touches (m_refs m) p = false.
  Hypothesis Hfresh_f : forall t f, In f files0 -> tclaims t (f_path f) = true -> thr <= f_mtime f.
  Hypothesis Hyoung : forall t f, In f (w_puts (writers t)) -> thr <= f_mtime f.

  Notation step := (step dsv tags pol now writers).
  Notation run := (run dsv tags pol now writers).

  Record Inv (w : world) : Prop := {
    iA : forall f t, In f (wd_files w) -> tclaims t (f_path f) = true -> thr <= f_mtime f;
    iB : exists m, In m (wd_manifests w) /\ dsv <= m_version m;
    iC : forall m p, In m (wd_manifests w) -> dsv <= m_version m -> touches (m_refs m) p = true ->
           (exists m0, In m0 ms0 /\ dsv <= m_version m0 /\ touches (m_refs m0) p = true) \/ (exists t, tclaims t p = true);
    iC2 : forall m, In m (wd_manifests w) -> In m ms0 \/ dsv <= m_version m;
    iD : forall p, In p (wd_pending w) \/ In p (wd_removed w) ->
           (forall m0, In m0 ms0 -> dsv <= m_version m0 -> touches (m_refs m0) p = false) /\ (forall t, tclaims t p = false);
    iE : wd_phase w = CStart -> incl ms0 (wd_manifests w) /\ wd_pending_m w = [];
    iF : forall m, In m (wd_manifests w) -> wf_refs (m_refs m) = true;
    iG : forall insp, wd_phase w = CInspected insp ->
           exists S, insp = process_manifests dsv tags pol S /\ incl ms0 S /\
                     (forall m, In m S -> wf_refs (m_refs m) = true /\ (In m ms0 \/ dsv <= m_version m));
    iH : forall v, In v (wd_pending_m w) -> v < dsv;
    iT : forall t f, In f (ws_todo (wd_writers w t)) -> In f (w_puts (writers t));
    iW : forall t m, ws_committed (wd_writers w t) = Some m ->
           In m (wd_manifests w) /\ dsv < m_version m /\ ws_todo (wd_writers w t) = [];
    iS : forall f, In f files0 -> In (f_path f) (wd_removed w) \/ In f (wd_files w);
    iS2 : forall t f, In f (w_puts (writers t)) ->
           In f (ws_todo (wd_writers w t)) \/ In (f_path f) (wd_removed w) \/ In f (wd_files w)
  }.

  Lemma latest_in : exists m, In m ms0 /\ m_version m = latest_version ms0.
  Proof. apply latest_attained. exact Hne. Qed.

  Lemma inv_init : Inv (init writers files0 ms0).
  Proof.
    destruct latest_in as (mL & HmL & HvL).
    constructor; cbn [init wd_files wd_manifests wd_phase wd_pending wd_pending_m wd_removed wd_writers ws_todo ws_committed].
    - intros f t Hf Hc. eapply Hfresh_f; eassumption.
    - exists mL. split; [exact HmL | lia].
    - intros m p Hm Hv Ht. left. exists m. auto.
    - intros m Hm. left. exact Hm.
    - intros p [[]|[]].
    - intros _. split; [apply incl_refl | reflexivity].
    - exact Hwf0.
    - intros insp H. discriminate.
    - intros v [].
    - intros t f H. exact H.
    - intros t m H. discriminate.
    - intros f Hf. right. exact Hf.
    - intros t f Hf. left. exact Hf.
  Qed.

  Lemma not_ws_lt : forall m, ws m = false -> m_version m < dsv.
  Proof.
    intros m H. unfold in_working_set, is_latest in H. apply orb_false_iff in H as [H _]. apply orb_false_iff in H as [H _].
    apply N.leb_gt in H. exact H.
  Qed.

  Lemma ge_ws : forall m, dsv <= m_version m -> ws m = true.
  Proof. intros m H. unfold in_working_set, is_latest. apply N.leb_le in H. rewrite H. reflexivity. Qed.

  Lemma inv_step : forall w e, Inv w -> Inv (step w e).
  Proof.
    intros w e I. destruct e as [|p|p|v|t]; cbn [Model_Cleanup.step].
    - (* ECInspect *)
      destruct (wd_phase w) eqn:Ph; try exact I.
      destruct (iE w I Ph) as [Hincl Hpm].
      destruct (error_if_tagged_old_versions pol && _).
      + constructor; cbn [wd_files wd_manifests wd_phase wd_pending wd_pending_m wd_removed wd_writers];
          try (apply I); try discriminate.
      + constructor; cbn [wd_files wd_manifests wd_phase wd_pending wd_pending_m wd_removed wd_writers];
          try (apply I); try discriminate.
        * intros insp H. inversion H; subst insp. exists (wd_manifests w). split; [reflexivity|]. split; [exact Hincl|].
          intros m Hm. split; [apply (iF w I m Hm) | apply (iC2 w I m Hm)].
        * intros v Hv. apply in_map_iff in Hv as (m & <- & Hm). apply insp_old in Hm as [_ Hm]. apply not_ws_lt. exact Hm.
    - (* ECSee *)
      destruct (wd_phase w) eqn:Ph; try exact I.
      destruct (find_file p (wd_files w)) as [f|] eqn:Ff; try exact I.
      destruct (removes pol now insp f) eqn:Rm; try exact I.
      destruct (find_file_some _ _ _ Ff) as [Hf ->].
      destruct (iG w I insp Ph) as (S & -> & Hincl & HS).
      unfold removes in Rm. apply andb_true_iff in Rm as [_ Rm].
      constructor; cbn [wd_files wd_manifests wd_phase wd_pending wd_pending_m wd_removed wd_writers]; try (apply I).
      + intros q [[<-|Hq]|Hq]; [|apply (iD w I); auto|apply (iD w I); auto]. split.
        * intros m0 Hm0 Hv. eapply decision_safe; [exact Rm | apply Hincl; exact Hm0 | apply ge_ws; exact Hv | apply Hwf0; exact Hm0].
        * intro t. destruct (tclaims t (f_path f)) eqn:Tc; [exfalso|reflexivity].
          pose proof (iA w I f t Hf Tc) as Hy.
          assert (Mip : maybe_in_progress pol now f = true).
          { unfold maybe_in_progress. rewrite Hdu. cbn [negb andb]. apply N.leb_le. exact Hy. }
          rewrite Mip in Rm. rewrite decision_in_progress in Rm; [discriminate|].
          intros m Hm Hw. destruct (HS m Hm) as [_ [Hin|Hge]].
          -- eapply Hfresh_m; eassumption.
          -- rewrite (ge_ws m Hge) in Hw. discriminate.
      + intro H. discriminate.
      + intros insp0 H. apply (iG w I). rewrite Ph. exact H.
    - (* ECDelete *)
      destruct (mem_path p (wd_pending w)) eqn:Mp; try exact I. apply mem_path_In in Mp.
      constructor; cbn [wd_files wd_manifests wd_phase wd_pending wd_pending_m wd_removed wd_writers]; try (apply I).
      + intros f t Hf. apply filter_In in Hf as [Hf _]. apply (iA w I). exact Hf.
      + intros q [Hq|[<-|Hq]]; apply (iD w I); auto. apply filter_In in Hq as [Hq _]. auto.
      + intros f Hf. destruct (iS w I f Hf) as [H|H]; [left; right; exact H|].
        destruct (path_eqb p (f_path f)) eqn:E.
        * apply path_eqb_eq in E. left. left. exact E.
        * right. apply filter_In. split; [exact H | rewrite E; reflexivity].
      + intros t f Hf. destruct (iS2 w I t f Hf) as [H|[H|H]]; [left; exact H | right; left; right; exact H|].
        destruct (path_eqb p (f_path f)) eqn:E.
        * apply path_eqb_eq in E. right. left. left. exact E.
        * right. right. apply filter_In. split; [exact H | rewrite E; reflexivity].
    - (* ECDeleteManifest *)
      destruct (mem_N v (wd_pending_m w)) eqn:Mv; try exact I. apply mem_N_In in Mv.
      pose proof (iH w I v Mv) as Hlt.
      constructor; cbn [wd_files wd_manifests wd_phase wd_pending wd_pending_m wd_removed wd_writers]; try (apply I).
      + destruct (iB w I) as (m & Hm & Hv). exists m. split; [|exact Hv]. apply filter_In. split; [exact Hm|].
        apply negb_true_iff. apply N.eqb_neq. lia.
      + intros m q Hm. apply filter_In in Hm as [Hm _]. apply (iC w I). exact Hm.
      + intros m Hm. apply filter_In in Hm as [Hm _]. apply (iC2 w I). exact Hm.
      + intro Ph. destruct (iE w I Ph) as [_ E]. rewrite E in Mv. destruct Mv.
      + intros m Hm. apply filter_In in Hm as [Hm _]. apply (iF w I). exact Hm.
      + intros x Hx. apply filter_In in Hx as [Hx _]. apply (iH w I). exact Hx.
      + intros t m Hc. destruct (iW w I t m Hc) as (A & B & C). split; [|split; assumption].
        apply filter_In. split; [exact A|]. apply negb_true_iff. apply N.eqb_neq. lia.
    - (* EW *)
      destruct (ws_committed (wd_writers w t)) as [mc|] eqn:Cm; try exact I.
      destruct (ws_todo (wd_writers w t)) as [|f rest] eqn:Td.
      + (* commit *)
        set (wr := writers t).
        set (M := wd_manifests w).
        set (m := {| m_path := w_mpath wr; m_version := latest_version M + 1; m_ts := w_ts wr; m_size := w_msize wr;
                     m_refs := refs_add (keep_refs (w_keep wr) (w_keep_idx wr) (latest_refs M)) (w_own wr) |}).
        assert (Hlat : dsv <= latest_version M).
        { destruct (iB w I) as (m' & Hm' & Hv'). pose proof (latest_version_ge M m' Hm'). lia. }
        constructor; cbn [wd_files wd_manifests wd_phase wd_pending wd_pending_m wd_removed wd_writers]; try (apply I).
        * exists m. split; [left; reflexivity|]. cbn [m_version m]. lia.
        * intros m' q [<-|Hm'] Hv Ht; [|apply (iC w I m' q Hm' Hv Ht)].
          cbn [m_refs m] in Ht. apply touches_add in Ht as [Ht|Ht].
          -- apply touches_keep in Ht. destruct (latest_refs_cases M) as [E|(mL & HmL & HvL & E)]; rewrite E in Ht.
             ++ rewrite touches_no_refs in Ht. discriminate.
             ++ apply (iC w I mL q HmL); [lia | exact Ht].
          -- right. exists t. exact Ht.
        * intros m' [<-|Hm']; [right; cbn [m_version m]; lia | apply (iC2 w I m' Hm')].
        * intro Ph. destruct (iE w I Ph) as [A B]. split; [apply incl_tl; exact A | exact B].
        * intros m' [<-|Hm']; [|apply (iF w I m' Hm')]. cbn [m_refs m]. apply wf_add; [apply wf_keep|apply Hwfw].
          destruct (latest_refs_cases M) as [E|(mL & HmL & _ & E)]; rewrite E; [apply wf_no_refs | apply (iF w I mL HmL)].
        * intros t' f. unfold set_writer. destruct (t' =? t) eqn:Et; cbn [ws_todo]; [intros [] | apply (iT w I)].
        * intros t' m'. unfold set_writer. destruct (t' =? t) eqn:Et; cbn [ws_committed ws_todo].
          -- intro H. inversion H; subst m'. split; [left; reflexivity|]. split; [cbn [m_version m]; lia | reflexivity].
          -- intro H. destruct (iW w I t' m' H) as (A & B & C). split; [right; exact A | split; assumption].
        * intros t' f Hf. unfold set_writer. destruct (t' =? t) eqn:Et; cbn [ws_todo]; [|apply (iS2 w I t' f Hf)].
          apply N.eqb_eq in Et. subst t'. destruct (iS2 w I t f Hf) as [H|H]; [rewrite Td in H; destruct H | right; exact H].
      + (* put *)
        constructor; cbn [wd_files wd_manifests wd_phase wd_pending wd_pending_m wd_removed wd_writers]; try (apply I).
        * intros g t' [<-|Hg] Hc; [|apply (iA w I g t' Hg Hc)].
          apply (Hyoung t). apply (iT w I). rewrite Td. left. reflexivity.
        * intros t' g. unfold set_writer. destruct (t' =? t) eqn:Et; cbn [ws_todo]; [|apply (iT w I)].
          apply N.eqb_eq in Et. subst t'. intro Hg. apply (iT w I). rewrite Td. right. exact Hg.
        * intros t' m'. unfold set_writer. destruct (t' =? t) eqn:Et; cbn [ws_committed ws_todo]; [discriminate | apply (iW w I)].
        * intros g Hg. destruct (iS w I g Hg) as [H|H]; [left; exact H | right; right; exact H].
        * intros t' g Hg. unfold set_writer. destruct (t' =? t) eqn:Et; cbn [ws_todo].
          -- apply N.eqb_eq in Et. subst t'. destruct (iS2 w I t g Hg) as [H|[H|H]].
             ++ rewrite Td in H. destruct H as [<-|H]; [right; right; left; reflexivity | left; exact H].
             ++ right; left; exact H.
             ++ right; right; right; exact H.
          -- destruct (iS2 w I t' g Hg) as [H|[H|H]]; [left; exact H | right; left; exact H | right; right; right; exact H].
  Qed.

  Lemma inv_run : forall evs w, Inv w -> Inv (run evs w).
  Proof.
    induction evs as [|e evs IH]; intros w I; [exact I|]. cbn [Model_Cleanup.run fold_left].
    apply IH. apply inv_step. exact I.
  Qed.

  Theorem in_progress_safe : forall evs,
    let w := run evs (init writers files0 ms0) in
    (* nothing connected with a published version >= the cleanup's dataset version is ever removed *)
    (forall m p, In m (wd_manifests w) -> dsv <= m_version m -> In p (wd_removed w) ->
                 touches (m_refs m) p = false /\ needs m p = false)
    (* a writer that committed published a version > dsv that is still there and whose files all exist *)
    /\ (forall t m, ws_committed (wd_writers w t) = Some m ->
          In m (wd_manifests w) /\ dsv < m_version m /\
          (forall f, In f (w_puts (writers t)) -> needs m (f_path f) = true -> In f (wd_files w)))
    (* objects of the initial store that a published version >= dsv needs are still there *)
    /\ (forall m f, In m (wd_manifests w) -> dsv <= m_version m -> In f files0 -> needs m (f_path f) = true -> In f (wd_files w))
    (* no manifest of version >= dsv is deleted: in particular the latest one *)
    /\ (forall v, In v (wd_pending_m w) -> v < dsv).
  Proof.
    intros evs w. pose proof (inv_run evs _ inv_init) as I. fold w in I.
    assert (SAFE : forall m p, In m (wd_manifests w) -> dsv <= m_version m -> In p (wd_removed w) ->
                   touches (m_refs m) p = false /\ needs m p = false).
    { intros m p Hm Hv Hp. assert (T : touches (m_refs m) p = false).
      { destruct (touches (m_refs m) p) eqn:T; [exfalso|reflexivity].
        destruct (iD w I p (or_intror Hp)) as [D1 D2].
        destruct (iC w I m p Hm Hv T) as [(m0 & A & B & C)|(t & C)].
        - rewrite (D1 m0 A B) in C. discriminate.
        - rewrite (D2 t) in C. discriminate. }
      split; [exact T|]. unfold needs. destruct (needs_refs (m_refs m) p) eqn:E; [|reflexivity].
      apply needs_touches in E. congruence. }
    split; [exact SAFE|]. split; [|split].
    - intros t m Hc. destruct (iW w I t m Hc) as (A & B & C). split; [exact A|]. split; [exact B|].
      intros f Hf Hn. destruct (iS2 w I t f Hf) as [H|[H|H]].
      + rewrite C in H. destruct H.
      + destruct (SAFE m (f_path f) A (N.lt_le_incl _ _ B) H) as [_ N]. congruence.
      + exact H.
    - intros m f Hm Hv Hf Hn. destruct (iS w I f Hf) as [H|H]; [|exact H].
      destruct (SAFE m (f_path f) Hm Hv H) as [_ N]. congruence.
    - exact (iH w I).
  Qed.
End Race.
