(* Model of rust/lance/src/dataset/refs.rs (name grammar, get_cleanup_path, Tags / Branches as
   finite maps), rust/lance/src/dataset/branch_location.rs (path arithmetic of BranchLocation),
   Manifest::shallow_clone (base_id rewriting, rust/lance-table/src/format/manifest.rs) and a small
   object-store model of branch / tag / clone storage.  Executable definitions only.

   Strings are lists of Unicode scalar values (N).  `char::is_alphanumeric` is the ASCII table below on
   code points < 128; on the others it is the parameter [ext] (the correspondence supplies Rust's answer
   for every non-ASCII code point that occurs in a case). *)
From LanceV Require Import Common.Base.
Local Open Scope N_scope.

(* notations rather than definitions: rewriting must see through them *)
Notation str := (list N) (only parsing).
Definition str_eqb : str -> str -> bool := list_eqb N.eqb.
Definition is_empty (s : str) : bool := match s with [] => true | _ => false end.
Definition opt_none {A} (o : option A) : bool := match o with None => true | Some _ => false end.

Definition c_slash : N := 47.
Definition c_dot : N := 46.
Definition c_dash : N := 45.
Definition c_us : N := 95.
Definition c_bslash : N := 92.
Definition s_lock : str := [46; 108; 111; 99; 107].          (* ".lock" *)
Definition s_main : str := [109; 97; 105; 110].              (* "main" *)
Definition s_tree : str := [116; 114; 101; 101].             (* "tree" *)
Definition s_root : str := [114; 111; 111; 116].             (* "root" *)
Definition s_mem_root : str := [109; 101; 109; 111; 114; 121; 58; 47; 47; 114; 111; 111; 116]. (* "memory://root" *)
Definition s_versions : str := [95; 118; 101; 114; 115; 105; 111; 110; 115].                 (* "_versions" *)
Definition s_data : str := [100; 97; 116; 97].                                               (* "data" *)
Definition s_transactions : str := [95; 116; 114; 97; 110; 115; 97; 99; 116; 105; 111; 110; 115]. (* "_transactions" *)
Definition s_deletions : str := [95; 100; 101; 108; 101; 116; 105; 111; 110; 115].           (* "_deletions" *)
Definition s_indices : str := [95; 105; 110; 100; 105; 99; 101; 115].                        (* "_indices" *)
Definition s_refs : str := [95; 114; 101; 102; 115].                                         (* "_refs" *)
Definition s_tags : str := [116; 97; 103; 115].                                              (* "tags" *)
Definition s_branches : str := [98; 114; 97; 110; 99; 104; 101; 115].                        (* "branches" *)

(* ---- the pieces of Rust's str API that the code uses ---- *)
Fixpoint starts_with (p s : str) : bool :=
  match p, s with
  | [], _ => true
  | a :: p', b :: s' => (a =? b) && starts_with p' s'
  | _ :: _, [] => false
  end.
Definition ends_with (p s : str) : bool := starts_with (rev p) (rev s).
Fixpoint contains (p s : str) : bool :=
  starts_with p s || match s with [] => false | _ :: t => contains p t end.
(* str::split(sep): always at least one piece *)
Fixpoint split (sep : N) (s : str) : list str :=
  match s with
  | [] => [[]]
  | c :: t => if c =? sep then [] :: split sep t
              else match split sep t with
                   | [] => [[c]]
                   | h :: r => (c :: h) :: r
                   end
  end.
Fixpoint join (sep : N) (l : list str) : str :=
  match l with
  | [] => []
  | x :: r => match r with [] => x | _ :: _ => x ++ sep :: join sep r end
  end.
Definition strip_prefix (p s : str) : option str :=
  if starts_with p s then Some (skipn (length p) s) else None.
Definition strip_suffix (p s : str) : option str :=
  if ends_with p s then Some (firstn (length s - length p) s) else None.
Fixpoint trim_start (c : N) (s : str) : str :=
  match s with
  | x :: t => if x =? c then trim_start c t else s
  | [] => []
  end.
Definition trim_end (c : N) (s : str) : str := rev (trim_start c (rev s)).

(* ---- name grammar ---- *)
Definition ascii_alnum (c : N) : bool :=
  ((48 <=? c) && (c <=? 57)) || ((65 <=? c) && (c <=? 90)) || ((97 <=? c) && (c <=? 122)).
Definition is_alnum (ext : N -> bool) (c : N) : bool := if c <? 128 then ascii_alnum c else ext c.
Definition allowed (ext : N -> bool) (c : N) : bool :=
  is_alnum ext c || (c =? c_dot) || (c =? c_dash) || (c =? c_us).

(* the `for segment in branch_name.split('/')` loop: the first failing segment decides *)
Fixpoint seg_check (ext : N -> bool) (segs : list str) : option N :=
  match segs with
  | [] => None
  | seg :: r => if is_empty seg then Some 5
                else if negb (forallb (allowed ext) seg) then Some 6
                else seg_check ext r
  end.

(* check_valid_branch: None = Ok(()), Some k = the k-th `return Err` of the function, in source order *)
Definition check_valid_branch (ext : N -> bool) (s : str) : option N :=
  if is_empty s then Some 1
  else if starts_with [c_slash] s || ends_with [c_slash] s then Some 2
  else if contains [c_slash; c_slash] s then Some 3
  else if contains [c_dot; c_dot] s || contains [c_bslash] s then Some 4
  else match seg_check ext (split c_slash s) with
       | Some k => Some k
       | None => if ends_with s_lock s then Some 7
                 else if str_eqb s s_main then Some 8
                 else None
       end.

(* check_valid_tag: None = Ok(()), Some k = the k-th `return Err` *)
Definition check_valid_tag (ext : N -> bool) (s : str) : option N :=
  if is_empty s then Some 1
  else if negb (forallb (allowed ext) s) then Some 2
  else if starts_with [c_dot] s then Some 3
  else if ends_with [c_dot] s then Some 4
  else if ends_with s_lock s then Some 5
  else if contains [c_dot; c_dot] s then Some 6
  else None.

Definition valid_branch (ext : N -> bool) (s : str) : bool := opt_none (check_valid_branch ext s).
Definition valid_tag (ext : N -> bool) (s : str) : bool := opt_none (check_valid_tag ext s).
Definition no_ext : N -> bool := fun _ => false.

(* ---- BranchLocation (branch_location.rs); `bl_path` is the raw string of the object_store Path ---- *)
Record bloc := { bl_path : str; bl_uri : str; bl_branch : option str }.

Definition is_ascii_control (c : N) : bool := (c <? 32) || (c =? 127).
(* object_store 0.12 PathPart::parse *)
Definition part_ok (seg : str) : bool :=
  negb (str_eqb seg [c_dot]) && negb (str_eqb seg [c_dot; c_dot])
  && forallb (fun c => negb (is_ascii_control c || (c =? c_slash))) seg.
(* object_store 0.12 Path::parse: the raw string, or Err *)
Definition path_parse (s : str) : outcome str :=
  let stripped := match strip_prefix [c_slash] s with Some t => t | None => s end in
  if is_empty stripped then Ok []
  else
    let stripped := match strip_suffix [c_slash] stripped with Some t => t | None => stripped end in
    if forallb (fun seg => negb (is_empty seg) && part_ok seg) (split c_slash stripped) then Ok stripped else Err.

Definition join_str (base seg : str) : str :=
  let n := trim_start c_slash seg in
  if ends_with [c_slash] base then base ++ n else base ++ c_slash :: n.

(* non-windows build *)
Definition get_root_path (path_str branch : str) : outcome str :=
  match strip_suffix (s_tree ++ c_slash :: branch) path_str with
  | None => Err
  | Some root => if ends_with [c_slash] root then Ok (trim_end c_slash root) else Err
  end.

Definition find_main (l : bloc) : outcome bloc :=
  match bl_branch l with
  | None => Ok l
  | Some b =>
    match get_root_path (bl_path l) b, get_root_path (bl_uri l) b with
    | Ok rp, Ok ru =>
      match path_parse rp with
      | Ok p => Ok {| bl_path := p; bl_uri := ru; bl_branch := None |}
      | _ => Err
      end
    | _, _ => Err
    end
  end.

Definition find_branch (l : bloc) (name : option str) : outcome bloc :=
  if option_eqb str_eqb name (bl_branch l) then Ok l
  else match find_main l with
       | Ok root =>
         match name with
         | None => Ok root
         | Some t =>
           if is_empty t then Ok {| bl_path := bl_path l; bl_uri := bl_uri l; bl_branch := Some t |}
           else
             let segs := split c_slash t in
             let p := fold_left join_str segs (join_str (bl_path root) s_tree) in
             let u := fold_left join_str segs (join_str (bl_uri root) s_tree) in
             match path_parse p with
             | Ok pp => Ok {| bl_path := pp; bl_uri := u; bl_branch := Some t |}
             | _ => Err
             end
         end
       | _ => Err
       end.

(* ---- Branches::get_cleanup_path (segment-wise, after commit 1630147) ---- *)
Fixpoint common_len (a b : list str) : nat :=
  match a, b with
  | x :: a', y :: b' => if str_eqb x y then S (common_len a' b') else O
  | _, _ => O
  end.
Definition longest_used (segs : list str) (remaining : list str) : nat :=
  fold_left (fun acc cand => let c := common_len segs (split c_slash cand) in
                             if Nat.ltb acc c then c else acc) remaining O.
(* the relative directory, as segments: None = "used as a prefix of other branches" *)
Definition cleanup_segs (segs : list str) (remaining : list str) : outcome (option (list str)) :=
  let k := longest_used segs remaining in
  if Nat.eqb k (length segs) then Ok None
  else if Nat.ltb (length segs) (S k) then Panic            (* branch_segments[..=k] out of range *)
  else Ok (Some (firstn (S k) segs)).
Definition get_cleanup_path (base : bloc) (b : str) (remaining : list str) : outcome (option str) :=
  match cleanup_segs (split c_slash b) remaining with
  | Ok None => Ok None
  | Ok (Some rel) =>
    match find_branch base (Some (join c_slash rel)) with
    | Ok l => Ok (Some (bl_path l))
    | Err => Err
    | Panic => Panic
    end
  | Err => Err
  | Panic => Panic
  end.
(* the base location of the hook lance::dataset::refs::verif_get_cleanup_path *)
Definition hook_base : bloc := {| bl_path := s_root; bl_uri := s_mem_root; bl_branch := None |}.

(* ---- Tags and Branches as finite maps; branch directories (live or zombie) ---- *)
Notation refc := (option (list N) * N)%type (only parsing).                 (* (branch, version) *)
Notation rmap := (list (list N * (option (list N) * N))) (only parsing).
Fixpoint rm_get (m : rmap) (k : str) : option refc :=
  match m with
  | [] => None
  | (k', v) :: r => if str_eqb k k' then Some v else rm_get r k
  end.
Fixpoint rm_remove (m : rmap) (k : str) : rmap :=
  match m with
  | [] => []
  | (k', v) :: r => if str_eqb k k' then rm_remove r k else (k', v) :: rm_remove r k
  end.
Definition rm_set (m : rmap) (k : str) (v : refc) : rmap := (k, v) :: rm_remove m k.
Definition rm_keys (m : rmap) : list str := map fst m.

Fixpoint seg_prefix (p q : list str) : bool :=
  match p, q with
  | [], _ => true
  | a :: p', b :: q' => str_eqb a b && seg_prefix p' q'
  | _ :: _, [] => false
  end.

Record refs_state := {
  rs_tags : rmap;
  rs_branches : rmap;            (* name -> (parent branch, parent version) : the BranchContents files *)
  rs_dirs : list str             (* names n such that tree/n holds a dataset: live branches and zombies *)
}.
Definition rs_empty : refs_state := {| rs_tags := []; rs_branches := []; rs_dirs := [] |}.

(* [vex]: the manifest of (branch, version) exists when the call is made (an input of the model) *)
Inductive rop :=
| TCreate (t : str) (br : option str) (v : N) (vex : bool)
| TUpdate (t : str) (br : option str) (v : N) (vex : bool)
| TDelete (t : str)
| BCreate (n : str) (src : option str) (v : N) (vex : bool)   (* Dataset::create_branch; domain: n valid *)
| BDelete (n : str) (force : bool).                            (* Branches::delete; domain: force on an unlisted name only when tree/n holds a
                                                                  (zombie) dataset - without a directory the call fails NotFound on a local fs *)

(* result codes: 0 Ok, 1 InvalidRef, 2 RefConflict, 3 RefNotFound, 4 VersionNotFound, 9 any other error *)
Definition rstep (st : refs_state) (op : rop) : N * refs_state :=
  match op with
  | TCreate t br v vex =>
    if negb (valid_tag no_ext t) then (1, st)
    else if negb (opt_none (rm_get (rs_tags st) t)) then (2, st)
    else if negb vex then (4, st)
    else (0, {| rs_tags := rm_set (rs_tags st) t (br, v); rs_branches := rs_branches st; rs_dirs := rs_dirs st |})
  | TUpdate t br v vex =>
    if negb (valid_tag no_ext t) then (1, st)
    else if opt_none (rm_get (rs_tags st) t) then (3, st)
    else if negb vex then (4, st)
    else (0, {| rs_tags := rm_set (rs_tags st) t (br, v); rs_branches := rs_branches st; rs_dirs := rs_dirs st |})
  | TDelete t =>
    if negb (valid_tag no_ext t) then (1, st)
    else if opt_none (rm_get (rs_tags st) t) then (3, st)
    else (0, {| rs_tags := rm_remove (rs_tags st) t; rs_branches := rs_branches st; rs_dirs := rs_dirs st |})
  | BCreate n src v vex =>
    if negb (valid_branch no_ext n) then (1, st)                       (* outside the domain, never generated *)
    else if existsb (str_eqb n) (rs_dirs st) then (9, st)              (* a dataset already exists at tree/n *)
    else if negb vex then (9, st)                                      (* source manifest not found *)
    else
      let st1 := {| rs_tags := rs_tags st; rs_branches := rs_branches st; rs_dirs := n :: rs_dirs st |} in
      if negb (opt_none (rm_get (rs_branches st) n)) then (2, st1)
      else (0, {| rs_tags := rs_tags st; rs_branches := rm_set (rs_branches st) n (src, v); rs_dirs := n :: rs_dirs st |})
  | BDelete n force =>
    if negb (valid_branch no_ext n) then (1, st)
    else if opt_none (rm_get (rs_branches st) n) && negb force then (3, st)
    else
      let br' := rm_remove (rs_branches st) n in
      match cleanup_segs (split c_slash n) (rm_keys br') with
      | Ok None => (0, {| rs_tags := rs_tags st; rs_branches := br'; rs_dirs := rs_dirs st |})
      | Ok (Some rel) =>
        if forallb part_ok rel
        then (0, {| rs_tags := rs_tags st; rs_branches := br';
                    rs_dirs := filter (fun m => negb (seg_prefix rel (split c_slash m))) (rs_dirs st) |})
        else (9, {| rs_tags := rs_tags st; rs_branches := br'; rs_dirs := rs_dirs st |})
      | _ => (9, {| rs_tags := rs_tags st; rs_branches := br'; rs_dirs := rs_dirs st |})
      end
  end.

Fixpoint rrun (st : refs_state) (ops : list rop) : list N * refs_state :=
  match ops with
  | [] => ([], st)
  | op :: r => let '(c, st1) := rstep st op in let '(cs, st2) := rrun st1 r in (c :: cs, st2)
  end.

(* ---- Manifest::shallow_clone: base_id rewriting (paths are tokens) ---- *)
Record dfile := { df_path : N; df_base : option N }.
Record mfrag := { mf_id : N; mf_files : list dfile; mf_del : option (option N) }.  (* base_id of the deletion file, if there is one *)
Record mani := { mn_frags : list mfrag; mn_bases : list (N * N) }.                (* base_paths: id -> path token *)
Definition set_base (b : N) (o : option N) : option N := match o with None => Some b | Some x => Some x end.
Definition clone_file (b : N) (d : dfile) : dfile := {| df_path := df_path d; df_base := set_base b (df_base d) |}.
Definition clone_frag (b : N) (f : mfrag) : mfrag :=
  {| mf_id := mf_id f; mf_files := map (clone_file b) (mf_files f); mf_del := option_map (set_base b) (mf_del f) |}.
Definition bases_insert (m : list (N * N)) (id p : N) : list (N * N) :=
  (id, p) :: filter (fun e => negb (fst e =? id)) m.
Definition shallow_clone (m : mani) (ref_path ref_base_id : N) : mani :=
  {| mn_frags := map (clone_frag ref_base_id) (mn_frags m); mn_bases := bases_insert (mn_bases m) ref_base_id ref_path |}.
(* do_commit_new_dataset: max key + 1 (u32, overflow checks on), 0 when there is none *)
Definition new_base_id (m : mani) : outcome N :=
  match mn_bases m with
  | [] => Ok 0
  | _ => let mx := fold_left N.max (map fst (mn_bases m)) 0 in
         if mx + 1 <? two32 then Ok (mx + 1) else Panic
  end.
Fixpoint base_lookup (m : list (N * N)) (id : N) : option N :=
  match m with
  | [] => None
  | (k, p) :: r => if k =? id then Some p else base_lookup r id
  end.
(* where a data file lives: (dataset root token, file token) *)
Definition resolve_file (own_root : N) (bases : list (N * N)) (d : dfile) : option (N * N) :=
  match df_base d with
  | None => Some (own_root, df_path d)
  | Some i => option_map (fun r => (r, df_path d)) (base_lookup bases i)
  end.

(* ---- a small object store: who owns which path, what a reference reads ---- *)
Notation path := (list (list N)) (only parsing).
Definition path_eqb : path -> path -> bool := list_eqb str_eqb.
Definition reserved_dirs : list str := [s_versions; s_data; s_transactions; s_deletions; s_indices].
Definition is_reserved (s : str) : bool := existsb (str_eqb s) reserved_dirs.
(* p is a file of the dataset rooted at L: L/<reserved dir>/... *)
Definition owns (L p : path) : bool :=
  seg_prefix L p && match skipn (length L) p with d :: _ :: _ => is_reserved d | _ => false end.

Inductive obj :=
| OManifest (files : list path)          (* one dataset version: the data files it reads, base paths resolved *)
| OData (c : N)
| OBranch (parent : option str) (v : N)  (* _refs/branches/<name>.json *)
| OTag (br : option str) (v : N).        (* _refs/tags/<name>.json *)
Notation store := (list (list (list N) * obj)) (only parsing).
Fixpoint lookup (s : store) (p : path) : option obj :=
  match s with
  | [] => None
  | (q, o) :: r => if path_eqb p q then Some o else lookup r p
  end.
Definition remove_path (s : store) (p : path) : store := filter (fun e => negb (path_eqb p (fst e))) s.
Definition put (s : store) (p : path) (o : obj) : store := (p, o) :: remove_path s p.
Definition remove_dir (s : store) (d : path) : store := filter (fun e => negb (seg_prefix d (fst e))) s.

Definition droot : path := [s_root].
Definition loc_of (br : option str) : path :=
  match br with None => droot | Some b => s_root :: s_tree :: split c_slash b end.
(* the manifest file name of version v is abstracted to the one-character string [v] (injective, like the
   real `{u64::MAX - v:020}.manifest`); a branch's BranchContents file name ('/' encoded as %2F) to the name *)
Definition ver_seg (v : N) : str := [v].
Definition manifest_path (L : path) (v : N) : path := L ++ [s_versions; ver_seg v].
Definition data_path (L : path) (name : str) : path := L ++ [s_data; name].
Definition tag_path (t : str) : path := [s_root; s_refs; s_tags; t].
Definition branch_file (b : str) : path := [s_root; s_refs; s_branches; b].

Definition lookup_data (s : store) (p : path) : option N :=
  match lookup s p with Some (OData c) => Some c | _ => None end.
Fixpoint all_some {A} (l : list (option A)) : option (list A) :=
  match l with
  | [] => Some []
  | Some x :: r => option_map (cons x) (all_some r)
  | None :: _ => None
  end.
(* what a scan of (L, v) returns: None when the manifest or one of its files is missing *)
Definition open (s : store) (L : path) (v : N) : option (list N) :=
  match lookup s (manifest_path L v) with
  | Some (OManifest fs) => all_some (map (lookup_data s) fs)
  | _ => None
  end.
Definition tag_get (s : store) (t : str) : option refc :=
  match lookup s (tag_path t) with Some (OTag br v) => Some (br, v) | _ => None end.
Definition open_tag (s : store) (t : str) : option (list N) :=
  match tag_get s t with Some (br, v) => open s (loc_of br) v | None => None end.
Definition listed_branches (s : store) : list str :=
  flat_map (fun e => match fst e, snd e with
                     | [a; b; c; n], OBranch _ _ => if str_eqb a s_root && str_eqb b s_refs && str_eqb c s_branches then [n] else []
                     | _, _ => []
                     end) s.

(* the directory Branches::delete removes, as path segments *)
Definition cleanup_dir (b : str) (remaining : list str) : option path :=
  match cleanup_segs (split c_slash b) remaining with
  | Ok (Some rel) => Some (s_root :: s_tree :: rel)
  | _ => None
  end.

(* what a (coarse) cleanup_old_versions of the dataset at L removes: the manifests L/_versions/<v> with v not kept,
   and the data files anywhere under L/data/ that no kept manifest of L reads (the real clean-up lists the whole
   subtree of L and classifies a file by the first segment of its path relative to L) *)
Definition removes_manifest (L : path) (keep : list N) (p : path) : bool :=
  seg_prefix L p &&
  match skipn (length L) p with
  | [d; vs] => str_eqb d s_versions && negb (existsb (fun v => str_eqb (ver_seg v) vs) keep)
  | _ => false
  end.
Definition removes_data (L : path) (kept_files : list path) (p : path) : bool :=
  seg_prefix L p &&
  match skipn (length L) p with
  | d :: _ :: _ => str_eqb d s_data && negb (existsb (path_eqb p) kept_files)
  | _ => false
  end.
Definition cleanup_drops (L : path) (keep : list N) (kept_files : list path) (e : path * obj) : bool :=
  match snd e with
  | OManifest _ => removes_manifest L keep (fst e)
  | OData _ => removes_data L kept_files (fst e)
  | _ => false
  end.
Definition manifest_files (s : store) (L : path) (v : N) : list path :=
  match lookup s (manifest_path L v) with Some (OManifest fs) => fs | _ => [] end.

Inductive sop :=
| SWrite (L : path) (v : N) (drop_old : bool) (news : list (str * N))  (* commit v+1 at L: (old files unless dropped) + new files under L/data *)
| SBranch (b : str) (src : path) (v : N) (srcname : option str)        (* shallow clone of (src, v) into tree/b, then BranchContents *)
| SClone (dst : path) (src : path) (v : N)                             (* shallow clone into another dataset root *)
| SDeleteBranch (b : str)
| STagSet (t : str) (br : option str) (v : N)                          (* create or update *)
| STagDelete (t : str)
| SCleanup (L : path) (keep : list N).                                 (* coarse cleanup_old_versions: keep these versions of L *)

Definition absent (s : store) (p : path) : bool := opt_none (lookup s p).

Definition sstep (s : store) (op : sop) : store :=
  match op with
  | SWrite L v drop_old news =>
    match lookup s (manifest_path L v) with
    | Some (OManifest fs) =>
      let new_paths := map (fun e => data_path L (fst e)) news in
      if absent s (manifest_path L (v + 1)) && forallb (absent s) new_paths
      then (manifest_path L (v + 1), OManifest ((if drop_old then [] else fs) ++ new_paths))
           :: map (fun e => (data_path L (fst e), OData (snd e))) news ++ s
      else s
    | _ => s
    end
  | SBranch b src v srcname =>
    match lookup s (manifest_path src v) with
    | Some (OManifest fs) =>
      if absent s (manifest_path (loc_of (Some b)) v) && absent s (branch_file b)
      then (branch_file b, OBranch srcname v) :: (manifest_path (loc_of (Some b)) v, OManifest fs) :: s
      else s
    | _ => s
    end
  | SClone dst src v =>
    match lookup s (manifest_path src v) with
    | Some (OManifest fs) =>
      if absent s (manifest_path dst v) then (manifest_path dst v, OManifest fs) :: s else s
    | _ => s
    end
  | SDeleteBranch b =>
    match lookup s (branch_file b) with
    | Some (OBranch _ _) =>
      let s1 := remove_path s (branch_file b) in
      match cleanup_dir b (listed_branches s1) with
      | Some d => remove_dir s1 d
      | None => s1
      end
    | _ => s
    end
  | STagSet t br v =>
    if absent s (manifest_path (loc_of br) v) then s
    else match lookup s (tag_path t) with
         | None | Some (OTag _ _) => put s (tag_path t) (OTag br v)       (* create: absent; update: a tag file *)
         | _ => s
         end
  | STagDelete t =>
    match lookup s (tag_path t) with Some (OTag _ _) => remove_path s (tag_path t) | _ => s end
  | SCleanup L keep =>
    let kept := flat_map (manifest_files s L) keep in
    filter (fun e => negb (cleanup_drops L keep kept e)) s
  end.
Definition srun (s : store) (ops : list sop) : store := fold_left sstep ops s.

(* known-finding classes, as predicates on the step about to be taken *)
Definition has_reserved_segment (name : str) : bool := existsb is_reserved (split c_slash name).
(* a manifest stored outside the removed directory reads a file inside it *)
Definition Known_C09_delete_ignores_dependent_refs (s : store) (b : str) : bool :=
  match cleanup_dir b (listed_branches (remove_path s (branch_file b))) with
  | Some d => existsb (fun e => match snd e with
                                | OManifest fs => negb (seg_prefix d (fst e)) && existsb (seg_prefix d) fs
                                | _ => false
                                end) s
  | None => false
  end.
(* a manifest that survives the clean-up of L reads a data file the clean-up removes *)
Definition Known_C09_cleanup_ignores_branch_refs (s : store) (L : path) (keep : list N) : bool :=
  let kept := flat_map (manifest_files s L) keep in
  existsb (fun e => match snd e with
                    | OManifest fs => negb (removes_manifest L keep (fst e)) && existsb (removes_data L kept) fs
                    | _ => false
                    end) s.
(* a branch whose name has a segment equal to one of the dataset's own directory names *)
Definition Known_C09_reserved_dir_segment (names : list str) : bool := existsb has_reserved_segment names.

(* the step lies in a known-finding class *)
Definition step_known (s : store) (op : sop) : bool :=
  match op with
  | SDeleteBranch b => has_reserved_segment b || Known_C09_delete_ignores_dependent_refs s b
  | SCleanup L keep => Known_C09_cleanup_ignores_branch_refs s L keep
  | _ => false
  end.
(* the step is not asked to remove the reference (L, v) itself: deleting a branch spares main, every branch still
   listed afterwards and every dataset outside the root; a clean-up of L0 spares other datasets and the kept versions *)
Definition step_spares (s : store) (op : sop) (L : path) (v : N) : bool :=
  match op with
  | SDeleteBranch b =>
    path_eqb L droot || negb (seg_prefix [s_root] L)
    || existsb (fun r => path_eqb L (loc_of (Some r))) (listed_branches (remove_path s (branch_file b)))
  | SCleanup L0 keep => negb (path_eqb L L0) || existsb (N.eqb v) keep
  | _ => true
  end.
Fixpoint safe_run (s : store) (ops : list sop) (L : path) (v : N) : bool :=
  match ops with
  | [] => true
  | op :: r => negb (step_known s op) && step_spares s op L v && safe_run (sstep s op) r L v
  end.
Definition touches_tag (t : list N) (op : sop) : bool :=
  match op with STagSet t' _ _ | STagDelete t' => str_eqb t t' | _ => false end.

(* ---- correspondence checkers (second argument: what the implementation returned) ---- *)
Definition ext_of (cls : list (N * bool)) : N -> bool :=
  fun c => existsb (fun p => (fst p =? c) && snd p) cls.
Definition oo_eqb (a b : option N * option N) : bool :=
  option_eqb N.eqb (fst a) (fst b) && option_eqb N.eqb (snd a) (snd b).
(* (string, [(non-ASCII code point, char::is_alphanumeric)]) -> (check_valid_branch, check_valid_tag) *)
Definition chk_names (i : str * list (N * bool)) (o : option N * option N) : bool :=
  oo_eqb (check_valid_branch (ext_of (snd i)) (fst i), check_valid_tag (ext_of (snd i)) (fst i)) o.
(* exhaustive sweep over the alphabet {a,b,/,.,-,_,\,l,o,c,k}: one case = a run of consecutive strings of one
   length ([code] in base 11, least significant digit = first character); the implementation's answers are packed
   base 100, eight per number (branch code * 10 + tag code, 0 = Ok) *)
Definition sweep_alphabet : list N := [97; 98; 47; 46; 45; 95; 92; 108; 111; 99; 107].
Fixpoint sweep_string (len : nat) (code : N) : str :=
  match len with
  | O => []
  | S l => nth (N.to_nat (code mod 11)) sweep_alphabet 0 :: sweep_string l (code / 11)
  end.
Definition code_of (o : option N) : N := match o with None => 0 | Some k => k end.
Definition names_code (s : str) : N :=
  code_of (check_valid_branch no_ext s) * 10 + code_of (check_valid_tag no_ext s).
(* [k] strings starting at [code], their answers packed base 100 in one number *)
Fixpoint chk_pack (len k : nat) (code packed : N) : bool :=
  match k with
  | O => packed =? 0
  | S k' => (names_code (sweep_string len code) =? packed mod 100) && chk_pack len k' (code + 1) (packed / 100)
  end.
Fixpoint chk_sweep_list (len : nat) (code remaining : N) (l : list N) : bool :=
  match l with
  | [] => remaining =? 0
  | p :: r => let k := N.min 8 remaining in
              negb (k =? 0) && chk_pack len (N.to_nat k) code p && chk_sweep_list len (code + k) (remaining - k) r
  end.
(* (length, first code, count) -> answers, 8 per number *)
Definition chk_names_batch (i : N * N * N) (o : list N) : bool :=
  let '(len, start, count) := i in chk_sweep_list (N.to_nat len) start count o.

Definition bloc_eqb (a b : bloc) : bool :=
  str_eqb (bl_path a) (bl_path b) && str_eqb (bl_uri a) (bl_uri b) && option_eqb str_eqb (bl_branch a) (bl_branch b).
Definition mk_bloc (t : str * str * option str) : bloc :=
  let '(p, u, b) := t in {| bl_path := p; bl_uri := u; bl_branch := b |}.
(* ((path, uri, branch), target) -> find_branch *)
Definition chk_find_branch (i : (str * str * option str) * option str) (o : outcome (str * str * option str)) : bool :=
  outcome_eqb bloc_eqb (find_branch (mk_bloc (fst i)) (snd i))
              (match o with Ok t => Ok (mk_bloc t) | Err => Err | Panic => Panic end).
(* (branch, remaining) -> verif_get_cleanup_path; also used for the directory observed to disappear in Branches::delete *)
Definition chk_cleanup (i : str * list str) (o : outcome (option str)) : bool :=
  outcome_eqb (option_eqb str_eqb) (get_cleanup_path hook_base (fst i) (snd i)) o.

Definition refc_eqb (a b : refc) : bool := option_eqb str_eqb (fst a) (fst b) && (snd a =? snd b).
Definition entry_eqb (a b : str * refc) : bool := str_eqb (fst a) (fst b) && refc_eqb (snd a) (snd b).
Definition set_eqb {A} (eqb : A -> A -> bool) (l1 l2 : list A) : bool :=
  Nat.eqb (length l1) (length l2) && forallb (fun x => existsb (eqb x) l2) l1 && forallb (fun x => existsb (eqb x) l1) l2.
(* a history of Tags / Branches calls -> (result codes, (tags().list(), branches().list(), dataset directories under tree/)) *)
Definition chk_refs (ops : list rop) (o : list N * (list (str * refc) * list (str * refc) * list str)) : bool :=
  let '(codes, st) := rrun rs_empty ops in
  let '(ocodes, (otags, obranches, odirs)) := o in
  list_eqb N.eqb codes ocodes && set_eqb entry_eqb (rs_tags st) otags
  && set_eqb entry_eqb (rs_branches st) obranches && set_eqb str_eqb (rs_dirs st) odirs.

Definition dfile_of (t : N * option N) : dfile := {| df_path := fst t; df_base := snd t |}.
Definition mfrag_of (t : N * list (N * option N) * option (option N)) : mfrag :=
  let '(id, fs, d) := t in {| mf_id := id; mf_files := map dfile_of fs; mf_del := d |}.
Definition dfile_eqb (a b : dfile) : bool := (df_path a =? df_path b) && option_eqb N.eqb (df_base a) (df_base b).
Definition mfrag_eqb (a b : mfrag) : bool :=
  (mf_id a =? mf_id b) && list_eqb dfile_eqb (mf_files a) (mf_files b) && option_eqb (option_eqb N.eqb) (mf_del a) (mf_del b).
Definition nn_eqb (a b : N * N) : bool := (fst a =? fst b) && (snd a =? snd b).
Definition frag_enc := (N * list (N * option N) * option (option N))%type.
(* ((fragments, base_paths), (ref_path token, ref_base_id)) -> Manifest::shallow_clone (fragments, base_paths) *)
Definition chk_shallow_clone (i : (list frag_enc * list (N * N)) * (N * N)) (o : list frag_enc * list (N * N)) : bool :=
  let m := {| mn_frags := map mfrag_of (fst (fst i)); mn_bases := snd (fst i) |} in
  let c := shallow_clone m (fst (snd i)) (snd (snd i)) in
  list_eqb mfrag_eqb (mn_frags c) (map mfrag_of (fst o)) && set_eqb nn_eqb (mn_bases c) (snd o).
(* e2e: (source fragments, source base_paths, source path token) -> the clone's (fragments, base_paths) with the id chosen by the commit *)
Definition chk_clone_commit (i : (list frag_enc * list (N * N)) * N) (o : outcome (list frag_enc * list (N * N))) : bool :=
  let m := {| mn_frags := map mfrag_of (fst (fst i)); mn_bases := snd (fst i) |} in
  match new_base_id m, o with
  | Ok id, Ok o' => chk_shallow_clone (fst i, (snd i, id)) o'
  | Panic, Panic => true
  | _, _ => false
  end.
