(* C12 - proofs about Table/Model_DML.v *)
From LanceV Require Import Common.Base Table.Model_DML.
From Coq Require Import Permutation.

(* ================================================================== generic list facts *)
Lemma filter_negb_all {A} (d : A -> bool) (l : list A) :
  existsb d l = false -> filter (fun r => negb (d r)) l = l.
Proof.
  induction l as [|x l IH]; cbn [existsb filter]; intro H; [reflexivity|].
  apply orb_false_iff in H as [Hx Hl]. rewrite Hx. cbn [negb]. rewrite IH by exact Hl. reflexivity.
Qed.

Lemma filter_length_split {A} (d : A -> bool) (l : list A) :
  (length (filter (fun r => negb (d r)) l) + length (filter d l) = length l)%nat.
Proof.
  induction l as [|x l IH]; cbn [filter length]; [reflexivity|].
  destruct (d x); cbn [negb length]; lia.
Qed.

Lemma perm_filter_split {A} (d : A -> bool) (l : list A) :
  Permutation (filter (fun r => negb (d r)) l ++ filter d l) l.
Proof.
  induction l as [|x l IH]; cbn [filter]; [constructor|].
  destruct (d x); cbn [negb].
  - eapply Permutation_trans; [apply Permutation_sym, Permutation_middle|]. constructor. exact IH.
  - cbn [app]. constructor. exact IH.
Qed.

Lemma flat_map_app_pointwise {A B} (f g : A -> list B) (l : list A) :
  Permutation (flat_map f l ++ flat_map g l) (flat_map (fun x => f x ++ g x) l).
Proof.
  induction l as [|x l IH]; cbn [flat_map app]; [constructor|].
  rewrite <- !app_assoc. apply Permutation_app_head.
  eapply Permutation_trans; [|apply Permutation_app_head; exact IH].
  rewrite !app_assoc. apply Permutation_app_tail. apply Permutation_app_comm.
Qed.

Lemma flat_map_ext_in {A B} (f g : A -> list B) (l : list A) :
  (forall x, In x l -> f x = g x) -> flat_map f l = flat_map g l.
Proof.
  induction l as [|x l IH]; cbn [flat_map]; intro H; [reflexivity|].
  rewrite (H x (or_introl eq_refl)). rewrite IH; [reflexivity|]. intros y Hy. apply H. right. exact Hy.
Qed.

Lemma filter_ext_in' {A} (f g : A -> bool) (l : list A) :
  (forall x, In x l -> f x = g x) -> filter f l = filter g l.
Proof.
  induction l as [|x l IH]; cbn [filter]; intro H; [reflexivity|].
  rewrite (H x (or_introl eq_refl)). rewrite IH; [reflexivity|]. intros y Hy. apply H. right. exact Hy.
Qed.

Lemma filter_as_flat_map {A} (d : A -> bool) (l : list A) :
  filter d l = flat_map (fun x => if d x then [x] else []) l.
Proof.
  induction l as [|x l IH]; cbn [filter flat_map]; [reflexivity|]. rewrite IH. destruct (d x); reflexivity.
Qed.

Lemma map_as_flat_map {A B} (f : A -> B) (l : list A) : map f l = flat_map (fun x => [f x]) l.
Proof. induction l as [|x l IH]; cbn [map flat_map app]; [reflexivity|]. rewrite IH. reflexivity. Qed.

Lemma flat_map_length_sum {A B} (f : A -> list B) (l : list A) :
  length (flat_map f l) = fold_right (fun x acc => length (f x) + acc)%nat O l.
Proof. induction l as [|x l IH]; cbn [flat_map fold_right length]; [reflexivity|]. rewrite app_length, IH. reflexivity. Qed.

(* ================================================================== three-valued logic sanity *)
Lemma is_tt_iff t : is_tt t = true <-> t = TT.
Proof. destruct t; cbn; split; intro H; congruence. Qed.

(* ================================================================== DELETE *)
Lemma live_app f g : live (f ++ g) = live f ++ live g.
Proof. unfold live. apply flat_map_app. Qed.

Lemma abs_app a b : abs (a ++ b) = abs a ++ abs b.
Proof. unfold abs. apply flat_map_app. Qed.

Lemma live_del_slots d f : live (del_slots d f) = filter (fun r => negb (d r)) (live f).
Proof.
  induction f as [|[r|] f IH]; cbn [del_slots map live flat_map app filter]; [reflexivity| |exact IH].
  fold (del_slots d f). fold (live (del_slots d f)). fold (live f).
  destruct (d r); cbn [negb live flat_map app]; rewrite IH; reflexivity.
Qed.

Lemma live_all_none f : forallb is_none f = true -> live f = [].
Proof.
  induction f as [|[r|] f IH]; cbn [forallb is_none andb live flat_map app]; intro H; [reflexivity|discriminate|].
  apply IH. exact H.
Qed.

Lemma abs_c_apply_deletions d ct :
  abs (c_apply_deletions d ct) = filter (fun r => negb (d r)) (abs ct).
Proof.
  induction ct as [|f ct IH]; [reflexivity|].
  unfold c_apply_deletions, abs in *. cbn [flat_map]. rewrite flat_map_app, filter_app, IH. f_equal.
  destruct (existsb d (live f)) eqn:E.
  - destruct (forallb is_none (del_slots d f)) eqn:F; cbn [flat_map app].
    + apply live_all_none in F. rewrite live_del_slots in F. symmetry. exact F.
    + rewrite app_nil_r. apply live_del_slots.
  - cbn [flat_map app]. rewrite app_nil_r. symmetry. apply filter_negb_all. exact E.
Qed.

Lemma abs_c_delete p ct : abs (c_delete p ct) = a_delete p (abs ct).
Proof. apply abs_c_apply_deletions. Qed.

(* a row stays iff the predicate is not TRUE on it: FALSE and NULL rows are kept, in their old order *)
Lemma a_delete_spec p t : a_delete p t = filter (fun r => negb (tv_eqb (eval_b r p) TT)) t.
Proof.
  unfold a_delete, sel. apply filter_ext. intro r. destruct (eval_b r p); reflexivity.
Qed.

Lemma a_delete_in p t r : In r (a_delete p t) <-> In r t /\ eval_b r p <> TT.
Proof.
  unfold a_delete. rewrite filter_In. unfold sel. destruct (eval_b r p); cbn; intuition congruence.
Qed.

(* ================================================================== counts *)
Lemma frag_slots f : (length f = length (live f) + ndeleted f)%nat.
Proof.
  unfold ndeleted. induction f as [|[r|] f IH]; cbn [length live flat_map app filter is_none]; [reflexivity| |].
  - fold (live f). cbn [length]. lia.
  - fold (live f). cbn [length]. lia.
Qed.

Definition physical (ct : ctable) : nat := fold_right (fun f acc => length f + acc)%nat O ct.

Lemma physical_split ct : (physical ct = length (abs ct) + count_deleted ct)%nat.
Proof.
  induction ct as [|f ct IH]; [reflexivity|].
  unfold physical, count_deleted, abs in *. cbn [fold_right flat_map]. rewrite app_length, IH, (frag_slots f). lia.
Qed.

Lemma new_frag_abs rows : abs (new_frag rows) = rows.
Proof.
  destruct rows as [|r rows]; [reflexivity|]. unfold new_frag, abs. cbn [flat_map]. rewrite app_nil_r.
  generalize (r :: rows). intro l. induction l as [|x l IH]; cbn [map live flat_map app]; [reflexivity|].
  fold (live (map Some l)). rewrite IH. reflexivity.
Qed.

Lemma new_frag_deleted rows : count_deleted (new_frag rows) = O.
Proof.
  destruct rows as [|r rows]; [reflexivity|]. unfold new_frag, count_deleted. cbn [fold_right].
  unfold ndeleted. generalize (r :: rows). intro l.
  induction l as [|x l IH]; cbn [map filter is_none length]; [reflexivity|]. exact IH.
Qed.

Lemma count_deleted_app a b : (count_deleted (a ++ b) = count_deleted a + count_deleted b)%nat.
Proof. unfold count_deleted. induction a as [|f a IH]; cbn [app fold_right]; [reflexivity|]. rewrite IH. lia. Qed.

(* ================================================================== UPDATE *)
Lemma abs_c_update p asg ct : abs (c_update p asg ct) = a_update p asg (abs ct).
Proof.
  unfold c_update, a_update. rewrite abs_app, abs_c_apply_deletions, new_frag_abs. reflexivity.
Qed.

Lemma a_update_length p asg t : length (a_update p asg t) = length t.
Proof. unfold a_update. rewrite app_length, map_length. apply filter_length_split. Qed.

Lemma a_update_perm p asg t :
  Permutation (a_update p asg t) (map (fun r => if sel p r then apply_seq asg r else r) t).
Proof.
  unfold a_update.
  rewrite (map_as_flat_map (fun r => if sel p r then apply_seq asg r else r) t).
  rewrite (filter_as_flat_map (fun r => negb (sel p r)) t), (filter_as_flat_map (sel p) t).
  rewrite (map_as_flat_map (apply_seq asg)), flat_map_concat_map, <- flat_map_concat_map.
  assert (E : flat_map (fun x => [apply_seq asg x]) (flat_map (fun x => if sel p x then [x] else []) t)
              = flat_map (fun x => if sel p x then [apply_seq asg x] else []) t).
  { induction t as [|x t IH]; cbn [flat_map]; [reflexivity|]. rewrite flat_map_app, IH.
    destruct (sel p x); reflexivity. }
  rewrite E.
  eapply Permutation_trans; [apply flat_map_app_pointwise|].
  erewrite flat_map_ext_in; [apply Permutation_refl|].
  intros x _. cbn beta. destruct (sel p x); reflexivity.
Qed.

(* --- sequential = simultaneous when no assignment reads another assignment's column *)
Lemma nth_set_nth_same c v r : (c < length r)%nat -> nth c (set_nth c v r) None = v.
Proof.
  revert c; induction r as [|x r IH]; intros [|c] H; cbn [length set_nth nth] in *; try lia; [reflexivity|].
  apply IH. lia.
Qed.

Lemma nth_set_nth_other c c' v r : c <> c' -> nth c (set_nth c' v r) None = nth c r None.
Proof.
  revert c c'; induction r as [|x r IH]; intros c c' H; [destruct c, c'; reflexivity|].
  destruct c' as [|c']; destruct c as [|c]; cbn [set_nth nth]; try reflexivity; [congruence|].
  apply IH. congruence.
Qed.

Lemma set_nth_length c v r : length (set_nth c v r) = length r.
Proof. revert c; induction r as [|x r IH]; intros [|c]; cbn [set_nth length]; try reflexivity. rewrite IH. reflexivity. Qed.

Lemma set_nth_comm c1 c2 v1 v2 r : c1 <> c2 ->
  set_nth c1 v1 (set_nth c2 v2 r) = set_nth c2 v2 (set_nth c1 v1 r).
Proof.
  revert c1 c2; induction r as [|x r IH]; intros c1 c2 H; [destruct c1, c2; reflexivity|].
  destruct c1 as [|c1]; destruct c2 as [|c2]; cbn [set_nth]; try reflexivity; [congruence|].
  rewrite IH by congruence. reflexivity.
Qed.

Lemma eval_v_ext r1 r2 e :
  (forall c, In c (cols_v e) -> nth c r1 None = nth c r2 None) -> eval_v r1 e = eval_v r2 e.
Proof.
  induction e as [i|c|a IHa b IHb|a IHa b IHb|a IHa b IHb]; cbn [eval_v cols_v]; intro H.
  - apply H. left. reflexivity.
  - reflexivity.
  - rewrite IHa, IHb; [reflexivity| |]; intros c Hc; apply H; apply in_or_app; auto.
  - rewrite IHa, IHb; [reflexivity| |]; intros c Hc; apply H; apply in_or_app; auto.
  - rewrite IHa, IHb; [reflexivity| |]; intros c Hc; apply H; apply in_or_app; auto.
Qed.

(* no assignment reads the column of an assignment of another column *)
Definition no_cross (asg : list assignment) : Prop :=
  forall a b, In a asg -> In b asg -> fst a <> fst b -> ~ In (fst b) (cols_v (snd a)).

Lemma known_update_false asg : Known_C12_update_reads_assigned_column asg = false -> no_cross asg.
Proof.
  unfold Known_C12_update_reads_assigned_column, no_cross. intros H a b Ha Hb Hne Hin.
  assert (T : existsb (fun a => existsb (fun b => negb (Nat.eqb (fst a) (fst b)) && existsb (Nat.eqb (fst b)) (cols_v (snd a))) asg) asg = true).
  { apply existsb_exists. exists a. split; [exact Ha|]. apply existsb_exists. exists b. split; [exact Hb|].
    apply andb_true_iff. split.
    - apply negb_true_iff. apply Nat.eqb_neq. exact Hne.
    - apply existsb_exists. exists (fst b). split; [exact Hin|]. apply Nat.eqb_refl. }
  congruence.
Qed.

Lemma no_cross_perm asg asg' : Permutation asg asg' -> no_cross asg -> no_cross asg'.
Proof.
  intros P H a b Ha Hb. apply H; eapply Permutation_in; try apply Permutation_sym; eauto.
Qed.

Definition sim_fold (r0 : row) (asg : list assignment) (acc : row) : row :=
  fold_left (fun r' a => set_nth (fst a) (eval_v r0 (snd a)) r') asg acc.

Lemma sim_fold_perm r0 asg asg' : Permutation asg asg' -> NoDup (map fst asg) ->
  forall acc, sim_fold r0 asg acc = sim_fold r0 asg' acc.
Proof.
  unfold sim_fold. induction 1 as [|x l l' P IH|x y l|l1 l2 l3 P1 IH1 P2 IH2]; intros ND acc.
  - reflexivity.
  - cbn [fold_left]. apply IH. inversion ND; assumption.
  - cbn [fold_left]. f_equal. apply set_nth_comm.
    cbn [map] in ND. inversion ND as [|? ? Hn _]. intro E. apply Hn. left. exact E.
  - rewrite IH1 by exact ND. apply IH2. eapply Permutation_NoDup; [apply Permutation_map; exact P1|exact ND].
Qed.

(* the sequential fold started from a row that agrees with r0 outside the columns written so far *)
Lemma seq_is_sim r0 asg : NoDup (map fst asg) -> no_cross asg ->
  forall (done_ : list assignment) acc,
    (forall a, In a asg -> ~ In (fst a) (map fst done_)) ->
    (forall a, In a done_ -> forall b, In b asg -> ~ In (fst a) (cols_v (snd b))) ->
    (forall c, ~ In c (map fst done_) -> nth c acc None = nth c r0 None) ->
    fold_left (fun r' a => set_nth (fst a) (eval_v r' (snd a)) r') asg acc = sim_fold r0 asg acc.
Proof.
  unfold sim_fold. induction asg as [|x asg IH]; intros ND NC done_ acc Hfresh Hnr Hagree; [reflexivity|].
  cbn [fold_left].
  assert (Ex : eval_v acc (snd x) = eval_v r0 (snd x)).
  { apply eval_v_ext. intros c Hc. apply Hagree. intro Hd. apply in_map_iff in Hd as [a [Ea Ha]].
    apply (Hnr a Ha x (or_introl eq_refl)). rewrite Ea. exact Hc. }
  rewrite Ex.
  cbn [map] in ND. inversion ND as [|? ? Hx ND']. subst.
  apply (IH ND') with (done_ := x :: done_).
  - intros a b Ha Hb. apply NC; right; assumption.
  - intros a Ha. cbn [map]. intros [E|Hd].
    + apply Hx. rewrite E. apply in_map. exact Ha.
    + apply (Hfresh a (or_intror Ha)). exact Hd.
  - intros a [Ea|Ha] b Hb.
    + subst a. intro Hin. apply (NC b x (or_intror Hb) (or_introl eq_refl)); [|exact Hin].
      intro E. apply Hx. rewrite <- E. apply in_map. exact Hb.
    + apply Hnr; [exact Ha|right; exact Hb].
  - intros c Hc. cbn [map] in Hc. rewrite nth_set_nth_other.
    + apply Hagree. intro Hd. apply Hc. right. exact Hd.
    + intro E. apply Hc. left. symmetry. exact E.
Qed.

Lemma apply_seq_is_simul asg r : NoDup (map fst asg) -> no_cross asg -> apply_seq asg r = apply_simul asg r.
Proof.
  intros ND NC. unfold apply_seq, apply_simul. apply (seq_is_sim r asg ND NC []).
  - intros a _ [].
  - intros a [].
  - intros c _. reflexivity.
Qed.

(* whatever order the HashMap iterates in, the result is the SQL one *)
Lemma apply_seq_any_order asg asg' r :
  Permutation asg asg' -> NoDup (map fst asg) -> Known_C12_update_reads_assigned_column asg = false ->
  apply_seq asg' r = apply_simul asg r.
Proof.
  intros P ND K. pose proof (known_update_false asg K) as NC.
  rewrite apply_seq_is_simul.
  - unfold apply_simul. symmetry. apply (sim_fold_perm r asg asg' P ND r).
  - eapply Permutation_NoDup; [apply Permutation_map; exact P|exact ND].
  - eapply no_cross_perm; eauto.
Qed.

(* ================================================================== the action table *)
Definition is_keep (ns : when_nmbs) : bool := match ns with NsKeep => true | _ => false end.
Definition wm_fires (wm : when_matched) (cm : tv) : bool :=
  match wm with WmUpdateAll | WmFail => true | WmUpdateIf _ => is_tt cm | WmDoNothing => false end.

(* where the transcribed CASE agrees with the specification table:
   everywhere except (a) the F19 cell: a source row with a NULL key and no target row under InsertAll,
   (b) a matched row whose WHEN MATCHED clause does not fire, when a delete clause follows: the CASE falls
       through to `not_matched_in_source` (= target row present).  (b) needs WhenNotMatchedBySource <> Keep,
       which never reaches the CASE (can_use_create_plan). *)
Definition table_domain (wm : when_matched) (ins : bool) (ns : when_nmbs) (has_key tp : bool) (cm cd : tv) : bool :=
  negb (ins && negb has_key && negb tp)
  && (is_keep ns || negb (has_key && tp) || wm_fires wm cm
      || match ns with NsDeleteIf _ => negb (is_tt cd) | _ => false end).

Lemma action_table_agrees wm ins ns has_key tp cm cd :
  table_domain wm ins ns has_key tp cm cd = true ->
  case_table wm ins ns has_key tp cm cd = spec_table wm ins ns has_key tp cm cd.
Proof.
  destruct wm, ins, ns, has_key, tp, cm, cd; vm_compute; intro H; try reflexivity; discriminate H.
Qed.

Lemma action_table_differs wm ins ns has_key tp cm cd :
  table_domain wm ins ns has_key tp cm cd = false ->
  case_table wm ins ns has_key tp cm cd <> spec_table wm ins ns has_key tp cm cd.
Proof.
  destruct wm, ins, ns, has_key, tp, cm, cd; vm_compute; intro H; try discriminate H; intro E; discriminate E.
Qed.

(* the settings that reach the CASE (can_use_create_plan) and the rows a Right/Inner join produces *)
Lemma action_table_fast_path wm ins has_key tp cm cd :
  wm <> WmDoNothing -> (ins && negb has_key && negb tp) = false ->
  case_table wm ins NsKeep has_key tp cm cd = spec_table wm ins NsKeep has_key tp cm cd.
Proof.
  intros _ H. apply action_table_agrees. unfold table_domain. rewrite H. reflexivity.
Qed.
