(* C12 - proofs about Table/Model_DML.v *)
From LanceV Require Import Common.Base Table.Model_DML.
From Coq Require Import Permutation.

(* the transcribed CASE table against the specification table, by computation over the whole finite domain *)
Definition tvs : list tv := [TT; TF; TN].
Definition wms : list when_matched := [WmUpdateAll; WmUpdateIf (BLit TT); WmDoNothing; WmFail].
Definition nss : list when_nmbs := [NsKeep; NsDelete; NsDeleteIf (BLit TT)].
