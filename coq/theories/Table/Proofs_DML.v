(* C12 - proofs about Table/Model_DML.v *)
From LanceV Require Import Common.Base Table.Model_DML.
From Coq Require Import Permutation.

(* ================================================================== generic list facts *)
Lemma filter_negb_all {A} (d : A -> bool) (l : list A) :
  existsb d l = false -> filter (fun r => negb (d r)) l = l.
Proof.
  induction l as [|x l IH]; cbn [existsb filter]; intro H; [reflexivity|].
  apply orb_false_iff in H as [Hx Hl]. rewrite Hx. cbn [negb]. rewrite IH by exact Hl. reflexivity.
Qed.

Lemma filter_length_split {A} (d : A -> bool) (l : list A) :
  (length (filter (fun r => negb (d r)) l) + length (filter d l) = length l)%nat.
Proof.
  induction l as [|x l IH]; cbn [filter length]; [reflexivity|].
  destruct (d x); cbn [negb length]; lia.
Qed.

Lemma perm_filter_split {A} (d : A -> bool) (l : list A) :
  Permutation (filter (fun r => negb (d r)) l ++ filter d l) l.
Proof.
  induction l as [|x l IH]; cbn [filter]; [constructor|].
  destruct (d x); cbn [negb].
  - eapply Permutation_trans; [apply Permutation_sym, Permutation_middle|]. constructor. exact IH.
  - cbn [app]. constructor. exact IH.
Qed.

Lemma flat_map_app_pointwise {A B} (f g : A -> list B) (l : list A) :
  Permutation (flat_map f l ++ flat_map g l) (flat_map (fun x => f x ++ g x) l).
Proof.
  induction l as [|x l IH]; cbn [flat_map app]; [constructor|].
  rewrite <- !app_assoc. apply Permutation_app_head.
  eapply Permutation_trans; [|apply Permutation_app_head; exact IH].
  rewrite !app_assoc. apply Permutation_app_tail. apply Permutation_app_comm.
Qed.

Lemma flat_map_ext_in {A B} (f g : A -> list B) (l : list A) :
  (forall x, In x l -> f x = g x) -> flat_map f l = flat_map g l.
Proof.
  induction l as [|x l IH]; cbn [flat_map]; intro H; [reflexivity|].
  rewrite (H x (or_introl eq_refl)). rewrite IH; [reflexivity|]. intros y Hy. apply H. right. exact Hy.
Qed.

Lemma filter_ext_in' {A} (f g : A -> bool) (l : list A) :
  (forall x, In x l -> f x = g x) -> filter f l = filter g l.
Proof.
  induction l as [|x l IH]; cbn [filter]; intro H; [reflexivity|].
  rewrite (H x (or_introl eq_refl)). rewrite IH; [reflexivity|]. intros y Hy. apply H. right. exact Hy.
Qed.

Lemma filter_as_flat_map {A} (d : A -> bool) (l : list A) :
  filter d l = flat_map (fun x => if d x then [x] else []) l.
Proof.
  induction l as [|x l IH]; cbn [filter flat_map]; [reflexivity|]. rewrite IH. destruct (d x); reflexivity.
Qed.

Lemma map_as_flat_map {A B} (f : A -> B) (l : list A) : map f l = flat_map (fun x => [f x]) l.
Proof. induction l as [|x l IH]; cbn [map flat_map app]; [reflexivity|]. rewrite IH. reflexivity. Qed.

Lemma flat_map_length_sum {A B} (f : A -> list B) (l : list A) :
  length (flat_map f l) = fold_right (fun x acc => length (f x) + acc)%nat O l.
Proof. induction l as [|x l IH]; cbn [flat_map fold_right length]; [reflexivity|]. rewrite app_length, IH. reflexivity. Qed.

Lemma existsb_map {A B} (f : A -> B) (p : B -> bool) (l : list A) : existsb p (map f l) = existsb (fun x => p (f x)) l.
Proof. induction l as [|x l IH]; cbn [map existsb]; [reflexivity|]. rewrite IH. reflexivity. Qed.

(* ================================================================== three-valued logic sanity *)
Lemma is_tt_iff t : is_tt t = true <-> t = TT.
Proof. destruct t; cbn; split; intro H; congruence. Qed.

(* ================================================================== DELETE *)
Lemma live_app f g : live (f ++ g) = live f ++ live g.
Proof. unfold live. apply flat_map_app. Qed.

Lemma abs_app a b : abs (a ++ b) = abs a ++ abs b.
Proof. unfold abs. apply flat_map_app. Qed.

Lemma live_del_slots d f : live (del_slots d f) = filter (fun r => negb (d r)) (live f).
Proof.
  induction f as [|[r|] f IH]; cbn [del_slots map live flat_map app filter]; [reflexivity| |exact IH].
  fold (del_slots d f). fold (live (del_slots d f)). fold (live f).
  destruct (d r); cbn [negb live flat_map app]; rewrite IH; reflexivity.
Qed.

Lemma live_all_none f : forallb is_none f = true -> live f = [].
Proof.
  induction f as [|[r|] f IH]; cbn [forallb is_none andb live flat_map app]; intro H; [reflexivity|discriminate|].
  apply IH. exact H.
Qed.

Lemma abs_c_apply_deletions d ct :
  abs (c_apply_deletions d ct) = filter (fun r => negb (d r)) (abs ct).
Proof.
  induction ct as [|f ct IH]; [reflexivity|].
  unfold c_apply_deletions, abs in *. cbn [flat_map]. rewrite flat_map_app, filter_app, IH. f_equal.
  destruct (existsb d (live f)) eqn:E.
  - destruct (forallb is_none (del_slots d f)) eqn:F; cbn [flat_map app].
    + apply live_all_none in F. rewrite live_del_slots in F. symmetry. exact F.
    + rewrite app_nil_r. apply live_del_slots.
  - cbn [flat_map app]. rewrite app_nil_r. symmetry. apply filter_negb_all. exact E.
Qed.

Lemma abs_c_delete p ct : abs (c_delete p ct) = a_delete p (abs ct).
Proof. apply abs_c_apply_deletions. Qed.

(* a row stays iff the predicate is not TRUE on it: FALSE and NULL rows are kept, in their old order *)
Lemma a_delete_spec p t : a_delete p t = filter (fun r => negb (tv_eqb (eval_b r p) TT)) t.
Proof.
  unfold a_delete, sel. apply filter_ext. intro r. destruct (eval_b r p); reflexivity.
Qed.

Lemma a_delete_in p t r : In r (a_delete p t) <-> In r t /\ eval_b r p <> TT.
Proof.
  unfold a_delete. rewrite filter_In. unfold sel. destruct (eval_b r p); cbn; intuition congruence.
Qed.

(* ================================================================== counts *)
Lemma frag_slots f : (length f = length (live f) + ndeleted f)%nat.
Proof.
  unfold ndeleted. induction f as [|[r|] f IH]; cbn [length live flat_map app filter is_none]; [reflexivity| |].
  - fold (live f). cbn [length]. lia.
  - fold (live f). cbn [length]. lia.
Qed.

Definition physical (ct : ctable) : nat := fold_right (fun f acc => length f + acc)%nat O ct.

Lemma physical_split ct : (physical ct = length (abs ct) + count_deleted ct)%nat.
Proof.
  induction ct as [|f ct IH]; [reflexivity|].
  unfold physical, count_deleted, abs in *. cbn [fold_right flat_map]. rewrite app_length, IH, (frag_slots f). lia.
Qed.

Lemma new_frag_abs rows : abs (new_frag rows) = rows.
Proof.
  destruct rows as [|r rows]; [reflexivity|]. unfold new_frag, abs. cbn [flat_map]. rewrite app_nil_r.
  generalize (r :: rows). intro l. induction l as [|x l IH]; cbn [map live flat_map app]; [reflexivity|].
  fold (live (map Some l)). rewrite IH. reflexivity.
Qed.

Lemma new_frag_deleted rows : count_deleted (new_frag rows) = O.
Proof.
  destruct rows as [|r rows]; [reflexivity|]. unfold new_frag, count_deleted. cbn [fold_right].
  unfold ndeleted. generalize (r :: rows). intro l.
  induction l as [|x l IH]; cbn [map filter is_none length]; [reflexivity|]. exact IH.
Qed.

Lemma count_deleted_app a b : (count_deleted (a ++ b) = count_deleted a + count_deleted b)%nat.
Proof. unfold count_deleted. induction a as [|f a IH]; cbn [app fold_right]; [reflexivity|]. rewrite IH. lia. Qed.

(* ================================================================== UPDATE *)
Lemma abs_c_update p asg ct : abs (c_update p asg ct) = a_update p asg (abs ct).
Proof.
  unfold c_update, a_update. rewrite abs_app, abs_c_apply_deletions, new_frag_abs. reflexivity.
Qed.

Lemma a_update_length p asg t : length (a_update p asg t) = length t.
Proof. unfold a_update. rewrite app_length, map_length. apply filter_length_split. Qed.

Lemma a_update_perm p asg t :
  Permutation (a_update p asg t) (map (fun r => if sel p r then apply_seq asg r else r) t).
Proof.
  unfold a_update.
  rewrite (map_as_flat_map (fun r => if sel p r then apply_seq asg r else r) t).
  rewrite (filter_as_flat_map (fun r => negb (sel p r)) t), (filter_as_flat_map (sel p) t).
  rewrite (map_as_flat_map (apply_seq asg)), flat_map_concat_map, <- flat_map_concat_map.
  assert (E : flat_map (fun x => [apply_seq asg x]) (flat_map (fun x => if sel p x then [x] else []) t)
              = flat_map (fun x => if sel p x then [apply_seq asg x] else []) t).
  { induction t as [|x t IH]; cbn [flat_map]; [reflexivity|]. rewrite flat_map_app, IH.
    destruct (sel p x); reflexivity. }
  rewrite E.
  eapply Permutation_trans; [apply flat_map_app_pointwise|].
  erewrite flat_map_ext_in; [apply Permutation_refl|].
  intros x _. cbn beta. destruct (sel p x); reflexivity.
Qed.

(* --- sequential = simultaneous when no assignment reads another assignment's column *)
Lemma nth_set_nth_same c v r : (c < length r)%nat -> nth c (set_nth c v r) None = v.
Proof.
  revert c; induction r as [|x r IH]; intros [|c] H; cbn [length set_nth nth] in *; try lia; [reflexivity|].
  apply IH. lia.
Qed.

Lemma nth_set_nth_other c c' v r : c <> c' -> nth c (set_nth c' v r) None = nth c r None.
Proof.
  revert c c'; induction r as [|x r IH]; intros c c' H; [destruct c, c'; reflexivity|].
  destruct c' as [|c']; destruct c as [|c]; cbn [set_nth nth]; try reflexivity; [congruence|].
  apply IH. congruence.
Qed.

Lemma set_nth_length c v r : length (set_nth c v r) = length r.
Proof. revert c; induction r as [|x r IH]; intros [|c]; cbn [set_nth length]; try reflexivity. rewrite IH. reflexivity. Qed.

Lemma set_nth_comm c1 c2 v1 v2 r : c1 <> c2 ->
  set_nth c1 v1 (set_nth c2 v2 r) = set_nth c2 v2 (set_nth c1 v1 r).
Proof.
  revert c1 c2; induction r as [|x r IH]; intros c1 c2 H; [destruct c1, c2; reflexivity|].
  destruct c1 as [|c1]; destruct c2 as [|c2]; cbn [set_nth]; try reflexivity; [congruence|].
  rewrite IH by congruence. reflexivity.
Qed.

Lemma eval_v_ext r1 r2 e :
  (forall c, In c (cols_v e) -> nth c r1 None = nth c r2 None) -> eval_v r1 e = eval_v r2 e.
Proof.
  induction e as [i|c|a IHa b IHb|a IHa b IHb|a IHa b IHb]; cbn [eval_v cols_v]; intro H.
  - apply H. left. reflexivity.
  - reflexivity.
  - rewrite IHa, IHb; [reflexivity| |]; intros c Hc; apply H; apply in_or_app; auto.
  - rewrite IHa, IHb; [reflexivity| |]; intros c Hc; apply H; apply in_or_app; auto.
  - rewrite IHa, IHb; [reflexivity| |]; intros c Hc; apply H; apply in_or_app; auto.
Qed.

(* no assignment reads the column of an assignment of another column *)
Definition no_cross (asg : list assignment) : Prop :=
  forall a b, In a asg -> In b asg -> fst a <> fst b -> ~ In (fst b) (cols_v (snd a)).

Lemma known_update_false asg : Known_C12_update_reads_assigned_column asg = false -> no_cross asg.
Proof.
  unfold Known_C12_update_reads_assigned_column, no_cross. intros H a b Ha Hb Hne Hin.
  assert (T : existsb (fun a => existsb (fun b => negb (Nat.eqb (fst a) (fst b)) && existsb (Nat.eqb (fst b)) (cols_v (snd a))) asg) asg = true).
  { apply existsb_exists. exists a. split; [exact Ha|]. apply existsb_exists. exists b. split; [exact Hb|].
    apply andb_true_iff. split.
    - apply negb_true_iff. apply Nat.eqb_neq. exact Hne.
    - apply existsb_exists. exists (fst b). split; [exact Hin|]. apply Nat.eqb_refl. }
  congruence.
Qed.

Lemma no_cross_perm asg asg' : Permutation asg asg' -> no_cross asg -> no_cross asg'.
Proof.
  intros P H a b Ha Hb. apply H; eapply Permutation_in; try apply Permutation_sym; eauto.
Qed.

Definition sim_fold (r0 : row) (asg : list assignment) (acc : row) : row :=
  fold_left (fun r' a => set_nth (fst a) (eval_v r0 (snd a)) r') asg acc.

Lemma sim_fold_perm r0 asg asg' : Permutation asg asg' -> NoDup (map fst asg) ->
  forall acc, sim_fold r0 asg acc = sim_fold r0 asg' acc.
Proof.
  unfold sim_fold. induction 1 as [|x l l' P IH|x y l|l1 l2 l3 P1 IH1 P2 IH2]; intros ND acc.
  - reflexivity.
  - cbn [fold_left]. apply IH. inversion ND; assumption.
  - cbn [fold_left]. f_equal. apply set_nth_comm.
    cbn [map] in ND. inversion ND as [|? ? Hn _]. intro E. apply Hn. left. exact E.
  - rewrite IH1 by exact ND. apply IH2. eapply Permutation_NoDup; [apply Permutation_map; exact P1|exact ND].
Qed.

(* the sequential fold started from a row that agrees with r0 outside the columns written so far *)
Lemma seq_is_sim r0 asg : NoDup (map fst asg) -> no_cross asg ->
  forall (done_ : list assignment) acc,
    (forall a, In a asg -> ~ In (fst a) (map fst done_)) ->
    (forall a, In a done_ -> forall b, In b asg -> ~ In (fst a) (cols_v (snd b))) ->
    (forall c, ~ In c (map fst done_) -> nth c acc None = nth c r0 None) ->
    fold_left (fun r' a => set_nth (fst a) (eval_v r' (snd a)) r') asg acc = sim_fold r0 asg acc.
Proof.
  unfold sim_fold. induction asg as [|x asg IH]; intros ND NC done_ acc Hfresh Hnr Hagree; [reflexivity|].
  cbn [fold_left].
  assert (Ex : eval_v acc (snd x) = eval_v r0 (snd x)).
  { apply eval_v_ext. intros c Hc. apply Hagree. intro Hd. apply in_map_iff in Hd as [a [Ea Ha]].
    apply (Hnr a Ha x (or_introl eq_refl)). rewrite Ea. exact Hc. }
  rewrite Ex.
  cbn [map] in ND. inversion ND as [|? ? Hx ND']. subst.
  apply (IH ND') with (done_ := x :: done_).
  - intros a b Ha Hb. apply NC; right; assumption.
  - intros a Ha. cbn [map]. intros [E|Hd].
    + apply Hx. rewrite E. apply in_map. exact Ha.
    + apply (Hfresh a (or_intror Ha)). exact Hd.
  - intros a [Ea|Ha] b Hb.
    + subst a. intro Hin. apply (NC b x (or_intror Hb) (or_introl eq_refl)); [|exact Hin].
      intro E. apply Hx. rewrite <- E. apply in_map. exact Hb.
    + apply Hnr; [exact Ha|right; exact Hb].
  - intros c Hc. cbn [map] in Hc. rewrite nth_set_nth_other.
    + apply Hagree. intro Hd. apply Hc. right. exact Hd.
    + intro E. apply Hc. left. symmetry. exact E.
Qed.

Lemma apply_seq_is_simul asg r : NoDup (map fst asg) -> no_cross asg -> apply_seq asg r = apply_simul asg r.
Proof.
  intros ND NC. unfold apply_seq, apply_simul. apply (seq_is_sim r asg ND NC []).
  - intros a _ [].
  - intros a [].
  - intros c _. reflexivity.
Qed.

(* whatever order the HashMap iterates in, the result is the SQL one *)
Lemma apply_seq_any_order asg asg' r :
  Permutation asg asg' -> NoDup (map fst asg) -> Known_C12_update_reads_assigned_column asg = false ->
  apply_seq asg' r = apply_simul asg r.
Proof.
  intros P ND K. pose proof (known_update_false asg K) as NC.
  rewrite apply_seq_is_simul.
  - unfold apply_simul. symmetry. apply (sim_fold_perm r asg asg' P ND r).
  - eapply Permutation_NoDup; [apply Permutation_map; exact P|exact ND].
  - eapply no_cross_perm; eauto.
Qed.

(* ================================================================== the action table *)
Definition is_keep (ns : when_nmbs) : bool := match ns with NsKeep => true | _ => false end.
Definition wm_fires (wm : when_matched) (cm : tv) : bool :=
  match wm with WmUpdateAll | WmFail => true | WmUpdateIf _ => is_tt cm | WmDoNothing => false end.

(* where the transcribed CASE agrees with the specification table:
   everywhere except (a) the F19 cell: a source row with a NULL key and no target row under InsertAll,
   (b) a matched row whose WHEN MATCHED clause does not fire, when a delete clause follows: the CASE falls
       through to `not_matched_in_source` (= target row present).  (b) needs WhenNotMatchedBySource <> Keep,
       which never reaches the CASE (can_use_create_plan). *)
Definition table_domain (wm : when_matched) (ins : bool) (ns : when_nmbs) (has_key tp : bool) (cm cd : tv) : bool :=
  negb (ins && negb has_key && negb tp)
  && (is_keep ns || negb (has_key && tp) || wm_fires wm cm
      || match ns with NsDeleteIf _ => negb (is_tt cd) | _ => false end).

Lemma action_table_agrees wm ins ns has_key tp cm cd :
  table_domain wm ins ns has_key tp cm cd = true ->
  case_table wm ins ns has_key tp cm cd = spec_table wm ins ns has_key tp cm cd.
Proof.
  destruct wm, ins, ns, has_key, tp, cm, cd; vm_compute; intro H; try reflexivity; discriminate H.
Qed.

Lemma action_table_differs wm ins ns has_key tp cm cd :
  table_domain wm ins ns has_key tp cm cd = false ->
  case_table wm ins ns has_key tp cm cd <> spec_table wm ins ns has_key tp cm cd.
Proof.
  destruct wm, ins, ns, has_key, tp, cm, cd; vm_compute; intro H; try discriminate H; intro E; discriminate E.
Qed.

(* the settings that reach the CASE (can_use_create_plan) and the rows a Right/Inner join produces *)
Lemma action_table_fast_path wm ins has_key tp cm cd :
  wm <> WmDoNothing -> (ins && negb has_key && negb tp) = false ->
  case_table wm ins NsKeep has_key tp cm cd = spec_table wm ins NsKeep has_key tp cm cd.
Proof.
  intros _ H. apply action_table_agrees. unfold table_domain. rewrite H. reflexivity.
Qed.

(* ================================================================== MERGE: the per-row fold *)
Definition st_ins (s : mstate) (rows : list row) : mstate :=
  {| s_del := s_del s; s_seen := s_seen s; s_upd := s_upd s; s_insr := s_insr s ++ rows;
     s_nins := (s_nins s + N.of_nat (length rows))%N; s_nupd := s_nupd s; s_ndel := s_ndel s |}.
Definition st_del (s : mstate) (ids : list addr) : mstate :=
  {| s_del := rev ids ++ s_del s; s_seen := s_seen s; s_upd := s_upd s; s_insr := s_insr s;
     s_nins := s_nins s; s_nupd := s_nupd s; s_ndel := (s_ndel s + N.of_nat (length ids))%N |}.
Definition st_upd (s : mstate) (us : list (addr * row)) : mstate :=
  {| s_del := rev (map fst us) ++ s_del s; s_seen := rev (map fst us) ++ s_seen s; s_upd := s_upd s ++ us; s_insr := s_insr s;
     s_nins := s_nins s; s_nupd := (s_nupd s + N.of_nat (length us))%N; s_ndel := s_ndel s |}.

Lemma mstate_eta (s : mstate) :
  s = {| s_del := s_del s; s_seen := s_seen s; s_upd := s_upd s; s_insr := s_insr s;
         s_nins := s_nins s; s_nupd := s_nupd s; s_ndel := s_ndel s |}.
Proof. destruct s; reflexivity. Qed.

Lemma st_ins_nil s : st_ins s [] = s.
Proof. unfold st_ins. cbn [length N.of_nat]. rewrite app_nil_r, N.add_0_r. symmetry. apply mstate_eta. Qed.
Lemma st_del_nil s : st_del s [] = s.
Proof. unfold st_del. cbn [length N.of_nat rev app]. rewrite N.add_0_r. symmetry. apply mstate_eta. Qed.
Lemma st_upd_nil s : st_upd s [] = s.
Proof. unfold st_upd. cbn [length N.of_nat rev app map]. rewrite app_nil_r, N.add_0_r. symmetry. apply mstate_eta. Qed.

Lemma fold_err st jr e : fold_left (step_row st) jr (inr e) = inr e.
Proof. induction jr as [|j jr IH]; [reflexivity|]. cbn [fold_left step_row]. exact IH. Qed.

(* rows whose action is Nothing can be dropped *)
Definition effective (st : msettings) (j : jrow) : bool := negb (action_eqb (row_action st j) ANothing).

Lemma fold_skip st jr acc :
  fold_left (step_row st) jr acc = fold_left (step_row st) (filter (effective st) jr) acc.
Proof.
  revert acc; induction jr as [|j jr IH]; intro acc; [reflexivity|].
  cbn [filter fold_left]. unfold effective at 1. destruct (row_action st j) eqn:E; cbn [action_eqb negb fold_left]; try apply IH.
  rewrite <- IH. f_equal. destruct acc as [s|e]; cbn [step_row]; [rewrite E|]; reflexivity.
Qed.

Lemma fold_ins st jr : (forall j, In j jr -> row_action st j = AInsert) ->
  forall s, fold_left (step_row st) jr (inl s) = inl (st_ins s (map js jr)).
Proof.
  induction jr as [|j jr IH]; intros H s.
  - cbn [fold_left map]. rewrite st_ins_nil. reflexivity.
  - cbn [fold_left step_row]. rewrite (H j (or_introl eq_refl)). rewrite IH by (intros; apply H; right; assumption).
    f_equal. unfold st_ins. cbn [s_del s_seen s_upd s_insr s_nins s_nupd s_ndel map length].
    rewrite <- app_assoc. cbn [app]. f_equal. lia.
Qed.

Lemma fold_del st jr : (forall j, In j jr -> row_action st j = ADelete /\ exists a, jid j = Some a) ->
  forall s, fold_left (step_row st) jr (inl s) =
            inl (st_del s (flat_map (fun j => match jid j with Some a => [a] | None => [] end) jr)).
Proof.
  induction jr as [|j jr IH]; intros H s.
  - cbn [fold_left flat_map]. rewrite st_del_nil. reflexivity.
  - destruct (H j (or_introl eq_refl)) as [Ha [a Hj]].
    cbn [fold_left step_row flat_map]. rewrite Ha, Hj. rewrite IH by (intros; apply H; right; assumption).
    f_equal. unfold st_del. cbn [s_del s_seen s_upd s_insr s_nins s_nupd s_ndel app length rev].
    rewrite <- app_assoc. cbn [app]. f_equal. lia.
Qed.

Lemma fold_fail st jr : (forall j, In j jr -> row_action st j = AFail) ->
  forall s, fold_left (step_row st) jr (inl s) = match jr with [] => inl s | _ => inr EFail end.
Proof.
  destruct jr as [|j jr]; intros H s; [reflexivity|].
  cbn [fold_left step_row]. rewrite (H j (or_introl eq_refl)). apply fold_err.
Qed.

(* duplicate detection as the code does it: against the set of ids seen so far *)
Fixpoint dupfree (seen ids : list addr) : bool :=
  match ids with
  | [] => true
  | a :: rest => negb (mem_addr a seen) && dupfree (a :: seen) rest
  end.

Lemma fold_upd st jr : (forall j, In j jr -> row_action st j = AUpdateAll /\ exists a, jid j = Some a) ->
  forall s, fold_left (step_row st) jr (inl s) =
            let us := flat_map (fun j => match jid j with Some a => [(a, js j)] | None => [] end) jr in
            if dupfree (s_seen s) (map fst us) then inl (st_upd s us) else inr EDup.
Proof.
  induction jr as [|j jr IH]; intros H s.
  - cbn [fold_left flat_map map dupfree]. rewrite st_upd_nil. reflexivity.
  - destruct (H j (or_introl eq_refl)) as [Ha [a Hj]].
    cbn [fold_left step_row flat_map]. rewrite Ha, Hj. cbn [app map fst dupfree].
    destruct (mem_addr a (s_seen s)) eqn:M; cbn [negb andb].
    + apply fold_err.
    + rewrite IH by (intros; apply H; right; assumption).
      cbn zeta. cbn [s_seen].
      destruct (dupfree (a :: s_seen s) _); [|reflexivity].
      f_equal. unfold st_upd. cbn [s_del s_seen s_upd s_insr s_nins s_nupd s_ndel app length rev map fst].
      rewrite <- !app_assoc. cbn [app]. f_equal. lia.
Qed.

Lemma addr_eqb_eq a b : addr_eqb a b = true <-> a = b.
Proof.
  destruct a as [a1 a2], b as [b1 b2]. unfold addr_eqb. cbn [fst snd]. rewrite andb_true_iff, !Nat.eqb_eq.
  split; [intros [-> ->]; reflexivity|intro E; inversion E; auto].
Qed.

Lemma mem_addr_in a l : mem_addr a l = true <-> In a l.
Proof.
  unfold mem_addr. rewrite existsb_exists. split.
  - intros [x [Hx E]]. apply addr_eqb_eq in E. subst. exact Hx.
  - intro H. exists a. split; [exact H|]. apply addr_eqb_eq. reflexivity.
Qed.

Lemma mem_addr_app a l1 l2 : mem_addr a (l1 ++ l2) = mem_addr a l1 || mem_addr a l2.
Proof. unfold mem_addr. apply existsb_app. Qed.

Lemma mem_addr_rev a l : mem_addr a (rev l) = mem_addr a l.
Proof.
  destruct (mem_addr a l) eqn:E.
  - apply mem_addr_in. apply in_rev. rewrite rev_involutive. apply mem_addr_in. exact E.
  - destruct (mem_addr a (rev l)) eqn:F; [|reflexivity]. apply mem_addr_in in F. apply in_rev in F.
    apply mem_addr_in in F. congruence.
Qed.

Lemma dupfree_spec seen ids : dupfree seen ids = true <-> NoDup ids /\ (forall a, In a ids -> ~ In a seen).
Proof.
  revert seen; induction ids as [|a ids IH]; intro seen; cbn [dupfree].
  - split; [intros _; split; [constructor|intros a []]|reflexivity].
  - rewrite andb_true_iff, negb_true_iff, IH. split.
    + intros [M [ND F]]. split.
      * constructor; [|exact ND]. intro Hin. apply (F a Hin). left. reflexivity.
      * intros b [<-|Hb] Hs.
        -- apply mem_addr_in in Hs. congruence.
        -- apply (F b Hb). right. exact Hs.
    + intros [ND F]. inversion ND as [|? ? Hn ND']. subst. split; [|split].
      * destruct (mem_addr a seen) eqn:M; [|reflexivity]. apply mem_addr_in in M. exfalso. apply (F a (or_introl eq_refl) M).
      * exact ND'.
      * intros b Hb [<-|Hs]; [exact (Hn Hb)|]. apply (F b (or_intror Hb) Hs).
Qed.

(* ================================================================== MERGE: keys and per-row actions *)
Definition mkB (it : addr * row) (s : row) : jrow := {| js := s; jt := snd it; jid := Some (fst it) |}.
Definition mkS (st : msettings) (s : row) : jrow := {| js := s; jt := nulls (m_ncols st); jid := None |}.
Definition mkT (st : msettings) (it : addr * row) : jrow :=
  {| js := nulls (length (m_scols st)); jt := snd it; jid := Some (fst it) |}.

Lemma join_rows_eq st ne k tgt src : join_rows st ne k tgt src =
  flat_map (fun it => map (mkB it) (filter (fun s => key_match st ne s (snd it)) src)) tgt
  ++ (if keep_src k then map (mkS st) (filter (fun s => negb (existsb (fun it => key_match st ne s (snd it)) tgt)) src) else [])
  ++ (if keep_tgt k then map (mkT st) (filter (fun it => negb (existsb (fun s => key_match st ne s (snd it)) src)) tgt) else []).
Proof. reflexivity. Qed.

Definition skeys (st : msettings) (s : row) : list cell := map (src_get (m_scols st) s) (m_on st).
Definition tkeys (st : msettings) (t : row) : list cell := map (fun k => nth k t None) (m_on st).

Lemma nth_nulls k n : nth k (nulls n) None = None.
Proof. unfold nulls. revert k; induction n as [|n IH]; intros [|k]; cbn [repeat nth]; auto. Qed.

Lemma src_get_nulls scols n k : src_get scols (nulls n) k = None.
Proof. unfold src_get. destruct (index_of k scols 0); [apply nth_nulls|reflexivity]. Qed.

Lemma skeys_nulls st n : existsb is_some (skeys st (nulls n)) = false.
Proof.
  unfold skeys. induction (m_on st) as [|k l IH]; cbn [map existsb]; [reflexivity|].
  rewrite src_get_nulls. exact IH.
Qed.

Lemma tkeys_nulls st n : existsb is_some (tkeys st (nulls n)) = false.
Proof.
  unfold tkeys. induction (m_on st) as [|k l IH]; cbn [map existsb]; [reflexivity|].
  rewrite nth_nulls. exact IH.
Qed.

Lemma sql_eq_some a b : sql_eq a b = true -> is_some a = true /\ is_some b = true.
Proof. destruct a, b; cbn; intro H; try discriminate; auto. Qed.

Lemma sql_on_some st s t : sql_on st s t = true ->
  forallb is_some (skeys st s) = true /\ forallb is_some (tkeys st t) = true.
Proof.
  unfold sql_on, skeys, tkeys. induction (m_on st) as [|k l IH]; cbn [forallb map]; [auto|].
  intro H. apply andb_true_iff in H as [H1 H2]. apply sql_eq_some in H1 as [A B]. destruct (IH H2) as [C D].
  rewrite A, B, C, D. auto.
Qed.

Lemma forallb_existsb_ne {A} (p : A -> bool) (l : list A) : l <> [] -> forallb p l = true -> existsb p l = true.
Proof. destruct l as [|x l]; [congruence|]. cbn [forallb existsb]. intros _ H. apply andb_true_iff in H as [H _]. rewrite H. reflexivity. Qed.

Lemma key_eq_false a b : key_eq false a b = sql_eq a b.
Proof. destruct a, b; reflexivity. Qed.

Lemma key_eq_of_sql ne a b : sql_eq a b = true -> key_eq ne a b = true.
Proof. destruct a, b; cbn; intro H; try discriminate; exact H. Qed.

Lemma key_eq_some ne a b : is_some a = true -> key_eq ne a b = sql_eq a b.
Proof. destruct a, b; cbn; intro H; try discriminate; reflexivity. Qed.

Lemma forallb_ext' {A} (f g : A -> bool) (l : list A) : (forall x, f x = g x) -> forallb f l = forallb g l.
Proof. intro H. induction l as [|x l IH]; cbn [forallb]; [reflexivity|]. rewrite H, IH. reflexivity. Qed.

Lemma key_match_false st s t : key_match st false s t = sql_on st s t.
Proof. unfold key_match, sql_on. apply forallb_ext'. intro k. apply key_eq_false. Qed.

Lemma key_match_of_sql st ne s t : sql_on st s t = true -> key_match st ne s t = true.
Proof.
  unfold key_match, sql_on. induction (m_on st) as [|k l IH]; cbn [forallb]; [auto|].
  intro H. apply andb_true_iff in H as [H1 H2]. rewrite (key_eq_of_sql ne _ _ H1), IH by exact H2. reflexivity.
Qed.

Lemma key_match_nonnull st ne s t : forallb is_some (skeys st s) = true -> key_match st ne s t = sql_on st s t.
Proof.
  unfold key_match, sql_on, skeys. induction (m_on st) as [|k l IH]; cbn [forallb map]; [auto|].
  intro H. apply andb_true_iff in H as [H1 H2]. rewrite (key_eq_some ne _ _ H1), IH by exact H2. reflexivity.
Qed.

(* a NULL = NULL match of the indexed join (one key column): both key cells are NULL *)
Lemma key_match_null_pair st s t k : m_on st = [k] -> key_match st true s t = true -> sql_on st s t = false ->
  existsb is_some (skeys st s) = false /\ existsb is_some (tkeys st t) = false.
Proof.
  unfold key_match, sql_on, skeys, tkeys. intros ->. cbn [forallb map existsb]. rewrite !andb_true_r, !orb_false_r.
  destruct (src_get (m_scols st) s k), (nth k t None); cbn; intros A B; try discriminate; try congruence; auto.
Qed.

Lemma skeys_exists st s : m_on st <> [] -> forallb is_some (skeys st s) = true -> existsb is_some (skeys st s) = true.
Proof. intros Hon H. apply forallb_existsb_ne; [|exact H]. unfold skeys. intro E. apply map_eq_nil in E. contradiction. Qed.
Lemma tkeys_exists st t : m_on st <> [] -> forallb is_some (tkeys st t) = true -> existsb is_some (tkeys st t) = true.
Proof. intros Hon H. apply forallb_existsb_ne; [|exact H]. unfold tkeys. intro E. apply map_eq_nil in E. contradiction. Qed.

Definition wm_act (st : msettings) (s t : row) : action :=
  match m_wm st with
  | WmFail => AFail
  | WmDoNothing => ANothing
  | WmUpdateAll => AUpdateAll
  | WmUpdateIf c => if is_tt (eval_b (widen st s ++ t) c) then AUpdateAll else ANothing
  end.
Definition nsdel (st : msettings) (t : row) : bool :=
  match m_ns st with NsKeep => false | NsDelete => true | NsDeleteIf c => is_tt (eval_b t c) end.

Lemma fast_path_facts st : fast_path st = true ->
  m_ns st = NsKeep /\ m_wm st <> WmDoNothing /\ m_indexed st = false /\ full_schema st = true.
Proof.
  unfold fast_path. intro H. apply andb_true_iff in H as [H Hns]. apply andb_true_iff in H as [H Hf].
  apply andb_true_iff in H as [Hwm Hi]. apply negb_true_iff in Hi.
  repeat split; auto.
  - destruct (m_ns st); try discriminate; reflexivity.
  - intro E. rewrite E in Hwm. discriminate.
Qed.

Lemma fast_no_null_eq st : fast_path st = true -> join_null_eq st = false.
Proof. intro H. unfold join_null_eq, uses_index. rewrite H. reflexivity. Qed.

Lemma existsb_same_set (p : cell -> bool) (f : nat -> cell) (a b : list nat) :
  same_set a b = true -> existsb p (map f a) = existsb p (map f b).
Proof.
  unfold same_set. intro H. apply andb_true_iff in H as [Hab Hba].
  assert (G : forall a b, forallb (fun x => existsb (Nat.eqb x) b) a = true -> existsb p (map f a) = true -> existsb p (map f b) = true).
  { clear. intros a b H E. rewrite existsb_map in *. apply existsb_exists in E as [x [Hx Px]].
    rewrite forallb_forall in H. specialize (H x Hx). apply existsb_exists in H as [y [Hy Exy]].
    apply Nat.eqb_eq in Exy. subst y. apply existsb_exists. exists x. auto. }
  destruct (existsb p (map f a)) eqn:Ea.
  - symmetry. apply (G a b Hab Ea).
  - destruct (existsb p (map f b)) eqn:Eb; [|reflexivity]. rewrite (G b a Hba Eb) in Ea. discriminate.
Qed.

Lemma keys_first st : fast_path st = false -> Known_C12_key_columns_not_first st = false ->
  same_set (lkeys st) (m_on st) = true /\ same_set (rkeys st) (m_on st) = true.
Proof.
  unfold Known_C12_key_columns_not_first. intros FP K. rewrite FP in K. cbn [negb andb] in K.
  apply negb_false_iff in K. apply andb_true_iff in K. exact K.
Qed.

Lemma lkeys_ok st j : fast_path st = false -> Known_C12_key_columns_not_first st = false ->
  side_left st j = existsb is_some (skeys st (js j)).
Proof. intros FP K. destruct (keys_first st FP K) as [L _]. unfold side_left, skeys. apply existsb_same_set. exact L. Qed.

Lemma rkeys_ok st j : fast_path st = false -> Known_C12_key_columns_not_first st = false ->
  side_right st j = existsb is_some (tkeys st (jt j)).
Proof. intros FP K. destruct (keys_first st FP K) as [_ R]. unfold side_right, tkeys. apply existsb_same_set. exact R. Qed.

Lemma act_both st it s :
  m_on st <> [] ->
  (join_null_eq st = true -> exists k, m_on st = [k]) ->
  Known_C12_fail_off_fast_path st = false ->
  Known_C12_key_columns_not_first st = false ->
  key_match st (join_null_eq st) s (snd it) = true ->
  row_action st (mkB it s) = if sql_on st s (snd it) then wm_act st s (snd it) else ANothing.
Proof.
  intros Hon Hsingle K3 K5 KM. unfold row_action. destruct (fast_path st) eqn:FP.
  - destruct (fast_path_facts st FP) as [Hns [Hwm _]].
    rewrite (fast_no_null_eq st FP), key_match_false in KM. rewrite KM.
    destruct (sql_on_some st s (snd it) KM) as [Hs _].
    unfold fast_action, src_keys, cond_m, wm_act. cbn [js jt jid mkB is_some]. fold (skeys st s). rewrite Hs, Hns.
    destruct (m_wm st) as [|c| |]; try congruence; destruct (m_ins st); try reflexivity;
      destruct (eval_b (widen st s ++ snd it) c); reflexivity.
  - unfold merger_action. rewrite (lkeys_ok st _ FP K5), (rkeys_ok st _ FP K5). unfold mkB. cbn [js jt].
    destruct (sql_on st s (snd it)) eqn:SQ.
    + destruct (sql_on_some st s (snd it) SQ) as [Hs Ht].
      rewrite (skeys_exists st s Hon Hs), (tkeys_exists st (snd it) Hon Ht). cbn [andb].
      unfold wm_act, cond_m. cbn [js jt mkB].
      destruct (m_wm st) eqn:W; try reflexivity.
      unfold Known_C12_fail_off_fast_path in K3. rewrite W, FP in K3. discriminate.
    + destruct (join_null_eq st) eqn:NE.
      * destruct (Hsingle eq_refl) as [k Hk].
        destruct (key_match_null_pair st s (snd it) k Hk KM SQ) as [A B]. rewrite A, B. reflexivity.
      * rewrite key_match_false in KM. congruence.
Qed.

Lemma act_src st s :
  m_on st <> [] ->
  Known_C12_key_columns_not_first st = false ->
  (m_ins st = true -> forallb is_some (skeys st s) = true) ->
  row_action st (mkS st s) = if m_ins st then AInsert else ANothing.
Proof.
  intros Hon K5 Hk. unfold row_action. destruct (fast_path st) eqn:FP.
  - destruct (fast_path_facts st FP) as [Hns [Hwm _]].
    unfold fast_action, src_keys. cbn [js jt jid mkS is_some]. fold (skeys st s). rewrite Hns.
    destruct (m_ins st) eqn:I.
    + rewrite (Hk eq_refl). reflexivity.
    + destruct (forallb is_some (skeys st s)), (m_wm st); try congruence; try reflexivity;
        destruct (cond_m st _); reflexivity.
  - unfold merger_action. rewrite (lkeys_ok st _ FP K5), (rkeys_ok st _ FP K5). unfold mkS. cbn [js jt].
    rewrite tkeys_nulls. rewrite !andb_false_r. cbn [negb]. rewrite andb_true_r.
    destruct (m_ins st) eqn:I.
    + rewrite (skeys_exists st s Hon (Hk eq_refl)). reflexivity.
    + destruct (existsb is_some (skeys st s)); reflexivity.
Qed.

Lemma act_tgt st it :
  fast_path st = false ->
  Known_C12_key_columns_not_first st = false ->
  (is_keep (m_ns st) = false -> existsb is_some (tkeys st (snd it)) = true) ->
  row_action st (mkT st it) = if nsdel st (snd it) then ADelete else ANothing.
Proof.
  intros FP K5 Hk. unfold row_action. rewrite FP.
  unfold merger_action. rewrite (lkeys_ok st _ FP K5), (rkeys_ok st _ FP K5). unfold mkT. cbn [js jt].
  rewrite skeys_nulls. cbn [andb negb]. unfold nsdel, cond_d. cbn [jt mkT].
  destruct (existsb is_some (tkeys st (snd it))) eqn:R.
  - destruct (m_ns st); reflexivity.
  - destruct (m_ns st); try reflexivity; specialize (Hk eq_refl); discriminate.
Qed.

(* ================================================================== MERGE: the joined stream, row by row *)
Lemma filter_map_comm {A B} (f : A -> B) (p : B -> bool) (l : list A) :
  filter p (map f l) = map f (filter (fun x => p (f x)) l).
Proof. induction l as [|x l IH]; cbn [map filter]; [reflexivity|]. destruct (p (f x)); cbn [map]; rewrite IH; reflexivity. Qed.

Lemma filter_filter {A} (p q : A -> bool) (l : list A) : filter p (filter q l) = filter (fun x => q x && p x) l.
Proof.
  induction l as [|x l IH]; cbn [filter]; [reflexivity|].
  destruct (q x); cbn [filter andb]; [destruct (p x)|]; rewrite IH; reflexivity.
Qed.

Lemma filter_flat_map {A B} (p : B -> bool) (f : A -> list B) (l : list A) :
  filter p (flat_map f l) = flat_map (fun x => filter p (f x)) l.
Proof. induction l as [|x l IH]; cbn [flat_map]; [reflexivity|]. rewrite filter_app, IH. reflexivity. Qed.

Lemma filter_all_true {A} (p : A -> bool) (l : list A) : (forall x, In x l -> p x = true) -> filter p l = l.
Proof.
  induction l as [|x l IH]; cbn [filter]; intro H; [reflexivity|].
  rewrite (H x (or_introl eq_refl)), IH; [reflexivity|]. intros y Hy. apply H. right. exact Hy.
Qed.

Lemma filter_all_false {A} (p : A -> bool) (l : list A) : (forall x, In x l -> p x = false) -> filter p l = [].
Proof.
  induction l as [|x l IH]; cbn [filter]; intro H; [reflexivity|].
  rewrite (H x (or_introl eq_refl)). apply IH. intros y Hy. apply H. right. exact Hy.
Qed.

Lemma negb_existsb_nil {A} (p : A -> bool) (l : list A) : negb (existsb p l) = is_nil (filter p l).
Proof. induction l as [|x l IH]; cbn [existsb filter]; [reflexivity|]. destruct (p x); cbn; [reflexivity|exact IH]. Qed.

Lemma existsb_ext_in {A} (p q : A -> bool) (l : list A) : (forall x, In x l -> p x = q x) -> existsb p l = existsb q l.
Proof.
  induction l as [|x l IH]; cbn [existsb]; intro H; [reflexivity|].
  rewrite (H x (or_introl eq_refl)), IH; [reflexivity|]. intros y Hy. apply H. right. exact Hy.
Qed.

Lemma existsb_none_false {A} (f : A -> cell) (l : list A) :
  existsb (fun k => is_none (f k)) l = false -> forallb is_some (map f l) = true.
Proof.
  induction l as [|x l IH]; cbn [existsb map forallb]; intro H; [reflexivity|].
  apply orb_false_iff in H as [H1 H2]. rewrite IH by exact H2. destruct (f x); [reflexivity|discriminate].
Qed.

Lemma forallb_none_false {A} (f : A -> cell) (l : list A) :
  forallb (fun k => is_none (f k)) l = false -> existsb is_some (map f l) = true.
Proof.
  induction l as [|x l IH]; cbn [existsb map forallb]; intro H; [discriminate|].
  destruct (f x); cbn [is_none is_some andb orb] in *; [reflexivity|]. apply IH. exact H.
Qed.

Definition fires (st : msettings) (s t : row) : bool := negb (action_eqb (wm_act st s t) ANothing).
Definition matches (st : msettings) (src : list row) (t : row) : list row := filter (fun s => sql_on st s t) src.
Definition hits (st : msettings) (src : list row) (t : row) : list row := filter (fun s => sql_on st s t && fires st s t) src.
Definition inserted (st : msettings) (tgt : itable) (src : list row) : list row :=
  if m_ins st then filter (fun s => negb (existsb (fun t => sql_on st s t) (map snd tgt))) src else [].
Definition dropped (st : msettings) (tgt : itable) (src : list row) : itable :=
  filter (fun it => is_nil (matches st src (snd it)) && nsdel st (snd it)) tgt.
Definition updates (st : msettings) (tgt : itable) (src : list row) : list (addr * row) :=
  flat_map (fun it => map (fun s => (fst it, s)) (hits st src (snd it))) tgt.

Section MergeRows.
  Variable st : msettings.
  Variable tgt : itable.
  Variable src : list row.
  Hypothesis Hon : m_on st <> [].
  Hypothesis Hsingle : join_null_eq st = true -> exists k, m_on st = [k].
  Hypothesis Hsup : supported st = true.
  Hypothesis K1 : Known_C12_null_key_source_rows_skipped st src = false.
  Hypothesis K2 : Known_C12_null_key_target_rows_kept st (map snd tgt) = false.
  Hypothesis K3 : Known_C12_fail_off_fast_path st = false.
  Hypothesis K5 : Known_C12_key_columns_not_first st = false.

  Let ne := join_null_eq st.
  Let kd := join_kind st.

  Lemma src_keys_nonnull : m_ins st = true -> forall s, In s src -> forallb is_some (skeys st s) = true.
  Proof.
    intros I s Hs. unfold Known_C12_null_key_source_rows_skipped in K1. rewrite I in K1. cbn [andb] in K1.
    unfold skeys. apply existsb_none_false.
    destruct (existsb (fun k => is_none (src_get (m_scols st) s k)) (m_on st)) eqn:E; [|reflexivity].
    assert (T : existsb (fun s => existsb (fun k => is_none (src_get (m_scols st) s k)) (m_on st)) src = true).
    { apply existsb_exists. exists s. auto. }
    congruence.
  Qed.

  Lemma tgt_keys_nonnull : is_keep (m_ns st) = false -> forall it, In it tgt -> existsb is_some (tkeys st (snd it)) = true.
  Proof.
    intros NK it Hit. unfold Known_C12_null_key_target_rows_kept in K2.
    assert (N : match m_ns st with NsKeep => false | _ => true end = true) by (destruct (m_ns st); [discriminate| |]; reflexivity).
    rewrite N in K2. cbn [andb] in K2. unfold tkeys. apply forallb_none_false.
    destruct (forallb (fun k => is_none (nth k (snd it) None)) (m_on st)) eqn:E; [|reflexivity].
    assert (T : existsb (fun t => forallb (fun k => is_none (nth k t None)) (m_on st)) (map snd tgt) = true).
    { apply existsb_exists. exists (snd it). split; [apply in_map; exact Hit|exact E]. }
    congruence.
  Qed.

  Lemma ins_keeps_src : m_ins st = true -> keep_src kd = true.
  Proof.
    intro I. unfold kd, join_kind. rewrite I. destruct (fast_path st); [reflexivity|]. destruct (full_schema st); reflexivity.
  Qed.

  Lemma keep_tgt_legacy : keep_tgt kd = true -> fast_path st = false.
  Proof.
    unfold kd, join_kind. destruct (fast_path st); [|reflexivity]. destruct (m_ins st); discriminate.
  Qed.

  Lemma delete_means_full_join : is_keep (m_ns st) = false -> fast_path st = false /\ kd = JFull /\ ne = false.
  Proof.
    intro NK.
    assert (FP : fast_path st = false).
    { destruct (fast_path st) eqn:F; [|reflexivity]. destruct (fast_path_facts st F) as [E _]. rewrite E in NK. discriminate. }
    split; [exact FP|]. unfold supported in Hsup.
    assert (Fu : full_schema st = true).
    { destruct (full_schema st); [reflexivity|]. cbn [orb] in Hsup. destruct (m_ns st); discriminate. }
    split.
    - unfold kd, join_kind. rewrite FP, Fu. reflexivity.
    - unfold ne, join_null_eq, uses_index. destruct (m_ns st); try discriminate; rewrite !andb_false_r; reflexivity.
  Qed.

  (* the three segments of the joined stream after dropping the rows that do nothing *)
  Lemma eff_both :
    filter (effective st) (flat_map (fun it => map (mkB it) (filter (fun s => key_match st ne s (snd it)) src)) tgt)
    = flat_map (fun it => map (mkB it) (hits st src (snd it))) tgt.
  Proof.
    rewrite filter_flat_map. apply flat_map_ext_in. intros it _.
    rewrite filter_map_comm, filter_filter. f_equal. unfold hits. apply filter_ext_in'. intros s _.
    destruct (key_match st ne s (snd it)) eqn:KM; cbn [andb].
    - unfold effective. rewrite (act_both st it s Hon Hsingle K3 K5 KM).
      destruct (sql_on st s (snd it)); [reflexivity|reflexivity].
    - destruct (sql_on st s (snd it)) eqn:SQ; [|reflexivity].
      rewrite (key_match_of_sql st ne s (snd it) SQ) in KM. discriminate.
  Qed.

  Lemma eff_src :
    filter (effective st)
      (if keep_src kd then map (mkS st) (filter (fun s => negb (existsb (fun it => key_match st ne s (snd it)) tgt)) src) else [])
    = map (mkS st) (inserted st tgt src).
  Proof.
    unfold inserted. destruct (m_ins st) eqn:I.
    - rewrite (ins_keeps_src I). rewrite filter_all_true.
      + f_equal. apply filter_ext_in'. intros s Hs. f_equal. rewrite existsb_map. apply existsb_ext_in. intros it _.
        apply key_match_nonnull. apply (src_keys_nonnull I s Hs).
      + intros j Hj. apply in_map_iff in Hj as [s [<- Hs]]. apply filter_In in Hs as [Hs _].
        unfold effective. rewrite (act_src st s Hon K5 (fun _ => src_keys_nonnull I s Hs)), I. reflexivity.
    - destruct (keep_src kd); [|reflexivity]. apply filter_all_false.
      intros j Hj. apply in_map_iff in Hj as [s [<- Hs]].
      unfold effective. rewrite (act_src st s Hon K5); [rewrite I; reflexivity|]. rewrite I. discriminate.
  Qed.

  Lemma eff_tgt :
    filter (effective st)
      (if keep_tgt kd then map (mkT st) (filter (fun it => negb (existsb (fun s => key_match st ne s (snd it)) src)) tgt) else [])
    = map (mkT st) (dropped st tgt src).
  Proof.
    unfold dropped. destruct (is_keep (m_ns st)) eqn:NK.
    - assert (E : forall t, nsdel st t = false) by (intro t; unfold nsdel; destruct (m_ns st); [reflexivity|discriminate|discriminate]).
      rewrite (filter_all_false (fun it => is_nil (matches st src (snd it)) && nsdel st (snd it))) by (intros; rewrite E; apply andb_false_r).
      destruct (keep_tgt kd) eqn:KT; [|reflexivity]. apply filter_all_false.
      intros j Hj. apply in_map_iff in Hj as [it [<- Hit]].
      unfold effective. rewrite (act_tgt st it (keep_tgt_legacy KT) K5); [rewrite E; reflexivity|]. rewrite NK. discriminate.
    - destruct (delete_means_full_join NK) as [FP [KD NE]]. rewrite KD. cbn [keep_tgt].
      rewrite filter_map_comm, filter_filter. f_equal. apply filter_ext_in'. intros it Hit.
      unfold effective. rewrite (act_tgt st it FP K5 (fun _ => tgt_keys_nonnull NK it Hit)).
      rewrite negb_existsb_nil. unfold matches. rewrite NE.
      rewrite (filter_ext _ _ (fun s => key_match_false st s (snd it))).
      destruct (nsdel st (snd it)); reflexivity.
  Qed.

  Lemma eff_join :
    filter (effective st) (join_rows st ne kd tgt src)
    = flat_map (fun it => map (mkB it) (hits st src (snd it))) tgt
      ++ map (mkS st) (inserted st tgt src) ++ map (mkT st) (dropped st tgt src).
  Proof. rewrite join_rows_eq, !filter_app, eff_both, eff_src, eff_tgt. reflexivity. Qed.

  (* actions of the rows that are left *)
  Lemma hit_action it s : In s (hits st src (snd it)) -> row_action st (mkB it s) = wm_act st s (snd it).
  Proof.
    intro H. apply filter_In in H as [_ H]. apply andb_true_iff in H as [SQ _].
    rewrite (act_both st it s Hon Hsingle K3 K5 (key_match_of_sql st ne s (snd it) SQ)), SQ. reflexivity.
  Qed.

  Lemma ins_action s : In s (inserted st tgt src) -> row_action st (mkS st s) = AInsert.
  Proof.
    unfold inserted. destruct (m_ins st) eqn:I; [|intros []]. intro H. apply filter_In in H as [Hs _].
    rewrite (act_src st s Hon K5 (fun _ => src_keys_nonnull I s Hs)), I. reflexivity.
  Qed.

  Lemma drop_action it : In it (dropped st tgt src) -> row_action st (mkT st it) = ADelete.
  Proof.
    intro H. apply filter_In in H as [Hit H]. apply andb_true_iff in H as [_ D].
    assert (NK : is_keep (m_ns st) = false).
    { unfold nsdel in D. destruct (m_ns st); [discriminate|reflexivity|reflexivity]. }
    destruct (delete_means_full_join NK) as [FP _].
    rewrite (act_tgt st it FP K5 (fun _ => tgt_keys_nonnull NK it Hit)), D. reflexivity.
  Qed.
End MergeRows.

(* ================================================================== MERGE: what the fold computes *)
Lemma is_nil_flat_map_map {A B C} (f : A -> B -> C) (g : A -> list B) (l : list A) :
  is_nil (flat_map (fun x => map (f x) (g x)) l) = forallb (fun x => is_nil (g x)) l.
Proof.
  induction l as [|x l IH]; cbn [flat_map forallb]; [reflexivity|].
  destruct (g x) as [|b bs]; cbn [map app is_nil andb]; [exact IH|reflexivity].
Qed.

Lemma is_nil_true {A} (l : list A) : is_nil l = true -> l = [].
Proof. destruct l; [reflexivity|discriminate]. Qed.

Lemma ids_of_both (H : addr * row -> list row) (l : itable) :
  flat_map (fun j => match jid j with Some a => [(a, js j)] | None => [] end) (flat_map (fun it => map (mkB it) (H it)) l)
  = flat_map (fun it => map (fun s => (fst it, s)) (H it)) l.
Proof.
  induction l as [|it l IH]; cbn [flat_map]; [reflexivity|]. rewrite flat_map_app, IH. f_equal.
  induction (H it) as [|s ss IHs]; cbn [map flat_map app]; [reflexivity|]. rewrite IHs. reflexivity.
Qed.

Lemma ids_of_tgt st (l : itable) :
  flat_map (fun j => match jid j with Some a => [a] | None => [] end) (map (mkT st) l) = map fst l.
Proof. induction l as [|it l IH]; cbn [map flat_map app]; [reflexivity|]. rewrite IH. reflexivity. Qed.

Lemma js_of_src st (l : list row) : map js (map (mkS st) l) = l.
Proof. induction l as [|s l IH]; cbn [map]; [reflexivity|]. rewrite IH. reflexivity. Qed.

Lemma fires_not_fail st s t : m_wm st <> WmFail -> fires st s t = true -> wm_act st s t = AUpdateAll.
Proof.
  unfold fires, wm_act. destruct (m_wm st) as [|c| |]; try congruence; intros _ H; try reflexivity.
  - destruct (is_tt (eval_b (widen st s ++ t) c)); [reflexivity|discriminate].
  - discriminate.
Qed.

Lemma fires_fail st s t : m_wm st = WmFail -> wm_act st s t = AFail /\ fires st s t = true.
Proof. unfold fires, wm_act. intros ->. split; reflexivity. Qed.

Definition final_state (st : msettings) (tgt : itable) (src : list row) : mstate :=
  st_del (st_ins (st_upd mstate0 (updates st tgt src)) (inserted st tgt src)) (map fst (dropped st tgt src)).

Section MergeRun.
  Variable st : msettings.
  Variable tgt : itable.
  Variable src : list row.
  Hypothesis Hon : m_on st <> [].
  Hypothesis Hsingle : join_null_eq st = true -> exists k, m_on st = [k].
  Hypothesis Hsup : supported st = true.
  Hypothesis K1 : Known_C12_null_key_source_rows_skipped st src = false.
  Hypothesis K2 : Known_C12_null_key_target_rows_kept st (map snd tgt) = false.
  Hypothesis K3 : Known_C12_fail_off_fast_path st = false.
  Hypothesis K5 : Known_C12_key_columns_not_first st = false.

  Lemma run_rows_split :
    run_rows st (join_rows st (join_null_eq st) (join_kind st) tgt src)
    = fold_left (step_row st) (map (mkT st) (dropped st tgt src))
        (fold_left (step_row st) (map (mkS st) (inserted st tgt src))
           (fold_left (step_row st) (flat_map (fun it => map (mkB it) (hits st src (snd it))) tgt) (inl mstate0))).
  Proof.
    unfold run_rows. rewrite fold_skip, (eff_join st tgt src Hon Hsingle Hsup K1 K2 K3 K5), !fold_left_app. reflexivity.
  Qed.

  Lemma fold_inserted s :
    fold_left (step_row st) (map (mkS st) (inserted st tgt src)) (inl s) = inl (st_ins s (inserted st tgt src)).
  Proof.
    rewrite fold_ins, js_of_src; [reflexivity|].
    intros j Hj. apply in_map_iff in Hj as [r [<- Hr]]. eapply ins_action; eassumption.
  Qed.

  Lemma fold_dropped s :
    fold_left (step_row st) (map (mkT st) (dropped st tgt src)) (inl s) = inl (st_del s (map fst (dropped st tgt src))).
  Proof.
    rewrite fold_del, ids_of_tgt; [reflexivity|].
    intros j Hj. apply in_map_iff in Hj as [it [<- Hit]]. split; [|eexists; reflexivity].
    eapply drop_action; eassumption.
  Qed.

  Lemma run_rows_not_fail : m_wm st <> WmFail ->
    run_rows st (join_rows st (join_null_eq st) (join_kind st) tgt src)
    = if dupfree [] (map fst (updates st tgt src)) then inl (final_state st tgt src) else inr EDup.
  Proof.
    intro NF. rewrite run_rows_split. rewrite fold_upd.
    - cbn zeta. rewrite ids_of_both. fold (updates st tgt src). cbn [s_seen mstate0].
      destruct (dupfree [] (map fst (updates st tgt src))).
      + rewrite fold_inserted, fold_dropped. reflexivity.
      + rewrite !fold_err. reflexivity.
    - intros j Hj. apply in_flat_map in Hj as [it [_ Hj]]. apply in_map_iff in Hj as [s [<- Hs]].
      split; [|eexists; reflexivity].
      rewrite (hit_action st src Hon Hsingle K3 K5 it s Hs). apply fires_not_fail; [exact NF|].
      apply filter_In in Hs as [_ Hs]. apply andb_true_iff in Hs as [_ F]. exact F.
  Qed.

  Lemma run_rows_fail : m_wm st = WmFail ->
    run_rows st (join_rows st (join_null_eq st) (join_kind st) tgt src)
    = if forallb (fun it => is_nil (hits st src (snd it))) tgt then inl (final_state st tgt src) else inr EFail.
  Proof.
    intro F. rewrite run_rows_split. rewrite fold_fail.
    - destruct (forallb (fun it => is_nil (hits st src (snd it))) tgt) eqn:AN.
      + assert (E1 : flat_map (fun it => map (mkB it) (hits st src (snd it))) tgt = []).
        { apply is_nil_true. rewrite (is_nil_flat_map_map (fun it => mkB it)). exact AN. }
        assert (E2 : updates st tgt src = []).
        { unfold updates. apply is_nil_true. rewrite (is_nil_flat_map_map (fun it s => (fst it, s))). exact AN. }
        rewrite E1, fold_inserted, fold_dropped. unfold final_state. rewrite E2, st_upd_nil. reflexivity.
      + assert (E1 : is_nil (flat_map (fun it => map (mkB it) (hits st src (snd it))) tgt) = false).
        { rewrite (is_nil_flat_map_map (fun it => mkB it)). exact AN. }
        destruct (flat_map (fun it => map (mkB it) (hits st src (snd it))) tgt); [discriminate E1|].
        rewrite !fold_err. reflexivity.
    - intros j Hj. apply in_flat_map in Hj as [it [_ Hj]]. apply in_map_iff in Hj as [s [<- Hs]].
      rewrite (hit_action st src Hon Hsingle K3 K5 it s Hs). apply (fires_fail st s (snd it) F).
  Qed.
End MergeRun.

(* ================================================================== MERGE: the SQL side *)
Lemma fires_kind st s t :
  fires st s t = match m_wm st with
                 | WmUpdateAll | WmFail => true
                 | WmDoNothing => false
                 | WmUpdateIf c => is_tt (eval_b (widen st s ++ t) c)
                 end.
Proof. unfold fires, wm_act. destruct (m_wm st) as [|c| |]; try reflexivity. destruct (is_tt (eval_b (widen st s ++ t) c)); reflexivity. Qed.

Lemma hits_of_matches st src t : hits st src t = filter (fun s => fires st s t) (matches st src t).
Proof. unfold hits, matches. rewrite filter_filter. reflexivity. Qed.

Lemma sql_fate_char st src t :
  sql_fate st src t =
    match matches st src t with
    | [] => if nsdel st t then FDelete else FKeep
    | _ :: _ => match m_wm st with
                | WmFail => FFailed
                | _ => match hits st src t with [] => FKeep | [s] => FUpdate s | _ => FAmbiguous end
                end
    end.
Proof.
  unfold sql_fate. rewrite hits_of_matches. fold (matches st src t).
  destruct (matches st src t) as [|m0 ms] eqn:M.
  - unfold nsdel. destruct (m_ns st); reflexivity.
  - rewrite (filter_ext _ _ (fun s => fires_kind st s t)).
    destruct (m_wm st) as [|c| |] eqn:W.
    + rewrite filter_all_true by reflexivity. destruct ms; reflexivity.
    + reflexivity.
    + rewrite filter_all_false by reflexivity. reflexivity.
    + reflexivity.
Qed.

Lemma hits_nil_of_matches_nil st src t : matches st src t = [] -> hits st src t = [].
Proof. intro M. rewrite hits_of_matches, M. reflexivity. Qed.

Lemma fail_hits st src t : m_wm st = WmFail -> hits st src t = matches st src t.
Proof.
  intro F. rewrite hits_of_matches. apply filter_all_true. intros s _. rewrite fires_kind, F. reflexivity.
Qed.

(* ================================================================== MERGE: identities *)
Lemma updates_ids st src (l : itable) a : In a (map fst (updates st l src)) -> In a (map fst l).
Proof.
  unfold updates. induction l as [|it l IH]; cbn [flat_map map]; [auto|].
  rewrite map_app, in_app_iff, map_map. cbn [fst]. intros [H|H].
  - apply in_map_iff in H as [s [<- _]]. left. reflexivity.
  - right. apply IH. exact H.
Qed.

Lemma mem_const_ids a b (H : list row) :
  mem_addr a (map fst (map (fun s => (b, s)) H)) = addr_eqb a b && negb (is_nil H).
Proof.
  induction H as [|s H IH]; cbn [map is_nil negb]; [rewrite andb_false_r; reflexivity|].
  unfold mem_addr in *. cbn [existsb fst]. rewrite andb_true_r. destruct (addr_eqb a b); [reflexivity|].
  cbn [orb]. rewrite IH. reflexivity.
Qed.

Lemma addr_eqb_refl a : addr_eqb a a = true.
Proof. apply addr_eqb_eq. reflexivity. Qed.

Lemma addr_eqb_neq a b : a <> b -> addr_eqb a b = false.
Proof. intro H. destruct (addr_eqb a b) eqn:E; [|reflexivity]. apply addr_eqb_eq in E. contradiction. Qed.

Lemma mem_addr_notin a l : ~ In a l -> mem_addr a l = false.
Proof. intro H. destruct (mem_addr a l) eqn:E; [|reflexivity]. apply mem_addr_in in E. contradiction. Qed.

Lemma mem_updates st src (l : itable) it : NoDup (map fst l) -> In it l ->
  mem_addr (fst it) (map fst (updates st l src)) = negb (is_nil (hits st src (snd it))).
Proof.
  unfold updates. induction l as [|x l IH]; intros ND Hin; [destruct Hin|].
  cbn [map] in ND. inversion ND as [|? ? Hx ND']. subst.
  cbn [flat_map]. rewrite map_app, mem_addr_app, mem_const_ids. destruct Hin as [->|Hin].
  - rewrite addr_eqb_refl. cbn [andb]. fold (updates st l src).
    rewrite (mem_addr_notin (fst it) (map fst (updates st l src))); [apply orb_false_r|].
    intro H. apply Hx. apply (updates_ids st src l _ H).
  - rewrite addr_eqb_neq; [cbn [andb orb]; apply IH; assumption|].
    intro E. apply Hx. rewrite <- E. apply in_map. exact Hin.
Qed.

Lemma mem_filtered (p : addr * row -> bool) (l : itable) it : NoDup (map fst l) -> In it l ->
  mem_addr (fst it) (map fst (filter p l)) = p it.
Proof.
  induction l as [|x l IH]; intros ND Hin; [destruct Hin|].
  cbn [map] in ND. inversion ND as [|? ? Hx ND']. subst. cbn [filter]. destruct Hin as [->|Hin].
  - destruct (p it) eqn:P.
    + cbn [map]. unfold mem_addr. cbn [existsb]. rewrite addr_eqb_refl. reflexivity.
    + apply mem_addr_notin. intro H. apply Hx. apply in_map_iff in H as [y [E Hy]]. apply filter_In in Hy as [Hy _].
      rewrite <- E. apply in_map. exact Hy.
  - assert (NE : fst it <> fst x) by (intro E; apply Hx; rewrite <- E; apply in_map; exact Hin).
    destruct (p x); [|apply IH; assumption].
    cbn [map]. unfold mem_addr. cbn [existsb]. rewrite (addr_eqb_neq _ _ NE). cbn [orb]. apply IH; assumption.
Qed.

Lemma find_upd_app a l1 l2 :
  find_upd a (l1 ++ l2) = match find_upd a l1 with Some u => Some u | None => find_upd a l2 end.
Proof.
  unfold find_upd. induction l1 as [|x l1 IH]; cbn [app find]; [reflexivity|].
  destruct (addr_eqb a (fst x)); [reflexivity|exact IH].
Qed.

Lemma find_upd_const a b (H : list row) :
  find_upd a (map (fun s => (b, s)) H) = if addr_eqb a b then hd_error H else None.
Proof.
  unfold find_upd. induction H as [|s H IH]; cbn [map find hd_error fst snd]; [destruct (addr_eqb a b); reflexivity|].
  destruct (addr_eqb a b) eqn:E; [reflexivity|]. rewrite IH. reflexivity.
Qed.

Lemma find_upd_notin a l : ~ In a (map fst l) -> find_upd a l = None.
Proof.
  unfold find_upd. induction l as [|x l IH]; cbn [map find]; intro H; [reflexivity|].
  rewrite addr_eqb_neq; [apply IH; intro; apply H; right; assumption|]. intro E. apply H. left. symmetry. exact E.
Qed.

Lemma find_updates st src (l : itable) it : NoDup (map fst l) -> In it l ->
  find_upd (fst it) (updates st l src) = hd_error (hits st src (snd it)).
Proof.
  unfold updates. induction l as [|x l IH]; intros ND Hin; [destruct Hin|].
  cbn [map] in ND. inversion ND as [|? ? Hx ND']. subst.
  cbn [flat_map]. rewrite find_upd_app, find_upd_const. destruct Hin as [->|Hin].
  - rewrite addr_eqb_refl. destruct (hits st src (snd it)) as [|s ss] eqn:H; cbn [hd_error]; [|reflexivity].
    fold (updates st l src). apply find_upd_notin. intro H1. apply Hx. apply (updates_ids st src l _ H1).
  - rewrite addr_eqb_neq; [apply IH; assumption|]. intro E. apply Hx. rewrite <- E. apply in_map. exact Hin.
Qed.

Lemma dupfree_updates st src (l : itable) : forall seen,
  NoDup (map fst l) -> (forall it, In it l -> ~ In (fst it) seen) ->
  dupfree seen (map fst (updates st l src)) = negb (existsb (fun it => Nat.leb 2 (length (hits st src (snd it)))) l).
Proof.
  unfold updates. induction l as [|x l IH]; intros seen ND F; [reflexivity|].
  cbn [map] in ND. inversion ND as [|? ? Hx ND']. subst.
  cbn [flat_map existsb]. rewrite map_app, map_map. cbn [fst].
  assert (Fx : mem_addr (fst x) seen = false) by (apply mem_addr_notin; apply F; left; reflexivity).
  assert (IH' : forall seen', (forall it, In it l -> ~ In (fst it) seen') ->
      dupfree seen' (map fst (flat_map (fun it => map (fun s => (fst it, s)) (hits st src (snd it))) l))
      = negb (existsb (fun it => Nat.leb 2 (length (hits st src (snd it)))) l)) by (intros; apply IH; assumption).
  destruct (hits st src (snd x)) as [|s [|s' ss]]; cbn [map app dupfree length Nat.leb orb].
  - apply IH'. intros it Hit. apply F. right. exact Hit.
  - rewrite Fx. cbn [negb andb]. apply IH'. intros it Hit [E|Hs].
    + apply Hx. rewrite E. apply in_map. exact Hit.
    + apply (F it (or_intror Hit) Hs).
  - rewrite Fx. cbn [negb andb]. unfold mem_addr at 1. cbn [existsb]. rewrite addr_eqb_refl. reflexivity.
Qed.

(* ================================================================== MERGE: schema helpers *)
Lemma index_of_in k l j : In k l -> index_of k l j <> None.
Proof.
  revert j; induction l as [|x l IH]; intros j H; [destruct H|]. cbn [index_of].
  destruct (Nat.eqb x k) eqn:E; [discriminate|]. apply IH. destruct H as [H|H]; [|exact H].
  apply Nat.eqb_neq in E. contradiction.
Qed.

Lemma full_schema_eq st : full_schema st = true -> m_scols st = seq 0 (m_ncols st).
Proof. unfold full_schema. intro H. apply (list_eqb_eq Nat.eqb); [|exact H]. intros x y. apply Nat.eqb_eq. Qed.

Lemma upd_row_full st s t : full_schema st = true -> upd_row st s t = widen st s.
Proof.
  intro F. unfold upd_row, widen. apply map_ext_in. intros k Hk. unfold src_get.
  destruct (index_of k (m_scols st) 0) eqn:E; [reflexivity|].
  exfalso. apply (index_of_in k (m_scols st) 0); [|exact E]. rewrite (full_schema_eq st F). exact Hk.
Qed.

(* ================================================================== MERGE = SQL MERGE *)
Definition mres_equiv (a b : mresult + merr) : Prop :=
  match a, b with
  | inl r1, inl r2 => Permutation (r_rows r1) (r_rows r2) /\ r_stats r1 = r_stats r2
  | inr e1, inr e2 => e1 = e2
  | _, _ => False
  end.

Lemma flat_map_map {A B C} (f : B -> list C) (g : A -> B) (l : list A) :
  flat_map f (map g l) = flat_map (fun x => f (g x)) l.
Proof. induction l as [|x l IH]; cbn [map flat_map]; [reflexivity|]. rewrite IH. reflexivity. Qed.

Lemma map_flat_map {A B C} (f : B -> C) (g : A -> list B) (l : list A) :
  map f (flat_map g l) = flat_map (fun x => map f (g x)) l.
Proof. induction l as [|x l IH]; cbn [flat_map map]; [reflexivity|]. rewrite map_app, IH. reflexivity. Qed.

Lemma count_pointwise {A} (f : A -> nat) (p : A -> bool) (l : list A) :
  (forall x, In x l -> f x = if p x then 1%nat else 0%nat) ->
  fold_right (fun x acc => f x + acc)%nat O l = length (filter p l).
Proof.
  induction l as [|x l IH]; cbn [fold_right filter length]; intro H; [reflexivity|].
  rewrite (H x (or_introl eq_refl)), IH by (intros; apply H; right; assumption).
  destruct (p x); reflexivity.
Qed.

Lemma existsb_all_false {A} (p : A -> bool) (l : list A) : (forall x, In x l -> p x = false) -> existsb p l = false.
Proof.
  induction l as [|x l IH]; cbn [existsb]; intro H; [reflexivity|].
  rewrite (H x (or_introl eq_refl)). apply IH. intros; apply H; right; assumption.
Qed.

Definition r_stats_of (s : mstate) : N * N * N := (s_nins s, s_nupd s, s_ndel s).
Definition result_of (st : msettings) (tgt : itable) (s : mstate) : mresult + merr :=
  if full_schema st
  then inl {| r_rows := map snd (filter (fun it => negb (mem_addr (fst it) (s_del s))) tgt)
                        ++ map (fun u => widen st (snd u)) (s_upd s) ++ map (widen st) (s_insr s);
              r_stats := r_stats_of s |}
  else inl {| r_rows := map (fun it => match find_upd (fst it) (s_upd s) with
                                       | Some u => upd_row st u (snd it)
                                       | None => snd it end) tgt
                        ++ map (widen st) (s_insr s);
              r_stats := r_stats_of s |}.

Lemma upd_of_final st tgt src : s_upd (final_state st tgt src) = updates st tgt src.
Proof. reflexivity. Qed.
Lemma insr_of_final st tgt src : s_insr (final_state st tgt src) = sql_inserted st (map snd tgt) src.
Proof. reflexivity. Qed.

Lemma map_snd_filter_flat {A B} (p : A * B -> bool) (l : list (A * B)) :
  map snd (filter p l) = flat_map (fun it => if p it then [snd it] else []) l.
Proof. induction l as [|x l IH]; cbn [filter map flat_map]; [reflexivity|]. destruct (p x); cbn [map app]; rewrite IH; reflexivity. Qed.

Section MergeFinal.
  Variable st : msettings.
  Variable tgt : itable.
  Variable src : list row.
  Hypothesis Hon : m_on st <> [].
  Hypothesis Hsingle : join_null_eq st = true -> exists k, m_on st = [k].
  Hypothesis Hsup : supported st = true.
  Hypothesis K1 : Known_C12_null_key_source_rows_skipped st src = false.
  Hypothesis K2 : Known_C12_null_key_target_rows_kept st (map snd tgt) = false.
  Hypothesis K3 : Known_C12_fail_off_fast_path st = false.
  Hypothesis K5 : Known_C12_key_columns_not_first st = false.
  Hypothesis K4 : Known_C12_update_if_partial_schema_panics st = false.
  Hypothesis ND : NoDup (map fst tgt).

  (* no target row is hit twice, and under Fail no target row is hit at all *)
  Definition ok_hits : Prop :=
    forall it, In it tgt -> (length (hits st src (snd it)) <= 1)%nat /\ (m_wm st = WmFail -> hits st src (snd it) = []).

  Lemma fate_ok it : ok_hits -> In it tgt ->
    sql_fate st src (snd it) =
      match matches st src (snd it) with
      | [] => if nsdel st (snd it) then FDelete else FKeep
      | _ :: _ => match hits st src (snd it) with [] => FKeep | s :: _ => FUpdate s end
      end.
  Proof.
    intros OK Hit. destruct (OK it Hit) as [L Fl]. rewrite sql_fate_char.
    destruct (matches st src (snd it)) as [|m0 ms] eqn:M; [reflexivity|].
    destruct (m_wm st) eqn:W;
      try (destruct (hits st src (snd it)) as [|s [|s' ss]]; [reflexivity|reflexivity|cbn [length] in L; lia]).
    specialize (Fl eq_refl). rewrite (fail_hits st src (snd it) W), M in Fl. discriminate.
  Qed.

  Lemma del_of_final a :
    mem_addr a (s_del (final_state st tgt src))
    = mem_addr a (map fst (dropped st tgt src)) || mem_addr a (map fst (updates st tgt src)).
  Proof.
    unfold final_state, st_del, st_ins, st_upd, mstate0. cbn [s_del]. rewrite app_nil_r, mem_addr_app, !mem_addr_rev. reflexivity.
  Qed.

  Lemma kept_pointwise it : ok_hits -> In it tgt ->
    (if negb (mem_addr (fst it) (s_del (final_state st tgt src))) then [snd it] else [])
      ++ map (fun s => upd_row st s (snd it)) (hits st src (snd it))
    = fate_rows st (snd it) (sql_fate st src (snd it)).
  Proof.
    intros OK Hit. rewrite del_of_final. unfold dropped. rewrite (mem_filtered _ tgt it ND Hit), (mem_updates st src tgt it ND Hit).
    rewrite (fate_ok it OK Hit). destruct (OK it Hit) as [L _].
    destruct (matches st src (snd it)) as [|m0 ms] eqn:M.
    - rewrite (hits_nil_of_matches_nil st src (snd it) M). cbn [is_nil negb andb orb map app].
      rewrite orb_false_r. destruct (nsdel st (snd it)); reflexivity.
    - cbn [is_nil andb orb]. destruct (hits st src (snd it)) as [|s [|s' ss]]; cbn [is_nil negb map app fate_rows]; try reflexivity.
      cbn [length] in L. lia.
  Qed.

  Lemma spec_no_error : ok_hits ->
    existsb is_failed (map (sql_fate st src) (map snd tgt)) = false
    /\ existsb is_amb (map (sql_fate st src) (map snd tgt)) = false.
  Proof.
    intro OK. rewrite map_map, !existsb_map. split; apply existsb_all_false; intros it Hit; rewrite (fate_ok it OK Hit);
      destruct (matches st src (snd it)); try (destruct (nsdel st (snd it)); reflexivity);
      destruct (hits st src (snd it)); reflexivity.
  Qed.

  Lemma stats_ok : ok_hits ->
    r_stats_of (final_state st tgt src)
    = (N.of_nat (length (sql_inserted st (map snd tgt) src)),
       N.of_nat (length (filter is_upd (map (sql_fate st src) (map snd tgt)))),
       N.of_nat (length (filter is_del (map (sql_fate st src) (map snd tgt))))).
  Proof.
    intro OK. unfold r_stats_of, final_state, st_del, st_ins, st_upd, mstate0. cbn [s_nins s_nupd s_ndel].
    rewrite !N.add_0_l. f_equal; [f_equal|].
    - f_equal. unfold updates. rewrite flat_map_length_sum, map_map, filter_map_comm, map_length.
      apply count_pointwise. intros it Hit. rewrite map_length, (fate_ok it OK Hit). destruct (OK it Hit) as [L _].
      destruct (matches st src (snd it)) eqn:M.
      + rewrite (hits_nil_of_matches_nil st src (snd it) M). destruct (nsdel st (snd it)); reflexivity.
      + destruct (hits st src (snd it)) as [|s [|s' ss]]; try reflexivity. cbn [length] in L. lia.
    - f_equal. rewrite map_length. unfold dropped. rewrite map_map, filter_map_comm, map_length. f_equal.
      apply filter_ext_in'. intros it Hit. rewrite (fate_ok it OK Hit).
      destruct (matches st src (snd it)); cbn [is_nil andb]; [destruct (nsdel st (snd it)); reflexivity|].
      destruct (hits st src (snd it)); reflexivity.
  Qed.

  Lemma ns_keep_if_partial : full_schema st = false -> forall t, nsdel st t = false.
  Proof.
    intros F t. unfold supported in Hsup. rewrite F in Hsup. cbn [orb] in Hsup. unfold nsdel. destruct (m_ns st); [reflexivity|discriminate|discriminate].
  Qed.

  (* the table that a_merge builds from the final state *)
  Lemma result_ok : ok_hits ->
    mres_equiv (result_of st tgt (final_state st tgt src)) (sql_merge st (map snd tgt) src).
  Proof.
    intro OK. unfold sql_merge. destruct (spec_no_error OK) as [NF NA]. rewrite NF, NA.
    unfold result_of. destruct (full_schema st) eqn:FS; cbn [mres_equiv r_rows r_stats]; (split; [|apply (stats_ok OK)]).
    - (* RewriteRows *)
      rewrite upd_of_final, insr_of_final.
      rewrite app_assoc. apply Permutation_app; [|apply Permutation_refl].
      rewrite flat_map_map.
      rewrite map_snd_filter_flat. unfold updates. rewrite map_flat_map.
      eapply Permutation_trans; [apply flat_map_app_pointwise|].
      erewrite flat_map_ext_in; [apply Permutation_refl|].
      intros it Hit. cbn beta. rewrite <- (kept_pointwise it OK Hit). f_equal.
      rewrite map_map. cbn [snd]. apply map_ext. intro s. symmetry. apply upd_row_full. exact FS.
    - (* RewriteColumns *)
      rewrite upd_of_final, insr_of_final.
      apply Permutation_app; [|apply Permutation_refl].
      rewrite flat_map_map, map_as_flat_map.
      erewrite flat_map_ext_in; [apply Permutation_refl|].
      intros it Hit. cbn beta. rewrite (find_updates st src tgt it ND Hit), (fate_ok it OK Hit). destruct (OK it Hit) as [L _].
      rewrite (ns_keep_if_partial FS).
      destruct (matches st src (snd it)) eqn:M.
      + rewrite (hits_nil_of_matches_nil st src (snd it) M). reflexivity.
      + destruct (hits st src (snd it)) as [|s [|s' ss]]; reflexivity.
  Qed.
End MergeFinal.

Lemma a_merge_unfold st tgt src :
  a_merge st tgt src =
    if negb (supported st) then inr EUnsupported
    else if unzip_panics st && negb (is_nil (join_rows st (join_null_eq st) (join_kind st) tgt src)) then inr EPanic
    else match run_rows st (join_rows st (join_null_eq st) (join_kind st) tgt src) with
         | inr e => inr e
         | inl s => result_of st tgt s
         end.
Proof.
  unfold a_merge, result_of, r_stats_of. destruct (negb (supported st)); [reflexivity|].
  destruct (unzip_panics st && _); [reflexivity|].
  destruct (run_rows st _); [|reflexivity]. destruct (full_schema st); reflexivity.
Qed.

Lemma wf_settings_facts st : wf_settings st = true ->
  m_on st <> [] /\ (join_null_eq st = true -> exists k, m_on st = [k]) /\ supported st = true.
Proof.
  unfold wf_settings. intro H.
  apply andb_true_iff in H as [H Hsup]. apply andb_true_iff in H as [H Hidx]. apply andb_true_iff in H as [H Hne].
  split; [|split].
  - intro E. rewrite E in Hne. discriminate.
  - intro NE. unfold join_null_eq, uses_index in NE. apply andb_true_iff in NE as [NE _]. apply andb_true_iff in NE as [_ I].
    rewrite I in Hidx. cbn [negb orb] in Hidx. apply Nat.eqb_eq in Hidx.
    destruct (m_on st) as [|k [|k' l]]; cbn [length] in Hidx; try discriminate. exists k. reflexivity.
  - exact Hsup.
Qed.

Section MergeTheorem.
  Variable st : msettings.
  Variable tgt : itable.
  Variable src : list row.
  Hypothesis WF : wf_settings st = true.
  Hypothesis ND : NoDup (map fst tgt).
  Hypothesis K1 : Known_C12_null_key_source_rows_skipped st src = false.
  Hypothesis K2 : Known_C12_null_key_target_rows_kept st (map snd tgt) = false.
  Hypothesis K3 : Known_C12_fail_off_fast_path st = false.
  Hypothesis K5 : Known_C12_key_columns_not_first st = false.
  Hypothesis K4 : Known_C12_update_if_partial_schema_panics st = false.

  Lemma a_merge_runs :
    a_merge st tgt src =
      match run_rows st (join_rows st (join_null_eq st) (join_kind st) tgt src) with
      | inr e => inr e
      | inl s => result_of st tgt s
      end.
  Proof.
    destruct (wf_settings_facts st WF) as [_ [_ Hsup]].
    rewrite a_merge_unfold, Hsup. cbn [negb]. unfold Known_C12_update_if_partial_schema_panics in K4. rewrite K4. reflexivity.
  Qed.

  Lemma never_failed_unless_fail : m_wm st <> WmFail ->
    existsb is_failed (map (sql_fate st src) (map snd tgt)) = false.
  Proof.
    intro NF. rewrite map_map, existsb_map. apply existsb_all_false. intros it _. rewrite sql_fate_char.
    destruct (matches st src (snd it)); [destruct (nsdel st (snd it)); reflexivity|].
    destruct (m_wm st); try congruence; destruct (hits st src (snd it)) as [|s [|s' ss]]; reflexivity.
  Qed.

  Theorem merge_is_sql_merge : mres_equiv (a_merge st tgt src) (sql_merge st (map snd tgt) src).
  Proof.
    destruct (wf_settings_facts st WF) as [Hon [Hsingle Hsup]].
    rewrite a_merge_runs.
    assert (Cases : m_wm st = WmFail \/ m_wm st <> WmFail) by (destruct (m_wm st); [right|right|right|left]; congruence).
    destruct Cases as [F|NF].
    - (* WhenMatched::Fail, on the fast path *)
      rewrite (run_rows_fail st tgt src Hon Hsingle Hsup K1 K2 K3 K5 F).
      destruct (forallb (fun it => is_nil (hits st src (snd it))) tgt) eqn:AN.
      + apply (result_ok st tgt src Hsup ND). intros it Hit.
        rewrite forallb_forall in AN. specialize (AN it Hit). apply is_nil_true in AN. rewrite AN. cbn [length]. split; [lia|reflexivity].
      + unfold sql_merge.
        assert (E : existsb is_failed (map (sql_fate st src) (map snd tgt)) = true).
        { rewrite map_map, existsb_map.
          assert (X : existsb (fun it => negb (is_nil (hits st src (snd it)))) tgt = true).
          { destruct (existsb (fun it => negb (is_nil (hits st src (snd it)))) tgt) eqn:X; [reflexivity|].
            assert (Y : forallb (fun it => is_nil (hits st src (snd it))) tgt = true).
            { apply forallb_forall. intros it Hit. destruct (is_nil (hits st src (snd it))) eqn:Z; [reflexivity|].
              assert (T : existsb (fun it => negb (is_nil (hits st src (snd it)))) tgt = true).
              { apply existsb_exists. exists it. rewrite Z. auto. }
              congruence. }
            congruence. }
          apply existsb_exists in X as [it [Hit X]]. apply existsb_exists. exists it. split; [exact Hit|].
          rewrite sql_fate_char. rewrite (fail_hits st src (snd it) F) in X.
          destruct (matches st src (snd it)); [discriminate X|]. rewrite F. reflexivity. }
        rewrite E. reflexivity.
    - rewrite (run_rows_not_fail st tgt src Hon Hsingle Hsup K1 K2 K3 K5 NF).
      rewrite (dupfree_updates st src tgt [] ND) by (intros it _ []).
      destruct (existsb (fun it => Nat.leb 2 (length (hits st src (snd it)))) tgt) eqn:AMB; cbn [negb].
      + unfold sql_merge. rewrite (never_failed_unless_fail NF).
        assert (E : existsb is_amb (map (sql_fate st src) (map snd tgt)) = true).
        { rewrite map_map, existsb_map. apply existsb_exists in AMB as [it [Hit L]]. apply existsb_exists. exists it.
          split; [exact Hit|]. rewrite sql_fate_char.
          destruct (matches st src (snd it)) eqn:M.
          - rewrite (hits_nil_of_matches_nil st src (snd it) M) in L. discriminate L.
          - destruct (m_wm st); try congruence; destruct (hits st src (snd it)) as [|s [|s' ss]]; try discriminate L; reflexivity. }
        rewrite E. reflexivity.
      + apply (result_ok st tgt src Hsup ND). intros it Hit. split; [|intro; contradiction].
        destruct (Nat.leb 2 (length (hits st src (snd it)))) eqn:L.
        * assert (T : existsb (fun it => Nat.leb 2 (length (hits st src (snd it)))) tgt = true) by (apply existsb_exists; exists it; auto).
          congruence.
        * apply Nat.leb_gt in L. lia.
  Qed.
End MergeTheorem.

(* ================================================================== MERGE: the concrete side *)
Lemma live_map_slots (g : addr -> row -> option row) fi f : forall o,
  live (map_slots g fi o f)
  = flat_map (fun it => match g (fst it) (snd it) with Some r => [r] | None => [] end) (number_slots fi o f).
Proof.
  induction f as [|[r|] f IH]; intro o; cbn [map_slots number_slots live flat_map]; [reflexivity| |].
  - fold (live (map_slots g fi (S o) f)). rewrite IH. cbn [fst snd]. reflexivity.
  - fold (live (map_slots g fi (S o) f)). rewrite IH. reflexivity.
Qed.

Lemma live_number_slots fi f : forall o, live f = map snd (number_slots fi o f).
Proof.
  induction f as [|[r|] f IH]; intro o; cbn [number_slots live flat_map map]; [reflexivity| |].
  - fold (live f). rewrite (IH (S o)). reflexivity.
  - fold (live f). apply IH.
Qed.

Lemma abs_arows_from ct : forall fi, abs ct = map snd (arows_from fi ct).
Proof.
  induction ct as [|f ct IH]; intro fi; [reflexivity|].
  unfold abs in *. cbn [flat_map arows_from]. rewrite map_app, <- (IH (S fi)), <- (live_number_slots fi f 0). reflexivity.
Qed.

Lemma abs_arows ct : map snd (arows ct) = abs ct.
Proof. symmetry. apply abs_arows_from. Qed.

Lemma abs_map_frags_delete del ct : forall fi,
  abs (map_frags (fun fi f =>
         if existsb (fun x => mem_addr (fst x) del) (number_slots fi O f)
         then let f' := map_slots (fun a r => if mem_addr a del then None else Some r) fi O f in
              if forallb is_none f' then [] else [f']
         else [f]) fi ct)
  = map snd (filter (fun it => negb (mem_addr (fst it) del)) (arows_from fi ct)).
Proof.
  induction ct as [|f ct IH]; intro fi; [reflexivity|].
  cbn [map_frags arows_from]. rewrite abs_app, filter_app, map_app, IH. f_equal.
  assert (L : live (map_slots (fun a r => if mem_addr a del then None else Some r) fi 0 f)
              = map snd (filter (fun it => negb (mem_addr (fst it) del)) (number_slots fi 0 f))).
  { rewrite live_map_slots, map_snd_filter_flat. apply flat_map_ext_in. intros it _. destruct (mem_addr (fst it) del); reflexivity. }
  destruct (existsb (fun x => mem_addr (fst x) del) (number_slots fi 0 f)) eqn:E.
  - cbn zeta. destruct (forallb is_none _) eqn:F.
    + apply live_all_none in F. rewrite L in F. rewrite F. reflexivity.
    + unfold abs. cbn [flat_map]. rewrite app_nil_r. exact L.
  - unfold abs. cbn [flat_map]. rewrite app_nil_r.
    rewrite (filter_negb_all (fun x => mem_addr (fst x) del)) by exact E. apply live_number_slots.
Qed.

Lemma abs_c_delete_addrs del ct :
  abs (c_delete_addrs del ct) = map snd (filter (fun it => negb (mem_addr (fst it) del)) (arows ct)).
Proof. apply abs_map_frags_delete. Qed.

Lemma abs_map_frags_rewrite (g : addr -> row -> option row) (G : addr -> row -> row) ct :
  (forall a r, g a r = Some (G a r)) -> forall fi,
  abs (map_frags (fun fi f => [map_slots g fi O f]) fi ct)
  = map (fun it => G (fst it) (snd it)) (arows_from fi ct).
Proof.
  intro Hg. induction ct as [|f ct IH]; intro fi; [reflexivity|].
  cbn [map_frags arows_from]. rewrite abs_app, map_app, IH. f_equal.
  unfold abs. cbn [flat_map]. rewrite app_nil_r, live_map_slots, map_as_flat_map.
  apply flat_map_ext_in. intros it _. rewrite Hg. reflexivity.
Qed.

(* addresses of the live slots are pairwise different *)
Lemma number_slots_addr fi f : forall o a, In a (map fst (number_slots fi o f)) -> fst a = fi /\ (o <= snd a)%nat.
Proof.
  induction f as [|[r|] f IH]; intros o a H; cbn [number_slots map] in H; [destruct H| |].
  - destruct H as [<-|H]; [cbn; split; [reflexivity|lia]|]. destruct (IH (S o) a H). split; [assumption|lia].
  - destruct (IH (S o) a H). split; [assumption|lia].
Qed.

Lemma number_slots_nodup fi f : forall o, NoDup (map fst (number_slots fi o f)).
Proof.
  induction f as [|[r|] f IH]; intro o; cbn [number_slots map]; [constructor| |apply IH].
  constructor; [|apply IH]. intro H. destruct (number_slots_addr fi f (S o) _ H) as [_ L]. cbn [fst snd] in L. lia.
Qed.

Lemma arows_from_addr ct : forall fi a, In a (map fst (arows_from fi ct)) -> (fi <= fst a)%nat.
Proof.
  induction ct as [|f ct IH]; intros fi a H; cbn [arows_from map] in H; [destruct H|].
  rewrite map_app, in_app_iff in H. destruct H as [H|H].
  - destruct (number_slots_addr fi f 0 a H) as [E _]. lia.
  - specialize (IH (S fi) a H). lia.
Qed.

Lemma NoDup_app' {A} (l1 l2 : list A) :
  NoDup l1 -> NoDup l2 -> (forall x, In x l1 -> ~ In x l2) -> NoDup (l1 ++ l2).
Proof.
  induction l1 as [|x l1 IH]; intros N1 N2 D; [exact N2|]. inversion N1 as [|? ? Hx N1']. subst. cbn [app]. constructor.
  - rewrite in_app_iff. intros [H|H]; [exact (Hx H)|]. apply (D x (or_introl eq_refl) H).
  - apply IH; [exact N1'|exact N2|]. intros y Hy. apply D. right. exact Hy.
Qed.

Lemma arows_nodup_from ct : forall fi, NoDup (map fst (arows_from fi ct)).
Proof.
  induction ct as [|f ct IH]; intro fi; cbn [arows_from map]; [constructor|].
  rewrite map_app. apply NoDup_app'; [apply number_slots_nodup|apply IH|].
  intros a H1 H2. destruct (number_slots_addr fi f 0 a H1) as [E _]. pose proof (arows_from_addr ct (S fi) a H2) as L.
  rewrite E in L. exact (Nat.nle_succ_diag_l _ L).
Qed.

Lemma arows_nodup ct : NoDup (map fst (arows ct)).
Proof. apply arows_nodup_from. Qed.

(* c_merge computes, on fragments and deletion vectors, the table a_merge describes *)
Lemma c_merge_abs st ct src :
  match c_merge st ct src, a_merge st (arows ct) src with
  | inl ct', inl r => abs ct' = r_rows r
  | inr e, inr e' => e = e'
  | _, _ => False
  end.
Proof.
  unfold c_merge, a_merge. destruct (negb (supported st)); [reflexivity|].
  destruct (unzip_panics st && _); [reflexivity|].
  destruct (run_rows st _) as [s|e]; [|reflexivity].
  destruct (full_schema st).
  - cbn [r_rows]. rewrite abs_app, new_frag_abs, abs_c_delete_addrs. reflexivity.
  - cbn [r_rows]. rewrite abs_app, new_frag_abs. f_equal. unfold arows.
    apply (abs_map_frags_rewrite _ (fun a r => match find_upd a (s_upd s) with Some u => upd_row st u r | None => r end)).
    intros a r. destruct (find_upd a (s_upd s)); reflexivity.
Qed.
