(* C03 - the row-level reading (abs) of the manifests produced by build_manifest. *)
From LanceV Require Import Common.Base Table.Model_Txn Table.Proofs_TxnBase Table.Proofs_TxnFrame Table.Proofs_TxnChain.
From Coq Require Import Permutation.
Local Open Scope N_scope.

Section Abs.
  Variable frows : N -> N.
  Variable fcontent : N -> Z -> N -> option N.
  Notation frag_rows := (frag_rows frows).
  Notation fcell := (fcell fcontent).
  Notation flive := (flive frows).
  Notation wf_frag := (wf_frag frows).
  Notation wf_manifest := (wf_manifest frows).
  Notation abs := (abs frows fcontent).
  Notation live_at := (live_at frows).
  Notation cell_at := (cell_at fcontent).
  Notation table_eq := (table_eq).
  Notation apply_effect := (apply_effect frows fcontent).

  Lemma live_at_mk : forall cur s frs idx f o, NoDup (ids_of frs) ->
    live_at (m_frags (mk_manifest cur s frs idx)) f o = live_at frs f o.
  Proof.
    intros cur s frs idx f o Hnd. unfold Model_Txn.live_at. rewrite mk_manifest_find by exact Hnd.
    destruct (find_frag f frs); cbn [option_map]; [apply flive_detomb | reflexivity].
  Qed.
  Lemma cell_at_mk : forall cur s frs idx f o x, NoDup (ids_of frs) -> x <> (-2)%Z ->
    cell_at (m_frags (mk_manifest cur s frs idx)) f o x = cell_at frs f o x.
  Proof.
    intros cur s frs idx f o x Hnd Hx. unfold Model_Txn.cell_at. rewrite mk_manifest_find by exact Hnd.
    destruct (find_frag f frs); cbn [option_map]; [apply fcell_detomb; exact Hx | reflexivity].
  Qed.
  Lemma maxfid_mk : forall cur s frs idx,
    max_fragment_id (mk_manifest cur s frs idx) = omax (m_maxfid cur) (lmax (ids_of frs)).
  Proof.
    intros. rewrite (max_fragment_id_wf _ (mk_manifest_wf_maxfid frows fcontent cur s frs idx)). apply mk_manifest_maxfid.
  Qed.

  Lemma table_eq_refl : forall t, table_eq t t.
  Proof. intros t. repeat split; auto. Qed.
  Lemma table_eq_sym : forall a b, table_eq a b -> table_eq b a.
  Proof.
    intros a b [H1 [H2 [H3 [H4 H5]]]].
    split; [auto | split; [auto | split; [auto | split; [intros; symmetry; apply H4|]]]].
    intros f o x Hl Hx. symmetry. apply H5; [rewrite H4; exact Hl | rewrite H1; exact Hx].
  Qed.
  Lemma table_eq_trans : forall a b c, table_eq a b -> table_eq b c -> table_eq a c.
  Proof.
    intros a b c [H1 [H2 [H3 [H4 H5]]]] [G1 [G2 [G3 [G4 G5]]]].
    split; [congruence | split; [congruence | split; [congruence | split]]].
    - intros f o. rewrite H4. apply G4.
    - intros f o x Hl Hx. rewrite H5 by assumption. apply G5; [rewrite <- H4; exact Hl | rewrite <- H1; exact Hx].
  Qed.

  (* wf_frag only looks at the data files and the deletion file *)
  Lemma wf_frag_ext : forall a b, f_files a = f_files b -> f_del a = f_del b -> wf_frag a -> wf_frag b.
  Proof.
    intros a b Ef Ed [H2 H3]. unfold Proofs_TxnFrame.wf_frag, dels_of, Model_Txn.frag_rows in *.
    rewrite <- Ef, <- Ed. auto.
  Qed.
  Lemma flive_ext : forall a b o, f_files a = f_files b -> f_del a = f_del b -> flive a o = flive b o.
  Proof. intros a b o Ef Ed. unfold Model_Txn.flive, dels_of, Model_Txn.frag_rows. rewrite Ef, Ed. reflexivity. Qed.

  (* new fragments of a transaction: no id yet, no deletion file, well formed *)
  Definition new_frags_ok (frs : list frag) : Prop :=
    all_zero frs /\ forall f, In f frs -> f_del f = None /\ wf_frag f.

  Lemma assigned_wf : forall frs n f, new_frags_ok frs -> In f (fst (assign_ids n frs)) -> wf_frag f.
  Proof.
    intros frs n f [_ H] Hin. apply assign_ids_shape in Hin as [g [Hg [Ef Ed]]].
    apply (wf_frag_ext g f); [symmetry; exact Ef | symmetry; exact Ed | exact (proj2 (H g Hg))].
  Qed.

  Definition next_of (m : manifest) : N := match max_fragment_id m with Some x => x + 1 | None => 0 end.
  Lemma next_id_abs : forall m, next_id (abs m) = next_of m.
  Proof. reflexivity. Qed.

  (* fresh ids: the assigned fragments do not collide with the current ones *)
  Lemma fresh_disjoint : forall cur frs f, wf_manifest cur -> all_zero frs ->
    In f (ids_of (fst (assign_ids (next_of cur) frs))) -> ~ In f (ids_of (m_frags cur)).
  Proof.
    intros cur frs f [_ [_ [_ Hm]]] Hz Hin Hc. unfold ids_of in Hin. apply in_map_iff in Hin as [g [E Hg]]. subst f.
    pose proof (assign_ids_fresh frs _ g Hz Hg) as Hge.
    unfold ids_of in Hc. apply in_map_iff in Hc as [c [Ec Hcin]].
    unfold next_of in Hge. rewrite (max_fragment_id_wf _ Hm) in Hge. unfold wf_maxfid in Hm.
    destruct (m_maxfid cur) as [M|]; [specialize (Hm c Hcin); lia | rewrite Hm in Hcin; destruct Hcin].
  Qed.
  Lemma NoDup_cur_news : forall cur kept frs, wf_manifest cur -> all_zero frs ->
    NoDup (ids_of kept) -> (forall i, In i (ids_of kept) -> In i (ids_of (m_frags cur))) ->
    NoDup (ids_of (kept ++ fst (assign_ids (next_of cur) frs))).
  Proof.
    intros cur kept frs Hw Hz Hk Hsub. rewrite ids_of_app. apply NoDup_app_intro; [exact Hk | apply assign_ids_NoDup; exact Hz|].
    intros x Hx Hn. apply (fresh_disjoint cur frs x Hw Hz Hn). apply Hsub. exact Hx.
  Qed.

  (* the table after adding freshly assigned fragments to a list of kept current fragments *)
  Lemma find_kept_news : forall kept news f, (forall i, In i (ids_of news) -> ~ In i (ids_of kept)) ->
    find_frag f (kept ++ news) = match find_frag f news with Some fr => Some fr | None => find_frag f kept end.
  Proof.
    intros kept news f Hd. rewrite find_frag_app. destruct (find_frag f news) as [fr|] eqn:En.
    - apply find_frag_some in En as [Hin Hid]. assert (Hk : find_frag f kept = None).
      { apply find_frag_none. apply Hd. subst f. apply in_map. exact Hin. }
      rewrite Hk. reflexivity.
    - destruct (find_frag f kept); reflexivity.
  Qed.

  Lemma maxfid_kept_news : forall cur kept news, wf_manifest cur ->
    (forall i, In i (ids_of kept) -> In i (ids_of (m_frags cur))) ->
    omax (m_maxfid cur) (lmax (ids_of (kept ++ news))) = upd_maxfid_ids (max_fragment_id cur) (ids_of news).
  Proof.
    intros cur kept news [_ [_ [_ Hm]]] Hsub. rewrite upd_maxfid_ids_omax, (max_fragment_id_wf _ Hm).
    rewrite ids_of_app, lmax_app, omax_assoc. f_equal.
    unfold wf_maxfid in Hm. destruct (m_maxfid cur) as [M|].
    - apply lmax_bound. intros x Hx. apply Hsub in Hx. unfold ids_of in Hx. apply in_map_iff in Hx as [c [E Hc]]. subst. exact (Hm c Hc).
    - assert (kept = []).
      { destruct kept as [|k r]; [reflexivity|]. exfalso. specialize (Hsub (f_id k) (or_introl eq_refl)). rewrite Hm in Hsub. destruct Hsub. }
      subst. reflexivity.
  Qed.
End Abs.
