(* Table/Model_Compact.v - model of compaction (property C13).  Executable definitions only; proofs in
   Proofs_Compact.v.  Built ON TOP of the shared concrete manifest model Table/Model_Manifest.v, whose
   transcription of Transaction::build_manifest (Rewrite arm: handle_rewrite_fragments, fragments_with_ids,
   recalculate_fragment_bitmap, handle_rewrite_indices, the final sort by fragment id and
   remove_tombstoned_data_files) is the commit step used here.

   Transcribed here, branch for branch, from rust/lance/src/dataset/optimize.rs and optimize/remapping.rs:
     plan_compaction      candidacy (deletion threshold / target size), the binning loop with the index-coverage
                          test, CandidateBin::is_noop, CandidateBin::split_for_size
     rewrite_files        what a task hands back AS METADATA: the new fragments hold the live rows of the task's
                          fragments in order, cut into files of target_rows_per_fragment rows; with stable row ids
                          rechunk_stable_row_ids + recalc_versions_for_rewritten_fragments (mask the deleted
                          positions, concatenate, rechunk_sequences / rechunk_version_sequences at the new sizes,
                          defaults: created_at = 1, last_updated_at = created_at)
     remapping.rs         transpose_row_addrs / transpose_row_ids_from_digest and the MissingAddrs iterator
   Decoded level: row id / version sequences are lists with one entry per physical row (segment and run
   encodings are property C34's).  The VALUES stored in data files are external: a Section variable
   [cell files offset] (the row stored at a physical position of a fragment with these data files), and the
   fact that a task's output files hold what its scan returned is a hypothesis ([cells_ok]); finding B1 (blob
   column read through BlobHandling::AllBinary) is a violation of exactly that hypothesis and is modelled
   separately ([read_blobs_allbinary], class Known_C13_blob_null_first_row_allbinary).

   DECLARED DOMAIN (the harness generates only such inputs; the theorems state them as hypotheses):
     E1 target_rows_per_fragment >= 1; max_bytes_per_file is never reached (files are cut by rows only);
        storage version >= 2.0 or max_rows_per_group divides the target (C11's legacy group rounding);
     E2 materialize_deletions_threshold is given as a rational tnum/tden >= 0 whose f32 value compares with
        ndel/phys (f32 division) like the rational does: true for phys < 2^20 and thresholds 0, 1/10, 1/4, 1/2, 3/2;
     E3 fragment ids < 2^32, 0 < physical_rows < 2^32 for every fragment of a task (MissingAddrs runs 2^32 steps
        on an empty fragment);
     E4 fragment-level version metadata ([versions_shape]): with stable row ids last_updated_at is present whenever
        created_at is (build_manifest always writes both or none); without stable row ids neither is stored. *)
From LanceV Require Import Common.Base Meta.Model_Flags Table.Model_Manifest.
Local Open Scope N_scope.

Definition sum_n (l : list N) : N := fold_right N.add 0 l.
Definition is_nil {A} (l : list A) : bool := match l with [] => true | _ => false end.

(* ================================================================ 1. plan_compaction *)
(* what plan_compaction reads of a fragment: id, physical_rows, count_deletions, and the positions (in
   load_indices order) of the indices whose fragment bitmap contains it *)
Record fmetric := mkFM { fm_id : N; fm_phys : N; fm_ndel : N; fm_idx : list N }.
(* CompactionOptions: target_rows_per_fragment, materialize_deletions, materialize_deletions_threshold = tnum/tden *)
Record copts := mkOpts { o_target : N; o_materialize : bool; o_tnum : N; o_tden : N }.
Inductive candidacy := CompactWithNeighbors | CompactItself.
Record cbin := mkBin { b_frags : list N; b_cand : list candidacy; b_rows : list N; b_idx : list N }.

(* CompactionOptions::validate (compact_files only) *)
Definition validate_opts (o : copts) : copts :=
  if o_materialize o && (o_tden o <=? o_tnum o) then mkOpts (o_target o) false (o_tnum o) (o_tden o) else o.

(* FragmentMetrics::deletion_percentage() > threshold   (E2) *)
Definition deletion_above (o : copts) (m : fmetric) : bool :=
  (0 <? fm_phys m) && (o_tnum o * fm_phys m <? o_tden o * fm_ndel m).

Definition candidacy_of (o : copts) (m : fmetric) : option candidacy :=
  if o_materialize o && deletion_above o m then Some CompactItself
  else if fm_phys m <? o_target o then Some CompactWithNeighbors
  else None.

(* FragmentMetrics::num_rows: `physical_rows - num_deletions` on usize *)
Definition fm_rows (m : fmetric) : outcome N :=
  if fm_phys m <? fm_ndel m then Panic else Ok (fm_phys m - fm_ndel m).

Definition new_bin (m : fmetric) (c : candidacy) (rows : N) : cbin := mkBin [fm_id m] [c] [rows] (fm_idx m).
Definition push_bin (b : cbin) (m : fmetric) (c : candidacy) (rows : N) : cbin :=
  mkBin (b_frags b ++ [fm_id m]) (b_cand b ++ [c]) (b_rows b ++ [rows]) (b_idx b).

(* the `while let Some(res) = fragment_metrics.next()` loop and the final flush *)
Fixpoint bin_loop (o : copts) (ms : list fmetric) (cur : option cbin) (done : list cbin) : outcome (list cbin) :=
  match ms with
  | [] => Ok (match cur with Some b => done ++ [b] | None => done end)
  | m :: r =>
      match candidacy_of o m, cur with
      | None, None => bin_loop o r None done
      | Some c, None => let* rows := fm_rows m in bin_loop o r (Some (new_bin m c rows)) done
      | Some c, Some b =>
          let* rows := fm_rows m in
          if ln_eqb (b_idx b) (fm_idx m) then bin_loop o r (Some (push_bin b m c rows)) done
          else bin_loop o r (Some (new_bin m c rows)) (done ++ [b])
      | None, Some b => bin_loop o r None (done ++ [b])
      end
  end.

(* CandidateBin::is_noop *)
Definition is_noop (b : cbin) : bool :=
  match b_frags b with
  | [] => true
  | [_] => match b_cand b with CompactWithNeighbors :: _ => true | _ => false end
  | _ => false
  end.

(* the inner `while bin_row_count < min_num_rows && bin_len < self.row_counts.len()`: returns bin_len *)
Fixpoint take_len (min acc : N) (rows : list N) : nat :=
  match rows with
  | [] => O
  | r :: rest => if acc <? min then S (take_len min (acc + r) rest) else O
  end.

(* CandidateBin::split_for_size; None = out of fuel (excluded for min >= 1 by split_for_size_fuel) *)
Fixpoint split_for_size (fuel : nat) (b : cbin) (min : N) : option (list cbin) :=
  match fuel with
  | O => None
  | S fuel' =>
      let k := take_len min 0 (b_rows b) in
      if min <=? sum_n (skipn k (b_rows b)) then
        match split_for_size fuel' (mkBin (skipn k (b_frags b)) (skipn k (b_cand b)) (skipn k (b_rows b)) (b_idx b)) min with
        | Some rest => Some (mkBin (firstn k (b_frags b)) (firstn k (b_cand b)) (firstn k (b_rows b)) [] :: rest)
        | None => None
        end
      else Some [b]
  end.

Fixpoint split_all (bins : list cbin) (min : N) : outcome (list (list N)) :=
  match bins with
  | [] => Ok []
  | b :: r => match split_for_size (S (length (b_rows b))) b min with
              | None => Panic
              | Some l => let* r' := split_all r min in Ok (map b_frags l ++ r')
              end
  end.

(* plan_compaction: the fragment ids of every task, in plan order *)
Definition plan_compaction (o : copts) (ms : list fmetric) : outcome (list (list N)) :=
  if negb (strict_sorted_n (map fm_id ms)) then Panic        (* debug_assert!: fragments sorted by id *)
  else
    let* bins := bin_loop o ms None [] in
    split_all (filter (fun b => negb (is_noop b)) bins) (o_target o).

(* ================================================================ 2. one task: rewrite_files as metadata *)
Definition phys_n (f : Fragment) : N := match fr_phys f with Some p => p | None => 0 end.
Definition ids_seq (f : Fragment) : list N := match fr_row_ids f with Some l => l | None => [] end.
(* the entries of a per-physical-row sequence at the live positions (RowIdSequence::mask / version mask) *)
Definition sel_live {A} (f : Fragment) (l : list A) : list A :=
  flat_map (fun o => match nth_error l (N.to_nat o) with Some x => [x] | None => [] end) (live_offsets f).

Definition row_count (f : Fragment) : N := match fr_row_ids f with Some ids => len_n ids | None => phys_n f end.
(* recalc_versions_for_rewritten_fragments: missing created_at = all 1, missing last_updated_at = created_at *)
Definition created_seq (f : Fragment) : list N :=
  match fr_created_at f with Some l => l | None => n_rep (row_count f) 1 end.
Definition updated_seq (f : Fragment) : list N :=
  match fr_updated_at f with Some l => l | None => created_seq f end.

(* rechunk_sequences / rechunk_version_sequences (allow_incomplete = false), decoded: Err when the chunk sizes
   ask for more entries than there are, or leave some over *)
Fixpoint rechunk {A} (sizes : list N) (l : list A) : outcome (list (list A)) :=
  match sizes with
  | [] => match l with [] => Ok [] | _ => Err end
  | s :: r =>
      if len_n l <? s then Err
      else let* rest := rechunk r (skipn (N.to_nat s) l) in Ok (firstn (N.to_nat s) l :: rest)
  end.

(* the writer cuts the scanned stream into files of `target` rows (E1) *)
Definition chunk_sizes (target n : N) : list N :=
  n_rep (n / target) target ++ (if 0 <? n mod target then [n mod target] else []).

Definition live_count (f : Fragment) : N := len_n (live_offsets f).
Definition total_live (olds : list Fragment) : N := sum_n (map live_count olds).

Fixpoint build_frags (stable : bool) (sizes ids : list N) (files : list (list DataFile))
  (rids crs ups : list (list N)) : list Fragment :=
  match sizes with
  | [] => []
  | s :: sizes' =>
      mkFragment (hd 0 ids) (Some s) (hd [] files) None
                 (if stable then Some (hd [] rids) else None)
                 (if stable then Some (hd [] crs) else None)
                 (if stable then Some (hd [] ups) else None)
      :: build_frags stable sizes' (tl ids) (tl files) (tl rids) (tl crs) (tl ups)
  end.

(* The new fragments of a task over [olds] (in task order) written as files of [sizes] rows; [ids] are the
   fragment ids they carry (reserved ids, or 0 = assigned at commit), [files] their data files. *)
Definition exec_task (stable : bool) (olds : list Fragment) (sizes ids : list N) (files : list (list DataFile))
  : outcome (list Fragment) :=
  if stable then
    let* rids := rechunk sizes (flat_map (fun f => sel_live f (ids_seq f)) olds) in
    let* ups := rechunk sizes (flat_map (fun f => sel_live f (updated_seq f)) olds) in
    let* crs := rechunk sizes (flat_map (fun f => sel_live f (created_seq f)) olds) in
    Ok (build_frags true sizes ids files rids crs ups)
  else Ok (build_frags false sizes ids files [] [] []).

(* ================================================================ 3. row-address remap *)
(* FragDigest: id, physical_rows (num_deleted_rows only sizes a HashMap) *)
Record digest := mkDigest { dg_id : N; dg_phys : N }.
Definition digest_of (f : Fragment) : digest := mkDigest (fr_id f) (phys_n f).

(* `new_fragments.flat_map(|frag| (0..frag.physical_rows as u32).map(|o| RowAddress::new_from_parts(frag.id as u32, o)))` *)
Definition new_addrs (news : list digest) : list N :=
  flat_map (fun d => map (row_address (wrap32 (dg_id d))) (n_range 0 (wrap32 (dg_phys d)))) news.

(* MissingAddrs::next, all calls flattened: one unit of fuel per pass through the `loop`.
   [addrs] = what is left of the row_addrs iterator, [last] = the pushed-back value, [expected] =
   expected_row_addr, [frags] = fragments[current_fragment_idx..].  None = out of fuel. *)
Fixpoint missing_walk (fuel : nat) (addrs : list N) (last : option N) (expected : N) (frags : list digest)
  : option (list N) :=
  match frags with
  | [] => Some []                                           (* current_fragment_idx >= fragments.len() *)
  | cur :: rest =>
      match fuel with
      | O => None
      | S fuel' =>
          let '(val, addrs') := match last with
                                | Some l => (l, addrs)
                                | None => match addrs with a :: t => (a, t) | [] => (0, []) end
                                end in
          let frag := val / two32 in
          let expected1 := expected + 1 in
          let '(frags', expected') :=
            if expected1 mod two32 =? dg_phys cur
            then (rest, match rest with nxt :: _ => dg_id nxt * two32 | [] => expected1 end)
            else (frags, expected1) in
          if negb (frag =? dg_id cur) || negb (val =? expected)
          then match missing_walk fuel' addrs' (Some val) expected' frags' with
               | Some r => Some (expected :: r)
               | None => None
               end
          else missing_walk fuel' addrs' None expected' frags'
      end
  end.

(* HashMap<u64, Option<u64>> as an association list sorted by key; insert replaces *)
Fixpoint map_insert (k : N) (v : option N) (m : list (N * option N)) : list (N * option N) :=
  match m with
  | [] => [(k, v)]
  | (k', v') :: r => if k <? k' then (k, v) :: m
                     else if k =? k' then (k, v) :: r
                     else (k', v') :: map_insert k v r
  end.
Definition map_get (m : list (N * option N)) (k : N) : option (option N) :=
  match find (fun p => fst p =? k) m with Some p => Some (snd p) | None => None end.

(* `mapping.extend(..)` / `mapping.insert(addr, None)` for every element of a list, in order *)
Definition ins_all (kvs : list (N * option N)) (m : list (N * option N)) : list (N * option N) :=
  fold_left (fun m kv => map_insert (fst kv) (snd kv) m) kvs m.

(* transpose_row_addrs: [row_addrs] = the captured addresses (a RoaringTreemap: ascending) *)
Definition transpose (row_addrs : list N) (olds news : list digest) : outcome (list (N * option N)) :=
  match olds with
  | [] => Panic                                             (* assert!(!fragments.is_empty()) *)
  | first :: _ =>
      let m1 := ins_all (combine row_addrs (map Some (new_addrs news))) [] in
      match missing_walk (S (N.to_nat (sum_n (map dg_phys olds)))) row_addrs None (dg_id first * two32) olds with
      | None => Panic                                       (* out of fuel: an empty old fragment (E3) *)
      | Some miss => Ok (ins_all (map (fun a => (a, None)) miss) m1)
      end
  end.

(* addresses of a fragment / of a task's fragments *)
Definition live_addrs_of (f : Fragment) : list N := map (row_address (fr_id f)) (live_offsets f).
Definition live_addrs (l : list Fragment) : list N := flat_map live_addrs_of l.
Definition deleted_addrs_of (f : Fragment) : list N :=
  map (row_address (fr_id f)) (filter (fun o => n_mem o (fr_deleted f)) (n_range 0 (phys_n f))).
Definition deleted_addrs (l : list Fragment) : list N := flat_map deleted_addrs_of l.
Definition all_addrs (l : list Fragment) : list N :=
  flat_map (fun f => map (row_address (fr_id f)) (n_range 0 (phys_n f))) l.

(* what a remapped index does with one stored address (lance-index remap: Some(Some b) -> b, Some(None) -> row
   dropped, absent -> kept) *)
Definition remap_addr (m : list (N * option N)) (a : N) : list N :=
  match map_get m a with
  | Some (Some b) => [b]
  | Some None => []
  | None => [a]
  end.
Definition remap_set (m : list (N * option N)) (s : list N) : list N := flat_map (remap_addr m) s.

(* the map a whole task produces *)
Definition task_remap (olds news : list Fragment) : outcome (list (N * option N)) :=
  transpose (live_addrs olds) (map digest_of olds) (map digest_of news).

(* ================================================================ 4. table contents *)
(* group.old_fragments, looked up in the manifest by id (only the ids of old_fragments are read at commit) *)
Definition lookup_old (existing : list Fragment) (ids : list N) : list Fragment :=
  flat_map (fun i => match find (fun f => fr_id f =? i) existing with Some f => [f] | None => [] end) ids.

Section Content.
Variable V : Type.
(* EXTERNAL: the user-column values of the row stored at physical position [o] of a fragment whose data files
   are [files] (data files are immutable; file format round trip = C25/C26, scanner = C16) *)
Variable cell : list DataFile -> N -> V.

(* what a scan shows of a row besides its address: _rowid (stable tables), _row_created_at_version,
   _row_last_updated_at_version (both default to 1 without metadata, FragmentReader), the user columns *)
Record vrow := mkVrow { v_rid : option N; v_created : N; v_updated : N; v_val : V }.

Definition created_obs (f : Fragment) : list N :=
  match fr_created_at f with Some l => l | None => n_rep (phys_n f) 1 end.
Definition updated_obs (f : Fragment) : list N :=
  match fr_updated_at f with Some l => l | None => n_rep (phys_n f) 1 end.

Definition vrow_at (f : Fragment) (o : N) : vrow :=
  mkVrow (match fr_row_ids f with Some ids => nth_error ids (N.to_nat o) | None => None end)
         (nth (N.to_nat o) (created_obs f) 1) (nth (N.to_nat o) (updated_obs f) 1)
         (cell (fr_files f) o).
Definition vrows_of (f : Fragment) : list vrow := map (vrow_at f) (live_offsets f).
Definition table_vrows (l : list Fragment) : list vrow := flat_map vrows_of l.
(* the same rows keyed by address: the rows an index over addresses points to *)
Definition arows_of (f : Fragment) : list (N * vrow) :=
  map (fun o => (row_address (fr_id f) o, vrow_at f o)) (live_offsets f).
Definition table_arows (l : list Fragment) : list (N * vrow) := flat_map arows_of l.

Definition live_cells (f : Fragment) : list V := map (cell (fr_files f)) (live_offsets f).

(* HYPOTHESIS on a committed group (the scan -> write round trip of rewrite_files): its new data files hold the
   user-column values of the live rows of its old fragments, in task order *)
Definition cells_ok (existing : list Fragment) (g : RewriteGroup) : Prop :=
  flat_map live_cells (rg_new g) = flat_map live_cells (lookup_old existing (rg_old g)).
End Content.
Arguments mkVrow {V}.
Arguments v_rid {V}.
Arguments v_created {V}.
Arguments v_updated {V}.
Arguments v_val {V}.

(* ================================================================ 5. what a committed Rewrite looks like *)
Definition n_incl (a b : list N) : bool := forallb (fun x => n_mem x b) a.

(* One group of a Rewrite against the manifest it was planned on: the old fragments exist, and the new
   fragments are - as metadata - what [exec_task] computes for SOME file sizes (those the new fragments have),
   ids (those they carry) and data files (theirs); every new data file stores a live field. *)
Definition group_ok (stable : bool) (existing : list Fragment) (g : RewriteGroup) : bool :=
  let olds := lookup_old existing (rg_old g) in
  negb (is_nil (rg_old g))
  && n_incl (rg_old g) (frag_ids existing)
  && match exec_task stable olds (map phys_n (rg_new g)) (frag_ids (rg_new g)) (map fr_files (rg_new g)) with
     | Ok l => list_eqb fragment_eqb l (rg_new g)
     | _ => false
     end
  && (sum_n (map phys_n (rg_new g)) =? total_live olds)
  && forallb (fun f => forallb has_live_field (fr_files f)) (rg_new g).

(* ids carried by new fragments: 0 = assigned at commit; others were reserved (ReserveFragments) *)
Definition reserved_of (groups : list RewriteGroup) : list N :=
  filter (fun i => negb (i =? 0)) (frag_ids (flat_map rg_new groups)).

Definition groups_ok (m : Manifest) (groups : list RewriteGroup) : bool :=
  forallb (group_ok (uses_stable m) (m_fragments m)) groups
  && nodup_n (flat_map rg_old groups)
  && nodup_n (reserved_of groups)
  && forallb (fun i => negb (n_mem i (frag_ids (m_fragments m)))
                       && match max_fragment_id m with Some mx => i <=? mx | None => false end) (reserved_of groups).

(* E4: with stable row ids last_updated_at is present whenever created_at is; without, neither is stored *)
Definition versions_shape (stable : bool) (l : list Fragment) : bool :=
  forallb (fun f => if stable then implb (is_some (fr_created_at f)) (is_some (fr_updated_at f))
                    else negb (is_some (fr_created_at f)) && negb (is_some (fr_updated_at f))) l.

(* E3 for the fragments of a task *)
Definition remap_dom (olds news : list Fragment) : bool :=
  forallb (fun f => (fr_id f <? two32) && (0 <? phys_n f) && (phys_n f <? two32)
                    && deletion_ok (phys_n f) (fr_deletion f) && is_some (fr_phys f)) olds
  && strict_sorted_n (frag_ids olds)
  && forallb (fun f => (fr_id f <? two32) && (phys_n f <? two32) && is_some (fr_phys f) && negb (is_some (fr_deletion f))) news
  && nodup_n (frag_ids news)
  && (sum_n (map phys_n news) =? total_live olds)
  (* MissingAddrs reads address 0 when row_addrs is exhausted: "guaranteed to not match" only if *)
  && (negb (total_live olds =? 0) || negb (match olds with f :: _ => fr_id f =? 0 | [] => true end)).

(* ================================================================ 6. correspondence checkers *)
Definition chk_plan (i : copts * list fmetric) (o : outcome (list (list N))) : bool :=
  outcome_eqb (list_eqb ln_eqb) (plan_compaction (fst i) (snd i)) o.

(* a real task: ((stable, exact_chunks), target, old fragments) -> the new fragments it returned.
   exact_chunks = false (legacy storage): the file sizes are taken from the output *)
Definition chk_task (i : (bool * bool) * N * list Fragment) (o : list Fragment) : bool :=
  let '((stable, exact), target, olds) := i in
  let sizes := if exact then chunk_sizes target (total_live olds) else map phys_n o in
  outcome_eqb (list_eqb fragment_eqb) (exec_task stable olds sizes (frag_ids o) (map fr_files o)) (Ok o)
  && (sum_n (map phys_n o) =? total_live olds)
  && (if stable then forallb (fun f => fr_id f =? 0) o
      else nodup_n (frag_ids o) && forallb (fun f => negb (fr_id f =? 0)) o).

Definition kv_eqb := pair_eqb N.eqb (option_eqb N.eqb).
(* transpose_row_addrs: (row_addrs ascending, old digests, new digests) -> the HashMap sorted by key *)
Definition chk_transpose (i : list N * list (N * N) * list (N * N)) (o : outcome (list (N * option N))) : bool :=
  let '(addrs, olds, news) := i in
  let dg := map (fun p => mkDigest (fst p) (snd p)) in
  outcome_eqb (list_eqb kv_eqb) (transpose addrs (dg olds) (dg news)) o.

(* a real task (address-style row ids, remap not deferred): its row_id_map is [task_remap] *)
Definition chk_task_remap (i : list Fragment * list Fragment) (o : list (N * option N)) : bool :=
  outcome_eqb (list_eqb kv_eqb) (task_remap (fst i) (snd i)) (Ok o).

(* the hypotheses of C13_content_invariant / C13_remap_bijection hold for every real compaction *)
Definition chk_groups_ok (i : Manifest * list RewriteGroup) (o : bool) : bool :=
  Bool.eqb (groups_ok (fst i) (snd i) && versions_shape (uses_stable (fst i)) (m_fragments (fst i))) o.
Definition chk_remap_dom (i : list Fragment * list Fragment) (o : bool) : bool :=
  Bool.eqb (remap_dom (fst i) (snd i)) o.

(* the abstraction function against the real scanner: (address, _rowid if stable, created, updated) of every
   row of a full ordered scan *)
Definition obs_row (f : Fragment) (o : N) : N * (option N * (N * N)) :=
  (row_address (fr_id f) o,
   (match fr_row_ids f with Some ids => nth_error ids (N.to_nat o) | None => None end,
    (nth (N.to_nat o) (match fr_created_at f with Some l => l | None => n_rep (phys_n f) 1 end) 1,
     nth (N.to_nat o) (match fr_updated_at f with Some l => l | None => n_rep (phys_n f) 1 end) 1))).
Definition obs_rows (l : list Fragment) : list (N * (option N * (N * N))) :=
  flat_map (fun f => map (obs_row f) (live_offsets f)) l.
Definition chk_scan (m : Manifest) (o : list (N * (option N * (N * N)))) : bool :=
  list_eqb (pair_eqb N.eqb (pair_eqb (option_eqb N.eqb) (pair_eqb N.eqb N.eqb))) (obs_rows (m_fragments m)) o.

(* ================================================================ 7. committing onto a later version *)
(* commit_compaction builds the Rewrite against the manifest of the HANDLE it is given (Transaction::new(
   dataset.manifest.version, ..)); RewriteResult.read_version is not consulted.  [olds_unchanged]: every old
   fragment of the groups is the same record in the manifest the tasks read and in the one the Rewrite is
   applied to. *)
Definition find_frag (l : list Fragment) (i : N) : option Fragment := find (fun f => fr_id f =? i) l.
Definition olds_unchanged (m_read m_commit : Manifest) (groups : list RewriteGroup) : bool :=
  forallb (fun i => is_some (find_frag (m_fragments m_read) i)
                    && option_eqb fragment_eqb (find_frag (m_fragments m_read) i) (find_frag (m_fragments m_commit) i))
          (flat_map rg_old groups).
(* Known finding (C13) commit_ignores_task_read_version: the Rewrite is applied to a manifest in which an old
   fragment of a committed task differs from what the task read (a delete / update committed in between), and
   no conflict is detected because the transaction's read version is the handle's *)
Definition Known_C13_commit_ignores_task_read_version (m_read m_commit : Manifest) (groups : list RewriteGroup) : bool :=
  negb (olds_unchanged m_read m_commit groups).

(* the tasks are fine for the manifest they read, and the ids they carry are fresh for the manifest they are
   committed to *)
Definition tasks_ok (m_read m_commit : Manifest) (groups : list RewriteGroup) : bool :=
  Bool.eqb (uses_stable m_read) (uses_stable m_commit)
  && forallb (group_ok (uses_stable m_read) (m_fragments m_read)) groups
  && nodup_n (flat_map rg_old groups)
  && nodup_n (reserved_of groups)
  && forallb (fun i => negb (n_mem i (frag_ids (m_fragments m_commit)))
                       && match max_fragment_id m_commit with Some mx => i <=? mx | None => false end) (reserved_of groups).

Definition chk_tasks_ok (i : Manifest * Manifest * list RewriteGroup) (o : bool * bool) : bool :=
  let '(mr, mc, groups) := i in
  Bool.eqb (tasks_ok mr mc groups) (fst o) && Bool.eqb (Known_C13_commit_ignores_task_read_version mr mc groups) (snd o).
