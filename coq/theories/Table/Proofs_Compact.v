(* Table/Proofs_Compact.v - proofs for property C13 over Table/Model_Compact.v (+ the Rewrite arm of
   Table/Model_Manifest.build_manifest). *)
From LanceV Require Import Common.Base Meta.Model_Flags Table.Model_Manifest Table.Proofs_ManifestBase
  Table.Proofs_Manifest Table.Model_Compact.
From Coq Require Import Permutation.
Local Open Scope N_scope.

(* ================================================================ A. lists *)
Lemma len_n_nil {A} : len_n (@nil A) = 0. Proof. reflexivity. Qed.
Lemma len_n_cons {A} (x : A) l : len_n (x :: l) = len_n l + 1.
Proof. unfold len_n. cbn [length]. lia. Qed.
Lemma len_n_length {A B} (a : list A) (b : list B) : len_n a = len_n b <-> length a = length b.
Proof. unfold len_n. lia. Qed.

Lemma flat_map_app_ {A B} (f : A -> list B) l1 l2 : flat_map f (l1 ++ l2) = flat_map f l1 ++ flat_map f l2.
Proof. induction l1 as [|x r IH]; cbn [flat_map app]; [reflexivity | rewrite IH, app_assoc; reflexivity]. Qed.

Lemma flat_map_perm {A B} (f : A -> list B) l1 l2 : Permutation l1 l2 -> Permutation (flat_map f l1) (flat_map f l2).
Proof.
  induction 1 as [| x l l' _ IH | x y l | l l' l'' _ IH1 _ IH2]; cbn [flat_map].
  - apply Permutation_refl.
  - apply Permutation_app_head. exact IH.
  - rewrite !app_assoc. apply Permutation_app_tail. apply Permutation_app_comm.
  - eapply Permutation_trans; eassumption.
Qed.

Lemma combine_app_eq {A B} (a1 a2 : list A) (b1 b2 : list B) :
  length a1 = length b1 -> combine (a1 ++ a2) (b1 ++ b2) = combine a1 b1 ++ combine a2 b2.
Proof.
  revert b1. induction a1 as [|x r IH]; intros [|y s] L; cbn [length] in L; try discriminate; cbn [app combine]; [reflexivity|].
  rewrite IH by lia. reflexivity.
Qed.

Lemma combine_map_same {A B C} (f : A -> B) (g : A -> C) l : combine (map f l) (map g l) = map (fun x => (f x, g x)) l.
Proof. induction l as [|x r IH]; cbn [map combine]; [reflexivity | rewrite IH; reflexivity]. Qed.

(* n_range *)
Lemma n_range_S s n : n_range s (N.succ n) = s :: n_range (s + 1) n.
Proof.
  unfold n_range. rewrite N2Nat.inj_succ. cbn [seq map]. f_equal; [lia|].
  rewrite <- seq_shift, map_map. apply map_ext. intro i. lia.
Qed.
Lemma n_range_0 s : n_range s 0 = []. Proof. reflexivity. Qed.
Lemma n_range_In s n x : In x (n_range s n) <-> s <= x /\ x < s + n.
Proof.
  unfold n_range. rewrite in_map_iff. split.
  - intros [i [E I]]. apply in_seq in I. lia.
  - intros [L U]. exists (N.to_nat (x - s)). split; [lia | apply in_seq; lia].
Qed.
Lemma n_range_len s n : length (n_range s n) = N.to_nat n.
Proof. unfold n_range. rewrite map_length, seq_length. reflexivity. Qed.

(* map over the positions of a list = the list *)
Lemma map_nth_range {A B} (g : A -> B) (h : N -> B) (l : list A) :
  (forall i x, nth_error l i = Some x -> h (N.of_nat i) = g x) ->
  map h (n_range 0 (len_n l)) = map g l.
Proof.
  revert h. induction l as [|x r IH]; intros h H; [reflexivity|].
  rewrite len_n_cons. replace (len_n r + 1) with (N.succ (len_n r)) by lia. rewrite n_range_S. cbn [map].
  f_equal; [exact (H O x eq_refl)|].
  specialize (IH (fun o => h (o + 1))).
  replace (n_range (0 + 1) (len_n r)) with (map (fun o => o + 1) (n_range 0 (len_n r))).
  - rewrite map_map. apply IH. intros i y E. replace (N.of_nat i + 1) with (N.of_nat (S i)) by lia. apply (H (S i)). exact E.
  - unfold n_range. rewrite map_map. apply map_ext. intro i. lia.
Qed.

(* ================================================================ B. rechunk *)
Lemma rechunk_concat {A} : forall sizes (l : list A) cs, rechunk sizes l = Ok cs ->
  concat cs = l /\ map len_n cs = sizes.
Proof.
  induction sizes as [|s r IH]; intros l cs H; cbn [rechunk] in H.
  - destruct l; [inversion H; split; reflexivity | discriminate].
  - destruct (len_n l <? s) eqn:L; [discriminate|]. apply N.ltb_ge in L. bind_inv H. inversion H; subst cs. clear H.
    destruct (IH _ _ E) as [C M]. cbn [concat map]. rewrite C, M, firstn_skipn. split; [reflexivity|].
    f_equal. unfold len_n in *. rewrite firstn_length. lia.
Qed.

Lemma rechunk_ok {A} : forall sizes (l : list A), len_n l = sum_n sizes -> exists cs, rechunk sizes l = Ok cs.
Proof.
  induction sizes as [|s r IH]; intros l L; cbn [rechunk sum_n fold_right] in *.
  - destruct l; [eexists; reflexivity | rewrite len_n_cons in L; lia].
  - fold (sum_n r) in L. destruct (len_n l <? s) eqn:E; [apply N.ltb_lt in E; lia|].
    destruct (IH (skipn (N.to_nat s) l)) as [cs Hc].
    + unfold len_n in *. rewrite skipn_length. apply N.ltb_ge in E. lia.
    + rewrite Hc. eexists; reflexivity.
Qed.

Lemma sum_n_app a b : sum_n (a ++ b) = sum_n a + sum_n b.
Proof. induction a as [|x r IH]; cbn [app sum_n fold_right]; [lia | fold (sum_n (r ++ b)); fold (sum_n r); rewrite IH; lia]. Qed.
Lemma len_n_concat {A} (cs : list (list A)) : len_n (concat cs) = sum_n (map len_n cs).
Proof.
  induction cs as [|c r IH]; [reflexivity|]. cbn [concat map sum_n fold_right]. fold (sum_n (map len_n r)).
  rewrite len_n_app, IH. reflexivity.
Qed.
Lemma len_n_flat_map {A B} (f : A -> list B) l : len_n (flat_map f l) = sum_n (map (fun x => len_n (f x)) l).
Proof.
  induction l as [|x r IH]; [reflexivity|]. cbn [flat_map map sum_n fold_right]. fold (sum_n (map (fun x => len_n (f x)) r)).
  rewrite len_n_app, IH. reflexivity.
Qed.

(* ================================================================ C. the metadata of the rows of a fragment *)
(* (row id if stable, created, updated) as the scanner shows them *)
Definition mrow := (option N * (N * N))%type.
Definition meta_at (f : Fragment) (o : N) : mrow :=
  (match fr_row_ids f with Some ids => nth_error ids (N.to_nat o) | None => None end,
   (nth (N.to_nat o) (match fr_created_at f with Some l => l | None => n_rep (phys_n f) 1 end) 1,
    nth (N.to_nat o) (match fr_updated_at f with Some l => l | None => n_rep (phys_n f) 1 end) 1)).
Definition live_meta (f : Fragment) : list mrow := map (meta_at f) (live_offsets f).

Section ContentLemmas.
Variable V : Type.
Variable cell : list DataFile -> N -> V.
Notation vrow := (vrow V).
Notation vrows_of := (vrows_of V cell).
Notation table_vrows := (table_vrows V cell).
Notation live_cells := (live_cells V cell).

Definition mkv (p : mrow * V) : vrow := mkVrow (fst (fst p)) (fst (snd (fst p))) (snd (snd (fst p))) (snd p).

Lemma vrows_of_combine f : vrows_of f = map mkv (combine (live_meta f) (live_cells f)).
Proof.
  unfold Model_Compact.vrows_of, live_meta, Model_Compact.live_cells. rewrite combine_map_same, map_map. apply map_ext. intro o. reflexivity.
Qed.

Lemma table_vrows_combine l :
  table_vrows l = map mkv (combine (flat_map live_meta l) (flat_map live_cells l)).
Proof.
  unfold Model_Compact.table_vrows. induction l as [|f r IH]; [reflexivity|]. cbn [flat_map].
  rewrite combine_app_eq, map_app, IH, vrows_of_combine; [reflexivity|].
  unfold live_meta, Model_Compact.live_cells. rewrite !map_length. reflexivity.
Qed.

(* the content of a list of fragments is determined by the metadata rows and the cells *)
Lemma table_vrows_ext l1 l2 :
  flat_map live_meta l1 = flat_map live_meta l2 -> flat_map live_cells l1 = flat_map live_cells l2 ->
  table_vrows l1 = table_vrows l2.
Proof. intros A B. rewrite !table_vrows_combine, A, B. reflexivity. Qed.

Lemma vrows_set_id f i : vrows_of (set_id f i) = vrows_of f.
Proof. destruct f; reflexivity. Qed.
End ContentLemmas.

(* ---------------------------------------------------------------- live offsets *)
Lemma live_offsets_lt f p o : fr_phys f = Some p -> In o (live_offsets f) -> o < p.
Proof.
  unfold live_offsets. intros E I. rewrite E in I. apply filter_In in I as [I _]. apply n_range_In in I. lia.
Qed.
Lemma live_offsets_no_deletion f p : fr_phys f = Some p -> fr_deletion f = None -> live_offsets f = n_range 0 p.
Proof.
  unfold live_offsets, fr_deleted. intros E D. rewrite E, D. apply filter_all_true. apply forallb_forall. intros; reflexivity.
Qed.

(* sel_live on a sequence that covers every physical row *)
Lemma sel_live_map {A} (f : Fragment) (l : list A) (d : A) p :
  fr_phys f = Some p -> len_n l = p -> sel_live f l = map (fun o => nth (N.to_nat o) l d) (live_offsets f).
Proof.
  intros E L. unfold sel_live. rewrite flat_map_concat_map.
  assert (H : forall offs, (forall o, In o offs -> o < p) ->
          concat (map (fun o => match nth_error l (N.to_nat o) with Some x => [x] | None => [] end) offs)
          = map (fun o => nth (N.to_nat o) l d) offs).
  { induction offs as [|o r IH]; intro B; [reflexivity|]. cbn [map concat].
    rewrite IH by (intros; apply B; right; assumption).
    assert (Ho : (N.to_nat o < length l)%nat) by (specialize (B o (or_introl eq_refl)); unfold len_n in L; lia).
    destruct (nth_error l (N.to_nat o)) as [x|] eqn:Ex.
    - rewrite (nth_error_nth _ _ d Ex). reflexivity.
    - apply nth_error_None in Ex. lia. }
  apply H. intros o I. eapply live_offsets_lt; eassumption.
Qed.

Lemma nth_n_rep n v i d : (i < N.to_nat n)%nat -> nth i (n_rep n v) d = v.
Proof. unfold n_rep. intro L. apply nth_repeat_lt_length || (revert i L; induction (N.to_nat n); intros [|i] L; cbn; try lia; auto; apply IHn0; lia). Qed.
