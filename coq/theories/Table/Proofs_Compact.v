(* Table/Proofs_Compact.v - proofs for property C13 over Table/Model_Compact.v (+ the Rewrite arm of
   Table/Model_Manifest.build_manifest). *)
From LanceV Require Import Common.Base Meta.Model_Flags Table.Model_Manifest Table.Proofs_ManifestBase
  Table.Proofs_Manifest Table.Model_Compact.
From Coq Require Import Permutation.
Local Open Scope N_scope.

(* ================================================================ A. lists *)
Lemma len_n_nil {A} : len_n (@nil A) = 0. Proof. reflexivity. Qed.
Lemma len_n_cons {A} (x : A) l : len_n (x :: l) = len_n l + 1.
Proof. unfold len_n. cbn [length]. lia. Qed.
Lemma len_n_length {A B} (a : list A) (b : list B) : len_n a = len_n b <-> length a = length b.
Proof. unfold len_n. lia. Qed.

Lemma flat_map_app_ {A B} (f : A -> list B) l1 l2 : flat_map f (l1 ++ l2) = flat_map f l1 ++ flat_map f l2.
Proof. induction l1 as [|x r IH]; cbn [flat_map app]; [reflexivity | rewrite IH, app_assoc; reflexivity]. Qed.

Lemma flat_map_perm {A B} (f : A -> list B) l1 l2 : Permutation l1 l2 -> Permutation (flat_map f l1) (flat_map f l2).
Proof.
  induction 1 as [| x l l' _ IH | x y l | l l' l'' _ IH1 _ IH2]; cbn [flat_map].
  - apply Permutation_refl.
  - apply Permutation_app_head. exact IH.
  - rewrite !app_assoc. apply Permutation_app_tail. apply Permutation_app_comm.
  - eapply Permutation_trans; eassumption.
Qed.

Lemma combine_app_eq {A B} (a1 a2 : list A) (b1 b2 : list B) :
  length a1 = length b1 -> combine (a1 ++ a2) (b1 ++ b2) = combine a1 b1 ++ combine a2 b2.
Proof.
  revert b1. induction a1 as [|x r IH]; intros [|y s] L; cbn [length] in L; try discriminate; cbn [app combine]; [reflexivity|].
  rewrite IH by lia. reflexivity.
Qed.

Lemma combine_map_same {A B C} (f : A -> B) (g : A -> C) l : combine (map f l) (map g l) = map (fun x => (f x, g x)) l.
Proof. induction l as [|x r IH]; cbn [map combine]; [reflexivity | rewrite IH; reflexivity]. Qed.

(* n_range *)
Lemma n_range_S s n : n_range s (N.succ n) = s :: n_range (s + 1) n.
Proof.
  unfold n_range. rewrite N2Nat.inj_succ. cbn [seq map]. f_equal; [lia|].
  rewrite <- seq_shift, map_map. apply map_ext. intro i. lia.
Qed.
Lemma n_range_0 s : n_range s 0 = []. Proof. reflexivity. Qed.
Lemma n_range_In s n x : In x (n_range s n) <-> s <= x /\ x < s + n.
Proof.
  unfold n_range. rewrite in_map_iff. split.
  - intros [i [E I]]. apply in_seq in I. lia.
  - intros [L U]. exists (N.to_nat (x - s)). split; [lia | apply in_seq; lia].
Qed.
Lemma n_range_len s n : length (n_range s n) = N.to_nat n.
Proof. unfold n_range. rewrite map_length, seq_length. reflexivity. Qed.

(* map over the positions of a list = the list *)
Lemma map_nth_range {A B} (g : A -> B) (h : N -> B) (l : list A) :
  (forall i x, nth_error l i = Some x -> h (N.of_nat i) = g x) ->
  map h (n_range 0 (len_n l)) = map g l.
Proof.
  revert h. induction l as [|x r IH]; intros h H; [reflexivity|].
  rewrite len_n_cons. replace (len_n r + 1) with (N.succ (len_n r)) by lia. rewrite n_range_S. cbn [map].
  f_equal; [exact (H O x eq_refl)|].
  specialize (IH (fun o => h (o + 1))).
  replace (n_range (0 + 1) (len_n r)) with (map (fun o => o + 1) (n_range 0 (len_n r))).
  - rewrite map_map. apply IH. intros i y E. replace (N.of_nat i + 1) with (N.of_nat (S i)) by lia. apply (H (S i)). exact E.
  - unfold n_range. rewrite map_map. apply map_ext. intro i. lia.
Qed.

Lemma sum_n_cons x l : sum_n (x :: l) = x + sum_n l. Proof. reflexivity. Qed.
Lemma sum_n_nil : sum_n [] = 0. Proof. reflexivity. Qed.
Lemma sum_n_app a b : sum_n (a ++ b) = sum_n a + sum_n b.
Proof. induction a as [|x r IH]; cbn [app]; [rewrite sum_n_nil; lia | rewrite !sum_n_cons, IH; lia]. Qed.

(* ================================================================ B. rechunk *)
Lemma rechunk_concat {A} : forall sizes (l : list A) cs, rechunk sizes l = Ok cs ->
  concat cs = l /\ map len_n cs = sizes.
Proof.
  induction sizes as [|s r IH]; intros l cs H; cbn [rechunk] in H.
  - destruct l; [inversion H; split; reflexivity | discriminate].
  - destruct (len_n l <? s) eqn:L; [discriminate|]. apply N.ltb_ge in L. bind_inv H. inversion H; subst cs. clear H.
    destruct (IH _ _ E) as [C M]. cbn [concat map]. rewrite C, M, firstn_skipn. split; [reflexivity|].
    f_equal. unfold len_n in *. rewrite firstn_length. lia.
Qed.

Lemma rechunk_ok {A} : forall sizes (l : list A), len_n l = sum_n sizes -> exists cs, rechunk sizes l = Ok cs.
Proof.
  induction sizes as [|s r IH]; intros l L; cbn [rechunk] in *.
  - destruct l; [eexists; reflexivity | rewrite len_n_cons, sum_n_nil in L; lia].
  - rewrite sum_n_cons in L. destruct (len_n l <? s) eqn:E; [apply N.ltb_lt in E; lia|].
    destruct (IH (skipn (N.to_nat s) l)) as [cs Hc].
    + unfold len_n in *. rewrite skipn_length. apply N.ltb_ge in E. lia.
    + rewrite Hc. eexists; reflexivity.
Qed.

Lemma len_n_concat {A} (cs : list (list A)) : len_n (concat cs) = sum_n (map len_n cs).
Proof.
  induction cs as [|c r IH]; [reflexivity|]. cbn [concat map]. rewrite sum_n_cons, len_n_app, IH. reflexivity.
Qed.
Lemma len_n_flat_map {A B} (f : A -> list B) l : len_n (flat_map f l) = sum_n (map (fun x => len_n (f x)) l).
Proof.
  induction l as [|x r IH]; [reflexivity|]. cbn [flat_map map]. rewrite sum_n_cons, len_n_app, IH. reflexivity.
Qed.

(* ================================================================ C. the metadata of the rows of a fragment *)
(* (row id if stable, created, updated) as the scanner shows them *)
Notation mrow := (option N * (N * N))%type.
Definition meta_at (f : Fragment) (o : N) : mrow :=
  (match fr_row_ids f with Some ids => nth_error ids (N.to_nat o) | None => None end,
   (nth (N.to_nat o) (match fr_created_at f with Some l => l | None => n_rep (phys_n f) 1 end) 1,
    nth (N.to_nat o) (match fr_updated_at f with Some l => l | None => n_rep (phys_n f) 1 end) 1)).
Definition live_meta (f : Fragment) : list mrow := map (meta_at f) (live_offsets f).

Section ContentLemmas.
Variable V : Type.
Variable cell : list DataFile -> N -> V.
Notation vrow := (vrow V).
Notation vrows_of := (vrows_of V cell).
Notation table_vrows := (table_vrows V cell).
Notation live_cells := (live_cells V cell).

Definition mkv (p : mrow * V) : vrow := mkVrow (fst (fst p)) (fst (snd (fst p))) (snd (snd (fst p))) (snd p).

Lemma vrows_of_combine f : vrows_of f = map mkv (combine (live_meta f) (live_cells f)).
Proof.
  unfold Model_Compact.vrows_of, live_meta, Model_Compact.live_cells. rewrite combine_map_same, map_map. apply map_ext. intro o. reflexivity.
Qed.

Lemma table_vrows_combine l :
  table_vrows l = map mkv (combine (flat_map live_meta l) (flat_map live_cells l)).
Proof.
  unfold Model_Compact.table_vrows. induction l as [|f r IH]; [reflexivity|]. cbn [flat_map].
  rewrite combine_app_eq, map_app, IH, vrows_of_combine; [reflexivity|].
  unfold live_meta, Model_Compact.live_cells. rewrite !map_length. reflexivity.
Qed.

(* the content of a list of fragments is determined by the metadata rows and the cells *)
Lemma table_vrows_ext l1 l2 :
  flat_map live_meta l1 = flat_map live_meta l2 -> flat_map live_cells l1 = flat_map live_cells l2 ->
  table_vrows l1 = table_vrows l2.
Proof. intros A B. rewrite !table_vrows_combine, A, B. reflexivity. Qed.

Lemma vrows_set_id f i : vrows_of (set_id f i) = vrows_of f.
Proof. destruct f; reflexivity. Qed.
End ContentLemmas.

(* ---------------------------------------------------------------- live offsets *)
Lemma live_offsets_lt f p o : fr_phys f = Some p -> In o (live_offsets f) -> o < p.
Proof.
  unfold live_offsets. intros E I. rewrite E in I. apply filter_In in I as [I _]. apply n_range_In in I. lia.
Qed.
Lemma live_offsets_no_deletion f p : fr_phys f = Some p -> fr_deletion f = None -> live_offsets f = n_range 0 p.
Proof.
  unfold live_offsets, fr_deleted. intros E D. rewrite E, D. apply filter_all_true. apply forallb_forall. intros; reflexivity.
Qed.

(* sel_live on a sequence that covers every physical row *)
Lemma sel_live_map {A} (f : Fragment) (l : list A) (d : A) p :
  fr_phys f = Some p -> len_n l = p -> sel_live f l = map (fun o => nth (N.to_nat o) l d) (live_offsets f).
Proof.
  intros E L. unfold sel_live. rewrite flat_map_concat_map.
  assert (H : forall offs, (forall o, In o offs -> o < p) ->
          concat (map (fun o => match nth_error l (N.to_nat o) with Some x => [x] | None => [] end) offs)
          = map (fun o => nth (N.to_nat o) l d) offs).
  { induction offs as [|o r IH]; intro B; [reflexivity|]. cbn [map concat].
    rewrite IH by (intros; apply B; right; assumption).
    assert (Ho : (N.to_nat o < length l)%nat) by (specialize (B o (or_introl eq_refl)); unfold len_n in L; lia).
    destruct (nth_error l (N.to_nat o)) as [x|] eqn:Ex.
    - rewrite (nth_error_nth _ _ d Ex). reflexivity.
    - apply nth_error_None in Ex. lia. }
  apply H. intros o I. eapply live_offsets_lt; eassumption.
Qed.

Lemma nth_n_rep n v i d : (i < N.to_nat n)%nat -> nth i (n_rep n v) d = v.
Proof. unfold n_rep. intro L. apply nth_repeat_lt_length || (revert i L; induction (N.to_nat n); intros [|i] L; cbn; try lia; auto; apply IHn0; lia). Qed.

(* ---------------------------------------------------------------- boolean equalities reflect equality *)
Lemma ln_eqb_true a b : ln_eqb a b = true -> a = b.
Proof. intro H. apply (list_eqb_eq N.eqb N.eqb_eq). exact H. Qed.
Lemma lz_eqb_true a b : lz_eqb a b = true -> a = b.
Proof. intro H. apply (list_eqb_eq Z.eqb Z.eqb_eq). exact H. Qed.
Lemma option_eqb_true {A} (e : A -> A -> bool) (x y : option A) :
  (forall a b, e a b = true -> a = b) -> option_eqb e x y = true -> x = y.
Proof. intros He H. destruct x, y; cbn in H; try discriminate; [f_equal; apply He; exact H | reflexivity]. Qed.
Lemma list_eqb_true {A} (e : A -> A -> bool) :
  (forall a b, e a b = true -> a = b) -> forall x y, list_eqb e x y = true -> x = y.
Proof.
  intros He. induction x as [|a r IH]; intros [|b s] H; cbn [list_eqb] in H; try discriminate; [reflexivity|].
  apply andb_true_iff in H as [H1 H2]. f_equal; [apply He; exact H1 | apply IH; exact H2].
Qed.
Lemma datafile_eqb_true a b : datafile_eqb a b = true -> a = b.
Proof.
  unfold datafile_eqb, pair_eqb. rewrite !andb_true_iff. intros [[[A B] [C1 C2]] D].
  apply N.eqb_eq in A, C1, C2, D. apply lz_eqb_true in B. destruct a as [p1 f1 [v1 w1] r1], b as [p2 f2 [v2 w2] r2]. cbn in *. subst. reflexivity.
Qed.
Lemma deletion_eqb_true a b : deletion_eqb a b = true -> a = b.
Proof.
  unfold deletion_eqb. rewrite !andb_true_iff. intros [[A B] C]. apply N.eqb_eq in A.
  apply (option_eqb_true N.eqb) in B; [|intros x y E; apply N.eqb_eq; exact E]. apply ln_eqb_true in C.
  destruct a, b. cbn in *. subst. reflexivity.
Qed.
Lemma oln_eqb_true a b : oln_eqb a b = true -> a = b.
Proof. apply option_eqb_true. exact ln_eqb_true. Qed.
Lemma fragment_eqb_true a b : fragment_eqb a b = true -> a = b.
Proof.
  unfold fragment_eqb. rewrite !andb_true_iff. intros [[[[[[A B] C] D] E] F] G].
  apply N.eqb_eq in A. apply (option_eqb_true N.eqb) in B; [|intros x y H; apply N.eqb_eq; exact H].
  apply (list_eqb_true datafile_eqb datafile_eqb_true) in C.
  apply (option_eqb_true deletion_eqb) in D; [|exact deletion_eqb_true].
  apply oln_eqb_true in E, F, G. destruct a, b. cbn in *. subst. reflexivity.
Qed.
Lemma fragments_eqb_true a b : list_eqb fragment_eqb a b = true -> a = b.
Proof. apply list_eqb_true. exact fragment_eqb_true. Qed.

(* ================================================================ D. what a task returns holds the rows of its input *)
Definition zip3 (a : list N) (b c : list N) : list mrow := combine (map Some a) (combine b c).

Lemma zip3_app a1 a2 b1 b2 c1 c2 :
  length a1 = length b1 -> length b1 = length c1 ->
  zip3 (a1 ++ a2) (b1 ++ b2) (c1 ++ c2) = zip3 a1 b1 c1 ++ zip3 a2 b2 c2.
Proof.
  intros L1 L2. unfold zip3. rewrite map_app, (combine_app_eq b1 b2 c1 c2 L2), combine_app_eq; [reflexivity|].
  rewrite map_length, combine_length. lia.
Qed.

Lemma nth_error_combine {A B} : forall (a : list A) (b : list B) i x y,
  nth_error (combine a b) i = Some (x, y) -> nth_error a i = Some x /\ nth_error b i = Some y.
Proof.
  induction a as [|a0 r IH]; intros [|b0 s] i x y H; cbn [combine] in H; try (destruct i; discriminate).
  destruct i as [|i]; cbn [nth_error] in *; [inversion H; split; reflexivity | apply IH; exact H].
Qed.

(* the shape of the version metadata of a fragment (E4) *)
Definition shape_ok (stable : bool) (f : Fragment) : bool :=
  if stable then implb (is_some (fr_created_at f)) (is_some (fr_updated_at f))
  else negb (is_some (fr_created_at f)) && negb (is_some (fr_updated_at f)).
Lemma versions_shape_forall stable l : versions_shape stable l = true <-> forall f, In f l -> shape_ok stable f = true.
Proof. unfold versions_shape. rewrite forallb_forall. reflexivity. Qed.

(* an old fragment of a table with stable row ids *)
Lemma old_meta_stable f :
  frag_consistent true f = true -> shape_ok true f = true ->
  live_meta f = zip3 (sel_live f (ids_seq f)) (sel_live f (created_seq f)) (sel_live f (updated_seq f))
  /\ length (sel_live f (ids_seq f)) = length (live_offsets f)
  /\ length (sel_live f (created_seq f)) = length (live_offsets f)
  /\ length (sel_live f (updated_seq f)) = length (live_offsets f).
Proof.
  intros C S. apply frag_consistent_iff in C as [_ [p [Ep [R [VC VU]]]]].
  unfold row_ids_ok in R. destruct (fr_row_ids f) as [ids|] eqn:Ei; [|discriminate]. cbn [andb] in R. apply N.eqb_eq in R.
  assert (LC : len_n (created_seq f) = p).
  { unfold created_seq, row_count. rewrite Ei. unfold versions_ok in VC. destruct (fr_created_at f); [apply N.eqb_eq; exact VC | rewrite len_n_rep; exact R]. }
  assert (LU : len_n (updated_seq f) = p).
  { unfold updated_seq. unfold versions_ok in VU. destruct (fr_updated_at f); [apply N.eqb_eq; exact VU | exact LC]. }
  assert (EC : match fr_created_at f with Some l => l | None => n_rep (phys_n f) 1 end = created_seq f).
  { unfold created_seq, row_count, phys_n. rewrite Ei, Ep, R. reflexivity. }
  assert (EU : match fr_updated_at f with Some l => l | None => n_rep (phys_n f) 1 end = updated_seq f).
  { unfold updated_seq. unfold shape_ok in S. destruct (fr_updated_at f); [reflexivity|].
    destruct (fr_created_at f) eqn:Ecr; [discriminate S|]. unfold created_seq, row_count, phys_n. rewrite Ecr, Ei, Ep, R. reflexivity. }
  unfold ids_seq. rewrite Ei.
  rewrite (sel_live_map f ids 0 p Ep R), (sel_live_map f (created_seq f) 1 p Ep LC), (sel_live_map f (updated_seq f) 1 p Ep LU).
  rewrite !map_length. repeat split; try reflexivity.
  unfold zip3. rewrite map_map, !combine_map_same. unfold live_meta. apply map_ext_in. intros o I.
  unfold meta_at. rewrite Ei, EC, EU. f_equal.
  pose proof (live_offsets_lt f p o Ep I) as Lo.
  destruct (nth_error ids (N.to_nat o)) as [x|] eqn:Ex; [rewrite (nth_error_nth _ _ 0 Ex); reflexivity|].
  apply nth_error_None in Ex. unfold len_n in R. lia.
Qed.

Lemma olds_meta_stable olds :
  (forall f, In f olds -> frag_consistent true f = true /\ shape_ok true f = true) ->
  flat_map live_meta olds = zip3 (flat_map (fun f => sel_live f (ids_seq f)) olds)
                                 (flat_map (fun f => sel_live f (created_seq f)) olds)
                                 (flat_map (fun f => sel_live f (updated_seq f)) olds).
Proof.
  induction olds as [|f r IH]; intro H; [reflexivity|]. cbn [flat_map].
  destruct (H f (or_introl eq_refl)) as [C S]. destruct (old_meta_stable f C S) as [E [L1 [L2 L3]]].
  rewrite zip3_app by congruence. rewrite E, IH; [reflexivity | intros g I; apply H; right; exact I].
Qed.

(* the fragments a task builds *)
Lemma build_frags_meta_stable : forall sizes ids files rids crs ups,
  map len_n rids = sizes -> map len_n crs = sizes -> map len_n ups = sizes ->
  flat_map live_meta (build_frags true sizes ids files rids crs ups) = zip3 (concat rids) (concat crs) (concat ups).
Proof.
  induction sizes as [|s r IH]; intros ids files rids crs ups Lr Lc Lu.
  - destruct rids, crs, ups; try discriminate. reflexivity.
  - destruct rids as [|r1 rids]; [discriminate|]. destruct crs as [|c1 crs]; [discriminate|]. destruct ups as [|u1 ups]; [discriminate|].
    cbn [map] in Lr, Lc, Lu. inversion Lr as [[Lr1 Lr2]]. inversion Lc as [[Lc1 Lc2]]. inversion Lu as [[Lu1 Lu2]].
    cbn [build_frags flat_map hd tl concat].
    rewrite zip3_app; [| apply len_n_length; congruence | apply len_n_length; congruence].
    rewrite Lr2, (IH (tl ids) (tl files) rids crs ups Lr2 Lc2 Lu2). f_equal.
    unfold live_meta.
    match goal with |- map _ (live_offsets ?F) = _ => rewrite (live_offsets_no_deletion F (len_n r1) eq_refl eq_refl) end.
    assert (LZ : len_n (zip3 r1 c1 u1) = len_n r1).
    { unfold zip3. unfold len_n in *. rewrite (combine_length (map Some r1)), (combine_length c1 u1), map_length. lia. }
    rewrite <- LZ. rewrite (map_nth_range (fun x => x) _ (zip3 r1 c1 u1)); [apply map_id|].
    intros i [a [b c]] E. unfold zip3 in E. apply nth_error_combine in E as [E1 E2]. apply nth_error_combine in E2 as [E2 E3].
    unfold meta_at. cbn [fr_row_ids fr_created_at fr_updated_at]. rewrite Nat2N.id.
    rewrite (nth_error_nth _ _ 1 E2), (nth_error_nth _ _ 1 E3). f_equal.
    rewrite nth_error_map in E1. destruct (nth_error r1 i); cbn in E1; [inversion E1; reflexivity | discriminate].
Qed.

(* tables without stable row ids: every row shows (no row id, 1, 1) *)
Definition plain_meta : mrow := (None, (1, 1)).
Lemma nth_n_rep_1 n i : nth i (n_rep n 1) 1 = 1.
Proof. unfold n_rep. generalize (N.to_nat n). intro k. revert i. induction k as [|k IH]; intros [|i]; cbn; auto. Qed.
Lemma plain_live_meta f :
  fr_row_ids f = None -> fr_created_at f = None -> fr_updated_at f = None ->
  live_meta f = map (fun _ => plain_meta) (live_offsets f).
Proof.
  intros A B C. unfold live_meta. apply map_ext. intro o. unfold meta_at. rewrite A, B, C, !nth_n_rep_1. reflexivity.
Qed.
Lemma map_const_len {A B C} (c : C) (l1 : list A) (l2 : list B) :
  length l1 = length l2 -> map (fun _ => c) l1 = map (fun _ => c) l2.
Proof. revert l2. induction l1 as [|x r IH]; intros [|y s] L; cbn [length] in L; try discriminate; cbn [map]; [reflexivity | f_equal; apply IH; lia]. Qed.
Lemma plain_table_meta l :
  (forall f, In f l -> fr_row_ids f = None /\ fr_created_at f = None /\ fr_updated_at f = None) ->
  flat_map live_meta l = map (fun _ => plain_meta) (flat_map live_offsets l).
Proof.
  induction l as [|f r IH]; intro H; [reflexivity|]. cbn [flat_map]. rewrite map_app.
  destruct (H f (or_introl eq_refl)) as [A [B C]]. rewrite (plain_live_meta f A B C), IH; [reflexivity | intros g I; apply H; right; exact I].
Qed.
Lemma total_live_len olds : total_live olds = len_n (flat_map live_offsets olds).
Proof. unfold total_live, live_count. rewrite len_n_flat_map. reflexivity. Qed.

Lemma build_frags_plain : forall sizes ids files,
  (forall f, In f (build_frags false sizes ids files [] [] []) -> fr_row_ids f = None /\ fr_created_at f = None /\ fr_updated_at f = None)
  /\ len_n (flat_map live_offsets (build_frags false sizes ids files [] [] [])) = sum_n sizes.
Proof.
  induction sizes as [|s r IH]; intros ids files; [split; [intros f [] | reflexivity]|].
  cbn [build_frags hd tl flat_map]. destruct (IH (tl ids) (tl files)) as [A B]. split.
  - intros f [E|I]; [subst f; repeat split; reflexivity | apply A; exact I].
  - rewrite len_n_app, sum_n_cons, B. f_equal.
    match goal with |- len_n (live_offsets ?F) = _ => rewrite (live_offsets_no_deletion F s eq_refl eq_refl) end.
    unfold len_n. rewrite n_range_len. lia.
Qed.

Lemma frag_consistent_plain f : frag_consistent false f = true -> fr_row_ids f = None.
Proof. intro C. apply frag_consistent_row_ids in C. destruct (fr_row_ids f); [discriminate | reflexivity]. Qed.

(* THE TASK LEMMA (metadata part): the rows of the new fragments show the row ids and versions of the live rows
   of the old ones, in order *)
Lemma exec_task_meta stable olds sizes ids files news :
  exec_task stable olds sizes ids files = Ok news ->
  (forall f, In f olds -> frag_consistent stable f = true /\ shape_ok stable f = true) ->
  sum_n sizes = total_live olds ->
  flat_map live_meta news = flat_map live_meta olds.
Proof.
  intros H W S. unfold exec_task in H. destruct stable.
  - bind_as H rids Er. bind_as H ups Eu. bind_as H crs Ec. inversion H; subst news. clear H.
    destruct (rechunk_concat _ _ _ Er) as [Cr Lr]. destruct (rechunk_concat _ _ _ Eu) as [Cu Lu]. destruct (rechunk_concat _ _ _ Ec) as [Cc Lc].
    rewrite (build_frags_meta_stable sizes ids files rids crs ups Lr Lc Lu), Cr, Cu, Cc.
    symmetry. apply olds_meta_stable. exact W.
  - inversion H; subst news. clear H. destruct (build_frags_plain sizes ids files) as [A B].
    rewrite (plain_table_meta _ A), (plain_table_meta olds).
    + apply map_const_len. apply len_n_length. rewrite B, S. apply total_live_len.
    + intros f I. destruct (W f I) as [C Sh]. unfold shape_ok in Sh. apply andb_true_iff in Sh as [S1 S2].
      repeat split; [apply frag_consistent_plain; exact C | destruct (fr_created_at f); [discriminate | reflexivity] | destruct (fr_updated_at f); [discriminate | reflexivity]].
Qed.

(* ================================================================ E. the commit step on the fragment list *)
Definition not_in (ids : list N) (f : Fragment) : bool := negb (n_mem (fr_id f) ids).

Lemma filter_perm {A} (p : A -> bool) l1 l2 : Permutation l1 l2 -> Permutation (filter p l1) (filter p l2).
Proof.
  induction 1 as [| x l l' _ IH | x y l | l l' l'' _ IH1 _ IH2]; cbn [filter].
  - apply Permutation_refl.
  - destruct (p x); [apply perm_skip|]; exact IH.
  - destruct (p x), (p y); try apply Permutation_refl. apply perm_swap.
  - eapply Permutation_trans; eassumption.
Qed.
Lemma filter_filter {A} (p q : A -> bool) l : filter p (filter q l) = filter (fun x => q x && p x) l.
Proof. induction l as [|x r IH]; [reflexivity|]. cbn [filter]. destruct (q x); cbn [filter andb]; [destruct (p x)|]; rewrite IH; reflexivity. Qed.
Lemma filter_none {A} (p : A -> bool) l : (forall x, In x l -> p x = false) -> filter p l = [].
Proof. induction l as [|x r IH]; intro H; [reflexivity|]. cbn [filter]. rewrite (H x (or_introl eq_refl)). apply IH. intros y I. apply H. right. exact I. Qed.
Lemma filter_all {A} (p : A -> bool) l : (forall x, In x l -> p x = true) -> filter p l = l.
Proof. intro H. apply filter_all_true. apply forallb_forall. exact H. Qed.

Lemma not_in_app a b f : not_in (a ++ b) f = not_in a f && not_in b f.
Proof.
  unfold not_in, n_mem. rewrite existsb_app, negb_orb. reflexivity.
Qed.

(* find by id in a list with distinct ids *)
Lemma find_id_some l i f : find (fun g => fr_id g =? i) l = Some f -> In f l /\ fr_id f = i.
Proof. intro H. apply find_some in H as [A B]. apply N.eqb_eq in B. split; assumption. Qed.
Lemma find_id_unique : forall l f, NoDup (frag_ids l) -> In f l -> find (fun g => fr_id g =? fr_id f) l = Some f.
Proof.
  induction l as [|g r IH]; intros f ND I; [destruct I|]. unfold frag_ids in ND. cbn [map] in ND. inversion ND; subst.
  cbn [find]. destruct I as [E|I].
  - subst g. rewrite N.eqb_refl. reflexivity.
  - destruct (fr_id g =? fr_id f) eqn:E; [|apply IH; assumption].
    apply N.eqb_eq in E. exfalso. apply H1. rewrite E. apply in_map. exact I.
Qed.
Lemma find_id_none l i : ~ In i (frag_ids l) -> find (fun g => fr_id g =? i) l = None.
Proof.
  intro H. destruct (find (fun g => fr_id g =? i) l) as [f|] eqn:E; [|reflexivity].
  apply find_id_some in E as [A B]. exfalso. apply H. subst i. apply in_map. exact A.
Qed.

Lemma lookup_old_app l a b : lookup_old l (a ++ b) = lookup_old l a ++ lookup_old l b.
Proof. unfold lookup_old. apply flat_map_app_. Qed.
Lemma lookup_old_flat l (groups : list RewriteGroup) :
  lookup_old l (flat_map rg_old groups) = flat_map (fun g => lookup_old l (rg_old g)) groups.
Proof. induction groups as [|g r IH]; [reflexivity|]. cbn [flat_map]. rewrite lookup_old_app, IH. reflexivity. Qed.
Lemma lookup_old_self l mid : (forall f, In f mid -> find (fun g => fr_id g =? fr_id f) l = Some f) -> lookup_old l (frag_ids mid) = mid.
Proof.
  induction mid as [|f r IH]; intro H; [reflexivity|]. unfold lookup_old, frag_ids in *. cbn [map flat_map].
  rewrite (H f (or_introl eq_refl)). cbn [app]. f_equal. apply IH. intros g I. apply H. right. exact I.
Qed.
(* two lists with distinct ids that hold the same fragments under the ids asked for *)
Lemma lookup_old_same l1 l2 ids :
  NoDup (frag_ids l1) -> NoDup (frag_ids l2) ->
  (forall i, In i ids -> In i (frag_ids l2) /\ forall f, In f l2 -> fr_id f = i -> In f l1) ->
  lookup_old l1 ids = lookup_old l2 ids.
Proof.
  intros N1 N2 H. unfold lookup_old. induction ids as [|i r IH]; [reflexivity|]. cbn [flat_map].
  rewrite IH by (intros j J; apply H; right; exact J). f_equal.
  destruct (H i (or_introl eq_refl)) as [I2 K]. apply in_map_iff in I2 as [f [Ef If]].
  pose proof (find_id_unique l2 f N2 If) as F2. rewrite Ef in F2. rewrite F2.
  pose proof (find_id_unique l1 f N1 (K f If Ef)) as F1. rewrite Ef in F1. rewrite F1. reflexivity.
Qed.

Lemma flat_map_ext_in_ {A B} (f g : A -> list B) l : (forall x, In x l -> f x = g x) -> flat_map f l = flat_map g l.
Proof. induction l as [|x r IH]; intro H; [reflexivity|]. cbn [flat_map]. rewrite (H x (or_introl eq_refl)), IH; [reflexivity | intros y I; apply H; right; exact I]. Qed.
Lemma find_app_ {A} (p : A -> bool) l1 l2 : find p (l1 ++ l2) = match find p l1 with Some x => Some x | None => find p l2 end.
Proof. induction l1 as [|x r IH]; [reflexivity|]. cbn [app find]. destruct (p x); [reflexivity | exact IH]. Qed.

(* removing by id and looking up by id split a list with distinct ids *)
Lemma perm_filter_lookup : forall ids l,
  NoDup ids -> NoDup (frag_ids l) -> (forall i, In i ids -> In i (frag_ids l)) ->
  Permutation l (filter (not_in ids) l ++ lookup_old l ids).
Proof.
  induction ids as [|i r IH]; intros l Ni Nl H.
  - unfold lookup_old. cbn [flat_map]. rewrite app_nil_r, filter_all; [apply Permutation_refl | intros; reflexivity].
  - inversion Ni; subst. pose proof (H i (or_introl eq_refl)) as I. apply in_map_iff in I as [f [Ef If]].
    apply in_split in If as [l1 [l2 El]]. subst l.
    assert (Nl' : NoDup (frag_ids (l1 ++ l2))).
    { unfold frag_ids in *. rewrite map_app in *. cbn [map] in Nl. eapply NoDup_remove_1. exact Nl. }
    assert (Hf : ~ In (fr_id f) (frag_ids (l1 ++ l2))).
    { unfold frag_ids in *. rewrite map_app in *. cbn [map] in Nl. apply NoDup_remove_2 in Nl. exact Nl. }
    assert (F : forall g, In g (l1 ++ l2) -> fr_id g <> i).
    { intros g I E. apply Hf. rewrite Ef, <- E. apply in_map. exact I. }
    (* filter *)
    assert (FL : filter (not_in (i :: r)) (l1 ++ f :: l2) = filter (not_in r) (l1 ++ l2)).
    { rewrite !filter_app. cbn [filter]. replace (not_in (i :: r) f) with false.
      - f_equal; apply filter_ext_in; intros g I; unfold not_in, n_mem; cbn [existsb];
          (replace (fr_id g =? i) with false; [reflexivity | symmetry; apply N.eqb_neq; intro E; apply (F g); [apply in_or_app; auto | auto]]).
      - unfold not_in, n_mem. cbn [existsb]. rewrite Ef, N.eqb_refl. reflexivity. }
    (* lookup *)
    assert (LK : lookup_old (l1 ++ f :: l2) (i :: r) = f :: lookup_old (l1 ++ l2) r).
    { unfold lookup_old. cbn [flat_map].
      pose proof (find_id_unique (l1 ++ f :: l2) f Nl (in_elt f l1 l2)) as Ff. rewrite Ef in Ff. rewrite Ff. cbn [app]. f_equal.
      apply flat_map_ext_in_. intros j J.
      assert (j <> i) by (intro E; subst j; contradiction).
      rewrite !find_app_. cbn [find]. replace (fr_id f =? j) with false by (symmetry; apply N.eqb_neq; congruence). reflexivity. }
    rewrite FL, LK.
    eapply Permutation_trans; [apply Permutation_sym; apply Permutation_middle|].
    eapply Permutation_trans; [|apply Permutation_middle]. apply perm_skip.
    apply IH; [assumption | exact Nl' |].
    intros j J. specialize (H j (or_intror J)). unfold frag_ids in *. rewrite map_app in *. cbn [map] in H.
    apply in_app_iff in H as [K|[K|K]]; [apply in_or_app; left; exact K | exfalso; subst j; rewrite Ef in *; contradiction | apply in_or_app; right; exact K].
Qed.

Lemma position_of_split id : forall l k, position_of id l = Some k ->
  exists pre f post, l = pre ++ f :: post /\ length pre = k /\ fr_id f = id.
Proof.
  induction l as [|a l IH]; intros k H; cbn [position_of] in H; [discriminate|].
  destruct (fr_id a =? id) eqn:E.
  - inversion H; subst. exists [], a, l. split; [reflexivity | split; [reflexivity | apply N.eqb_eq; exact E]].
  - destruct (position_of id l) as [n|] eqn:P; [|discriminate]. inversion H; subst.
    destruct (IH n eq_refl) as [pre [f [post [A [B C]]]]]. exists (a :: pre), f, post. subst l. split; [reflexivity | split; [cbn [length]; lia | exact C]].
Qed.
Lemma contiguous_from_true : forall ids l, contiguous_from l ids = Some true ->
  exists mid post, l = mid ++ post /\ frag_ids mid = ids.
Proof.
  induction ids as [|i r IH]; intros l H; cbn [contiguous_from] in H.
  - exists [], l. split; reflexivity.
  - destruct l as [|f l']; cbn [contiguous_from] in H; [discriminate|]. destruct (fr_id f =? i) eqn:E; [|discriminate]. apply N.eqb_eq in E.
    destruct (IH l' H) as [mid [post [A B]]]. exists (f :: mid), post. subst l'. split; [reflexivity|].
    unfold frag_ids in *. cbn [map]. rewrite E, B. reflexivity.
Qed.

Lemma filter_segment pre mid post :
  NoDup (frag_ids (pre ++ mid ++ post)) -> filter (not_in (frag_ids mid)) (pre ++ mid ++ post) = pre ++ post.
Proof.
  intro ND. unfold frag_ids in ND. rewrite !map_app in ND. rewrite !filter_app.
  assert (A : forall f, In f pre -> not_in (frag_ids mid) f = true).
  { intros f I. unfold not_in. apply negb_true_iff. apply n_mem_false. intro J.
    eapply NoDup_app_disj; [exact ND | apply in_map; exact I | apply in_or_app; left; exact J]. }
  assert (B : forall f, In f post -> not_in (frag_ids mid) f = true).
  { intros f I. unfold not_in. apply negb_true_iff. apply n_mem_false. intro J.
    apply NoDup_app_r in ND. eapply NoDup_app_disj; [exact ND | exact J | apply in_map; exact I]. }
  assert (C : forall f, In f mid -> not_in (frag_ids mid) f = false).
  { intros f I. unfold not_in. apply negb_false_iff. apply n_mem_In. apply in_map. exact I. }
  rewrite (filter_all _ pre A), (filter_all _ post B), (filter_none _ mid C). reflexivity.
Qed.

Lemma fwi_content {X} (c : Fragment -> list X) (Hc : forall f i, c (set_id f i) = c f) :
  forall l fid, flat_map c (fst (fragments_with_ids l fid)) = flat_map c l.
Proof.
  induction l as [|f r IH]; intro fid; [reflexivity|]. cbn [fragments_with_ids]. destruct (fr_id f =? 0).
  - specialize (IH (fid + 1)). destruct (fragments_with_ids r (fid + 1)). cbn [fst flat_map] in *. rewrite Hc, IH. reflexivity.
  - specialize (IH fid). destruct (fragments_with_ids r fid). cbn [fst flat_map] in *. rewrite IH. reflexivity.
Qed.

(* THE COMMIT LEMMA on the fragment list: the result is the fragments outside the groups plus the new fragments
   (ids assigned), for ANY number of groups in ANY order, contiguous or not *)
Lemma hrf_struct {X} (c : Fragment -> list X) (Hc : forall f i, c (set_id f i) = c f) :
  forall groups final fid final' fid',
  handle_rewrite_fragments final groups fid = Ok (final', fid') ->
  NoDup (frag_ids final) -> NoDup (reserved_ids groups) ->
  (forall x, In x (frag_ids final) -> ~ In x (reserved_ids groups)) ->
  (forall x, In x (frag_ids final) -> x < fid) ->
  (forall x, In x (reserved_ids groups) -> x < fid) ->
  NoDup (flat_map rg_old groups) ->
  (forall i, In i (flat_map rg_old groups) -> In i (frag_ids final)) ->
  exists N, Permutation final' (filter (not_in (flat_map rg_old groups)) final ++ N)
    /\ (forall x, In x (frag_ids N) -> In x (reserved_ids groups) \/ (fid <= x /\ x < fid'))
    /\ flat_map c N = flat_map c (flat_map rg_new groups)
    /\ NoDup (frag_ids final') /\ fid <= fid'
    /\ (forall P : Fragment -> bool, (forall f i, P f = true -> P (set_id f i) = true) ->
        forallb P (flat_map rg_new groups) = true -> forallb P N = true).
Proof.
  induction groups as [|g rest IH]; intros final fid final' fid' H ND NR DJ LT LR NO IN.
  - cbn [handle_rewrite_fragments] in H. inversion H; subst. exists []. rewrite app_nil_r.
    repeat split; [rewrite filter_all; [apply Permutation_refl | intros; reflexivity] | intros x [] | exact ND | lia].
  - cbn [handle_rewrite_fragments] in H.
    destruct (rg_old g) as [|first old_rest] eqn:EO; [discriminate|].
    destruct (position_of first final) as [start|] eqn:EP; [|discriminate].
    destruct (contiguous_from (skipn (S start) final) old_rest) as [contiguous|] eqn:EC; [|discriminate].
    destruct (fragments_with_ids (rg_new g) fid) as [newf fid1] eqn:EF.
    unfold reserved_ids in *. cbn [flat_map] in *. rewrite nz_ids_app in *. rewrite EO in *.
    set (olds := first :: old_rest) in *.
    destruct (fwi_ids _ _ _ _ EF) as [L1 [M1 D1]].
    assert (NDnew : NoDup (frag_ids newf)).
    { apply D1; [eapply NoDup_app_l; exact NR | intros x I; apply LR; apply in_or_app; left; exact I]. }
    set (kept := filter (not_in olds) final).
    assert (NDkept : NoDup (frag_ids kept)) by (unfold kept, frag_ids; apply NoDup_map_filter; exact ND).
    assert (INkept : forall x, In x (frag_ids kept) -> In x (frag_ids final)) by (unfold kept, frag_ids; intros x I; eapply In_map_filter; exact I).
    assert (DISJ : forall x, In x (frag_ids kept) -> ~ In x (frag_ids newf)).
    { intros x I J. specialize (INkept x I). destruct (M1 x J) as [K|K].
      - apply (DJ x INkept). apply in_or_app. left. exact K.
      - specialize (LT x INkept). lia. }
    (* the list after this group *)
    assert (PERM : Permutation (if contiguous then firstn start final ++ newf ++ skipn (start + length olds) final
                                else filter (fun f => negb (n_mem (fr_id f) olds)) final ++ newf) (kept ++ newf)).
    { destruct contiguous; [|apply Permutation_refl].
      destruct (position_of_split _ _ _ EP) as [pre [f0 [tl [Efin [Lpre Ef0]]]]].
      assert (Etl : skipn (S start) final = tl).
      { subst final start. replace (S (length pre)) with (length (pre ++ [f0])) by (rewrite app_length; cbn [length]; lia).
        replace (pre ++ f0 :: tl) with ((pre ++ [f0]) ++ tl) by (rewrite <- app_assoc; reflexivity). apply skipn_all2 || (rewrite skipn_app, skipn_all, Nat.sub_diag; reflexivity). }
      rewrite Etl in EC. destruct (contiguous_from_true _ _ EC) as [mid [post [Emid Eids]]].
      assert (Efinal : final = pre ++ (f0 :: mid) ++ post) by (rewrite Efin, Emid; reflexivity).
      assert (Eolds : frag_ids (f0 :: mid) = olds) by (unfold olds, frag_ids in *; cbn [map]; rewrite Ef0, Eids; reflexivity).
      assert (F1 : firstn start final = pre) by (rewrite Efinal, <- Lpre; rewrite firstn_app, firstn_all, Nat.sub_diag; cbn [firstn]; apply app_nil_r).
      assert (F2 : skipn (start + length olds) final = post).
      { rewrite <- Eolds. unfold frag_ids. rewrite map_length, Efinal, <- Lpre.
        rewrite app_assoc, <- app_length. rewrite skipn_app, skipn_all, Nat.sub_diag. reflexivity. }
      rewrite F1, F2. unfold kept. rewrite <- Eolds. rewrite Efinal, filter_segment by (rewrite <- Efinal; exact ND).
      rewrite <- app_assoc. apply Permutation_app_head. apply Permutation_app_comm. }
    assert (ND1 : NoDup (frag_ids (kept ++ newf))) by (unfold frag_ids; rewrite map_app; apply NoDup_app_intro; assumption).
    (* the old fragments of the remaining groups are still there *)
    assert (NOapp : NoDup (olds ++ flat_map rg_old rest)) by exact NO.
    assert (INrest : forall i, In i (flat_map rg_old rest) -> In i (frag_ids kept)).
    { intros i I. specialize (IN i (in_or_app _ _ _ (or_intror I))). apply in_map_iff in IN as [f [Ef If]].
      apply in_map_iff. exists f. split; [exact Ef|]. unfold kept. apply filter_In. split; [exact If|].
      unfold not_in. apply negb_true_iff. apply n_mem_false. rewrite Ef. intro J. eapply NoDup_app_disj; [exact NOapp | exact J | exact I]. }
    match type of H with handle_rewrite_fragments ?F1 _ _ = _ => set (final1 := F1) in * end.
    assert (P1 : Permutation (frag_ids final1) (frag_ids (kept ++ newf))) by (apply frag_ids_perm; exact PERM).
    destruct (IH final1 fid1 final' fid' H) as [N [PN [IDN [CN [NDF [LF PP]]]]]].
    + eapply Permutation_NoDup; [apply Permutation_sym; exact P1 | exact ND1].
    + eapply NoDup_app_r; exact NR.
    + intros x I J. apply (Permutation_in _ P1) in I. unfold frag_ids in I. rewrite map_app in I. apply in_app_iff in I as [I|I].
      * apply (DJ x (INkept x I)). apply in_or_app. right. exact J.
      * destruct (M1 x I) as [K|K]; [eapply NoDup_app_disj; [exact NR | exact K | exact J] |].
        assert (x < fid) by (apply LR; apply in_or_app; right; exact J). lia.
    + intros x I. apply (Permutation_in _ P1) in I. unfold frag_ids in I. rewrite map_app in I. apply in_app_iff in I as [I|I];
        [specialize (LT x (INkept x I)); lia|].
      destruct (M1 x I) as [K|K]; [assert (x < fid) by (apply LR; apply in_or_app; left; exact K); lia | lia].
    + intros x I. assert (x < fid) by (apply LR; apply in_or_app; right; exact I). lia.
    + eapply NoDup_app_r; exact NOapp.
    + intros i I. apply (Permutation_in _ (Permutation_sym P1)). unfold frag_ids. rewrite map_app. apply in_or_app. left. apply INrest. exact I.
    + exists (newf ++ N). repeat split.
      * eapply Permutation_trans; [exact PN|]. rewrite app_assoc. apply Permutation_app_tail.
        eapply Permutation_trans; [apply filter_perm; exact PERM|]. rewrite filter_app. apply Permutation_app.
        -- unfold kept. rewrite filter_filter. rewrite (filter_ext _ (not_in (olds ++ flat_map rg_old rest))); [apply Permutation_refl|].
           intro f. rewrite not_in_app. reflexivity.
        -- rewrite filter_all; [apply Permutation_refl|]. intros f I. unfold not_in. apply negb_true_iff. apply n_mem_false. intro J.
           specialize (INrest _ J). apply (DISJ _ INrest). apply in_map. exact I.
      * intros x I. unfold frag_ids in I. rewrite map_app in I. apply in_app_iff in I as [I|I].
        -- destruct (M1 x I) as [K|K]; [left; apply in_or_app; left; exact K | right; lia].
        -- destruct (IDN x I) as [K|K]; [left; apply in_or_app; right; exact K | right; lia].
      * rewrite !flat_map_app_, CN. f_equal. pose proof (fwi_content c Hc (rg_new g) fid) as Q. rewrite EF in Q. exact Q.
      * exact NDF.
      * lia.
      * intros P HP HA. rewrite forallb_app in HA. apply andb_true_iff in HA as [HA1 HA2]. rewrite forallb_app. apply andb_true_iff. split.
        -- pose proof (fwi_forallb P HP (rg_new g) fid HA1) as Q. rewrite EF in Q. exact Q.
        -- apply PP; assumption.
Qed.

(* ================================================================ F. the content invariant *)
Lemma flat_map_flat_map {A B C} (f : A -> list B) (g : B -> list C) l :
  flat_map g (flat_map f l) = flat_map (fun x => flat_map g (f x)) l.
Proof. induction l as [|x r IH]; [reflexivity|]. cbn [flat_map]. rewrite flat_map_app_, IH. reflexivity. Qed.

Lemma remove_tombstoned_id l :
  forallb (fun f => forallb has_live_field (fr_files f)) l = true -> remove_tombstoned_data_files l = l.
Proof.
  unfold remove_tombstoned_data_files. induction l as [|f r IH]; cbn [forallb map]; intro H; [reflexivity|].
  apply andb_true_iff in H as [A B]. rewrite IH by exact B. f_equal.
  rewrite filter_all_true by exact A. destruct f; reflexivity.
Qed.

(* sorted lists with distinct ids that are permutations of each other are equal *)
Lemma sorted_perm_eq : forall l1 l2, sorted_frags l1 -> sorted_frags l2 -> NoDup (frag_ids l1) -> Permutation l1 l2 -> l1 = l2.
Proof.
  induction l1 as [|a r1 IH]; intros l2 S1 S2 ND P.
  - apply Permutation_nil in P. subst. reflexivity.
  - destruct l2 as [|b r2]; [apply Permutation_sym, Permutation_nil in P; discriminate|].
    cbn [sorted_frags] in S1, S2. destruct S1 as [A1 B1]. destruct S2 as [A2 B2].
    assert (ND2 : NoDup (frag_ids (b :: r2))) by (eapply Permutation_NoDup; [apply frag_ids_perm; exact P | exact ND]).
    assert (Ia : In a (b :: r2)) by (apply (Permutation_in _ P); left; reflexivity).
    assert (Ib : In b (a :: r1)) by (apply (Permutation_in _ (Permutation_sym P)); left; reflexivity).
    assert (Eab : a = b).
    { destruct Ia as [E|Ia]; [symmetry; exact E|]. destruct Ib as [E|Ib]; [exact E|].
      pose proof (le_all_In _ _ _ A1 Ib) as L1. pose proof (le_all_In _ _ _ A2 Ia) as L2.
      assert (E : fr_id a = fr_id b) by lia. exfalso. unfold frag_ids in ND2. cbn [map] in ND2. inversion ND2; subst.
      apply H1. rewrite <- E. apply in_map. exact Ia. }
    subst b. f_equal. apply IH; [exact B1 | exact B2 | unfold frag_ids in *; cbn [map] in ND; inversion ND; assumption |].
    eapply Permutation_cons_inv. exact P.
Qed.
Lemma le_all_filter p x l : le_all x l -> le_all x (filter p l).
Proof. induction l as [|g r IH]; cbn [le_all filter]; intro H; [exact I|]. destruct H as [A B]. destruct (p g); cbn [le_all]; [split; [exact A | apply IH; exact B] | apply IH; exact B]. Qed.
Lemma sorted_filter p l : sorted_frags l -> sorted_frags (filter p l).
Proof.
  induction l as [|f r IH]; cbn [sorted_frags filter]; intro H; [exact I|]. destruct H as [A B].
  destruct (p f); cbn [sorted_frags]; [split; [apply le_all_filter; exact A | apply IH; exact B] | apply IH; exact B].
Qed.
Lemma strict_sorted_frags l : strict_sorted_n (frag_ids l) = true -> sorted_frags l.
Proof.
  induction l as [|f r IH]; intro H; [exact I|]. cbn [sorted_frags]. unfold frag_ids in *. cbn [map] in H.
  destruct (strict_sorted_NoDup _ H) as [_ LT]. specialize (LT _ _ eq_refl). split.
  - clear IH H. induction r as [|g r' IHr]; cbn [le_all]; [exact I|]. split.
    + specialize (LT (fr_id g)). cbn [map] in LT. specialize (LT (or_introl eq_refl)). lia.
    + apply IHr. intros z Iz. apply LT. cbn [map]. right. exact Iz.
  - apply IH. cbn [strict_sorted_n] in H. destruct r as [|g r']; [reflexivity|]. cbn [map] in H. apply andb_true_iff in H as [_ H]. exact H.
Qed.

Lemma lookup_old_In l ids f : In f (lookup_old l ids) -> In f l.
Proof.
  unfold lookup_old. intro I. apply in_flat_map in I as [i [_ I]].
  destruct (find (fun g => fr_id g =? i) l) as [g|] eqn:E; [|destruct I]. destruct I as [Eg|[]]. subst g. apply find_id_some in E. tauto.
Qed.

Lemma n_incl_In a b : n_incl a b = true -> forall x, In x a -> In x b.
Proof. unfold n_incl. rewrite forallb_forall. intros H x I. apply n_mem_In. apply H. exact I. Qed.

Section Invariant.
Variable V : Type.
Variable cell : list DataFile -> N -> V.
Notation table_vrows := (table_vrows V cell).
Notation vrows_of := (vrows_of V cell).

(* one group: what the task wrote holds the live rows of its fragments, in order *)
Lemma group_rows stable existing g :
  group_ok stable existing g = true ->
  (forall f, In f existing -> frag_consistent stable f = true /\ shape_ok stable f = true) ->
  cells_ok V cell existing g ->
  table_vrows (rg_new g) = table_vrows (lookup_old existing (rg_old g)).
Proof.
  unfold group_ok. rewrite !andb_true_iff. intros [[[[_ _] E] S] _] W C.
  destruct (exec_task stable (lookup_old existing (rg_old g)) (map phys_n (rg_new g)) (frag_ids (rg_new g)) (map fr_files (rg_new g))) as [l| |] eqn:EX; try discriminate.
  apply fragments_eqb_true in E. subst l. apply N.eqb_eq in S.
  apply table_vrows_ext; [|exact C].
  eapply exec_task_meta; [exact EX | | exact S]. intros f I. apply W. eapply lookup_old_In. exact I.
Qed.

Theorem content_invariant m groups ri fri cfg m' :
  wf_manifest m = true -> versions_shape (uses_stable m) (m_fragments m) = true ->
  groups_ok m groups = true ->
  (forall g, In g groups -> cells_ok V cell (m_fragments m) g) ->
  build_manifest (Some m) (Rewrite groups ri fri) cfg = Ok m' ->
  Permutation (table_vrows (m_fragments m')) (table_vrows (m_fragments m))
  /\ (forall g, In g groups -> table_vrows (rg_new g) = table_vrows (lookup_old (m_fragments m) (rg_old g)))
  /\ filter (fun f => n_mem (fr_id f) (frag_ids (m_fragments m))) (m_fragments m')
     = filter (not_in (flat_map rg_old groups)) (m_fragments m)
  /\ m_schema m' = m_schema m /\ m_version m' = m_version m + 1
  /\ (uses_stable m' = true -> m_next_row_id m' = m_next_row_id m).
Proof.
  intros WF SH GO CE H.
  set (s := uses_stable m) in *. set (existing := m_fragments m) in *.
  destruct (wf_facts s m WF eq_refl) as [SC [C [ND [MX [IX LT]]]]].
  unfold groups_ok in GO. rewrite !andb_true_iff in GO. destruct GO as [[[G1 G2] G3] G4].
  fold s in G1. fold existing in G1, G4.
  rewrite forallb_forall in G1, G4. apply nodup_n_NoDup in G2, G3.
  assert (W : forall f, In f existing -> frag_consistent s f = true /\ shape_ok s f = true).
  { intros f I. split; [exact (forallb_In _ _ _ C I) | apply (proj1 (versions_shape_forall s existing) SH); exact I]. }
  assert (ROWS : forall g, In g groups -> table_vrows (rg_new g) = table_vrows (lookup_old existing (rg_old g))).
  { intros g I. apply (group_rows s); [apply G1; exact I | exact W | apply CE; exact I]. }
  (* ---- unfold the commit *)
  unfold build_manifest in H.
  destruct (cfg_stable cfg && negb (uses_stable m)); [discriminate|].
  bind_as H schema ES. cbn [op_schema] in ES. inversion ES; subst schema. clear ES.
  bind_as H nri EN. bind_as H r EA. destruct r as [[final idx] nri'].
  cbn [build_arm with_existing mbind] in EA.
  bind_as EA r1 EH. destruct r1 as [final0 fidx]. bind_as EA idx1 EI. inversion EA; subst final idx nri'. clear EA.
  cbn [start_fragment_id] in EH. fold existing in EH.
  set (fid0 := match max_fragment_id m with Some id => id + 1 | None => 0 end) in *.
  (* ---- the fragment list *)
  assert (RS : forall x, In x (reserved_ids groups) -> ~ In x (frag_ids existing) /\ x < fid0).
  { intros x I. specialize (G4 x I). apply andb_true_iff in G4 as [A B]. apply negb_true_iff in A. apply n_mem_false in A.
    split; [exact A|]. unfold fid0. destruct (max_fragment_id m); [apply N.leb_le in B; lia | discriminate]. }
  assert (INO : forall i, In i (flat_map rg_old groups) -> In i (frag_ids existing)).
  { intros i I. apply in_flat_map in I as [g [Ig Ii]]. specialize (G1 g Ig). unfold group_ok in G1. rewrite !andb_true_iff in G1.
    destruct G1 as [[[[_ A] _] _] _]. eapply n_incl_In; eassumption. }
  destruct (hrf_struct vrows_of (vrows_set_id V cell) groups existing fid0 final0 fidx EH ND G3) as [Nn [PN [IDN [CN [NDF [LF PP]]]]]].
  { intros x I J. apply (proj1 (RS x J)). exact I. }
  { exact LT. }
  { intros x I. apply RS. exact I. }
  { exact G2. }
  { exact INO. }
  set (kept := filter (not_in (flat_map rg_old groups)) existing) in *.
  (* ---- finish_manifest: sort, tombstoned files *)
  unfold finish_manifest in H.
  set (F := remove_tombstoned_data_files (sort_frags final0)) in *.
  assert (LIVE : forallb (fun f => forallb has_live_field (fr_files f)) (kept ++ Nn) = true).
  { rewrite forallb_app. apply andb_true_iff. split.
    - apply forallb_forall. intros f I. unfold kept in I. apply filter_In in I as [I _].
      unfold wf_manifest in WF. rewrite !andb_true_iff in WF. destruct WF as [[[[_ B] _] _] _].
      pose proof (forallb_In _ _ _ B I) as Wf. unfold wf_fragment in Wf. apply andb_true_iff in Wf as [_ Wf]. exact Wf.
    - apply PP; [intros f i Hf; destruct f; exact Hf|]. apply forallb_forall. intros f I. apply in_flat_map in I as [g [Ig If]].
      specialize (G1 g Ig). unfold group_ok in G1. rewrite !andb_true_iff in G1. destruct G1 as [_ A]. exact (forallb_In _ _ _ A If). }
  assert (PF : Permutation (sort_frags final0) (kept ++ Nn)) by (eapply Permutation_trans; [apply sort_frags_perm | exact PN]).
  assert (EF : F = sort_frags final0).
  { unfold F. apply remove_tombstoned_id. rewrite (forallb_perm _ _ _ PF). exact LIVE. }
  bind_as H r2 E2. destruct r2 as [[version prev_max] storage]. inversion E2; subst version prev_max storage. clear E2.
  destruct (existsb num_rows_underflows F); [discriminate|].
  bind_as H stable ESt. bind_as H mx0 EM0. bind_as H mx EM1. inversion H; subst m'. clear H.
  cbn [m_fragments m_schema m_version m_next_row_id uses_stable is_some].
  rewrite EF.
  (* ---- contents *)
  assert (ALLOLD : Permutation existing (kept ++ lookup_old existing (flat_map rg_old groups))).
  { apply perm_filter_lookup; [exact G2 | exact ND | exact INO]. }
  repeat split.
  - unfold Model_Compact.table_vrows.
    eapply Permutation_trans; [apply flat_map_perm; exact PF|].
    eapply Permutation_trans; [|apply Permutation_sym; apply flat_map_perm; exact ALLOLD].
    rewrite !flat_map_app_. apply Permutation_app_head.
    rewrite CN, lookup_old_flat, !flat_map_flat_map.
    rewrite (flat_map_ext_in_ _ (fun g => flat_map vrows_of (lookup_old existing (rg_old g)))); [apply Permutation_refl|].
    intros g I. exact (ROWS g I).
  - exact ROWS.
  - (* untouched fragments: same records, same order *)
    set (P := fun f => n_mem (fr_id f) (frag_ids existing)).
    apply sorted_perm_eq.
    + apply sorted_filter. apply sort_frags_sorted.
    + apply sorted_filter. apply strict_sorted_frags.
      unfold wf_manifest in WF. rewrite !andb_true_iff in WF. destruct WF as [[[[_ _] B] _] _]. exact B.
    + unfold frag_ids. apply NoDup_map_filter. eapply Permutation_NoDup; [apply Permutation_sym; apply frag_ids_perm; apply sort_frags_perm | exact NDF].
    + eapply Permutation_trans; [apply filter_perm; exact PF|]. rewrite filter_app.
      rewrite (filter_all P kept), (filter_none P Nn); [rewrite app_nil_r; apply Permutation_refl | |].
      * intros f I. unfold P. apply n_mem_false. intro J.
        destruct (IDN (fr_id f) (in_map _ _ _ I)) as [K|K]; [exact (proj1 (RS _ K) J) | specialize (LT _ J); fold fid0 in LT; lia].
      * intros f I. unfold P. apply n_mem_In. apply in_map. unfold kept in I. apply filter_In in I. tauto.
  - intro ST. destruct stable; [|discriminate ST].
    unfold start_next_row_id in EN. fold s in EN. unfold s, uses_stable in *.
    destruct (m_next_row_id m) as [n|] eqn:En.
    + inversion EN; subst nri. reflexivity.
    + (* a table without stable row ids cannot come out stable: every fragment kept its (absent) row ids *)
      exfalso. destruct (cfg_stable cfg); [discriminate EN|]. inversion EN; subst nri. clear EN.
      cbn [orb] in ESt.
      destruct (existsb (fun f => is_some (fr_row_ids f)) F) eqn:EX; [|discriminate ESt].
      apply existsb_exists in EX as [f [If Hf]]. rewrite EF in If. apply (Permutation_in _ PF) in If.
      assert (Q : forallb (fun f => negb (is_some (fr_row_ids f))) (kept ++ Nn) = true).
      { rewrite forallb_app. apply andb_true_iff. split.
        - apply forallb_forall. intros g I. unfold kept in I. apply filter_In in I as [I _].
          rewrite (frag_consistent_plain g (forallb_In _ _ _ C I)). reflexivity.
        - apply PP; [intros g i Hg; destruct g; exact Hg|]. apply forallb_forall. intros g I. apply in_flat_map in I as [gr [Ig Ign]].
          specialize (G1 gr Ig). unfold group_ok in G1. rewrite !andb_true_iff in G1. destruct G1 as [[[_ E] _] _].
          cbn [is_some] in E. unfold exec_task in E.
          apply fragments_eqb_true in E. rewrite <- E in Ign. clear E.
          revert Ign. generalize (map phys_n (rg_new gr)) (frag_ids (rg_new gr)) (map fr_files (rg_new gr)).
          intros sizes. induction sizes as [|sz r IHs]; intros ids files Ign; [destruct Ign|].
          cbn [build_frags] in Ign. destruct Ign as [Eg|Ign]; [subst g; reflexivity | eapply IHs; exact Ign]. }
      rewrite forallb_forall in Q. specialize (Q f If). rewrite Hf in Q. discriminate.
Qed.
End Invariant.

(* ================================================================ G. the row-address remap *)
(* --- the association list *)
Lemma map_get_insert k v : forall m k', map_get (map_insert k v m) k' = if k' =? k then Some v else map_get m k'.
Proof.
  unfold map_get. induction m as [|[k0 v0] r IH]; intro k'; cbn [map_insert find fst snd].
  - rewrite (N.eqb_sym k k'). destruct (k' =? k); reflexivity.
  - destruct (k <? k0) eqn:L; [|destruct (k =? k0) eqn:E]; cbn [find fst snd].
    + rewrite (N.eqb_sym k k'). destruct (k' =? k); reflexivity.
    + apply N.eqb_eq in E. subst k0. rewrite (N.eqb_sym k k'). destruct (k' =? k); reflexivity.
    + rewrite (N.eqb_sym k0 k'). destruct (k' =? k0) eqn:E0.
      * apply N.eqb_eq in E0. subst k0. replace (k' =? k) with false; [reflexivity|]. symmetry. apply N.eqb_neq. intro; subst. rewrite N.eqb_refl in E. discriminate.
      * rewrite IH. reflexivity.
Qed.

Lemma get_ins_all_other k : forall kvs m, ~ In k (map fst kvs) -> map_get (ins_all kvs m) k = map_get m k.
Proof.
  unfold ins_all. induction kvs as [|[k0 v0] r IH]; intros m H; [reflexivity|]. cbn [fold_left fst snd map] in *.
  rewrite IH by (intro I; apply H; right; exact I). rewrite map_get_insert.
  replace (k =? k0) with false; [reflexivity|]. symmetry. apply N.eqb_neq. intro E. apply H. left. symmetry. exact E.
Qed.
Lemma get_ins_all_in k v : forall kvs m, NoDup (map fst kvs) -> In (k, v) kvs -> map_get (ins_all kvs m) k = Some v.
Proof.
  unfold ins_all. induction kvs as [|[k0 v0] r IH]; intros m ND I; [destruct I|]. cbn [fold_left fst snd map] in *. inversion ND; subst.
  destruct I as [E|I].
  - inversion E; subst. fold (ins_all r (map_insert k v m)). rewrite get_ins_all_other by assumption.
    rewrite map_get_insert, N.eqb_refl. reflexivity.
  - apply IH; assumption.
Qed.

(* --- MissingAddrs as a merge of the expected addresses against the captured ones *)
Fixpoint merge_miss (E P : list N) : list N :=
  match E with
  | [] => []
  | e :: E' => if hd 0 P =? e then merge_miss E' (tl P) else e :: merge_miss E' P
  end.
Lemma merge_miss_zero E : merge_miss E [0] = merge_miss E [].
Proof. induction E as [|e E' IH]; [reflexivity|]. cbn [merge_miss hd tl]. destruct (0 =? e); [reflexivity | rewrite IH; reflexivity]. Qed.

Definition seg (d : digest) (o : N) : list N := map (row_address (dg_id d)) (n_range o (dg_phys d - o)).
Definition all_dg (l : list digest) : list N := flat_map (fun d => seg d 0) l.
Definition pend (last : option N) (addrs : list N) : list N := match last with Some v => v :: addrs | None => addrs end.
Definition dg_ok (d : digest) : bool := (dg_id d <? two32) && (0 <? dg_phys d) && (dg_phys d <? two32).

Lemma two32_pos : 0 < two32. Proof. unfold two32. lia. Qed.
Lemma row_address_div id o : o < two32 -> row_address id o / two32 = id.
Proof. intro L. unfold row_address. pose proof two32_pos. rewrite N.div_add_l by lia. rewrite N.div_small by exact L. lia. Qed.
Lemma row_address_mod id o : o < two32 -> row_address id o mod two32 = o.
Proof. intro L. unfold row_address. pose proof two32_pos. rewrite N.add_comm, N.mod_add by lia. apply N.mod_small. exact L. Qed.

Lemma seg_step d o : o < dg_phys d -> seg d o = row_address (dg_id d) o :: seg d (o + 1).
Proof.
  intro L. unfold seg. replace (dg_phys d - o) with (N.succ (dg_phys d - (o + 1))) by lia. rewrite n_range_S. reflexivity.
Qed.
Lemma seg_end d : seg d (dg_phys d) = [].
Proof. unfold seg. rewrite N.sub_diag. reflexivity. Qed.

Lemma missing_walk_merge : forall fuel addrs last cur rest o,
  forallb dg_ok (cur :: rest) = true -> o < dg_phys cur ->
  (N.to_nat (dg_phys cur - o + sum_n (map dg_phys rest)) <= fuel)%nat ->
  missing_walk fuel addrs last (row_address (dg_id cur) o) (cur :: rest)
  = Some (merge_miss (seg cur o ++ all_dg rest) (pend last addrs)).
Proof.
  induction fuel as [|fuel IH]; intros addrs last cur rest o OK Lo F; [lia|].
  cbn [forallb] in OK. apply andb_true_iff in OK as [OKc OKr]. pose proof OKc as OKc'. unfold dg_ok in OKc. rewrite !andb_true_iff in OKc.
  destruct OKc as [[I1 I2] I3]. apply N.ltb_lt in I1, I2, I3.
  cbn [missing_walk]. rewrite (seg_step cur o Lo). cbn [app merge_miss].
  set (e := row_address (dg_id cur) o).
  (* the value looked at *)
  set (val := hd 0 (pend last addrs)).
  assert (Eval : (let '(v, _) := match last with Some l => (l, addrs) | None => match addrs with a :: t => (a, t) | [] => (0, []) end end in v) = val).
  { unfold val, pend. destruct last; [reflexivity | destruct addrs; reflexivity]. }
  assert (Emod : (e + 1) mod two32 = o + 1).
  { unfold e, row_address. pose proof two32_pos. replace (dg_id cur * two32 + o + 1) with (o + 1 + dg_id cur * two32) by lia. rewrite N.mod_add by lia. apply N.mod_small. lia. }
  assert (Ecmp : (negb (val / two32 =? dg_id cur) || negb (val =? e)) = negb (val =? e)).
  { destruct (val =? e) eqn:E; cbn [negb orb]; [|apply orb_true_r]. apply N.eqb_eq in E. rewrite E. unfold e. rewrite row_address_div by lia. rewrite N.eqb_refl. reflexivity. }
  (* where the walk goes next *)
  assert (NEXT : exists frags' expected',
            (if (e + 1) mod two32 =? dg_phys cur then (rest, match rest with nxt :: _ => dg_id nxt * two32 | [] => e + 1 end) else (cur :: rest, e + 1)) = (frags', expected')
            /\ forall addrs' last', missing_walk fuel addrs' last' expected' frags' = Some (merge_miss (seg cur (o + 1) ++ all_dg rest) (pend last' addrs'))).
  { rewrite Emod. destruct (o + 1 =? dg_phys cur) eqn:EE.
    - apply N.eqb_eq in EE. rewrite EE, seg_end. cbn [app]. destruct rest as [|nxt rest'].
      + do 2 eexists. split; [reflexivity|]. intros. destruct fuel; reflexivity.
      + cbn [all_dg flat_map]. assert (Pn : 0 < dg_phys nxt).
        { cbn [forallb] in OKr. apply andb_true_iff in OKr as [Q _]. unfold dg_ok in Q. rewrite !andb_true_iff in Q. destruct Q as [[_ Q] _]. apply N.ltb_lt. exact Q. }
        do 2 eexists. split; [reflexivity|]. intros.
        replace (dg_id nxt * two32) with (row_address (dg_id nxt) 0) by (unfold row_address; lia).
        apply IH; [exact OKr | exact Pn |]. cbn [map] in F. rewrite sum_n_cons in F. lia.
    - apply N.eqb_neq in EE. do 2 eexists. split; [reflexivity|]. intros.
      replace (e + 1) with (row_address (dg_id cur) (o + 1)) by (unfold e, row_address; lia).
      apply IH; [cbn [forallb]; rewrite OKc', OKr; reflexivity | lia | lia]. }
  destruct NEXT as [frags' [expected' [EN NX]]]. fold e. rewrite EN.
  destruct last as [l|]; [|destruct addrs as [|a t]]; cbn [pend hd tl] in *; unfold val in *; cbn [hd] in *.
  - rewrite Ecmp. destruct (l =? e) eqn:E; cbn [negb].
    + rewrite (NX addrs None). reflexivity.
    + rewrite (NX addrs (Some l)). reflexivity.
  - rewrite Ecmp. destruct (0 =? e) eqn:E; cbn [negb].
    + rewrite (NX [] None). reflexivity.
    + rewrite (NX [] (Some 0)). cbn [pend]. rewrite merge_miss_zero. reflexivity.
  - rewrite Ecmp. destruct (a =? e) eqn:E; cbn [negb].
    + rewrite (NX t None). reflexivity.
    + rewrite (NX t (Some a)). reflexivity.
Qed.

(* --- the merge against a tagged, ascending list of addresses *)
Fixpoint asc (l : list N) : Prop := match l with [] => True | x :: r => (forall y, In y r -> x < y) /\ asc r end.
Lemma asc_NoDup l : asc l -> NoDup l.
Proof. induction l as [|x r IH]; cbn [asc]; intro H; [constructor|]. destruct H as [A B]. constructor; [intro I; specialize (A x I); lia | apply IH; exact B]. Qed.
Lemma asc_app a b : asc a -> asc b -> (forall x y, In x a -> In y b -> x < y) -> asc (a ++ b).
Proof.
  induction a as [|x r IH]; cbn [asc app]; intros A B C; [exact B|]. destruct A as [A1 A2]. split.
  - intros y I. apply in_app_iff in I as [I|I]; [apply A1; exact I | apply C; [left; reflexivity | exact I]].
  - apply IH; [exact A2 | exact B | intros; apply C; [right|]; assumption].
Qed.

Lemma merge_tagged : forall (EL : list (N * bool)),
  asc (map fst EL) ->
  (forall b r, EL = (0, b) :: r -> b = true \/ filter snd EL <> []) ->
  merge_miss (map fst EL) (map fst (filter snd EL)) = map fst (filter (fun p => negb (snd p)) EL).
Proof.
  induction EL as [|[e b] r IH]; intros A Z; [reflexivity|]. cbn [map fst asc] in A. destruct A as [A1 A2].
  assert (Zr : forall b' r', r = (0, b') :: r' -> b' = true \/ filter snd r <> []).
  { intros b' r' E. exfalso. subst r. specialize (A1 0). cbn [map fst] in A1. specialize (A1 (or_introl eq_refl)). lia. }
  cbn [map filter fst snd merge_miss]. destruct b; cbn [negb map fst hd tl].
  - rewrite N.eqb_refl. apply IH; assumption.
  - replace (hd 0 (map fst (filter snd r)) =? e) with false; [cbn [map fst]; f_equal; apply IH; assumption|].
    symmetry. apply N.eqb_neq. destruct (filter snd r) as [|[x bx] t] eqn:EF; cbn [map hd fst].
    + intro E. subst e. destruct (Z false r eq_refl) as [Q|Q]; [discriminate|]. apply Q. cbn [filter snd]. exact EF.
    + assert (I : In x (map fst r)).
      { apply in_map_iff. exists (x, bx). split; [reflexivity|]. apply (filter_In snd (x, bx) r). rewrite EF. left. reflexivity. }
      specialize (A1 x I). lia.
Qed.

(* --- the addresses of a list of fragments, tagged live / deleted *)
Definition tagged_of (f : Fragment) : list (N * bool) :=
  map (fun o => (row_address (fr_id f) o, negb (n_mem o (fr_deleted f)))) (n_range 0 (phys_n f)).
Definition tagged (l : list Fragment) : list (N * bool) := flat_map tagged_of l.

Lemma filter_map_swap {A B} (g : A -> B) (p : B -> bool) l : filter p (map g l) = map g (filter (fun x => p (g x)) l).
Proof. induction l as [|x r IH]; [reflexivity|]. cbn [map filter]. destruct (p (g x)); cbn [map]; rewrite IH; reflexivity. Qed.
Lemma map_flat_map {A B C} (g : B -> C) (f : A -> list B) l : map g (flat_map f l) = flat_map (fun x => map g (f x)) l.
Proof. induction l as [|x r IH]; [reflexivity|]. cbn [flat_map]. rewrite map_app, IH. reflexivity. Qed.
Lemma filter_flat_map {A B} (p : B -> bool) (f : A -> list B) l : filter p (flat_map f l) = flat_map (fun x => filter p (f x)) l.
Proof. induction l as [|x r IH]; [reflexivity|]. cbn [flat_map]. rewrite filter_app, IH. reflexivity. Qed.

Lemma tagged_all l : map fst (tagged l) = all_addrs l.
Proof.
  unfold tagged, all_addrs. rewrite map_flat_map. apply flat_map_ext. intro f. unfold tagged_of. rewrite map_map. reflexivity.
Qed.
Lemma tagged_live l : (forall f, In f l -> is_some (fr_phys f) = true) -> map fst (filter snd (tagged l)) = live_addrs l.
Proof.
  intro H. unfold tagged, live_addrs. rewrite filter_flat_map, map_flat_map. apply flat_map_ext_in_. intros f I.
  unfold tagged_of, live_addrs_of, live_offsets, phys_n. specialize (H f I). destruct (fr_phys f) as [p|]; [|discriminate].
  rewrite filter_map_swap, map_map. reflexivity.
Qed.
Lemma tagged_deleted l : map fst (filter (fun p => negb (snd p)) (tagged l)) = deleted_addrs l.
Proof.
  unfold tagged, deleted_addrs. rewrite filter_flat_map, map_flat_map. apply flat_map_ext. intro f.
  unfold tagged_of, deleted_addrs_of. rewrite filter_map_swap, map_map. cbn [snd fst]. f_equal. apply filter_ext. intro o. apply negb_involutive.
Qed.
Lemma all_addrs_dg l : all_addrs l = all_dg (map digest_of l).
Proof.
  unfold all_addrs, all_dg. rewrite flat_map_concat_map, flat_map_concat_map, map_map. f_equal. apply map_ext. intro f.
  unfold seg, digest_of. cbn [dg_id dg_phys]. rewrite N.sub_0_r. reflexivity.
Qed.

Lemma row_address_lt i1 o1 i2 o2 : i1 < i2 -> o1 < two32 -> row_address i1 o1 < row_address i2 o2.
Proof. unfold row_address. pose proof two32_pos. nia. Qed.

Lemma all_addrs_asc : forall l,
  strict_sorted_n (frag_ids l) = true -> (forall f, In f l -> phys_n f < two32) -> asc (all_addrs l).
Proof.
  induction l as [|f r IH]; intros S B; [exact I|]. unfold all_addrs. cbn [flat_map]. apply asc_app.
  - (* one fragment: offsets ascending *)
    generalize (phys_n f) 0. intros n. induction n as [|n IHn] using N.peano_ind; intro s; [exact I|].
    rewrite n_range_S. cbn [map asc]. split; [|apply IHn].
    intros y Iy. apply in_map_iff in Iy as [o [Eo Io]]. apply n_range_In in Io. subst y. unfold row_address. lia.
  - apply IH; [|intros g Ig; apply B; right; exact Ig]. unfold frag_ids in *. cbn [map strict_sorted_n] in S.
    destruct r as [|g r']; [reflexivity|]. cbn [map] in S. apply andb_true_iff in S as [_ S]. exact S.
  - intros x y Ix Iy. apply in_map_iff in Ix as [o [Eo Io]]. apply n_range_In in Io.
    apply in_flat_map in Iy as [g [Ig Iy]]. apply in_map_iff in Iy as [o' [Eo' Io']]. subst x y.
    apply row_address_lt; [|specialize (B f (or_introl eq_refl)); lia].
    destruct (strict_sorted_NoDup _ S) as [_ LT]. unfold frag_ids in LT. cbn [map] in LT. apply (LT _ _ eq_refl). apply in_map. exact Ig.
Qed.

Lemma new_addrs_live news :
  (forall f, In f news -> fr_id f < two32 /\ phys_n f < two32 /\ is_some (fr_phys f) = true /\ fr_deletion f = None) ->
  new_addrs (map digest_of news) = live_addrs news.
Proof.
  intro H. unfold new_addrs, live_addrs. rewrite flat_map_concat_map, flat_map_concat_map, map_map. f_equal. apply map_ext_in. intros f I.
  destruct (H f I) as [A [B [C D]]]. unfold digest_of, live_addrs_of. cbn [dg_id dg_phys]. unfold wrap32.
  rewrite !N.mod_small by assumption. unfold phys_n in *. destruct (fr_phys f) as [p|] eqn:Ep; [|discriminate].
  rewrite (live_offsets_no_deletion f p Ep D). reflexivity.
Qed.

Lemma combine_map_r {A B C} (g : B -> C) (a : list A) (b : list B) : combine a (map g b) = map (fun p => (fst p, g (snd p))) (combine a b).
Proof. revert b. induction a as [|x r IH]; intros [|y s]; cbn [combine map]; [reflexivity | reflexivity | reflexivity | rewrite IH; reflexivity]. Qed.
Lemma map_fst_combine {A B} (a : list A) (b : list B) : length a = length b -> map fst (combine a b) = a.
Proof. revert b. induction a as [|x r IH]; intros [|y s] L; cbn [length] in L; try discriminate; cbn [combine map fst]; [reflexivity | f_equal; apply IH; lia]. Qed.

(* live and deleted addresses are disjoint *)
Lemma tag_disjoint : forall EL : list (N * bool), NoDup (map fst EL) ->
  forall a, In a (map fst (filter snd EL)) -> ~ In a (map fst (filter (fun p => negb (snd p)) EL)).
Proof.
  induction EL as [|[e b] r IH]; intros N0 a I J; [destruct I|]. cbn [map fst] in N0. inversion N0; subst.
  cbn [filter snd] in I, J. destruct b; cbn [negb map fst] in I, J.
  - destruct I as [E|I]; [subst a; apply H1; eapply In_map_filter; exact J | exact (IH H2 a I J)].
  - destruct J as [E|J]; [subst a; apply H1; eapply In_map_filter; exact I | exact (IH H2 a I J)].
Qed.

Lemma forallb_In_ {A} (p : A -> bool) l x : forallb p l = true -> In x l -> p x = true.
Proof. intros H I. rewrite forallb_forall in H. apply H. exact I. Qed.

Lemma live_addrs_len l : len_n (live_addrs l) = total_live l.
Proof.
  rewrite total_live_len. unfold live_addrs. rewrite !len_n_flat_map. f_equal. apply map_ext. intro f. unfold live_addrs_of. apply len_n_map.
Qed.

(* what the domain says about the fragments of a task *)
Lemma remap_dom_facts olds news : remap_dom olds news = true ->
  (forall f, In f olds -> fr_id f < two32 /\ 0 < phys_n f /\ phys_n f < two32 /\ is_some (fr_phys f) = true)
  /\ strict_sorted_n (frag_ids olds) = true
  /\ (forall f, In f news -> fr_id f < two32 /\ phys_n f < two32 /\ is_some (fr_phys f) = true /\ fr_deletion f = None)
  /\ NoDup (frag_ids news)
  /\ sum_n (map phys_n news) = total_live olds
  /\ (total_live olds <> 0 \/ match olds with f :: _ => fr_id f <> 0 | [] => False end).
Proof.
  unfold remap_dom. rewrite !andb_true_iff. intros [[[[[DO SO] DN] NN] SUM] Z]. repeat split.
  - pose proof (forallb_In_ _ _ _ DO H) as Q. cbn beta in Q. rewrite !andb_true_iff in Q. destruct Q as [[[[A B] C] _] D]. apply N.ltb_lt. exact A.
  - pose proof (forallb_In_ _ _ _ DO H) as Q. cbn beta in Q. rewrite !andb_true_iff in Q. destruct Q as [[[[A B] C] _] D]. apply N.ltb_lt. exact B.
  - pose proof (forallb_In_ _ _ _ DO H) as Q. cbn beta in Q. rewrite !andb_true_iff in Q. destruct Q as [[[[A B] C] _] D]. apply N.ltb_lt. exact C.
  - pose proof (forallb_In_ _ _ _ DO H) as Q. cbn beta in Q. rewrite !andb_true_iff in Q. destruct Q as [[[[A B] C] _] D]. exact D.
  - exact SO.
  - pose proof (forallb_In_ _ _ _ DN H) as Q. cbn beta in Q. rewrite !andb_true_iff in Q. destruct Q as [[[A B] C] D]. apply N.ltb_lt. exact A.
  - pose proof (forallb_In_ _ _ _ DN H) as Q. cbn beta in Q. rewrite !andb_true_iff in Q. destruct Q as [[[A B] C] D]. apply N.ltb_lt. exact B.
  - pose proof (forallb_In_ _ _ _ DN H) as Q. cbn beta in Q. rewrite !andb_true_iff in Q. destruct Q as [[[A B] C] D]. exact C.
  - pose proof (forallb_In_ _ _ _ DN H) as Q. cbn beta in Q. rewrite !andb_true_iff in Q. destruct Q as [[[A B] C] D].
    apply negb_true_iff in D. destruct (fr_deletion f); [discriminate | reflexivity].
  - apply nodup_n_NoDup. exact NN.
  - apply N.eqb_eq. exact SUM.
  - apply orb_true_iff in Z as [Z|Z]; apply negb_true_iff in Z.
    + left. apply N.eqb_neq. exact Z.
    + right. destruct olds; [discriminate | apply N.eqb_neq; exact Z].
Qed.

Lemma new_addrs_NoDup news :
  NoDup (frag_ids news) -> (forall f, In f news -> fr_id f < two32 /\ phys_n f < two32 /\ is_some (fr_phys f) = true /\ fr_deletion f = None) ->
  NoDup (new_addrs (map digest_of news)).
Proof.
  intros NN PN. unfold new_addrs. induction news as [|f r IH]; [constructor|]. cbn [map flat_map]. unfold frag_ids in NN. cbn [map] in NN. inversion NN; subst.
  apply NoDup_app_intro.
  - destruct (PN f (or_introl eq_refl)) as [A [B _]]. unfold digest_of. cbn [dg_id dg_phys]. unfold wrap32. rewrite !N.mod_small by assumption.
    apply FinFun.Injective_map_NoDup; [intros x y E; unfold row_address in E; lia|]. unfold n_range. apply FinFun.Injective_map_NoDup; [intros x y E; lia | apply seq_NoDup].
  - apply IH; [exact H2 | intros g I; apply PN; right; exact I].
  - intros x I J. apply in_map_iff in I as [o [Eo Io]]. apply in_flat_map in J as [d [Id J]]. apply in_map_iff in J as [o' [Eo' Io']].
    apply in_map_iff in Id as [g [Eg Ig]]. subst d x. apply n_range_In in Io, Io'.
    destruct (PN f (or_introl eq_refl)) as [A [B _]]. destruct (PN g (or_intror Ig)) as [A' [B' _]].
    unfold digest_of in *. cbn [dg_id dg_phys] in *. unfold wrap32 in *. rewrite !N.mod_small in * by assumption.
    assert (E : fr_id g = fr_id f).
    { pose proof two32_pos. unfold row_address in Eo'.
      assert (Q : (fr_id g * two32 + o') / two32 = (fr_id f * two32 + o) / two32) by (rewrite Eo'; reflexivity).
      rewrite !N.div_add_l in Q by lia. rewrite !N.div_small in Q by lia. lia. }
    apply H1. rewrite <- E. apply in_map. exact Ig.
Qed.

(* the walk over the fragments of a task finds exactly the deleted addresses *)
Lemma missing_walk_spec olds :
  (forall f, In f olds -> fr_id f < two32 /\ 0 < phys_n f /\ phys_n f < two32 /\ is_some (fr_phys f) = true) ->
  strict_sorted_n (frag_ids olds) = true ->
  (total_live olds <> 0 \/ match olds with f :: _ => fr_id f <> 0 | [] => False end) ->
  match olds with
  | [] => True
  | f0 :: _ => missing_walk (S (N.to_nat (sum_n (map dg_phys (map digest_of olds))))) (live_addrs olds) None
                            (dg_id (digest_of f0) * two32) (map digest_of olds) = Some (deleted_addrs olds)
  end.
Proof.
  intros PO SO Z. destruct olds as [|f0 olds'] eqn:EO; [exact I|]. rewrite <- EO in *.
  assert (ASC : asc (all_addrs olds)) by (apply all_addrs_asc; [exact SO | intros f I; apply PO; exact I]).
  assert (LIVE : map fst (filter snd (tagged olds)) = live_addrs olds) by (apply tagged_live; intros f I; apply PO; exact I).
  assert (OKD : forallb dg_ok (map digest_of olds) = true).
  { rewrite forallb_map. apply forallb_forall. intros f I. destruct (PO f I) as [A [B [C _]]]. unfold dg_ok, digest_of. cbn [dg_id dg_phys].
    rewrite !andb_true_iff. repeat split; apply N.ltb_lt; assumption. }
  destruct (PO f0) as [_ [P0 _]]; [rewrite EO; left; reflexivity|].
  replace (dg_id (digest_of f0) * two32) with (row_address (dg_id (digest_of f0)) 0) by (unfold row_address; lia).
  rewrite EO at 1 3. cbn [map]. rewrite missing_walk_merge.
  - cbn [pend]. f_equal.
    change (seg (digest_of f0) 0 ++ all_dg (map digest_of olds')) with (all_dg (map digest_of (f0 :: olds'))). rewrite <- EO.
    rewrite <- all_addrs_dg, <- tagged_all, <- LIVE, <- tagged_deleted. apply merge_tagged; [rewrite tagged_all; exact ASC|].
    intros b r E. destruct b; [left; reflexivity | right]. intro F.
    assert (L0 : live_addrs olds = []) by (rewrite <- LIVE, F; reflexivity).
    assert (T0 : total_live olds = 0) by (rewrite <- live_addrs_len, L0; reflexivity).
    destruct Z as [Z|Z]; [contradiction|]. rewrite EO in E.
    unfold tagged in E. cbn [flat_map] in E. unfold tagged_of at 1 in E.
    replace (phys_n f0) with (N.succ (phys_n f0 - 1)) in E by lia. rewrite n_range_S in E. cbn [map app] in E. inversion E as [[E1 E2]].
    unfold row_address in E1. pose proof two32_pos. nia.
  - rewrite EO in OKD. exact OKD.
  - exact P0.
  - rewrite sum_n_cons. cbn [digest_of dg_phys]. lia.
Qed.

(* THE REMAP THEOREM: for the fragments of a task inside the declared domain, transpose_row_addrs yields a map
   that sends the k-th live old address to the k-th new address (a bijection onto the new addresses), every
   deleted old address to None, and has no other key *)
Theorem remap_bijection olds news :
  remap_dom olds news = true ->
  exists mp, task_remap olds news = Ok mp
    /\ length (live_addrs olds) = length (live_addrs news)
    /\ NoDup (live_addrs olds) /\ NoDup (live_addrs news)
    /\ (forall a b, In (a, b) (combine (live_addrs olds) (live_addrs news)) -> map_get mp a = Some (Some b))
    /\ (forall d, In d (deleted_addrs olds) -> map_get mp d = Some None)
    /\ (forall a, map_get mp a <> None -> In a (all_addrs olds)).
Proof.
  intro D. destruct (remap_dom_facts olds news D) as [PO [SO [PN [NN [SUM Z]]]]].
  assert (ASC : asc (all_addrs olds)) by (apply all_addrs_asc; [exact SO | intros f I; apply PO; exact I]).
  assert (NDall : NoDup (map fst (tagged olds))) by (rewrite tagged_all; apply asc_NoDup; exact ASC).
  assert (LIVE : map fst (filter snd (tagged olds)) = live_addrs olds) by (apply tagged_live; intros f I; apply PO; exact I).
  assert (NDL : NoDup (live_addrs olds)) by (rewrite <- LIVE; apply NoDup_map_filter; exact NDall).
  assert (ENA : new_addrs (map digest_of news) = live_addrs news) by (apply new_addrs_live; exact PN).
  assert (NDN : NoDup (live_addrs news)) by (rewrite <- ENA; apply new_addrs_NoDup; assumption).
  assert (LEN : length (live_addrs olds) = length (live_addrs news)).
  { apply len_n_length. rewrite !live_addrs_len, <- SUM. unfold total_live. f_equal. apply map_ext_in. intros f I.
    destruct (PN f I) as [_ [_ [C Dl]]]. unfold live_count, phys_n. destruct (fr_phys f) as [p|] eqn:Ep; [|discriminate].
    rewrite (live_offsets_no_deletion f p Ep Dl). unfold len_n. rewrite n_range_len. lia. }
  pose proof (missing_walk_spec olds PO SO Z) as WALK.
  unfold task_remap, transpose. destruct olds as [|f0 olds'].
  { exfalso. destruct Z as [Z|Z]; [apply Z; reflexivity | exact Z]. }
  cbn [map] in WALK |- *. rewrite WALK, ENA.
  eexists. split; [reflexivity|]. repeat split; try assumption.
  - (* live *)
    intros a b I.
    assert (Ia : In a (live_addrs (f0 :: olds'))) by (eapply in_combine_l; exact I).
    rewrite get_ins_all_other.
    + apply get_ins_all_in; [rewrite map_fst_combine by (rewrite map_length; exact LEN); exact NDL|].
      rewrite combine_map_r. apply in_map_iff. exists (a, b). split; [reflexivity | exact I].
    + rewrite map_map. cbn [fst]. rewrite map_id. rewrite <- LIVE in Ia. rewrite <- tagged_deleted. apply tag_disjoint; assumption.
  - (* deleted *)
    intros d I. apply get_ins_all_in.
    + rewrite map_map. cbn [fst]. rewrite map_id. rewrite <- tagged_deleted. apply NoDup_map_filter. exact NDall.
    + apply in_map_iff. exists d. split; [reflexivity | exact I].
  - (* no other key *)
    intros a Hn. destruct (in_dec N.eq_dec a (deleted_addrs (f0 :: olds'))) as [I|NI].
    + rewrite <- tagged_deleted in I. rewrite <- tagged_all. eapply In_map_filter. exact I.
    + rewrite get_ins_all_other in Hn by (rewrite map_map; cbn [fst]; rewrite map_id; exact NI).
      destruct (in_dec N.eq_dec a (live_addrs (f0 :: olds'))) as [I|NI2].
      * rewrite <- LIVE in I. rewrite <- tagged_all. eapply In_map_filter. exact I.
      * rewrite get_ins_all_other in Hn; [exfalso; apply Hn; reflexivity|].
        rewrite map_fst_combine by (rewrite map_length; exact LEN). exact NI2.
Qed.

(* ================================================================ H. index fragment bitmaps *)
Lemma set_insert_In x y : forall l, In x (set_insert y l) <-> x = y \/ In x l.
Proof.
  induction l as [|z r IH]; cbn [set_insert]; [cbn [In]; split; [intros [E|[]]; left; congruence | intros [E|[]]; left; congruence]|].
  destruct (y <? z); [cbn [In]; split; [intros [E|I]; [left; congruence | right; exact I] | intros [E|I]; [left; congruence | right; exact I]]|].
  destruct (y =? z) eqn:E.
  - apply N.eqb_eq in E. subst z. cbn [In]. split; [intro I; right; exact I | intros [E|I]; [left; congruence | exact I]].
  - cbn [In]. rewrite IH. tauto.
Qed.
Lemma set_remove_In x y l : In x (set_remove y l) <-> x <> y /\ In x l.
Proof.
  unfold set_remove. rewrite filter_In. split.
  - intros [I E]. apply negb_true_iff in E. apply N.eqb_neq in E. split; assumption.
  - intros [E I]. split; [exact I | apply negb_true_iff; apply N.eqb_neq; exact E].
Qed.
Lemma fold_remove_In x : forall ids l, In x (fold_left (fun acc id => set_remove (wrap32 id) acc) ids l) <-> In x l /\ ~ In x (map wrap32 ids).
Proof.
  induction ids as [|i r IH]; intro l; cbn [fold_left map In]; [tauto|]. rewrite IH, set_remove_In. split.
  - intros [[A B] C]. split; [exact B | intros [E|I]; [apply A; symmetry; exact E | exact (C I)]].
  - intros [A B]. split; [split; [intro E; apply B; left; symmetry; exact E | exact A] | intro I; apply B; right; exact I].
Qed.
Lemma fold_insert_In x : forall (fs : list Fragment) l,
  In x (fold_left (fun acc f => set_insert (wrap32 (fr_id f)) acc) fs l) <-> In x l \/ In x (map (fun f => wrap32 (fr_id f)) fs).
Proof.
  induction fs as [|f r IH]; intro l; cbn [fold_left map In]; [tauto|]. rewrite IH, set_insert_In. split.
  - intros [[E|A]|B]; [right; left; symmetry; exact E | left; exact A | right; right; exact B].
  - intros [A|[E|B]]; [left; right; exact A | left; left; symmetry; exact E | right; exact B].
Qed.

Definition touched (b : list N) (g : RewriteGroup) : bool := existsb (fun id => n_mem (wrap32 id) b) (rg_old g).
Definition covered (b : list N) (g : RewriteGroup) : bool := forallb (fun id => n_mem (wrap32 id) b) (rg_old g).
Definition old_ids32 (g : RewriteGroup) : list N := map wrap32 (rg_old g).
Definition new_ids32 (g : RewriteGroup) : list N := map (fun f => wrap32 (fr_id f)) (rg_new g).
Definition cov_olds (b : list N) (groups : list RewriteGroup) : list N := flat_map (fun g => if touched b g then old_ids32 g else []) groups.
Definition cov_news (b : list N) (groups : list RewriteGroup) : list N := flat_map (fun g => if touched b g then new_ids32 g else []) groups.

(* recalculate_fragment_bitmap: no group is split by the index; the fragments of every group the index covers
   are replaced by the group's new fragments; nothing else changes *)
Theorem bitmap_spec old : forall groups nb b',
  recalculate_fragment_bitmap old nb groups = Ok b' ->
  (forall g, In g groups -> touched old g = true -> covered old g = true)
  /\ ((forall x, In x (cov_news old groups) -> ~ In x (flat_map old_ids32 groups)) ->
      forall x, In x b' <-> (In x nb /\ ~ In x (cov_olds old groups)) \/ In x (cov_news old groups)).
Proof.
  induction groups as [|g rest IH]; intros nb b' H; cbn [recalculate_fragment_bitmap] in H.
  - inversion H; subst. split; [intros g []|]. intros _ x. cbn [cov_olds cov_news flat_map In]. tauto.
  - fold (touched old g) in H. fold (covered old g) in H. destruct (touched old g) eqn:T.
    + destruct (covered old g) eqn:C; [|discriminate]. destruct (IH _ _ H) as [S1 S2]. split.
      * intros g' [E|I] Tg; [subst g'; exact C | apply S1; assumption].
      * intros F x. cbn [cov_olds cov_news flat_map]. rewrite T. rewrite S2.
        -- rewrite fold_insert_In, fold_remove_In. fold (old_ids32 g). fold (new_ids32 g). rewrite !in_app_iff.
           fold (cov_olds old rest). fold (cov_news old rest).
           assert (Q : In x (new_ids32 g) -> ~ In x (cov_olds old rest)).
           { intros I J. apply (F x).
             - cbn [cov_news flat_map]. rewrite T. apply in_or_app. left. exact I.
             - cbn [flat_map]. apply in_or_app. right. unfold cov_olds in J. apply in_flat_map in J as [g' [Ig' J]].
               apply in_flat_map. exists g'. split; [exact Ig'|]. destruct (touched old g'); [exact J | destruct J]. }
           tauto.
        -- intros y I J. apply (F y); [cbn [cov_news flat_map]; rewrite T; apply in_or_app; right; exact I | cbn [flat_map]; apply in_or_app; right; exact J].
    + destruct (IH _ _ H) as [S1 S2]. split.
      * intros g' [E|I] Tg; [subst g'; rewrite T in Tg; discriminate | apply S1; assumption].
      * intros F x. cbn [cov_olds cov_news flat_map]. rewrite T. cbn [app]. apply S2.
        intros y I J. apply (F y); [cbn [cov_news flat_map]; rewrite T; exact I | cbn [flat_map]; apply in_or_app; right; exact J].
Qed.

(* "an index covers a new fragment iff it covered all the old ones of its group" *)
Corollary bitmap_new_fragment old groups b' g f :
  recalculate_fragment_bitmap old old groups = Ok b' ->
  NoDup (flat_map new_ids32 groups) ->
  (forall x, In x (flat_map new_ids32 groups) -> ~ In x old /\ ~ In x (flat_map old_ids32 groups)) ->
  In g groups -> rg_old g <> [] -> In f (rg_new g) ->
  (In (wrap32 (fr_id f)) b' <-> covered old g = true).
Proof.
  intros H ND FR Ig NE If. destruct (bitmap_spec old groups old b' H) as [S1 S2].
  assert (INn : In (wrap32 (fr_id f)) (new_ids32 g)) by (unfold new_ids32; apply in_map_iff; exists f; split; [reflexivity | exact If]).
  assert (INa : In (wrap32 (fr_id f)) (flat_map new_ids32 groups)) by (apply in_flat_map; exists g; split; assumption).
  assert (F : forall x, In x (cov_news old groups) -> ~ In x (flat_map old_ids32 groups)).
  { intros x I. apply FR. unfold cov_news in I. apply in_flat_map in I as [g' [Ig' I]]. apply in_flat_map. exists g'. split; [exact Ig'|].
    destruct (touched old g'); [exact I | destruct I]. }
  rewrite (S2 F). split.
  - intros [[A _]|B]; [exfalso; exact (proj1 (FR _ INa) A)|].
    unfold cov_news in B. apply in_flat_map in B as [g' [Ig' B]]. destruct (touched old g') eqn:T; [|destruct B].
    (* the new ids of distinct groups are distinct: g' = g *)
    assert (g' = g).
    { clear - ND Ig Ig' B INn. induction groups as [|h r IHg]; [destruct Ig|]. cbn [flat_map] in ND.
      destruct Ig as [E1|I1], Ig' as [E2|I2]; subst.
      - reflexivity.
      - exfalso. eapply NoDup_app_disj; [exact ND | exact INn | apply in_flat_map; exists g'; split; assumption].
      - exfalso. eapply NoDup_app_disj; [exact ND | exact B | apply in_flat_map; exists g; split; assumption].
      - apply IHg; [eapply NoDup_app_r; exact ND | assumption | assumption]. }
    subst g'. apply S1; assumption.
  - intro C. right. unfold cov_news. apply in_flat_map. exists g. split; [exact Ig|].
    assert (T : touched old g = true).
    { unfold touched, covered in *. destruct (rg_old g) as [|i r]; [contradiction|]. cbn [forallb existsb] in *. apply andb_true_iff in C as [C _]. rewrite C. reflexivity. }
    rewrite T. exact INn.
Qed.

(* ================================================================ J. committing onto a later version *)
Lemma lookup_old_unchanged l1 l2 ids :
  (forall i, In i ids -> find_frag l1 i = find_frag l2 i) -> lookup_old l1 ids = lookup_old l2 ids.
Proof.
  intro H. unfold lookup_old. apply flat_map_ext_in_. intros i I. specialize (H i I). unfold find_frag in H. rewrite H. reflexivity.
Qed.
Lemma find_frag_In l i f : find_frag l i = Some f -> In i (frag_ids l).
Proof. unfold find_frag. intro H. apply find_id_some in H as [A B]. subst i. apply in_map. exact A. Qed.

Lemma group_ok_unchanged s l1 l2 g :
  (forall i, In i (rg_old g) -> is_some (find_frag l1 i) = true /\ find_frag l1 i = find_frag l2 i) ->
  group_ok s l1 g = true -> group_ok s l2 g = true.
Proof.
  intros H G. unfold group_ok in *. rewrite <- (lookup_old_unchanged l1 l2 (rg_old g)) by (intros i I; apply H; exact I).
  rewrite !andb_true_iff in *. destruct G as [[[[A B] C] D] E]. repeat split; try assumption.
  unfold n_incl. apply forallb_forall. intros i I. apply n_mem_In. destruct (H i I) as [S Eq]. rewrite Eq in S.
  destruct (find_frag l2 i) as [f|] eqn:F; [|discriminate]. eapply find_frag_In. exact F.
Qed.

Theorem tasks_commit_later m_read m_commit groups :
  tasks_ok m_read m_commit groups = true ->
  Known_C13_commit_ignores_task_read_version m_read m_commit groups = false ->
  groups_ok m_commit groups = true.
Proof.
  unfold tasks_ok, Known_C13_commit_ignores_task_read_version, groups_ok, olds_unchanged. rewrite !andb_true_iff, negb_false_iff.
  intros [[[[S G] N1] N2] F] U. apply Bool.eqb_prop in S. rewrite <- S. repeat split; try assumption.
  apply forallb_forall. intros g I. rewrite forallb_forall in G, U. eapply group_ok_unchanged; [|apply G; exact I].
  intros i Ii. specialize (U i). assert (Ia : In i (flat_map rg_old groups)) by (apply in_flat_map; exists g; split; assumption).
  specialize (U Ia). apply andb_true_iff in U as [U1 U2]. split; [exact U1|].
  apply (option_eqb_true fragment_eqb); [exact fragment_eqb_true | exact U2].
Qed.

Lemma cells_ok_unchanged V cell m_read m_commit groups g :
  olds_unchanged m_read m_commit groups = true -> In g groups ->
  cells_ok V cell (m_fragments m_read) g -> cells_ok V cell (m_fragments m_commit) g.
Proof.
  unfold olds_unchanged, cells_ok. intros U I C. rewrite forallb_forall in U.
  rewrite <- (lookup_old_unchanged (m_fragments m_read) (m_fragments m_commit) (rg_old g)); [exact C|].
  intros i Ii. assert (Ia : In i (flat_map rg_old groups)) by (apply in_flat_map; exists g; split; assumption).
  specialize (U i Ia). apply andb_true_iff in U as [_ U2]. apply (option_eqb_true fragment_eqb); [exact fragment_eqb_true | exact U2].
Qed.

(* ================================================================ K. remapped index answers; subsets of tasks *)
Section Answers.
Variable V : Type.
Variable cell : list DataFile -> N -> V.

Lemma table_arows_combine l : table_arows V cell l = combine (live_addrs l) (table_vrows V cell l).
Proof.
  unfold table_arows, live_addrs, Model_Compact.table_vrows. induction l as [|f r IH]; [reflexivity|]. cbn [flat_map].
  rewrite combine_app_eq, IH.
  - f_equal. unfold arows_of, live_addrs_of, Model_Compact.vrows_of. rewrite combine_map_same. reflexivity.
  - unfold live_addrs_of, Model_Compact.vrows_of. rewrite !map_length. reflexivity.
Qed.

Lemma remap_zip mp (P : vrow V -> bool) : forall (LA NA : list N) (R : list (vrow V)),
  length LA = length NA ->
  (forall a b, In (a, b) (combine LA NA) -> map_get mp a = Some (Some b)) ->
  remap_set mp (map fst (filter (fun ar => P (snd ar)) (combine LA R)))
  = map fst (filter (fun ar => P (snd ar)) (combine NA R)).
Proof.
  induction LA as [|a LA' IH]; intros [|b NA'] R L H; cbn [length] in L; try discriminate; [reflexivity|].
  destruct R as [|r R']; [reflexivity|]. cbn [combine filter snd].
  assert (IH' := IH NA' R' (eq_add_S _ _ L) (fun x y I => H x y (or_intror I))).
  destruct (P r); cbn [map fst]; [|exact IH'].
  unfold remap_set in *. cbn [flat_map]. unfold remap_addr at 1. rewrite (H a b (or_introl eq_refl)). cbn [app]. f_equal. exact IH'.
Qed.

(* for ANY set of rows (a predicate on what a row shows): remapping the old addresses of the rows in the set
   gives exactly the new addresses of the rows in the set *)
Theorem remap_answer olds news mp (P : vrow V -> bool) :
  remap_dom olds news = true -> task_remap olds news = Ok mp ->
  table_vrows V cell news = table_vrows V cell olds ->
  remap_set mp (map fst (filter (fun ar => P (snd ar)) (table_arows V cell olds)))
  = map fst (filter (fun ar => P (snd ar)) (table_arows V cell news)).
Proof.
  intros D T E. destruct (remap_bijection olds news D) as [mp' [T' [LEN [_ [_ [LIVE _]]]]]].
  rewrite T in T'. inversion T'; subst mp'. rewrite !table_arows_combine, E. apply remap_zip; assumption.
Qed.
End Answers.

(* any sub-selection, in any order, of tasks that are fine together is fine *)
Lemma NoDup_flat_map_disj {A B} (f : A -> list B) : forall l x z y,
  NoDup (flat_map f l) -> In x l -> In z l -> x <> z -> In y (f x) -> ~ In y (f z).
Proof.
  induction l as [|h r IH]; intros x z y ND Ix Iz NE Iy J; [destruct Ix|]. cbn [flat_map] in ND.
  destruct Ix as [Ex|Ix], Iz as [Ez|Iz]; subst.
  - contradiction.
  - eapply NoDup_app_disj; [exact ND | exact Iy | apply in_flat_map; exists z; split; assumption].
  - eapply NoDup_app_disj; [exact ND | exact J | apply in_flat_map; exists x; split; assumption].
  - eapply IH; [eapply NoDup_app_r; exact ND | exact Ix | exact Iz | exact NE | exact Iy | exact J].
Qed.
Lemma NoDup_flat_map_elem {A B} (f : A -> list B) : forall l x, NoDup (flat_map f l) -> In x l -> NoDup (f x).
Proof.
  induction l as [|h r IH]; intros x ND I; [destruct I|]. cbn [flat_map] in ND. destruct I as [E|I]; [subst; eapply NoDup_app_l; exact ND | apply IH; [eapply NoDup_app_r; exact ND | exact I]].
Qed.
Lemma NoDup_flat_map_sub {A B} (f : A -> list B) l : NoDup (flat_map f l) ->
  forall l', NoDup l' -> incl l' l -> NoDup (flat_map f l').
Proof.
  intros ND. induction l' as [|x r IH]; intros N' I; [constructor|]. inversion N'; subst. cbn [flat_map].
  apply NoDup_app_intro.
  - eapply NoDup_flat_map_elem; [exact ND | apply I; left; reflexivity].
  - apply IH; [assumption | intros y Iy; apply I; right; exact Iy].
  - intros y Iy J. apply in_flat_map in J as [z [Iz J]].
    eapply (NoDup_flat_map_disj f l x z y ND); [apply I; left; reflexivity | apply I; right; exact Iz | intro E; subst; contradiction | exact Iy | exact J].
Qed.

Lemma reserved_of_flat groups : reserved_of groups = flat_map (fun g => filter (fun i => negb (i =? 0)) (frag_ids (rg_new g))) groups.
Proof.
  unfold reserved_of, frag_ids. induction groups as [|g r IH]; [reflexivity|]. cbn [flat_map]. rewrite map_app, filter_app, IH. reflexivity.
Qed.

Theorem groups_ok_subset m tasks committed :
  groups_ok m tasks = true -> NoDup committed -> incl committed tasks -> groups_ok m committed = true.
Proof.
  unfold groups_ok. rewrite !andb_true_iff. intros [[[G1 G2] G3] G4] ND IN. rewrite forallb_forall in G1, G4.
  apply nodup_n_NoDup in G2, G3. rewrite reserved_of_flat in G3. repeat split.
  - apply forallb_forall. intros g I. apply G1. apply IN. exact I.
  - apply nodup_n_NoDup. eapply NoDup_flat_map_sub; eassumption.
  - apply nodup_n_NoDup. rewrite reserved_of_flat. eapply NoDup_flat_map_sub; eassumption.
  - apply forallb_forall. intros i I. apply G4. rewrite reserved_of_flat in *. apply in_flat_map in I as [g [Ig I]].
    apply in_flat_map. exists g. split; [apply IN; exact Ig | exact I].
Qed.
