(* Proofs about the MemWAL index state machine (C39): the per-version invariant, the step relation between
   consecutive versions, and their preservation by every commit accepted by the conflict check, outside the
   known-finding classes. *)
From LanceV Require Import Common.Base Table.Model_MemWal.
Local Open Scope N_scope.

(* ------------------------------------------------------------------ small reflections *)
Lemma id_eqb_eq (a b : mwid) : id_eqb a b = true <-> a = b.
Proof.
  unfold id_eqb. destruct a as [a1 a2], b as [b1 b2]; cbn [fst snd].
  rewrite andb_true_iff, !N.eqb_eq. split; [intros [-> ->]; reflexivity | intro H; inversion H; auto].
Qed.

Lemma id_eqb_refl (a : mwid) : id_eqb a a = true.
Proof. apply id_eqb_eq; reflexivity. Qed.

Lemma id_eqb_neq (a b : mwid) : id_eqb a b = false <-> a <> b.
Proof.
  split; intro H.
  - intro E. apply id_eqb_eq in E. congruence.
  - destruct (id_eqb a b) eqn:E; [apply id_eqb_eq in E; contradiction | reflexivity].
Qed.

Lemma id_mem_in (x : mwid) (l : list mwid) : id_mem x l = true <-> In x l.
Proof.
  unfold id_mem. rewrite existsb_exists. split.
  - intros [y [Hy E]]. apply id_eqb_eq in E. subst; exact Hy.
  - intro H. exists x. split; [exact H | apply id_eqb_refl].
Qed.

Lemma id_mem_not_in (x : mwid) (l : list mwid) : id_mem x l = false <-> ~ In x l.
Proof.
  rewrite <- id_mem_in. destruct (id_mem x l); split; intro H; try reflexivity; try congruence.
Qed.

Lemma wstate_eqb_eq (a b : wstate) : wstate_eqb a b = true <-> a = b.
Proof. destruct a, b; cbv; split; intro H; try reflexivity; discriminate. Qed.

Lemma wstate_le_refl s : wstate_le s s.
Proof. unfold wstate_le; lia. Qed.
Lemma wstate_le_trans a b c : wstate_le a b -> wstate_le b c -> wstate_le a c.
Proof. unfold wstate_le; lia. Qed.
Lemma wstate_le_open s : wstate_le s Open -> s = Open.
Proof. destruct s; unfold wstate_le; cbn; intro H; try reflexivity; lia. Qed.

Lemma in_ids (l : list memwal) (x : mwid) : In x (ids l) <-> exists m, In m l /\ mw_id m = x.
Proof.
  unfold ids. rewrite in_map_iff. split; intros [m [A B]]; exists m; auto.
Qed.

Lemma in_ids_of (l : list memwal) (m : memwal) : In m l -> In (mw_id m) (ids l).
Proof. intro H. apply in_ids. exists m; auto. Qed.

Lemma ids_app (a b : list memwal) : ids (a ++ b) = ids a ++ ids b.
Proof. apply map_app. Qed.

Lemma set_luv_id v m : mw_id (set_luv v m) = mw_id m.
Proof. reflexivity. Qed.
Lemma set_luv_state v m : mw_state (set_luv v m) = mw_state m.
Proof. reflexivity. Qed.
Lemma set_state_id m s : mw_id (set_state m s) = mw_id m.
Proof. reflexivity. Qed.
Lemma ids_map_set_luv v l : ids (map (set_luv v) l) = ids l.
Proof. unfold ids. rewrite map_map. apply map_ext. intro; reflexivity. Qed.

(* uniqueness of the entry with a given id *)
Lemma nodup_ids_inj (l : list memwal) (m m' : memwal) :
  NoDup (ids l) -> In m l -> In m' l -> mw_id m = mw_id m' -> m = m'.
Proof.
  induction l as [|a t IH]; intros Hnd Hm Hm' E; [destruct Hm|].
  cbn in Hnd. inversion Hnd as [|? ? Hna Hnt]; subst.
  destruct Hm as [->|Hm], Hm' as [->|Hm'].
  - reflexivity.
  - exfalso. apply Hna. rewrite E. apply in_ids_of; exact Hm'.
  - exfalso. apply Hna. rewrite <- E. apply in_ids_of; exact Hm.
  - apply IH; assumption.
Qed.

(* ------------------------------------------------------------------ maxgen / nextgen *)
Definition nextgen (l : list memwal) (r : N) : N :=
  match maxgen l r with Some g => g + 1 | None => 0 end.

Lemma maxgen_none (l : list memwal) (r : N) :
  maxgen l r = None <-> (forall m, In m l -> mw_region m <> r).
Proof.
  induction l as [|a t IH]; cbn [maxgen fold_right].
  - split; [intros _ m [] | reflexivity].
  - fold (maxgen t r). destruct (mw_region a =? r) eqn:E.
    + split.
      * intro H. destruct (maxgen t r); discriminate.
      * intro H. exfalso. apply (H a); [left; reflexivity | apply N.eqb_eq; exact E].
    + rewrite IH. apply N.eqb_neq in E. split.
      * intros H m [<-|Hm]; [exact E | apply H; exact Hm].
      * intros H m Hm. apply H. right; exact Hm.
Qed.

Lemma maxgen_some (l : list memwal) (r g : N) :
  maxgen l r = Some g ->
  (exists m, In m l /\ mw_region m = r /\ mw_gen m = g) /\
  (forall m, In m l -> mw_region m = r -> mw_gen m <= g).
Proof.
  revert g. induction l as [|a t IH]; intros g H; cbn [maxgen fold_right] in H; [discriminate|].
  fold (maxgen t r) in H. destruct (mw_region a =? r) eqn:E.
  - apply N.eqb_eq in E. destruct (maxgen t r) as [g'|] eqn:Et.
    + inversion H; subst g; clear H. destruct (IH g' eq_refl) as [[m [Hm [Hr Hg]]] Hmax]. split.
      * destruct (N.le_ge_cases g' (mw_gen a)) as [Hle|Hle].
        -- exists a. split; [left; reflexivity|]. split; [exact E | lia].
        -- exists m. split; [right; exact Hm|]. split; [exact Hr | lia].
      * intros m0 [<-|Hm0] Hr0; [lia|]. specialize (Hmax m0 Hm0 Hr0). lia.
    + inversion H; subst g; clear H. split.
      * exists a. split; [left; reflexivity | split; [exact E | reflexivity]].
      * intros m0 [<-|Hm0] Hr0; [lia|]. exfalso. apply (proj1 (maxgen_none t r) Et m0 Hm0 Hr0).
  - destruct (IH g H) as [[m [Hm [Hr Hg]]] Hmax]. split.
    + exists m. split; [right; exact Hm | auto].
    + intros m0 [<-|Hm0] Hr0; [apply N.eqb_neq in E; contradiction | apply Hmax; assumption].
Qed.

Lemma maxgen_of_in (l : list memwal) (m : memwal) :
  In m l -> exists g, maxgen l (mw_region m) = Some g /\ mw_gen m <= g.
Proof.
  intro Hm. destruct (maxgen l (mw_region m)) as [g|] eqn:E.
  - exists g. split; [reflexivity|]. apply (proj2 (maxgen_some _ _ _ E)); [exact Hm | reflexivity].
  - exfalso. apply (proj1 (maxgen_none _ _) E m Hm). reflexivity.
Qed.

(* the maximum is characterised by a witness that dominates *)
Lemma maxgen_char (l : list memwal) (r g : N) :
  (exists m, In m l /\ mw_region m = r /\ mw_gen m = g) ->
  (forall m, In m l -> mw_region m = r -> mw_gen m <= g) ->
  maxgen l r = Some g.
Proof.
  intros [m [Hm [Hr Hg]]] Hmax. subst r. destruct (maxgen_of_in l m Hm) as [g' [E Hle]].
  rewrite E. f_equal. destruct (maxgen_some _ _ _ E) as [[m' [Hm' [Hr' Hg']]] _].
  specialize (Hmax m' Hm' Hr'). lia.
Qed.

(* ------------------------------------------------------------------ per-version invariant *)
Definition present (l : list memwal) (x : mwid) : Prop := In x (ids l).

Record WF (l : list memwal) : Prop := {
  wf_nodup : NoDup (ids l);                                  (* each (region, generation) appears once *)
  wf_interval : forall r g1 g2 g,                             (* generations of a region are consecutive *)
      present l (r, g1) -> present l (r, g2) -> g1 <= g <= g2 -> present l (r, g);
  wf_open : forall m m',                                      (* only the latest generation may be open *)
      In m l -> In m' l -> mw_state m = Open -> mw_region m' = mw_region m -> mw_gen m' <= mw_gen m }.

Lemma WF_nil : WF [].
Proof. split; [constructor | intros r g1 g2 g [] | intros m m' []]. Qed.

(* relation between the details of two consecutive versions *)
Record Step (l l' : list memwal) : Prop := {
  st_mono : forall m m', In m l -> In m' l' -> mw_id m = mw_id m' -> wstate_le (mw_state m) (mw_state m');
  st_birth : forall m', In m' l' -> ~ present l (mw_id m') -> mw_gen m' = nextgen l (mw_region m');
  st_death : forall m, In m l -> ~ present l' (mw_id m) ->
      exists m2, In m2 l' /\ mw_region m2 = mw_region m /\ mw_gen m < mw_gen m2 }.

Lemma Step_refl (l : list memwal) : NoDup (ids l) -> Step l l.
Proof.
  intro Hnd. split.
  - intros m m' Hm Hm' E. rewrite (nodup_ids_inj l m m' Hnd Hm Hm' E). apply wstate_le_refl.
  - intros m' Hm' Hn. exfalso. apply Hn. apply in_ids_of; exact Hm'.
  - intros m Hm Hn. exfalso. apply Hn. apply in_ids_of; exact Hm.
Qed.

(* the latest generation of a region never gets smaller, and a region never becomes empty *)
Lemma step_maxgen_mono (l l' : list memwal) (r a : N) :
  Step l l' -> maxgen l r = Some a -> exists b, maxgen l' r = Some b /\ a <= b.
Proof.
  intros Hs Ha. destruct (maxgen_some _ _ _ Ha) as [[m [Hm [Hr Hg]]] _].
  destruct (in_dec (fun x y : mwid => ltac:(decide equality; apply N.eq_dec)) (mw_id m) (ids l')) as [Hin|Hnin].
  - apply in_ids in Hin. destruct Hin as [m' [Hm' E]].
    assert (Hr' : mw_region m' = r). { unfold mw_id in E. inversion E. congruence. }
    assert (Hg' : mw_gen m' = a). { unfold mw_id in E. inversion E. congruence. }
    destruct (maxgen_of_in l' m' Hm') as [b [Eb Hle]]. rewrite Hr' in Eb. exists b. split; [exact Eb | lia].
  - destruct (st_death _ _ Hs m Hm Hnin) as [m2 [Hm2 [Hr2 Hlt]]].
    destruct (maxgen_of_in l' m2 Hm2) as [b [Eb Hle]]. rewrite Hr2, Hr in Eb. exists b. split; [exact Eb | lia].
Qed.

(* the latest generation changes only by the birth of its successor *)
Lemma step_maxgen_cases (l l' : list memwal) (r : N) :
  Step l l' -> maxgen l' r = maxgen l r \/ present l' (r, nextgen l r).
Proof.
  intro Hs. destruct (maxgen l' r) as [b|] eqn:Eb.
  - destruct (maxgen_some _ _ _ Eb) as [[m' [Hm' [Hr' Hg']]] _].
    destruct (in_dec (fun x y : mwid => ltac:(decide equality; apply N.eq_dec)) (mw_id m') (ids l)) as [Hin|Hnin].
    + apply in_ids in Hin. destruct Hin as [m [Hm E]].
      destruct (maxgen_of_in l m Hm) as [a [Ea Hle]].
      assert (Hr : mw_region m = r). { unfold mw_id in E. inversion E. congruence. }
      assert (Hg : mw_gen m = b). { unfold mw_id in E. inversion E. congruence. }
      rewrite Hr in Ea. destruct (step_maxgen_mono l l' r a Hs Ea) as [b' [Eb' Hab]].
      rewrite Eb in Eb'. inversion Eb'; subst b'. left. rewrite Ea. f_equal. lia.
    + right. pose proof (st_birth _ _ Hs m' Hm' Hnin) as Hb. rewrite Hr' in Hb.
      unfold present. apply in_ids. exists m'. split; [exact Hm'|]. unfold mw_id. rewrite Hr', Hb. reflexivity.
  - destruct (maxgen l r) as [a|] eqn:Ea; [|left; reflexivity].
    destruct (step_maxgen_mono l l' r a Hs Ea) as [b [Eb' _]]. congruence.
Qed.

(* ------------------------------------------------------------------ the index view functions *)
Lemma lookup_some (l : list memwal) (x : mwid) (m : memwal) :
  lookup l x = Some m -> In m l /\ mw_id m = x.
Proof.
  unfold lookup. intro H. apply find_some in H. destruct H as [Hin E].
  split; [apply in_rev; exact Hin | apply id_eqb_eq; exact E].
Qed.

Lemma has_region_false (l : list memwal) (r : N) :
  has_region l r = false -> forall m, In m l -> mw_region m <> r.
Proof.
  unfold has_region. intros H m Hm E.
  assert (Ht : existsb (fun m0 => mw_region m0 =? r) l = true).
  { apply existsb_exists. exists m. split; [exact Hm | apply N.eqb_eq; exact E]. }
  congruence.
Qed.

Definition latest_step (r : N) (acc : option memwal) (m : memwal) : option memwal :=
  if mw_region m =? r then
    match acc with
    | None => Some m
    | Some a => if mw_gen a <=? mw_gen m then Some m else acc
    end
  else acc.

Lemma latest_fold (r : N) (l : list memwal) (acc : option memwal) :
  (forall a, acc = Some a -> mw_region a = r) ->
  forall lm, fold_left (latest_step r) l acc = Some lm ->
    mw_region lm = r /\ (In lm l \/ acc = Some lm) /\
    (forall m, In m l -> mw_region m = r -> mw_gen m <= mw_gen lm) /\
    (forall a, acc = Some a -> mw_gen a <= mw_gen lm).
Proof.
  revert acc. induction l as [|x t IH]; intros acc Hacc lm H; cbn [fold_left] in H.
  - subst acc. split; [apply Hacc; reflexivity|]. split; [right; reflexivity|].
    split; [intros m []|]. intros a Ea. inversion Ea; subst. lia.
  - unfold latest_step at 2 in H. destruct (mw_region x =? r) eqn:Ex.
    + apply N.eqb_eq in Ex. destruct acc as [a|].
      * destruct (mw_gen a <=? mw_gen x) eqn:Ele.
        -- apply N.leb_le in Ele.
           destruct (IH (Some x) ltac:(intros a0 Ea0; inversion Ea0; subst a0; exact Ex) lm H) as [Hr [Hin [Hmax Hge]]].
           split; [exact Hr|]. split.
           ++ destruct Hin as [Hin|Hin]; [left; right; exact Hin | inversion Hin; subst; left; left; reflexivity].
           ++ split.
              ** intros m [<-|Hm] Hrm; [apply Hge; reflexivity | apply Hmax; assumption].
              ** intros a0 Ea0. inversion Ea0; subst a0. specialize (Hge x eq_refl). lia.
        -- apply N.leb_gt in Ele.
           destruct (IH (Some a) Hacc lm H) as [Hr [Hin [Hmax Hge]]].
           split; [exact Hr|]. split.
           ++ destruct Hin as [Hin|Hin]; [left; right; exact Hin | right; exact Hin].
           ++ split.
              ** intros m [<-|Hm] Hrm; [specialize (Hge a eq_refl); lia | apply Hmax; assumption].
              ** exact Hge.
      * destruct (IH (Some x) ltac:(intros a0 Ea0; inversion Ea0; subst a0; exact Ex) lm H) as [Hr [Hin [Hmax Hge]]].
        split; [exact Hr|]. split.
        -- destruct Hin as [Hin|Hin]; [left; right; exact Hin | inversion Hin; subst; left; left; reflexivity].
        -- split.
           ++ intros m [<-|Hm] Hrm; [apply Hge; reflexivity | apply Hmax; assumption].
           ++ intros a0 Ea0; discriminate.
    + apply N.eqb_neq in Ex. destruct (IH acc Hacc lm H) as [Hr [Hin [Hmax Hge]]].
      split; [exact Hr|]. split.
      * destruct Hin as [Hin|Hin]; [left; right; exact Hin | right; exact Hin].
      * split; [|exact Hge]. intros m [<-|Hm] Hrm; [contradiction | apply Hmax; assumption].
Qed.

Lemma latest_some (l : list memwal) (r : N) (lm : memwal) :
  latest l r = Some lm ->
  In lm l /\ mw_region lm = r /\ (forall m, In m l -> mw_region m = r -> mw_gen m <= mw_gen lm).
Proof.
  unfold latest. intro H. change (fold_left (latest_step r) l None = Some lm) in H.
  destruct (latest_fold r l None ltac:(intros a Ea; discriminate) lm H) as [Hr [Hin [Hmax _]]].
  split; [destruct Hin as [Hin|Hin]; [exact Hin | discriminate]|]. split; assumption.
Qed.

(* ------------------------------------------------------------------ what an operation's transaction looks like *)
Inductive txn_spec (l : list memwal) : txn -> Prop :=
| ts_mutate m m' :
    In m l -> mw_id m' = mw_id m -> wstate_le (mw_state m) (mw_state m') ->
    txn_spec l (TUpd [] [m'] [m])
| ts_adv_open lm nw :
    In lm l -> (forall m, In m l -> mw_region m = mw_region lm -> mw_gen m <= mw_gen lm) ->
    mw_state lm = Open -> mw_id nw = (mw_region lm, mw_gen lm + 1) -> mw_state nw = Open ->
    txn_spec l (TUpd [nw] [set_state lm Sealed] [lm])
| ts_adv_closed lm nw :
    In lm l -> (forall m, In m l -> mw_region m = mw_region lm -> mw_gen m <= mw_gen lm) ->
    mw_state lm <> Open -> mw_id nw = (mw_region lm, mw_gen lm + 1) -> mw_state nw = Open ->
    txn_spec l (TUpd [nw] [] [])
| ts_create nw :
    (forall m, In m l -> mw_region m <> mw_region nw) -> mw_gen nw = 0 -> mw_state nw = Open ->
    txn_spec l (TUpd [nw] [] [])
| ts_trim r : txn_spec l (TUpd [] [] r)
| ts_merge m : In m l -> txn_spec l (TUpdate (Some m)).

Lemma mutate_spec (s : option (list memwal)) (r g : N) (f : memwal -> outcome memwal) (t : txn) :
  (forall m m', f m = Ok m' -> mw_id m' = mw_id m /\ wstate_le (mw_state m) (mw_state m')) ->
  mutate s r g f = Ok t -> txn_spec (ents s) t.
Proof.
  intros Hf H. unfold mutate in H. destruct s as [l|]; [|discriminate].
  destruct (has_region l r); [|discriminate].
  destruct (lookup l (r, g)) as [m|] eqn:El; [|discriminate].
  destruct (f m) as [m'| |] eqn:Ef; try discriminate. inversion H; subst t; clear H.
  destruct (lookup_some _ _ _ El) as [Hin _]. destruct (Hf m m' Ef) as [Hid Hle].
  apply ts_mutate; assumption.
Qed.

Lemma f_move_spec from to e m m' :
  wstate_le from to -> f_move from to e m = Ok m' -> mw_id m' = mw_id m /\ wstate_le (mw_state m) (mw_state m').
Proof.
  intros Hft H. unfold f_move in H.
  destruct (check_state m from) eqn:Ec; cbn [negb] in H; [|discriminate].
  destruct (check_owner m e); cbn [negb] in H; [|discriminate].
  inversion H; subst m'. split; [reflexivity|]. cbn [set_state mw_state].
  unfold check_state in Ec. apply wstate_eqb_eq in Ec. rewrite Ec. exact Hft.
Qed.

Lemma op_txn_spec (s : option (list memwal)) (o : op) (t : txn) :
  op_txn s o = Ok t -> txn_spec (ents s) t.
Proof.
  destruct o; cbn [op_txn]; intro H.
  - (* advance *)
    unfold advance in H. destruct s as [l|].
    + cbn [ents]. destruct (has_region l region) eqn:Ehr.
      * destruct (latest l region) as [lm|] eqn:El; [|discriminate].
        destruct (latest_some _ _ _ El) as [Hin [Hr Hmax]].
        destruct (mw_wal lm =? wal); [discriminate|].
        destruct expected as [e|]; [|discriminate].
        destruct (check_owner lm e); cbn [negb] in H; [|discriminate].
        destruct (mw_memtable lm =? mt); [discriminate|].
        destruct (two64 <=? mw_gen lm + 1); [discriminate|].
        destruct (wstate_eqb (mw_state lm) Open) eqn:Eo; cbn [fst snd] in H; inversion H; subst t; clear H.
        -- apply wstate_eqb_eq in Eo. apply ts_adv_open; try assumption.
           ++ intros m Hm Hrm. apply Hmax; [exact Hm | congruence].
           ++ unfold mw_id, new_empty; cbn. rewrite Hr. reflexivity.
           ++ reflexivity.
        -- apply ts_adv_closed with (lm := lm); try assumption.
           ++ intros m Hm Hrm. apply Hmax; [exact Hm | congruence].
           ++ intro Eo'. rewrite Eo' in Eo. discriminate.
           ++ unfold mw_id, new_empty; cbn. rewrite Hr. reflexivity.
           ++ reflexivity.
      * destruct expected; [discriminate|]. inversion H; subst t; clear H.
        apply ts_create; [|reflexivity|reflexivity].
        intros m Hm. cbn. apply (has_region_false l region Ehr m Hm).
    + destruct expected; [discriminate|]. inversion H; subst t; clear H.
      apply ts_create; [intros m []|reflexivity|reflexivity].
  - (* append *)
    apply (mutate_spec s region gen (f_append entry expected) t); [|exact H].
    intros m m' Hf. unfold f_append in Hf.
    destruct (check_state m Open); cbn [negb] in Hf; [|discriminate].
    destruct (check_owner m expected); cbn [negb] in Hf; [|discriminate].
    destruct (with_new_high (mw_entries m) entry); try discriminate.
    inversion Hf; subst m'. split; [reflexivity | apply wstate_le_refl].
  - apply (mutate_spec s region gen (f_move Open Sealed expected) t); [|exact H].
    intros m m' Hf. apply (f_move_spec Open Sealed expected m m'); [unfold wstate_le; cbn; lia | exact Hf].
  - apply (mutate_spec s region gen (f_move Sealed Flushed expected) t); [|exact H].
    intros m m' Hf. apply (f_move_spec Sealed Flushed expected m m'); [unfold wstate_le; cbn; lia | exact Hf].
  - apply (mutate_spec s region gen (f_move Flushed Merged expected) t); [|exact H].
    intros m m' Hf. apply (f_move_spec Flushed Merged expected m m'); [unfold wstate_le; cbn; lia | exact Hf].
  - (* owner *)
    apply (mutate_spec s region gen (f_owner owner mt) t); [|exact H].
    intros m m' Hf. unfold f_owner in Hf. destruct (owner =? mw_owner m); [discriminate|].
    destruct mt as [t0|].
    + destruct (t0 =? mw_memtable m); [discriminate|]. inversion Hf; subst m'.
      split; [reflexivity | apply wstate_le_refl].
    + inversion Hf; subst m'. split; [reflexivity | apply wstate_le_refl].
  - (* trim *)
    unfold trim in H. destruct s; [|discriminate]. inversion H; subst t. apply ts_trim.
  - (* merge insert *)
    unfold merge_insert in H. destruct s as [l|]; [|discriminate].
    destruct (has_region l region); [|discriminate].
    destruct (lookup l (region, gen)) as [m|] eqn:El; [|discriminate].
    destruct (check_state m Flushed); cbn [negb] in H; [|discriminate].
    destruct (check_owner m expected); cbn [negb] in H; [|discriminate].
    inversion H; subst t. apply ts_merge. apply (lookup_some _ _ _ El).
Qed.

(* what a transaction may touch at all: everything it adds, rewrites or removes *)
Definition wide (t : txn) : list mwid :=
  match t with
  | TUpd a u r => ids a ++ ids u ++ ids r
  | TUpdate (Some m) => [mw_id m]
  | _ => []
  end.

(* transactions built by the operations remove only what they rewrite, unless they are a trim *)
Definition shape (t : txn) : Prop :=
  match t with
  | TUpd a u r => (a = [] /\ u = []) \/ incl (ids r) (ids u)
  | _ => True
  end.

Lemma txn_spec_shape l t : txn_spec l t -> shape t.
Proof.
  intro H. destruct H; cbn [shape]; auto.
  - right. cbn. intros x [<-|[]]. left. assumption.
  - right. cbn. intros x [<-|[]]. left. reflexivity.
  - right. intros x [].
  - right. intros x [].
Qed.

(* the lists handed to update_mem_wal_index_in_indices_list *)
Definition eff (t : txn) : list memwal * list memwal * list memwal :=
  match t with
  | TUpd a u r => (a, u, r)
  | TUpdate (Some m) => ([], [set_state m Merged], [m])
  | _ => ([], [], [])
  end.

(* ------------------------------------------------------------------ apply *)
Lemma apply_lists_in (l : list memwal) nv a u r l' :
  apply_lists (Some l) nv a u r = Ok l' ->
  forall m, In m l' <-> (In m l /\ ~ In (mw_id m) (ids r)) \/ In m (map (set_luv nv) (a ++ u)).
Proof.
  cbn [apply_lists]. intro H. inversion H; subst l'; clear H. intro m.
  rewrite map_app, !in_app_iff, filter_In, negb_true_iff, id_mem_not_in. tauto.
Qed.

Lemma apply_lists_ids (l : list memwal) nv a u r l' :
  apply_lists (Some l) nv a u r = Ok l' ->
  ids l' = ids (filter (fun m => negb (id_mem (mw_id m) (ids r))) l) ++ ids a ++ ids u.
Proof.
  cbn [apply_lists]. intro H. inversion H; subst l'; clear H.
  rewrite !ids_app, !ids_map_set_luv. reflexivity.
Qed.

Lemma filter_ids_nodup (l : list memwal) (p : memwal -> bool) : NoDup (ids l) -> NoDup (ids (filter p l)).
Proof.
  induction l as [|a t IH]; cbn; intro H; [constructor|].
  inversion H as [|? ? Hna Hnt]; subst. destruct (p a); cbn.
  - constructor; [|apply IH; exact Hnt]. intro Hin. apply Hna.
    apply in_ids in Hin. destruct Hin as [m [Hm E]]. apply filter_In in Hm. apply in_ids. exists m; tauto.
  - apply IH; exact Hnt.
Qed.

Lemma filter_all (l : list memwal) (p : memwal -> bool) : (forall m, In m l -> p m = true) -> filter p l = l.
Proof.
  induction l as [|a t IH]; cbn; intro H; [reflexivity|].
  rewrite (H a (or_introl eq_refl)). f_equal. apply IH. intros m Hm. apply H. right; exact Hm.
Qed.

(* frame: entries whose id the transaction does not touch are unchanged *)
Lemma apply_txn_frame (s s' : option (list memwal)) nv t :
  apply_txn s nv t = Ok s' ->
  forall m, ~ In (mw_id m) (wide t) -> (In m (ents s') <-> In m (ents s)).
Proof.
  intros H m Hn.
  assert (Hgen : forall a u r l', apply_lists s nv a u r = Ok l' ->
            ~ In (mw_id m) (ids a ++ ids u ++ ids r) -> (In m l' <-> In m (ents s))).
  { intros a u r l' Ha Hni. rewrite !in_app_iff in Hni. destruct s as [l|].
    - rewrite (apply_lists_in l nv a u r l' Ha m). cbn [ents]. split.
      + intros [[Hin _]|Hin]; [exact Hin|]. exfalso. apply in_map_iff in Hin. destruct Hin as [m0 [E Hin0]].
        subst m. rewrite set_luv_id in Hni. apply in_app_iff in Hin0.
        destruct Hin0 as [Hin0|Hin0]; apply in_ids_of in Hin0; tauto.
      + intro Hin. left. split; [exact Hin | tauto].
    - cbn [apply_lists] in Ha. destruct (negb (isnil u) || negb (isnil r)); [discriminate|].
      inversion Ha; subst l'. cbn [ents]. split; [|intros []].
      intro Hin. apply in_map_iff in Hin. destruct Hin as [m0 [E Hin0]]. subst m.
      rewrite set_luv_id in Hni. apply in_ids_of in Hin0. tauto. }
  destruct t as [a u r|[m0|]|k]; cbn [apply_txn] in H.
  - destruct (apply_lists s nv a u r) as [l'| |] eqn:Ea; try discriminate. inversion H; subst s'.
    cbn [ents]. apply (Hgen a u r l' Ea). exact Hn.
  - destruct (apply_lists s nv [] [set_state m0 Merged] [m0]) as [l'| |] eqn:Ea; try discriminate.
    inversion H; subst s'. cbn [ents]. apply (Hgen _ _ _ l' Ea). cbn. cbn in Hn. tauto.
  - inversion H; subst s'. tauto.
  - inversion H; subst s'. tauto.
Qed.

(* ------------------------------------------------------------------ the conflict check *)
Lemma nms_ok_disjoint (c tc : list memwal) :
  not_modify_same c tc = VOk -> forall x, In x (ids c) -> In x (ids tc) -> False.
Proof.
  unfold not_modify_same. destruct c as [|c0 ct]; [intros _ x []|].
  destruct tc as [|t0 trest]; [intros _ x _ []|].
  destruct ct; cbn [isnil negb]; [|discriminate].
  destruct trest; cbn [isnil negb]; [|discriminate].
  destruct (id_eqb (mw_id c0) (mw_id t0)) eqn:E; [discriminate|]. intros _ x Hc Ht.
  cbn in Hc, Ht. destruct Hc as [<-|[]]. destruct Ht as [Ht|[]]. apply id_eqb_neq in E. congruence.
Qed.

Lemma vseq_ok a b : vseq a b = VOk -> a = VOk /\ b = VOk.
Proof. destruct a; cbn; intro H; try discriminate. auto. Qed.

(* an accepted transaction writes nothing that a non-trim UpdateMemWalState committed since wrote *)
Lemma check_ok_disjoint (t : txn) (ca cu cr : list memwal) :
  check_txn t (TUpd ca cu cr) = VOk ->
  forall x, In x (touch t) -> ~ In x (ids ca ++ ids cu).
Proof.
  intros H x Hx Hc. destruct t as [a u r|[m|]|k]; cbn [touch] in Hx; try (destruct Hx; fail).
  - cbn [check_txn check_update_mem_wal_state_txn] in H.
    assert (Hcn : isnil ca && isnil cu = false).
    { destruct ca, cu; cbn in Hc |- *; try reflexivity. destruct Hc. }
    assert (Hn : isnil a && isnil u = false).
    { destruct a, u; cbn in Hx |- *; try reflexivity. destruct Hx. }
    rewrite Hcn, Hn in H. cbn [orb] in H.
    apply vseq_ok in H. destruct H as [H1 H]. apply vseq_ok in H. destruct H as [H2 H].
    apply vseq_ok in H. destruct H as [H3 H4].
    apply in_app_iff in Hx. apply in_app_iff in Hc.
    destruct Hc as [Hc|Hc], Hx as [Hx|Hx].
    + exact (nms_ok_disjoint _ _ H1 x Hc Hx).
    + exact (nms_ok_disjoint _ _ H2 x Hc Hx).
    + exact (nms_ok_disjoint _ _ H3 x Hc Hx).
    + exact (nms_ok_disjoint _ _ H4 x Hc Hx).
  - cbn [check_txn check_update_txn_nofrag opt_slice] in H.
    apply vseq_ok in H. destruct H as [H1 H2]. apply in_app_iff in Hc.
    destruct Hc as [Hc|Hc]; [exact (nms_ok_disjoint _ _ H1 x Hc Hx) | exact (nms_ok_disjoint _ _ H2 x Hc Hx)].
Qed.

Lemma first_conflict_ok (t : txn) (others : list txn) :
  first_conflict t others = VOk <-> forall o, In o others -> check_txn t o = VOk.
Proof.
  induction others as [|o rest IH]; cbn [first_conflict].
  - split; [intros _ o [] | reflexivity].
  - split.
    + intro H. apply vseq_ok in H. destruct H as [H1 H2]. intros o' [<-|Ho]; [exact H1 | apply IH; assumption].
    + intro H. rewrite (H o (or_introl eq_refl)). cbn. apply IH. intros o' Ho. apply H. right; exact Ho.
Qed.

(* ------------------------------------------------------------------ one commit: the five shapes *)
Definition id_dec : forall x y : mwid, {x = y} + {x <> y}.
Proof. decide equality; apply N.eq_dec. Defined.

Lemma present_iff (l : list memwal) (x : mwid) : present l x <-> exists m, In m l /\ mw_id m = x.
Proof. apply in_ids. Qed.

(* rewriting one entry in place (append / seal / flush / merged / owner / merge_insert) *)
Lemma pres_mutate (cur l' : list memwal) (m m' : memwal) :
  WF cur -> In m cur -> mw_id m' = mw_id m -> wstate_le (mw_state m) (mw_state m') ->
  NoDup (ids l') ->
  (forall x, In x l' <-> (In x cur /\ mw_id x <> mw_id m) \/ x = m') ->
  WF l' /\ Step cur l'.
Proof.
  intros Hwf Hm Hid Hle Hnd Hin.
  assert (Hpres : forall x, present l' x <-> present cur x).
  { intro x. rewrite !present_iff. split.
    - intros [y [Hy E]]. apply Hin in Hy. destruct Hy as [[Hy _]| ->].
      + exists y; auto.
      + exists m. split; [exact Hm | congruence].
    - intros [y [Hy E]]. destruct (id_dec (mw_id y) (mw_id m)) as [Ey|Ey].
      + exists m'. split; [apply Hin; right; reflexivity | congruence].
      + exists y. split; [apply Hin; left; auto | exact E]. }
  (* every entry of l' has a counterpart in cur with the same id, open if it is open *)
  assert (Hback : forall y, In y l' -> exists y0, In y0 cur /\ mw_id y0 = mw_id y /\ (mw_state y = Open -> mw_state y0 = Open)).
  { intros y Hy. apply Hin in Hy. destruct Hy as [[Hy _]| ->].
    - exists y; auto.
    - exists m. split; [exact Hm|]. split; [symmetry; exact Hid|].
      intro Eo. rewrite Eo in Hle. apply wstate_le_open; exact Hle. }
  split.
  - split.
    + exact Hnd.
    + intros r g1 g2 g H1 H2 Hg. apply Hpres. apply (wf_interval _ Hwf r g1 g2 g); [apply Hpres; exact H1 | apply Hpres; exact H2 | exact Hg].
    + intros y y' Hy Hy' Eo Er.
      destruct (Hback y Hy) as [y0 [Hy0 [Ey0 Ho0]]]. destruct (Hback y' Hy') as [y0' [Hy0' [Ey0' _]]].
      unfold mw_id in Ey0, Ey0'. inversion Ey0. inversion Ey0'.
      assert (Hgoal : mw_gen y0' <= mw_gen y0).
      { apply (wf_open _ Hwf y0 y0' Hy0 Hy0' (Ho0 Eo)). congruence. }
      lia.
  - split.
    + intros y y' Hy Hy' E. apply Hin in Hy'. destruct Hy' as [[Hy' Hne]| ->].
      * rewrite (nodup_ids_inj cur y y' (wf_nodup _ Hwf) Hy Hy' E). apply wstate_le_refl.
      * assert (y = m). { apply (nodup_ids_inj cur y m (wf_nodup _ Hwf) Hy Hm). congruence. }
        subst y. exact Hle.
    + intros y Hy Hn. exfalso. apply Hn. apply Hpres. apply in_ids_of; exact Hy.
    + intros y Hy Hn. exfalso. apply Hn. apply Hpres. apply in_ids_of; exact Hy.
Qed.

(* adding the successor generation on top of a region (advance), possibly sealing the old latest *)
Lemma pres_add_top (cur l' : list memwal) (R G : N) (nw : memwal) (seal : option (memwal * memwal)) :
  WF cur -> maxgen cur R = Some G -> mw_id nw = (R, G + 1) -> mw_state nw = Open ->
  match seal with
  | None => forall m, In m cur -> mw_region m = R -> mw_state m <> Open
  | Some (lm, lm') => In lm cur /\ mw_id lm = (R, G) /\ mw_id lm' = (R, G) /\ mw_state lm' <> Open /\
                      wstate_le (mw_state lm) (mw_state lm')
  end ->
  NoDup (ids l') ->
  (forall x, In x l' <->
     (In x cur /\ match seal with None => True | Some (lm, _) => mw_id x <> mw_id lm end) \/ x = nw \/
     match seal with None => False | Some (_, lm') => x = lm' end) ->
  WF l' /\ Step cur l'.
Proof.
  intros Hwf Hmax Hidn Hon Hseal Hnd Hin.
  destruct (maxgen_some _ _ _ Hmax) as [[mx [Hmx [Hrx Hgx]]] Hle].
  assert (Hnew_absent : ~ present cur (R, G + 1)).
  { intro Hp. apply present_iff in Hp. destruct Hp as [y [Hy E]]. unfold mw_id in E. inversion E.
    specialize (Hle y Hy H0). lia. }
  assert (Hpres : forall x, present l' x <-> present cur x \/ x = (R, G + 1)).
  { intro x. rewrite !present_iff. split.
    - intros [y [Hy E]]. apply Hin in Hy. destruct Hy as [[Hy _]|[->| Hy]].
      + left. exists y; auto.
      + right. congruence.
      + destruct seal as [[lm lm']|]; [|destruct Hy]. subst y. destruct Hseal as [Hlm [Elm [Elm' _]]].
        left. exists lm. split; [exact Hlm | congruence].
    - intros [[y [Hy E]]| ->].
      + destruct seal as [[lm lm']|].
        * destruct Hseal as [Hlm [Elm [Elm' _]]]. destruct (id_dec (mw_id y) (mw_id lm)) as [Ey|Ey].
          -- exists lm'. split; [apply Hin; right; right; reflexivity | congruence].
          -- exists y. split; [apply Hin; left; auto | exact E].
        * exists y. split; [apply Hin; left; auto | exact E].
      + exists nw. split; [apply Hin; right; left; reflexivity | exact Hidn]. }
  (* open entries of l' other than nw do not live in region R *)
  assert (Hopen : forall y, In y l' -> mw_state y = Open -> y = nw \/ (In y cur /\ mw_region y <> R)).
  { intros y Hy Eo. apply Hin in Hy. destruct Hy as [[Hy Hne]|[->|Hy]].
    - right. split; [exact Hy|]. intro Er. destruct seal as [[lm lm']|].
      + destruct Hseal as [Hlm [Elm _]].
        assert (Hgy : mw_gen y <= G) by (apply Hle; assumption).
        assert (Hgl : mw_gen lm <= mw_gen y).
        { apply (wf_open _ Hwf y lm Hy Hlm Eo). unfold mw_id in Elm. inversion Elm. congruence. }
        apply Hne. unfold mw_id in Elm |- *. inversion Elm. f_equal; [congruence | lia].
      + exact (Hseal y Hy Er Eo).
    - left; reflexivity.
    - destruct seal as [[lm lm']|]; [|destruct Hy]. subst y. destruct Hseal as [_ [_ [_ [Hno _]]]]. contradiction. }
  assert (Hreg_gen : forall y, In y l' -> mw_region y = R -> mw_gen y <= G + 1).
  { intros y Hy Er. apply Hin in Hy. destruct Hy as [[Hy _]|[->|Hy]].
    - specialize (Hle y Hy Er). lia.
    - unfold mw_id in Hidn. inversion Hidn. lia.
    - destruct seal as [[lm lm']|]; [|destruct Hy]. subst y. destruct Hseal as [_ [_ [Elm' _]]].
      unfold mw_id in Elm'. inversion Elm'. lia. }
  split.
  - split.
    + exact Hnd.
    + intros r g1 g2 g H1 H2 Hg. apply Hpres. apply Hpres in H1. apply Hpres in H2.
      destruct H2 as [H2|H2].
      * destruct H1 as [H1|H1].
        -- left. apply (wf_interval _ Hwf r g1 g2 g H1 H2 Hg).
        -- inversion H1; subst r g1. apply present_iff in H2. destruct H2 as [y [Hy E]]. unfold mw_id in E. inversion E.
           specialize (Hle y Hy H0). assert (g = G + 1) by lia. subst g. right; reflexivity.
      * inversion H2; subst r g2. destruct (N.eq_dec g (G + 1)) as [->|Hne]; [right; reflexivity|].
        destruct H1 as [H1|H1]; [|inversion H1; lia].
        left. apply (wf_interval _ Hwf R g1 G g H1); [|lia].
        apply present_iff. exists mx. split; [exact Hmx|]. unfold mw_id. congruence.
    + intros y y' Hy Hy' Eo Er. destruct (Hopen y Hy Eo) as [->|[Hyc Hnr]].
      * unfold mw_id in Hidn. inversion Hidn. rewrite H1. apply Hreg_gen; [exact Hy' | congruence].
      * (* y in another region: y' is an old entry too *)
        apply Hin in Hy'. destruct Hy' as [[Hy' _]|[->|Hy']].
        -- apply (wf_open _ Hwf y y' Hyc Hy' Eo Er).
        -- exfalso. apply Hnr. unfold mw_id in Hidn. inversion Hidn. congruence.
        -- destruct seal as [[lm lm']|]; [|destruct Hy']. subst y'. destruct Hseal as [_ [_ [Elm' _]]].
           exfalso. apply Hnr. unfold mw_id in Elm'. inversion Elm'. congruence.
  - split.
    + intros y y' Hy Hy' E. apply Hin in Hy'. destruct Hy' as [[Hy' _]|[->|Hy']].
      * rewrite (nodup_ids_inj cur y y' (wf_nodup _ Hwf) Hy Hy' E). apply wstate_le_refl.
      * exfalso. apply Hnew_absent. apply present_iff. exists y. split; [exact Hy | congruence].
      * destruct seal as [[lm lm']|]; [|destruct Hy']. subst y'. destruct Hseal as [Hlm [Elm [Elm' [_ Hsl]]]].
        assert (y = lm). { apply (nodup_ids_inj cur y lm (wf_nodup _ Hwf) Hy Hlm). congruence. }
        subst y. exact Hsl.
    + intros y Hy Hn. apply Hin in Hy. destruct Hy as [[Hy _]|[->|Hy]].
      * exfalso. apply Hn. apply in_ids_of; exact Hy.
      * unfold nextgen. unfold mw_id in Hidn. injection Hidn as Hrn Hgn. rewrite Hrn, Hmax. exact Hgn.
      * destruct seal as [[lm lm']|]; [|destruct Hy]. subst y. destruct Hseal as [Hlm [Elm [Elm' _]]].
        exfalso. apply Hn. apply present_iff. exists lm. split; [exact Hlm | congruence].
    + intros y Hy Hn. exfalso. apply Hn. apply Hpres. left. apply in_ids_of; exact Hy.
Qed.

(* the first generation of a region that has none *)
Lemma pres_create (cur l' : list memwal) (nw : memwal) :
  WF cur -> (forall m, In m cur -> mw_region m <> mw_region nw) -> mw_gen nw = 0 -> mw_state nw = Open ->
  NoDup (ids l') -> (forall x, In x l' <-> In x cur \/ x = nw) ->
  WF l' /\ Step cur l'.
Proof.
  intros Hwf Habs Hg Ho Hnd Hin.
  assert (Hpres : forall x, present l' x <-> present cur x \/ x = mw_id nw).
  { intro x. rewrite !present_iff. split.
    - intros [y [Hy E]]. apply Hin in Hy. destruct Hy as [Hy| ->]; [left; exists y; auto | right; congruence].
    - intros [[y [Hy E]]| ->]; [exists y; split; [apply Hin; left; exact Hy | exact E] | exists nw; split; [apply Hin; right; reflexivity | reflexivity]]. }
  assert (Hnp : forall g, ~ present cur (mw_region nw, g)).
  { intros g Hp. apply present_iff in Hp. destruct Hp as [y [Hy E]]. unfold mw_id in E. inversion E. apply (Habs y Hy); assumption. }
  split.
  - split.
    + exact Hnd.
    + intros r g1 g2 g H1 H2 Hgg. apply Hpres. apply Hpres in H1. apply Hpres in H2.
      destruct H1 as [H1|H1], H2 as [H2|H2].
      * left. apply (wf_interval _ Hwf r g1 g2 g H1 H2 Hgg).
      * unfold mw_id in H2. inversion H2; subst. exfalso. apply (Hnp g1). exact H1.
      * unfold mw_id in H1. inversion H1; subst. exfalso. apply (Hnp g2). exact H2.
      * unfold mw_id in H1, H2. inversion H1; inversion H2; subst. right. unfold mw_id. f_equal. lia.
    + intros y y' Hy Hy' Eo Er. apply Hin in Hy. apply Hin in Hy'. destruct Hy as [Hy| ->], Hy' as [Hy'| ->].
      * apply (wf_open _ Hwf y y' Hy Hy' Eo Er).
      * exfalso. apply (Habs y Hy). congruence.
      * exfalso. apply (Habs y' Hy'). exact Er.
      * lia.
  - split.
    + intros y y' Hy Hy' E. apply Hin in Hy'. destruct Hy' as [Hy'| ->].
      * rewrite (nodup_ids_inj cur y y' (wf_nodup _ Hwf) Hy Hy' E). apply wstate_le_refl.
      * exfalso. apply (Habs y Hy). unfold mw_id in E. inversion E. reflexivity.
    + intros y Hy Hn. apply Hin in Hy. destruct Hy as [Hy| ->].
      * exfalso. apply Hn. apply in_ids_of; exact Hy.
      * unfold nextgen. rewrite (proj2 (maxgen_none cur (mw_region nw)) Habs). exact Hg.
    + intros y Hy Hn. exfalso. apply Hn. apply Hpres. left. apply in_ids_of; exact Hy.
Qed.

(* removing a proper lower part of each region (trim outside the two trim classes) *)
Lemma pres_trim (cur l' : list memwal) (r : list memwal) :
  WF cur -> ev_trim_latest cur (TUpd [] [] r) = false -> ev_trim_hole cur (TUpd [] [] r) = false ->
  NoDup (ids l') -> (forall x, In x l' <-> In x cur /\ ~ In (mw_id x) (ids r)) ->
  WF l' /\ Step cur l'.
Proof.
  intros Hwf Hlat Hhole Hnd Hin. cbn [ev_trim_latest ev_trim_hole] in Hlat, Hhole.
  assert (Hlat' : forall m, In m cur -> In (mw_id m) (ids r) -> maxgen cur (mw_region m) <> Some (mw_gen m)).
  { intros m Hm Hr E. assert (Ht : existsb (fun m0 => id_mem (mw_id m0) (ids r) &&
       match maxgen cur (mw_region m0) with Some g => mw_gen m0 =? g | None => false end) cur = true).
    { apply existsb_exists. exists m. split; [exact Hm|]. rewrite (proj2 (id_mem_in _ _) Hr), E. apply N.eqb_refl. }
    congruence. }
  assert (Hhole' : forall m m2, In m cur -> In (mw_id m) (ids r) -> In m2 cur -> mw_region m2 = mw_region m ->
                                mw_gen m2 < mw_gen m -> In (mw_id m2) (ids r)).
  { intros m m2 Hm Hr Hm2 Er Hlt. destruct (id_mem (mw_id m2) (ids r)) eqn:E2; [apply id_mem_in; exact E2|].
    exfalso. assert (Ht : existsb (fun m0 => id_mem (mw_id m0) (ids r) &&
       existsb (fun m3 => (mw_region m3 =? mw_region m0) && (mw_gen m3 <? mw_gen m0) && negb (id_mem (mw_id m3) (ids r))) cur) cur = true).
    { apply existsb_exists. exists m. split; [exact Hm|]. rewrite (proj2 (id_mem_in _ _) Hr). cbn [andb].
      apply existsb_exists. exists m2. split; [exact Hm2|].
      rewrite (proj2 (N.eqb_eq _ _) Er), (proj2 (N.ltb_lt _ _) Hlt), E2. reflexivity. }
    congruence. }
  split.
  - split.
    + exact Hnd.
    + intros rg g1 g2 g H1 H2 Hg.
      apply present_iff in H1. destruct H1 as [y1 [Hy1 E1]]. apply present_iff in H2. destruct H2 as [y2 [Hy2 E2]].
      apply Hin in Hy1. apply Hin in Hy2. destruct Hy1 as [Hy1 Hn1], Hy2 as [Hy2 Hn2].
      assert (Hp : present cur (rg, g)).
      { apply (wf_interval _ Hwf rg g1 g2 g); [apply present_iff; exists y1; auto | apply present_iff; exists y2; auto | exact Hg]. }
      apply present_iff in Hp. destruct Hp as [y [Hy E]]. apply present_iff. exists y. split; [|exact E].
      apply Hin. split; [exact Hy|]. intro Hr.
      unfold mw_id in E, E1. inversion E. inversion E1.
      destruct (N.eq_dec g1 g) as [Eg|Ng].
      * apply Hn1. replace (mw_id y1) with (mw_id y); [exact Hr|]. unfold mw_id. congruence.
      * apply Hn1. apply (Hhole' y y1 Hy Hr Hy1); [congruence | lia].
    + intros y y' Hy Hy' Eo Er. apply Hin in Hy. apply Hin in Hy'. apply (wf_open _ Hwf y y'); tauto.
  - split.
    + intros y y' Hy Hy' E. apply Hin in Hy'. destruct Hy' as [Hy' _].
      rewrite (nodup_ids_inj cur y y' (wf_nodup _ Hwf) Hy Hy' E). apply wstate_le_refl.
    + intros y Hy Hn. exfalso. apply Hn. apply Hin in Hy. apply in_ids_of. tauto.
    + intros y Hy Hn.
      assert (Hr : In (mw_id y) (ids r)).
      { destruct (id_mem (mw_id y) (ids r)) eqn:E; [apply id_mem_in; exact E|]. exfalso. apply Hn.
        apply in_ids_of. apply Hin. split; [exact Hy | apply id_mem_not_in; exact E]. }
      destruct (maxgen_of_in cur y Hy) as [G [EG HleG]].
      destruct (maxgen_some _ _ _ EG) as [[mx [Hmx [Hrx Hgx]]] _].
      exists mx. split; [|split; [exact Hrx|]].
      * apply Hin. split; [exact Hmx|]. intro Hrm. apply (Hlat' mx Hmx Hrm). rewrite Hrx, Hgx. exact EG.
      * assert (mw_gen y <> G). { intro Eg. apply (Hlat' y Hy Hr). rewrite EG, Eg. reflexivity. }
        lia.
Qed.

(* ------------------------------------------------------------------ histories *)
Definition dflt : hentry := MkEntry 0 (TOther KAppend) None.
Definition hst (h : list hentry) (j : nat) : list memwal := ents (e_state (nth j h dflt)).
Definition htx (h : list hentry) (j : nat) : txn := e_txn (nth j h dflt).
Definition hrv (h : list hentry) (j : nat) : nat := e_rv (nth j h dflt).

Record HInv (h : list hentry) : Prop := {
  hi_wf : forall j, (j < length h)%nat -> WF (hst h j);
  hi_step : forall j, (S j < length h)%nat -> Step (hst h j) (hst h (S j));
  hi_frame : forall j, (S j < length h)%nat -> forall m, ~ In (mw_id m) (wide (htx h (S j))) ->
      (In m (hst h (S j)) <-> In m (hst h j));
  hi_shape : forall j, (j < length h)%nat -> shape (htx h j) }.

Lemma nth_snoc_old (h : list hentry) (e : hentry) (j : nat) :
  (j < length h)%nat -> nth j (h ++ [e]) dflt = nth j h dflt.
Proof. intro H. apply app_nth1; exact H. Qed.

Lemma nth_snoc_new (h : list hentry) (e : hentry) : nth (length h) (h ++ [e]) dflt = e.
Proof. rewrite app_nth2 by lia. rewrite Nat.sub_diag. reflexivity. Qed.

Lemma cur_state_last (h : list hentry) : h <> [] -> cur_state h = e_state (nth (length h - 1) h dflt).
Proof.
  intro Hne. destruct (exists_last Hne) as [h0 [e ->]]. unfold cur_state. rewrite rev_unit.
  rewrite app_length. cbn [length]. replace (length h0 + 1 - 1)%nat with (length h0) by lia.
  rewrite nth_snoc_new. reflexivity.
Qed.

Lemma in_skipn_nth {A} (d : A) : forall k (l : list A) i, (k <= i < length l)%nat -> In (nth i l d) (skipn k l).
Proof.
  induction k as [|k IH]; intros l i H; cbn [skipn].
  - apply nth_In; lia.
  - destruct l as [|a t]; cbn [length] in H; [lia|]. destruct i as [|i]; [lia|]. cbn [nth]. apply IH. lia.
Qed.

Lemma existsb_false_in {A} (f : A -> bool) (l : list A) : existsb f l = false -> forall x, In x l -> f x = false.
Proof.
  intros H x Hx. destruct (f x) eqn:E; [|reflexivity].
  assert (existsb f l = true) by (apply existsb_exists; exists x; auto). congruence.
Qed.

(* an accepted transaction, outside the three stale-overlap classes, touches nothing that any transaction
   committed since its read version touched *)
Lemma not_in_wide_since (h : list hentry) (rv : nat) (t : txn) :
  HInv h ->
  (forall i, (rv < i < length h)%nat -> check_txn t (htx h i) = VOk) ->
  ev KOverTrim h rv t = false -> ev KOverMergeInsert h rv t = false -> ev KDoubleMergeInsert h rv t = false ->
  forall x, In x (touch t) -> forall i, (rv < i < length h)%nat -> ~ In x (wide (htx h i)).
Proof.
  intros Hinv Hchk Ht Hm Hd x Hx i Hi.
  cbn [ev] in Ht, Hm, Hd. unfold ev_over_trim in Ht. unfold since in *.
  assert (Hin : In (nth i h dflt) (skipn (S rv) h)) by (apply in_skipn_nth; lia).
  pose proof (hi_shape h Hinv i ltac:(lia)) as Hsh. specialize (Hchk i Hi).
  unfold htx in *. destruct (e_txn (nth i h dflt)) as [ca cu cr|[m0|]|k] eqn:Et; cbn [wide].
  - cbn [shape] in Hsh. destruct Hsh as [[-> ->]|Hincl].
    + cbn [ids map app]. intro Hr. pose proof (existsb_false_in _ _ Ht _ Hin) as Hf. cbn beta in Hf. rewrite Et in Hf.
      unfold overlaps in Hf. pose proof (existsb_false_in _ _ Hf x Hr) as Hf2. cbn beta in Hf2.
      apply id_mem_not_in in Hf2. contradiction.
    + intro Hw. apply (check_ok_disjoint t ca cu cr Hchk x Hx).
      apply in_app_iff in Hw. apply in_app_iff. destruct Hw as [Hw|Hw]; [left; exact Hw|].
      apply in_app_iff in Hw. destruct Hw as [Hw|Hw]; [right; exact Hw | right; apply Hincl; exact Hw].
  - intros [E|[]]. destruct t as [a u r|[m'|]|k']; cbn [touch] in Hx; try (destruct Hx; fail).
    + unfold ev_over_merge_insert in Hm. pose proof (existsb_false_in _ _ Hm _ Hin) as Hf. cbn beta in Hf. rewrite Et in Hf.
      cbn [touch] in Hf. apply id_mem_not_in in Hf. apply Hf. rewrite E. exact Hx.
    + unfold ev_double_merge_insert in Hd. pose proof (existsb_false_in _ _ Hd _ Hin) as Hf. cbn beta in Hf. rewrite Et in Hf.
      apply id_eqb_neq in Hf. destruct Hx as [Hx|[]]. congruence.
  - intros [].
  - intros [].
Qed.

Lemma unchanged_since_read (h : list hentry) (rv : nat) (t : txn) :
  HInv h ->
  (forall i, (rv < i < length h)%nat -> check_txn t (htx h i) = VOk) ->
  ev KOverTrim h rv t = false -> ev KOverMergeInsert h rv t = false -> ev KDoubleMergeInsert h rv t = false ->
  forall m, In (mw_id m) (touch t) -> forall d, (rv + d < length h)%nat -> (In m (hst h (rv + d)) <-> In m (hst h rv)).
Proof.
  intros Hinv Hchk Ht Hm Hd m Hx d. induction d as [|d IH]; intro Hlt.
  - rewrite Nat.add_0_r. tauto.
  - replace (rv + S d)%nat with (S (rv + d)) by lia.
    rewrite (hi_frame h Hinv (rv + d) ltac:(lia) m).
    + apply IH. lia.
    + apply (not_in_wide_since h rv t Hinv Hchk Ht Hm Hd (mw_id m) Hx). lia.
Qed.

(* while the successor generation (R, G+1) stays absent, the latest generation of R stays (R, G), present, and
   its state only moves forward *)
Lemma chain_latest (h : list hentry) (rv : nat) (R G : N) (lm : memwal) :
  HInv h -> In lm (hst h rv) -> mw_id lm = (R, G) -> maxgen (hst h rv) R = Some G ->
  forall d, (rv + d < length h)%nat ->
    (forall d', (d' <= d)%nat -> ~ present (hst h (rv + d')) (R, G + 1)) ->
    maxgen (hst h (rv + d)) R = Some G /\
    exists mj, In mj (hst h (rv + d)) /\ mw_id mj = (R, G) /\ wstate_le (mw_state lm) (mw_state mj).
Proof.
  intros Hinv Hlm Hid Hmax d. induction d as [|d IH]; intros Hlt Habs.
  - rewrite Nat.add_0_r. split; [exact Hmax|]. exists lm. split; [exact Hlm|]. split; [exact Hid | apply wstate_le_refl].
  - destruct (IH ltac:(lia) ltac:(intros d' Hd'; apply Habs; lia)) as [Hmaxd [mj [Hmj [Eidj Hlej]]]].
    replace (rv + S d)%nat with (S (rv + d)) in * by lia.
    pose proof (hi_step h Hinv (rv + d) ltac:(lia)) as Hs.
    assert (Hmax' : maxgen (hst h (S (rv + d))) R = Some G).
    { destruct (step_maxgen_cases _ _ R Hs) as [E|Hp].
      - rewrite E. exact Hmaxd.
      - exfalso. unfold nextgen in Hp. rewrite Hmaxd in Hp. apply (Habs (S d) ltac:(lia)).
        replace (rv + S d)%nat with (S (rv + d)) by lia. exact Hp. }
    split; [exact Hmax'|].
    destruct (maxgen_some _ _ _ Hmax') as [[mx [Hmx [Hrx Hgx]]] _].
    exists mx. split; [exact Hmx|]. split; [unfold mw_id; congruence|].
    apply wstate_le_trans with (mw_state mj); [exact Hlej|].
    apply (st_mono _ _ Hs mj mx Hmj Hmx). rewrite Eidj. unfold mw_id. congruence.
Qed.

(* while (R, 0) stays absent, a region without generations stays without *)
Lemma chain_absent (h : list hentry) (rv : nat) (R : N) :
  HInv h -> (forall m, In m (hst h rv) -> mw_region m <> R) ->
  forall d, (rv + d < length h)%nat ->
    (forall d', (d' <= d)%nat -> ~ present (hst h (rv + d')) (R, 0)) ->
    forall m, In m (hst h (rv + d)) -> mw_region m <> R.
Proof.
  intros Hinv H0 d. induction d as [|d IH]; intros Hlt Habs.
  - rewrite Nat.add_0_r. exact H0.
  - specialize (IH ltac:(lia) ltac:(intros d' Hd'; apply Habs; lia)).
    replace (rv + S d)%nat with (S (rv + d)) in * by lia.
    pose proof (hi_step h Hinv (rv + d) ltac:(lia)) as Hs.
    intros m Hm Er.
    assert (Hn : ~ present (hst h (rv + d)) (mw_id m)).
    { intro Hp. apply present_iff in Hp. destruct Hp as [y [Hy E]]. apply (IH y Hy). unfold mw_id in E. inversion E. congruence. }
    pose proof (st_birth _ _ Hs m Hm Hn) as Hb. unfold nextgen in Hb.
    rewrite Er, (proj2 (maxgen_none _ R) IH) in Hb.
    apply (Habs (S d) ltac:(lia)). replace (rv + S d)%nat with (S (rv + d)) by lia.
    apply present_iff. exists m. split; [exact Hm|]. unfold mw_id. congruence.
Qed.

(* ------------------------------------------------------------------ one accepted commit preserves the invariant *)
Lemma nodup_app {A} (l1 l2 : list A) :
  NoDup l1 -> NoDup l2 -> (forall x, In x l1 -> ~ In x l2) -> NoDup (l1 ++ l2).
Proof.
  induction l1 as [|a t IH]; intros H1 H2 Hd; cbn; [exact H2|].
  inversion H1 as [|? ? Hna Hnt]; subst. constructor.
  - rewrite in_app_iff. intros [Hin|Hin]; [contradiction | apply (Hd a (or_introl eq_refl) Hin)].
  - apply IH; [exact Hnt | exact H2 | intros x Hx; apply Hd; right; exact Hx].
Qed.

Definition keep (R : list mwid) (m : memwal) : bool := negb (id_mem (mw_id m) R).

Lemma filt_app_in (cur A : list memwal) (R : list mwid) (x : memwal) :
  In x (filter (keep R) cur ++ A) <-> (In x cur /\ ~ In (mw_id x) R) \/ In x A.
Proof. unfold keep. rewrite in_app_iff, filter_In, negb_true_iff, id_mem_not_in. tauto. Qed.

Lemma filt_app_nodup (cur A : list memwal) (R : list mwid) :
  NoDup (ids cur) -> NoDup (ids A) -> (forall y, In y (ids A) -> In y R \/ ~ In y (ids cur)) ->
  NoDup (ids (filter (keep R) cur ++ A)).
Proof.
  intros Hc Ha Hd. rewrite ids_app. apply nodup_app; [apply filter_ids_nodup; exact Hc | exact Ha |].
  intros x Hx HxA. apply in_ids in Hx. destruct Hx as [m [Hm E]]. apply filter_In in Hm. destruct Hm as [Hm Hk].
  unfold keep in Hk. apply negb_true_iff in Hk. apply id_mem_not_in in Hk. subst x.
  destruct (Hd _ HxA) as [Hr|Hn]; [contradiction | apply Hn; apply in_ids_of; exact Hm].
Qed.

Lemma apply_lists_ents (s : option (list memwal)) nv a u r l' :
  apply_lists s nv a u r = Ok l' ->
  l' = filter (keep (ids r)) (ents s) ++ map (set_luv nv) a ++ map (set_luv nv) u.
Proof.
  destruct s as [l|]; cbn [apply_lists ents].
  - intro H. inversion H. reflexivity.
  - destruct u; cbn [isnil negb orb]; [|discriminate]. destruct r; cbn [isnil negb]; [|discriminate].
    intro H. inversion H. cbn. rewrite app_nil_r. reflexivity.
Qed.

Lemma wstate_le_merged s : wstate_le s Merged.
Proof. destruct s; unfold wstate_le; cbn; lia. Qed.

Lemma commit_preserves (h : list hentry) (rv : nat) (t : txn) (st : option (list memwal)) (nv : N) :
  h <> [] -> HInv h -> (rv < length h)%nat ->
  txn_spec (hst h rv) t ->
  (forall i, (rv < i < length h)%nat -> check_txn t (htx h i) = VOk) ->
  (forall c, ev c h rv t = false) ->
  apply_txn (cur_state h) nv t = Ok st ->
  WF (ents st) /\ Step (ents (cur_state h)) (ents st).
Proof.
  intros Hne Hinv Hrv Hspec Hchk Hev Happ.
  set (d := (length h - 1 - rv)%nat).
  assert (Hd : (rv + d)%nat = (length h - 1)%nat) by (unfold d; lia).
  assert (Hcur : ents (cur_state h) = hst h (rv + d)).
  { rewrite (cur_state_last h Hne), Hd. reflexivity. }
  assert (Hlt : (rv + d < length h)%nat) by lia.
  pose proof (hi_wf h Hinv (rv + d) Hlt) as Hwf.
  pose proof (unchanged_since_read h rv t Hinv Hchk (Hev KOverTrim) (Hev KOverMergeInsert) (Hev KDoubleMergeInsert)) as Husr.
  pose proof (hi_wf h Hinv rv Hrv) as Hwfrv.
  rewrite Hcur.
  (* the rewritten-in-place case, shared by mutate and merge_insert *)
  assert (Hmut : forall m m' l', In m (hst h rv) -> In (mw_id m) (touch t) -> mw_id m' = mw_id m ->
             wstate_le (mw_state m) (mw_state m') ->
             l' = filter (keep (ids [m])) (hst h (rv + d)) ++ map (set_luv nv) [] ++ map (set_luv nv) [m'] ->
             WF l' /\ Step (hst h (rv + d)) l').
  { intros m m' l' Hm Ht Hid Hle El'. cbn [map app] in El'.
    assert (Hmc : In m (hst h (rv + d))) by (apply (Husr m Ht d Hlt); exact Hm).
    apply (pres_mutate (hst h (rv + d)) l' m (set_luv nv m') Hwf Hmc); [exact Hid | exact Hle | |].
    - subst l'. apply filt_app_nodup; [apply (wf_nodup _ Hwf) | cbn; constructor; [intros []|constructor] |].
      intros y [<-|[]]. left. cbn. left. symmetry. exact Hid.
    - intro x. subst l'. rewrite filt_app_in. cbn [ids map In].
      split.
      + intros [[Hx Hn]|[<-|[]]]; [left; split; [exact Hx | intro E; apply Hn; left; symmetry; exact E] | right; reflexivity].
      + intros [[Hx Hn]| ->]; [left; split; [exact Hx | intros [E|[]]; apply Hn; symmetry; exact E] | right; left; reflexivity]. }
  destruct Hspec as [m m' Hm Hid Hle | lm nw Hlm Hmaxl Hol Hidn Hon | lm nw Hlm Hmaxl Hcl Hidn Hon | nw Habs Hg0 Hon | r | m Hm];
    cbn [apply_txn] in Happ.
  - (* mutate *)
    destruct (apply_lists (cur_state h) nv [] [m'] [m]) as [l'| |] eqn:Ea; try discriminate. inversion Happ; subst st. cbn [ents].
    apply apply_lists_ents in Ea. rewrite Hcur in Ea.
    apply (Hmut m m' l' Hm); [cbn; left; exact Hid | exact Hid | exact Hle | exact Ea].
  - (* advance, latest generation open *)
    destruct (apply_lists (cur_state h) nv [nw] [set_state lm Sealed] [lm]) as [l'| |] eqn:Ea; try discriminate.
    inversion Happ; subst st. cbn [ents]. apply apply_lists_ents in Ea. rewrite Hcur in Ea. cbn [map app] in Ea.
    assert (Hlmc : In lm (hst h (rv + d))).
    { apply (Husr lm ltac:(cbn; right; left; reflexivity) d Hlt); exact Hlm. }
    assert (Hnabs : ~ present (hst h (rv + d)) (mw_id nw)).
    { intro Hp. apply present_iff in Hp. destruct Hp as [y [Hy E]].
      apply (Husr y ltac:(cbn; left; symmetry; exact E) d Hlt) in Hy.
      pose proof (eq_trans E Hidn) as E2. unfold mw_id in E2. inversion E2. specialize (Hmaxl y Hy H0). lia. }
    assert (Hmaxc : maxgen (hst h (rv + d)) (mw_region lm) = Some (mw_gen lm)).
    { apply maxgen_char; [exists lm; auto|]. intros y Hy Er. apply (wf_open _ Hwf lm y Hlmc Hy Hol Er). }
    apply (pres_add_top (hst h (rv + d)) l' (mw_region lm) (mw_gen lm) (set_luv nv nw)
             (Some (lm, set_luv nv (set_state lm Sealed))) Hwf Hmaxc); [exact Hidn | exact Hon | | |].
    + split; [exact Hlmc|]. split; [reflexivity|]. split; [reflexivity|]. split; [cbn; discriminate|].
      cbn. rewrite Hol. unfold wstate_le; cbn; lia.
    + subst l'. apply filt_app_nodup; [apply (wf_nodup _ Hwf) | |].
      * cbn. constructor; [|constructor; [intros []|constructor]]. intros [E|[]].
        unfold mw_id in Hidn. inversion Hidn. inversion E. lia.
      * intros y [<-|[<-|[]]]; [right; exact Hnabs | left; cbn; left; reflexivity].
    + intro x. subst l'. rewrite filt_app_in. cbn [ids map In]. split.
      * intros [[Hx Hn]|[<-|[<-|[]]]]; [left; split; [exact Hx | intro E; apply Hn; left; symmetry; exact E] | right; left; reflexivity | right; right; reflexivity].
      * intros [[Hx Hn]|[->| ->]]; [left; split; [exact Hx | intros [E|[]]; apply Hn; symmetry; exact E] | right; left; reflexivity | right; right; left; reflexivity].
  - (* advance, latest generation not open *)
    destruct (apply_lists (cur_state h) nv [nw] [] []) as [l'| |] eqn:Ea; try discriminate.
    inversion Happ; subst st. cbn [ents]. apply apply_lists_ents in Ea. rewrite Hcur in Ea. cbn [map app ids] in Ea.
    assert (Hmaxrv : maxgen (hst h rv) (mw_region lm) = Some (mw_gen lm)).
    { apply maxgen_char; [exists lm; auto | exact Hmaxl]. }
    assert (Habs_all : forall d', (d' <= d)%nat -> ~ present (hst h (rv + d')) (mw_region lm, mw_gen lm + 1)).
    { intros d' Hd' Hp. apply present_iff in Hp. destruct Hp as [y [Hy E]].
      apply (Husr y ltac:(cbn; left; rewrite Hidn; symmetry; exact E) d' ltac:(lia)) in Hy.
      unfold mw_id in E. inversion E. specialize (Hmaxl y Hy H0). lia. }
    destruct (chain_latest h rv (mw_region lm) (mw_gen lm) lm Hinv Hlm eq_refl Hmaxrv d Hlt Habs_all)
      as [Hmaxc [mj [Hmj [Eidj Hlej]]]].
    apply (pres_add_top (hst h (rv + d)) l' (mw_region lm) (mw_gen lm) (set_luv nv nw) None Hwf Hmaxc); [exact Hidn | exact Hon | | |].
    + intros y Hy Er Eo.
      assert (Hgy : mw_gen y <= mw_gen lm) by (apply (proj2 (maxgen_some _ _ _ Hmaxc)); assumption).
      assert (Hgj : mw_gen mj <= mw_gen y).
      { apply (wf_open _ Hwf y mj Hy Hmj Eo). unfold mw_id in Eidj. inversion Eidj. congruence. }
      assert (y = mj).
      { apply (nodup_ids_inj _ y mj (wf_nodup _ Hwf) Hy Hmj). unfold mw_id in Eidj |- *. inversion Eidj. f_equal; [congruence | lia]. }
      subst y. rewrite Eo in Hlej. apply wstate_le_open in Hlej. contradiction.
    + subst l'. apply filt_app_nodup; [apply (wf_nodup _ Hwf) | cbn; constructor; [intros []|constructor] |].
      intros y [<-|[]]. right. rewrite set_luv_id, Hidn. apply (Habs_all d). lia.
    + intro x. subst l'. rewrite filt_app_in. cbn [ids map In]. split.
      * intros [[Hx _]|[<-|[]]]; [left; split; [exact Hx | exact I] | right; left; reflexivity].
      * intros [[Hx _]|[->|[]]]; [left; split; [exact Hx | intros []] | right; left; reflexivity].
  - (* first generation of a region *)
    destruct (apply_lists (cur_state h) nv [nw] [] []) as [l'| |] eqn:Ea; try discriminate.
    inversion Happ; subst st. cbn [ents]. apply apply_lists_ents in Ea. rewrite Hcur in Ea. cbn [map app ids] in Ea.
    assert (Habs_all : forall d', (d' <= d)%nat -> ~ present (hst h (rv + d')) (mw_region nw, 0)).
    { intros d' Hd' Hp. apply present_iff in Hp. destruct Hp as [y [Hy E]].
      apply (Husr y ltac:(cbn; left; unfold mw_id; rewrite Hg0; symmetry; exact E) d' ltac:(lia)) in Hy.
      unfold mw_id in E. inversion E. apply (Habs y Hy). assumption. }
    pose proof (chain_absent h rv (mw_region nw) Hinv Habs d Hlt Habs_all) as Habsc.
    apply (pres_create (hst h (rv + d)) l' (set_luv nv nw) Hwf); [exact Habsc | exact Hg0 | exact Hon | |].
    + subst l'. apply filt_app_nodup; [apply (wf_nodup _ Hwf) | cbn; constructor; [intros []|constructor] |].
      intros y [<-|[]]. right. intro Hp. apply in_ids in Hp. destruct Hp as [z [Hz E]]. apply (Habsc z Hz).
      unfold mw_id in E. inversion E. reflexivity.
    + intro x. subst l'. rewrite filt_app_in. cbn [ids map In]. split.
      * intros [[Hx _]|[<-|[]]]; [left; exact Hx | right; reflexivity].
      * intros [Hx| ->]; [left; split; [exact Hx | intros []] | right; left; reflexivity].
  - (* trim *)
    destruct (apply_lists (cur_state h) nv [] [] r) as [l'| |] eqn:Ea; try discriminate.
    inversion Happ; subst st. cbn [ents]. apply apply_lists_ents in Ea. rewrite Hcur in Ea. cbn [map app] in Ea.
    pose proof (Hev KTrimLatest) as Hl. pose proof (Hev KTrimHole) as Hh. cbn [ev] in Hl, Hh. rewrite Hcur in Hl, Hh.
    apply (pres_trim (hst h (rv + d)) l' r Hwf Hl Hh).
    + subst l'. rewrite app_nil_r. apply filter_ids_nodup. apply (wf_nodup _ Hwf).
    + intro x. subst l'. rewrite filt_app_in. cbn [In]. tauto.
  - (* merge_insert *)
    destruct (apply_lists (cur_state h) nv [] [set_state m Merged] [m]) as [l'| |] eqn:Ea; try discriminate.
    inversion Happ; subst st. cbn [ents]. apply apply_lists_ents in Ea. rewrite Hcur in Ea.
    apply (Hmut m (set_state m Merged) l' Hm); [cbn; left; reflexivity | reflexivity | apply wstate_le_merged | exact Ea].
Qed.

(* ------------------------------------------------------------------ exec: what a committed step adds *)
Lemma exec_inv (h : list hentry) (s : step) (h' : list hentry) (c : N) :
  exec h s = (h', c) ->
  (h' = h /\ c <> 0) \/
  (c = 0 /\ exists e t st,
      nth_error h (s_rv s) = Some e /\ op_txn (e_state e) (s_op s) = Ok t /\
      first_conflict t (map e_txn (skipn (S (s_rv s)) h)) = VOk /\
      apply_txn (cur_state h) (N.of_nat (length h) + 1) t = Ok st /\
      h' = h ++ [MkEntry (s_rv s) t st]).
Proof.
  unfold exec. intro H.
  destruct (nth_error h (s_rv s)) as [e|] eqn:En; [|inversion H; left; split; [reflexivity | discriminate]].
  destruct (op_txn (e_state e) (s_op s)) as [t| |] eqn:Eo; try (inversion H; left; split; [reflexivity | discriminate]).
  destruct (first_conflict t (map e_txn (skipn (S (s_rv s)) h))) eqn:Ef;
    try (inversion H; left; split; [reflexivity | discriminate]).
  destruct (s_frag_ok s); [|inversion H; left; split; [reflexivity | discriminate]].
  destruct (apply_txn (cur_state h) (N.of_nat (length h) + 1) t) as [st| |] eqn:Ea;
    try (inversion H; left; split; [reflexivity | discriminate]).
  inversion H; subst h' c. right. split; [reflexivity|]. exists e, t, st. auto.
Qed.

Lemma nth_error_nth_dflt (h : list hentry) (j : nat) (e : hentry) :
  nth_error h j = Some e -> nth j h dflt = e /\ (j < length h)%nat.
Proof.
  intro H. split; [apply nth_error_nth; exact H|]. apply nth_error_Some. congruence.
Qed.

Lemma checked_of_first_conflict (h : list hentry) (rv : nat) (t : txn) :
  first_conflict t (map e_txn (skipn (S rv) h)) = VOk ->
  forall i, (rv < i < length h)%nat -> check_txn t (htx h i) = VOk.
Proof.
  intros H i Hi. apply (proj1 (first_conflict_ok _ _) H). unfold htx. apply in_map. apply in_skipn_nth. lia.
Qed.

Lemma hst_snoc_old h e j : (j < length h)%nat -> hst (h ++ [e]) j = hst h j.
Proof. intro H. unfold hst. rewrite nth_snoc_old by exact H. reflexivity. Qed.
Lemma htx_snoc_old h e j : (j < length h)%nat -> htx (h ++ [e]) j = htx h j.
Proof. intro H. unfold htx. rewrite nth_snoc_old by exact H. reflexivity. Qed.
Lemma hrv_snoc_old h e j : (j < length h)%nat -> hrv (h ++ [e]) j = hrv h j.
Proof. intro H. unfold hrv. rewrite nth_snoc_old by exact H. reflexivity. Qed.
Lemma hst_snoc_new h e : hst (h ++ [e]) (length h) = ents (e_state e).
Proof. unfold hst. rewrite nth_snoc_new. reflexivity. Qed.
Lemma htx_snoc_new h e : htx (h ++ [e]) (length h) = e_txn e.
Proof. unfold htx. rewrite nth_snoc_new. reflexivity. Qed.
Lemma hrv_snoc_new h e : hrv (h ++ [e]) (length h) = e_rv e.
Proof. unfold hrv. rewrite nth_snoc_new. reflexivity. Qed.

Lemma step_event_commit (c : kclass) (h : list hentry) (s : step) (t : txn) (st : option (list memwal)) :
  exec h s = (h ++ [MkEntry (s_rv s) t st], 0) -> step_event c h s = ev c h (s_rv s) t.
Proof. intro H. unfold step_event. rewrite H. rewrite rev_unit. reflexivity. Qed.

Lemma exec_preserves (h : list hentry) (s : step) :
  h <> [] -> HInv h -> (forall c, step_event c h s = false) -> HInv (fst (exec h s)).
Proof.
  intros Hne Hinv Hev. destruct (exec h s) as [h' c] eqn:Ex. cbn [fst].
  destruct (exec_inv h s h' c Ex) as [[-> _]|[-> [e [t [st [En [Eo [Ef [Ea ->]]]]]]]]]; [exact Hinv|].
  destruct (nth_error_nth_dflt h (s_rv s) e En) as [Ee Hrv].
  assert (Hspec : txn_spec (hst h (s_rv s)) t). { unfold hst. rewrite Ee. apply op_txn_spec with (o := s_op s). exact Eo. }
  pose proof (checked_of_first_conflict h (s_rv s) t Ef) as Hchk.
  assert (Hev' : forall c, ev c h (s_rv s) t = false).
  { intro c. rewrite <- (step_event_commit c h s t st Ex). apply Hev. }
  destruct (commit_preserves h (s_rv s) t st _ Hne Hinv Hrv Hspec Hchk Hev' Ea) as [Hwf' Hstep'].
  assert (Hlen : length h <> 0%nat). { destruct h; [contradiction | cbn; lia]. }
  assert (Hcur : ents (cur_state h) = hst h (length h - 1)). { rewrite (cur_state_last h Hne). reflexivity. }
  set (e' := MkEntry (s_rv s) t st).
  split.
  - intros j Hj. rewrite app_length in Hj. cbn [length] in Hj.
    destruct (Nat.eq_dec j (length h)) as [->|Hn].
    + rewrite hst_snoc_new. exact Hwf'.
    + rewrite hst_snoc_old by lia. apply (hi_wf h Hinv). lia.
  - intros j Hj. rewrite app_length in Hj. cbn [length] in Hj.
    destruct (Nat.eq_dec (S j) (length h)) as [E|Hn].
    + rewrite E, hst_snoc_new. rewrite hst_snoc_old by lia. replace j with (length h - 1)%nat by lia.
      rewrite <- Hcur. exact Hstep'.
    + rewrite !hst_snoc_old by lia. apply (hi_step h Hinv). lia.
  - intros j Hj m Hm. rewrite app_length in Hj. cbn [length] in Hj.
    destruct (Nat.eq_dec (S j) (length h)) as [E|Hn].
    + rewrite E in Hm |- *. rewrite htx_snoc_new in Hm. rewrite hst_snoc_new. rewrite hst_snoc_old by lia.
      replace j with (length h - 1)%nat by lia. rewrite <- Hcur.
      apply (apply_txn_frame _ _ _ _ Ea m Hm).
    + rewrite htx_snoc_old in Hm by lia. rewrite !hst_snoc_old by lia. apply (hi_frame h Hinv j ltac:(lia) m Hm).
  - intros j Hj. rewrite app_length in Hj. cbn [length] in Hj.
    destruct (Nat.eq_dec j (length h)) as [->|Hn].
    + rewrite htx_snoc_new. apply (txn_spec_shape _ _ Hspec).
    + rewrite htx_snoc_old by lia. apply (hi_shape h Hinv). lia.
Qed.

Lemma exec_nonempty (h : list hentry) (s : step) : h <> [] -> fst (exec h s) <> [].
Proof.
  intro Hne. destruct (exec h s) as [h' c] eqn:Ex. cbn [fst].
  destruct (exec_inv h s h' c Ex) as [[-> _]|[_ [e [t [st [_ [_ [_ [_ ->]]]]]]]]]; [exact Hne|].
  destruct h; cbn; discriminate.
Qed.

Lemma run_from_cons (h : list hentry) (s : step) (rest : list step) :
  run_from h (s :: rest) = run_from (fst (exec h s)) rest.
Proof. reflexivity. Qed.

Lemma run_from_inv (steps : list step) : forall h,
  h <> [] -> HInv h -> (forall c, known_from c h steps = false) -> HInv (run_from h steps).
Proof.
  induction steps as [|s rest IH]; intros h Hne Hinv Hk; [exact Hinv|]. rewrite run_from_cons.
  apply IH.
  - apply exec_nonempty; exact Hne.
  - apply exec_preserves; [exact Hne | exact Hinv|]. intro c. specialize (Hk c). cbn [known_from] in Hk.
    apply orb_false_iff in Hk. tauto.
  - intro c. specialize (Hk c). cbn [known_from] in Hk. apply orb_false_iff in Hk. tauto.
Qed.

Lemma init_nth (ks : list okind) (j : nat) :
  e_state (nth j (init_hist ks) dflt) = None /\ exists k, e_txn (nth j (init_hist ks) dflt) = TOther k.
Proof.
  revert j. induction ks as [|k t IH]; intro j; cbn [init_hist map].
  - destruct j; cbn; split; try reflexivity; exists KAppend; reflexivity.
  - destruct j; cbn [nth]; [split; [reflexivity | exists k; reflexivity] | apply IH].
Qed.

Lemma init_inv (ks : list okind) : HInv (init_hist ks).
Proof.
  assert (Hs : forall j, hst (init_hist ks) j = []).
  { intro j. unfold hst. rewrite (proj1 (init_nth ks j)). reflexivity. }
  split.
  - intros j _. rewrite Hs. apply WF_nil.
  - intros j _. rewrite !Hs. apply Step_refl. constructor.
  - intros j _ m _. rewrite !Hs. tauto.
  - intros j _. unfold htx. destruct (proj2 (init_nth ks j)) as [k ->]. exact I.
Qed.

Lemma exec_nil (s : step) : fst (exec [] s) = [].
Proof. unfold exec. destruct (s_rv s); reflexivity. Qed.

Lemma run_from_nil (steps : list step) : run_from [] steps = [].
Proof.
  induction steps as [|s rest IH]; [reflexivity|]. rewrite run_from_cons, exec_nil. exact IH.
Qed.

(* ------------------------------------------------------------------ the property, stated on a history *)
Definition Hist_ok (h : list hentry) : Prop :=
  (* every committed version: generations unique, consecutive per region, only the latest may be open *)
  (forall j e, nth_error h j = Some e -> WF (ents (e_state e))) /\
  (* a generation's state only moves forward *)
  (forall i j ei ej m m', (i <= j)%nat -> nth_error h i = Some ei -> nth_error h j = Some ej ->
      In m (ents (e_state ei)) -> In m' (ents (e_state ej)) -> mw_id m = mw_id m' ->
      wstate_le (mw_state m) (mw_state m')) /\
  (* a generation that has been removed never reappears *)
  (forall i j k ei ej ek m, (i < j)%nat -> (j < k)%nat ->
      nth_error h i = Some ei -> nth_error h j = Some ej -> nth_error h k = Some ek ->
      In m (ents (e_state ei)) -> ~ present (ents (e_state ej)) (mw_id m) -> ~ present (ents (e_state ek)) (mw_id m)) /\
  (* a new generation is the successor of the region's latest one (0 for a new region) *)
  (forall j ej ej' m', nth_error h j = Some ej -> nth_error h (S j) = Some ej' ->
      In m' (ents (e_state ej')) -> ~ present (ents (e_state ej)) (mw_id m') ->
      mw_gen m' = nextgen (ents (e_state ej)) (mw_region m')).

Lemma hist_maxmono (h : list hentry) (i : nat) (R a : N) :
  HInv h -> maxgen (hst h i) R = Some a ->
  forall d, (i + d < length h)%nat -> exists b, maxgen (hst h (i + d)) R = Some b /\ a <= b.
Proof.
  intros Hinv Ha d. induction d as [|d IH]; intro Hlt.
  - rewrite Nat.add_0_r. exists a. split; [exact Ha | lia].
  - destruct (IH ltac:(lia)) as [b [Eb Hab]]. replace (i + S d)%nat with (S (i + d)) by lia.
    destruct (step_maxgen_mono _ _ R b (hi_step h Hinv (i + d) ltac:(lia)) Eb) as [c [Ec Hbc]].
    exists c. split; [exact Ec | lia].
Qed.

Lemma hist_norevive (h : list hentry) (i j : nat) (m : memwal) :
  HInv h -> (i < j)%nat -> In m (hst h i) -> ~ present (hst h j) (mw_id m) ->
  forall d, (j + d < length h)%nat -> ~ present (hst h (j + d)) (mw_id m).
Proof.
  intros Hinv Hij Hm Habs d. induction d as [|d IH]; intro Hlt.
  - rewrite Nat.add_0_r. exact Habs.
  - specialize (IH ltac:(lia)). replace (j + S d)%nat with (S (j + d)) by lia. intro Hp.
    apply present_iff in Hp. destruct Hp as [m' [Hm' E]].
    pose proof (st_birth _ _ (hi_step h Hinv (j + d) ltac:(lia)) m' Hm' ltac:(rewrite E; exact IH)) as Hb.
    destruct (maxgen_of_in _ m Hm) as [a [Ea Hma]].
    destruct (hist_maxmono h i (mw_region m) a Hinv Ea (j + d - i) ltac:(lia)) as [b [Eb Hab]].
    replace (i + (j + d - i))%nat with (j + d)%nat in Eb by lia.
    unfold nextgen in Hb. unfold mw_id in E. inversion E. rewrite H0, Eb in Hb. lia.
Qed.

Lemma hist_mono (h : list hentry) (i : nat) (m : memwal) :
  HInv h -> In m (hst h i) ->
  forall d m', (i + d < length h)%nat -> In m' (hst h (i + d)) -> mw_id m = mw_id m' ->
  wstate_le (mw_state m) (mw_state m').
Proof.
  intros Hinv Hm d. induction d as [|d IH]; intros m' Hlt Hm' E.
  - rewrite Nat.add_0_r in Hm'.
    rewrite (nodup_ids_inj _ m m' (wf_nodup _ (hi_wf h Hinv i ltac:(lia))) Hm Hm' E). apply wstate_le_refl.
  - replace (i + S d)%nat with (S (i + d)) in Hm' by lia.
    destruct (in_dec id_dec (mw_id m) (ids (hst h (i + d)))) as [Hin|Hnin].
    + apply in_ids in Hin. destruct Hin as [m2 [Hm2 E2]].
      apply wstate_le_trans with (mw_state m2); [apply (IH m2 ltac:(lia) Hm2); symmetry; exact E2|].
      apply (st_mono _ _ (hi_step h Hinv (i + d) ltac:(lia)) m2 m' Hm2 Hm'). congruence.
    + exfalso. destruct d as [|d].
      * rewrite Nat.add_0_r in Hnin. apply Hnin. apply in_ids_of; exact Hm.
      * apply (hist_norevive h i (i + S d) m Hinv ltac:(lia) Hm Hnin 1%nat ltac:(lia)).
        replace (i + S d + 1)%nat with (S (i + S d)) by lia. apply present_iff. exists m'. split; [exact Hm' | symmetry; exact E].
Qed.

Lemma HInv_Hist_ok (h : list hentry) : HInv h -> Hist_ok h.
Proof.
  intro Hinv. split; [|split; [|split]].
  - intros j e Hj. destruct (nth_error_nth_dflt h j e Hj) as [<- Hlt]. apply (hi_wf h Hinv j Hlt).
  - intros i j ei ej m m' Hij Hi Hj Hm Hm' E.
    destruct (nth_error_nth_dflt h i ei Hi) as [<- Hli]. destruct (nth_error_nth_dflt h j ej Hj) as [<- Hlj].
    replace j with (i + (j - i))%nat in Hm', Hlj by lia.
    apply (hist_mono h i m Hinv Hm (j - i)%nat m' Hlj Hm' E).
  - intros i j k ei ej ek m Hij Hjk Hi Hj Hk Hm Habs.
    destruct (nth_error_nth_dflt h i ei Hi) as [<- Hli]. destruct (nth_error_nth_dflt h j ej Hj) as [<- Hlj].
    destruct (nth_error_nth_dflt h k ek Hk) as [<- Hlk].
    replace k with (j + (k - j))%nat in * by lia.
    apply (hist_norevive h i j m Hinv Hij Hm Habs (k - j)%nat Hlk).
  - intros j ej ej' m' Hj Hj' Hm' Habs.
    destruct (nth_error_nth_dflt h j ej Hj) as [<- Hlj]. destruct (nth_error_nth_dflt h (S j) ej' Hj') as [<- Hlj'].
    apply (st_birth _ _ (hi_step h Hinv j Hlj') m' Hm' Habs).
Qed.

Lemma known_false_all (ks : list okind) (steps : list step) :
  Known_C39 ks steps = false -> forall c, known_from c (init_hist ks) steps = false.
Proof.
  unfold Known_C39, Known_C39_trim_hole, Known_C39_trim_latest, Known_C39_update_over_trim,
    Known_C39_update_over_merge_insert, Known_C39_double_merge_insert.
  intros H c. repeat (apply orb_false_iff in H; destruct H as [H ?]). destruct c; assumption.
Qed.

Theorem invariant_outside_known_classes (ks : list okind) (steps : list step) :
  Known_C39 ks steps = false -> Hist_ok (run ks steps).
Proof.
  intro Hk. unfold run. destruct ks as [|k ks'].
  - cbn [init_hist map]. rewrite run_from_nil. split; [|split; [|split]].
    + intros j e Hj. destruct j; discriminate.
    + intros i j ei ej m m' _ Hi. destruct i; discriminate.
    + intros i j k ei ej ek m _ _ Hi. destruct i; discriminate.
    + intros j ej ej' m' Hj. destruct j; discriminate.
  - apply HInv_Hist_ok. apply run_from_inv; [cbn; discriminate | apply init_inv | apply known_false_all; exact Hk].
Qed.

(* ------------------------------------------------------------------ same-MemWAL conflict *)
(* two committed transactions, the later one computed before the earlier one committed, never write the same id *)
Definition Same_wal_ok (h : list hentry) : Prop :=
  forall i j ei ej, nth_error h i = Some ei -> nth_error h j = Some ej ->
    (e_rv ej < i)%nat -> (i < j)%nat ->
    forall x, In x (touch (e_txn ei)) -> In x (touch (e_txn ej)) -> False.

(* the part that holds for every schedule: the earlier transaction is an UpdateMemWalState *)
Definition Same_wal_upd_ok (h : list hentry) : Prop :=
  forall i j ei ej a u r, nth_error h i = Some ei -> nth_error h j = Some ej ->
    (e_rv ej < i)%nat -> (i < j)%nat -> e_txn ei = TUpd a u r ->
    forall x, In x (ids a ++ ids u) -> In x (touch (e_txn ej)) -> False.

Record HChk (strong : bool) (h : list hentry) : Prop := {
  hc_checked : forall i j, (j < length h)%nat -> (hrv h j < i)%nat -> (i < j)%nat ->
      check_txn (htx h j) (htx h i) = VOk;
  hc_nomerge : strong = true -> forall i j m, (j < length h)%nat -> (hrv h j < i)%nat -> (i < j)%nat ->
      htx h i = TUpdate (Some m) -> ~ In (mw_id m) (touch (htx h j)) }.

Lemma init_chk (b : bool) (ks : list okind) : HChk b (init_hist ks).
Proof.
  split.
  - intros i j _ _ _. unfold htx. destruct (proj2 (init_nth ks j)) as [k ->]. reflexivity.
  - intros _ i j m _ _ _ _. unfold htx. destruct (proj2 (init_nth ks j)) as [k ->]. intros [].
Qed.

Lemma exec_preserves_chk (b : bool) (h : list hentry) (s : step) :
  HChk b h ->
  (b = true -> step_event KOverMergeInsert h s = false /\ step_event KDoubleMergeInsert h s = false) ->
  HChk b (fst (exec h s)).
Proof.
  intros Hc Hev. destruct (exec h s) as [h' c] eqn:Ex. cbn [fst].
  destruct (exec_inv h s h' c Ex) as [[-> _]|[-> [e [t [st [En [Eo [Ef [Ea ->]]]]]]]]]; [exact Hc|].
  pose proof (checked_of_first_conflict h (s_rv s) t Ef) as Hchk.
  split.
  - intros i j Hj Hi Hij. rewrite app_length in Hj. cbn [length] in Hj.
    destruct (Nat.eq_dec j (length h)) as [->|Hn].
    + rewrite htx_snoc_new. rewrite hrv_snoc_new in Hi. cbn [e_txn e_rv] in *. rewrite htx_snoc_old by lia. apply Hchk. lia.
    + rewrite hrv_snoc_old in Hi by lia. rewrite !htx_snoc_old by lia. apply (hc_checked b h Hc); lia.
  - intros Hb i j m Hj Hi Hij Em. rewrite app_length in Hj. cbn [length] in Hj.
    destruct (Nat.eq_dec j (length h)) as [->|Hn].
    + rewrite htx_snoc_new. rewrite hrv_snoc_new in Hi. rewrite htx_snoc_old in Em by lia. cbn [e_txn e_rv] in *.
      destruct (Hev Hb) as [H4 H5].
      rewrite (step_event_commit _ h s t st Ex) in H4. rewrite (step_event_commit _ h s t st Ex) in H5.
      cbn [ev] in H4, H5.
      assert (Hin : In (nth i h dflt) (since h (s_rv s))) by (apply in_skipn_nth; lia).
      unfold htx in Em.
      destruct t as [a u r|[m'|]|k]; cbn [touch].
      * unfold ev_over_merge_insert in H4. pose proof (existsb_false_in _ _ H4 _ Hin) as Hf. cbn beta in Hf.
        rewrite Em in Hf. apply id_mem_not_in in Hf. exact Hf.
      * unfold ev_double_merge_insert in H5. pose proof (existsb_false_in _ _ H5 _ Hin) as Hf. cbn beta in Hf.
        rewrite Em in Hf. apply id_eqb_neq in Hf. intros [E|[]]. congruence.
      * intros [].
      * intros [].
    + rewrite hrv_snoc_old in Hi by lia. rewrite htx_snoc_old in Em by lia. rewrite htx_snoc_old by lia.
      apply (hc_nomerge b h Hc Hb i j m); try lia. exact Em.
Qed.

Lemma run_from_chk (b : bool) (steps : list step) : forall h,
  HChk b h ->
  (b = true -> known_from KOverMergeInsert h steps = false /\ known_from KDoubleMergeInsert h steps = false) ->
  HChk b (run_from h steps).
Proof.
  induction steps as [|s rest IH]; intros h Hc Hk; [exact Hc|]. rewrite run_from_cons. apply IH.
  - apply exec_preserves_chk; [exact Hc|]. intro Hb. destruct (Hk Hb) as [H4 H5]. cbn [known_from] in H4, H5.
    apply orb_false_iff in H4. apply orb_false_iff in H5. tauto.
  - intro Hb. destruct (Hk Hb) as [H4 H5]. cbn [known_from] in H4, H5.
    apply orb_false_iff in H4. apply orb_false_iff in H5. tauto.
Qed.

Lemma HChk_same_wal_upd (b : bool) (h : list hentry) : HChk b h -> Same_wal_upd_ok h.
Proof.
  intros Hc i j ei ej a u r Hi Hj Hrv Hij Et x Hx Hxj.
  destruct (nth_error_nth_dflt h i ei Hi) as [Ei Hli]. destruct (nth_error_nth_dflt h j ej Hj) as [Ej Hlj].
  pose proof (hc_checked b h Hc i j Hlj ltac:(unfold hrv; rewrite Ej; exact Hrv) Hij) as Hchk.
  unfold htx in Hchk. rewrite Ei, Ej, Et in Hchk.
  exact (check_ok_disjoint (e_txn ej) a u r Hchk x Hxj Hx).
Qed.

Lemma HChk_same_wal (h : list hentry) : HChk true h -> Same_wal_ok h.
Proof.
  intros Hc i j ei ej Hi Hj Hrv Hij x Hx Hxj.
  destruct (e_txn ei) as [a u r|[m|]|k] eqn:Et; cbn [touch] in Hx; try (destruct Hx; fail).
  - exact (HChk_same_wal_upd true h Hc i j ei ej a u r Hi Hj Hrv Hij Et x Hx Hxj).
  - destruct Hx as [<-|[]].
    destruct (nth_error_nth_dflt h i ei Hi) as [Ei Hli]. destruct (nth_error_nth_dflt h j ej Hj) as [Ej Hlj].
    apply (hc_nomerge true h Hc eq_refl i j m Hlj ltac:(unfold hrv; rewrite Ej; exact Hrv) Hij).
    + unfold htx. rewrite Ei. exact Et.
    + unfold htx. rewrite Ej. exact Hxj.
Qed.

Theorem same_wal_conflict_upd (ks : list okind) (steps : list step) : Same_wal_upd_ok (run ks steps).
Proof.
  apply (HChk_same_wal_upd false). apply run_from_chk; [apply init_chk | discriminate].
Qed.

Theorem same_wal_conflict (ks : list okind) (steps : list step) :
  Known_C39_update_over_merge_insert ks steps = false -> Known_C39_double_merge_insert ks steps = false ->
  Same_wal_ok (run ks steps).
Proof.
  intros H4 H5. apply HChk_same_wal. apply run_from_chk; [apply init_chk | intros _; split; assumption].
Qed.

(* ------------------------------------------------------------------ witnesses: each known class breaks the property *)
Definition u64max : N := 18446744073709551615.
Definition stp (rv : nat) (o : op) : step := MkStep rv o true.
Definition ks1 : list okind := [KOverwrite].

(* advance x3, flush+merged generation 1, trim: {0, 2} remain *)
Definition w_trim_hole : list step :=
  [stp 0 (OAdvance 0 10 20 None 1); stp 1 (OAdvance 0 11 21 (Some 1) 1); stp 2 (OAdvance 0 12 22 (Some 1) 1);
   stp 3 (OFlush 0 1 1); stp 4 (OMerged 0 1 1); stp 5 (OTrim u64max)].
(* one generation taken to Merged, trim empties the region, advance(None) creates generation 0 again *)
Definition w_trim_latest : list step :=
  [stp 0 (OAdvance 0 10 20 None 1); stp 1 (OSeal 0 0 1); stp 2 (OFlush 0 0 1); stp 3 (OMerged 0 0 1);
   stp 4 (OTrim u64max); stp 5 (OAdvance 0 11 21 None 2)].
(* trim removes Merged generation 0; a writer still at the version before the trim changes its owner *)
Definition w_over_trim : list step :=
  [stp 0 (OAdvance 0 10 20 None 1); stp 1 (OAdvance 0 11 21 (Some 1) 1); stp 2 (OFlush 0 0 1);
   stp 3 (OMerged 0 0 1); stp 4 (OTrim u64max); stp 4 (OOwner 0 0 2 None)].
(* merge_insert marks generation 0 merged; a writer at the version before changes its owner: Flushed again *)
Definition w_over_merge_insert : list step :=
  [stp 0 (OAdvance 0 10 20 None 1); stp 1 (OAdvance 0 11 21 (Some 1) 1); stp 2 (OFlush 0 0 1);
   stp 3 (OMergeInsert 0 0 1); stp 3 (OOwner 0 0 2 None)].
(* two merge_inserts of generation 0 from the same version *)
Definition w_double_merge_insert : list step :=
  [stp 0 (OAdvance 0 10 20 None 1); stp 1 (OAdvance 0 11 21 (Some 1) 1); stp 2 (OFlush 0 0 1);
   stp 3 (OMergeInsert 0 0 1); stp 3 (OMergeInsert 0 0 1)].

Definition class_flags (w : list step) : list bool :=
  [Known_C39_trim_hole ks1 w; Known_C39_trim_latest ks1 w; Known_C39_update_over_trim ks1 w;
   Known_C39_update_over_merge_insert ks1 w; Known_C39_double_merge_insert ks1 w].

Lemma trim_hole_witness :
  class_flags w_trim_hole = [true; false; false; false; false] /\ ~ Hist_ok (run ks1 w_trim_hole).
Proof.
  split; [vm_compute; reflexivity|]. intros [Hwf _].
  destruct (nth_error (run ks1 w_trim_hole) 6) as [e|] eqn:E; [|vm_compute in E; discriminate].
  specialize (Hwf 6%nat e E). vm_compute in E. inversion E; subst e; clear E. cbn [ents e_state] in Hwf.
  assert (Hp : present [MkMemWal 0 0 10 20 [] Sealed 1 3; MkMemWal 0 2 12 22 [] Open 1 4] (0, 1)).
  { apply (wf_interval _ Hwf 0 0 2 1); [cbv; auto | cbv; auto | lia]. }
  cbv in Hp. destruct Hp as [Hp|[Hp|[]]]; discriminate.
Qed.

Lemma trim_latest_witness :
  class_flags w_trim_latest = [false; true; false; false; false] /\ ~ Hist_ok (run ks1 w_trim_latest).
Proof.
  split; [vm_compute; reflexivity|]. intros [_ [_ [Hrev _]]].
  destruct (nth_error (run ks1 w_trim_latest) 4) as [e4|] eqn:E4; [|vm_compute in E4; discriminate].
  destruct (nth_error (run ks1 w_trim_latest) 5) as [e5|] eqn:E5; [|vm_compute in E5; discriminate].
  destruct (nth_error (run ks1 w_trim_latest) 6) as [e6|] eqn:E6; [|vm_compute in E6; discriminate].
  specialize (Hrev 4%nat 5%nat 6%nat e4 e5 e6 (MkMemWal 0 0 10 20 [] Merged 1 5) ltac:(lia) ltac:(lia) E4 E5 E6).
  vm_compute in E4, E5, E6. inversion E4; subst e4. inversion E5; subst e5. inversion E6; subst e6.
  apply Hrev; [cbv; auto | cbv; intuition discriminate | cbv; auto].
Qed.

Lemma over_trim_witness :
  class_flags w_over_trim = [false; false; true; false; false] /\ ~ Hist_ok (run ks1 w_over_trim).
Proof.
  split; [vm_compute; reflexivity|]. intros [_ [_ [Hrev _]]].
  destruct (nth_error (run ks1 w_over_trim) 4) as [e4|] eqn:E4; [|vm_compute in E4; discriminate].
  destruct (nth_error (run ks1 w_over_trim) 5) as [e5|] eqn:E5; [|vm_compute in E5; discriminate].
  destruct (nth_error (run ks1 w_over_trim) 6) as [e6|] eqn:E6; [|vm_compute in E6; discriminate].
  specialize (Hrev 4%nat 5%nat 6%nat e4 e5 e6 (MkMemWal 0 0 10 20 [] Merged 1 5) ltac:(lia) ltac:(lia) E4 E5 E6).
  vm_compute in E4, E5, E6. inversion E4; subst e4. inversion E5; subst e5. inversion E6; subst e6.
  apply Hrev; [cbv; auto | cbv; intuition discriminate | cbv; auto].
Qed.

Lemma over_merge_insert_witness :
  class_flags w_over_merge_insert = [false; false; false; true; false] /\ ~ Hist_ok (run ks1 w_over_merge_insert).
Proof.
  split; [vm_compute; reflexivity|]. intros [_ [Hmono _]].
  destruct (nth_error (run ks1 w_over_merge_insert) 4) as [e4|] eqn:E4; [|vm_compute in E4; discriminate].
  destruct (nth_error (run ks1 w_over_merge_insert) 5) as [e5|] eqn:E5; [|vm_compute in E5; discriminate].
  specialize (Hmono 4%nat 5%nat e4 e5 (MkMemWal 0 0 10 20 [] Merged 1 5) (MkMemWal 0 0 10 20 [] Flushed 2 6) ltac:(lia) E4 E5).
  vm_compute in E4, E5. inversion E4; subst e4. inversion E5; subst e5.
  assert (H : wstate_le Merged Flushed) by (apply Hmono; cbv; auto).
  unfold wstate_le in H. cbn in H. lia.
Qed.

Lemma double_merge_insert_witness :
  class_flags w_double_merge_insert = [false; false; false; false; true] /\
  ~ Same_wal_ok (run ks1 w_double_merge_insert).
Proof.
  split; [vm_compute; reflexivity|]. intro Hs.
  destruct (nth_error (run ks1 w_double_merge_insert) 4) as [e4|] eqn:E4; [|vm_compute in E4; discriminate].
  destruct (nth_error (run ks1 w_double_merge_insert) 5) as [e5|] eqn:E5; [|vm_compute in E5; discriminate].
  specialize (Hs 4%nat 5%nat e4 e5 E4 E5).
  vm_compute in E4, E5. inversion E4; subst e4. inversion E5; subst e5.
  apply (Hs ltac:(cbn; lia) ltac:(lia) (0, 0)); cbv; auto.
Qed.

(* the update-over-merge_insert history also breaks the conflict property *)
Lemma over_merge_insert_witness_same_wal : ~ Same_wal_ok (run ks1 w_over_merge_insert).
Proof.
  intro Hs.
  destruct (nth_error (run ks1 w_over_merge_insert) 4) as [e4|] eqn:E4; [|vm_compute in E4; discriminate].
  destruct (nth_error (run ks1 w_over_merge_insert) 5) as [e5|] eqn:E5; [|vm_compute in E5; discriminate].
  specialize (Hs 4%nat 5%nat e4 e5 E4 E5).
  vm_compute in E4, E5. inversion E4; subst e4. inversion E5; subst e5.
  apply (Hs ltac:(cbn; lia) ltac:(lia) (0, 0)); cbv; auto.
Qed.

(* ------------------------------------------------------------------ non-vacuity: a long concurrent history outside every class *)
(* three writers, two regions: stale appends / seals / advances that conflict, an owner change that beats a stale
   append, flush, merge_insert next to a concurrent advance, merged, a trim of the lower generation. *)
Definition w_clean : list step :=
  [stp 0 (OAdvance 0 10 20 None 1);            (* v2  R0/0 open, owner 1 *)
   stp 0 (OAdvance 1 30 40 None 2);            (* v3  stale handle, other region: accepted *)
   stp 1 (OAppend 0 0 5 1);                    (* v4  stale (v2), region 0 untouched since: accepted *)
   stp 1 (OSeal 0 0 1);                        (* conflict with the append *)
   stp 3 (OOwner 0 0 3 None);                  (* v5 *)
   stp 3 (OAppend 0 0 6 1);                    (* conflict: owner changed since *)
   stp 4 (OAdvance 0 11 21 (Some 3) 3);        (* v6  seals R0/0, opens R0/1 *)
   stp 4 (OAdvance 0 12 22 (Some 3) 1);        (* conflict *)
   stp 5 (OFlush 0 0 3);                       (* v7 *)
   stp 6 (OAdvance 0 13 23 (Some 3) 3);        (* v8  R0/2 *)
   stp 6 (OMergeInsert 0 0 3);                 (* v9  stale, other generation: accepted *)
   stp 8 (OTrim u64max);                       (* v10 removes R0/0 *)
   stp 8 (OAppend 0 2 1 3);                    (* v11 stale over the trim, other generation: accepted *)
   stp 9 (OFlush 0 1 3)].                      (* v12 *)

Lemma clean_history_nonvacuous :
  Known_C39 ks1 w_clean = false /\
  map (fun o => fst (fst o)) (observe (init_hist ks1) w_clean) = [0; 0; 0; 2; 0; 2; 0; 2; 0; 0; 0; 0; 0; 0] /\
  map (fun e => (e_rv e, ids (ents (e_state e)))) (skipn 8 (run ks1 w_clean)) =
    [(6%nat, [(1, 0); (0, 2); (0, 1); (0, 0)]); (8%nat, [(1, 0); (0, 2); (0, 1)]);
     (8%nat, [(1, 0); (0, 1); (0, 2)]); (9%nat, [(1, 0); (0, 2); (0, 1)])].
Proof. vm_compute. repeat split. Qed.
