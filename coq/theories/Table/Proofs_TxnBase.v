(* C03/C04/C24 - basic lemmas about the list-as-set helpers and fragment lookups of Model_Txn.v. *)
From LanceV Require Import Common.Base Table.Model_Txn.
From Coq Require Import Permutation.
Local Open Scope N_scope.

(* ------------------------------------------------------------------ membership *)
Lemma memN_In : forall x l, memN x l = true <-> In x l.
Proof.
  intros x l. unfold memN. rewrite existsb_exists. split.
  - intros [y [Hy E]]. apply N.eqb_eq in E. subst. exact Hy.
  - intros H. exists x. split; [exact H | apply N.eqb_refl].
Qed.
Lemma memN_false : forall x l, memN x l = false <-> ~ In x l.
Proof.
  intros x l. rewrite <- not_true_iff_false, memN_In. tauto.
Qed.
Lemma memZ_In : forall x l, memZ x l = true <-> In x l.
Proof.
  intros x l. unfold memZ. rewrite existsb_exists. split.
  - intros [y [Hy E]]. apply Z.eqb_eq in E. subst. exact Hy.
  - intros H. exists x. split; [exact H | apply Z.eqb_refl].
Qed.
Lemma memZ_false : forall x l, memZ x l = false <-> ~ In x l.
Proof.
  intros x l. rewrite <- not_true_iff_false, memZ_In. tauto.
Qed.
Lemma overlapN_true : forall a b, overlapN a b = true <-> exists x, In x a /\ In x b.
Proof.
  intros a b. unfold overlapN. rewrite existsb_exists. split.
  - intros [x [Ha Hb]]. exists x. split; [exact Ha | apply memN_In; exact Hb].
  - intros [x [Ha Hb]]. exists x. split; [exact Ha | apply memN_In; exact Hb].
Qed.
Lemma overlapN_false : forall a b, overlapN a b = false <-> forall x, In x a -> ~ In x b.
Proof.
  intros a b. split.
  - intros H x Ha Hb. assert (T : overlapN a b = true) by (apply overlapN_true; exists x; auto). congruence.
  - intros H. destruct (overlapN a b) eqn:E; [|reflexivity].
    apply overlapN_true in E. destruct E as [x [Ha Hb]]. exfalso. exact (H x Ha Hb).
Qed.
Lemma overlapZ_true : forall a b, overlapZ a b = true <-> exists x, In x a /\ In x b.
Proof.
  intros a b. unfold overlapZ. rewrite existsb_exists. split.
  - intros [x [Ha Hb]]. exists x. split; [exact Ha | apply memZ_In; exact Hb].
  - intros [x [Ha Hb]]. exists x. split; [exact Ha | apply memZ_In; exact Hb].
Qed.
Lemma overlapZ_false : forall a b, overlapZ a b = false <-> forall x, In x a -> ~ In x b.
Proof.
  intros a b. split.
  - intros H x Ha Hb. assert (T : overlapZ a b = true) by (apply overlapZ_true; exists x; auto). congruence.
  - intros H. destruct (overlapZ a b) eqn:E; [|reflexivity].
    apply overlapZ_true in E. destruct E as [x [Ha Hb]]. exfalso. exact (H x Ha Hb).
Qed.
Lemma mem_addr_In : forall a l, mem_addr a l = true <-> In a l.
Proof.
  intros [f o] l. unfold mem_addr. rewrite existsb_exists. cbn [fst snd]. split.
  - intros [[g p] [Hy E]]. cbn [fst snd] in E. apply andb_true_iff in E as [E1 E2].
    apply N.eqb_eq in E1, E2. subst. exact Hy.
  - intros H. exists (f, o). split; [exact H|]. cbn [fst snd]. rewrite !N.eqb_refl. reflexivity.
Qed.
Lemma rows_of_In : forall aff f o, In o (rows_of aff f) <-> In (f, o) aff.
Proof.
  intros aff f o. unfold rows_of. rewrite in_map_iff. split.
  - intros [[g p] [E H]]. cbn [snd] in E. subst p. apply filter_In in H as [H E]. cbn [fst] in E.
    apply N.eqb_eq in E. subst. exact H.
  - intros H. exists (f, o). split; [reflexivity|]. apply filter_In. split; [exact H|]. cbn [fst]. apply N.eqb_refl.
Qed.

(* ------------------------------------------------------------------ union / nodup / cardinality *)
Lemma unionN_In : forall a b x, In x (unionN a b) <-> In x a \/ In x b.
Proof.
  intros a b x. unfold unionN. rewrite in_app_iff, filter_In. cbv beta. split.
  - intros [H | [H _]]; auto.
  - intros [H | H]; [left; exact H|]. destruct (memN x a) eqn:E.
    + left. apply memN_In. exact E.
    + right. split; [exact H|]. reflexivity.
Qed.
Lemma nodupN_In : forall l x, In x (nodupN l) <-> In x l.
Proof.
  induction l as [|y r IH]; intros x; cbn [nodupN]; [tauto|].
  destruct (memN y r) eqn:E.
  - rewrite IH. split; [intro H; right; exact H|]. intros [H | H]; [subst; apply memN_In; exact E | exact H].
  - cbn [In]. rewrite IH. tauto.
Qed.
Lemma nodupN_NoDup : forall l, NoDup (nodupN l).
Proof.
  induction l as [|y r IH]; cbn [nodupN]; [constructor|].
  destruct (memN y r) eqn:E; [exact IH|]. constructor; [|exact IH].
  rewrite nodupN_In. apply memN_false. exact E.
Qed.
Lemma nodupN_id : forall l, NoDup l -> nodupN l = l.
Proof.
  induction l as [|y r IH]; intros H; cbn [nodupN]; [reflexivity|]. inversion H as [|? ? Hn Hr]; subst.
  apply memN_false in Hn. rewrite Hn, (IH Hr). reflexivity.
Qed.
Lemma NoDup_app_intro {A} : forall (a b : list A), NoDup a -> NoDup b -> (forall x, In x a -> ~ In x b) -> NoDup (a ++ b).
Proof.
  induction a as [|x r IH]; intros b Ha Hb Hd; cbn [app]; [exact Hb|].
  inversion Ha as [|? ? Hn Hr]; subst. constructor.
  - rewrite in_app_iff. intros [H | H]; [exact (Hn H) | exact (Hd x (or_introl eq_refl) H)].
  - apply IH; [exact Hr | exact Hb | intros y Hy; apply Hd; right; exact Hy].
Qed.
Lemma NoDup_app_l {A} : forall (a b : list A), NoDup (a ++ b) -> NoDup a.
Proof.
  induction a as [|x r IH]; intros b H; [constructor|]. cbn [app] in H. inversion H as [|? ? Hn Hr]; subst.
  constructor; [intro Hx; apply Hn; apply in_or_app; left; exact Hx | exact (IH b Hr)].
Qed.
Lemma NoDup_app_r {A} : forall (a b : list A), NoDup (a ++ b) -> NoDup b.
Proof.
  induction a as [|x r IH]; intros b H; [exact H|]. cbn [app] in H. inversion H; subst. apply IH. assumption.
Qed.
Lemma NoDup_app_disj {A} : forall (a b : list A) x, NoDup (a ++ b) -> In x a -> ~ In x b.
Proof.
  induction a as [|y r IH]; intros b x H Ha Hb; [destruct Ha|]. cbn [app] in H. inversion H as [|? ? Hn Hr]; subst.
  destruct Ha as [E | Ha]; [subst; apply Hn; apply in_or_app; right; exact Hb | exact (IH b x Hr Ha Hb)].
Qed.
Lemma unionN_NoDup : forall a b, NoDup a -> NoDup b -> NoDup (unionN a b).
Proof.
  intros a b Ha Hb. unfold unionN. apply NoDup_app_intro; [exact Ha | apply NoDup_filter; exact Hb |].
  intros x Hx Hf. apply filter_In in Hf as [_ Hf]. cbv beta in Hf. apply memN_In in Hx. rewrite Hx in Hf. discriminate.
Qed.

(* a duplicate-free list of numbers below n that has n elements holds every number below n *)
Lemma card_full : forall (l : list N) (n : N),
  NoDup l -> (forall x, In x l -> x < n) -> N.of_nat (length l) = n -> forall x, x < n -> In x l.
Proof.
  intros l n Hnd Hlt Hlen x Hx.
  set (l' := map N.to_nat l).
  assert (Hnd' : NoDup l').
  { unfold l'. apply FinFun.Injective_map_NoDup; [|exact Hnd]. intros a b E. apply N2Nat.inj. exact E. }
  assert (Hincl : incl l' (seq 0 (N.to_nat n))).
  { intros y Hy. unfold l' in Hy. apply in_map_iff in Hy as [z [E Hz]]. subst y. apply in_seq.
    specialize (Hlt z Hz). lia. }
  assert (Hlen' : length (seq 0 (N.to_nat n)) <= length l').
  { unfold l'. rewrite seq_length, map_length. lia. }
  pose proof (NoDup_length_incl Hnd' Hlen' Hincl) as Hrev.
  assert (Hin : In (N.to_nat x) l') by (apply Hrev; apply in_seq; lia).
  unfold l' in Hin. apply in_map_iff in Hin as [z [E Hz]]. apply N2Nat.inj in E. subst. exact Hz.
Qed.
Lemma cardN_full : forall (l : list N) (n : N),
  (forall x, In x l -> x < n) -> cardN l = n -> forall x, x < n -> In x l.
Proof.
  intros l n Hlt Hc x Hx. apply nodupN_In.
  apply (card_full (nodupN l) n); [apply nodupN_NoDup | intros y Hy; apply Hlt; apply nodupN_In; exact Hy | exact Hc | exact Hx].
Qed.
