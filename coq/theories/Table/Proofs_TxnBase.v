(* C03/C04/C24 - basic lemmas about the list-as-set helpers and fragment lookups of Model_Txn.v. *)
From LanceV Require Import Common.Base Table.Model_Txn.
From Coq Require Import Permutation.
Local Open Scope N_scope.

(* ------------------------------------------------------------------ membership *)
Lemma memN_In : forall x l, memN x l = true <-> In x l.
Proof.
  intros x l. unfold memN. rewrite existsb_exists. split.
  - intros [y [Hy E]]. apply N.eqb_eq in E. subst. exact Hy.
  - intros H. exists x. split; [exact H | apply N.eqb_refl].
Qed.
Lemma memN_false : forall x l, memN x l = false <-> ~ In x l.
Proof.
  intros x l. rewrite <- not_true_iff_false, memN_In. tauto.
Qed.
Lemma memZ_In : forall x l, memZ x l = true <-> In x l.
Proof.
  intros x l. unfold memZ. rewrite existsb_exists. split.
  - intros [y [Hy E]]. apply Z.eqb_eq in E. subst. exact Hy.
  - intros H. exists x. split; [exact H | apply Z.eqb_refl].
Qed.
Lemma memZ_false : forall x l, memZ x l = false <-> ~ In x l.
Proof.
  intros x l. rewrite <- not_true_iff_false, memZ_In. tauto.
Qed.
Lemma overlapN_true : forall a b, overlapN a b = true <-> exists x, In x a /\ In x b.
Proof.
  intros a b. unfold overlapN. rewrite existsb_exists. split.
  - intros [x [Ha Hb]]. exists x. split; [exact Ha | apply memN_In; exact Hb].
  - intros [x [Ha Hb]]. exists x. split; [exact Ha | apply memN_In; exact Hb].
Qed.
Lemma overlapN_false : forall a b, overlapN a b = false <-> forall x, In x a -> ~ In x b.
Proof.
  intros a b. split.
  - intros H x Ha Hb. assert (T : overlapN a b = true) by (apply overlapN_true; exists x; auto). congruence.
  - intros H. destruct (overlapN a b) eqn:E; [|reflexivity].
    apply overlapN_true in E. destruct E as [x [Ha Hb]]. exfalso. exact (H x Ha Hb).
Qed.
Lemma overlapZ_true : forall a b, overlapZ a b = true <-> exists x, In x a /\ In x b.
Proof.
  intros a b. unfold overlapZ. rewrite existsb_exists. split.
  - intros [x [Ha Hb]]. exists x. split; [exact Ha | apply memZ_In; exact Hb].
  - intros [x [Ha Hb]]. exists x. split; [exact Ha | apply memZ_In; exact Hb].
Qed.
Lemma overlapZ_false : forall a b, overlapZ a b = false <-> forall x, In x a -> ~ In x b.
Proof.
  intros a b. split.
  - intros H x Ha Hb. assert (T : overlapZ a b = true) by (apply overlapZ_true; exists x; auto). congruence.
  - intros H. destruct (overlapZ a b) eqn:E; [|reflexivity].
    apply overlapZ_true in E. destruct E as [x [Ha Hb]]. exfalso. exact (H x Ha Hb).
Qed.
Lemma mem_addr_In : forall a l, mem_addr a l = true <-> In a l.
Proof.
  intros [f o] l. unfold mem_addr. rewrite existsb_exists. cbn [fst snd]. split.
  - intros [[g p] [Hy E]]. cbn [fst snd] in E. apply andb_true_iff in E as [E1 E2].
    apply N.eqb_eq in E1, E2. subst. exact Hy.
  - intros H. exists (f, o). split; [exact H|]. cbn [fst snd]. rewrite !N.eqb_refl. reflexivity.
Qed.
Lemma rows_of_In : forall aff f o, In o (rows_of aff f) <-> In (f, o) aff.
Proof.
  intros aff f o. unfold rows_of. rewrite in_map_iff. split.
  - intros [[g p] [E H]]. cbn [snd] in E. subst p. apply filter_In in H as [H E]. cbn [fst] in E.
    apply N.eqb_eq in E. subst. exact H.
  - intros H. exists (f, o). split; [reflexivity|]. apply filter_In. split; [exact H|]. cbn [fst]. apply N.eqb_refl.
Qed.

(* ------------------------------------------------------------------ union / nodup / cardinality *)
Lemma unionN_In : forall a b x, In x (unionN a b) <-> In x a \/ In x b.
Proof.
  intros a b x. unfold unionN. rewrite in_app_iff, filter_In. cbv beta. split.
  - intros [H | [H _]]; auto.
  - intros [H | H]; [left; exact H|]. destruct (memN x a) eqn:E.
    + left. apply memN_In. exact E.
    + right. split; [exact H|]. reflexivity.
Qed.
Lemma nodupN_In : forall l x, In x (nodupN l) <-> In x l.
Proof.
  induction l as [|y r IH]; intros x; cbn [nodupN]; [tauto|].
  destruct (memN y r) eqn:E.
  - rewrite IH. split; [intro H; right; exact H|]. intros [H | H]; [subst; apply memN_In; exact E | exact H].
  - cbn [In]. rewrite IH. tauto.
Qed.
Lemma nodupN_NoDup : forall l, NoDup (nodupN l).
Proof.
  induction l as [|y r IH]; cbn [nodupN]; [constructor|].
  destruct (memN y r) eqn:E; [exact IH|]. constructor; [|exact IH].
  rewrite nodupN_In. apply memN_false. exact E.
Qed.
Lemma nodupN_id : forall l, NoDup l -> nodupN l = l.
Proof.
  induction l as [|y r IH]; intros H; cbn [nodupN]; [reflexivity|]. inversion H as [|? ? Hn Hr]; subst.
  apply memN_false in Hn. rewrite Hn, (IH Hr). reflexivity.
Qed.
Lemma NoDup_app_intro {A} : forall (a b : list A), NoDup a -> NoDup b -> (forall x, In x a -> ~ In x b) -> NoDup (a ++ b).
Proof.
  induction a as [|x r IH]; intros b Ha Hb Hd; cbn [app]; [exact Hb|].
  inversion Ha as [|? ? Hn Hr]; subst. constructor.
  - rewrite in_app_iff. intros [H | H]; [exact (Hn H) | exact (Hd x (or_introl eq_refl) H)].
  - apply IH; [exact Hr | exact Hb | intros y Hy; apply Hd; right; exact Hy].
Qed.
Lemma NoDup_app_l {A} : forall (a b : list A), NoDup (a ++ b) -> NoDup a.
Proof.
  induction a as [|x r IH]; intros b H; [constructor|]. cbn [app] in H. inversion H as [|? ? Hn Hr]; subst.
  constructor; [intro Hx; apply Hn; apply in_or_app; left; exact Hx | exact (IH b Hr)].
Qed.
Lemma NoDup_app_r {A} : forall (a b : list A), NoDup (a ++ b) -> NoDup b.
Proof.
  induction a as [|x r IH]; intros b H; [exact H|]. cbn [app] in H. inversion H; subst. apply IH. assumption.
Qed.
Lemma NoDup_app_disj {A} : forall (a b : list A) x, NoDup (a ++ b) -> In x a -> ~ In x b.
Proof.
  induction a as [|y r IH]; intros b x H Ha Hb; [destruct Ha|]. cbn [app] in H. inversion H as [|? ? Hn Hr]; subst.
  destruct Ha as [E | Ha]; [subst; apply Hn; apply in_or_app; right; exact Hb | exact (IH b x Hr Ha Hb)].
Qed.
Lemma unionN_NoDup : forall a b, NoDup a -> NoDup b -> NoDup (unionN a b).
Proof.
  intros a b Ha Hb. unfold unionN. apply NoDup_app_intro; [exact Ha | apply NoDup_filter; exact Hb |].
  intros x Hx Hf. apply filter_In in Hf as [_ Hf]. cbv beta in Hf. apply memN_In in Hx. rewrite Hx in Hf. discriminate.
Qed.

(* a duplicate-free list of numbers below n that has n elements holds every number below n *)
Lemma card_full : forall (l : list N) (n : N),
  NoDup l -> (forall x, In x l -> x < n) -> N.of_nat (length l) = n -> forall x, x < n -> In x l.
Proof.
  intros l n Hnd Hlt Hlen x Hx.
  set (l' := map N.to_nat l).
  assert (Hnd' : NoDup l').
  { unfold l'. apply FinFun.Injective_map_NoDup; [|exact Hnd]. intros a b E. apply N2Nat.inj. exact E. }
  assert (Hincl : incl l' (seq 0 (N.to_nat n))).
  { intros y Hy. unfold l' in Hy. apply in_map_iff in Hy as [z [E Hz]]. subst y. apply in_seq.
    specialize (Hlt z Hz). lia. }
  assert (Hlen' : (length (seq 0 (N.to_nat n)) <= length l')%nat).
  { unfold l'. rewrite seq_length, map_length. lia. }
  pose proof (NoDup_length_incl Hnd' Hlen' Hincl) as Hrev.
  assert (Hin : In (N.to_nat x) l') by (apply Hrev; apply in_seq; lia).
  unfold l' in Hin. apply in_map_iff in Hin as [z [E Hz]]. apply N2Nat.inj in E. subst. exact Hz.
Qed.
Lemma cardN_full : forall (l : list N) (n : N),
  (forall x, In x l -> x < n) -> cardN l = n -> forall x, x < n -> In x l.
Proof.
  intros l n Hlt Hc x Hx. apply nodupN_In.
  apply (card_full (nodupN l) n); [apply nodupN_NoDup | intros y Hy; apply Hlt; apply nodupN_In; exact Hy | exact Hc | exact Hx].
Qed.

(* ------------------------------------------------------------------ fragment lookup *)
Lemma find_frag_some : forall i l f, find_frag i l = Some f -> In f l /\ f_id f = i.
Proof.
  intros i l f H. unfold find_frag in H. apply find_some in H as [H E]. apply N.eqb_eq in E. auto.
Qed.
Lemma find_frag_none : forall i l, find_frag i l = None <-> ~ In i (ids_of l).
Proof.
  intros i l. unfold find_frag, ids_of. split.
  - intros H Hin. apply in_map_iff in Hin as [f [E Hf]]. pose proof (find_none _ _ H f Hf) as Q.
    cbv beta in Q. rewrite E, N.eqb_refl in Q. discriminate.
  - intros H. destruct (find _ l) eqn:E; [|reflexivity]. apply find_some in E as [E1 E2].
    apply N.eqb_eq in E2. exfalso. apply H. apply in_map_iff. exists f. auto.
Qed.
Lemma find_frag_In : forall l f, NoDup (ids_of l) -> In f l -> find_frag (f_id f) l = Some f.
Proof.
  induction l as [|g r IH]; intros f Hnd Hin; [destruct Hin|]. cbn [ids_of map] in Hnd.
  inversion Hnd as [|? ? Hn Hr]; subst. unfold find_frag. cbn [find]. destruct (N.eqb (f_id g) (f_id f)) eqn:E.
  - apply N.eqb_eq in E. destruct Hin as [Hin | Hin]; [subst; reflexivity|].
    exfalso. apply Hn. rewrite E. apply in_map. exact Hin.
  - destruct Hin as [Hin | Hin]; [subst; rewrite N.eqb_refl in E; discriminate|]. apply IH; assumption.
Qed.
Lemma find_frag_app : forall i a b,
  find_frag i (a ++ b) = match find_frag i a with Some f => Some f | None => find_frag i b end.
Proof.
  intros i a b. unfold find_frag. induction a as [|f r IH]; cbn [app find]; [reflexivity|].
  destruct (N.eqb (f_id f) i); [reflexivity | exact IH].
Qed.
Lemma find_frag_map : forall (g : frag -> frag) i l, (forall f, f_id (g f) = f_id f) ->
  find_frag i (map g l) = option_map g (find_frag i l).
Proof.
  intros g i l Hg. unfold find_frag. induction l as [|f r IH]; cbn [map find]; [reflexivity|].
  rewrite Hg. destruct (N.eqb (f_id f) i); [reflexivity | exact IH].
Qed.
Lemma find_frag_filter : forall (q : N -> bool) i l,
  find_frag i (filter (fun f => q (f_id f)) l) = if q i then find_frag i l else None.
Proof.
  intros q i l. unfold find_frag. induction l as [|f r IH]; cbn [filter find]; [destruct (q i); reflexivity|].
  destruct (q (f_id f)) eqn:Eq; cbn [find].
  - destruct (N.eqb (f_id f) i) eqn:E; [apply N.eqb_eq in E; subst; rewrite Eq; reflexivity | exact IH].
  - destruct (N.eqb (f_id f) i) eqn:E; [apply N.eqb_eq in E; subst; rewrite Eq in IH |- *; exact IH | exact IH].
Qed.
Lemma ids_of_app : forall a b, ids_of (a ++ b) = ids_of a ++ ids_of b.
Proof. intros. unfold ids_of. apply map_app. Qed.
Lemma ids_of_map : forall (g : frag -> frag) l, (forall f, f_id (g f) = f_id f) -> ids_of (map g l) = ids_of l.
Proof.
  intros g l Hg. unfold ids_of. rewrite map_map. apply map_ext. exact Hg.
Qed.
Lemma find_frag_perm : forall i l l', NoDup (ids_of l) -> Permutation l l' -> find_frag i l' = find_frag i l.
Proof.
  intros i l l' Hnd Hp.
  assert (Hnd' : NoDup (ids_of l')).
  { unfold ids_of. eapply Permutation_NoDup; [apply Permutation_map; exact Hp | exact Hnd]. }
  destruct (find_frag i l) eqn:E.
  - apply find_frag_some in E as [Hin Hid]. subst i. apply find_frag_In; [exact Hnd'|].
    eapply Permutation_in; eassumption.
  - apply find_frag_none. apply find_frag_none in E. intro H. apply E.
    unfold ids_of in *. eapply Permutation_in; [apply Permutation_map; apply Permutation_sym; exact Hp | exact H].
Qed.

Section Sorting.
  Variable frows : N -> N.
  Lemma insert_frag_perm : forall f l, Permutation (insert_frag f l) (f :: l).
  Proof.
    intros f l. induction l as [|g r IH]; cbn [insert_frag]; [apply Permutation_refl|].
    destruct (N.ltb (f_id f) (f_id g)); [apply Permutation_refl|].
    eapply Permutation_trans; [apply perm_skip; exact IH | apply perm_swap].
  Qed.
  Lemma sort_frags_perm : forall l, Permutation (sort_frags l) l.
  Proof.
    induction l as [|f r IH]; cbn [sort_frags fold_right]; [apply Permutation_refl|].
    eapply Permutation_trans; [apply insert_frag_perm | apply perm_skip; exact IH].
  Qed.
End Sorting.

(* ------------------------------------------------------------------ maxima *)
Definition omax (a b : option N) : option N :=
  match a, b with
  | None, _ => b
  | _, None => a
  | Some x, Some y => Some (N.max x y)
  end.
Lemma omax_comm : forall a b, omax a b = omax b a.
Proof. intros [x|] [y|]; cbn; try reflexivity. rewrite N.max_comm. reflexivity. Qed.
Lemma omax_assoc : forall a b c, omax a (omax b c) = omax (omax a b) c.
Proof. intros [x|] [y|] [z|]; cbn; try reflexivity. rewrite N.max_assoc. reflexivity. Qed.
Lemma omax_none_r : forall a, omax a None = a.
Proof. intros [x|]; reflexivity. Qed.
Fixpoint lmax (l : list N) : option N :=
  match l with [] => None | x :: r => omax (Some x) (lmax r) end.
Lemma fold_max_omax : forall r x, Some (fold_left N.max r x) = omax (Some x) (lmax r).
Proof.
  induction r as [|y t IH]; intros x; cbn [fold_left lmax]; [reflexivity|].
  rewrite IH. rewrite omax_assoc. reflexivity.
Qed.
Lemma list_max_lmax : forall l, list_max l = lmax l.
Proof.
  intros [|x r]; cbn [list_max lmax]; [reflexivity | apply fold_max_omax].
Qed.
Lemma lmax_app : forall a b, lmax (a ++ b) = omax (lmax a) (lmax b).
Proof.
  induction a as [|x r IH]; intros b; cbn [app lmax]; [reflexivity|]. rewrite IH. apply omax_assoc.
Qed.
Lemma lmax_perm : forall l l', Permutation l l' -> lmax l = lmax l'.
Proof.
  intros l l' H. induction H; cbn [lmax]; try congruence.
  rewrite !omax_assoc. rewrite (omax_comm (Some y) (Some x)). reflexivity.
Qed.
Lemma lmax_none : forall l, lmax l = None -> l = [].
Proof. intros [|x r]; [reflexivity|]. cbn [lmax]. destruct (lmax r); cbn; discriminate. Qed.
Lemma lmax_le : forall l m, lmax l = Some m -> forall x, In x l -> x <= m.
Proof.
  induction l as [|y r IH]; intros m H x Hin; [destruct Hin|]. cbn [lmax] in H.
  destruct (lmax r) as [mr|] eqn:E; cbn in H; inversion H; subst.
  - destruct Hin as [Hin | Hin]; [subst; lia|]. specialize (IH mr eq_refl x Hin). lia.
  - destruct Hin as [Hin | Hin]; [subst; lia|]. apply lmax_none in E. subst. destruct Hin.
Qed.
Lemma lmax_bound : forall l M, (forall x, In x l -> x <= M) -> omax (Some M) (lmax l) = Some M.
Proof.
  induction l as [|y r IH]; intros M H; cbn [lmax]; [reflexivity|].
  rewrite omax_assoc. cbn [omax]. rewrite N.max_l by (apply H; left; reflexivity).
  apply IH. intros x Hx. apply H. right. exact Hx.
Qed.
Lemma upd_maxfid_ids_omax : forall prev ids, upd_maxfid_ids prev ids = omax prev (lmax ids).
Proof.
  intros prev ids. unfold upd_maxfid_ids. rewrite list_max_lmax. destruct (lmax ids) as [mx|]; [|rewrite omax_none_r; reflexivity].
  destruct prev as [c|]; cbn [omax]; [|reflexivity]. destruct (N.ltb c mx) eqn:E.
  - apply N.ltb_lt in E. rewrite N.max_r by lia. reflexivity.
  - apply N.ltb_ge in E. rewrite N.max_l by lia. reflexivity.
Qed.

(* ------------------------------------------------------------------ id assignment *)
Lemma assign_ids_app : forall a b n,
  assign_ids n (a ++ b) =
  (fst (assign_ids n a) ++ fst (assign_ids (snd (assign_ids n a)) b), snd (assign_ids (snd (assign_ids n a)) b)).
Proof.
  induction a as [|f r IH]; intros b n; cbn [app assign_ids fst snd].
  - destruct (assign_ids n b); reflexivity.
  - destruct (N.eqb (f_id f) 0).
    + rewrite IH. destruct (assign_ids (n + 1) r) as [r1 n1]. cbn [fst snd].
      destruct (assign_ids n1 b) as [r2 n2]. reflexivity.
    + rewrite IH. destruct (assign_ids n r) as [r1 n1]. cbn [fst snd].
      destruct (assign_ids n1 b) as [r2 n2]. reflexivity.
Qed.
Definition all_zero (l : list frag) : Prop := forall f, In f l -> f_id f = 0.
Lemma assign_ids_zero : forall l n, all_zero l ->
  ids_of (fst (assign_ids n l)) = map (fun k => n + N.of_nat k) (seq 0 (length l)) /\ snd (assign_ids n l) = n + N.of_nat (length l).
Proof.
  induction l as [|f r IH]; intros n Hz; cbn [assign_ids]; [split; [reflexivity | cbn; lia]|].
  rewrite (Hz f (or_introl eq_refl)). cbn [N.eqb]. rewrite N.eqb_refl.
  destruct (IH (n + 1)) as [E1 E2]; [intros g Hg; apply Hz; right; exact Hg|].
  destruct (assign_ids (n + 1) r) as [r' n'] eqn:Er. cbn [fst snd] in *. split.
  - cbn [ids_of map length seq]. cbn [f_id set_id]. f_equal; [lia|].
    unfold ids_of in E1. rewrite E1. rewrite <- seq_shift, map_map. apply map_ext. intros k. lia.
  - rewrite E2. cbn [length]. lia.
Qed.
Lemma assign_ids_fresh : forall l n f, all_zero l -> In f (fst (assign_ids n l)) -> n <= f_id f.
Proof.
  intros l n f Hz Hin. destruct (assign_ids_zero l n Hz) as [E _].
  assert (Hi : In (f_id f) (ids_of (fst (assign_ids n l)))) by (apply in_map; exact Hin).
  rewrite E in Hi. apply in_map_iff in Hi as [k [Ek _]]. lia.
Qed.
Lemma assign_ids_NoDup : forall l n, all_zero l -> NoDup (ids_of (fst (assign_ids n l))).
Proof.
  intros l n Hz. destruct (assign_ids_zero l n Hz) as [E _]. rewrite E.
  apply FinFun.Injective_map_NoDup; [intros a b H; lia | apply seq_NoDup].
Qed.
(* assignment keeps files and deletion file *)
Lemma assign_ids_shape : forall l n f, In f (fst (assign_ids n l)) ->
  exists g, In g l /\ f_files f = f_files g /\ f_del f = f_del g.
Proof.
  induction l as [|g r IH]; intros n f Hin; cbn [assign_ids] in Hin; [destruct Hin|].
  destruct (N.eqb (f_id g) 0).
  - destruct (assign_ids (n + 1) r) as [r' n'] eqn:Er. cbn [fst] in Hin. destruct Hin as [E | Hin].
    + subst f. exists g. split; [left; reflexivity | split; reflexivity].
    + assert (Hin' : In f (fst (assign_ids (n + 1) r))) by (rewrite Er; exact Hin).
      destruct (IH _ _ Hin') as [g' [H1 H2]]. exists g'. split; [right; exact H1 | exact H2].
  - destruct (assign_ids n r) as [r' n'] eqn:Er. cbn [fst] in Hin. destruct Hin as [E | Hin].
    + subst f. exists g. split; [left; reflexivity | split; reflexivity].
    + assert (Hin' : In f (fst (assign_ids n r))) by (rewrite Er; exact Hin).
      destruct (IH _ _ Hin') as [g' [H1 H2]]. exists g'. split; [right; exact H1 | exact H2].
Qed.
