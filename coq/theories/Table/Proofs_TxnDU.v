(* C03/C04 - the rebase of a delete / update: what the sequence of successful checks and finish_delete_update
   establish about the fragments the transaction modifies. *)
From LanceV Require Import Common.Base Table.Model_Txn Table.Proofs_TxnBase Table.Proofs_TxnFrame Table.Proofs_TxnChain.
From Coq Require Import Permutation.
Local Open Scope N_scope.

Section DU.
  Variable frows : N -> N.
  Variable fcontent : N -> Z -> N -> option N.
  Notation frag_rows := (frag_rows frows).
  Notation fcell := (fcell fcontent).
  Notation wf_frag := (wf_frag frows).
  Notation wf_manifest := (wf_manifest frows).
  Notation Sim := (Sim frows fcontent).
  Notation Chain := (Chain frows).
  Notation StepOk := (StepOk).

  Lemma step_schema_incl : forall m1 o m2 T, build_manifest m1 o = Ok m2 -> GoodOp m1 o -> touched o = Some T ->
    incl (schema_ids (m_schema m2)) (schema_ids (m_schema m1)).
  Proof.
    intros m1 o m2 T Hb Hg Ht. rewrite (build_schema _ _ _ Hb).
    destruct o; cbn [touched] in Ht; try discriminate; try apply incl_refl.
    destruct Hg as [Hi _]. intros x Hx. unfold schema_ids in *. apply in_map_iff in Hx as [p [E Hp]]. subst.
    apply in_map. apply Hi. exact Hp.
  Qed.

  (* the entry that a committed Delete / Update leaves for a fragment it does not remove *)
  Lemma du_build_In : forall m1 o m2 upd removed f1,
    build_manifest m1 o = Ok m2 ->
    (o = Delete upd removed \/ exists a b c d e, o = Update removed upd a b c d e) ->
    In f1 (m_frags m1) -> ~ In (f_id f1) removed ->
    exists r, In (detomb r) (m_frags m2) /\ (r = f1 \/ (In r upd /\ f_id r = f_id f1)) /\ m_schema m2 = m_schema m1.
  Proof.
    intros m1 o m2 upd removed f1 Hb Ho Hin Hn. destruct Ho as [Ho | [a [b [c [d [e Ho]]]]]]; subst o; cbn [build_manifest] in Hb;
      inversion Hb; subst; clear Hb.
    - exists (replace_last upd f1). split; [|split; [|reflexivity]].
      + apply mk_manifest_In. apply in_map. apply filter_In. split; [exact Hin|]. apply negb_true_iff. apply memN_false. exact Hn.
      + destruct (replace_last_cases upd f1) as [E | E]; [left; exact E | right; split; [exact E | apply replace_last_id]].
    - exists (replace_first upd f1). split; [|split; [|reflexivity]].
      + apply mk_manifest_In. apply in_or_app. left. apply in_map. apply filter_In. split; [exact Hin|].
        apply negb_true_iff. apply memN_false. exact Hn.
      + destruct (replace_first_cases upd f1) as [E | E]; [left; exact E | right; split; [exact E | apply replace_first_id]].
  Qed.

  Definition InvDU (m : manifest) (init : list (frag * bool)) : Prop :=
    forall fi b, In (fi, b) init ->
      exists fc, find_frag (f_id fi) (m_frags m) = Some fc /\ Sim (m_schema m) fi fc /\ (b = false -> f_del fc = f_del fi).

  Definition same_core (rb rb' : rebase) : Prop :=
    rb_op rb' = rb_op rb /\ rb_mod rb' = rb_mod rb /\ rb_aff rb' = rb_aff rb /\ init_ids (rb_init rb') = init_ids (rb_init rb)
    /\ (forall fi b', In (fi, b') (rb_init rb') -> exists b, In (fi, b) (rb_init rb) /\ (b = true -> b' = true)).
  Lemma same_core_refl : forall rb, same_core rb rb.
  Proof. intros rb. repeat split; auto. intros fi b' H. exists b'. auto. Qed.
  Lemma same_core_trans : forall a b c, same_core a b -> same_core b c -> same_core a c.
  Proof.
    intros a b c [A1 [A2 [A3 [A4 A5]]]] [B1 [B2 [B3 [B4 B5]]]]. repeat split; try congruence.
    intros fi b' H. destruct (B5 fi b' H) as [b1 [H1 M1]]. destruct (A5 fi b1 H1) as [b0 [H0 M0]]. exists b0. auto.
  Qed.

  Lemma step_du : forall m1 o m2 rb mw isu rb',
    wf_manifest m1 -> wf_manifest m2 -> build_manifest m1 o = Ok m2 -> GoodOp m1 o -> gen_op o ->
    NoDup (init_ids (rb_init rb)) -> InvDU m1 (rb_init rb) ->
    (forall i, In i (init_ids (rb_init rb)) -> In i (rb_mod rb)) ->
    check_delete_update rb mw isu o = (VOk, rb') ->
    InvDU m2 (rb_init rb') /\ same_core rb rb' /\ incl (schema_ids (m_schema m2)) (schema_ids (m_schema m1)).
  Proof.
    intros m1 o m2 rb mw isu rb' Hw1 Hw2 Hb Hg Hgen Hnd Hinv Hmod Hc.
    destruct (check_du_result rb mw isu o rb' Hc Hgen) as [[E [T [Ht HT]]] | [upd [removed [init' [Ho [Hcu [Hex E]]]]]]].
    - subst rb'. split; [|split; [apply same_core_refl | exact (step_schema_incl _ _ _ _ Hb Hg Ht)]].
      intros fi b Hin. destruct (Hinv fi b Hin) as [f1 [F1 [F2 F3]]].
      assert (Hm : In (f_id fi) (rb_mod rb)).
      { apply Hmod. unfold init_ids. apply (in_map (fun q => f_id (fst q)) _ (fi, b)). exact Hin. }
      destruct (step_untouched frows fcontent m1 o m2 T fi f1 Hw1 Hw2 Hb Hg Ht F1 F2 (HT _ Hm)) as [f2 [G1 [G2 [G3 _]]]].
      exists f2. split; [exact G1 | split; [exact G2 | intros Eb; rewrite G3; apply F3; exact Eb]].
    - subst rb'. destruct (chk_updated_spec upd _ _ Hnd Hcu) as [A [B C]].
      assert (Hsch : m_schema m2 = m_schema m1).
      { rewrite (build_schema _ _ _ Hb). destruct Ho as [Ho | [a [b [c [d [e Ho]]]]]]; subst o; reflexivity. }
      split; [|split].
      + intros fi b' Hin. cbn [rb_init with_init] in Hin.
        destruct (B fi b' Hin) as [b [Hb0 [Hmono Hdel]]].
        destruct (Hinv fi b Hb0) as [f1 [F1 [F2 F3]]].
        pose proof (find_frag_some _ _ _ F1) as [Hin1 Hid1].
        assert (Hnr : ~ In (f_id f1) removed).
        { intro Hr. rewrite Hid1 in Hr.
          assert (Q : init_has (f_id fi) init' = true).
          { apply init_has_ids. unfold init_ids. apply (in_map (fun q => f_id (fst q)) _ (fi, b')). exact Hin. }
          assert (Q' : existsb (fun i => init_has i init') removed = true) by (apply existsb_exists; exists (f_id fi); auto).
          congruence. }
        destruct (du_build_In m1 o m2 upd removed f1 Hb Ho Hin1 Hnr) as [r [R1 [R2 _]]].
        destruct Hw2 as [Hnd2 [_ [Hs2 _]]].
        assert (Hidr : f_id r = f_id fi) by (destruct R2 as [R2 | [_ R2]]; [subst r; exact Hid1 | rewrite R2; exact Hid1]).
        exists (detomb r). split; [|split].
        * rewrite <- Hidr. rewrite <- (detomb_id r). apply find_frag_In; assumption.
        * rewrite Hsch. rewrite Hsch in Hs2. apply Sim_detomb; [exact Hs2|].
          destruct R2 as [R2 | [R2 _]]; [subst r; exact F2|].
          pose proof (C fi b r Hb0 R2 Hidr) as Efiles.
          destruct F2 as [S1 [S2 [S3 S4]]]. unfold Proofs_TxnFrame.Sim. split; [exact Hidr | split; [|split]].
          -- apply same_files_rows. exact Efiles.
          -- intros x o0 _. apply same_files_cell. exact Efiles.
          -- intros d Hd. apply S4 in Hd.
             assert (Hgo : forall u c, In u upd -> ~ In (f_id u) removed -> find_frag (f_id u) (m_frags m1) = Some c -> incl (dels_of c) (dels_of u)).
             { destruct Ho as [Ho | [a0 [b0 [c0 [d0 [e0 Ho]]]]]]; subst o; exact Hg. }
             apply (Hgo r f1 R2); [rewrite Hidr, <- Hid1; exact Hnr | rewrite Hidr; exact F1 | exact Hd].
        * intros Eb'. rewrite detomb_del. destruct R2 as [R2 | [R2 _]].
          -- subst r. apply F3. destruct b; [specialize (Hmono eq_refl); congruence | reflexivity].
          -- exact (Hdel Eb' r R2 Hidr).
      + unfold same_core. cbn [rb_op rb_mod rb_aff rb_init with_init]. repeat split; auto.
        intros fi b' Hin. destruct (B fi b' Hin) as [b [Hb0 [Hmono _]]]. exists b. auto.
      + rewrite Hsch. apply incl_refl.
  Qed.

  Definition is_du (o : op) : Prop := match o with Delete _ _ | Update _ _ _ _ _ _ _ => True | _ => False end.

  Lemma chain_du : forall m ops m', Chain m ops m' -> forall rb rb', wf_manifest m -> is_du (rb_op rb) ->
    NoDup (init_ids (rb_init rb)) -> InvDU m (rb_init rb) ->
    (forall i, In i (init_ids (rb_init rb)) -> In i (rb_mod rb)) ->
    check_all rb ops = (VOk, rb') ->
    InvDU m' (rb_init rb') /\ same_core rb rb' /\ incl (schema_ids (m_schema m')) (schema_ids (m_schema m)).
  Proof.
    intros m ops m' Hc. induction Hc as [m | m o m1 ops m' Hstep Hw1 Hc IH]; intros rb rb' Hw Hdu Hnd Hinv Hmod Hall.
    - cbn [check_all] in Hall. inversion Hall; subst. split; [exact Hinv | split; [apply same_core_refl | apply incl_refl]].
    - apply check_all_cons in Hall as [rb1 [Hc1 Hall]].
      assert (Hcd : exists mw isu, check_txn rb o = check_delete_update rb mw isu o).
      { unfold check_txn. destruct (rb_op rb); try contradiction; eauto. }
      destruct Hcd as [mw [isu Hcd]]. rewrite Hcd in Hc1.
      destruct Hstep as [Hb Hg Hgen | v Ev].
      + destruct (step_du m o m1 rb mw isu rb1 Hw Hw1 Hb Hg Hgen Hnd Hinv Hmod Hc1) as [I1 [C1 S1]].
        destruct C1 as [C1a [C1b [C1c [C1d C1e]]]].
        assert (Hdu1 : is_du (rb_op rb1)) by (rewrite C1a; exact Hdu).
        assert (Hnd1 : NoDup (init_ids (rb_init rb1))) by (rewrite C1d; exact Hnd).
        assert (Hmod1 : forall i, In i (init_ids (rb_init rb1)) -> In i (rb_mod rb1)).
        { intros i Hi. rewrite C1b. apply Hmod. rewrite <- C1d. exact Hi. }
        destruct (IH rb1 rb' Hw1 Hdu1 Hnd1 I1 Hmod1 Hall) as [I2 [C2 S2]].
        split; [exact I2 | split].
        * apply (same_core_trans rb rb1 rb'); [repeat split; assumption | exact C2].
        * intros x Hx. apply S1. apply S2. exact Hx.
      + subst o. cbn [check_delete_update] in Hc1. inversion Hc1.
  Qed.


  (* ---------------------------------------------------------------- finish_delete_update *)
  Lemma assocN_In {A} : forall k (l : list (N * A)) v, assocN k l = Some v -> In (k, v) l.
  Proof.
    intros k l v. induction l as [|[a b] r IH]; cbn [assocN]; [discriminate|].
    destruct (N.eqb a k) eqn:E; [apply N.eqb_eq in E; intros H; inversion H; subst; left; reflexivity | intros H; right; exact (IH H)].
  Qed.

  Lemma existing_dels_spec : forall cur to_rw ex, NoDup (ids_of cur) -> existing_dels cur to_rw = Some ex ->
    forall f, assocN f ex =
      (if memN f to_rw then match find_frag f cur with Some fc => option_map snd (f_del fc) | None => None end else None)
      /\ (memN f to_rw = true -> forall fc, find_frag f cur = Some fc -> f_del fc <> None).
  Proof.
    induction cur as [|c r IH]; intros to_rw ex Hnd H f; cbn [existing_dels] in H.
    - inversion H; subst. cbn. destruct (memN f to_rw); split; auto; intros _ fc Q; discriminate.
    - cbn [ids_of map] in Hnd. inversion Hnd as [|? ? Hn Hr]; subst.
      unfold find_frag. cbn [find]. fold (find_frag f r).
      destruct (memN (f_id c) to_rw) eqn:Ec.
      + destruct (f_del c) as [d|] eqn:Ed; [|discriminate]. destruct (existing_dels r to_rw) as [rest|] eqn:Er; [|discriminate].
        inversion H; subst. destruct (IH to_rw rest Hr Er f) as [A B]. cbn [assocN].
        destruct (N.eqb (f_id c) f) eqn:E.
        * apply N.eqb_eq in E. subst f. rewrite Ec. split; [rewrite Ed; reflexivity | intros _ fc Q; inversion Q; subst; congruence].
        * split; [exact A | exact B].
      + destruct (IH to_rw ex Hr H f) as [A B]. destruct (N.eqb (f_id c) f) eqn:E.
        * apply N.eqb_eq in E. subst f. rewrite Ec. split; [|intros Q; discriminate].
          rewrite A, Ec. reflexivity.
        * split; [exact A | exact B].
  Qed.

  Lemma rewrite_dvs_spec : forall init ex aff to_rw nd gone2 files, NoDup to_rw ->
    rewrite_dvs frows init ex aff to_rw nd = Some (gone2, files) ->
    (forall f, In f to_rw -> exists dv, merged_dv ex aff f = Some dv /\
        (if (match init_get f init with Some (fr, _) => N.eqb (cardN dv) (frag_rows fr) | None => false end)
         then In f gone2 /\ assocN f files = None else ~ In f gone2 /\ assocN f files = Some (nd, dv)))
    /\ (forall f, ~ In f to_rw -> ~ In f gone2 /\ assocN f files = None).
  Proof.
    intros init ex aff. induction to_rw as [|t r IH]; intros nd gone2 files Hnd H; cbn [rewrite_dvs] in H.
    - inversion H; subst. split; [intros f []|]. intros f _. split; [intros [] | reflexivity].
    - inversion Hnd as [|? ? Hn Hr]; subst.
      destruct (merged_dv ex aff t) as [dv|] eqn:Em; [|discriminate].
      destruct (rewrite_dvs frows init ex aff r nd) as [[g0 f0]|] eqn:Er; [|discriminate].
      destruct (IH nd g0 f0 Hr Er) as [A B].
      set (whole := match init_get t init with Some (fr, _) => N.eqb (cardN dv) (frag_rows fr) | None => false end) in *.
      destruct (B t Hn) as [Bt1 Bt2].
      destruct whole eqn:Ew; inversion H; subst; clear H; (split; [intros f [Hf | Hf] | intros f Hf]).
      + subst f. exists dv. split; [exact Em|]. fold whole. rewrite Ew. split; [left; reflexivity | exact Bt2].
      + destruct (A f Hf) as [dv' [E1 E2]]. exists dv'. split; [exact E1|].
        destruct (match init_get f init with Some (fr, _) => N.eqb (cardN dv') (frag_rows fr) | None => false end).
        * destruct E2 as [E2 E3]. split; [right; exact E2 | exact E3].
        * destruct E2 as [E2 E3]. split; [|exact E3]. intros [Q | Q]; [subst; exact (Hn Hf) | exact (E2 Q)].
      + destruct (B f (fun Q => Hf (or_intror Q))) as [B1 B2]. split; [|exact B2].
        intros [Q | Q]; [subst; apply Hf; left; reflexivity | exact (B1 Q)].
      + subst f. exists dv. split; [exact Em|]. fold whole. rewrite Ew. split; [exact Bt1|]. cbn [assocN]. rewrite N.eqb_refl. reflexivity.
      + destruct (A f Hf) as [dv' [E1 E2]]. exists dv'. split; [exact E1|].
        assert (Hne : N.eqb t f = false) by (apply N.eqb_neq; intro Q; subst; exact (Hn Hf)).
        cbn [assocN]. rewrite Hne. exact E2.
      + destruct (B f (fun Q => Hf (or_intror Q))) as [B1 B2]. split; [exact B1|]. cbn [assocN].
        assert (Hne : N.eqb t f = false) by (apply N.eqb_neq; intro Q; subst; apply Hf; left; reflexivity). rewrite Hne. exact B2.
  Qed.


  (* ---------------------------------------------------------------- the deletions a writer computes at its read version *)
  Lemma nodupN_nil : forall l, nodupN l = [] -> l = [].
  Proof.
    intros [|x r] H; [reflexivity|]. exfalso. assert (Hin : In x (nodupN (x :: r))) by (apply nodupN_In; left; reflexivity).
    rewrite H in Hin. destruct Hin.
  Qed.
  Lemma del_in_frag_upd : forall rows nd fi u, del_in_frag frows rows nd fi = Some (Some u) ->
    u = set_del fi (Some (nd, unionN (dels_of fi) (nodupN (rows_of rows (f_id fi)))))
    /\ nodupN (rows_of rows (f_id fi)) <> []
    /\ cardN (unionN (dels_of fi) (nodupN (rows_of rows (f_id fi)))) <> frag_rows fi.
  Proof.
    intros rows nd fi u H. unfold del_in_frag in H. destruct (nodupN (rows_of rows (f_id fi))) as [|a r] eqn:E; [discriminate|].
    destruct (N.eqb (cardN (unionN (dels_of fi) (a :: r))) (frag_rows fi)) eqn:Ec; [discriminate|].
    inversion H; subst. split; [reflexivity | split; [discriminate | apply N.eqb_neq; exact Ec]].
  Qed.
  Lemma del_in_frag_gone : forall rows nd fi, del_in_frag frows rows nd fi = Some None ->
    nodupN (rows_of rows (f_id fi)) <> []
    /\ cardN (unionN (dels_of fi) (nodupN (rows_of rows (f_id fi)))) = frag_rows fi.
  Proof.
    intros rows nd fi H. unfold del_in_frag in H. destruct (nodupN (rows_of rows (f_id fi))) as [|a r] eqn:E; [discriminate|].
    destruct (N.eqb (cardN (unionN (dels_of fi) (a :: r))) (frag_rows fi)) eqn:Ec; [|discriminate].
    split; [discriminate | apply N.eqb_eq; exact Ec].
  Qed.
  Lemma del_in_frag_none : forall rows nd fi, del_in_frag frows rows nd fi = None -> forall o, ~ In (f_id fi, o) rows.
  Proof.
    intros rows nd fi H o Hin. unfold del_in_frag in H. destruct (nodupN (rows_of rows (f_id fi))) as [|a r] eqn:E.
    - apply nodupN_nil in E. apply rows_of_In in Hin. rewrite E in Hin. destruct Hin.
    - destruct (N.eqb _ _); discriminate.
  Qed.

  Lemma mk_deletions_spec : forall frs rows nd upd gone, mk_deletions frows frs rows nd = (upd, gone) ->
    (forall u, In u upd <-> exists fi, In fi frs /\ del_in_frag frows rows nd fi = Some (Some u))
    /\ (forall i, In i gone <-> exists fi, In fi frs /\ f_id fi = i /\ del_in_frag frows rows nd fi = Some None).
  Proof.
    intros frs rows nd upd gone H. unfold mk_deletions in H. inversion H; subst; clear H. split.
    - intros u. rewrite in_flat_map. split.
      + intros [fi [Hfi Hu]]. exists fi. split; [exact Hfi|]. destruct (del_in_frag frows rows nd fi) as [[u'|]|]; try destruct Hu.
        * subst. reflexivity. * destruct H.
      + intros [fi [Hfi E]]. exists fi. split; [exact Hfi|]. rewrite E. left. reflexivity.
    - intros i. rewrite in_flat_map. split.
      + intros [fi [Hfi Hu]]. exists fi. split; [exact Hfi|]. destruct (del_in_frag frows rows nd fi) as [[u'|]|]; try destruct Hu.
        * subst. auto. * destruct H.
      + intros [fi [Hfi [Ei E]]]. exists fi. split; [exact Hfi|]. rewrite E. left. exact Ei.
  Qed.
End DU.
