(* C03/C04 - the rebase of a delete / update: what the sequence of successful checks and finish_delete_update
   establish about the fragments the transaction modifies. *)
From LanceV Require Import Common.Base Table.Model_Txn Table.Proofs_TxnBase Table.Proofs_TxnFrame Table.Proofs_TxnChain.
From Coq Require Import Permutation.
Local Open Scope N_scope.

Section DU.
  Variable frows : N -> N.
  Variable fcontent : N -> Z -> N -> option N.
  Notation frag_rows := (frag_rows frows).
  Notation fcell := (fcell fcontent).
  Notation wf_frag := (wf_frag frows).
  Notation wf_manifest := (wf_manifest frows).
  Notation Sim := (Sim frows fcontent).
  Notation Chain := (Chain frows).
  Notation StepOk := (StepOk).

  Lemma step_schema_incl : forall m1 o m2 T, build_manifest m1 o = Ok m2 -> GoodOp m1 o -> touched o = Some T ->
    incl (schema_ids (m_schema m2)) (schema_ids (m_schema m1)).
  Proof.
    intros m1 o m2 T Hb Hg Ht. rewrite (build_schema _ _ _ Hb).
    destruct o; cbn [touched] in Ht; try discriminate; try apply incl_refl.
    destruct Hg as [Hi _]. intros x Hx. unfold schema_ids in *. apply in_map_iff in Hx as [p [E Hp]]. subst.
    apply in_map. apply Hi. exact Hp.
  Qed.

  (* the entry that a committed Delete / Update leaves for a fragment it does not remove *)
  Lemma du_build_In : forall m1 o m2 upd removed f1,
    build_manifest m1 o = Ok m2 ->
    (o = Delete upd removed \/ exists a b c d e, o = Update removed upd a b c d e) ->
    In f1 (m_frags m1) -> ~ In (f_id f1) removed ->
    exists r, In (detomb r) (m_frags m2) /\ (r = f1 \/ (In r upd /\ f_id r = f_id f1)) /\ m_schema m2 = m_schema m1.
  Proof.
    intros m1 o m2 upd removed f1 Hb Ho Hin Hn. destruct Ho as [Ho | [a [b [c [d [e Ho]]]]]]; subst o; cbn [build_manifest] in Hb;
      inversion Hb; subst; clear Hb.
    - exists (replace_last upd f1). split; [|split; [|reflexivity]].
      + apply mk_manifest_In. apply in_map. apply filter_In. split; [exact Hin|]. apply negb_true_iff. apply memN_false. exact Hn.
      + destruct (replace_last_cases upd f1) as [E | E]; [left; exact E | right; split; [exact E | apply replace_last_id]].
    - exists (replace_first upd f1). split; [|split; [|reflexivity]].
      + apply mk_manifest_In. apply in_or_app. left. apply in_map. apply filter_In. split; [exact Hin|].
        apply negb_true_iff. apply memN_false. exact Hn.
      + destruct (replace_first_cases upd f1) as [E | E]; [left; exact E | right; split; [exact E | apply replace_first_id]].
  Qed.

  Definition InvDU (m : manifest) (init : list (frag * bool)) : Prop :=
    forall fi b, In (fi, b) init ->
      exists fc, find_frag (f_id fi) (m_frags m) = Some fc /\ Sim (m_schema m) fi fc /\ (b = false -> f_del fc = f_del fi).

  Definition same_core (rb rb' : rebase) : Prop :=
    rb_op rb' = rb_op rb /\ rb_mod rb' = rb_mod rb /\ rb_aff rb' = rb_aff rb /\ init_ids (rb_init rb') = init_ids (rb_init rb)
    /\ (forall fi b', In (fi, b') (rb_init rb') -> exists b, In (fi, b) (rb_init rb) /\ (b = true -> b' = true)).
  Lemma same_core_refl : forall rb, same_core rb rb.
  Proof. intros rb. repeat split; auto. intros fi b' H. exists b'. auto. Qed.
  Lemma same_core_trans : forall a b c, same_core a b -> same_core b c -> same_core a c.
  Proof.
    intros a b c [A1 [A2 [A3 [A4 A5]]]] [B1 [B2 [B3 [B4 B5]]]]. repeat split; try congruence.
    intros fi b' H. destruct (B5 fi b' H) as [b1 [H1 M1]]. destruct (A5 fi b1 H1) as [b0 [H0 M0]]. exists b0. auto.
  Qed.

  Lemma step_du : forall m1 o m2 rb mw isu rb',
    wf_manifest m1 -> wf_manifest m2 -> build_manifest m1 o = Ok m2 -> GoodOp m1 o -> gen_op o ->
    NoDup (init_ids (rb_init rb)) -> InvDU m1 (rb_init rb) ->
    (forall i, In i (init_ids (rb_init rb)) -> In i (rb_mod rb)) ->
    check_delete_update rb mw isu o = (VOk, rb') ->
    InvDU m2 (rb_init rb') /\ same_core rb rb' /\ incl (schema_ids (m_schema m2)) (schema_ids (m_schema m1)).
  Proof.
    intros m1 o m2 rb mw isu rb' Hw1 Hw2 Hb Hg Hgen Hnd Hinv Hmod Hc.
    destruct (check_du_result rb mw isu o rb' Hc Hgen) as [[E [T [Ht HT]]] | [upd [removed [init' [Ho [Hcu [Hex E]]]]]]].
    - subst rb'. split; [|split; [apply same_core_refl | exact (step_schema_incl _ _ _ _ Hb Hg Ht)]].
      intros fi b Hin. destruct (Hinv fi b Hin) as [f1 [F1 [F2 F3]]].
      assert (Hm : In (f_id fi) (rb_mod rb)).
      { apply Hmod. unfold init_ids. apply (in_map (fun q => f_id (fst q)) _ (fi, b)). exact Hin. }
      destruct (step_untouched frows fcontent m1 o m2 T fi f1 Hw1 Hw2 Hb Hg Ht F1 F2 (HT _ Hm)) as [f2 [G1 [G2 [G3 _]]]].
      exists f2. split; [exact G1 | split; [exact G2 | intros Eb; rewrite G3; apply F3; exact Eb]].
    - subst rb'. destruct (chk_updated_spec upd _ _ Hnd Hcu) as [A [B C]].
      assert (Hsch : m_schema m2 = m_schema m1).
      { rewrite (build_schema _ _ _ Hb). destruct Ho as [Ho | [a [b [c [d [e Ho]]]]]]; subst o; reflexivity. }
      split; [|split].
      + intros fi b' Hin. cbn [rb_init with_init] in Hin.
        destruct (B fi b' Hin) as [b [Hb0 [Hmono Hdel]]].
        destruct (Hinv fi b Hb0) as [f1 [F1 [F2 F3]]].
        pose proof (find_frag_some _ _ _ F1) as [Hin1 Hid1].
        assert (Hnr : ~ In (f_id f1) removed).
        { intro Hr. rewrite Hid1 in Hr.
          assert (Q : init_has (f_id fi) init' = true).
          { apply init_has_ids. unfold init_ids. apply (in_map (fun q => f_id (fst q)) _ (fi, b')). exact Hin. }
          assert (Q' : existsb (fun i => init_has i init') removed = true) by (apply existsb_exists; exists (f_id fi); auto).
          congruence. }
        destruct (du_build_In m1 o m2 upd removed f1 Hb Ho Hin1 Hnr) as [r [R1 [R2 _]]].
        destruct Hw2 as [Hnd2 [_ [Hs2 _]]].
        assert (Hidr : f_id r = f_id fi) by (destruct R2 as [R2 | [_ R2]]; [subst r; exact Hid1 | rewrite R2; exact Hid1]).
        exists (detomb r). split; [|split].
        * rewrite <- Hidr. rewrite <- (detomb_id r). apply find_frag_In; assumption.
        * rewrite Hsch. rewrite Hsch in Hs2. apply Sim_detomb; [exact Hs2|].
          destruct R2 as [R2 | [R2 _]]; [subst r; exact F2|].
          pose proof (C fi b r Hb0 R2 Hidr) as Efiles.
          destruct F2 as [S1 [S2 [S3 S4]]]. unfold Proofs_TxnFrame.Sim. split; [exact Hidr | split; [|split]].
          -- apply same_files_rows. exact Efiles.
          -- intros x o0 _. apply same_files_cell. exact Efiles.
          -- intros d Hd. apply S4 in Hd.
             assert (Hgo : forall u c, In u upd -> find_frag (f_id u) (m_frags m1) = Some c -> incl (dels_of c) (dels_of u)).
             { destruct Ho as [Ho | [a0 [b0 [c0 [d0 [e0 Ho]]]]]]; subst o; exact Hg. }
             apply (Hgo r f1 R2); [rewrite Hidr; exact F1 | exact Hd].
        * intros Eb'. rewrite detomb_del. destruct R2 as [R2 | [R2 _]].
          -- subst r. apply F3. destruct b; [specialize (Hmono eq_refl); congruence | reflexivity].
          -- exact (Hdel Eb' r R2 Hidr).
      + unfold same_core. cbn [rb_op rb_mod rb_aff rb_init with_init]. repeat split; auto.
        intros fi b' Hin. destruct (B fi b' Hin) as [b [Hb0 [Hmono _]]]. exists b. auto.
      + rewrite Hsch. apply incl_refl.
  Qed.

  Definition is_du (o : op) : Prop := match o with Delete _ _ | Update _ _ _ _ _ _ _ => True | _ => False end.

  Lemma chain_du : forall m ops m', Chain m ops m' -> forall rb rb', wf_manifest m -> is_du (rb_op rb) ->
    NoDup (init_ids (rb_init rb)) -> InvDU m (rb_init rb) ->
    (forall i, In i (init_ids (rb_init rb)) -> In i (rb_mod rb)) ->
    check_all rb ops = (VOk, rb') ->
    InvDU m' (rb_init rb') /\ same_core rb rb' /\ incl (schema_ids (m_schema m')) (schema_ids (m_schema m)).
  Proof.
    intros m ops m' Hc. induction Hc as [m | m o m1 ops m' Hstep Hw1 Hc IH]; intros rb rb' Hw Hdu Hnd Hinv Hmod Hall.
    - cbn [check_all] in Hall. inversion Hall; subst. split; [exact Hinv | split; [apply same_core_refl | apply incl_refl]].
    - apply check_all_cons in Hall as [rb1 [Hc1 Hall]].
      assert (Hcd : exists mw isu, check_txn rb o = check_delete_update rb mw isu o).
      { unfold check_txn. destruct (rb_op rb); try contradiction; eauto. }
      destruct Hcd as [mw [isu Hcd]]. rewrite Hcd in Hc1.
      destruct Hstep as [Hb Hg Hgen | v Ev].
      + destruct (step_du m o m1 rb mw isu rb1 Hw Hw1 Hb Hg Hgen Hnd Hinv Hmod Hc1) as [I1 [C1 S1]].
        destruct C1 as [C1a [C1b [C1c [C1d C1e]]]].
        assert (Hdu1 : is_du (rb_op rb1)) by (rewrite C1a; exact Hdu).
        assert (Hnd1 : NoDup (init_ids (rb_init rb1))) by (rewrite C1d; exact Hnd).
        assert (Hmod1 : forall i, In i (init_ids (rb_init rb1)) -> In i (rb_mod rb1)).
        { intros i Hi. rewrite C1b. apply Hmod. rewrite <- C1d. exact Hi. }
        destruct (IH rb1 rb' Hw1 Hdu1 Hnd1 I1 Hmod1 Hall) as [I2 [C2 S2]].
        split; [exact I2 | split].
        * apply (same_core_trans rb rb1 rb'); [repeat split; assumption | exact C2].
        * intros x Hx. apply S1. apply S2. exact Hx.
      + subst o. cbn [check_delete_update] in Hc1. inversion Hc1.
  Qed.
End DU.
