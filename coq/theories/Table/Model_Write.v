(* C11 - model of the write path: rust/lance/src/dataset/write.rs (write_fragments_internal,
   do_write_fragments), write/insert.rs (mode resolution, build_transaction) and the Append / Overwrite
   arms of Transaction::build_manifest (rust/lance/src/dataset/transaction.rs, with
   fragments_with_ids, Manifest::max_fragment_id / update_max_fragment_id of lance-table).
   Executable definitions only.

   The stream splitters break_stream / chunk_stream are the ones of Io/Model_Chunker.v (C41).

   Rows are OPAQUE payloads of an arbitrary type A: a RecordBatch is the list of its rows, a data
   file is the list of the rows handed to its writer, in order.  Nothing here says that a value, a
   null or a type survives encoding - that is the file round trip (C25) and the e2e arm.

   Integer types.  num_rows_in_current_file is a u32: `batch.num_rows() as u32` truncates, `+=`
   panics on overflow in the debug builds the harness runs, `params.max_rows_per_file as u32`
   truncates.  Fragment ids are u64 (`+ 1` checked), update_max_fragment_id converts to u32 with
   try_into().unwrap().  Lengths are nat (as in Model_Chunker), counters are N. *)
From LanceV Require Import Common.Base Io.Model_Chunker.
Local Open Scope N_scope.

Section WriteFragments.
Context {A : Type}.

(* ---- do_write_fragments ---------------------------------------------------------------------- *)

(* num_rows_in_current_file += batch.num_rows() as u32 *)
Definition add_u32 (n : N) (len : nat) : outcome N :=
  let s := n + wrap32 (N.of_nat len) in
  if two32 <=? s then Panic else Ok s.

(* for batch in batch_chunk { num_rows_in_current_file += ... } *)
Fixpoint count_chunk (n : N) (c : list (batch A)) : outcome N :=
  match c with
  | [] => Ok n
  | b :: r => obind (add_u32 n (length b)) (fun n' => count_chunk n' r)
  end.

(* The `while let Some(batch_chunk) = buffered_reader.next()` loop and the final `writer.take()`.
   [cur]  = rows handed to the open writer (None: no writer), [n] = num_rows_in_current_file,
   [done] = closed files, oldest first, [k] = index of the chunk within this write.
   [full k] is the byte-limit oracle: `writer.tell() >= max_bytes_per_file` right after chunk k
   was written (only consulted when the row test is false, as in the `||`).
   An OFuel item (the chunker model ran out of fuel) is reported as Panic; Model_Chunker's
   theorems exclude it for every input with a positive size parameter. *)
Fixpoint roll (max32 : N) (full : nat -> bool) (k : nat) (chunks : list (oitem (list (batch A))))
    (cur : option (list A)) (n : N) (done : list (list A)) : outcome (list (list A)) :=
  match chunks with
  | [] => Ok (match cur with Some rows => done ++ [rows] | None => done end)
  | OErr :: _ => Err                                        (* batch_chunk? *)
  | OFuel :: _ => Panic
  | OVal c :: rest =>
      let rows := (match cur with Some r => r | None => [] end) ++ concat c in
      obind (count_chunk n c) (fun n' =>
      if (max32 <=? n') || full k
      then roll max32 full (S k) rest None 0 (done ++ [rows])
      else roll max32 full (S k) rest (Some rows) n' done)
  end.

Definition wrap_single (x : oitem (batch A)) : oitem (list (batch A)) :=
  match x with OVal b => OVal [b] | OErr => OErr | OFuel => OFuel end.

(* the buffered reader: legacy => chunk_stream(data, max_rows_per_group),
   else break_stream(data, max_rows_per_file).map_ok(|b| vec![b]) *)
Definition buffered_reader (legacy : bool) (max g : nat) (inner : list (item A))
  : outcome (list (oitem (list (batch A)))) :=
  if legacy then chunk_stream g inner
  else omap (map wrap_single) (break_stream max inner).

Definition do_write_fragments (legacy : bool) (max g : nat) (full : nat -> bool) (inner : list (item A))
  : outcome (list (list A)) :=
  obind (buffered_reader legacy max g inner) (fun chunks =>
  roll (wrap32 (N.of_nat max)) full 0 chunks None 0 []).

(* write_fragments_internal: params.max_rows_per_group = min(max_rows_per_group, max_rows_per_file) *)
Definition write_fragments_internal (legacy : bool) (max g : nat) (full : nat -> bool) (inner : list (item A))
  : outcome (list (list A)) :=
  do_write_fragments legacy max (Nat.min g max) full inner.

(* physical_rows = Some(num_rows as usize), num_rows = writer.finish() as u32 *)
Definition physical_rows (f : list A) : N := wrap32 (N.of_nat (length f)).

End WriteFragments.

(* ---- Transaction::build_manifest, arms Append and Overwrite ------------------------------------ *)
(* A fragment is (id, payload); the payload P is the data file content in the theorems and the
   physical row count in the correspondence checkers. *)
Section BuildManifest.
Context {P : Type}.

Record frag := { fr_id : N; fr_data : P }.
Record manifest := { m_version : N; m_frags : list frag; m_max_fragment_id : option N }.
Inductive operation := OpAppend (fs : list frag) | OpOverwrite (fs : list frag).

Fixpoint ids_max (l : list N) : option N :=
  match l with
  | [] => None
  | x :: r => Some (match ids_max r with Some y => N.max x y | None => x end)
  end.

(* Manifest::max_fragment_id(): the stored high-water mark, else the max over the fragment list *)
Definition max_fragment_id (m : manifest) : option N :=
  match m_max_fragment_id m with
  | Some x => Some x
  | None => ids_max (map fr_id (m_frags m))
  end.

(* fragments_with_ids: `if f.id == 0 { f.id = *fragment_id; *fragment_id += 1; }` (u64, checked) *)
Fixpoint fragments_with_ids (fs : list frag) (next : N) : outcome (list frag * N) :=
  match fs with
  | [] => Ok ([], next)
  | f :: r =>
      if fr_id f =? 0 then
        if two64 <=? next + 1 then Panic
        else obind (fragments_with_ids r (next + 1)) (fun '(r', nx) =>
             Ok ({| fr_id := next; fr_data := fr_data f |} :: r', nx))
      else obind (fragments_with_ids r next) (fun '(r', nx) => Ok (f :: r', nx))
  end.

(* final_fragments.sort_by_key(|frag| frag.id): a stable sort *)
Fixpoint insert_by_id (f : frag) (l : list frag) : list frag :=
  match l with
  | [] => [f]
  | x :: r => if fr_id x <? fr_id f then x :: insert_by_id f r else f :: l
  end.
Definition sort_by_id (l : list frag) : list frag := fold_right insert_by_id [] l.

(* Manifest::update_max_fragment_id *)
Definition update_max_fragment_id (frags : list frag) (stored : option N) : outcome (option N) :=
  match ids_max (map fr_id frags) with
  | None => Ok stored                                         (* no fragments: unchanged *)
  | Some mx =>
      if two32 <=? mx then Panic                               (* u64 -> u32 try_into().unwrap() *)
      else match stored with
           | None => Ok (Some mx)
           | Some c => Ok (Some (if c <? mx then mx else c))
           end
  end.

Definition build_manifest (current : option manifest) (op : operation) : outcome manifest :=
  (* let mut fragment_id = if Overwrite { 0 } else { max_fragment_id().map(|id| id + 1).unwrap_or(0) } *)
  let start : outcome N :=
    match op with
    | OpOverwrite _ => Ok 0
    | OpAppend _ =>
        match current with
        | Some m => match max_fragment_id m with
                    | Some id => if two64 <=? id + 1 then Panic else Ok (id + 1)
                    | None => Ok 0
                    end
        | None => Ok 0
        end
    end in
  (* the schema match comes first: Append without a current manifest => Err *)
  match op, current with
  | OpAppend _, None => Err
  | _, _ =>
  obind start (fun fragment_id =>
  obind (match op with
         | OpAppend fs =>
             obind (fragments_with_ids fs fragment_id) (fun '(nf, _) =>
             Ok ((match current with Some m => m_frags m | None => [] end) ++ nf))
         | OpOverwrite fs =>
             obind (fragments_with_ids fs fragment_id) (fun '(nf, _) => Ok nf)
         end) (fun final =>
  let final := sort_by_id final in
  (* Manifest::new_from_previous (version + 1, max_fragment_id copied) | Manifest::new (version 1) *)
  let version := match current with Some m => m_version m + 1 | None => 1 end in
  let stored := match current with Some m => m_max_fragment_id m | None => None end in
  obind (update_max_fragment_id final stored) (fun mx =>
  Ok {| m_version := version; m_frags := final; m_max_fragment_id := mx |})))
  end.

End BuildManifest.
Arguments frag P : clear implicits.
Arguments manifest P : clear implicits.
Arguments operation P : clear implicits.

(* ---- one Dataset::write / InsertBuilder::execute_stream call ------------------------------------ *)
Section Table.
Context {A : Type}.

Inductive wmode := MCreate | MAppend | MOverwrite.

(* what a write call is given *)
Record wreq := {
  w_mode : wmode;
  w_version : option bool;        (* params.data_storage_version: Some true = legacy (0.1), Some false = 2.x *)
  w_max : nat;                    (* max_rows_per_file *)
  w_group : nat;                  (* max_rows_per_group *)
  w_full : nat -> bool;           (* byte-limit oracle of this call *)
  w_data : list (item A) }.       (* the reader: batches, possibly failing items *)

(* table state: the manifest and whether its data_storage_format is legacy *)
Definition tstate := (manifest (list A) * bool)%type.

Definition new_frags (files : list (list A)) : list (frag (list A)) :=
  map (fun rows => {| fr_id := 0; fr_data := rows |}) files.       (* Fragment::new(0) *)

(* validate_write: Append/Overwrite without a dataset become Create *)
Definition resolve_mode (st : option tstate) (r : wreq) : wmode :=
  match st with None => MCreate | Some _ => w_mode r end.

(* resolve_context / write_fragments_internal: the dataset's version on append; the user's or the
   dataset's on overwrite; the user's or the default (2.0, not legacy) on create *)
Definition resolve_legacy (st : option tstate) (r : wreq) : bool :=
  match st, resolve_mode st r with
  | Some (_, l), MAppend => l
  | Some (_, l), _ => match w_version r with Some v => v | None => l end
  | None, _ => match w_version r with Some v => v | None => false end
  end.

(* validate_write + resolve_context + write_fragments_internal + build_transaction + build_manifest *)
Definition exec_write (st : option tstate) (r : wreq) : outcome tstate :=
  match st, w_mode r with
  | Some _, MCreate => Err                                      (* DatasetAlreadyExists *)
  | _, _ =>
    let legacy := resolve_legacy st r in
    obind (write_fragments_internal legacy (w_max r) (w_group r) (w_full r) (w_data r)) (fun files =>
    let op := match resolve_mode st r with
              | MAppend => OpAppend (new_frags files)
              | _ => OpOverwrite (new_frags files)
              end in
    obind (build_manifest (option_map fst st) op) (fun m => Ok (m, legacy)))
  end.

(* a history of calls; a call that returns Err leaves the table as it was *)
Fixpoint run_history (st : option tstate) (h : list wreq) : outcome (option tstate) :=
  match h with
  | [] => Ok st
  | r :: rest =>
      match exec_write st r with
      | Ok st' => run_history (Some st') rest
      | Err => run_history st rest
      | Panic => Panic
      end
  end.

(* abstraction: a scan reads the fragments in manifest order, each data file front to back *)
Definition abs_manifest (m : manifest (list A)) : list A := concat (map fr_data (m_frags m)).
Definition abs_state (st : option tstate) : list A :=
  match st with Some (m, _) => abs_manifest m | None => [] end.

(* ---- the abstract table ---- *)
Definition req_rows (r : wreq) : list A := concat (oks (w_data r)).
Fixpoint has_err (l : list (item A)) : bool :=
  match l with [] => false | IErr :: _ => true | IBatch _ :: r => has_err r end.

(* None = no table yet *)
Definition spec_step (t : option (list A)) (r : wreq) : option (list A) :=
  if has_err (w_data r) then t                 (* the reader failed: the call fails, nothing is committed *)
  else match t, w_mode r with
       | None, _ => Some (req_rows r)
       | Some rows, MCreate => Some rows        (* fails: already exists *)
       | Some rows, MAppend => Some (rows ++ req_rows r)
       | Some _, MOverwrite => Some (req_rows r)
       end.
Definition spec_history (h : list wreq) : option (list A) := fold_left spec_step h None.

End Table.
Arguments wreq A : clear implicits.
Arguments tstate A : clear implicits.

(* ---- domain of the theorems / finding classes ---------------------------------------------------- *)
(* the byte oracle fires on one of the first [n] chunks *)
Definition fires_within (full : nat -> bool) (n : nat) : bool := existsb full (seq 0 n).

(* Known_C11_rows_limit_byte_roll: 2.x path and the byte limit closed a file early.  break_stream keeps
   cutting at multiples of max_rows_per_file of the WHOLE stream, the row counter restarts at 0:
   later files of the same write can hold up to 2*max-1 rows. *)
Definition Known_C11_rows_limit_byte_roll (legacy : bool) (full : nat -> bool) (nchunks : nat) : bool :=
  negb legacy && fires_within full nchunks.
(* Known_C11_rows_limit_legacy_group: legacy path and the (clamped) group size does not divide
   max_rows_per_file: files are closed at the first multiple of the group size >= max. *)
Definition Known_C11_rows_limit_legacy_group (legacy : bool) (max g : nat) : bool :=
  legacy && negb (Nat.eqb (max mod (Nat.min g max)) 0).

(* ---- correspondence checkers ------------------------------------------------------------------ *)
Definition unit_rows (n : N) : list unit := repeat tt (N.to_nat n).
Definition unit_items (l : list (option N)) : list (item unit) :=
  map (fun x => match x with Some n => IBatch (unit_rows n) | None => IErr end) l.

(* byte-limit oracle of a recorded case: 0 = never fires, 1 = fires after every chunk,
   2 = not observable from outside: inferred from the recorded fragment sizes (below) *)
Definition oracle_of_list (l : list bool) : nat -> bool := fun k => nth k l false.

(* Which oracle explains the recorded files?  Walk the model's chunks (row counts) next to the
   recorded file sizes: a file that ends on a chunk boundary with fewer than max rows, before the
   last chunk, was closed by the byte limit.  If the recorded sizes cannot be produced by ANY oracle
   the inferred one reproduces something else and the comparison fails. *)
Fixpoint infer_oracle (max32 : N) (chunks : list N) (n : N) (files : list N) : list bool :=
  match chunks with
  | [] => []
  | c :: rest =>
      let n' := n + c in
      if max32 <=? n' then false :: infer_oracle max32 rest 0 (tl files)
      else match files, rest with
           | f :: files', _ :: _ =>
               if f =? n' then true :: infer_oracle max32 rest 0 files'
               else false :: infer_oracle max32 rest n' files
           | _, _ => false :: infer_oracle max32 rest n' files
           end
  end.

Definition ovals_m {X} (l : list (oitem X)) : list X :=
  flat_map (fun x => match x with OVal v => [v] | _ => [] end) l.

Definition chunk_sizes {A} (chunks : list (oitem (list (batch A)))) : list N :=
  map (fun c => N.of_nat (length (concat c))) (ovals_m chunks).

Definition oracle_for (mode : N) (legacy : bool) (max g : nat) (data : list (item unit)) (files : list N)
  : nat -> bool :=
  match mode with
  | 0 => fun _ => false
  | 1 => fun _ => true
  | _ => match buffered_reader legacy max (Nat.min g max) data with
         | Ok chunks => oracle_of_list (infer_oracle (wrap32 (N.of_nat max)) (chunk_sizes chunks) 0 files)
         | _ => fun _ => false
         end
  end.

Definition nlist_eqb : list N -> list N -> bool := list_eqb N.eqb.

(* write_fragments_internal (through InsertBuilder::execute_uncommitted_stream):
   input (legacy, (max_rows_per_file, max_rows_per_group), byte mode, batch sizes | None = failing item)
   output: physical_rows of the fragments of the transaction *)
Definition chk_write_frags (i : bool * (N * N) * N * list (option N)) (o : outcome (list N)) : bool :=
  let '(legacy, (max, g), mode, sizes) := i in
  let data := unit_items sizes in
  let files := match o with Ok l => l | _ => [] end in
  let full := oracle_for mode legacy (N.to_nat max) (N.to_nat g) data files in
  outcome_eqb nlist_eqb
    (omap (map physical_rows) (write_fragments_internal legacy (N.to_nat max) (N.to_nat g) full data)) o.

(* build_manifest through the verif hook.  A manifest is (version, [(id, physical_rows)], stored max_fragment_id) *)
Definition man_view := (N * list (N * N) * option N)%type.
Definition frag_of (x : N * N) : frag N := {| fr_id := fst x; fr_data := snd x |}.
Definition man_of (v : man_view) : manifest N :=
  let '(ver, fs, mx) := v in {| m_version := ver; m_frags := map frag_of fs; m_max_fragment_id := mx |}.
Definition view_of {P} (rows : P -> N) (m : manifest P) : man_view :=
  (m_version m, map (fun f => (fr_id f, rows (fr_data f))) (m_frags m), m_max_fragment_id m).
Definition nn_eqb (a b : N * N) : bool := (fst a =? fst b) && (snd a =? snd b).
Definition man_view_eqb (a b : man_view) : bool :=
  let '(va, fa, ma) := a in let '(vb, fb, mb) := b in
  (va =? vb) && list_eqb nn_eqb fa fb && option_eqb N.eqb ma mb.

(* input (current manifest | None, (overwrite?, new fragments)) *)
Definition chk_build_manifest (i : option man_view * (bool * list (N * N))) (o : outcome man_view) : bool :=
  let '(cur, (ow, fs)) := i in
  let op := if ow then OpOverwrite (map frag_of fs) else OpAppend (map frag_of fs) in
  outcome_eqb man_view_eqb (omap (view_of (fun x => x)) (build_manifest (option_map man_of cur) op)) o.

(* a whole history on one table through Dataset::write.
   step: (mode 0 create / 1 append / 2 overwrite, data_storage_version (Some true = legacy), (max_rows_per_file,
   max_rows_per_group), byte mode, batch sizes | None = failing item)
   recorded per step: the manifest after the call, or Err *)
Definition step_in := (N * option bool * (N * N) * N * list (option N))%type.

Definition mode_of_N (n : N) : wmode := match n with 0 => MCreate | 1 => MAppend | _ => MOverwrite end.

Definition req_of (s : step_in) (full : nat -> bool) : wreq unit :=
  let '(md, ver, (max, g), _, sizes) := s in
  {| w_mode := mode_of_N md; w_version := ver; w_max := N.to_nat max; w_group := N.to_nat g;
     w_full := full; w_data := unit_items sizes |}.

Fixpoint chk_hist_loop (st : option (tstate unit)) (steps : list step_in) (outs : list (outcome man_view)) : bool :=
  match steps, outs with
  | [], [] => true
  | s :: steps', o :: outs' =>
      let '(md, ver, (max, g), bmode, sizes) := s in
      let r0 := req_of s (fun _ => false) in
      (* sizes of the files this call added, as recorded *)
      let added := match o with
                   | Ok (_, fs, _) =>
                       map snd (match resolve_mode st r0, st with
                                | MAppend, Some (m, _) => skipn (length (m_frags m)) fs
                                | _, _ => fs
                                end)
                   | _ => []
                   end in
      let full := oracle_for bmode (resolve_legacy st r0) (N.to_nat max) (N.to_nat g) (unit_items sizes) added in
      match exec_write st (req_of s full), o with
      | Ok st', Ok mo => man_view_eqb (view_of physical_rows (fst st')) mo && chk_hist_loop (Some st') steps' outs'
      | Err, Err => chk_hist_loop st steps' outs'
      | _, _ => false
      end
  | _, _ => false
  end.

Definition chk_history (steps : list step_in) (outs : list (outcome man_view)) : bool :=
  chk_hist_loop None steps outs.

(* ---- executable restatement of C11_split_preserves, used for small-universe sweeps (Examples) ---- *)
Definition nat_list_sum (l : list nat) : nat := fold_right Nat.add 0%nat l.

Definition split_props_hold (legacy : bool) (max g : nat) (fire : list bool) (sizes : list N) : bool :=
  let full := oracle_of_list fire in
  let data := unit_items (map Some sizes) in
  match buffered_reader legacy max (Nat.min g max) data, write_fragments_internal legacy max g full data with
  | Ok chunks, Ok files =>
      let lens := map (@length unit) files in
      let nchunks := length (ovals_m chunks) in
      Nat.eqb (nat_list_sum lens) (nat_list_sum (map N.to_nat sizes))
      && forallb (fun x => Nat.ltb 0 x && Nat.ltb x (2 * max)) lens
      && (Known_C11_rows_limit_byte_roll legacy full nchunks || Known_C11_rows_limit_legacy_group legacy max g
          || forallb (fun x => Nat.leb x max) lens)
      && (fires_within full nchunks
          || forallb (fun x => if legacy
                               then Nat.leb max x && Nat.ltb x (max + Nat.min g max) && Nat.eqb (x mod Nat.min g max) 0
                               else Nat.eqb x max) (removelast lens))
  | _, _ => false
  end.

(* all lists over [alphabet] of length <= n *)
Fixpoint lists_upto {X} (alphabet : list X) (n : nat) : list (list X) :=
  match n with
  | O => [[]]
  | S k => [] :: flat_map (fun l => map (fun a => a :: l) alphabet) (lists_upto alphabet k)
  end.

Definition sweep_split : bool :=
  forallb (fun legacy =>
  forallb (fun max =>
  forallb (fun g =>
  forallb (fun fire =>
  forallb (fun sizes => split_props_hold legacy max g fire sizes)
    (lists_upto [0; 1; 2; 3; 5] 3))
    [[]; [true]; [false; true]; [true; false; true]; [false; false; true; true]])
    [1; 2; 3; 5]%nat)
    [1; 2; 3; 4]%nat)
    [false; true].
