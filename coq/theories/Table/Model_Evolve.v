(* Table/Model_Evolve.v - model of schema evolution (property C14).  Executable definitions only.
   Transcribed from rust/lance/src/dataset/schema_evolution.rs (add_columns_to_fragments / add_columns,
   alter_columns, drop_columns), Manifest::max_field_id (rust/lance-table/src/format/manifest.rs),
   Schema::set_field_id (rust/lance-core/src/datatypes/schema.rs) and the Merge / Project arms of
   Transaction::build_manifest with remove_tombstoned_data_files (rust/lance/src/dataset/transaction.rs).

   A table = flat schema (field id, name) + fragments, each a list of data files; a data file lists the field ids
   it stores (-2 = tombstoned).  The VALUES are external: [cell path fid] = the column of field [fid] stored in
   the data file [path] (one value per physical row of the fragment, deleted positions included: physical row
   alignment), a Section variable in the proofs.  Reading a column of a fragment = the first data file that
   lists the field id; no such file = the column is all NULL there (NullReader).

   DECLARED DOMAIN: flat schemas (top-level fields; nested fields: e2e only), names are distinct from the
   existing ones where the code requires it (check_names / validate: the harness generates only such ops),
   new data files cover all new fields of the op (add_columns_impl writes one file per fragment). *)
From LanceV Require Import Common.Base.
Local Open Scope Z_scope.

Definition TOMB : Z := -2.
Record efile := mkEfile { ef_path : N; ef_fields : list Z }.
Record efrag := mkEfrag { eg_id : N; eg_rows : N; eg_files : list efile }.
Record etable := mkEtable { t_schema : list (Z * N); t_frags : list efrag }.

Definition zmem (x : Z) (l : list Z) : bool := existsb (Z.eqb x) l.
Definition schema_ids (t : etable) : list Z := map fst (t_schema t).
Definition schema_names (t : etable) : list N := map snd (t_schema t).
Definition file_ids (t : etable) : list Z := flat_map (fun g => flat_map ef_fields (eg_files g)) (t_frags t).

Definition zmax_list (l : list Z) : Z := fold_right Z.max (-1) l.
(* Manifest::max_field_id: over the schema and over every field id listed by a data file (tombstones are -2) *)
Definition max_field_id (t : etable) : Z := Z.max (zmax_list (schema_ids t)) (zmax_list (file_ids t)).

(* the data file a field is read from *)
Definition file_of (g : efrag) (fid : Z) : option efile := find (fun f => zmem fid (ef_fields f)) (eg_files g).

Fixpoint nodupz (l : list Z) : bool := match l with [] => true | x :: r => negb (zmem x r) && nodupz r end.
Fixpoint nodupn (l : list N) : bool := match l with [] => true | x :: r => negb (existsb (N.eqb x) r) && nodupn r end.

(* ---------------------------------------------------------------- operations *)
(* Schema::set_field_id(Some(max_field_id)) on the merged schema: the k-th new field gets max_field_id + 1 + k *)
Fixpoint fresh_ids (next : Z) (names : list N) : list (Z * N) :=
  match names with
  | [] => []
  | n :: r => (next, n) :: fresh_ids (next + 1) r
  end.

Definition name_id (t : etable) (name : N) : option Z :=
  match find (fun p => N.eqb (snd p) name) (t_schema t) with Some p => Some (fst p) | None => None end.

(* Transaction::remove_tombstoned_data_files *)
Definition has_live (f : efile) : bool := existsb (fun x => negb (x =? TOMB)) (ef_fields f).
Definition drop_dead_files (g : efrag) : efrag := mkEfrag (eg_id g) (eg_rows g) (filter has_live (eg_files g)).

(* add_columns: [paths] = per fragment, the path of the new data file (None: AllNulls, metadata only).
   Err when a name exists already (Schema::merge / check_names) *)
Definition add_files (new_ids : list Z) (paths : list (option N)) (frags : list efrag) : list efrag :=
  map (fun gp => match snd gp with
                 | Some p => mkEfrag (eg_id (fst gp)) (eg_rows (fst gp)) (eg_files (fst gp) ++ [mkEfile p new_ids])
                 | None => fst gp
                 end) (combine frags paths).

Definition add_columns (t : etable) (names : list N) (paths : list (option N)) : outcome etable :=
  if existsb (fun n => existsb (N.eqb n) (schema_names t)) names then Err
  else if negb (nodupn names) then Err                      (* duplicate names in the new columns *)
  else if negb (Nat.eqb (length paths) (length (t_frags t))) then Err
  else
    let new := fresh_ids (max_field_id t + 1) names in
    Ok (mkEtable (t_schema t ++ new) (map drop_dead_files (add_files (map fst new) paths (t_frags t)))).

(* the Project arm: data files without any field of the new schema are dropped *)
Definition project_frag (ids : list Z) (g : efrag) : efrag :=
  mkEfrag (eg_id g) (eg_rows g) (filter (fun f => existsb (fun x => zmem x ids) (ef_fields f)) (eg_files g)).
Definition project (t : etable) (schema : list (Z * N)) : etable :=
  mkEtable schema (map drop_dead_files (map (project_frag (map fst schema)) (t_frags t))).

(* drop_columns *)
Definition drop_columns (t : etable) (names : list N) : outcome etable :=
  if negb (forallb (fun n => existsb (N.eqb n) (schema_names t)) names) then Err
  else
    let schema := filter (fun p => negb (existsb (N.eqb (snd p)) names)) (t_schema t) in
    match schema with
    | [] => Err                                             (* Cannot drop all columns *)
    | _ => Ok (project t schema)
    end.

(* alter_columns, rename / nullability only: Project with the same ids *)
Definition rename_column (t : etable) (old new : N) : outcome etable :=
  match name_id t old with
  | None => Err
  | Some _ =>
      if existsb (N.eqb new) (schema_names t) && negb (N.eqb old new) then Err      (* Schema::validate: duplicate names *)
      else Ok (project t (map (fun p => if N.eqb (snd p) old then (fst p, new) else p) (t_schema t)))
  end.

(* alter_columns with a cast: the field gets the id max_field_id + 1, every fragment a new data file holding the
   cast column; data files without any field of the new schema are dropped; committed as a Merge *)
Definition cast_column (t : etable) (name : N) (paths : list N) : outcome etable :=
  match name_id t name with
  | None => Err
  | Some old =>
      if negb (Nat.eqb (length paths) (length (t_frags t))) then Err
      else
        let nid := max_field_id t + 1 in
        let schema := map (fun p => if fst p =? old then (nid, snd p) else p) (t_schema t) in
        let frags := add_files [nid] (map Some paths) (t_frags t) in
        Ok (mkEtable schema (map drop_dead_files (map (project_frag (map fst schema)) frags)))
  end.

Inductive eop :=
| OAdd (names : list N) (paths : list (option N))
| ODrop (names : list N)
| ORename (old new : N)
| OCast (name : N) (paths : list N).

Definition apply_op (t : etable) (o : eop) : outcome etable :=
  match o with
  | OAdd names paths => add_columns t names paths
  | ODrop names => drop_columns t names
  | ORename a b => rename_column t a b
  | OCast n paths => cast_column t n paths
  end.

(* the names an operation talks about *)
Definition op_names (o : eop) : list N :=
  match o with
  | OAdd names _ => names
  | ODrop names => names
  | ORename a b => [a; b]
  | OCast n _ => [n]
  end.

(* ---------------------------------------------------------------- well-formedness *)
(* a path names one file: the paths of the new files of an operation are fresh *)
Definition paths_of (t : etable) : list N := flat_map (fun g => map ef_path (eg_files g)) (t_frags t).
Definition wf_table (t : etable) : bool :=
  nodupz (schema_ids t) && forallb (fun x => 0 <=? x) (schema_ids t).

(* ---------------------------------------------------------------- correspondence *)
Definition efile_eqb (a b : efile) : bool := N.eqb (ef_path a) (ef_path b) && list_eqb Z.eqb (ef_fields a) (ef_fields b).
Definition efrag_eqb (a b : efrag) : bool :=
  N.eqb (eg_id a) (eg_id b) && N.eqb (eg_rows a) (eg_rows b) && list_eqb efile_eqb (eg_files a) (eg_files b).
Definition etable_eqb (a b : etable) : bool :=
  list_eqb (pair_eqb Z.eqb N.eqb) (t_schema a) (t_schema b) && list_eqb efrag_eqb (t_frags a) (t_frags b).
(* a real schema-evolution commit: (table before, operation) -> the table read back *)
Definition chk_evolve (i : etable * eop) (o : outcome etable) : bool :=
  outcome_eqb etable_eqb (apply_op (fst i) (snd i)) o.
Definition chk_max_field_id (t : etable) (o : Z) : bool := Z.eqb (max_field_id t) o.
