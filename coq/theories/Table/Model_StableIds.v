(* Table/Model_StableIds.v - stable row ids on top of the concrete manifest model (property C18).
   Executable definitions only: the row-id invariant, what the writers guarantee about the ids they carry
   (op_ids_ok), the row-id index as a lookup over chunks of consecutive live rows, the two known-finding
   classes, and the correspondence checkers. *)
From LanceV Require Import Common.Base Meta.Model_Flags Table.Model_Manifest.
Local Open Scope N_scope.

(* ---------------------------------------------------------------- ids of a list of fragments *)
Definition live_ids_of (f : Fragment) : list N := map fst (live_rows_of f).
Definition live_ids_l (l : list Fragment) : list N := flat_map live_ids_of l.
Definition ids_of (f : Fragment) : list N := match fr_row_ids f with Some ids => ids | None => [] end.
Definition all_ids_l (l : list Fragment) : list N := flat_map ids_of l.

(* THE INVARIANT: every row id ever written is below next_row_id; no two live rows share a row id *)
Definition ids_inv_l (next : N) (l : list Fragment) : bool :=
  forallb (fun x => x <? next) (all_ids_l l) && nodup_n (live_ids_l l).
Definition ids_inv (m : Manifest) : bool :=
  match m_next_row_id m with
  | Some n => ids_inv_l n (m_fragments m)
  | None => true
  end.

(* ---------------------------------------------------------------- what the writers guarantee about row ids *)
Definition incl_n (a b : list N) : bool := forallb (fun x => n_mem x b) a.
Definition disjoint_n (a b : list N) : bool := forallb (fun x => negb (n_mem x b)) a.

(* an updated fragment is the existing fragment with (possibly) more rows deleted: same physical rows,
   same row id sequence *)
Definition deletion_grows (f u : Fragment) : bool :=
  option_eqb N.eqb (fr_phys f) (fr_phys u) && oln_eqb (fr_row_ids f) (fr_row_ids u)
  && incl_n (fr_deleted f) (fr_deleted u).
Definition updates_ok (existing updated : list Fragment) : bool :=
  forallb (fun u => match find (fun f => fr_id f =? fr_id u) existing with
                    | Some f => deletion_grows f u
                    | None => true
                    end) updated.

(* the rows of a fragment are unchanged (schema evolution, data replacement) *)
Definition same_rows (f g : Fragment) : bool :=
  (fr_id f =? fr_id g) && option_eqb N.eqb (fr_phys f) (fr_phys g) && oln_eqb (fr_row_ids f) (fr_row_ids g)
  && ln_eqb (fr_deleted f) (fr_deleted g).

Definition lookup_frags (existing : list Fragment) (ids : list N) : list Fragment :=
  flat_map (fun i => match find (fun f => fr_id f =? i) existing with Some f => [f] | None => [] end) ids.

(* [op_ids_ok cur op]: the row ids a writer puts into a transaction.
   Append / Overwrite: none (they are assigned at commit).  Delete / Update: deletion vectors only grow.
   Update: the ids carried into the new fragments (rewritten rows: update, merge_insert) are distinct ids of
   rows that were live and that the same operation retires from the old fragments.  Rewrite (compaction): old
   fragments exist; the new fragments of a group carry exactly the live ids of its old fragments.
   Merge: the rows of the existing fragments are unchanged, no fragment appears or disappears. *)
Definition op_ids_ok (cur : Manifest) (op : Operation) : bool :=
  let existing := m_fragments cur in
  match op with
  | Append fragments | Overwrite fragments _ _ => forallb (fun f => negb (is_some (fr_row_ids f))) fragments
  | Delete updated _ => updates_ok existing updated
  | Update removed updated new_fragments _ _ _ =>
      let carried := all_ids_l new_fragments in
      let old_part := flat_map (apply_updates_first removed updated) existing in
      updates_ok existing updated
      && nodup_n carried && incl_n carried (live_ids_l existing) && disjoint_n carried (live_ids_l old_part)
  | Rewrite groups _ _ =>
      forallb (fun g => incl_n (rg_old g) (frag_ids existing)
                        && nodup_n (live_ids_l (rg_new g))
                        && incl_n (all_ids_l (rg_new g)) (live_ids_l (lookup_frags existing (rg_old g)))
                        && incl_n (live_ids_l (lookup_frags existing (rg_old g))) (live_ids_l (rg_new g))) groups
      && nodup_n (flat_map rg_old groups)
  | Merge fragments _ => list_eqb same_rows existing fragments
  | _ => true
  end.

(* ---------------------------------------------------------------- the row id index, encoding independent *)
(* RowIdIndex::new cuts the live (row id, address) pairs of every fragment into chunks (one per segment of the
   stored sequence) and keys each chunk by the closed range [min id, max id]; `get` finds the chunk whose range
   contains the id and searches inside.  The segmentation depends on the encoding (property C34); here it is a
   parameter: ANY way of cutting the live rows, taken in address order, into consecutive non-empty chunks. *)
Definition chunk_lo (c : list (N * N)) : N := fold_left N.min (map fst c) (match c with (x, _) :: _ => x | [] => 0 end).
Definition chunk_hi (c : list (N * N)) : N := fold_left N.max (map fst c) 0.
Definition index_get (chunks : list (list (N * N))) (row_id : N) : option N :=
  match find (fun c => (chunk_lo c <=? row_id) && (row_id <=? chunk_hi c)) chunks with
  | Some c => match find (fun p => fst p =? row_id) c with Some p => Some (snd p) | None => None end
  | None => None
  end.
Definition is_segmentation (chunks : list (list (N * N))) (rows : list (N * N)) : bool :=
  list_eqb (pair_eqb N.eqb N.eqb) (concat chunks) rows
  && forallb (fun c => negb (match c with [] => true | _ => false end)) chunks.

(* the specification: the address of the (unique) live row with this id *)
Definition resolve (m : Manifest) (row_id : N) : option N :=
  match find (fun p => fst p =? row_id) (live_rows m) with Some p => Some (snd p) | None => None end.

(* The live row ids, read in address order, are not strictly increasing (an update / merge_insert carried an id
   into a later fragment).  Then chunk ranges overlap; RowIdIndex::new MERGES overlapping chunks before the range
   lookup (that merging is property C34's model; the over-strict "Wrong range" debug assertion on it, finding
   F18, was repaired by repo commit ac0e2db).  The unmerged lookup [index_get] modelled here is only claimed for
   monotone ids; with overlaps it must be applied to the merged chunk (see the regression examples). *)
Definition ids_non_monotone (m : Manifest) : bool :=
  negb (strict_sorted_n (live_ids m)).

(* Known finding (C18) stable_flag_dropped_on_empty_table: a commit made with
   ManifestWriteConfig.use_stable_row_ids = false (every Dataset::apply_commit caller) that leaves no fragment:
   apply_feature_flags derives FLAG_STABLE_ROW_IDS from the fragments only, so the table silently stops having
   stable row ids *)
Definition Known_C18_stable_flag_dropped_on_empty_table (us : bool) (m' : Manifest) : bool :=
  negb us && match m_fragments m' with [] => true | _ => false end.

(* Known finding (C18) rowid_sequence_cache_keyed_by_fragment_id: the session cache of decoded row id sequences
   is keyed by the fragment id alone (RowIdSequenceKey), and Overwrite restarts fragment ids at 0: reading
   version [m] through a session that has cached the sequences of version [warm] returns the other version's
   row ids for every fragment id they share *)
Definition cache_of (m : Manifest) : list (N * list N) := map (fun f => (fr_id f, ids_of f)) (m_fragments m).
Definition cached_ids (cache : list (N * list N)) (f : Fragment) : list N :=
  match find (fun p => fst p =? fr_id f) cache with Some p => snd p | None => ids_of f end.
Definition Known_C18_rowid_sequence_cache_keyed_by_fragment_id (warm m : Manifest) : bool :=
  existsb (fun f => negb (ln_eqb (cached_ids (cache_of warm) f) (ids_of f))) (m_fragments m).

(* ---------------------------------------------------------------- correspondence checkers *)
Definition chk_ids_inv (m : Manifest) (o : bool) : bool := Bool.eqb (ids_inv m) o.
Definition chk_op_ids_ok (i : Manifest * Operation) (o : bool) : bool := Bool.eqb (op_ids_ok (fst i) (snd i)) o.
(* take_rows(ids) with _rowaddr: the address the implementation resolved for every probed id *)
Definition chk_resolve (i : Manifest * list N) (o : list (option N)) : bool :=
  list_eqb (option_eqb N.eqb) (map (resolve (fst i)) (snd i)) o.
