(* C12 - delete / update / merge_insert on the model table.
   Executable definitions only (proofs are in Proofs_DML.v).

   Transcribed from
     rust/lance/src/dataset/write/delete.rs          DeleteJob::execute_impl, apply_deletions
     rust/lance/src/dataset/write/update.rs          UpdateJob::execute_impl, apply_updates, apply_deletions
     rust/lance/src/dataset/write/merge_insert.rs    can_use_create_plan, create_plan, create_joined_stream,
                                                     create_full_table_joined_stream, create_indexed_scan_joined_stream,
                                                     Merger::{extract_selections, execute_batch}, execute_uncommitted_impl
     .../merge_insert/assign_action.rs               merge_insert_action            (the CASE table)
     .../merge_insert/exec/write.rs                  MergeState::process_row_action
     rust/lance/src/dataset.rs                       count_rows, count_deleted_rows

   Cells are `option Z` (None = SQL NULL).  Strings are represented by their rank in a fixed sorted
   vocabulary and booleans by 0/1, so that every comparison of the expression language is a comparison
   on Z (the harness renders the literals back in the column's type).

   The expression evaluator below is the REFERENCE semantics (three-valued logic); in the
   implementation DataFusion evaluates the expressions.  That DataFusion implements this semantics
   on the modelled fragment is an assumption of the theorems, tested by the end-to-end arm. *)
From LanceV Require Import Common.Base.

Definition cell := option Z.
Definition row := list cell.

(* ------------------------------------------------------------------ three-valued logic *)
Inductive tv := TT | TF | TN.

Definition tv_and (a b : tv) : tv :=
  match a, b with
  | TF, _ => TF
  | _, TF => TF
  | TT, TT => TT
  | _, _ => TN
  end.
Definition tv_or (a b : tv) : tv :=
  match a, b with
  | TT, _ => TT
  | _, TT => TT
  | TF, TF => TF
  | _, _ => TN
  end.
Definition tv_not (a : tv) : tv := match a with TT => TF | TF => TT | TN => TN end.
Definition tv_of_bool (b : bool) : tv := if b then TT else TF.
Definition is_tt (a : tv) : bool := match a with TT => true | _ => false end.
Definition tv_eqb (a b : tv) : bool :=
  match a, b with TT, TT | TF, TF | TN, TN => true | _, _ => false end.

Inductive cmp := CEq | CNe | CLt | CLe | CGt | CGe.
Definition cmp_z (o : cmp) (a b : Z) : bool :=
  match o with
  | CEq => Z.eqb a b
  | CNe => negb (Z.eqb a b)
  | CLt => Z.ltb a b
  | CLe => Z.leb a b
  | CGt => Z.ltb b a
  | CGe => Z.leb b a
  end.
Definition cmp_cell (o : cmp) (a b : cell) : tv :=
  match a, b with
  | Some x, Some y => tv_of_bool (cmp_z o x y)
  | _, _ => TN
  end.

(* value expressions and predicates; `VCol i` is the i-th column of the row the expression is evaluated on *)
Inductive vexpr :=
| VCol (i : nat)
| VLit (c : cell)
| VAdd (a b : vexpr)
| VSub (a b : vexpr)
| VMul (a b : vexpr).

Inductive bexpr :=
| BLit (t : tv)
| BCol (i : nat)                      (* a boolean column used as a predicate *)
| BCmp (o : cmp) (a b : vexpr)
| BAnd (a b : bexpr)
| BOr (a b : bexpr)
| BNot (a : bexpr)
| BIsNull (a : vexpr)
| BIn (a : vexpr) (l : list cell)      (* a IN (literals), literals may be NULL *)
| BBetween (a lo hi : vexpr).

Definition arith (f : Z -> Z -> Z) (a b : cell) : cell :=
  match a, b with Some x, Some y => Some (f x y) | _, _ => None end.

Fixpoint eval_v (r : row) (e : vexpr) : cell :=
  match e with
  | VCol i => nth i r None
  | VLit c => c
  | VAdd a b => arith Z.add (eval_v r a) (eval_v r b)
  | VSub a b => arith Z.sub (eval_v r a) (eval_v r b)
  | VMul a b => arith Z.mul (eval_v r a) (eval_v r b)
  end.

(* x IN (l1, .., ln)  ==  x = l1 OR .. OR x = ln *)
Definition in_list (x : cell) (l : list cell) : tv :=
  fold_right (fun c acc => tv_or (cmp_cell CEq x c) acc) TF l.

Definition bool_cell (c : cell) : tv :=
  match c with None => TN | Some z => tv_of_bool (negb (Z.eqb z 0)) end.

Fixpoint eval_b (r : row) (e : bexpr) : tv :=
  match e with
  | BLit t => t
  | BCol i => bool_cell (nth i r None)
  | BCmp o a b => cmp_cell o (eval_v r a) (eval_v r b)
  | BAnd a b => tv_and (eval_b r a) (eval_b r b)
  | BOr a b => tv_or (eval_b r a) (eval_b r b)
  | BNot a => tv_not (eval_b r a)
  | BIsNull a => match eval_v r a with None => TT | Some _ => TF end
  | BIn a l => in_list (eval_v r a) l
  | BBetween a lo hi => tv_and (cmp_cell CGe (eval_v r a) (eval_v r lo)) (cmp_cell CLe (eval_v r a) (eval_v r hi))
  end.

Definition sel (p : bexpr) (r : row) : bool := is_tt (eval_b r p).

(* columns an expression reads *)
Fixpoint cols_v (e : vexpr) : list nat :=
  match e with
  | VCol i => [i]
  | VLit _ => []
  | VAdd a b | VSub a b | VMul a b => cols_v a ++ cols_v b
  end.

(* ------------------------------------------------------------------ abstract table operations *)
(* DELETE: rows where the predicate is TRUE go; FALSE and NULL stay; order kept *)
Definition a_delete (p : bexpr) (t : list row) : list row := filter (fun r => negb (sel p r)) t.

Fixpoint set_nth (i : nat) (c : cell) (r : row) : row :=
  match r, i with
  | [], _ => []
  | _ :: xs, O => c :: xs
  | x :: xs, S i' => x :: set_nth i' c xs
  end.

Definition assignment := (nat * vexpr)%type.

(* UpdateJob::apply_updates: `for (column, expr) in updates.iter()` evaluates `expr` on the batch as
   already modified by the assignments visited before it, in the iteration order of a HashMap. *)
Definition apply_seq (asg : list assignment) (r : row) : row :=
  fold_left (fun r' a => set_nth (fst a) (eval_v r' (snd a)) r') asg r.

(* SQL UPDATE: every right-hand side sees the old row *)
Definition apply_simul (asg : list assignment) (r : row) : row :=
  fold_left (fun r' a => set_nth (fst a) (eval_v r (snd a)) r') asg r.

(* UPDATE as coded (`asg` in the order the HashMap iterates): rows where the predicate is TRUE are
   deleted from their fragments and re-written, in scan order, into one new fragment at the end
   (update_mode = RewriteRows).  So: untouched rows first, in their old order, then the updated rows
   in their old relative order. *)
Definition a_update (p : bexpr) (asg : list assignment) (t : list row) : list row :=
  filter (fun r => negb (sel p r)) t ++ map (apply_seq asg) (filter (sel p) t).

(* SQL UPDATE, row by row, in place *)
Definition sql_update (p : bexpr) (asg : list assignment) (t : list row) : list row :=
  map (fun r => if sel p r then apply_simul asg r else r) t.

(* some assignment reads a column that ANOTHER assignment writes (the assigned columns are distinct, so
   "another" = "of a different column"): the result then depends on the HashMap's iteration order and
   is never the SQL one when the values differ *)
Definition Known_C12_update_reads_assigned_column (asg : list assignment) : bool :=
  existsb (fun a => existsb (fun b => negb (Nat.eqb (fst a) (fst b)) && existsb (Nat.eqb (fst b)) (cols_v (snd a))) asg) asg.

Fixpoint nodupb (l : list nat) : bool :=
  match l with [] => true | x :: xs => negb (existsb (Nat.eqb x) xs) && nodupb xs end.

(* all permutations (the HashMap iteration orders) *)
Fixpoint inserts {A} (x : A) (l : list A) : list (list A) :=
  match l with
  | [] => [[x]]
  | y :: ys => (x :: l) :: map (cons y) (inserts x ys)
  end.
Fixpoint perms {A} (l : list A) : list (list A) :=
  match l with
  | [] => [[]]
  | x :: xs => flat_map (inserts x) (perms xs)
  end.

(* ------------------------------------------------------------------ concrete side *)
(* a fragment = its physical slots; None = a slot masked by the deletion vector *)
Definition frag := list (option row).
Definition ctable := list frag.

Definition live (f : frag) : list row := flat_map (fun s => match s with Some r => [r] | None => [] end) f.
Definition abs (ct : ctable) : list row := flat_map live ct.

Definition is_none {A} (o : option A) : bool := match o with None => true | Some _ => false end.
Definition is_some {A} (o : option A) : bool := match o with None => false | Some _ => true end.

Definition ndeleted (f : frag) : nat := length (filter is_none f).
(* Dataset::count_deleted_rows: sum of the deletion-vector sizes of the fragments of the manifest *)
Definition count_deleted (ct : ctable) : nat := fold_right (fun f acc => ndeleted f + acc)%nat O ct.
(* Dataset::count_rows(filter) *)
Definition count_rows (p : option bexpr) (ct : ctable) : nat :=
  match p with
  | None => length (abs ct)
  | Some f => length (filter (sel f) (abs ct))
  end.
Definition shape (ct : ctable) : list (N * N) := map (fun f => (N.of_nat (length f), N.of_nat (ndeleted f))) ct.

(* apply_deletions + extend_deletions: a fragment none of whose rows is hit is left alone, a fragment
   all of whose slots end up deleted leaves the manifest *)
Definition del_slots (d : row -> bool) (f : frag) : frag :=
  map (fun s => match s with Some r => if d r then None else Some r | None => None end) f.
Definition c_apply_deletions (d : row -> bool) (ct : ctable) : ctable :=
  flat_map (fun f =>
    if existsb d (live f)
    then let f' := del_slots d f in if forallb is_none f' then [] else [f']
    else [f]) ct.

Definition new_frag (rows : list row) : ctable :=
  match rows with [] => [] | _ => [map Some rows] end.

Definition c_delete (p : bexpr) (ct : ctable) : ctable := c_apply_deletions (sel p) ct.

Definition c_update (p : bexpr) (asg : list assignment) (ct : ctable) : ctable :=
  c_apply_deletions (sel p) ct ++ new_frag (map (apply_seq asg) (filter (sel p) (abs ct))).

(* ------------------------------------------------------------------ MERGE *)
Inductive when_matched := WmUpdateAll | WmUpdateIf (c : bexpr) | WmDoNothing | WmFail.
Inductive when_nmbs := NsKeep | NsDelete | NsDeleteIf (c : bexpr).

Record msettings := {
  m_on : list nat;          (* key columns (column numbers of the TARGET schema) *)
  m_scols : list nat;       (* schema of the source: source column j is target column (nth j m_scols) *)
  m_ncols : nat;            (* number of target columns *)
  m_wm : when_matched;
  m_ins : bool;             (* when_not_matched = InsertAll *)
  m_ns : when_nmbs;
  m_indexed : bool          (* use_index && the single key column has a scalar index (join_key_as_scalar_index) *)
}.

Definition addr := (nat * nat)%type.          (* fragment position, slot *)
Definition addr_eqb (a b : addr) : bool := Nat.eqb (fst a) (fst b) && Nat.eqb (snd a) (snd b).
Definition itable := list (addr * row).        (* live rows with their identity *)

Fixpoint index_of (k : nat) (l : list nat) (j : nat) : option nat :=
  match l with
  | [] => None
  | x :: xs => if Nat.eqb x k then Some j else index_of k xs (S j)
  end.
(* the value a source row holds for target column k (NULL when the source has no such column) *)
Definition src_get (scols : list nat) (s : row) (k : nat) : cell :=
  match index_of k scols O with Some j => nth j s None | None => None end.
(* a source row widened to the target schema *)
Definition widen (st : msettings) (s : row) : row := map (src_get (m_scols st) s) (seq 0 (m_ncols st)).
(* target row with the source's columns overwritten *)
Definition upd_row (st : msettings) (s t : row) : row :=
  map (fun k => match index_of k (m_scols st) O with Some j => nth j s None | None => nth k t None end) (seq 0 (m_ncols st)).

Definition full_schema (st : msettings) : bool := list_eqb Nat.eqb (m_scols st) (seq 0 (m_ncols st)).

(* a row of the joined stream: source half, target half (all NULL when that side is absent), _rowaddr/_rowid *)
Record jrow := { js : row; jt : row; jid : option addr }.

Definition nulls (n : nat) : row := repeat None n.

Definition key_eq (null_eq : bool) (a b : cell) : bool :=
  match a, b with
  | Some x, Some y => Z.eqb x y
  | None, None => null_eq
  | _, _ => false
  end.
(* join condition on the key columns of a source row (in source schema) and a target row *)
Definition key_match (st : msettings) (null_eq : bool) (s t : row) : bool :=
  forallb (fun k => key_eq null_eq (src_get (m_scols st) s k) (nth k t None)) (m_on st).

Inductive jkind := JFull | JSource | JInner.     (* JSource keeps every source row (DataFusion Left/Right) *)
Definition keep_src (k : jkind) : bool := match k with JFull | JSource => true | JInner => false end.
Definition keep_tgt (k : jkind) : bool := match k with JFull => true | _ => false end.

Definition join_rows (st : msettings) (null_eq : bool) (k : jkind) (tgt : itable) (src : list row) : list jrow :=
  flat_map (fun it => map (fun s => {| js := s; jt := snd it; jid := Some (fst it) |})
                          (filter (fun s => key_match st null_eq s (snd it)) src)) tgt
  ++ (if keep_src k
      then map (fun s => {| js := s; jt := nulls (m_ncols st); jid := None |})
               (filter (fun s => negb (existsb (fun it => key_match st null_eq s (snd it)) tgt)) src)
      else [])
  ++ (if keep_tgt k
      then map (fun it => {| js := nulls (length (m_scols st)); jt := snd it; jid := Some (fst it) |})
               (filter (fun it => negb (existsb (fun s => key_match st null_eq s (snd it)) src)) tgt)
      else []).

Inductive action := ANothing | AUpdateAll | AInsert | ADelete | AFail.
Definition action_eqb (a b : action) : bool :=
  match a, b with
  | ANothing, ANothing | AUpdateAll, AUpdateAll | AInsert, AInsert | ADelete, ADelete | AFail, AFail => true
  | _, _ => false
  end.

(* CASE WHEN c1 THEN a1 WHEN c2 THEN a2 ... ELSE Nothing END : the first condition that is TRUE *)
Fixpoint case_eval (cases : list (tv * action)) : action :=
  match cases with
  | [] => ANothing
  | (c, a) :: rest => if is_tt c then a else case_eval rest
  end.

(* merge_insert_action.  `has_key`: every source key column IS NOT NULL; `tp`: target._rowaddr IS NOT NULL;
   `cm` / `cd`: the values of the UpdateIf / DeleteIf conditions on this row. *)
Definition case_table (wm : when_matched) (ins : bool) (ns : when_nmbs) (has_key tp : bool) (cm cd : tv) : action :=
  let source_has_key := tv_of_bool has_key in
  let matched := tv_and source_has_key (tv_of_bool tp) in
  let not_matched_in_target := tv_and source_has_key (tv_of_bool (negb tp)) in
  let not_matched_in_source := tv_of_bool (negb (is_tt (tv_of_bool (negb tp)))) in   (* (_rowaddr IS NULL) IS NOT TRUE *)
  case_eval (
    (if ins then [(not_matched_in_target, AInsert)] else [])
    ++ match wm with
       | WmUpdateAll => [(matched, AUpdateAll)]
       | WmUpdateIf _ => [(tv_and matched cm, AUpdateAll)]
       | WmDoNothing => []
       | WmFail => [(matched, AFail)]
       end
    ++ match ns with
       | NsDelete => [(not_matched_in_source, ADelete)]
       | NsDeleteIf _ => [(tv_and not_matched_in_source cd, ADelete)]
       | NsKeep => []
       end).

(* the specification table: the action SQL MERGE assigns to a row of the outer join *)
Definition spec_table (wm : when_matched) (ins : bool) (ns : when_nmbs) (has_key tp : bool) (cm cd : tv) : action :=
  if negb tp then (if ins then AInsert else ANothing)               (* a source row without a target row *)
  else if has_key then                                               (* matched *)
    match wm with
    | WmUpdateAll => AUpdateAll
    | WmUpdateIf _ => if is_tt cm then AUpdateAll else ANothing
    | WmDoNothing => ANothing
    | WmFail => AFail
    end
  else                                                               (* a target row without a source row *)
    match ns with
    | NsKeep => ANothing
    | NsDelete => ADelete
    | NsDeleteIf _ => if is_tt cd then ADelete else ANothing
    end.

(* conditions of a joined row.  UpdateIf sees `source.<col>` as column <col> and `target.<col>` as
   column ncols + <col>; DeleteIf sees the target row. *)
Definition cond_m (st : msettings) (j : jrow) : tv :=
  match m_wm st with WmUpdateIf c => eval_b (widen st (js j) ++ jt j) c | _ => TT end.
Definition cond_d (st : msettings) (j : jrow) : tv :=
  match m_ns st with NsDeleteIf c => eval_b (jt j) c | _ => TT end.

Definition src_keys (st : msettings) (j : jrow) : list cell := map (src_get (m_scols st) (js j)) (m_on st).
Definition tgt_keys (st : msettings) (j : jrow) : list cell := map (fun k => nth k (jt j) None) (m_on st).

(* fast path (create_plan): __action column *)
Definition fast_action (st : msettings) (j : jrow) : action :=
  case_table (m_wm st) (m_ins st) (m_ns st) (forallb is_some (src_keys st j)) (is_some (jid j)) (cond_m st j) (cond_d st j).

(* can_use_create_plan *)
Definition fast_path (st : msettings) : bool :=
  match m_wm st with WmUpdateAll | WmUpdateIf _ | WmFail => true | WmDoNothing => false end
  && negb (m_indexed st) && full_schema st
  && match m_ns st with NsKeep => true | _ => false end.

(* the indexed join is built with NullEquality::NullEqualsNull.  It joins only the target rows the
   index lookup returns plus the unindexed fragments; the rows it leaves out match no source key and
   could only show up as target-only rows, which do nothing under Keep (the only setting that takes
   this path), so the model joins all target rows. *)
Definition uses_index (st : msettings) : bool :=
  negb (fast_path st) && m_indexed st && match m_ns st with NsKeep => true | _ => false end.
(* Merger::extract_selections looks at the FIRST `on.len()` columns of each half of the joined batch
   (not_all_null(batch, 0, num_keys) / not_all_null(batch, right_offset, num_keys)): "source_keys,
   source_payload, target_keys, target_payload".  The source half is in the order of the source schema; the
   target half is in source-schema order on the DataFrame joins and in dataset order behind TakeExec
   (indexed join). *)
Fixpoint insert_nat (x : nat) (l : list nat) : list nat :=
  match l with
  | [] => [x]
  | y :: ys => if Nat.leb x y then x :: l else y :: insert_nat x ys
  end.
Definition sort_nat (l : list nat) : list nat := fold_right insert_nat [] l.
Definition lkeys (st : msettings) : list nat := firstn (length (m_on st)) (m_scols st).
Definition tcols (st : msettings) : list nat := if uses_index st then sort_nat (m_scols st) else m_scols st.
Definition rkeys (st : msettings) : list nat := firstn (length (m_on st)) (tcols st).

(* Merger::extract_selections + execute_batch: sides are recognised by "not all key columns NULL";
   `when_matched != DoNothing` updates (so Fail is treated like UpdateAll here) *)
Definition side_left (st : msettings) (j : jrow) : bool :=
  existsb is_some (map (src_get (m_scols st) (js j)) (lkeys st)).
Definition side_right (st : msettings) (j : jrow) : bool :=
  existsb is_some (map (fun c => nth c (jt j) None) (rkeys st)).
Definition merger_action (st : msettings) (j : jrow) : action :=
  let in_left := side_left st j in
  let in_right := side_right st j in
  if in_left && in_right then
    match m_wm st with
    | WmDoNothing => ANothing
    | WmUpdateIf _ => if is_tt (cond_m st j) then AUpdateAll else ANothing
    | WmUpdateAll | WmFail => AUpdateAll
    end
  else if in_left && negb in_right then (if m_ins st then AInsert else ANothing)
  else if negb in_left && in_right then
    match m_ns st with
    | NsKeep => ANothing
    | NsDelete => ADelete
    | NsDeleteIf _ => if is_tt (cond_d st j) then ADelete else ANothing
    end
  else ANothing.

Definition row_action (st : msettings) (j : jrow) : action :=
  if fast_path st then fast_action st j else merger_action st j.

(* which join feeds the actions *)
Definition join_kind (st : msettings) : jkind :=
  if fast_path st then (if m_ins st then JSource else JInner)
  else if full_schema st then JFull                       (* also the indexed join: HashJoinExec JoinType::Full *)
  else if m_ins st then JSource else JInner.
Definition join_null_eq (st : msettings) : bool := uses_index st.

Inductive merr := EDup | EFail | EUnsupported | EOther | EPanic.
Definition merr_eqb (a b : merr) : bool :=
  match a, b with EDup, EDup | EFail, EFail | EUnsupported, EUnsupported | EOther, EOther | EPanic, EPanic => true | _, _ => false end.

Record mstate := {
  s_del : list addr;                (* delete_row_addrs / deleted_rows *)
  s_seen : list addr;               (* processed_row_ids *)
  s_upd : list (addr * row);        (* rows written because of an update: old identity, source half *)
  s_insr : list row;                (* rows written because of an insert *)
  s_nins : N; s_nupd : N; s_ndel : N
}.
Definition mstate0 : mstate := {| s_del := []; s_seen := []; s_upd := []; s_insr := []; s_nins := 0; s_nupd := 0; s_ndel := 0 |}.

Definition mem_addr (a : addr) (l : list addr) : bool := existsb (addr_eqb a) l.

(* process_row_action (fast path) / the three branches of execute_batch (legacy), one joined row at a time *)
Definition step_row (st : msettings) (acc : mstate + merr) (j : jrow) : mstate + merr :=
  match acc with
  | inr e => inr e
  | inl s =>
      match row_action st j with
      | ANothing => inl s
      | AFail => inr EFail
      | AInsert => inl {| s_del := s_del s; s_seen := s_seen s; s_upd := s_upd s; s_insr := s_insr s ++ [js j];
                          s_nins := (s_nins s + 1)%N; s_nupd := s_nupd s; s_ndel := s_ndel s |}
      | ADelete =>
          match jid j with
          | Some a => inl {| s_del := a :: s_del s; s_seen := s_seen s; s_upd := s_upd s; s_insr := s_insr s;
                             s_nins := s_nins s; s_nupd := s_nupd s; s_ndel := (s_ndel s + 1)%N |}
          | None => inl s
          end
      | AUpdateAll =>
          match jid j with
          | Some a =>
              if mem_addr a (s_seen s) then inr EDup
              else inl {| s_del := a :: s_del s; s_seen := a :: s_seen s; s_upd := s_upd s ++ [(a, js j)]; s_insr := s_insr s;
                          s_nins := s_nins s; s_nupd := (s_nupd s + 1)%N; s_ndel := s_ndel s |}
          | None => inl {| s_del := s_del s; s_seen := s_seen s; s_upd := s_upd s; s_insr := s_insr s ++ [js j];
                           s_nins := s_nins s; s_nupd := (s_nupd s + 1)%N; s_ndel := s_ndel s |}
          end
      end
  end.

Definition run_rows (st : msettings) (jr : list jrow) : mstate + merr := fold_left (step_row st) jr (inl mstate0).

(* execute_uncommitted_impl: with a partial source schema, deleting rows not matched by the source is
   rejected (NotSupported; a DeleteIf expression over a column the source lacks already fails in
   Merger::try_new) before the joined stream is consumed *)
Definition supported (st : msettings) : bool :=
  full_schema st || match m_ns st with NsKeep => true | _ => false end.

(* Merger::execute_batch calls unzip_batch for every batch when an UpdateIf filter is set.  unzip_batch
   assumes an odd number of columns (source half, target half, _rowid); with a partial source schema the
   joined batch also carries _rowaddr: debug_assert_eq!(num_fields % 2, 1) fails, and without debug
   assertions StructArray::new gets one array too many.  The panic surfaces as a JoinError.  It needs a
   batch: a join without rows emits none (observed). *)
Definition is_nil {A} (l : list A) : bool := match l with [] => true | _ => false end.
Definition unzip_panics (st : msettings) : bool :=
  match m_wm st with WmUpdateIf _ => negb (full_schema st) | _ => false end.

Definition find_upd (a : addr) (l : list (addr * row)) : option row :=
  match find (fun x => addr_eqb a (fst x)) l with Some x => Some (snd x) | None => None end.

Record mresult := { r_rows : list row; r_stats : N * N * N }.

(* merge on the abstract table (rows with identities).  Full schema: updated rows are deleted and
   re-written together with the inserted ones (RewriteRows); partial schema: the source's columns of
   the matched rows are rewritten in place, new rows get NULL in the other columns (RewriteColumns). *)
Definition a_merge (st : msettings) (tgt : itable) (src : list row) : mresult + merr :=
  if negb (supported st) then inr EUnsupported
  else if unzip_panics st && negb (is_nil (join_rows st (join_null_eq st) (join_kind st) tgt src)) then inr EPanic
  else
  match run_rows st (join_rows st (join_null_eq st) (join_kind st) tgt src) with
  | inr e => inr e
  | inl s =>
      if full_schema st
      then inl {| r_rows := map snd (filter (fun it => negb (mem_addr (fst it) (s_del s))) tgt)
                            ++ map (fun u => widen st (snd u)) (s_upd s) ++ map (widen st) (s_insr s);
                  r_stats := (s_nins s, s_nupd s, s_ndel s) |}
      else inl {| r_rows := map (fun it => match find_upd (fst it) (s_upd s) with
                                           | Some u => upd_row st u (snd it)
                                           | None => snd it end) tgt
                            ++ map (widen st) (s_insr s);
                  r_stats := (s_nins s, s_nupd s, s_ndel s) |}
  end.

(* ---- concrete merge *)
Fixpoint number_slots (fi : nat) (o : nat) (f : frag) : list (addr * row) :=
  match f with
  | [] => []
  | Some r :: rest => ((fi, o), r) :: number_slots fi (S o) rest
  | None :: rest => number_slots fi (S o) rest
  end.
Fixpoint arows_from (fi : nat) (ct : ctable) : itable :=
  match ct with
  | [] => []
  | f :: rest => number_slots fi O f ++ arows_from (S fi) rest
  end.
Definition arows (ct : ctable) : itable := arows_from O ct.

Fixpoint map_slots (g : addr -> row -> option row) (fi o : nat) (f : frag) : frag :=
  match f with
  | [] => []
  | Some r :: rest => g (fi, o) r :: map_slots g fi (S o) rest
  | None :: rest => None :: map_slots g fi (S o) rest
  end.
Fixpoint map_frags (h : nat -> frag -> list frag) (fi : nat) (ct : ctable) : ctable :=
  match ct with
  | [] => []
  | f :: rest => h fi f ++ map_frags h (S fi) rest
  end.

(* apply_deletions by address *)
Definition c_delete_addrs (del : list addr) (ct : ctable) : ctable :=
  map_frags (fun fi f =>
    if existsb (fun x => mem_addr (fst x) del) (number_slots fi O f)
    then let f' := map_slots (fun a r => if mem_addr a del then None else Some r) fi O f in
         if forallb is_none f' then [] else [f']
    else [f]) O ct.

Definition c_merge (st : msettings) (ct : ctable) (src : list row) : ctable + merr :=
  if negb (supported st) then inr EUnsupported
  else if unzip_panics st && negb (is_nil (join_rows st (join_null_eq st) (join_kind st) (arows ct) src)) then inr EPanic
  else
  match run_rows st (join_rows st (join_null_eq st) (join_kind st) (arows ct) src) with
  | inr e => inr e
  | inl s =>
      if full_schema st
      then inl (c_delete_addrs (s_del s) ct
                ++ new_frag (map (fun u => widen st (snd u)) (s_upd s) ++ map (widen st) (s_insr s)))
      else inl (map_frags (fun fi f => [map_slots (fun a r => match find_upd a (s_upd s) with
                                                               | Some u => Some (upd_row st u r)
                                                               | None => Some r end) fi O f]) O ct
                ++ new_frag (map (widen st) (s_insr s)))
  end.

Definition merge_stats (st : msettings) (ct : ctable) (src : list row) : N * N * N :=
  match a_merge st (arows ct) src with inl r => r_stats r | inr _ => (0, 0, 0)%N end.

(* ------------------------------------------------------------------ SQL MERGE, written independently *)
(* Per target row: the source rows with an equal, non-NULL key.  Per source row: inserted when no
   target row has an equal key (so always, when its key has a NULL). *)
Definition sql_eq (a b : cell) : bool := match a, b with Some x, Some y => Z.eqb x y | _, _ => false end.
Definition sql_on (st : msettings) (s t : row) : bool :=
  forallb (fun k => sql_eq (src_get (m_scols st) s k) (nth k t None)) (m_on st).

Inductive tfate := FKeep | FDelete | FUpdate (s : row) | FAmbiguous | FFailed.

Definition sql_fate (st : msettings) (src : list row) (t : row) : tfate :=
  match filter (fun s => sql_on st s t) src with
  | [] =>                                                      (* WHEN NOT MATCHED BY SOURCE *)
      match m_ns st with
      | NsKeep => FKeep
      | NsDelete => FDelete
      | NsDeleteIf c => if is_tt (eval_b t c) then FDelete else FKeep
      end
  | m =>                                                       (* WHEN MATCHED *)
      match m_wm st with
      | WmDoNothing => FKeep
      | WmFail => FFailed
      | WmUpdateAll => match m with [s] => FUpdate s | _ => FAmbiguous end
      | WmUpdateIf c =>
          match filter (fun s => is_tt (eval_b (widen st s ++ t) c)) m with
          | [] => FKeep
          | [s] => FUpdate s
          | _ => FAmbiguous
          end
      end
  end.

Definition fate_rows (st : msettings) (t : row) (f : tfate) : list row :=
  match f with
  | FKeep => [t]
  | FUpdate s => [upd_row st s t]
  | _ => []
  end.
Definition is_upd (f : tfate) : bool := match f with FUpdate _ => true | _ => false end.
Definition is_del (f : tfate) : bool := match f with FDelete => true | _ => false end.
Definition is_amb (f : tfate) : bool := match f with FAmbiguous => true | _ => false end.
Definition is_failed (f : tfate) : bool := match f with FFailed => true | _ => false end.

Definition sql_inserted (st : msettings) (tgt src : list row) : list row :=
  if m_ins st then filter (fun s => negb (existsb (fun t => sql_on st s t) tgt)) src else [].

Definition sql_merge (st : msettings) (tgt src : list row) : mresult + merr :=
  let fates := map (sql_fate st src) tgt in
  if existsb is_failed fates then inr EFail
  else if existsb is_amb fates then inr EDup
  else inl {| r_rows := flat_map (fun t => fate_rows st t (sql_fate st src t)) tgt ++ map (widen st) (sql_inserted st tgt src);
              r_stats := (N.of_nat (length (sql_inserted st tgt src)),
                          N.of_nat (length (filter is_upd fates)),
                          N.of_nat (length (filter is_del fates))) |}.

(* ------------------------------------------------------------------ known-finding classes (merge) *)
(* F19: a source row with a NULL in a key column is dropped where SQL MERGE inserts it *)
Definition Known_C12_null_key_source_rows_skipped (st : msettings) (src : list row) : bool :=
  m_ins st && existsb (fun s => existsb (fun k => is_none (src_get (m_scols st) s k)) (m_on st)) src.
(* a target row whose key columns are all NULL is never recognised as "not matched by source" *)
Definition Known_C12_null_key_target_rows_kept (st : msettings) (tgt : list row) : bool :=
  match m_ns st with NsKeep => false | _ => true end
  && existsb (fun t => forallb (fun k => is_none (nth k t None)) (m_on st)) tgt.
(* off the fast path WhenMatched::Fail is executed as UpdateAll *)
Definition Known_C12_fail_off_fast_path (st : msettings) : bool :=
  match m_wm st with WmFail => negb (fast_path st) | _ => false end.

(* off the fast path the key columns must be the first columns of the source schema (see lkeys / rkeys) *)
Definition same_set (a b : list nat) : bool :=
  forallb (fun x => existsb (Nat.eqb x) b) a && forallb (fun x => existsb (Nat.eqb x) a) b.
Definition Known_C12_key_columns_not_first (st : msettings) : bool :=
  negb (fast_path st) && negb (same_set (lkeys st) (m_on st) && same_set (rkeys st) (m_on st)).

(* WhenMatched::UpdateIf with a source that has only some of the columns panics (see unzip_panics) *)
Definition Known_C12_update_if_partial_schema_panics (st : msettings) : bool := unzip_panics st.

(* well-formed settings and inputs *)
Definition wf_settings (st : msettings) : bool :=
  nodupb (m_scols st)
  && forallb (fun c => Nat.ltb c (m_ncols st)) (m_scols st)
  && forallb (fun k => existsb (Nat.eqb k) (m_scols st)) (m_on st)
  && negb (match m_on st with [] => true | _ => false end)
  && (negb (m_indexed st) || Nat.eqb (length (m_on st)) 1)
  && supported st.
Definition wf_tgt (st : msettings) (tgt : list row) : bool := forallb (fun t => Nat.eqb (length t) (m_ncols st)) tgt.
Definition wf_src (st : msettings) (src : list row) : bool := forallb (fun s => Nat.eqb (length s) (length (m_scols st))) src.

(* ------------------------------------------------------------------ canonical order (for multiset comparison) *)
Definition cell_leb (a b : cell) : bool :=
  match a, b with
  | None, _ => true
  | Some _, None => false
  | Some x, Some y => Z.leb x y
  end.
Definition cell_eqb (a b : cell) : bool := option_eqb Z.eqb a b.
Fixpoint row_leb (a b : row) : bool :=
  match a, b with
  | [], _ => true
  | _ :: _, [] => false
  | x :: xs, y :: ys => if cell_eqb x y then row_leb xs ys else cell_leb x y
  end.
Fixpoint insert_row (r : row) (l : list row) : list row :=
  match l with
  | [] => [r]
  | x :: xs => if row_leb r x then r :: l else x :: insert_row r xs
  end.
Definition sort_rows (l : list row) : list row := fold_right insert_row [] l.
Definition row_eqb (a b : row) : bool := list_eqb cell_eqb a b.
Definition rows_eqb (a b : list row) : bool := list_eqb row_eqb a b.
Definition same_rows (a b : list row) : bool := rows_eqb (sort_rows a) (sort_rows b).

(* ------------------------------------------------------------------ correspondence checkers *)
Definition nn_eqb (a b : N * N) : bool := N.eqb (fst a) (fst b) && N.eqb (snd a) (snd b).

(* observation after an operation: full ordered scan, [count_rows(None); count_rows(filter); count_deleted_rows; extra],
   per-fragment (physical rows, deleted rows) *)
Definition observation := (list row * (list N * list (N * N)))%type.

Definition observe (cf : bexpr) (extra : N) (ct : ctable) : observation :=
  (abs ct, ([N.of_nat (count_rows None ct); N.of_nat (count_rows (Some cf) ct); N.of_nat (count_deleted ct); extra], shape ct)).

Definition obs_eqb (ordered : bool) (a b : observation) : bool :=
  (if ordered then rows_eqb (fst a) (fst b) else same_rows (fst a) (fst b))
  && list_eqb N.eqb (fst (snd a)) (fst (snd b))
  && list_eqb nn_eqb (snd (snd a)) (snd (snd b)).

(* delete: input (table before, predicate, filter used for count_rows afterwards) *)
Definition chk_delete (i : ctable * (bexpr * bexpr)) (o : observation) : bool :=
  let '(ct, (p, cf)) := i in
  obs_eqb true (observe cf 0%N (c_delete p ct)) o.

(* update: extra = UpdateResult::rows_updated.  The HashMap order is not observable: some order must explain the result. *)
Definition chk_update (i : ctable * (bexpr * (list assignment * bexpr))) (o : observation) : bool :=
  let '(ct, (p, (asg, cf))) := i in
  existsb (fun asg' => obs_eqb true (observe cf (N.of_nat (length (filter (sel p) (abs ct)))) (c_update p asg' ct)) o) (perms asg).

(* merge: output = error kind, or (observation with extra = 0, (inserted, updated, deleted)) *)
Definition merr_code (e : merr) : N := match e with EDup => 1 | EFail => 2 | EUnsupported => 3 | EOther => 4 | EPanic => 5 end%N.
Definition chk_merge (i : ctable * (list row * (msettings * bexpr))) (o : (observation * (N * N * N)) + N) : bool :=
  let '(ct, (src, (st, cf))) := i in
  match c_merge st ct src, o with
  | inr e, inr code => N.eqb (merr_code e) code
  | inl ct', inl (ob, (ni, nu, nd)) =>
      obs_eqb false (observe cf 0%N ct') ob
      && (let '(a, b, c) := merge_stats st ct src in N.eqb a ni && N.eqb b nu && N.eqb c nd)
  | _, _ => false
  end.

(* the action of one joined row, as observed end to end on a probe row of the micro table:
   input (settings, (source half, target half, target row present, the row exists in the join)) *)
Definition action_code (a : action) : N :=
  match a with ANothing => 0 | AUpdateAll => 1 | AInsert => 2 | ADelete => 3 | AFail => 4 end%N.
Definition jrow_in_join (st : msettings) (src_present tgt_present : bool) : bool :=
  match src_present, tgt_present with
  | true, true => true
  | true, false => keep_src (join_kind st)
  | false, true => keep_tgt (join_kind st)
  | false, false => false
  end.
Definition chk_action (i : msettings * (option row * option row)) (o : N) : bool :=
  let '(st, (s, t)) := i in
  let j := {| js := match s with Some x => x | None => nulls (length (m_scols st)) end;
              jt := match t with Some x => x | None => nulls (m_ncols st) end;
              jid := match t with Some _ => Some (O, O) | None => None end |} in
  N.eqb (action_code (if jrow_in_join st (is_some s) (is_some t) then row_action st j else ANothing)) o.
