(* Lemmas and proofs about Core/Model_Mask.v. *)
From LanceV Require Import Common.Base Core.Model_Mask.
From Coq Require Import Sorting.Sorted.
Local Open Scope N_scope.

(* ------------------------------------------------------------------------------------------ *)
(* the Rust unit tests of mask.rs, run on the model *)
Example unit_test_ops :
  let m := all_rows in
  let bl := also_block m (tm_from_iter [0; 5; 15]) in
  let al := from_allowed (tm_from_iter [0; 2; 5]) in
  let c := mand bl al in
  selected m 1 = true /\ selected bl 1 = true /\ selected bl 5 = false /\ selected al 1 = false /\
  selected al 5 = true /\ selected c 2 = true /\ selected c 0 = false /\ selected c 5 = false /\
  match mor c (from_allowed (tm_from_iter [3])) with
  | Ok c2 => selected c2 2 = true /\ selected c2 3 = true /\ selected c2 0 = false /\ selected c2 5 = false
  | _ => False
  end.
Proof. vm_compute. repeat split; reflexivity. Qed.

(* ------------------------------------------------------------------------------------------ *)
(* lists as sets: membership equations *)

Lemma eqb_sym_N (a b : N) : (a =? b) = (b =? a).
Proof. destruct (N.eqb_spec a b), (N.eqb_spec b a); congruence. Qed.

Lemma lmem_cons x y l : lmem x (y :: l) = (x =? y) || lmem x l.
Proof. reflexivity. Qed.

Lemma lmem_In x l : lmem x l = true <-> In x l.
Proof.
  unfold lmem. rewrite existsb_exists. split.
  - intros [y [Hin He]]. apply N.eqb_eq in He. subst; assumption.
  - intro H. exists x. split; [assumption | apply N.eqb_refl].
Qed.

Lemma lmem_false_notin x l : lmem x l = false <-> ~ In x l.
Proof. rewrite <- lmem_In. destruct (lmem x l); split; intros; try congruence; exfalso; auto. Qed.

Lemma lmem_filter f x l : lmem x (filter f l) = lmem x l && f x.
Proof.
  induction l as [|y r IH]; [reflexivity|]. cbn [filter].
  destruct (f y) eqn:Fy; rewrite ?lmem_cons, IH.
  - destruct (N.eqb_spec x y) as [E|Hne]; cbn [orb]; [|reflexivity].
    rewrite E, Fy. reflexivity.
  - destruct (N.eqb_spec x y) as [E|Hne]; cbn [orb]; [|reflexivity].
    rewrite E, Fy. rewrite andb_false_r. reflexivity.
Qed.

Lemma lmem_lins y x l : lmem y (lins x l) = (y =? x) || lmem y l.
Proof.
  induction l as [|z r IH]; cbn [lins].
  - rewrite !lmem_cons. reflexivity.
  - destruct (x <? z) eqn:H1; [rewrite !lmem_cons; reflexivity|].
    destruct (N.eqb_spec x z) as [->|Hne].
    + rewrite lmem_cons. destruct (y =? z); reflexivity.
    + rewrite !lmem_cons, IH. destruct (y =? x), (y =? z); reflexivity.
Qed.

Lemma lmem_lrem y x l : lmem y (lrem x l) = lmem y l && negb (y =? x).
Proof. unfold lrem. rewrite lmem_filter. reflexivity. Qed.

Lemma lmem_lunion y a b : lmem y (lunion a b) = lmem y a || lmem y b.
Proof.
  unfold lunion. induction a as [|x r IH]; [reflexivity|].
  cbn [fold_right]. rewrite lmem_lins, IH, lmem_cons. rewrite orb_assoc. reflexivity.
Qed.

Lemma lmem_linter y a b : lmem y (linter a b) = lmem y a && lmem y b.
Proof. unfold linter. apply lmem_filter. Qed.

Lemma lmem_ldiff y a b : lmem y (ldiff a b) = lmem y a && negb (lmem y b).
Proof. unfold ldiff. apply lmem_filter. Qed.

Lemma lmem_nseq y s n : lmem y (nseq s n) = (s <=? y) && (y <? s + N.of_nat n).
Proof.
  revert s. induction n as [|n IH]; intro s.
  - cbn [nseq lmem existsb]. destruct (s <=? y) eqn:E; [|reflexivity]. cbn. symmetry. apply N.ltb_ge. lia.
  - cbn [nseq]. rewrite lmem_cons, IH, Nat2N.inj_succ.
    destruct (N.eqb_spec y s) as [->|Hne].
    + cbn. symmetry. apply andb_true_iff. split; [apply N.leb_le; lia | apply N.ltb_lt; lia].
    + cbn. destruct (s + 1 <=? y) eqn:A, (s <=? y) eqn:B, (y <? s + 1 + N.of_nat n) eqn:C, (y <? s + N.succ (N.of_nat n)) eqn:D; try reflexivity; exfalso; lia.
Qed.

Lemma lmem_nrange y lo hi : lmem y (nrange lo hi) = (lo <=? y) && (y <=? hi).
Proof.
  unfold nrange. destruct (hi <? lo) eqn:E.
  - cbn. destruct (lo <=? y) eqn:A, (y <=? hi) eqn:B; try reflexivity. exfalso; lia.
  - rewrite lmem_nseq. rewrite N2Nat.id.
    destruct (lo <=? y) eqn:A; [|reflexivity]. cbn.
    destruct (y <? lo + (hi - lo + 1)) eqn:B, (y <=? hi) eqn:C; try reflexivity; exfalso; lia.
Qed.

(* ------------------------------------------------------------------------------------------ *)
(* strictly increasing lists *)

Definition lsorted (l : list N) : Prop := StronglySorted N.lt l.

Lemma lsorted_nil : lsorted []. Proof. constructor. Qed.

Lemma lsorted_cons_inv x l : lsorted (x :: l) -> lsorted l /\ Forall (N.lt x) l.
Proof. intro H. inversion H; subst. split; assumption. Qed.

Lemma lsorted_filter f l : lsorted l -> lsorted (filter f l).
Proof.
  induction l as [|x r IH]; intro H; [constructor|].
  apply lsorted_cons_inv in H as [Hr Hx]. cbn [filter]. destruct (f x).
  - constructor; [apply IH; assumption|].
    apply Forall_forall. intros y Hy. apply filter_In in Hy as [Hy _].
    rewrite Forall_forall in Hx. apply Hx; assumption.
  - apply IH; assumption.
Qed.

Lemma Forall_filter {A} (P : A -> Prop) f (l : list A) : Forall P l -> Forall P (filter f l).
Proof.
  intro H. apply Forall_forall. intros y Hy. apply filter_In in Hy as [Hy _].
  rewrite Forall_forall in H. auto.
Qed.

Lemma In_lins y x l : In y (lins x l) <-> y = x \/ In y l.
Proof.
  rewrite <- !lmem_In, lmem_lins, orb_true_iff, N.eqb_eq. reflexivity.
Qed.

Lemma lsorted_lins x l : lsorted l -> lsorted (lins x l).
Proof.
  induction l as [|z r IH]; intro H; cbn [lins].
  - constructor; constructor.
  - destruct (x <? z) eqn:H1.
    + apply lsorted_cons_inv in H as H'. destruct H' as [Hr Hz].
      constructor; [assumption|]. constructor; [lia|].
      eapply Forall_impl; [|exact Hz]. intros a Ha. cbn in Ha. lia.
    + destruct (N.eqb_spec x z) as [->|Hne]; [assumption|].
      apply lsorted_cons_inv in H as [Hr Hz].
      constructor; [apply IH; assumption|].
      apply Forall_forall. intros y Hy. apply In_lins in Hy as [->|Hy]; [lia|].
      rewrite Forall_forall in Hz. apply Hz; assumption.
Qed.

Lemma Forall_lins (P : N -> Prop) x l : P x -> Forall P l -> Forall P (lins x l).
Proof.
  intros Hx Hl. apply Forall_forall. intros y Hy. apply In_lins in Hy as [->|Hy]; [assumption|].
  rewrite Forall_forall in Hl. auto.
Qed.

Lemma lsorted_lunion a b : lsorted b -> lsorted (lunion a b).
Proof. intro H. unfold lunion. induction a as [|x r IH]; [assumption|]. cbn. apply lsorted_lins. assumption. Qed.

Lemma Forall_lunion (P : N -> Prop) a b : Forall P a -> Forall P b -> Forall P (lunion a b).
Proof.
  intros Ha Hb. unfold lunion. induction a as [|x r IH]; [assumption|].
  inversion Ha; subst. cbn. apply Forall_lins; auto.
Qed.

Lemma Forall_nseq_ge s n : Forall (fun x => s <= x < s + N.of_nat n) (nseq s n).
Proof.
  revert s. induction n as [|n IH]; intro s; [constructor|].
  cbn [nseq]. constructor; [lia|].
  eapply Forall_impl; [|apply IH]. intros a Ha. cbn in Ha. lia.
Qed.

Lemma lsorted_nseq s n : lsorted (nseq s n).
Proof.
  revert s. induction n as [|n IH]; intro s; [constructor|].
  cbn [nseq]. constructor; [apply IH|].
  eapply Forall_impl; [|apply Forall_nseq_ge]. intros a Ha. cbn in Ha. lia.
Qed.

Lemma lsorted_nrange lo hi : lsorted (nrange lo hi).
Proof. unfold nrange. destruct (hi <? lo); [constructor | apply lsorted_nseq]. Qed.

Lemma Forall_nrange lo hi : Forall (fun x => lo <= x <= hi) (nrange lo hi).
Proof.
  unfold nrange. destruct (hi <? lo) eqn:E; [constructor|].
  eapply Forall_impl; [|apply Forall_nseq_ge]. intros a Ha. cbn in Ha. lia.
Qed.

Lemma lsorted_NoDup l : lsorted l -> NoDup l.
Proof.
  induction l as [|x r IH]; intro H; [constructor|].
  apply lsorted_cons_inv in H as [Hr Hx]. constructor; [|auto].
  intro Hin. rewrite Forall_forall in Hx. specialize (Hx _ Hin). lia.
Qed.

(* a strictly increasing list inside [a, m) has at most m - a elements, and exactly that many only if
   it is the whole interval *)
Lemma lsorted_length_le l : forall a m, lsorted l -> Forall (fun x => a <= x < m) l -> a <= m ->
  N.of_nat (length l) <= m - a.
Proof.
  induction l as [|x r IH]; intros a m Hs Hb Ham; [cbn; lia|].
  apply lsorted_cons_inv in Hs as [Hr Hx]. inversion Hb as [|? ? Hxb Hrb]; subst.
  assert (N.of_nat (length r) <= m - (x + 1)).
  { apply IH; [assumption| |lia].
    apply Forall_forall. intros y Hy. rewrite Forall_forall in Hx, Hrb.
    specialize (Hx _ Hy). specialize (Hrb _ Hy). lia. }
  cbn [length]. lia.
Qed.

Lemma lsorted_full l : forall a m, lsorted l -> Forall (fun x => a <= x < m) l -> a <= m ->
  N.of_nat (length l) = m - a -> forall y, a <= y < m -> In y l.
Proof.
  induction l as [|x r IH]; intros a m Hs Hb Ham Hlen y Hy; [cbn in Hlen; lia|].
  apply lsorted_cons_inv in Hs as [Hr Hx]. inversion Hb as [|? ? Hxb Hrb]; subst.
  assert (Hrb' : Forall (fun z => x + 1 <= z < m) r).
  { apply Forall_forall. intros z Hz. rewrite Forall_forall in Hx, Hrb.
    specialize (Hx _ Hz). specialize (Hrb _ Hz). lia. }
  pose proof (lsorted_length_le r (x + 1) m Hr Hrb' ltac:(lia)) as Hle.
  cbn [length] in Hlen.
  assert (x = a) by lia. subst x.
  destruct (N.eq_dec y a) as [->|Hne]; [left; reflexivity|]. right.
  apply (IH (a + 1) m); try assumption; lia.
Qed.

(* ------------------------------------------------------------------------------------------ *)
(* RoaringBitmap: membership equations (unconditional) *)

Lemma bm_mem_lt b y : bm_mem b y = true -> y < two32.
Proof. destruct b; cbn [bm_mem]; intro H; apply andb_true_iff in H as [H _]; lia. Qed.

Lemma bm_mem_empty y : bm_mem bm_empty y = false.
Proof. cbn. apply andb_false_r. Qed.

Lemma bm_mem_full y : bm_mem bm_full y = (y <? two32).
Proof. cbn. apply andb_true_r. Qed.

Lemma bm_mem_insert x b y :
  bm_mem (fst (bm_insert x b)) y = ((y <? two32) && (y =? x)) || bm_mem b y.
Proof.
  destruct b as [l|l]; cbn [bm_insert fst bm_mem].
  - rewrite lmem_lins. destruct (y <? two32), (y =? x), (lmem y l); reflexivity.
  - rewrite lmem_lrem. destruct (y <? two32), (y =? x), (lmem y l); reflexivity.
Qed.

Lemma bm_insert_changed x b : x < two32 -> snd (bm_insert x b) = negb (bm_mem b x).
Proof.
  intro Hx. assert (E : (x <? two32) = true) by (apply N.ltb_lt; lia).
  destruct b as [l|l]; cbn [bm_insert snd bm_mem]; rewrite E; cbn; [reflexivity|].
  rewrite negb_involutive. reflexivity.
Qed.

Lemma bm_mem_remove x b y : bm_mem (fst (bm_remove x b)) y = bm_mem b y && negb (y =? x).
Proof.
  destruct b as [l|l]; cbn [bm_remove fst bm_mem].
  - rewrite lmem_lrem. destruct (y <? two32), (y =? x), (lmem y l); reflexivity.
  - rewrite lmem_lins. destruct (y <? two32), (y =? x), (lmem y l); reflexivity.
Qed.

Lemma bm_remove_changed x b : x < two32 -> snd (bm_remove x b) = bm_mem b x.
Proof.
  intro Hx. assert (E : (x <? two32) = true) by (apply N.ltb_lt; lia).
  destruct b as [l|l]; cbn [bm_remove snd bm_mem]; rewrite E; reflexivity.
Qed.

Lemma bm_mem_insert_range lo hi b y :
  bm_mem (fst (bm_insert_range lo hi b)) y = bm_mem b y || ((y <? two32) && ((lo <=? y) && (y <=? hi))).
Proof.
  destruct b as [l|l]; cbn [bm_insert_range fst bm_mem].
  - rewrite lmem_lunion, lmem_nrange.
    destruct (y <? two32), (lmem y l), ((lo <=? y) && (y <=? hi)); reflexivity.
  - rewrite lmem_ldiff, lmem_nrange.
    destruct (y <? two32), (lmem y l), ((lo <=? y) && (y <=? hi)); reflexivity.
Qed.

Lemma bm_mem_union a b y : bm_mem (bm_union a b) y = bm_mem a y || bm_mem b y.
Proof.
  destruct a as [x|x], b as [z|z]; cbn [bm_union bm_mem];
    rewrite ?lmem_lunion, ?lmem_ldiff, ?lmem_linter;
    destruct (y <? two32), (lmem y x), (lmem y z); reflexivity.
Qed.

Lemma bm_mem_inter a b y : bm_mem (bm_inter a b) y = bm_mem a y && bm_mem b y.
Proof.
  destruct a as [x|x], b as [z|z]; cbn [bm_inter bm_mem];
    rewrite ?lmem_lunion, ?lmem_ldiff, ?lmem_linter;
    destruct (y <? two32), (lmem y x), (lmem y z); reflexivity.
Qed.

Lemma bm_mem_diff a b y : bm_mem (bm_diff a b) y = bm_mem a y && negb (bm_mem b y).
Proof.
  destruct a as [x|x], b as [z|z]; cbn [bm_diff bm_mem];
    rewrite ?lmem_lunion, ?lmem_ldiff, ?lmem_linter;
    destruct (y <? two32), (lmem y x), (lmem y z); reflexivity.
Qed.

(* well-formed bitmaps: strictly increasing lists of u32 values *)
Definition lwf (l : list N) : Prop := lsorted l /\ Forall (fun x => x < two32) l.
Definition bm_wf (b : bitmap) : Prop := match b with Pos l => lwf l | Neg l => lwf l end.

Lemma lwf_nil : lwf []. Proof. split; constructor. Qed.
Lemma lwf_lins x l : x < two32 -> lwf l -> lwf (lins x l).
Proof. intros Hx [H1 H2]. split; [apply lsorted_lins | apply Forall_lins]; assumption. Qed.
Lemma lwf_filter f l : lwf l -> lwf (filter f l).
Proof. intros [H1 H2]. split; [apply lsorted_filter | apply Forall_filter]; assumption. Qed.
Lemma lwf_lunion a b : lwf a -> lwf b -> lwf (lunion a b).
Proof. intros [H1 H2] [H3 H4]. split; [apply lsorted_lunion | apply Forall_lunion]; assumption. Qed.
Lemma lwf_nrange lo hi : hi < two32 -> lwf (nrange lo hi).
Proof.
  intro H. split; [apply lsorted_nrange|].
  eapply Forall_impl; [|apply Forall_nrange]. intros a Ha. cbn in Ha. lia.
Qed.

Lemma bm_wf_empty : bm_wf bm_empty. Proof. exact lwf_nil. Qed.
Lemma bm_wf_full : bm_wf bm_full. Proof. exact lwf_nil. Qed.
Lemma bm_wf_insert x b : x < two32 -> bm_wf b -> bm_wf (fst (bm_insert x b)).
Proof. intros Hx H. destruct b; cbn; [apply lwf_lins | apply lwf_filter]; assumption. Qed.
Lemma bm_wf_remove x b : x < two32 -> bm_wf b -> bm_wf (fst (bm_remove x b)).
Proof. intros Hx H. destruct b; cbn; [apply lwf_filter | apply lwf_lins]; assumption. Qed.
Lemma bm_wf_insert_range lo hi b : hi < two32 -> bm_wf b -> bm_wf (fst (bm_insert_range lo hi b)).
Proof.
  intros Hh H. destruct b; cbn; [apply lwf_lunion; [apply lwf_nrange|]| apply lwf_filter]; assumption.
Qed.
Lemma bm_wf_union a b : bm_wf a -> bm_wf b -> bm_wf (bm_union a b).
Proof. intros Ha Hb. destruct a, b; cbn; first [apply lwf_lunion | apply lwf_filter]; assumption. Qed.
Lemma bm_wf_inter a b : bm_wf a -> bm_wf b -> bm_wf (bm_inter a b).
Proof. intros Ha Hb. destruct a, b; cbn; first [apply lwf_lunion | apply lwf_filter]; assumption. Qed.
Lemma bm_wf_diff a b : bm_wf a -> bm_wf b -> bm_wf (bm_diff a b).
Proof. intros Ha Hb. destruct a, b; cbn; first [apply lwf_lunion | apply lwf_filter]; assumption. Qed.

(* is_empty is exactly "no member" on well-formed bitmaps *)
Lemma bm_is_empty_spec b : bm_wf b -> (bm_is_empty b = true <-> forall y, bm_mem b y = false).
Proof.
  intro Hwf. destruct b as [l|l]; cbn [bm_is_empty bm_mem].
  - destruct l as [|x r].
    + split; [intros _ y; apply andb_false_r | reflexivity].
    + split; [discriminate|]. intro H. specialize (H x).
      destruct Hwf as [_ Hb]. inversion Hb; subst.
      rewrite lmem_cons, N.eqb_refl in H. cbn in H.
      assert ((x <? two32) = true) by (apply N.ltb_lt; lia). rewrite H0 in H. discriminate.
  - destruct Hwf as [Hs Hb]. split.
    + intros E y. apply N.eqb_eq in E. unfold llen in E.
      destruct (y <? two32) eqn:Hy; [|reflexivity]. cbn.
      assert (In y l).
      { apply (lsorted_full l 0 two32); try assumption; try lia.
        eapply Forall_impl; [|exact Hb]. intros a Ha. cbn in Ha. lia. }
      apply lmem_In in H. rewrite H. reflexivity.
    + intro H. apply N.eqb_eq. unfold llen.
      assert (Hle : N.of_nat (length l) <= two32 - 0).
      { apply lsorted_length_le; try assumption; try lia.
        eapply Forall_impl; [|exact Hb]. intros a Ha. cbn in Ha. lia. }
      (* if fewer than 2^32 are missing, some y is present: the complement list is non-empty *)
      destruct (N.eq_dec (N.of_nat (length l)) two32) as [E|Hne]; [assumption|].
      exfalso.
      (* the least value not in l: walk the sorted list *)
      assert (Hex : forall (l : list N) a, lsorted l -> Forall (fun x => a <= x < two32) l ->
                 a <= two32 -> N.of_nat (length l) < two32 - a -> exists y, a <= y < two32 /\ ~ In y l).
      { clear. induction l as [|x r IH]; intros a Hs Hb Ha Hlen.
        - exists a. split; [cbn in Hlen; lia | intros []].
        - apply lsorted_cons_inv in Hs as [Hr Hx]. inversion Hb as [|? ? Hxb Hrb]; subst.
          destruct (N.eq_dec x a) as [->|Hne].
          + assert (Hrb' : Forall (fun z => a + 1 <= z < two32) r).
            { apply Forall_forall. intros z Hz. rewrite Forall_forall in Hx, Hrb.
              specialize (Hx _ Hz). specialize (Hrb _ Hz). lia. }
            destruct (IH (a + 1) Hr Hrb' ltac:(lia) ltac:(cbn [length] in Hlen; lia)) as [y [Hy Hn]].
            exists y. split; [lia|]. intros [E|Hin]; [lia | auto].
          + exists a. split; [lia|]. intros [E|Hin]; [lia|].
            rewrite Forall_forall in Hx. specialize (Hx _ Hin). lia. }
      destruct (Hex l 0 Hs) as [y [Hy Hn]]; try lia.
      { eapply Forall_impl; [|exact Hb]. intros a Ha. cbn in Ha. lia. }
      specialize (H y). apply lmem_false_notin in Hn. rewrite Hn in H.
      assert ((y <? two32) = true) by (apply N.ltb_lt; lia). rewrite H0 in H. discriminate.
Qed.

(* ------------------------------------------------------------------------------------------ *)
(* BTreeMap as sorted association list *)

Section AMapFacts.
  Context {V : Type}.
  Implicit Types (t : list (N * V)).

  Definition keys t : list N := map fst t.

  Lemma aget_aput k v t k' : aget k' (aput k v t) = if k' =? k then Some v else aget k' t.
  Proof.
    induction t as [|[k0 v0] r IH]; cbn [aput aget].
    - reflexivity.
    - destruct (k <? k0) eqn:L.
      + cbn [aget]. reflexivity.
      + destruct (N.eqb_spec k k0) as [->|Hne].
        * cbn [aget]. destruct (k' =? k0); reflexivity.
        * cbn [aget]. rewrite IH.
          destruct (N.eqb_spec k' k0) as [->|H1]; [|reflexivity].
          destruct (N.eqb_spec k0 k); [congruence | reflexivity].
  Qed.

  Lemma aget_adel k t k' : aget k' (adel k t) = if k' =? k then None else aget k' t.
  Proof.
    unfold adel. induction t as [|[k0 v0] r IH]; cbn [filter aget fst].
    - destruct (k' =? k); reflexivity.
    - destruct (N.eqb_spec k0 k) as [->|Hne]; cbn [negb].
      + rewrite IH. destruct (N.eqb_spec k' k); reflexivity.
      + cbn [aget]. rewrite IH.
        destruct (N.eqb_spec k' k0) as [->|H1]; [|reflexivity].
        destruct (N.eqb_spec k0 k); [congruence | reflexivity].
  Qed.

  Lemma keys_aput k v t : keys (aput k v t) = lins k (keys t).
  Proof.
    unfold keys. induction t as [|[k0 v0] r IH]; cbn [aput map lins fst]; [reflexivity|].
    destruct (k <? k0); [reflexivity|].
    destruct (N.eqb_spec k k0) as [->|Hne]; cbn [map fst]; [reflexivity | rewrite IH; reflexivity].
  Qed.

  Lemma keys_filter_sorted (P : N * V -> bool) t : lsorted (keys t) -> lsorted (keys (filter P t)).
  Proof.
    unfold keys. induction t as [|[k0 v0] r IH]; cbn [filter map fst]; intro H; [constructor|].
    apply lsorted_cons_inv in H as [Hr Hk]. destruct (P (k0, v0)); cbn [map fst]; [|apply IH; assumption].
    constructor; [apply IH; assumption|].
    apply Forall_forall. intros y Hy. apply in_map_iff in Hy as [e [<- He]].
    apply filter_In in He as [He _]. rewrite Forall_forall in Hk. apply Hk. apply in_map. assumption.
  Qed.

  Lemma aget_none_lt k t : Forall (N.lt k) (keys t) -> aget k t = None.
  Proof.
    unfold keys. induction t as [|[k0 v0] r IH]; cbn [map fst aget]; intro H; [reflexivity|].
    inversion H; subst. destruct (N.eqb_spec k k0); [lia | auto].
  Qed.

  Lemma aget_In k v t : aget k t = Some v -> In (k, v) t.
  Proof.
    induction t as [|[k0 v0] r IH]; cbn [aget]; [discriminate|].
    destruct (N.eqb_spec k k0) as [->|Hne]; intro H; [left; congruence | right; auto].
  Qed.

  Lemma In_aput e k v t : In e (aput k v t) -> e = (k, v) \/ In e t.
  Proof.
    induction t as [|[k0 v0] r IH]; cbn [aput]; intro H.
    - destruct H as [<-|[]]. left; reflexivity.
    - destruct (k <? k0); [destruct H as [<-|H]; [left; reflexivity | right; assumption]|].
      destruct (k =? k0).
      + destruct H as [<-|H]; [left; reflexivity | right; right; assumption].
      + destruct H as [<-|H]; [right; left; reflexivity|].
        destruct (IH H) as [->|H']; [left; reflexivity | right; right; assumption].
  Qed.

  Lemma Forall_aput (P : N * V -> Prop) k v t : P (k, v) -> Forall P t -> Forall P (aput k v t).
  Proof.
    intros Hk Ht. apply Forall_forall. intros e He. apply In_aput in He as [->|He]; [assumption|].
    rewrite Forall_forall in Ht. auto.
  Qed.

  Lemma aget_filter (P : N * V -> bool) t k : lsorted (keys t) ->
    aget k (filter P t) = match aget k t with Some v => if P (k, v) then Some v else None | None => None end.
  Proof.
    unfold keys. induction t as [|[k0 v0] r IH]; cbn [filter aget map fst]; intro H; [reflexivity|].
    apply lsorted_cons_inv in H as [Hr Hk].
    destruct (N.eqb_spec k k0) as [->|Hne].
    - destruct (P (k0, v0)) eqn:E; cbn [aget]; [rewrite N.eqb_refl; reflexivity|].
      rewrite IH by assumption. rewrite (aget_none_lt k0 r Hk). reflexivity.
    - destruct (P (k0, v0)); cbn [aget]; [destruct (N.eqb_spec k k0); [congruence|]|]; auto.
  Qed.
End AMapFacts.

Lemma aget_map {V W} (h : N -> V -> W) (t : list (N * V)) f :
  aget f (map (fun e => (fst e, h (fst e) (snd e))) t) = option_map (h f) (aget f t).
Proof.
  induction t as [|[k0 v0] r IH]; cbn [map aget fst snd]; [reflexivity|].
  destruct (N.eqb_spec f k0) as [->|Hne]; [reflexivity | exact IH].
Qed.

Lemma keys_map {V W} (h : N -> V -> W) (t : list (N * V)) :
  keys (map (fun e => (fst e, h (fst e) (snd e))) t) = keys t.
Proof. unfold keys. rewrite map_map. cbn [fst]. reflexivity. Qed.

(* ------------------------------------------------------------------------------------------ *)
(* RowIdTreeMap: well-formedness and membership *)

Definition sel_wf (s : sel) : Prop := match s with Full => True | Partial b => bm_wf b end.
Definition entry_wf (e : N * sel) : Prop := fst e < two32 /\ sel_wf (snd e).
Definition tm_wf (t : treemap) : Prop := lsorted (keys t) /\ Forall entry_wf t.

Definition sel_has (s : option sel) (o : N) : bool :=
  match s with None => false | Some Full => true | Some (Partial b) => bm_mem b o end.

Lemma tm_contains_has t v : tm_contains t v = sel_has (aget (hi32 v) t) (lo32 v).
Proof. reflexivity. Qed.

Lemma hi32_lt v : hi32 v < two32.
Proof. unfold hi32, wrap32. apply N.mod_lt. discriminate. Qed.
Lemma lo32_lt v : lo32 v < two32.
Proof. unfold lo32, wrap32. apply N.mod_lt. discriminate. Qed.

Lemma tm_wf_nil : tm_wf []. Proof. split; constructor. Qed.

Lemma tm_wf_aput k s t : k < two32 -> sel_wf s -> tm_wf t -> tm_wf (aput k s t).
Proof.
  intros Hk Hs [H1 H2]. split.
  - rewrite keys_aput. apply lsorted_lins. assumption.
  - apply Forall_aput; [split; assumption | assumption].
Qed.

Lemma tm_wf_filter P t : tm_wf t -> tm_wf (filter P t).
Proof. intros [H1 H2]. split; [apply keys_filter_sorted | apply Forall_filter]; assumption. Qed.

Lemma tm_wf_adel k t : tm_wf t -> tm_wf (adel k t).
Proof. apply tm_wf_filter. Qed.

Lemma tm_wf_aget t k s : tm_wf t -> aget k t = Some s -> k < two32 /\ sel_wf s.
Proof.
  intros [_ H2] H. apply aget_In in H. rewrite Forall_forall in H2. apply (H2 _ H).
Qed.

Lemma tm_wf_tail e t : tm_wf (e :: t) -> tm_wf t /\ entry_wf e /\ aget (fst e) t = None.
Proof.
  intros [H1 H2]. unfold keys in H1. cbn [map] in H1. apply lsorted_cons_inv in H1 as [Hr Hk].
  inversion H2 as [|? ? He Ht]; subst. split; [split; assumption|]. split; [exact He|].
  apply aget_none_lt. exact Hk.
Qed.

(* ---- insert / remove / extend ---- *)
Lemma tm_insert_contains v t x :
  tm_contains (fst (tm_insert v t)) x = ((hi32 x =? hi32 v) && (lo32 x =? lo32 v)) || tm_contains t x.
Proof.
  rewrite !tm_contains_has. unfold tm_insert.
  pose proof (lo32_lt x) as Hx. assert (Ex : (lo32 x <? two32) = true) by (apply N.ltb_lt; lia).
  destruct (aget (hi32 v) t) as [[|b]|] eqn:E; cbn [fst].
  - destruct (N.eqb_spec (hi32 x) (hi32 v)) as [->|Hne]; [rewrite E; cbn; destruct (lo32 x =? lo32 v); reflexivity | reflexivity].
  - destruct (bm_insert (lo32 v) b) as [b' ch] eqn:Eb. cbn [fst]. rewrite aget_aput.
    destruct (N.eqb_spec (hi32 x) (hi32 v)) as [->|Hne]; [|reflexivity].
    rewrite E. cbn [sel_has andb]. replace b' with (fst (bm_insert (lo32 v) b)) by (rewrite Eb; reflexivity).
    rewrite bm_mem_insert, Ex. destruct (lo32 x =? lo32 v), (bm_mem b (lo32 x)); reflexivity.
  - rewrite aget_aput.
    destruct (N.eqb_spec (hi32 x) (hi32 v)) as [->|Hne]; [|reflexivity].
    rewrite E. cbn [sel_has andb]. rewrite bm_mem_insert, Ex, bm_mem_empty. destruct (lo32 x =? lo32 v); reflexivity.
Qed.

Lemma tm_insert_ret v t : snd (tm_insert v t) = negb (tm_contains t v).
Proof.
  rewrite tm_contains_has. unfold tm_insert.
  destruct (aget (hi32 v) t) as [[|b]|] eqn:E; cbn [snd sel_has]; try reflexivity.
  destruct (bm_insert (lo32 v) b) as [b' ch] eqn:Eb. cbn [snd].
  replace ch with (snd (bm_insert (lo32 v) b)) by (rewrite Eb; reflexivity).
  apply bm_insert_changed. apply lo32_lt.
Qed.

Lemma tm_insert_wf v t : tm_wf t -> tm_wf (fst (tm_insert v t)).
Proof.
  intro H. unfold tm_insert. destruct (aget (hi32 v) t) as [[|b]|] eqn:E; cbn [fst].
  - assumption.
  - destruct (bm_insert (lo32 v) b) as [b' ch] eqn:Eb. cbn [fst].
    apply tm_wf_aput; [apply hi32_lt| |assumption].
    replace b' with (fst (bm_insert (lo32 v) b)) by (rewrite Eb; reflexivity).
    apply bm_wf_insert; [apply lo32_lt|]. apply (tm_wf_aget _ _ _ H E).
  - apply tm_wf_aput; [apply hi32_lt| |assumption]. apply bm_wf_insert; [apply lo32_lt | apply bm_wf_empty].
Qed.

Lemma tm_remove_contains v t x : tm_wf t ->
  tm_contains (fst (tm_remove v t)) x = tm_contains t x && negb ((hi32 x =? hi32 v) && (lo32 x =? lo32 v)).
Proof.
  intro Hwf. rewrite !tm_contains_has. unfold tm_remove.
  pose proof (lo32_lt x) as Hx. assert (Ex : (lo32 x <? two32) = true) by (apply N.ltb_lt; lia).
  destruct (aget (hi32 v) t) as [[|b]|] eqn:E; cbn [fst].
  - rewrite aget_aput.
    destruct (N.eqb_spec (hi32 x) (hi32 v)) as [->|Hne]; [|cbn; rewrite andb_true_r; reflexivity].
    rewrite E. cbn [sel_has andb]. rewrite bm_mem_remove, bm_mem_full, Ex. reflexivity.
  - destruct (bm_remove (lo32 v) b) as [b' rm] eqn:Eb.
    assert (Hb' : b' = fst (bm_remove (lo32 v) b)) by (rewrite Eb; reflexivity).
    assert (Hwb' : bm_wf b').
    { rewrite Hb'. apply bm_wf_remove; [apply lo32_lt|]. apply (tm_wf_aget _ _ _ Hwf E). }
    destruct (bm_is_empty b') eqn:Em; cbn [fst].
    + rewrite aget_adel.
      destruct (N.eqb_spec (hi32 x) (hi32 v)) as [->|Hne]; [|cbn; rewrite andb_true_r; reflexivity].
      rewrite E. cbn [sel_has andb].
      pose proof (proj1 (bm_is_empty_spec _ Hwb') Em (lo32 x)) as Em'.
      rewrite Hb', bm_mem_remove in Em'. symmetry. exact Em'.
    + rewrite aget_aput.
      destruct (N.eqb_spec (hi32 x) (hi32 v)) as [->|Hne]; [|cbn; rewrite andb_true_r; reflexivity].
      rewrite E. cbn [sel_has andb]. rewrite Hb', bm_mem_remove. reflexivity.
  - destruct (N.eqb_spec (hi32 x) (hi32 v)) as [->|Hne]; [rewrite E; reflexivity | cbn; rewrite andb_true_r; reflexivity].
Qed.

Lemma tm_remove_ret v t : snd (tm_remove v t) = tm_contains t v.
Proof.
  rewrite tm_contains_has. unfold tm_remove.
  destruct (aget (hi32 v) t) as [[|b]|] eqn:E; cbn [snd sel_has]; try reflexivity.
  destruct (bm_remove (lo32 v) b) as [b' rm] eqn:Eb.
  assert (rm = snd (bm_remove (lo32 v) b)) by (rewrite Eb; reflexivity).
  destruct (bm_is_empty b'); cbn [snd]; subst rm; apply bm_remove_changed; apply lo32_lt.
Qed.

Lemma tm_remove_wf v t : tm_wf t -> tm_wf (fst (tm_remove v t)).
Proof.
  intro H. unfold tm_remove. destruct (aget (hi32 v) t) as [[|b]|] eqn:E; cbn [fst].
  - apply tm_wf_aput; [apply hi32_lt| |assumption]. apply bm_wf_remove; [apply lo32_lt | apply bm_wf_full].
  - destruct (bm_remove (lo32 v) b) as [b' rm] eqn:Eb.
    destruct (bm_is_empty b'); cbn [fst]; [apply tm_wf_adel; assumption|].
    apply tm_wf_aput; [apply hi32_lt| |assumption].
    replace b' with (fst (bm_remove (lo32 v) b)) by (rewrite Eb; reflexivity).
    apply bm_wf_remove; [apply lo32_lt|]. apply (tm_wf_aget _ _ _ H E).
  - assumption.
Qed.

Lemma extend_step_is_insert t v : extend_step t v = fst (tm_insert v t).
Proof.
  unfold extend_step, tm_insert. destruct (aget (hi32 v) t) as [[|b]|]; cbn [fst]; try reflexivity.
  destruct (bm_insert (lo32 v) b); reflexivity.
Qed.

Lemma tm_extend_contains vs : forall t x,
  tm_contains (tm_extend t vs) x = tm_contains t x || existsb (fun v => (hi32 x =? hi32 v) && (lo32 x =? lo32 v)) vs.
Proof.
  unfold tm_extend. induction vs as [|v r IH]; intros t x; cbn [fold_left existsb].
  - rewrite orb_false_r. reflexivity.
  - rewrite IH, extend_step_is_insert, tm_insert_contains.
    destruct (tm_contains t x), ((hi32 x =? hi32 v) && (lo32 x =? lo32 v)); reflexivity.
Qed.

Lemma tm_extend_wf vs : forall t, tm_wf t -> tm_wf (tm_extend t vs).
Proof.
  unfold tm_extend. induction vs as [|v r IH]; intros t H; cbn [fold_left]; [assumption|].
  apply IH. rewrite extend_step_is_insert. apply tm_insert_wf. assumption.
Qed.

(* (hi32, lo32) identifies a u64 *)
Lemma split64 v : v < two64 -> v = hi32 v * two32 + lo32 v.
Proof.
  intro H. unfold hi32, lo32, wrap32.
  assert (v / two32 < two32).
  { apply N.div_lt_upper_bound; [discriminate|]. change (two32 * two32) with two64. assumption. }
  rewrite (N.mod_small (v / two32)) by assumption.
  rewrite N.mul_comm. apply N.div_mod. discriminate.
Qed.

Lemma same_parts_eq x v : x < two64 -> v < two64 ->
  ((hi32 x =? hi32 v) && (lo32 x =? lo32 v)) = (x =? v).
Proof.
  intros Hx Hv. destruct (N.eqb_spec x v) as [->|Hne].
  - rewrite !N.eqb_refl. reflexivity.
  - destruct (N.eqb_spec (hi32 x) (hi32 v)) as [E1|]; [|reflexivity].
    destruct (N.eqb_spec (lo32 x) (lo32 v)) as [E2|]; [|reflexivity].
    exfalso. apply Hne. rewrite (split64 x Hx), (split64 v Hv), E1, E2. reflexivity.
Qed.

(* ------------------------------------------------------------------------------------------ *)
(* |=, -=, &= entry by entry *)

Definition sel_or (l : option sel) (rs : sel) : sel :=
  match l with
  | Some Full => Full
  | Some (Partial lb) => match rs with Full => Full | Partial rb => Partial (bm_union lb rb) end
  | None => rs
  end.

Lemma or_step_get acc k rs f :
  aget f (or_step acc (k, rs)) = if f =? k then Some (sel_or (aget k acc) rs) else aget f acc.
Proof.
  unfold or_step. destruct (aget k acc) as [[|lb]|] eqn:E; cbn [sel_or].
  - destruct (N.eqb_spec f k) as [->|]; [exact E | reflexivity].
  - destruct rs; apply aget_aput.
  - apply aget_aput.
Qed.

Lemma sel_has_or l rs o : sel_has (Some (sel_or l rs)) o = sel_has l o || sel_has (Some rs) o.
Proof.
  destruct l as [[|lb]|], rs as [|rb]; cbn [sel_or sel_has]; rewrite ?bm_mem_union, ?orb_true_r; reflexivity.
Qed.

Lemma sel_or_wf l rs : match l with Some s => sel_wf s | None => True end -> sel_wf rs -> sel_wf (sel_or l rs).
Proof.
  destruct l as [[|lb]|], rs as [|rb]; cbn [sel_or sel_wf]; intros; auto. apply bm_wf_union; assumption.
Qed.

Lemma or_step_wf acc k rs : tm_wf acc -> k < two32 -> sel_wf rs -> tm_wf (or_step acc (k, rs)).
Proof.
  intros Ha Hk Hr. unfold or_step. destruct (aget k acc) as [[|lb]|] eqn:E.
  - assumption.
  - destruct rs as [|rb].
    + apply tm_wf_aput; assumption.
    + apply tm_wf_aput; try assumption. cbn [sel_wf].
      apply bm_wf_union; [apply (tm_wf_aget _ _ _ Ha E) | assumption].
  - apply tm_wf_aput; assumption.
Qed.

Lemma fold_or_get b : forall a f, lsorted (keys b) ->
  aget f (fold_left or_step b a) = match aget f b with None => aget f a | Some rs => Some (sel_or (aget f a) rs) end.
Proof.
  induction b as [|[k rs] r IH]; intros a f Hs; cbn [fold_left aget]; [reflexivity|].
  unfold keys in Hs. cbn [map fst] in Hs. apply lsorted_cons_inv in Hs as [Hr Hk].
  rewrite IH by exact Hr. rewrite !or_step_get.
  destruct (N.eqb_spec f k) as [->|Hne]; [|reflexivity].
  rewrite (aget_none_lt k r Hk). reflexivity.
Qed.

Lemma fold_or_wf b : forall a, tm_wf a -> Forall entry_wf b -> tm_wf (fold_left or_step b a).
Proof.
  induction b as [|[k rs] r IH]; intros a Ha Hb; cbn [fold_left]; [assumption|].
  inversion Hb as [|? ? [H1 H2] Hr]; subst. apply IH; [|assumption]. apply or_step_wf; assumption.
Qed.

Lemma tm_or_contains a b x : tm_wf b -> tm_contains (tm_or a b) x = tm_contains a x || tm_contains b x.
Proof.
  intros [Hs _]. rewrite !tm_contains_has. unfold tm_or. rewrite fold_or_get by exact Hs.
  destruct (aget (hi32 x) b) as [rs|]; [apply sel_has_or | cbn; rewrite orb_false_r; reflexivity].
Qed.

Lemma tm_or_wf a b : tm_wf a -> tm_wf b -> tm_wf (tm_or a b).
Proof. intros Ha [_ Hb]. apply fold_or_wf; assumption. Qed.

(* ---- subtraction ---- *)
Definition sel_sub (ls rs : sel) : option sel :=
  match rs with
  | Full => None
  | Partial rb =>
    let lb := match ls with Full => bm_full | Partial lb => lb end in
    let b' := bm_diff lb rb in if bm_is_empty b' then None else Some (Partial b')
  end.

Lemma sub_step_get acc k rs f :
  aget f (sub_step acc (k, rs)) =
  if f =? k then match aget k acc with None => None | Some ls => sel_sub ls rs end else aget f acc.
Proof.
  unfold sub_step. destruct (aget k acc) as [[|lb]|] eqn:E.
  - destruct rs as [|rb]; cbn [sel_sub]; [apply aget_adel|]. cbv zeta.
    destruct (bm_is_empty (bm_diff bm_full rb)); [apply aget_adel | apply aget_aput].
  - destruct rs as [|rb]; cbn [sel_sub]; [apply aget_adel|]. cbv zeta.
    destruct (bm_is_empty (bm_diff lb rb)); [apply aget_adel | apply aget_aput].
  - destruct (N.eqb_spec f k) as [->|]; [exact E | reflexivity].
Qed.

Lemma sel_has_sub ls rs o : sel_wf ls -> sel_wf rs -> o < two32 ->
  sel_has (sel_sub ls rs) o = sel_has (Some ls) o && negb (sel_has (Some rs) o).
Proof.
  intros Hl Hr Ho. assert (Eo : (o <? two32) = true) by (apply N.ltb_lt; lia).
  destruct rs as [|rb].
  - cbn [sel_sub sel_has]. rewrite andb_false_r. reflexivity.
  - cbn [sel_sub]. cbv zeta. change (sel_has (Some (Partial rb)) o) with (bm_mem rb o).
    set (lb := match ls with Full => bm_full | Partial lb => lb end).
    assert (Hlb : bm_wf lb) by (destruct ls; [apply bm_wf_full | exact Hl]).
    assert (Hsame : sel_has (Some ls) o = bm_mem lb o).
    { destruct ls; cbn [sel_has]; [unfold lb; rewrite bm_mem_full, Eo; reflexivity | reflexivity]. }
    rewrite Hsame. destruct (bm_is_empty (bm_diff lb rb)) eqn:Em; cbn [sel_has].
    + assert (Hw : bm_wf (bm_diff lb rb)) by (apply bm_wf_diff; assumption).
      pose proof (proj1 (bm_is_empty_spec _ Hw) Em o) as Hm. rewrite bm_mem_diff in Hm. symmetry; exact Hm.
    + apply bm_mem_diff.
Qed.

Lemma sel_sub_wf ls rs s : sel_wf ls -> sel_wf rs -> sel_sub ls rs = Some s -> sel_wf s.
Proof.
  intros Hl Hr. destruct rs as [|rb]; [discriminate|]. cbn [sel_sub]. cbv zeta.
  set (lb := match ls with Full => bm_full | Partial lb => lb end).
  assert (Hlb : bm_wf lb) by (destruct ls; [apply bm_wf_full | exact Hl]).
  destruct (bm_is_empty (bm_diff lb rb)); [discriminate|].
  intros [= <-]. change (bm_wf (bm_diff lb rb)). apply bm_wf_diff; assumption.
Qed.

Lemma sub_step_wf acc k rs : tm_wf acc -> k < two32 -> sel_wf rs -> tm_wf (sub_step acc (k, rs)).
Proof.
  intros Ha Hk Hr. unfold sub_step. destruct (aget k acc) as [[|lb]|] eqn:E.
  - destruct rs as [|rb]; [apply tm_wf_adel; assumption|]. cbv zeta.
    destruct (bm_is_empty (bm_diff bm_full rb)); [apply tm_wf_adel; assumption|].
    apply tm_wf_aput; try assumption. change (bm_wf (bm_diff bm_full rb)). apply bm_wf_diff; [apply bm_wf_full | assumption].
  - destruct rs as [|rb]; [apply tm_wf_adel; assumption|]. cbv zeta.
    destruct (bm_is_empty (bm_diff lb rb)); [apply tm_wf_adel; assumption|].
    apply tm_wf_aput; try assumption. change (bm_wf (bm_diff lb rb)). apply bm_wf_diff; [apply (tm_wf_aget _ _ _ Ha E) | assumption].
  - assumption.
Qed.

Lemma fold_sub_get b : forall a f, lsorted (keys b) ->
  aget f (fold_left sub_step b a) =
  match aget f b with
  | None => aget f a
  | Some rs => match aget f a with None => None | Some ls => sel_sub ls rs end
  end.
Proof.
  induction b as [|[k rs] r IH]; intros a f Hs; cbn [fold_left aget]; [reflexivity|].
  unfold keys in Hs. cbn [map fst] in Hs. apply lsorted_cons_inv in Hs as [Hr Hk].
  rewrite IH by exact Hr. rewrite !sub_step_get.
  destruct (N.eqb_spec f k) as [->|Hne]; [|reflexivity].
  rewrite (aget_none_lt k r Hk). reflexivity.
Qed.

Lemma fold_sub_wf b : forall a, tm_wf a -> Forall entry_wf b -> tm_wf (fold_left sub_step b a).
Proof.
  induction b as [|[k rs] r IH]; intros a Ha Hb; cbn [fold_left]; [assumption|].
  inversion Hb as [|? ? [H1 H2] Hr]; subst. apply IH; [|assumption]. apply sub_step_wf; assumption.
Qed.

Lemma tm_sub_contains a b x : tm_wf a -> tm_wf b ->
  tm_contains (tm_sub a b) x = tm_contains a x && negb (tm_contains b x).
Proof.
  intros Ha Hb. rewrite !tm_contains_has. unfold tm_sub. rewrite fold_sub_get by (apply Hb).
  destruct (aget (hi32 x) b) as [rs|] eqn:Eb; [|cbn; rewrite andb_true_r; reflexivity].
  destruct (aget (hi32 x) a) as [ls|] eqn:Ea; [|reflexivity].
  apply sel_has_sub; [apply (tm_wf_aget _ _ _ Ha Ea) | apply (tm_wf_aget _ _ _ Hb Eb) | apply lo32_lt].
Qed.

Lemma tm_sub_wf a b : tm_wf a -> tm_wf b -> tm_wf (tm_sub a b).
Proof. intros Ha [_ Hb]. apply fold_sub_wf; assumption. Qed.

(* ---- intersection ---- *)
Definition sel_and (ls rs : sel) : sel :=
  match rs with
  | Full => ls
  | Partial rb => match ls with Partial lb => Partial (bm_inter lb rb) | Full => Partial rb end
  end.
Definition and_val (b : treemap) (f : N) (ls : sel) : sel :=
  match aget f b with None => ls | Some rs => sel_and ls rs end.

Lemma and_entry_eq b e : and_entry b e = (fst e, and_val b (fst e) (snd e)).
Proof.
  destruct e as [f ls]. unfold and_entry, and_val. cbn [fst snd].
  destruct ls as [|lb], (aget f b) as [[|rb]|]; reflexivity.
Qed.

Lemma sel_has_and ls rs o : sel_has (Some (sel_and ls rs)) o = sel_has (Some ls) o && sel_has (Some rs) o.
Proof.
  destruct ls as [|lb], rs as [|rb]; cbn [sel_and sel_has]; rewrite ?bm_mem_inter, ?andb_true_r; reflexivity.
Qed.

Lemma sel_and_wf ls rs : sel_wf ls -> sel_wf rs -> sel_wf (sel_and ls rs).
Proof. destruct ls, rs; cbn [sel_and sel_wf]; intros; auto. apply bm_wf_inter; assumption. Qed.

Lemma sel_nonempty_spec s : sel_wf s -> sel_nonempty s = false -> forall o, sel_has (Some s) o = false.
Proof.
  destruct s as [|b]; cbn [sel_nonempty sel_has sel_wf]; [discriminate|].
  intros Hw H o. apply negb_false_iff in H. apply (proj1 (bm_is_empty_spec _ Hw) H).
Qed.

Lemma tm_and_get a b f : lsorted (keys a) ->
  aget f (tm_and a b) =
  match aget f a with
  | None => None
  | Some ls => match aget f b with
               | None => None
               | Some rs => if sel_nonempty (sel_and ls rs) then Some (sel_and ls rs) else None
               end
  end.
Proof.
  intro Hs. unfold tm_and.
  set (P1 := fun e : N * sel => match aget (fst e) b with Some _ => true | None => false end).
  assert (Hm : map (and_entry b) (filter P1 a) = map (fun e => (fst e, and_val b (fst e) (snd e))) (filter P1 a)).
  { apply map_ext. intro e. apply and_entry_eq. }
  rewrite Hm. rewrite aget_filter.
  2:{ rewrite keys_map. apply keys_filter_sorted. exact Hs. }
  rewrite aget_map, aget_filter by exact Hs.
  destruct (aget f a) as [ls|]; [|reflexivity].
  unfold P1. cbn [fst snd]. unfold and_val.
  destruct (aget f b) as [rs|]; reflexivity.
Qed.

Lemma tm_and_contains a b x : tm_wf a -> tm_wf b ->
  tm_contains (tm_and a b) x = tm_contains a x && tm_contains b x.
Proof.
  intros Ha Hb. rewrite !tm_contains_has. rewrite tm_and_get by (apply Ha).
  destruct (aget (hi32 x) a) as [ls|] eqn:Ea; [|reflexivity].
  destruct (aget (hi32 x) b) as [rs|] eqn:Eb; [|cbn; rewrite andb_false_r; reflexivity].
  destruct (sel_nonempty (sel_and ls rs)) eqn:En.
  - apply sel_has_and.
  - rewrite <- sel_has_and. symmetry. apply sel_nonempty_spec; [|exact En].
    apply sel_and_wf; [apply (tm_wf_aget _ _ _ Ha Ea) | apply (tm_wf_aget _ _ _ Hb Eb)].
Qed.

Lemma tm_and_wf a b : tm_wf a -> tm_wf b -> tm_wf (tm_and a b).
Proof.
  intros Ha Hb. unfold tm_and. apply tm_wf_filter.
  destruct (tm_wf_filter (fun e => match aget (fst e) b with Some _ => true | None => false end) a Ha) as [H1 H2].
  split.
  - rewrite (map_ext _ _ (and_entry_eq b)). rewrite keys_map. exact H1.
  - apply Forall_forall. intros e He. apply in_map_iff in He as [e0 [<- He0]].
    rewrite Forall_forall in H2. destruct (H2 _ He0) as [Hk Hw].
    rewrite and_entry_eq. split; [exact Hk|]. cbn [snd]. unfold and_val.
    destruct (aget (fst e0) b) as [rs|] eqn:Eb; [|exact Hw].
    apply sel_and_wf; [exact Hw | apply (tm_wf_aget _ _ _ Hb Eb)].
Qed.

(* ---- mask(), retain_fragments, insert_bitmap, insert_fragment ---- *)
Lemma tm_insert_fragment_contains f t x :
  tm_contains (tm_insert_fragment f t) x = (hi32 x =? f) || tm_contains t x.
Proof.
  rewrite !tm_contains_has. unfold tm_insert_fragment. rewrite aget_aput.
  destruct (hi32 x =? f); reflexivity.
Qed.

Lemma tm_insert_bitmap_contains f b t x :
  tm_contains (tm_insert_bitmap f b t) x = if hi32 x =? f then bm_mem b (lo32 x) else tm_contains t x.
Proof.
  rewrite !tm_contains_has. unfold tm_insert_bitmap. rewrite aget_aput.
  destruct (hi32 x =? f); reflexivity.
Qed.

Lemma tm_retain_contains fs t x : tm_wf t ->
  tm_contains (tm_retain_fragments fs t) x = tm_contains t x && lmem (hi32 x) fs.
Proof.
  intros [Hs _]. rewrite !tm_contains_has. unfold tm_retain_fragments. rewrite aget_filter by exact Hs.
  destruct (aget (hi32 x) t) as [s|]; [|reflexivity]. cbn [fst].
  destruct (lmem (hi32 x) fs); [rewrite andb_true_r | rewrite andb_false_r]; reflexivity.
Qed.

(* ------------------------------------------------------------------------------------------ *)
(* RowIdMask *)

Definition owf (o : option treemap) : Prop := match o with Some t => tm_wf t | None => True end.
Definition mask_wf (m : mask) : Prop := owf (allow m) /\ owf (block m).

Ltac wf := repeat first [assumption | apply tm_or_wf | apply tm_and_wf | apply tm_sub_wf | apply tm_wf_nil | exact I].
Ltac sem := repeat first [rewrite tm_or_contains by wf | rewrite tm_and_contains by wf | rewrite tm_sub_contains by wf].
Ltac btaut :=
  repeat match goal with |- context [tm_contains ?t ?x] => destruct (tm_contains t x) end; reflexivity.
Ltac mask_cases m H :=
  destruct m as [[?a|] [?b|]]; cbn [mask_wf owf allow block] in H; destruct H as [? ?].

Lemma tm_contains_nil x : tm_contains tm_new x = false.
Proof. reflexivity. Qed.

Lemma normalize_selected m x : mask_wf m -> selected (normalize m) x = selected m x.
Proof.
  intro H. mask_cases m H; unfold normalize, selected; cbn [allow block]; sem; btaut.
Qed.

Lemma normalize_wf m : mask_wf m -> mask_wf (normalize m).
Proof.
  intro H. mask_cases m H; unfold normalize; cbn [allow block]; split; cbn [allow block owf]; wf.
Qed.

Lemma mnot_selected m x : mask_wf m -> selected (mnot m) x = negb (selected m x).
Proof.
  intro H. mask_cases m H; unfold mnot, normalize, selected, allow_nothing; cbn [allow block];
    rewrite ?tm_contains_nil; sem; btaut.
Qed.

Lemma mnot_wf m : mask_wf m -> mask_wf (mnot m).
Proof.
  intro H. mask_cases m H; unfold mnot, normalize, allow_nothing; cbn [allow block]; split; cbn [allow block owf]; wf.
Qed.

Lemma mand_selected l r x : mask_wf l -> mask_wf r -> selected (mand l r) x = selected l x && selected r x.
Proof.
  intros Hl Hr. mask_cases l Hl; mask_cases r Hr; unfold mand, selected; cbn [allow block]; sem; btaut.
Qed.

Lemma mand_wf l r : mask_wf l -> mask_wf r -> mask_wf (mand l r).
Proof.
  intros Hl Hr. mask_cases l Hl; mask_cases r Hr; unfold mand; cbn [allow block]; split; cbn [allow block owf]; wf.
Qed.

Lemma mor_spec l r : mask_wf l -> mask_wf r ->
  exists m, mor l r = Ok m /\ mask_wf m /\ forall x, selected m x = selected l x || selected r x.
Proof.
  intros Hl Hr. mask_cases l Hl; mask_cases r Hr; unfold mor, normalize; cbn [allow block];
    eexists; (split; [reflexivity|]); (split; [split; cbn [allow block owf]; wf|]);
    intro x; unfold selected; cbn [allow block]; sem; btaut.
Qed.

Lemma also_block_selected m b x : mask_wf m -> tm_wf b ->
  selected (also_block m b) x = selected m x && negb (tm_contains b x).
Proof.
  intros H Hb. unfold also_block. destruct b as [|e b'] eqn:Eb; cbn [tm_is_empty].
  - change (tm_contains [] x) with false. rewrite andb_true_r. reflexivity.
  - rewrite <- Eb in *. clear Eb. mask_cases m H; unfold selected; cbn [allow block]; sem; btaut.
Qed.

Lemma also_block_wf m b : mask_wf m -> tm_wf b -> mask_wf (also_block m b).
Proof.
  intros H Hb. unfold also_block. destruct (tm_is_empty b); [assumption|].
  mask_cases m H; split; cbn [allow block owf]; wf.
Qed.

(* allowing more ids widens the allow list only: blocked ids stay blocked, and "all rows allowed" stays so *)
Lemma also_allow_selected m a x : mask_wf m -> tm_wf a ->
  selected (also_allow m a) x =
  match allow m with
  | None => selected m x
  | Some ex => (tm_contains ex x || tm_contains a x)
               && negb (match block m with Some b => tm_contains b x | None => false end)
  end.
Proof.
  intros H Ha. mask_cases m H; unfold also_allow, selected; cbn [allow block]; sem; btaut.
Qed.

Lemma also_allow_wf m a : mask_wf m -> tm_wf a -> mask_wf (also_allow m a).
Proof. intros H Ha. mask_cases m H; unfold also_allow; split; cbn [allow block owf]; wf. Qed.

Lemma tm_mask_contains t m x : tm_wf t -> mask_wf m ->
  tm_contains (tm_mask t m) x = tm_contains t x && selected m x.
Proof.
  intros Ht H. mask_cases m H; unfold tm_mask, selected; cbn [allow block]; sem; btaut.
Qed.

Lemma tm_mask_wf t m : tm_wf t -> mask_wf m -> tm_wf (tm_mask t m).
Proof. intros Ht H. mask_cases m H; unfold tm_mask; cbn [allow block]; wf. Qed.

Lemma sel_idx_spec m ids : forall i,
  sel_idx m i ids = map (fun p => i + N.of_nat (fst p))
                        (filter (fun p => selected m (snd p)) (combine (seq 0 (length ids)) ids)).
Proof.
  induction ids as [|x r IH]; intro i; [reflexivity|].
  cbn [sel_idx length seq combine filter snd].
  assert (Hshift : map (fun p => i + N.of_nat (fst p)) (filter (fun p => selected m (snd p)) (combine (seq 1 (length r)) r))
                   = map (fun p => i + 1 + N.of_nat (fst p)) (filter (fun p => selected m (snd p)) (combine (seq 0 (length r)) r))).
  { rewrite <- seq_shift. generalize (seq 0 (length r)) as s. clear IH.
    induction r as [|y r' IHr]; intros [|n s]; cbn [map combine filter snd]; try reflexivity.
    destruct (selected m y); cbn [map fst]; rewrite IHr; [f_equal; lia | reflexivity]. }
  destruct (selected m x); cbn [map fst]; rewrite IH, Hshift; [f_equal; lia | reflexivity].
Qed.

(* ------------------------------------------------------------------------------------------ *)
(* insert_range *)

Definition ir_step (t : treemap) (sh sl en : N) : treemap * N :=
  match aget sh t with
  | None => let '(b, c) := bm_insert_range sl en bm_empty in (aput sh (Partial b) t, c)
  | Some Full => (t, 0)
  | Some (Partial b) => let '(b', c) := bm_insert_range sl en b in (aput sh (Partial b') t, c)
  end.

Lemma ir_step_has t sh sl en f o :
  sel_has (aget f (fst (ir_step t sh sl en))) o =
  sel_has (aget f t) o || ((f =? sh) && ((o <? two32) && ((sl <=? o) && (o <=? en)))).
Proof.
  unfold ir_step. destruct (aget sh t) as [[|b]|] eqn:E.
  - cbn [fst]. destruct (N.eqb_spec f sh) as [->|]; [rewrite E; reflexivity | rewrite orb_false_r; reflexivity].
  - destruct (bm_insert_range sl en b) as [b' c] eqn:Eb. cbn [fst]. rewrite aget_aput.
    destruct (N.eqb_spec f sh) as [->|]; [|rewrite orb_false_r; reflexivity].
    rewrite E. cbn [sel_has andb]. replace b' with (fst (bm_insert_range sl en b)) by (rewrite Eb; reflexivity).
    apply bm_mem_insert_range.
  - destruct (bm_insert_range sl en bm_empty) as [b' c] eqn:Eb. cbn [fst]. rewrite aget_aput.
    destruct (N.eqb_spec f sh) as [->|]; [|rewrite orb_false_r; reflexivity].
    rewrite E. cbn [sel_has andb]. replace b' with (fst (bm_insert_range sl en bm_empty)) by (rewrite Eb; reflexivity).
    rewrite bm_mem_insert_range, bm_mem_empty. reflexivity.
Qed.

Lemma ir_step_wf t sh sl en : tm_wf t -> sh < two32 -> en < two32 -> tm_wf (fst (ir_step t sh sl en)).
Proof.
  intros Ht Hs He. unfold ir_step. destruct (aget sh t) as [[|b]|] eqn:E.
  - exact Ht.
  - destruct (bm_insert_range sl en b) as [b' c] eqn:Eb. cbn [fst]. apply tm_wf_aput; try assumption.
    change (bm_wf b'). replace b' with (fst (bm_insert_range sl en b)) by (rewrite Eb; reflexivity).
    apply bm_wf_insert_range; [assumption | apply (tm_wf_aget _ _ _ Ht E)].
  - destruct (bm_insert_range sl en bm_empty) as [b' c] eqn:Eb. cbn [fst]. apply tm_wf_aput; try assumption.
    change (bm_wf b'). replace b' with (fst (bm_insert_range sl en bm_empty)) by (rewrite Eb; reflexivity).
    apply bm_wf_insert_range; [assumption | apply bm_wf_empty].
Qed.

Lemma ir_loop_unfold n t sh sl eh el count :
  ir_loop n t sh sl eh el count =
  let en := if sh =? eh then el else u32max in
  let t' := fst (ir_step t sh sl en) in
  let c := snd (ir_step t sh sl en) in
  if two64 <=? count + c then Panic else
  if sh =? eh then Ok (t', count + c) else
  if two32 <=? sh + 1 then Panic else
  match n with O => Err | S n' => ir_loop n' t' (sh + 1) 0 eh el (count + c) end.
Proof.
  destruct n; cbn [ir_loop]; unfold ir_step;
    destruct (aget sh t) as [[|b]|];
    try destruct (bm_insert_range sl (if sh =? eh then el else u32max) b);
    try destruct (bm_insert_range sl (if sh =? eh then el else u32max) bm_empty); reflexivity.
Qed.

(* (sh,sl) <= (f,o) <= (eh,el) lexicographically *)
Definition lex_in (sh sl f o eh el : N) : bool :=
  ((sh <? f) || ((sh =? f) && (sl <=? o))) && ((f <? eh) || ((f =? eh) && (o <=? el))).

Lemma ir_loop_spec n : forall t sh sl eh el count,
  N.to_nat (eh - sh) = n -> sh <= eh -> eh < two32 -> el < two32 ->
  ir_loop n t sh sl eh el count <> Err /\
  forall t' c, ir_loop n t sh sl eh el count = Ok (t', c) ->
    (tm_wf t -> tm_wf t') /\
    forall f o, o < two32 -> sel_has (aget f t') o = sel_has (aget f t) o || lex_in sh sl f o eh el.
Proof.
  induction n as [|n IH]; intros t sh sl eh el count Hn Hle Heh Hel; rewrite ir_loop_unfold; cbv zeta.
  - assert (sh = eh) by lia. subst eh. rewrite N.eqb_refl.
    destruct (two64 <=? count + snd (ir_step t sh sl el)); [split; [discriminate | intros ? ? [=]]|].
    split; [discriminate|]. intros t' c [= <- <-]. split.
    + intro Ht. apply ir_step_wf; assumption.
    + intros f o Ho. rewrite ir_step_has. unfold lex_in.
      destruct (sel_has (aget f t) o); [reflexivity|]. cbn [orb]. lia.
  - assert (Hlt : sh < eh) by lia.
    destruct (N.eqb_spec sh eh) as [->|Hne]; [lia|].
    destruct (two64 <=? count + snd (ir_step t sh sl u32max)); [split; [discriminate | intros ? ? [=]]|].
    destruct (two32 <=? sh + 1) eqn:Eo; [lia|].
    specialize (IH (fst (ir_step t sh sl u32max)) (sh + 1) 0 eh el (count + snd (ir_step t sh sl u32max))
                   ltac:(lia) ltac:(lia) Heh Hel) as [IHe IHs].
    split; [exact IHe|]. intros t' c Hok. destruct (IHs t' c Hok) as [Hwf Hhas]. split.
    + intro Ht. apply Hwf. apply ir_step_wf; [assumption | lia | reflexivity].
    + intros f o Ho. rewrite (Hhas f o Ho), ir_step_has. unfold lex_in, u32max.
      destruct (sel_has (aget f t) o); [reflexivity|]. cbn [orb]. unfold two32 in *. lia.
Qed.

(* numeric order on u64 = lexicographic order on (hi32, lo32) *)
Lemma lex_le a x : a < two64 -> x < two64 ->
  ((hi32 a <? hi32 x) || ((hi32 a =? hi32 x) && (lo32 a <=? lo32 x))) = (a <=? x).
Proof.
  intros Ha Hx. pose proof (split64 a Ha). pose proof (split64 x Hx).
  pose proof (lo32_lt a). pose proof (lo32_lt x). pose proof (hi32_lt a). pose proof (hi32_lt x).
  revert H H0 H1 H2 H3 H4. generalize (hi32 a) (lo32 a) (hi32 x) (lo32 x). intros. unfold two32 in *. lia.
Qed.

Lemma pair_ltb_lt a b : a < two64 -> b < two64 ->
  pair_ltb (hi32 a, lo32 a) (hi32 b, lo32 b) = (a <? b).
Proof.
  intros Ha Hb. unfold pair_ltb. cbn [fst snd].
  pose proof (split64 a Ha). pose proof (split64 b Hb).
  pose proof (lo32_lt a). pose proof (lo32_lt b). pose proof (hi32_lt a). pose proof (hi32_lt b).
  revert H H0 H1 H2 H3 H4. generalize (hi32 a) (lo32 a) (hi32 b) (lo32 b). intros. unfold two32 in *. lia.
Qed.

Definition in_bounds (s e : bound) (x : N) : bool :=
  match s with Incl a => a <=? x | Excl a => a <? x | Unb => true end
  && match e with Incl b => x <=? b | Excl b => x <? b | Unb => true end.
Definition bound_ok (b : bound) : Prop := match b with Incl a => a < two64 | Excl a => a < two64 | Unb => True end.

(* first / last element of the range as insert_range computes them *)
Definition ir_first (s : bound) : N :=
  match s with Incl st => st | Excl st => if two64 <=? st + 1 then u64max else st + 1 | Unb => 0 end.
Definition ir_last (e : bound) : option N :=
  match e with Incl en => Some en | Excl en => if en =? 0 then None else Some (en - 1) | Unb => Some u64max end.
Definition ir_excl_max (s : bound) : bool := match s with Excl st => st =? u64max | _ => false end.

Lemma tm_insert_range_unfold s e t :
  tm_insert_range s e t =
  match ir_last e with
  | None => Ok (t, 0)
  | Some hi =>
    let lo := ir_first s in
    if pair_ltb (hi32 hi, lo32 hi) (hi32 lo, lo32 lo) || ir_excl_max s then Ok (t, 0)
    else ir_loop (N.to_nat (hi32 hi - hi32 lo)) t (hi32 lo) (lo32 lo) (hi32 hi) (lo32 hi) 0
  end.
Proof.
  unfold tm_insert_range, ir_last, ir_first, ir_excl_max.
  destruct e as [en|en|]; [| destruct (en =? 0); [reflexivity|] |]; destruct s as [st|st|]; reflexivity.
Qed.

Lemma tm_insert_range_spec s e t : bound_ok s -> bound_ok e ->
  tm_insert_range s e t <> Err /\
  forall t' c, tm_insert_range s e t = Ok (t', c) ->
    (tm_wf t -> tm_wf t') /\
    forall x, x < two64 -> tm_contains t' x = tm_contains t x || in_bounds s e x.
Proof.
  intros Hs He. rewrite tm_insert_range_unfold.
  assert (Hfirst : ir_first s < two64).
  { destruct s as [st|st|]; cbn [ir_first bound_ok] in *; [assumption| |reflexivity].
    destruct (two64 <=? st + 1) eqn:E; [reflexivity | lia]. }
  destruct (ir_last e) as [hi|] eqn:El.
  2:{ split; [discriminate|]. intros t' c [= <- <-]. split; [auto|]. intros x Hx.
      destruct e as [en|en|]; cbn [ir_last] in El; try discriminate.
      destruct (N.eqb_spec en 0) as [->|]; [|discriminate].
      unfold in_bounds. replace (x <? 0) with false by lia. rewrite andb_false_r, orb_false_r. reflexivity. }
  assert (Hlast : hi < two64).
  { destruct e as [en|en|]; cbn [ir_last bound_ok] in *.
    - injection El as <-. assumption.
    - destruct (en =? 0); [discriminate|]. injection El as <-. lia.
    - injection El as <-. reflexivity. }
  cbv zeta. rewrite pair_ltb_lt by assumption.
  (* in_bounds is "first <= x <= last" unless the excluded start is u64::MAX *)
  assert (Hib : forall x, x < two64 ->
            in_bounds s e x = negb (ir_excl_max s) && ((ir_first s <=? x) && (x <=? hi))).
  { intros x Hx. unfold in_bounds, ir_excl_max, ir_first.
    assert (Hend : match e with Incl b => x <=? b | Excl b => x <? b | Unb => true end = (x <=? hi)).
    { destruct e as [en|en|]; cbn [ir_last] in El.
      - injection El as <-. reflexivity.
      - destruct (N.eqb_spec en 0); [discriminate|]. injection El as <-. lia.
      - injection El as <-. unfold two64, u64max in *. lia. }
    rewrite Hend. destruct s as [st|st|]; cbn [bound_ok] in Hs.
    + reflexivity.
    + destruct (two64 <=? st + 1) eqn:E; unfold u64max, two64 in *; lia.
    + replace (0 <=? x) with true by lia. reflexivity. }
  destruct ((hi <? ir_first s) || ir_excl_max s) eqn:Eempty.
  - split; [discriminate|]. intros t' c [= <- <-]. split; [auto|]. intros x Hx. rewrite (Hib x Hx).
    destruct (tm_contains t x); [reflexivity|]. cbn [orb].
    destruct (ir_excl_max s); [reflexivity|]. cbn [negb andb]. rewrite orb_false_r in Eempty. lia.
  - apply orb_false_iff in Eempty as [E1 E2].
    pose proof (ir_loop_spec (N.to_nat (hi32 hi - hi32 (ir_first s))) t (hi32 (ir_first s)) (lo32 (ir_first s))
                  (hi32 hi) (lo32 hi) 0 eq_refl) as Hloop.
    assert (Hhl : hi32 (ir_first s) <= hi32 hi).
    { pose proof (lex_le (ir_first s) hi Hfirst Hlast) as L. replace (ir_first s <=? hi) with true in L by lia.
      apply orb_true_iff in L. lia. }
    specialize (Hloop Hhl (hi32_lt hi) (lo32_lt hi)) as [Hne Hok].
    split; [exact Hne|]. intros t' c Hr. destruct (Hok t' c Hr) as [Hwf Hhas]. split; [exact Hwf|].
    intros x Hx. rewrite !tm_contains_has, (Hhas _ _ (lo32_lt x)), (Hib x Hx), E2. cbn [negb andb].
    f_equal. unfold lex_in.
    rewrite (lex_le (ir_first s) x Hfirst Hx).
    pose proof (lex_le x hi Hx Hlast) as L2.
    assert (Hsym : ((hi32 x <? hi32 hi) || ((hi32 x =? hi32 hi) && (lo32 x <=? lo32 hi))) = (x <=? hi)) by exact L2.
    rewrite Hsym. reflexivity.
Qed.

(* ------------------------------------------------------------------------------------------ *)
(* len / row_ids: the listed ids are exactly the members, in increasing order, and len counts them *)

Lemma lsorted_app l1 l2 : lsorted l1 -> lsorted l2 -> (forall x y, In x l1 -> In y l2 -> x < y) -> lsorted (l1 ++ l2).
Proof.
  induction l1 as [|a r IH]; intros H1 H2 H; cbn [app]; [assumption|].
  apply lsorted_cons_inv in H1 as [Hr Ha]. constructor.
  - apply IH; [assumption | assumption | intros x y Hx Hy; apply H; [right|]; assumption].
  - apply Forall_forall. intros y Hy. apply in_app_or in Hy as [Hy|Hy].
    + rewrite Forall_forall in Ha. apply Ha; assumption.
    + apply H; [left; reflexivity | assumption].
Qed.

Lemma lsorted_map_addr f l : lsorted l -> lsorted (map (addr f) l).
Proof.
  induction l as [|a r IH]; intro H; cbn [map]; [constructor|].
  apply lsorted_cons_inv in H as [Hr Ha]. constructor; [apply IH; assumption|].
  apply Forall_forall. intros y Hy. apply in_map_iff in Hy as [z [<- Hz]].
  rewrite Forall_forall in Ha. specialize (Ha _ Hz). unfold addr. lia.
Qed.

(* the elements of a bitmap, listed *)
Lemma bm_elems_spec b : bm_wf b ->
  lsorted (bm_elems b) /\ Forall (fun x => x < two32) (bm_elems b) /\ forall y, lmem y (bm_elems b) = bm_mem b y.
Proof.
  destruct b as [l|l]; cbn [bm_wf bm_elems bm_mem]; intros [Hs Hb].
  - split; [assumption|]. split; [assumption|]. intro y.
    destruct (y <? two32) eqn:E; [reflexivity|]. cbn [andb].
    apply lmem_false_notin. intro Hin. rewrite Forall_forall in Hb. specialize (Hb _ Hin). lia.
  - split; [apply lsorted_filter, lsorted_nrange|]. split.
    + apply Forall_filter. eapply Forall_impl; [|apply Forall_nrange]. intros a Ha. cbn in Ha. unfold u32max, two32 in *. lia.
    + intro y. rewrite lmem_ldiff, lmem_nrange. unfold u32max, two32.
      destruct (lmem y l); cbn [negb]; rewrite ?andb_false_r, ?andb_true_r; [reflexivity|]. lia.
Qed.

Lemma ldiff_nseq_length n : forall a l, lsorted l -> Forall (fun x => a <= x < a + N.of_nat n) l ->
  (length (ldiff (nseq a n) l) + length l = n)%nat.
Proof.
  induction n as [|n IH]; intros a l Hs Hb.
  - destruct l as [|x r]; [reflexivity|]. inversion Hb; subst. cbn in *. lia.
  - cbn [nseq]. unfold ldiff. cbn [filter]. fold (ldiff (nseq (a + 1) n) l).
    destruct (lmem a l) eqn:Ea; cbn [negb].
    + (* a is the head of l *)
      destruct l as [|x r]; [discriminate|].
      apply lsorted_cons_inv in Hs as [Hr Hx]. inversion Hb as [|? ? Hxb Hrb]; subst.
      assert (x = a).
      { rewrite lmem_cons in Ea. apply orb_true_iff in Ea as [E|E]; [apply N.eqb_eq in E; congruence|].
        apply lmem_In in E. rewrite Forall_forall in Hx. specialize (Hx _ E). lia. }
      subst x.
      assert (Hext : ldiff (nseq (a + 1) n) (a :: r) = ldiff (nseq (a + 1) n) r).
      { unfold ldiff. apply filter_ext_in. intros y Hy. rewrite lmem_cons.
        pose proof (Forall_nseq_ge (a + 1) n) as Hg. rewrite Forall_forall in Hg. specialize (Hg _ Hy).
        destruct (N.eqb_spec y a); [lia | reflexivity]. }
      rewrite Hext. cbn [length].
      assert (IH' : (length (ldiff (nseq (a + 1) n) r) + length r = n)%nat).
      { apply IH; [assumption|]. apply Forall_forall. intros z Hz. rewrite Forall_forall in Hx, Hrb.
        specialize (Hx _ Hz). specialize (Hrb _ Hz). rewrite Nat2N.inj_succ in Hrb. lia. }
      lia.
    + cbn [length].
      assert (IH' : (length (ldiff (nseq (a + 1) n) l) + length l = n)%nat).
      { apply IH; [assumption|]. apply Forall_forall. intros z Hz. rewrite Forall_forall in Hb.
        specialize (Hb _ Hz). rewrite Nat2N.inj_succ in Hb.
        assert (z <> a). { intro; subst. apply lmem_false_notin in Ea. auto. }
        lia. }
      lia.
Qed.

Lemma bm_len_elems b : bm_wf b -> bm_len b = llen (bm_elems b).
Proof.
  destruct b as [l|l]; cbn [bm_wf bm_len bm_elems]; intros [Hs Hb]; [reflexivity|].
  unfold llen, nrange. replace (u32max <? 0) with false by reflexivity.
  replace (N.to_nat (u32max - 0 + 1)) with (N.to_nat two32) by reflexivity.
  pose proof (ldiff_nseq_length (N.to_nat two32) 0 l Hs) as H.
  rewrite N2Nat.id in H. specialize (H ltac:(eapply Forall_impl; [|exact Hb]; intros a Ha; cbn in Ha; lia)).
  assert (E : N.of_nat (length (ldiff (nseq 0 (N.to_nat two32)) l)) + N.of_nat (length l) = two32).
  { rewrite <- Nat2N.inj_add, H. apply N2Nat.id. }
  lia.
Qed.

Definition entry_ids (e : N * sel) : list N :=
  match snd e with Full => [] | Partial b => map (addr (fst e)) (bm_elems b) end.

Lemma tm_row_ids_eq t : tm_row_ids t = if existsb (fun e => is_full (snd e)) t then None else Some (flat_map entry_ids t).
Proof. reflexivity. Qed.

Lemma tm_len_from_spec t : forall acc, tm_wf t ->
  tm_len_from acc t = if existsb (fun e => is_full (snd e)) t then None else Some (acc + llen (flat_map entry_ids t)).
Proof.
  induction t as [|[f s] r IH]; intros acc Hw; cbn [tm_len_from existsb flat_map snd].
  - unfold llen. cbn. rewrite N.add_0_r. reflexivity.
  - apply tm_wf_tail in Hw as [Hr [[_ Hs] _]]. destruct s as [|b]; cbn [is_full orb]; [reflexivity|].
    rewrite IH by assumption. destruct (existsb (fun e => is_full (snd e)) r); [reflexivity|].
    f_equal. unfold entry_ids at 2. cbn [snd fst]. unfold llen. rewrite app_length, map_length, Nat2N.inj_add.
    cbn [sel_wf snd] in Hs. rewrite (bm_len_elems b Hs). unfold llen. lia.
Qed.

Lemma In_aget {V} (t : list (N * V)) k v : lsorted (keys t) -> In (k, v) t -> aget k t = Some v.
Proof.
  unfold keys. induction t as [|[k0 v0] r IH]; cbn [map fst aget]; intros Hs Hin; [destruct Hin|].
  apply lsorted_cons_inv in Hs as [Hr Hk]. destruct Hin as [E|Hin].
  - inversion E; subst. rewrite N.eqb_refl. reflexivity.
  - destruct (N.eqb_spec k k0) as [->|]; [|auto].
    exfalso. rewrite Forall_forall in Hk. specialize (Hk k0 (in_map fst _ _ Hin)). cbn in Hk. lia.
Qed.

Lemma In_flat_entry_ids t x : In x (flat_map entry_ids t) <->
  exists f b o, In (f, Partial b) t /\ In o (bm_elems b) /\ x = addr f o.
Proof.
  rewrite in_flat_map. split.
  - intros [[f s] [He Hx]]. unfold entry_ids in Hx. cbn [fst snd] in Hx. destruct s as [|b]; [destruct Hx|].
    apply in_map_iff in Hx as [o [<- Ho]]. exists f, b, o. auto.
  - intros [f [b [o [He [Ho ->]]]]]. exists (f, Partial b). split; [assumption|].
    unfold entry_ids. cbn [fst snd]. apply in_map. assumption.
Qed.

Lemma addr_parts f o : f < two32 -> o < two32 -> hi32 (addr f o) = f /\ lo32 (addr f o) = o /\ addr f o < two64.
Proof.
  intros Hf Ho. unfold hi32, lo32, wrap32, addr.
  assert (E1 : (f * two32 + o) / two32 = f).
  { rewrite N.add_comm. rewrite N.div_add by discriminate. rewrite N.div_small by assumption. reflexivity. }
  assert (E2 : (f * two32 + o) mod two32 = o).
  { rewrite N.add_comm. rewrite N.mod_add by discriminate. apply N.mod_small. assumption. }
  rewrite E1, E2, (N.mod_small f) by assumption. split; [reflexivity|]. split; [reflexivity|].
  unfold two32, two64 in *. nia.
Qed.

Lemma tm_row_ids_spec t ids : tm_wf t -> tm_row_ids t = Some ids ->
  lsorted ids /\ tm_len t = Some (llen ids) /\
  forall x, x < two64 -> (In x ids <-> tm_contains t x = true).
Proof.
  intros Hw. rewrite tm_row_ids_eq. unfold tm_len. rewrite (tm_len_from_spec t 0 Hw).
  destruct (existsb (fun e => is_full (snd e)) t) eqn:Ef; [discriminate|]. intros [= <-].
  split; [|split; [rewrite N.add_0_l; reflexivity|]].
  - (* sorted *)
    clear Ef. induction t as [|[f s] r IH]; [constructor|].
    apply tm_wf_tail in Hw as Hw'. destruct Hw' as [Hr [[Hf Hs] _]]. cbn [flat_map].
    apply lsorted_app; [| apply IH; assumption |].
    + unfold entry_ids. cbn [fst snd]. destruct s as [|b]; [constructor|].
      apply lsorted_map_addr. apply (bm_elems_spec b Hs).
    + intros x y Hx Hy. unfold entry_ids in Hx. cbn [fst snd] in Hx, Hf, Hs. destruct s as [|b]; [destruct Hx|].
      apply in_map_iff in Hx as [o [<- Ho]].
      apply In_flat_entry_ids in Hy as [f' [b' [o' [He [Ho' ->]]]]].
      destruct Hw as [Hks Hfa]. unfold keys in Hks. cbn [map fst] in Hks.
      apply lsorted_cons_inv in Hks as [_ Hk]. rewrite Forall_forall in Hk.
      specialize (Hk f' (in_map fst _ _ He)). cbn in Hk.
      destruct (bm_elems_spec b Hs) as [_ [Hb _]]. rewrite Forall_forall in Hb. specialize (Hb _ Ho).
      unfold addr. unfold two32 in *. nia.
  - (* membership *)
    intros x Hx. rewrite In_flat_entry_ids, tm_contains_has. split.
    + intros [f [b [o [He [Ho ->]]]]].
      destruct Hw as [Hks Hfa]. rewrite Forall_forall in Hfa. destruct (Hfa _ He) as [Hf Hb]. cbn [fst snd sel_wf] in Hf, Hb.
      destruct (bm_elems_spec b Hb) as [_ [Hlt Hm]]. rewrite Forall_forall in Hlt. specialize (Hlt _ Ho).
      destruct (addr_parts f o Hf Hlt) as [E1 [E2 _]]. rewrite E1, E2.
      rewrite (In_aget t f (Partial b) Hks He). cbn [sel_has]. rewrite <- Hm. apply lmem_In. assumption.
    + intro H. destruct (aget (hi32 x) t) as [[|b]|] eqn:E; cbn [sel_has] in H; try discriminate.
      * exfalso. apply aget_In in E. assert (existsb (fun e => is_full (snd e)) t = true).
        { apply existsb_exists. exists (hi32 x, Full). split; [assumption | reflexivity]. }
        congruence.
      * exists (hi32 x), b, (lo32 x). split; [apply aget_In; assumption|]. split.
        -- destruct (tm_wf_aget _ _ _ Hw E) as [_ Hb]. apply lmem_In. rewrite (proj2 (proj2 (bm_elems_spec b Hb))). assumption.
        -- unfold addr. apply split64. assumption.
Qed.

Lemma tm_len_none_iff t : tm_wf t -> (tm_len t = None <-> tm_row_ids t = None).
Proof.
  intro Hw. unfold tm_len. rewrite (tm_len_from_spec t 0 Hw), tm_row_ids_eq.
  destruct (existsb (fun e => is_full (snd e)) t); split; intro H; try discriminate; reflexivity.
Qed.

(* iter_ids: the merge walk equals "allowed and not blocked" *)
Lemma skip_lt_spec a bl : lsorted bl ->
  lsorted (skip_lt a bl) /\ Forall (fun y => a <= y) (skip_lt a bl) /\
  forall y, a <= y -> lmem y (skip_lt a bl) = lmem y bl.
Proof.
  induction bl as [|b r IH]; intro Hs; cbn [skip_lt].
  - split; [constructor|]. split; [constructor | reflexivity].
  - apply lsorted_cons_inv in Hs as Hs'. destruct Hs' as [Hr Hb].
    destruct (b <? a) eqn:E.
    + destruct (IH Hr) as [H1 [H2 H3]]. split; [assumption|]. split; [assumption|].
      intros y Hy. rewrite H3 by assumption. rewrite lmem_cons. destruct (N.eqb_spec y b); [lia | reflexivity].
    + split; [assumption|]. split; [|reflexivity].
      constructor; [lia|]. eapply Forall_impl; [|exact Hb]. intros z Hz. cbn in Hz. lia.
Qed.

Lemma iter_merge_spec al : forall bl, lsorted al -> lsorted bl ->
  iter_merge al bl = filter (fun a => negb (lmem a bl)) al.
Proof.
  induction al as [|a ar IH]; intros bl Ha Hb; cbn [iter_merge filter]; [reflexivity|].
  apply lsorted_cons_inv in Ha as [Har Hgt].
  destruct (skip_lt_spec a bl Hb) as [Hs' [Hge Hmem]].
  assert (Hrest : iter_merge ar (skip_lt a bl) = filter (fun x => negb (lmem x bl)) ar).
  { rewrite IH by assumption. apply filter_ext_in. intros x Hx. rewrite Hmem; [reflexivity|].
    rewrite Forall_forall in Hgt. specialize (Hgt _ Hx). lia. }
  rewrite <- (Hmem a (N.le_refl a)).
  destruct (skip_lt a bl) as [|b r] eqn:Esk.
  - cbn. rewrite Hrest. reflexivity.
  - rewrite lmem_cons. destruct (N.eqb_spec b a) as [->|Hne].
    + rewrite N.eqb_refl. cbn. exact Hrest.
    + inversion Hge as [|? ? Hba Hrge]; subst.
      apply lsorted_cons_inv in Hs' as [_ Hbr].
      destruct (N.eqb_spec a b); [congruence|]. cbn [orb].
      assert (lmem a r = false).
      { apply lmem_false_notin. intro Hin. rewrite Forall_forall in Hbr. specialize (Hbr _ Hin). lia. }
      rewrite H. cbn. rewrite Hrest. reflexivity.
Qed.

Lemma iter_ids_spec m ids : mask_wf m -> iter_ids m = Some ids ->
  lsorted ids /\ forall x, x < two64 -> (In x ids <-> selected m x = true).
Proof.
  intro H. mask_cases m H; unfold iter_ids, selected; cbn [allow block]; try discriminate.
  - destruct (tm_row_ids a) as [al|] eqn:Ea; [|discriminate].
    destruct (tm_row_ids b) as [bl|] eqn:Eb; [|discriminate]. intros [= <-].
    destruct (tm_row_ids_spec a al ltac:(assumption) Ea) as [Sa [_ Ma]].
    destruct (tm_row_ids_spec b bl ltac:(assumption) Eb) as [Sb [_ Mb]].
    rewrite iter_merge_spec by assumption. split; [apply lsorted_filter; assumption|].
    intros x Hx. rewrite filter_In, (Ma x Hx), andb_true_iff.
    split; intros [H1 H2]; (split; [assumption|]); apply negb_true_iff; apply negb_true_iff in H2.
    + destruct (tm_contains b x) eqn:E; [|reflexivity]. apply (Mb x Hx) in E. apply lmem_In in E. congruence.
    + apply lmem_false_notin. intro Hin. apply (Mb x Hx) in Hin. congruence.
  - destruct (tm_row_ids a) as [al|] eqn:Ea; [|discriminate]. intros [= <-].
    destruct (tm_row_ids_spec a al ltac:(assumption) Ea) as [Sa [_ Ma]]. split; assumption.
Qed.

Lemma max_len_spec m n : mask_wf m -> max_len m = Some n ->
  exists a ids, allow m = Some a /\ tm_row_ids a = Some ids /\ n = llen ids.
Proof.
  intro H. mask_cases m H; unfold max_len; cbn [allow]; try discriminate; intro E;
    destruct (tm_row_ids a) as [ids|] eqn:Er;
    try (apply (tm_len_none_iff a ltac:(assumption)) in Er; congruence);
    destruct (tm_row_ids_spec a ids ltac:(assumption) Er) as [_ [El _]]; exists a, ids;
    (split; [reflexivity|]); (split; [exact Er|]); congruence.
Qed.

(* ------------------------------------------------------------------------------------------ *)
(* serialization layout: deserialize (serialize t) = t, given a round-tripping roaring codec *)

Lemma rd32_le32 x r : x < two32 -> rd32 (le32 x ++ r) = Some (x, r).
Proof.
  intro H. unfold le32. cbn [app rd32]. f_equal. f_equal. unfold two32 in H. lia.
Qed.

Section SerializeFacts.
  Variable rb_ser : bitmap -> list N.
  Variable rb_de : list N -> option bitmap.
  Hypothesis rb_roundtrip : forall b, rb_de (rb_ser b) = Some b.
  (* a serialized roaring bitmap is never empty (cookie + count: at least 8 bytes) and fits a u32 length *)
  Hypothesis rb_size : forall b, 0 < llen (rb_ser b) < two32.

  Lemma de_entries_ser t : forall rest acc, Forall (fun e => fst e < two32) t ->
    de_entries rb_de (length t) (flat_map (ser_entry rb_ser) t ++ rest) acc =
    Ok (fold_left (fun acc e => aput (fst e) (snd e) acc) t acc).
  Proof.
    induction t as [|[f s] r IH]; intros rest acc Hk; cbn [length flat_map fold_left de_entries]; [reflexivity|].
    inversion Hk as [|? ? Hf Hr]; subst. cbn [fst] in Hf.
    unfold ser_entry at 1. cbn [fst snd]. rewrite <- !app_assoc. rewrite rd32_le32 by assumption.
    destruct s as [|b].
    - rewrite rd32_le32 by reflexivity. cbn [N.eqb]. rewrite N.eqb_refl. apply IH. assumption.
    - pose proof (rb_size b) as Hsz.
      assert (Ew : wrap32 (llen (rb_ser b)) = llen (rb_ser b)) by (apply N.mod_small; lia).
      rewrite Ew. rewrite <- !app_assoc. rewrite rd32_le32 by lia.
      destruct (N.eqb_spec (llen (rb_ser b)) 0) as [E0|_]; [lia|].
      assert (Elen : N.to_nat (llen (rb_ser b)) = length (rb_ser b)) by (unfold llen; apply Nat2N.id).
      assert (Hlt : (llen (rb_ser b ++ flat_map (ser_entry rb_ser) r ++ rest) <? llen (rb_ser b)) = false).
      { apply N.ltb_ge. unfold llen. rewrite app_length. lia. }
      rewrite Hlt, Elen.
      rewrite firstn_app, Nat.sub_diag, firstn_all, firstn_O, app_nil_r.
      rewrite rb_roundtrip.
      rewrite skipn_app, Nat.sub_diag, skipn_all, skipn_O. cbn [app].
      apply IH. assumption.
  Qed.

  Lemma fold_aput_sorted (t : treemap) : forall acc,
    lsorted (keys acc ++ keys t) -> fold_left (fun acc e => aput (fst e) (snd e) acc) t acc = acc ++ t.
  Proof.
    induction t as [|[f s] r IH]; intros acc Hs; cbn [fold_left]; [rewrite app_nil_r; reflexivity|].
    cbn [fst snd].
    assert (Eput : aput f s acc = acc ++ [(f, s)]).
    { clear IH. unfold keys in Hs. cbn [map fst] in Hs.
      induction acc as [|[k v] a IHa]; [reflexivity|]. cbn [map fst app] in Hs.
      apply lsorted_cons_inv in Hs as [Ha Hk]. cbn [aput app].
      assert (k < f). { rewrite Forall_forall in Hk. apply Hk. apply in_or_app. right. left. reflexivity. }
      destruct (f <? k) eqn:E1; [lia|]. destruct (N.eqb_spec f k); [lia|]. rewrite IHa by assumption. reflexivity. }
    rewrite Eput. rewrite IH.
    - rewrite <- app_assoc. reflexivity.
    - unfold keys in *. rewrite map_app. cbn [map fst]. rewrite <- app_assoc. exact Hs.
  Qed.

  Lemma tm_serialize_roundtrip (t : treemap) : tm_wf t -> llen t < two32 ->
    tm_deserialize rb_de (tm_serialize rb_ser t) = Ok t.
  Proof.
    intros [Hs Hw] Hlen. unfold tm_deserialize, tm_serialize.
    assert (Ew : wrap32 (llen t) = llen t) by (apply N.mod_small; assumption).
    rewrite Ew. rewrite rd32_le32 by assumption. unfold llen at 1. rewrite Nat2N.id.
    rewrite <- (app_nil_r (flat_map (ser_entry rb_ser) t)).
    rewrite de_entries_ser.
    - rewrite fold_aput_sorted; [reflexivity | exact Hs].
    - eapply Forall_impl; [|exact Hw]. intros e [He _]. exact He.
  Qed.

  (* serialized_size is the number of bytes written *)
  Lemma tm_serialized_size_spec (t : treemap) :
    tm_serialized_size rb_ser t = llen (tm_serialize rb_ser t).
  Proof.
    unfold tm_serialized_size, tm_serialize.
    assert (H : forall t acc, fold_left (fun size e => match snd e with
                             | Partial b => size + 8 + llen (rb_ser b) | Full => size + 8 end) t acc
                   = acc + llen (flat_map (ser_entry rb_ser) t)).
    { clear t. induction t as [|[f s] r IH]; intro acc; cbn [fold_left flat_map snd].
      - unfold llen. cbn. lia.
      - rewrite IH. unfold llen. rewrite app_length. unfold ser_entry at 2. cbn [fst snd].
        destruct s as [|b]; rewrite !app_length; cbn [le32 length]; lia. }
    rewrite H. unfold llen. rewrite app_length. cbn [le32 length]. lia.
  Qed.
End SerializeFacts.

(* ------------------------------------------------------------------------------------------ *)
(* union_all and Extend<Self> *)

Definition entry_has (x : N) (e : N * sel) : bool := (hi32 x =? fst e) && sel_has (Some (snd e)) (lo32 x).

Lemma tm_contains_existsb t x : lsorted (keys t) -> tm_contains t x = existsb (entry_has x) t.
Proof.
  rewrite tm_contains_has. unfold keys. induction t as [|[f s] r IH]; cbn [map fst aget existsb]; intro Hs; [reflexivity|].
  apply lsorted_cons_inv in Hs as [Hr Hk]. unfold entry_has at 1. cbn [fst snd].
  destruct (N.eqb_spec (hi32 x) f) as [E|Hne]; cbn [andb orb]; [|apply IH; assumption].
  assert (Hnone : existsb (entry_has x) r = false).
  { apply not_true_is_false. intro Hex. apply existsb_exists in Hex as [[f' s'] [Hin He]].
    unfold entry_has in He. cbn [fst] in He. apply andb_true_iff in He as [He _]. apply N.eqb_eq in He.
    rewrite Forall_forall in Hk. specialize (Hk f' (in_map fst _ _ Hin)). cbn in Hk. lia. }
  rewrite Hnone, orb_false_r. reflexivity.
Qed.

Definition ghas (acc : list (N * list sel)) (x : N) : bool :=
  match aget (hi32 x) acc with None => false | Some l => existsb (fun s => sel_has (Some s) (lo32 x)) l end.

Lemma ua_step_has acc e x : ghas (ua_step acc e) x = ghas acc x || entry_has x e.
Proof.
  unfold ghas, ua_step, entry_has. destruct (aget (fst e) acc) as [l|] eqn:E; rewrite aget_aput;
    destruct (N.eqb_spec (hi32 x) (fst e)) as [Eq|Hne]; cbn [andb]; rewrite ?orb_false_r; try reflexivity.
  - rewrite Eq, E. rewrite existsb_app. cbn [existsb]. rewrite orb_false_r. reflexivity.
  - rewrite Eq, E. cbn [existsb]. rewrite orb_false_r. reflexivity.
Qed.

Lemma fold_ua_step_has m : forall acc x,
  ghas (fold_left ua_step m acc) x = ghas acc x || existsb (entry_has x) m.
Proof.
  induction m as [|e r IH]; intros acc x; cbn [fold_left existsb]; [rewrite orb_false_r; reflexivity|].
  rewrite IH, ua_step_has, orb_assoc. reflexivity.
Qed.

Lemma fold_maps_has maps : forall acc x, Forall tm_wf maps ->
  ghas (fold_left (fun acc m => fold_left ua_step m acc) maps acc) x
  = ghas acc x || existsb (fun m => tm_contains m x) maps.
Proof.
  induction maps as [|m r IH]; intros acc x Hw; cbn [fold_left existsb]; [rewrite orb_false_r; reflexivity|].
  inversion Hw as [|? ? Hm Hr]; subst.
  rewrite IH by assumption. rewrite fold_ua_step_has, (tm_contains_existsb m x) by (apply Hm).
  rewrite orb_assoc. reflexivity.
Qed.

Lemma sel_union_all_has ss o :
  sel_has (Some (sel_union_all ss)) o = existsb (fun s => sel_has (Some s) o) ss.
Proof.
  unfold sel_union_all. destruct (existsb is_full ss) eqn:Ef.
  - cbn [sel_has]. symmetry. apply existsb_exists. apply existsb_exists in Ef as [s [Hin Hs]].
    exists s. split; [assumption|]. destruct s; [reflexivity | discriminate].
  - cbn [sel_has].
    assert (H : forall ss acc, existsb is_full ss = false ->
              bm_mem (fold_left (fun acc s => match s with Partial b => bm_union acc b | Full => acc end) ss acc) o
              = bm_mem acc o || existsb (fun s => sel_has (Some s) o) ss).
    { clear. induction ss as [|s r IH]; intros acc Hf; cbn [fold_left existsb]; [rewrite orb_false_r; reflexivity|].
      cbn [existsb] in Hf. apply orb_false_iff in Hf as [Hs Hr]. destruct s as [|b]; [discriminate|].
      rewrite IH by assumption. rewrite bm_mem_union. cbn [sel_has]. rewrite orb_assoc. reflexivity. }
    rewrite H by assumption. rewrite bm_mem_empty. reflexivity.
Qed.

Lemma tm_union_all_contains maps x : Forall tm_wf maps ->
  tm_contains (tm_union_all maps) x = existsb (fun m => tm_contains m x) maps.
Proof.
  intro Hw. rewrite tm_contains_has. unfold tm_union_all.
  rewrite (aget_map (fun _ l => sel_union_all l)).
  pose proof (fold_maps_has maps [] x Hw) as H. unfold ghas in H. cbn [aget] in H.
  destruct (aget (hi32 x) (fold_left (fun acc m => fold_left ua_step m acc) maps [])) as [l|]; cbn [option_map].
  - rewrite sel_union_all_has. exact H.
  - exact H.
Qed.

Lemma tm_extend_maps_contains others : forall t x, Forall tm_wf others ->
  tm_contains (tm_extend_maps t others) x = tm_contains t x || existsb (fun m => tm_contains m x) others.
Proof.
  unfold tm_extend_maps. induction others as [|o r IH]; intros t x Hw; cbn [fold_left existsb]; [rewrite orb_false_r; reflexivity|].
  inversion Hw as [|? ? Ho Hr]; subst. rewrite IH by assumption.
  change (fold_left or_step o t) with (tm_or t o). rewrite tm_or_contains by assumption. rewrite orb_assoc. reflexivity.
Qed.

(* ------------------------------------------------------------------------------------------ *)
(* canonical form: no entry holds an empty bitmap; then is_empty() is set emptiness *)

Definition tm_canon (t : treemap) : Prop := Forall (fun e => sel_nonempty (snd e) = true) t.

Lemma canon_nil : tm_canon []. Proof. constructor. Qed.
Lemma canon_aput k s t : sel_nonempty s = true -> tm_canon t -> tm_canon (aput k s t).
Proof. intros Hs Ht. apply Forall_aput; assumption. Qed.
Lemma canon_filter P t : tm_canon t -> tm_canon (filter P t).
Proof. apply Forall_filter. Qed.
Lemma canon_aget t k s : tm_canon t -> aget k t = Some s -> sel_nonempty s = true.
Proof. intros Hc H. apply aget_In in H. unfold tm_canon in Hc. rewrite Forall_forall in Hc. apply (Hc _ H). Qed.

Lemma bm_nonempty_of_mem b y : bm_wf b -> bm_mem b y = true -> bm_is_empty b = false.
Proof.
  intros Hw Hm. destruct (bm_is_empty b) eqn:E; [|reflexivity].
  rewrite (proj1 (bm_is_empty_spec b Hw) E y) in Hm. discriminate.
Qed.

Lemma sorted_gap l : forall a, lsorted l -> Forall (fun x => a <= x < two32) l ->
  a <= two32 -> N.of_nat (length l) < two32 - a -> exists y, a <= y < two32 /\ ~ In y l.
Proof.
  induction l as [|x r IH]; intros a Hs Hb Ha Hlen.
  - exists a. split; [cbn in Hlen; lia | intros []].
  - apply lsorted_cons_inv in Hs as [Hr Hx]. inversion Hb as [|? ? Hxb Hrb]; subst.
    destruct (N.eq_dec x a) as [->|Hne].
    + assert (Hrb' : Forall (fun z => a + 1 <= z < two32) r).
      { apply Forall_forall. intros z Hz. rewrite Forall_forall in Hx, Hrb.
        specialize (Hx _ Hz). specialize (Hrb _ Hz). lia. }
      destruct (IH (a + 1) Hr Hrb' ltac:(lia) ltac:(cbn [length] in Hlen; lia)) as [y [Hy Hn]].
      exists y. split; [lia|]. intros [E|Hin]; [lia | auto].
    + exists a. split; [lia|]. intros [E|Hin]; [lia|].
      rewrite Forall_forall in Hx. specialize (Hx _ Hin). lia.
Qed.

Lemma bm_nonempty_witness b : bm_wf b -> bm_is_empty b = false -> exists y, bm_mem b y = true.
Proof.
  destruct b as [l|l]; cbn [bm_wf bm_is_empty bm_mem]; intros [Hs Hb] He.
  - destruct l as [|x r]; [discriminate|]. exists x. inversion Hb; subst.
    rewrite lmem_cons, N.eqb_refl. cbn. apply andb_true_iff. split; [apply N.ltb_lt; assumption | reflexivity].
  - apply N.eqb_neq in He. unfold llen in He.
    assert (Hb0 : Forall (fun x => 0 <= x < two32) l) by (eapply Forall_impl; [|exact Hb]; intros a Ha; cbn in Ha; lia).
    pose proof (lsorted_length_le l 0 two32 Hs Hb0 ltac:(lia)) as Hle.
    destruct (sorted_gap l 0 Hs Hb0 ltac:(lia) ltac:(lia)) as [y [Hy Hn]].
    exists y. apply lmem_false_notin in Hn. rewrite Hn. cbn. apply andb_true_iff. split; [apply N.ltb_lt; lia | reflexivity].
Qed.

Lemma tm_is_empty_spec t : tm_wf t -> tm_canon t ->
  (tm_is_empty t = true <-> forall x, x < two64 -> tm_contains t x = false).
Proof.
  intros Hw Hc. destruct t as [|[f s] r]; cbn [tm_is_empty].
  - split; [intros _ x _; reflexivity | reflexivity].
  - split; [discriminate|]. intro H. exfalso.
    apply tm_wf_tail in Hw as [_ [[Hf Hs] _]]. cbn [fst snd] in Hf, Hs.
    inversion Hc as [|? ? Hne _]; subst. cbn [snd] in Hne.
    assert (Hex : exists o, o < two32 /\ sel_has (Some s) o = true).
    { destruct s as [|b]; [exists 0; split; reflexivity|].
      cbn [sel_nonempty] in Hne. apply negb_true_iff in Hne.
      destruct (bm_nonempty_witness b Hs Hne) as [y Hy]. exists y. split; [apply (bm_mem_lt b y Hy) | exact Hy]. }
    destruct Hex as [o [Ho Hm]].
    destruct (addr_parts f o Hf Ho) as [E1 [E2 E3]].
    specialize (H (addr f o) E3). rewrite tm_contains_has, E1, E2 in H. cbn [aget] in H.
    rewrite N.eqb_refl in H. congruence.
Qed.

(* ---- preservation ---- *)
Lemma tm_insert_canon v t : tm_wf t -> tm_canon t -> tm_canon (fst (tm_insert v t)).
Proof.
  intros Hw Hc. unfold tm_insert.
  assert (Hins : forall b, bm_wf b -> sel_nonempty (Partial (fst (bm_insert (lo32 v) b))) = true).
  { intros b Hb. cbn [sel_nonempty]. apply negb_true_iff.
    apply (bm_nonempty_of_mem _ (lo32 v)); [apply bm_wf_insert; [apply lo32_lt | exact Hb]|].
    rewrite bm_mem_insert, N.eqb_refl. pose proof (lo32_lt v). replace (lo32 v <? two32) with true by lia. reflexivity. }
  destruct (aget (hi32 v) t) as [[|b]|] eqn:E; cbn [fst].
  - exact Hc.
  - destruct (bm_insert (lo32 v) b) as [b' ch] eqn:Eb. cbn [fst]. apply canon_aput; [|exact Hc].
    replace b' with (fst (bm_insert (lo32 v) b)) by (rewrite Eb; reflexivity).
    apply Hins. apply (tm_wf_aget _ _ _ Hw E).
  - apply canon_aput; [|exact Hc]. apply Hins. apply bm_wf_empty.
Qed.

Lemma tm_extend_canon vs : forall t, tm_wf t -> tm_canon t -> tm_canon (tm_extend t vs).
Proof.
  unfold tm_extend. induction vs as [|v r IH]; intros t Hw Hc; cbn [fold_left]; [exact Hc|].
  rewrite extend_step_is_insert. apply IH; [apply tm_insert_wf | apply tm_insert_canon]; assumption.
Qed.

Lemma tm_remove_canon v t : tm_canon t -> tm_canon (fst (tm_remove v t)).
Proof.
  intro Hc. unfold tm_remove. destruct (aget (hi32 v) t) as [[|b]|] eqn:E; cbn [fst].
  - apply canon_aput; [reflexivity | exact Hc].
  - destruct (bm_remove (lo32 v) b) as [b' rm] eqn:Eb. destruct (bm_is_empty b') eqn:Em; cbn [fst].
    + apply canon_filter. exact Hc.
    + apply canon_aput; [cbn [sel_nonempty]; rewrite Em; reflexivity | exact Hc].
  - exact Hc.
Qed.

Lemma or_step_canon acc k rs : tm_wf acc -> tm_canon acc -> sel_wf rs -> sel_nonempty rs = true ->
  tm_canon (or_step acc (k, rs)).
Proof.
  intros Hw Hc Hrw Hrn. unfold or_step. destruct (aget k acc) as [[|lb]|] eqn:E.
  - exact Hc.
  - destruct rs as [|rb]; [apply canon_aput; [reflexivity | exact Hc]|].
    apply canon_aput; [|exact Hc]. cbn [sel_nonempty]. apply negb_true_iff.
    destruct (tm_wf_aget _ _ _ Hw E) as [_ Hlb]. cbn [sel_wf] in Hlb, Hrw.
    pose proof (canon_aget _ _ _ Hc E) as Hln. cbn [sel_nonempty] in Hln. apply negb_true_iff in Hln.
    destruct (bm_nonempty_witness lb Hlb Hln) as [y Hy].
    apply (bm_nonempty_of_mem _ y); [apply bm_wf_union; assumption|]. rewrite bm_mem_union, Hy. reflexivity.
  - apply canon_aput; assumption.
Qed.

Lemma tm_or_canon a b : tm_wf a -> tm_wf b -> tm_canon a -> tm_canon b -> tm_canon (tm_or a b).
Proof.
  intros Ha [_ Hb] Hca Hcb. unfold tm_or. revert a Ha Hca.
  induction b as [|[k rs] r IH]; intros a Ha Hca; cbn [fold_left]; [exact Hca|].
  inversion Hb as [|? ? [Hk Hrs] Hr]; subst. inversion Hcb as [|? ? Hn Hcr]; subst. cbn [fst snd] in *.
  apply IH; try assumption; [apply or_step_wf | apply or_step_canon]; assumption.
Qed.

Lemma tm_and_canon a b : tm_canon (tm_and a b).
Proof.
  unfold tm_and, tm_canon. apply Forall_forall. intros e He. apply filter_In in He as [_ He]. exact He.
Qed.

(* subtraction removes an entry whose bitmap became empty, in both the Partial and (since 7f76aa9) the Full arm *)
Lemma sub_step_canon acc k rs : tm_canon acc -> tm_canon (sub_step acc (k, rs)).
Proof.
  intros Hc. unfold sub_step. destruct (aget k acc) as [[|lb]|] eqn:E.
  - destruct rs as [|rb]; [apply canon_filter; exact Hc|]. cbv zeta.
    destruct (bm_is_empty (bm_diff bm_full rb)) eqn:Em; [apply canon_filter; exact Hc|].
    apply canon_aput; [cbn [sel_nonempty]; rewrite Em; reflexivity | exact Hc].
  - destruct rs as [|rb]; [apply canon_filter; exact Hc|]. cbv zeta.
    destruct (bm_is_empty (bm_diff lb rb)) eqn:Em; [apply canon_filter; exact Hc|].
    apply canon_aput; [cbn [sel_nonempty]; rewrite Em; reflexivity | exact Hc].
  - exact Hc.
Qed.

Lemma tm_sub_canon a b : tm_canon a -> tm_canon (tm_sub a b).
Proof.
  unfold tm_sub. revert a. induction b as [|[k rs] r IH]; intros a Hca; cbn [fold_left]; [exact Hca|].
  apply IH. apply sub_step_canon. exact Hca.
Qed.

(* insert_range never leaves an empty bitmap behind (F15: insert_range(5..5) used to) *)
Lemma ir_step_canon t sh sl en : tm_wf t -> tm_canon t -> sl <= en -> en < two32 ->
  tm_canon (fst (ir_step t sh sl en)).
Proof.
  intros Hw Hc Hle Hen. unfold ir_step.
  assert (Hne : forall b, bm_wf b -> sel_nonempty (Partial (fst (bm_insert_range sl en b))) = true).
  { intros b Hb. cbn [sel_nonempty]. apply negb_true_iff.
    apply (bm_nonempty_of_mem _ sl); [apply bm_wf_insert_range; assumption|].
    rewrite bm_mem_insert_range. replace (sl <? two32) with true by lia. replace (sl <=? sl) with true by lia.
    replace (sl <=? en) with true by lia. apply orb_true_r. }
  destruct (aget sh t) as [[|b]|] eqn:E.
  - exact Hc.
  - destruct (bm_insert_range sl en b) as [b' c] eqn:Eb. cbn [fst]. apply canon_aput; [|exact Hc].
    replace b' with (fst (bm_insert_range sl en b)) by (rewrite Eb; reflexivity). apply Hne. apply (tm_wf_aget _ _ _ Hw E).
  - destruct (bm_insert_range sl en bm_empty) as [b' c] eqn:Eb. cbn [fst]. apply canon_aput; [|exact Hc].
    replace b' with (fst (bm_insert_range sl en bm_empty)) by (rewrite Eb; reflexivity). apply Hne. apply bm_wf_empty.
Qed.

Lemma ir_loop_canon n : forall t sh sl eh el count t' c,
  N.to_nat (eh - sh) = n -> sh <= eh -> eh < two32 -> el < two32 -> sl < two32 -> (sh = eh -> sl <= el) ->
  tm_wf t -> tm_canon t -> ir_loop n t sh sl eh el count = Ok (t', c) -> tm_canon t'.
Proof.
  induction n as [|n IH]; intros t sh sl eh el count t' c Hn Hle Heh Hel Hsl Hsame Hw Hc; rewrite ir_loop_unfold; cbv zeta.
  - assert (sh = eh) by lia. subst eh. rewrite N.eqb_refl.
    destruct (two64 <=? count + snd (ir_step t sh sl el)); [discriminate|]. intros [= <- <-].
    apply ir_step_canon; auto.
  - assert (Hlt : sh < eh) by lia. destruct (N.eqb_spec sh eh) as [->|Hne]; [lia|].
    destruct (two64 <=? count + snd (ir_step t sh sl u32max)); [discriminate|].
    destruct (two32 <=? sh + 1) eqn:Eo; [discriminate|].
    apply IH; try assumption; try lia; try reflexivity.
    + apply ir_step_wf; [assumption | lia | reflexivity].
    + apply ir_step_canon; try assumption; unfold u32max, two32 in *; lia.
Qed.

Lemma tm_insert_range_canon s e t t' c : bound_ok s -> bound_ok e -> tm_wf t -> tm_canon t ->
  tm_insert_range s e t = Ok (t', c) -> tm_canon t'.
Proof.
  intros Hs He Hw Hc. rewrite tm_insert_range_unfold.
  assert (Hfirst : ir_first s < two64).
  { destruct s as [st|st|]; cbn [ir_first bound_ok] in *; [assumption| |reflexivity].
    destruct (two64 <=? st + 1) eqn:E; [reflexivity | lia]. }
  destruct (ir_last e) as [hi|] eqn:El; [|intros [= <- <-]; exact Hc].
  assert (Hlast : hi < two64).
  { destruct e as [en|en|]; cbn [ir_last bound_ok] in *.
    - injection El as <-. assumption.
    - destruct (en =? 0); [discriminate|]. injection El as <-. lia.
    - injection El as <-. reflexivity. }
  cbv zeta. rewrite pair_ltb_lt by assumption.
  destruct ((hi <? ir_first s) || ir_excl_max s) eqn:Eempty; [intros [= <- <-]; exact Hc|].
  apply orb_false_iff in Eempty as [E1 E2].
  pose proof (lex_le (ir_first s) hi Hfirst Hlast) as L. replace (ir_first s <=? hi) with true in L by lia.
  intro Hr. eapply (ir_loop_canon _ t (hi32 (ir_first s)) (lo32 (ir_first s)) (hi32 hi) (lo32 hi) 0 t' c eq_refl);
    try assumption; try apply hi32_lt; try apply lo32_lt.
  - apply orb_true_iff in L. lia.
  - intro E. rewrite E in L. rewrite N.ltb_irrefl, N.eqb_refl in L. cbn in L. lia.
Qed.
