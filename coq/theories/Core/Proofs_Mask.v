(* Lemmas and proofs about Core/Model_Mask.v. *)
From LanceV Require Import Common.Base Core.Model_Mask.
Local Open Scope N_scope.

(* the Rust unit tests of mask.rs, run on the model *)
Example unit_test_ops :
  let m := all_rows in
  let bl := also_block m (tm_from_iter [0; 5; 15]) in
  let al := from_allowed (tm_from_iter [0; 2; 5]) in
  let c := mand bl al in
  selected m 1 = true /\ selected bl 1 = true /\ selected bl 5 = false /\ selected al 1 = false /\
  selected al 5 = true /\ selected c 2 = true /\ selected c 0 = false /\ selected c 5 = false /\
  match mor c (from_allowed (tm_from_iter [3])) with
  | Ok c2 => selected c2 2 = true /\ selected c2 3 = true /\ selected c2 0 = false /\ selected c2 5 = false
  | _ => False
  end.
Proof. vm_compute. repeat split; reflexivity. Qed.
