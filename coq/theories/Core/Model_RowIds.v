(* C34 - model of rust/lance-table/src/rowids.rs, rowids/segment.rs, rowids/encoded_array.rs,
   rowids/bitmap.rs.  Executable definitions only (+ the chk_* correspondence checkers).

   Conventions
   * u64 / usize / u32 values are N; every place where the Rust (debug build) can overflow, underflow,
     unwrap a None or fail an assertion while BUILDING a segment is an explicit [Panic].
   * The read-only accessors (iter/len/get/position/contains/range) are modelled on the declared domain
     [seg_wf] (what every constructor of the public API produces: start <= end, bitmap length = end-start,
     hole lists strictly sorted inside the range, offsets that fit their width).  Outside [seg_wf] (only
     reachable by deserialising hand-made protobuf) the Rust may panic where the model returns a value;
     the harness never generates such segments and [chk_*] refuse them.
   * Bitmap is modelled by the list of its bits (Bitmap::iter); the byte packing (data: Vec<u8>) is checked
     on the implementation side by the harness (well-formedness oracle) and not modelled.
   * EncodedU64Array::binary_search on a strictly sorted array is modelled by "index of the value"
     (std's probing order is not modelled); [seg_wf] requires the arrays that are searched to be sorted.
   * The RowIdMask argument of mask_to_offset_ranges is a predicate [selected : N -> bool];
     RowIdTreeMap::from(range) + mask + into_addr_iter is modelled as "the selected ids of the range,
     ascending" (the tree map itself is property C21's). *)
From LanceV Require Import Common.Base.
Local Open Scope N_scope.

Definition u64max : N := two64 - 1.

Definition obind {A B} (x : outcome A) (f : A -> outcome B) : outcome B :=
  match x with Ok a => f a | Err => Err | Panic => Panic end.
Notation "'do' x <- e ; k" := (obind e (fun x => k)) (at level 200, x pattern, e at level 100, k at level 200).

(* checked u64 arithmetic of debug builds *)
Definition cadd (a b : N) : outcome N := if a + b <? two64 then Ok (a + b) else Panic.
Definition csub (a b : N) : outcome N := if b <=? a then Ok (a - b) else Panic.
Definition cmul (a b : N) : outcome N := if a * b <? two64 then Ok (a * b) else Panic.

(* ---------- list helpers ---------- *)
Fixpoint nrange (s : N) (n : nat) : list N :=
  match n with O => [] | S k => s :: nrange (s + 1) k end.
Definition range_iter (s e : N) : list N := nrange s (N.to_nat (e - s)).   (* s..e *)

Definition memN (v : N) (l : list N) : bool := existsb (N.eqb v) l.

Fixpoint find_index {A} (p : A -> bool) (l : list A) : option N :=
  match l with
  | [] => None
  | x :: xs => if p x then Some 0 else match find_index p xs with Some i => Some (i + 1) | None => None end
  end.
Definition index_of (v : N) (l : list N) : option N := find_index (N.eqb v) l.

Definition nth_N {A} (l : list A) (i : N) : option A := nth_error l (N.to_nat i).
Definition len_N {A} (l : list A) : N := N.of_nat (length l).
Definition skip_N {A} (i : N) (l : list A) : list A := skipn (N.to_nat i) l.
Definition take_N {A} (i : N) (l : list A) : list A := firstn (N.to_nat i) l.

Fixpoint list_min (l : list N) : option N :=
  match l with [] => None | x :: xs => match list_min xs with None => Some x | Some m => Some (N.min x m) end end.
Fixpoint list_max (l : list N) : option N :=
  match l with [] => None | x :: xs => match list_max xs with None => Some x | Some m => Some (N.max x m) end end.
Definition or0 (o : option N) : N := match o with Some x => x | None => 0 end.

Fixpoint ninsert (x : N) (l : list N) : list N :=
  match l with [] => [x] | y :: ys => if x <=? y then x :: l else y :: ninsert x ys end.
Definition nsort (l : list N) : list N := fold_right ninsert [] l.   (* sort_unstable on integers *)

Fixpoint take_while {A} (p : A -> bool) (l : list A) : list A :=
  match l with [] => [] | x :: xs => if p x then x :: take_while p xs else [] end.
Fixpoint drop_while {A} (p : A -> bool) (l : list A) : list A :=
  match l with [] => [] | x :: xs => if p x then drop_while p xs else l end.

Definition last_opt {A} (l : list A) : option A := match rev l with [] => None | x :: _ => Some x end.

(* ---------- EncodedU64Array ---------- *)
Inductive earr :=
| EU16 (base : N) (offs : list N)
| EU32 (base : N) (offs : list N)
| EU64 (vals : list N).

Definition earr_iter (a : earr) : list N :=
  match a with EU16 b o | EU32 b o => map (N.add b) o | EU64 v => v end.
Definition earr_len (a : earr) : N :=
  match a with EU16 _ o | EU32 _ o => len_N o | EU64 v => len_N v end.
Definition earr_get (a : earr) (i : N) : option N :=
  match a with
  | EU16 b o | EU32 b o => match nth_N o i with Some x => Some (b + x) | None => None end
  | EU64 v => nth_N v i
  end.
Definition earr_min (a : earr) : option N :=
  match a with
  | EU16 b o | EU32 b o => match o with [] => None | _ => Some b end
  | EU64 v => list_min v
  end.
Definition earr_max (a : earr) : option N :=
  match a with
  | EU16 b o | EU32 b o => match list_max o with None => None | Some m => Some (b + m) end
  | EU64 v => list_max v
  end.
Definition earr_first (a : earr) : option N :=
  match a with
  | EU16 b o | EU32 b o => match o with [] => None | x :: _ => Some (b + x) end
  | EU64 v => match v with [] => None | x :: _ => Some x end
  end.
Definition earr_last (a : earr) : option N :=
  match a with
  | EU16 b o | EU32 b o => match last_opt o with None => None | Some x => Some (b + x) end
  | EU64 v => last_opt v
  end.
(* binary_search(val).ok() on a strictly sorted array *)
Definition earr_bsearch (a : earr) (val : N) : option N :=
  match a with
  | EU16 b o => if val <? b then None else if 65535 <? val - b then None else index_of (val - b) o
  | EU32 b o => if val <? b then None else if 4294967295 <? val - b then None else index_of (val - b) o
  | EU64 v => index_of val v
  end.
Definition is_some {A} (o : option A) : bool := match o with Some _ => true | None => false end.

(* impl From<Vec<u64>> for EncodedU64Array *)
Definition earr_of_list (vs : list N) : earr :=
  let mn := or0 (list_min vs) in
  let mx := or0 (list_max vs) in
  let range := mx - mn in
  match vs with
  | [] => EU64 []
  | _ => if range <=? 65535 then EU16 mn (map (fun v => v - mn) vs)
         else if range <=? 4294967295 then EU32 mn (map (fun v => v - mn) vs)
         else EU64 vs
  end.

(* ---------- Bitmap (as the list of its bits) ---------- *)
Definition bm_get (bm : list bool) (i : N) : bool := nth (N.to_nat i) bm false.
Fixpoint bm_update (bm : list bool) (i : nat) (b : bool) : list bool :=
  match bm, i with
  | [], _ => []
  | _ :: xs, O => b :: xs
  | x :: xs, S k => x :: bm_update xs k b
  end.
Definition bm_clear (bm : list bool) (i : N) : list bool := bm_update bm (N.to_nat i) false.
Definition bm_new_full (n : N) : list bool := repeat true (N.to_nat n).
Definition count_true (l : list bool) : N := len_N (filter (fun b => b) l).
Definition count_false (l : list bool) : N := len_N (filter negb l).

(* ---------- U64Segment ---------- *)
Inductive seg :=
| SRange (s e : N)
| SHoles (s e : N) (holes : earr)
| SBitmap (s e : N) (bm : list bool)
| SSorted (a : earr)
| SArray (a : earr).

Record stats := { st_min : N; st_max : N; st_count : N; st_sorted : bool }.

Definition stats_step (st : stats) (v : N) : stats :=
  let count := st_count st + 1 in
  let mn := if v <? st_min st then v else st_min st in
  let mx := if st_max st <? v then v else st_max st in
  let sorted := if st_sorted st && (1 <? count) && (v <? mx) then false else st_sorted st in
  {| st_min := mn; st_max := mx; st_count := count; st_sorted := sorted |}.

Definition compute_stats (l : list N) : stats :=
  let st := fold_left stats_step l {| st_min := u64max; st_max := 0; st_count := 0; st_sorted := true |} in
  if st_count st =? 0 then {| st_min := 0; st_max := 0; st_count := st_count st; st_sorted := st_sorted st |}
  else st.

(* SegmentStats::n_holes *)
Definition n_holes (st : stats) : outcome N :=
  if st_count st =? 0 then Ok 0
  else do d <- csub (st_max st) (st_min st); do ts <- cadd d 1; csub ts (st_count st).

(* `x as f64` for a u64 x (round to nearest, ties to even); the result is an integer *)
Definition f64_of_u64 (n : N) : N :=
  let bits := N.size n in
  if bits <=? 53 then n
  else
    let sh := bits - 53 in
    let q := N.shiftr n sh in
    let r := n mod (2 ^ sh) in
    let half := 2 ^ (sh - 1) in
    let q' := if (half <? r) || ((r =? half) && N.odd q) then q + 1 else q in
    N.shiftl q' sh.

(* sorted_sequence_sizes: [range_with_holes, range_with_bitmap, sorted_array] *)
Definition seq_sizes (st : stats) : outcome (N * N * N) :=
  do nh <- n_holes st;
  do d <- csub (st_max st) (st_min st);
  do ts <- cadd d 1;
  do h4 <- cmul 4 nh;
  do rwh <- cadd 24 h4;
  let rwb := 24 + (f64_of_u64 ts + 7) / 8 in
  let sa := 24 + 2 * st_count st in
  Ok (rwh, rwb, sa).

(* holes_in_slice: values of the range not in `existing` (a peekable walk) *)
Fixpoint holes_in (vals existing : list N) : list N :=
  match vals with
  | [] => []
  | v :: vs =>
      match existing with
      | e :: es => if e =? v then holes_in vs es else v :: holes_in vs existing
      | [] => v :: holes_in vs []
      end
  end.

Definition incl_range (mn mx : N) : list N := nrange mn (N.to_nat (mx + 1 - mn)).   (* mn..=mx *)

Definition from_stats (st : stats) (sq : list N) : outcome seg :=
  if st_sorted st then
    do nh <- n_holes st;
    if st_count st =? 0 then Ok (SRange 0 0)
    else if nh =? 0 then (do e <- cadd (st_max st) 1; Ok (SRange (st_min st) e))
    else
      do sz <- seq_sizes st;
      let '(rwh, rwb, sa) := sz in
      let m := N.min rwh (N.min rwb sa) in
      if m =? rwh then
        do e <- cadd (st_max st) 1;
        let holes := nsort (holes_in (incl_range (st_min st) (st_max st)) sq) in
        Ok (SHoles (st_min st) e (earr_of_list holes))
      else if m =? rwb then
        do e <- cadd (st_max st) 1;
        let bm := fold_left (fun bm h => bm_clear bm (h - st_min st))
                            (holes_in (incl_range (st_min st) (st_max st)) sq)
                            (bm_new_full (st_max st - st_min st + 1)) in
        Ok (SBitmap (st_min st) e bm)
      else Ok (SSorted (earr_of_list sq))
  else Ok (SArray (earr_of_list sq)).

Definition from_slice (l : list N) : outcome seg := from_stats (compute_stats l) l.

Definition seg_iter (sg : seg) : list N :=
  match sg with
  | SRange s e => range_iter s e
  | SHoles s e h => filter (fun v => negb (is_some (earr_bsearch h v))) (range_iter s e)
  | SBitmap s e bm => filter (fun v => bm_get bm (v - s)) (range_iter s e)
  | SSorted a | SArray a => earr_iter a
  end.

Definition seg_len (sg : seg) : N :=
  match sg with
  | SRange s e => e - s
  | SHoles s e h => (e - s) - len_N (earr_iter h)
  | SBitmap s e bm => (e - s) - (len_N bm - count_true bm)
  | SSorted a | SArray a => earr_len a
  end.

(* U64Segment::range -> Option<RangeInclusive>: (first, last) *)
Definition seg_range (sg : seg) : outcome (option (N * N)) :=
  match sg with
  | SRange s e => if e <=? s then Ok None else Ok (Some (s, e - 1))
  | SHoles s e _ | SBitmap s e _ => if e =? 0 then Panic else Ok (Some (s, e - 1))
  | SSorted a => match earr_first a, earr_last a with Some x, Some y => Ok (Some (x, y)) | _, _ => Panic end
  | SArray a => match earr_min a, earr_max a with Some x, Some y => Ok (Some (x, y)) | _, _ => Panic end
  end.

Definition in_range (s e v : N) : bool := (s <=? v) && (v <? e).

Definition seg_position (sg : seg) (val : N) : option N :=
  match sg with
  | SRange s e => if in_range s e val then Some (val - s) else None
  | SHoles s e h =>
      if in_range s e val && negb (is_some (earr_bsearch h val)) then
        Some ((val - s) - len_N (take_while (fun hole => hole <? val) (earr_iter h)))
      else None
  | SBitmap s e bm =>
      if in_range s e val then                      (* `&&` short-circuits: the bitmap is only read in range *)
        if bm_get bm (val - s) then Some ((val - s) - count_false (take_N (val - s) bm)) else None
      else None
  | SSorted a => earr_bsearch a val
  | SArray a => index_of val (earr_iter a)
  end.

Definition seg_get (sg : seg) (i : N) : option N :=
  match sg with
  | SRange s e => if (s + i <? two64) && (s + i <? e) then Some (s + i) else None
  | SHoles s e _ | SBitmap s e _ => if e - s <=? i then None else nth_N (seg_iter sg) i
  | SSorted a | SArray a => earr_get a i
  end.

Definition seg_contains (sg : seg) (val : N) : bool :=
  match sg with
  | SRange s e => in_range s e val
  | SHoles s e h => if negb (in_range s e val) then false else negb (memN val (earr_iter h))
  | SBitmap s e bm => if negb (in_range s e val) then false else bm_get bm (val - s)
  | SSorted a => is_some (earr_bsearch a val)
  | SArray a => memN val (earr_iter a)
  end.

Definition seg_slice (sg : seg) (offset len : N) : outcome seg :=
  if len =? 0 then Ok (SRange 0 0)
  else from_slice (take_N len (skip_N offset (seg_iter sg))).

(* filter with a peekable list of values to drop (delete) *)
Fixpoint drop_vals (l vals : list N) : list N :=
  match l with
  | [] => []
  | x :: xs =>
      match vals with
      | v :: vs => if v =? x then drop_vals xs vs else x :: drop_vals xs vals
      | [] => x :: drop_vals xs []
      end
  end.

Definition seg_delete (sg : seg) (vals : list N) : outcome seg :=
  (* debug_assert!(vals.iter().all(|&val| self.range().unwrap().contains(&val))) *)
  do _ <- (match vals with
           | [] => Ok tt
           | _ => do r <- seg_range sg;
                  match r with
                  | None => Panic
                  | Some (lo, hi) => if forallb (fun v => (lo <=? v) && (v <=? hi)) vals then Ok tt else Panic
                  end
           end);
  let sq := drop_vals (seg_iter sg) vals in
  from_stats (compute_stats sq) sq.

(* enumerate + filter_map with a peekable list of positions to drop (mask) *)
Fixpoint drop_positions (l : list N) (i : N) (ps : list N) : list N :=
  match l with
  | [] => []
  | x :: xs =>
      match ps with
      | p :: ps' => if p =? i then drop_positions xs (i + 1) ps' else x :: drop_positions xs (i + 1) ps
      | [] => x :: drop_positions xs (i + 1) []
      end
  end.

Definition first_unmasked (len : N) (ps : list N) : option N :=
  let k := length ps in
  match find (fun j => negb (nth (j mod k)%nat ps 0 =? N.of_nat j)) (seq 0 (N.to_nat len)) with
  | Some j => Some (N.of_nat j) | None => None end.
Definition last_unmasked (len : N) (ps : list N) : option N :=
  let k := length ps in
  let rps := rev ps in
  match find (fun t => negb (nth (t mod k)%nat rps 0 =? len - 1 - N.of_nat t)) (seq 0 (N.to_nat len)) with
  | Some t => Some (len - 1 - N.of_nat t) | None => None end.

Definition seg_is_array (sg : seg) : bool := match sg with SArray _ => true | _ => false end.

Definition seg_mask (sg : seg) (positions : list N) : outcome seg :=
  match positions with
  | [] => Ok sg
  | _ =>
    let len := seg_len sg in
    if len_N positions =? len then Ok (SRange 0 0)
    else
      do count <- csub len (len_N positions);
      let sorted := negb (seg_is_array sg) in
      match first_unmasked len positions with None => Panic | Some fu =>
      match seg_get sg fu with None => Panic | Some mn =>
      match last_unmasked len positions with None => Panic | Some lu =>
      match seg_get sg lu with None => Panic | Some mx =>
        from_stats {| st_min := mn; st_max := mx; st_count := count; st_sorted := sorted |}
                   (drop_positions (seg_iter sg) 0 positions)
      end end end end
  end.

(* with_new_high: Err = "New value must be higher than current maximum" *)
Definition earr_push_high (a : earr) (val : N) : earr :=
  match a with
  | EU64 v => EU64 (v ++ [val])
  | EU16 b o =>
      if (b <=? val) && (val - b <=? 65535) then EU16 b (o ++ [val - b])
      else if (b <=? val) && (val - b <=? 4294967295) then EU32 b (o ++ [val - b])
      else earr_of_list (map (N.add b) o ++ [val])
  | EU32 b o =>
      if (b <=? val) && (val - b <=? 4294967295) then EU32 b (o ++ [val - b])
      else earr_of_list (map (N.add b) o ++ [val])
  end.

Definition seg_with_new_high (sg : seg) (val : N) : outcome seg :=
  do r <- seg_range sg;
  if (match r with Some (_, hi) => val <=? hi | None => false end) then Err
  else
    match sg with
    | SRange s e =>
        do v1 <- cadd val 1;          (* every arm of Range builds `end: val + 1` first *)
        if s =? e then Ok (SRange val v1)
        else if val =? e then Ok (SRange s v1)
        else Ok (SHoles s v1 (EU64 (range_iter e val)))
    | SHoles s e h =>
        (* the else arm collects the new holes before computing val + 1; a far u64::MAX would first try to
           materialise them (not representable here; the harness does not execute that case) *)
        do v1 <- cadd val 1;
        if val =? e then Ok (SHoles s v1 h)
        else Ok (SHoles s v1 (EU64 (earr_iter h ++ range_iter e val)))
    | SBitmap s e bm =>
        do v1 <- cadd val 1;
        do gap <- csub val e;
        Ok (SBitmap s v1 (bm ++ repeat false (N.to_nat gap) ++ [true]))
    | SSorted a => Ok (SSorted (earr_push_high a val))      (* no val + 1 here: u64::MAX is accepted *)
    | SArray a => Ok (SArray (earr_push_high a val))
    end.

(* ---------- well-formedness (declared domain of the accessors) ---------- *)
Fixpoint strict_sorted (l : list N) : bool :=
  match l with
  | [] => true
  | x :: xs => match xs with [] => true | y :: _ => (x <? y) && strict_sorted xs end
  end.

Definition earr_wf (a : earr) : bool :=
  match a with
  | EU16 b o => forallb (fun x => (x <=? 65535) && (b + x <? two64)) o
  | EU32 b o => forallb (fun x => (x <=? 4294967295) && (b + x <? two64)) o
  | EU64 v => forallb (fun x => x <? two64) v
  end.

Definition seg_wf (sg : seg) : bool :=
  match sg with
  | SRange s e => (s <=? e) && (e <? two64)
  | SHoles s e h => (s <? e) && (e <? two64) && earr_wf h && strict_sorted (earr_iter h)
                    && forallb (in_range s e) (earr_iter h)
  | SBitmap s e bm => (s <? e) && (e <? two64) && (len_N bm =? e - s)
  | SSorted a => earr_wf a && strict_sorted (earr_iter a) && negb (earr_len a =? 0)
  | SArray a => earr_wf a && negb (earr_len a =? 0)
  end.

(* ---------- RowIdSequence = list seg ---------- *)
Definition rseq := list seg.

Definition rs_iter (q : rseq) : list N := flat_map seg_iter q.
Definition rs_len (q : rseq) : N := fold_left (fun acc sg => acc + seg_len sg) q 0.

Definition rs_of_slice (l : list N) : outcome rseq := do sg <- from_slice l; Ok [sg].

(* extend: merge a trailing Range with a leading adjacent Range *)
Definition rs_extend (a b : rseq) : rseq :=
  match last_opt a, b with
  | Some (SRange s1 e1), SRange s2 e2 :: b' =>
      if e1 =? s2 then removelast a ++ [SRange s1 e2] ++ b' else a ++ b
  | _, _ => a ++ b
  end.

(* find_ids: for every segment, the sorted positions of the requested ids found in it *)
Definition seg_matches (sg : seg) (row_ids : list N) : outcome (list N) :=
  do r <- seg_range sg;
  Ok (nsort (flat_map (fun id =>
        match r with
        | Some (lo, hi) =>
            if (lo <=? id) && (id <=? hi) then match seg_position sg id with Some p => [p] | None => [] end
            else []
        | None => []
        end) row_ids)).

Fixpoint map_get (sg : seg) (offs : list N) : outcome (list N) :=
  match offs with
  | [] => Ok []
  | o :: os => match seg_get sg o with None => Panic | Some v => do r <- map_get sg os; Ok (v :: r) end
  end.

Fixpoint rs_delete (q : rseq) (row_ids : list N) : outcome rseq :=
  match q with
  | [] => Ok []
  | sg :: rest =>
      do m <- (match row_ids with [] => Ok [] | _ => seg_matches sg row_ids end);
      do sg' <- (match m with
                 | [] => Ok sg
                 | _ => do ids <- map_get sg m; seg_delete sg ids
                 end);
      do rest' <- rs_delete rest row_ids;
      Ok (sg' :: rest')
  end.

(* mask: positions are global offsets (u32), ascending *)
Fixpoint rs_mask_go (q : rseq) (ps : list N) (offset : N) : outcome rseq :=
  match q with
  | [] => Ok []
  | sg :: rest =>
      let cutoff := offset + seg_len sg in
      let local := take_while (fun p => p <? cutoff) ps in
      let ps' := drop_while (fun p => p <? cutoff) ps in
      if existsb (fun p => p <? offset) local then Panic     (* position - offset underflows *)
      else
        do sg' <- (match local with [] => Ok sg | _ => seg_mask sg (map (fun p => p - offset) local) end);
        do rest' <- rs_mask_go rest ps' cutoff;
        Ok (sg' :: rest')
  end.
Definition rs_mask (q : rseq) (ps : list N) : outcome rseq :=
  do q' <- rs_mask_go q ps 0;
  Ok (filter (fun sg => negb (seg_len sg =? 0)) q').

(* slice(offset, len).iter() *)
Fixpoint slice_start (q : rseq) (offset_start : N) : rseq * N :=      (* remaining segments, offset in first *)
  match q with
  | [] => ([], offset_start)
  | sg :: rest => if offset_start <? seg_len sg then (q, offset_start) else slice_start rest (offset_start - seg_len sg)
  end.
Fixpoint slice_end (q : rseq) (offset_last : N) (acc : rseq) : outcome (rseq * N) :=   (* segments..=last, offset_last *)
  match q with
  | [] => Panic                                   (* &self.0[a..=b] out of bounds *)
  | sg :: rest => if offset_last <=? seg_len sg then Ok (acc ++ [sg], offset_last)
                  else slice_end rest (offset_last - seg_len sg) (acc ++ [sg])
  end.
Fixpoint slice_iter_tail (segs : rseq) (offset_last : N) : list N :=    (* segments after the first *)
  match segs with
  | [] => []
  | [sg] => take_N offset_last (seg_iter sg)
  | sg :: rest => seg_iter sg ++ slice_iter_tail rest offset_last
  end.
Definition rs_slice (q : rseq) (offset len : N) : outcome (list N) :=
  if len =? 0 then Ok []
  else
    let '(q1, offset_start) := slice_start q offset in
    do r <- slice_end q1 (offset_start + len) [];
    let '(segs, offset_last) := r in
    match segs with
    | [] => Ok []
    | [sg] => do n <- csub offset_last offset_start; Ok (take_N n (skip_N offset_start (seg_iter sg)))
    | sg :: rest => Ok (skip_N offset_start (seg_iter sg) ++ slice_iter_tail rest offset_last)
    end.

Fixpoint rs_get_go (q : rseq) (index offset : N) : option N :=
  match q with
  | [] => None
  | sg :: rest => if index <? offset + seg_len sg then seg_get sg (index - offset)
                  else rs_get_go rest index (offset + seg_len sg)
  end.
Definition rs_get (q : rseq) (index : N) : option N := rs_get_go q index 0.

(* select: state = (current segment and the ones after it, rows_passed, last_index) *)
Fixpoint select_advance (cur : seg) (rest : rseq) (index rows_passed : N) : option (seg * rseq * N) :=
  if index - rows_passed <? seg_len cur then Some (cur, rest, rows_passed)
  else match rest with
       | [] => None
       | nx :: rest' => select_advance nx rest' index (rows_passed + seg_len cur)
       end.
(* note: `rest` is the structural argument *)
Fixpoint rs_select_go (cur : option (seg * rseq)) (rows_passed last_index : N) (sel : list N) : outcome (list N) :=
  match sel with
  | [] => Ok []
  | index :: sel' =>
      if index <? last_index then Panic
      else match cur with
           | None => rs_select_go None rows_passed index sel'
           | Some (c, rest) =>
               match select_advance c rest index rows_passed with
               | None => rs_select_go None rows_passed index sel'
               | Some (c', rest', rp') =>
                   match seg_get c' (index - rp') with
                   | None => Panic
                   | Some v => do r <- rs_select_go (Some (c', rest')) rp' index sel'; Ok (v :: r)
                   end
               end
           end
  end.
Definition rs_select (q : rseq) (sel : list N) : outcome (list N) :=
  rs_select_go (match q with [] => None | c :: rest => Some (c, rest) end) 0 0 sel.

(* GroupingIterator: consecutive values -> ranges (start, end) *)
Fixpoint group_go (cur : option (N * N)) (l : list N) : list (N * N) :=
  match l with
  | [] => match cur with Some r => [r] | None => [] end
  | id :: l' =>
      match cur with
      | Some (s, e) => if e =? id then group_go (Some (s, id + 1)) l' else (s, e) :: group_go (Some (id, id + 1)) l'
      | None => group_go (Some (id, id + 1)) l'
      end
  end.
Definition group_ranges (l : list N) : list (N * N) := group_go None l.

(* the closure of the RangeWithHoles arm: addr -> offset, skipping the holes passed so far *)
Fixpoint holes_offsets (addrs holes : list N) (passed s base : N) : list N :=
  match addrs with
  | [] => []
  | a :: addrs' =>
      let skipped := take_while (fun h => h <? a) holes in
      let holes' := drop_while (fun h => h <? a) holes in
      let passed' := passed + len_N skipped in
      (a - s + base - passed') :: holes_offsets addrs' holes' passed' s base
  end.
(* the closure of the RangeWithBitmap arm: walks the bitmap up to the position of addr *)
Fixpoint bitmap_offsets (addrs : list N) (s : N) (bits : list bool) (pos passed base : N) : outcome (list N) :=
  match addrs with
  | [] => Ok []
  | a :: addrs' =>
      let p := a - s in
      let n := p - pos in                                 (* bits consumed by the while loop *)
      if len_N bits <? n then Panic                       (* bitmap_iter.next().unwrap() *)
      else
        let passed' := passed + count_false (take_N n bits) in
        let pos' := if pos <? p then p else pos in
        do r <- bitmap_offsets addrs' s (skip_N n bits) pos' passed' base;
        Ok ((p + base - passed') :: r)
  end.

(* ids.remove(hole) for each hole: how many were present (each decrements offset) *)
Fixpoint remove_count (ids holes : list N) : N :=
  match holes with
  | [] => 0
  | h :: hs => if memN h ids then 1 + remove_count (filter (fun x => negb (x =? h)) ids) hs
               else remove_count ids hs
  end.

Section MaskToOffsets.
  Variable selected : N -> bool.

  Fixpoint m2o_go (q : rseq) (offset : N) : outcome (list (N * N)) :=
    match q with
    | [] => Ok []
    | sg :: rest =>
        do here <- (match sg with
          | SRange s e =>
              let ids := filter selected (range_iter s e) in
              Ok (group_ranges (map (fun a => a - s + offset) ids), offset + (e - s))
          | SHoles s e h =>
              let all := range_iter s e in
              let holes := earr_iter h in
              let removed := remove_count all holes in
              let ids := filter selected (filter (fun v => negb (memN v holes)) all) in
              Ok (group_ranges (holes_offsets ids (nsort holes) 0 s offset), offset + (e - s) - removed)
          | SBitmap s e bm =>
              let all := range_iter s e in
              let present := filter (fun v => bm_get bm (v - s)) all in
              let removed := len_N all - len_N present in
              let ids := filter selected present in
              do offs <- bitmap_offsets ids s bm 0 0 offset;
              Ok (group_ranges offs, offset + (e - s) - removed)
          | SSorted a | SArray a =>
              let l := earr_iter a in
              let offs := map (fun p => fst p + offset)
                              (filter (fun p => selected (snd p)) (combine (map N.of_nat (seq 0 (length l))) l)) in
              Ok (group_ranges offs, offset + earr_len a)
          end);
        let '(ranges, offset') := here in
        do r <- m2o_go rest offset';
        Ok (ranges ++ r)
    end.
  Definition rs_mask_to_offset_ranges (q : rseq) : outcome (list (N * N)) := m2o_go q 0.
End MaskToOffsets.

(* rechunk_sequences *)
Fixpoint rechunk_fill (segs : rseq) (segment_offset remaining : N) (acc : rseq) (allow_incomplete : bool)
  : outcome (rseq * rseq * N) :=          (* (chunk, remaining segments, segment_offset) *)
  if remaining =? 0 then Ok (acc, segs, segment_offset)
  else match segs with
       | [] => if allow_incomplete then Ok (acc, [], segment_offset) else Err
       | sg :: rest =>
           do ris <- csub (seg_len sg) segment_offset;
           if ris =? 0 then rechunk_fill rest 0 remaining acc allow_incomplete
           else if remaining <? ris then
             do piece <- seg_slice sg segment_offset remaining;
             Ok (rs_extend acc [piece], segs, segment_offset + remaining)
           else
             do piece <- seg_slice sg segment_offset ris;
             rechunk_fill rest 0 (remaining - ris) (rs_extend acc [piece]) allow_incomplete
       end.

Fixpoint rechunk_go (segs : rseq) (segment_offset : N) (chunk_sizes : list N) (allow_incomplete : bool)
  : outcome (list rseq) :=
  match chunk_sizes with
  | [] => match segs with [] => Ok [] | _ => Err end          (* too many segments *)
  | c :: cs =>
      do r <- rechunk_fill segs segment_offset c [] allow_incomplete;
      let '(chunk, segs', so') := r in
      do more <- rechunk_go segs' so' cs allow_incomplete;
      Ok (chunk :: more)
  end.
Definition rechunk_sequences (seqs : list rseq) (chunk_sizes : list N) (allow_incomplete : bool) : outcome (list rseq) :=
  rechunk_go (concat seqs) 0 chunk_sizes allow_incomplete.

(* select_row_ids *)
Inductive rbp :=
| PIndices (idx : list N)
| PRange (s e : N)
| PRanges (rs : list (N * N))
| PFull
| PTo (e : N)
| PFrom (s : N).

Fixpoint select_indices (q : rseq) (idx : list N) : outcome (list N) :=
  match idx with
  | [] => Ok []
  | i :: is' => match rs_get q i with None => Err | Some v => do r <- select_indices q is'; Ok (v :: r) end
  end.
Fixpoint select_ranges (q : rseq) (rs : list (N * N)) : outcome (list N) :=
  match rs with
  | [] => Ok []
  | (s, e) :: rs' =>
      if rs_len q <? e then Err
      else do n <- csub e s; do a <- rs_slice q s n; do r <- select_ranges q rs'; Ok (a ++ r)
  end.
Definition select_row_ids (q : rseq) (p : rbp) : outcome (list N) :=
  match p with
  | PIndices idx => select_indices q idx
  | PRange s e => if rs_len q <? e then Err else do n <- csub e s; rs_slice q s n
  | PRanges rs => select_ranges q rs
  | PFull => Ok (rs_iter q)
  | PTo e => if rs_len q <? e then Err else rs_slice q 0 e
  | PFrom s => do n <- csub (rs_len q) s; rs_slice q s n
  end.

(* ---------- known-finding classes (DESIGN section 6: F9b, and the hole-count overflow found while modelling) ---------- *)
(* F9b: the exclusive Range<u64> end (max + 1) cannot represent u64::MAX *)
Definition Known_C34_u64max (l : list N) : bool := memN u64max l.
(* an increasing list with so many holes that `24 + 4 * n_holes as usize` overflows (sorted_sequence_sizes) *)
Definition Known_C34_span_overflow (l : list N) : bool :=
  let st := compute_stats l in
  st_sorted st && negb (st_count st =? 0)
  && (two64 <=? 24 + 4 * (st_max st - st_min st + 1 - st_count st)).

(* ---------- equality tests for the checkers ---------- *)
Definition nlist_eqb := list_eqb N.eqb.
Definition earr_eqb (a b : earr) : bool :=
  match a, b with
  | EU16 b1 o1, EU16 b2 o2 | EU32 b1 o1, EU32 b2 o2 => (b1 =? b2) && nlist_eqb o1 o2
  | EU64 v1, EU64 v2 => nlist_eqb v1 v2
  | _, _ => false
  end.
Definition seg_eqb (a b : seg) : bool :=
  match a, b with
  | SRange s1 e1, SRange s2 e2 => (s1 =? s2) && (e1 =? e2)
  | SHoles s1 e1 h1, SHoles s2 e2 h2 => (s1 =? s2) && (e1 =? e2) && earr_eqb h1 h2
  | SBitmap s1 e1 b1, SBitmap s2 e2 b2 => (s1 =? s2) && (e1 =? e2) && list_eqb Bool.eqb b1 b2
  | SSorted a1, SSorted a2 | SArray a1, SArray a2 => earr_eqb a1 a2
  | _, _ => false
  end.
Definition rseq_eqb := list_eqb seg_eqb.
Definition nn_eqb := pair_eqb N.eqb N.eqb.
Definition rseq_wf (q : rseq) : bool := forallb seg_wf q.

(* ---------- correspondence checkers ---------- *)
(* from_slice: the chosen variant and encoding, or a panic *)
Definition chk_from_slice (l : list N) (o : outcome seg) : bool := outcome_eqb seg_eqb (from_slice l) o.

(* accessors of one (well-formed) segment; idxs = indices for get, vals = values for position/contains *)
Definition seg_query_out : Type := N * list N * option (N * N) * list (option N) * list (option N) * list bool.
Definition chk_seg_query (i : seg * list N * list N) (o : seg_query_out) : bool :=
  let '(sg, idxs, vals) := i in
  let '(len, it, rng, gets, poss, conts) := o in
  seg_wf sg
  && (seg_len sg =? len)
  && nlist_eqb (seg_iter sg) it
  && outcome_eqb (option_eqb nn_eqb) (seg_range sg) (Ok rng)
  && list_eqb (option_eqb N.eqb) (map (seg_get sg) idxs) gets
  && list_eqb (option_eqb N.eqb) (map (seg_position sg) vals) poss
  && list_eqb Bool.eqb (map (seg_contains sg) vals) conts.

Inductive segop :=
| OSlice (offset len : N)
| ODelete (vals : list N)
| OMask (positions : list N)
| ONewHigh (val : N).
Definition chk_seg_op (i : seg * segop) (o : outcome seg) : bool :=
  let '(sg, op) := i in
  seg_wf sg &&
  outcome_eqb seg_eqb
    (match op with
     | OSlice a b => seg_slice sg a b
     | ODelete v => seg_delete sg v
     | OMask p => seg_mask sg p
     | ONewHigh v => seg_with_new_high sg v
     end) o.

(* a mask given by its allow / block lists: selected id = (allow = None \/ id in allow) /\ id not in block *)
Definition mask_selected (allow : option (list N)) (block : list N) (id : N) : bool :=
  (match allow with None => true | Some a => memN id a end) && negb (memN id block).

Inductive seqop :=
| QInfo                                   (* len, iter *)
| QExtend (other : rseq)
| QDelete (ids : list N)
| QMask (positions : list N)
| QSlice (offset len : N)
| QGet (idx : list N)
| QSelect (sel : list N)
| QMaskToOffsets (allow : option (list N)) (block : list N)
| QSelectRowIds (p : rbp).
Inductive seqres :=
| RInfo (len : N) (it : list N)
| RSeq (q : rseq)
| RIds (l : list N)
| ROpts (l : list (option N))
| RRanges (l : list (N * N)).
Definition seqres_eqb (a b : seqres) : bool :=
  match a, b with
  | RInfo n1 l1, RInfo n2 l2 => (n1 =? n2) && nlist_eqb l1 l2
  | RSeq q1, RSeq q2 => rseq_eqb q1 q2
  | RIds l1, RIds l2 => nlist_eqb l1 l2
  | ROpts l1, ROpts l2 => list_eqb (option_eqb N.eqb) l1 l2
  | RRanges l1, RRanges l2 => list_eqb nn_eqb l1 l2
  | _, _ => false
  end.
Definition omap {A B} (f : A -> B) (x : outcome A) : outcome B := do a <- x; Ok (f a).
Definition run_seqop (q : rseq) (op : seqop) : outcome seqres :=
  match op with
  | QInfo => Ok (RInfo (rs_len q) (rs_iter q))
  | QExtend other => Ok (RSeq (rs_extend q other))
  | QDelete ids => omap RSeq (rs_delete q ids)
  | QMask ps => omap RSeq (rs_mask q ps)
  | QSlice a b => omap RIds (rs_slice q a b)
  | QGet idx => Ok (ROpts (map (rs_get q) idx))
  | QSelect sel => omap RIds (rs_select q sel)
  | QMaskToOffsets allow block => omap RRanges (rs_mask_to_offset_ranges (mask_selected allow block) q)
  | QSelectRowIds p => omap RIds (select_row_ids q p)
  end.
Definition chk_seq_op (i : rseq * seqop) (o : outcome seqres) : bool :=
  let '(q, op) := i in
  rseq_wf q && (match op with QExtend other => rseq_wf other | _ => true end)
  && outcome_eqb seqres_eqb (run_seqop q op) o.

Definition chk_rechunk (i : list rseq * list N * bool) (o : outcome (list rseq)) : bool :=
  let '(seqs, sizes, allow) := i in
  forallb rseq_wf seqs && outcome_eqb (list_eqb rseq_eqb) (rechunk_sequences seqs sizes allow) o.

(* ---------- the Rust unit tests, run on the model ---------- *)
Example ut_segments :
  from_slice [] = Ok (SRange 0 0) /\ from_slice [42] = Ok (SRange 42 43)
  /\ from_slice (range_iter 100 200) = Ok (SRange 100 200)
  /\ from_slice (filter (fun x => negb (x =? 100)) (range_iter 0 1000)) = Ok (SHoles 0 1000 (EU16 100 [0]))
  /\ from_slice (filter N.even (range_iter 0 1000)) = Ok (SBitmap 0 999 (map N.even (range_iter 0 999)))
  /\ from_slice [1; 7000; 24000] = Ok (SSorted (EU16 1 [0; 6999; 23999]))
  /\ from_slice [7000; 1; 24000] = Ok (SArray (EU16 1 [6999; 0; 23999])).
Proof. vm_compute. repeat split; reflexivity. Qed.

Example ut_new_high :
  seg_with_new_high (SRange 10 20) 20 = Ok (SRange 10 21)
  /\ seg_with_new_high (SRange 10 20) 25 = Ok (SHoles 10 26 (EU64 [20; 21; 22; 23; 24]))
  /\ seg_with_new_high (SHoles 10 20 (EU64 [15; 17])) 25 = Ok (SHoles 10 26 (EU64 [15; 17; 20; 21; 22; 23; 24]))
  /\ seg_with_new_high (SRange 0 0) 5 = Ok (SRange 5 6)
  /\ seg_with_new_high (SRange 10 20) 15 = Err
  /\ seg_with_new_high (SRange 1 6) 5 = Err
  /\ seg_with_new_high (SRange 0 3) u64max = Panic.
Proof. vm_compute. repeat split; reflexivity. Qed.

Example ut_delete_mask :
  rs_delete [SRange 0 10] [1; 3; 5; 7; 9] = Ok [SBitmap 0 9 [true; false; true; false; true; false; true; false; true]]
  /\ rs_delete (rs_extend [SRange 0 10] [SRange 12 20]) [0; 9; 10; 11; 12; 13] = Ok [SRange 1 9; SRange 14 20]
  /\ rs_delete [SRange 0 10] (range_iter 0 10) = Ok [SRange 0 0]
  /\ rs_mask [SRange 0 5; SHoles 50 60 (EU16 53 [0; 1]); SSorted (EU16 7 [0; 2]);
              SBitmap 10 15 [true; false; true; false; true]; SArray (EU16 35 [0; 4])] [4; 8; 13; 16; 19]
     = Ok [SRange 0 4; SBitmap 50 60 [true; true; true; false; false; false; true; true; true; true];
           SRange 9 10; SBitmap 10 15 [true; false; false; false; true]; SArray (EU16 35 [0])]
  /\ rs_mask [SRange 0 5; SSorted (EU16 7 [0; 2])] (range_iter 0 7) = Ok [].
Proof. vm_compute. repeat split; reflexivity. Qed.

Example ut_m2o :
  let evens := mask_selected (Some [0; 2; 4; 6; 8]) [] in
  rs_mask_to_offset_ranges evens [SRange 0 10] = Ok [(0, 1); (2, 3); (4, 5); (6, 7); (8, 9)]
  /\ rs_mask_to_offset_ranges (mask_selected None [54]) [SRange 40 60] = Ok [(0, 14); (15, 20)]
  /\ rs_mask_to_offset_ranges evens [SHoles 0 10 (EU16 2 [0; 4])] = Ok [(0, 1); (3, 4); (6, 7)]
  /\ rs_mask_to_offset_ranges (mask_selected None [44]) [SHoles 40 60 (EU16 43 [4; 0])] = Ok [(0, 3); (4, 18)]
  /\ rs_mask_to_offset_ranges evens [SBitmap 0 10 [true; true; false; false; true; true; true; true; false; false]]
     = Ok [(0, 1); (2, 3); (4, 5)]
  /\ rs_mask_to_offset_ranges (mask_selected (Some [0; 6; 8]) []) [SArray (EU16 0 [8; 2; 6; 0; 4])] = Ok [(0, 1); (2, 4)]
  /\ rs_mask_to_offset_ranges (mask_selected (Some [0; 2; 46; 100; 104]) [])
       [SRange 0 5; SHoles 100 105 (EU16 103 [0]); SSorted (EU16 44 [0; 2; 34])]
     = Ok [(0, 1); (2, 3); (5, 6); (8, 9); (10, 11)].
Proof. vm_compute. repeat split; reflexivity. Qed.

Example ut_select_rechunk :
  rs_select [SRange 0 5; SRange 10 15; SRange 20 25] [2; 4; 13; 14; 57] = Ok [2; 4; 23; 24]
  /\ rs_select [SRange 0 5; SRange 10 15; SRange 20 25] [2; 4; 3] = Panic
  /\ rechunk_sequences [[SRange 0 5; SRange 35 40]; [SRange 10 18]; [SRange 18 28]; [SRange 28 30]] [10; 20] false
     = Ok [[SRange 0 5; SRange 35 40]; [SRange 10 30]]
  /\ rechunk_sequences [[SRange 0 5; SRange 35 40]; [SRange 10 30]] [10; 8; 10; 2] false
     = Ok [[SRange 0 5; SRange 35 40]; [SRange 10 18]; [SRange 18 28]; [SRange 28 30]]
  /\ rechunk_sequences [[SRange 0 5; SRange 35 40]; [SRange 10 30]] [100] false = Err
  /\ rechunk_sequences [[SRange 0 5; SRange 35 40]; [SRange 10 30]] [5] false = Err
  /\ rechunk_sequences [[SRange 0 2]; [SRange 10 10]; [SRange 20 22]] [3; 1] false = Ok [[SRange 0 2; SRange 20 21]; [SRange 21 22]]
  /\ rechunk_sequences [[SRange 0 2]; [SRange 10 10]] [5] true = Ok [[SRange 0 2]].
Proof. vm_compute. repeat split; reflexivity. Qed.
