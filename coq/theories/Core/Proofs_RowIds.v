(* C34 - proofs about Core/Model_RowIds.v *)
From LanceV Require Import Common.Base Core.Model_RowIds.
Local Open Scope N_scope.

Lemma nrange_length : forall n s, length (nrange s n) = n.
Proof. induction n as [|n IH]; intro s; cbn [nrange length]; [reflexivity | rewrite IH; reflexivity]. Qed.
