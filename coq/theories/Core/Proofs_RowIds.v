(* C34 - proofs about Core/Model_RowIds.v *)
From LanceV Require Import Common.Base Core.Model_RowIds.
Local Open Scope N_scope.

(* ------------------------------------------------------------------ *)
(* generic list facts                                                  *)
(* ------------------------------------------------------------------ *)
Lemma memN_In : forall v l, memN v l = true <-> In v l.
Proof.
  intros v l. unfold memN. rewrite existsb_exists. split.
  - intros [x [Hin Heq]]. apply N.eqb_eq in Heq. subst. exact Hin.
  - intro Hin. exists v. split; [exact Hin | apply N.eqb_refl].
Qed.

Lemma memN_false : forall v l, memN v l = false <-> ~ In v l.
Proof.
  intros v l. rewrite <- memN_In. destruct (memN v l); split; intro H;
    [discriminate | exfalso; apply H; reflexivity | intro; discriminate | reflexivity].
Qed.

Lemma len_N_app {A} : forall (l1 l2 : list A), len_N (l1 ++ l2) = len_N l1 + len_N l2.
Proof. intros. unfold len_N. rewrite app_length. lia. Qed.

Lemma len_N_cons {A} : forall (x : A) l, len_N (x :: l) = 1 + len_N l.
Proof. intros. unfold len_N. cbn [length]. lia. Qed.

Lemma len_N_nil {A} : len_N (@nil A) = 0.
Proof. reflexivity. Qed.

Lemma nth_N_0 {A} : forall (x : A) l, nth_N (x :: l) 0 = Some x.
Proof. reflexivity. Qed.

Lemma nth_N_succ {A} : forall (x : A) l i, nth_N (x :: l) (i + 1) = nth_N l i.
Proof. intros. unfold nth_N. replace (N.to_nat (i + 1)) with (S (N.to_nat i)) by lia. reflexivity. Qed.

Lemma nth_N_pos {A} : forall (x : A) l i, 0 < i -> nth_N (x :: l) i = nth_N l (i - 1).
Proof. intros. replace i with (i - 1 + 1) at 1 by lia. apply nth_N_succ. Qed.

Lemma nth_N_none {A} : forall (l : list A) i, len_N l <= i -> nth_N l i = None.
Proof. intros l i H. unfold nth_N, len_N in *. apply nth_error_None. lia. Qed.

Lemma nth_N_some {A} : forall (l : list A) i, i < len_N l -> exists x, nth_N l i = Some x.
Proof.
  intros l i H. unfold nth_N, len_N in *. destruct (nth_error l (N.to_nat i)) eqn:E; [eauto|].
  apply nth_error_None in E. lia.
Qed.

(* ------------------------------------------------------------------ *)
(* nrange / range_iter                                                 *)
(* ------------------------------------------------------------------ *)
Lemma nrange_length : forall n s, length (nrange s n) = n.
Proof. induction n as [|n IH]; intro s; cbn [nrange length]; [reflexivity | rewrite IH; reflexivity]. Qed.

Lemma nrange_In : forall n s v, In v (nrange s n) <-> s <= v < s + N.of_nat n.
Proof.
  induction n as [|n IH]; intros s v; cbn [nrange In].
  - split; [intros [] | lia].
  - rewrite IH. lia.
Qed.

Lemma nrange_app : forall n m s, nrange s (n + m) = nrange s n ++ nrange (s + N.of_nat n) m.
Proof.
  induction n as [|n IH]; intros m s; cbn [nrange Nat.add app].
  - f_equal. lia.
  - rewrite IH. do 3 f_equal. lia.
Qed.

Lemma nrange_nth : forall n s i, (i < n)%nat -> nth_error (nrange s n) i = Some (s + N.of_nat i).
Proof.
  induction n as [|n IH]; intros s i Hi; [lia|].
  destruct i as [|i]; cbn [nrange nth_error].
  - f_equal. lia.
  - rewrite IH by lia. f_equal. lia.
Qed.

Lemma range_iter_In : forall s e v, In v (range_iter s e) <-> s <= v < e.
Proof. intros. unfold range_iter. rewrite nrange_In. lia. Qed.

Lemma range_iter_len : forall s e, len_N (range_iter s e) = e - s.
Proof. intros. unfold range_iter, len_N. rewrite nrange_length. lia. Qed.

Lemma range_iter_empty : forall s e, e <= s -> range_iter s e = [].
Proof. intros. unfold range_iter. replace (N.to_nat (e - s)) with O by lia. reflexivity. Qed.

Lemma range_iter_cons : forall s e, s < e -> range_iter s e = s :: range_iter (s + 1) e.
Proof.
  intros. unfold range_iter. replace (N.to_nat (e - s)) with (S (N.to_nat (e - (s + 1)))) by lia. reflexivity.
Qed.

Lemma range_iter_split : forall s m e, s <= m <= e -> range_iter s e = range_iter s m ++ range_iter m e.
Proof.
  intros. unfold range_iter. replace (N.to_nat (e - s)) with (N.to_nat (m - s) + N.to_nat (e - m))%nat by lia.
  rewrite nrange_app. do 2 f_equal. lia.
Qed.

Lemma range_iter_snoc : forall s e, s <= e -> range_iter s (e + 1) = range_iter s e ++ [e].
Proof.
  intros. rewrite (range_iter_split s e (e + 1)) by lia. f_equal.
  rewrite range_iter_cons by lia. rewrite range_iter_empty by lia. reflexivity.
Qed.

Lemma range_iter_nth : forall s e i, i < e - s -> nth_N (range_iter s e) i = Some (s + i).
Proof.
  intros. unfold nth_N, range_iter. rewrite nrange_nth by lia. f_equal. lia.
Qed.

(* ------------------------------------------------------------------ *)
(* strictly increasing lists                                           *)
(* ------------------------------------------------------------------ *)
Inductive sincr : list N -> Prop :=
| sincr_nil : sincr []
| sincr_one : forall x, sincr [x]
| sincr_cons : forall x y l, x < y -> sincr (y :: l) -> sincr (x :: y :: l).

Lemma strict_sorted_sincr : forall l, strict_sorted l = true <-> sincr l.
Proof.
  induction l as [|x l IH]; [split; [constructor | reflexivity]|].
  destruct l as [|y l]; [split; [constructor | reflexivity]|].
  change (strict_sorted (x :: y :: l)) with ((x <? y) && strict_sorted (y :: l)).
  rewrite andb_true_iff, IH, N.ltb_lt. split.
  - intros [H1 H2]. constructor; assumption.
  - intro H. inversion H; subst. split; assumption.
Qed.

Lemma sincr_tail : forall x l, sincr (x :: l) -> sincr l.
Proof. intros x l H. inversion H; subst; [constructor | assumption]. Qed.

Lemma sincr_head_lt : forall x l, sincr (x :: l) -> forall y, In y l -> x < y.
Proof.
  intros x l. revert x. induction l as [|z l IH]; intros x H y Hy; [destruct Hy|].
  inversion H; subst. destruct Hy as [<- | Hy]; [assumption|].
  specialize (IH z H4 y Hy). lia.
Qed.

Lemma sincr_cons_iff : forall x l, sincr (x :: l) <-> (sincr l /\ forall y, In y l -> x < y).
Proof.
  intros x l. split.
  - intro H. split; [eapply sincr_tail; eauto | apply sincr_head_lt; assumption].
  - intros [H1 H2]. destruct l as [|y l]; constructor; [apply H2; left; reflexivity | assumption].
Qed.

Lemma sincr_NoDup : forall l, sincr l -> NoDup l.
Proof.
  induction l as [|x l IH]; intro H; [constructor|].
  apply sincr_cons_iff in H as [H1 H2]. constructor; [|apply IH; assumption].
  intro Hin. specialize (H2 x Hin). lia.
Qed.

Lemma sincr_app : forall l1 l2, sincr l1 -> sincr l2 -> (forall a b, In a l1 -> In b l2 -> a < b) -> sincr (l1 ++ l2).
Proof.
  induction l1 as [|x l1 IH]; intros l2 H1 H2 H; [assumption|].
  cbn [app]. apply sincr_cons_iff. apply sincr_cons_iff in H1 as [H1a H1b]. split.
  - apply IH; [assumption | assumption |]. intros a b Ha Hb. apply H; [right; assumption | assumption].
  - intros y Hy. apply in_app_or in Hy as [Hy | Hy]; [apply H1b; assumption | apply H; [left; reflexivity | assumption]].
Qed.

Lemma sincr_app_inv : forall l1 l2, sincr (l1 ++ l2) ->
  sincr l1 /\ sincr l2 /\ (forall a b, In a l1 -> In b l2 -> a < b).
Proof.
  induction l1 as [|x l1 IH]; intros l2 H.
  - split; [constructor|]. split; [assumption|]. intros a b [].
  - cbn [app] in H. apply sincr_cons_iff in H as [H1 H2]. destruct (IH l2 H1) as [Ha [Hb Hc]].
    split; [|split; [assumption|]].
    + apply sincr_cons_iff. split; [assumption|]. intros y Hy. apply H2. apply in_or_app. left; assumption.
    + intros a b [<- | Ha'] Hb'; [apply H2; apply in_or_app; right; assumption | apply Hc; assumption].
Qed.

Lemma sincr_nrange : forall n s, sincr (nrange s n).
Proof.
  induction n as [|n IH]; intro s; [constructor|].
  cbn [nrange]. apply sincr_cons_iff. split; [apply IH|]. intros y Hy. apply nrange_In in Hy. lia.
Qed.

Lemma sincr_range_iter : forall s e, sincr (range_iter s e).
Proof. intros. apply sincr_nrange. Qed.

Lemma sincr_filter : forall p l, sincr l -> sincr (filter p l).
Proof.
  intros p. induction l as [|x l IH]; intro H; [constructor|].
  apply sincr_cons_iff in H as [H1 H2]. cbn [filter]. destruct (p x); [|apply IH; assumption].
  apply sincr_cons_iff. split; [apply IH; assumption|]. intros y Hy. apply filter_In in Hy as [Hy _]. apply H2; assumption.
Qed.

Lemma sincr_firstn : forall n l, sincr l -> sincr (firstn n l).
Proof.
  intros n l H. rewrite <- (firstn_skipn n l) in H. apply sincr_app_inv in H. tauto.
Qed.

Lemma sincr_skipn : forall n l, sincr l -> sincr (skipn n l).
Proof.
  intros n l H. rewrite <- (firstn_skipn n l) in H. apply sincr_app_inv in H. tauto.
Qed.

(* two strictly increasing lists with the same elements are equal *)
Lemma sincr_ext : forall l1 l2, sincr l1 -> sincr l2 -> (forall v, In v l1 <-> In v l2) -> l1 = l2.
Proof.
  induction l1 as [|x l1 IH]; intros l2 H1 H2 H.
  - destruct l2 as [|y l2]; [reflexivity|]. exfalso. apply (H y). left; reflexivity.
  - destruct l2 as [|y l2]; [exfalso; apply (H x); left; reflexivity|].
    apply sincr_cons_iff in H1 as [H1a H1b]. apply sincr_cons_iff in H2 as [H2a H2b].
    assert (x = y).
    { assert (Hx : In x (y :: l2)) by (apply H; left; reflexivity).
      assert (Hy : In y (x :: l1)) by (apply H; left; reflexivity).
      destruct Hx as [Hx | Hx]; [symmetry; assumption|]. destruct Hy as [Hy | Hy]; [assumption|].
      specialize (H1b y Hy). specialize (H2b x Hx). lia. }
    subst y. f_equal. apply IH; [assumption | assumption |].
    intro v. split; intro Hv.
    + assert (Hv' : In v (x :: l2)) by (apply H; right; assumption).
      destruct Hv' as [<- | Hv']; [specialize (H1b x Hv); lia | assumption].
    + assert (Hv' : In v (x :: l1)) by (apply H; right; assumption).
      destruct Hv' as [<- | Hv']; [specialize (H2b x Hv); lia | assumption].
Qed.

(* a strictly increasing list inside a range is the range filtered by membership *)
Lemma sincr_filter_range : forall l s e, sincr l -> (forall v, In v l -> s <= v < e) ->
  filter (fun v => memN v l) (range_iter s e) = l.
Proof.
  intros l s e Hl Hin. apply sincr_ext; [apply sincr_filter, sincr_range_iter | assumption |].
  intro v. rewrite filter_In, range_iter_In, memN_In. split; [tauto|]. intro Hv. split; [apply Hin; assumption | assumption].
Qed.

(* ------------------------------------------------------------------ *)
(* find_index / index_of                                               *)
(* ------------------------------------------------------------------ *)
Lemma index_of_cons : forall v x l, index_of v (x :: l) =
  if v =? x then Some 0 else match index_of v l with Some i => Some (i + 1) | None => None end.
Proof. reflexivity. Qed.

Lemma index_of_none : forall v l, index_of v l = None <-> ~ In v l.
Proof.
  intros v l. induction l as [|x l IH]; [split; [intros _ [] | reflexivity]|].
  rewrite index_of_cons. destruct (N.eqb_spec v x) as [->|Hne].
  - split; [discriminate | intro H; exfalso; apply H; left; reflexivity].
  - destruct (index_of v l) eqn:E.
    + split; [discriminate|]. intro H. exfalso. destruct IH as [_ IH2].
      assert (Hn : ~ In v l) by (intro; apply H; right; assumption). specialize (IH2 Hn). discriminate.
    + split; [|reflexivity]. intros _ [Hx | Hx]; [congruence | apply IH in Hx; [assumption | reflexivity]].
Qed.

Lemma index_of_some_nth : forall v l i, index_of v l = Some i -> nth_N l i = Some v.
Proof.
  intros v l. induction l as [|x l IH]; intros i H; [discriminate|].
  rewrite index_of_cons in H. destruct (N.eqb_spec v x) as [->|Hne].
  - inversion H; subst. reflexivity.
  - destruct (index_of v l) as [j|] eqn:E; [|discriminate]. inversion H; subst. rewrite nth_N_succ. apply IH. reflexivity.
Qed.

Lemma index_of_is_some : forall v l, is_some (index_of v l) = memN v l.
Proof.
  intros v l. destruct (index_of v l) eqn:E; cbn [is_some]; symmetry.
  - apply memN_In. apply index_of_some_nth in E. unfold nth_N in E. eapply nth_error_In; eauto.
  - apply memN_false. apply index_of_none. assumption.
Qed.

Lemma index_of_map_add : forall b v o, index_of (b + v) (map (N.add b) o) = index_of v o.
Proof.
  intros b v o. induction o as [|x o IH]; [reflexivity|].
  cbn [map]. rewrite !index_of_cons, IH.
  destruct (N.eqb_spec (b + v) (b + x)), (N.eqb_spec v x); try reflexivity; lia.
Qed.

Lemma index_of_app_l : forall v l1 l2, In v l1 -> index_of v (l1 ++ l2) = index_of v l1.
Proof.
  intros v l1 l2. induction l1 as [|x l1 IH]; intro H; [destruct H|].
  cbn [app]. rewrite !index_of_cons. destruct (N.eqb_spec v x); [reflexivity|].
  destruct H as [H | H]; [congruence|]. rewrite IH by assumption. reflexivity.
Qed.

Lemma index_of_app_r : forall v l1 l2, ~ In v l1 ->
  index_of v (l1 ++ l2) = match index_of v l2 with Some i => Some (len_N l1 + i) | None => None end.
Proof.
  intros v l1 l2. induction l1 as [|x l1 IH]; intro H.
  - cbn [app]. destruct (index_of v l2); [f_equal; rewrite len_N_nil; lia | reflexivity].
  - cbn [app]. rewrite index_of_cons. destruct (N.eqb_spec v x); [exfalso; apply H; left; congruence|].
    rewrite IH by (intro; apply H; right; assumption).
    destruct (index_of v l2); [f_equal; rewrite len_N_cons; lia | reflexivity].
Qed.


Lemma index_of_range : forall s e v, s <= v < e -> index_of v (range_iter s e) = Some (v - s).
Proof.
  intros s e v H. rewrite (range_iter_split s v e) by lia.
  rewrite index_of_app_r by (rewrite range_iter_In; lia).
  rewrite (range_iter_cons v e) by lia. rewrite index_of_cons, N.eqb_refl. rewrite range_iter_len. f_equal. lia.
Qed.

Lemma index_of_filter_range : forall p s e v, p v = true -> s <= v < e ->
  index_of v (filter p (range_iter s e)) = Some (len_N (filter p (range_iter s v))).
Proof.
  intros p s e v Hp H. rewrite (range_iter_split s v e) by lia. rewrite filter_app.
  rewrite index_of_app_r by (rewrite filter_In, range_iter_In; lia).
  rewrite (range_iter_cons v e) by lia. cbn [filter]. rewrite Hp. rewrite index_of_cons, N.eqb_refl. f_equal. lia.
Qed.

Lemma index_of_filter_none : forall p l v, p v = false -> index_of v (filter p l) = None.
Proof. intros. apply index_of_none. rewrite filter_In. intros [_ H1]. congruence. Qed.

Lemma filter_len_le {A} : forall (p : A -> bool) l, len_N (filter p l) <= len_N l.
Proof.
  intros p l. induction l as [|x l IH]; [reflexivity|]. cbn [filter]. destruct (p x); rewrite ?len_N_cons; lia.
Qed.

Lemma filter_len_split {A} : forall (p : A -> bool) l, len_N (filter p l) + len_N (filter (fun x => negb (p x)) l) = len_N l.
Proof.
  intros p l. induction l as [|x l IH]; [reflexivity|]. cbn [filter]. destruct (p x); cbn [negb]; rewrite ?len_N_cons; lia.
Qed.

Lemma filter_ext_in {A} : forall (p q : A -> bool) l, (forall x, In x l -> p x = q x) -> filter p l = filter q l.
Proof.
  intros p q l. induction l as [|x l IH]; intro H; [reflexivity|].
  cbn [filter]. rewrite (H x) by (left; reflexivity). rewrite IH by (intros; apply H; right; assumption). reflexivity.
Qed.

Lemma filter_map_len {A B} : forall (f : B -> bool) (g : A -> B) l,
  len_N (filter (fun x => f (g x)) l) = len_N (filter f (map g l)).
Proof.
  intros f g l. induction l as [|x l IH]; [reflexivity|]. cbn [filter map]. destruct (f (g x)); rewrite ?len_N_cons; lia.
Qed.

(* take_while on a strictly increasing list is a filter *)
Lemma take_while_lt_sincr : forall l v, sincr l -> take_while (fun h => h <? v) l = filter (fun h => h <? v) l.
Proof.
  induction l as [|x l IH]; intros v H; [reflexivity|].
  apply sincr_cons_iff in H as [H1 H2]. cbn [take_while filter]. destruct (N.ltb_spec x v).
  - f_equal. apply IH. assumption.
  - symmetry. clear IH H1. induction l as [|y l IH]; [reflexivity|].
    cbn [filter]. assert (x < y) by (apply H2; left; reflexivity).
    destruct (N.ltb_spec y v); [lia|]. apply IH. intros z Hz. apply H2. right. assumption.
Qed.

Lemma drop_while_lt_sincr : forall l v, sincr l -> drop_while (fun h => h <? v) l = filter (fun h => negb (h <? v)) l.
Proof.
  induction l as [|x l IH]; intros v H; [reflexivity|].
  pose proof H as H0. apply sincr_cons_iff in H as [H1 H2]. cbn [drop_while filter]. destruct (N.ltb_spec x v); cbn [negb].
  - apply IH. assumption.
  - f_equal. symmetry. clear IH H1 H0. induction l as [|y l IH]; [reflexivity|].
    cbn [filter]. assert (x < y) by (apply H2; left; reflexivity).
    destruct (N.ltb_spec y v); [lia|]. cbn [negb]. f_equal. apply IH. intros z Hz. apply H2. right. assumption.
Qed.

(* ------------------------------------------------------------------ *)
(* EncodedU64Array                                                     *)
(* ------------------------------------------------------------------ *)
Lemma list_min_le : forall l m, list_min l = Some m -> forall x, In x l -> m <= x.
Proof.
  induction l as [|y l IH]; intros m H x Hx; [destruct Hx|].
  cbn [list_min] in H. destruct (list_min l) as [m'|] eqn:E.
  - inversion H; subst. destruct Hx as [<- | Hx]; [lia|]. specialize (IH m' eq_refl x Hx). lia.
  - inversion H; subst. destruct l; [|cbn [list_min] in E; destruct (list_min l); discriminate].
    destruct Hx as [<- | []]. lia.
Qed.

Lemma list_max_ge : forall l m, list_max l = Some m -> forall x, In x l -> x <= m.
Proof.
  induction l as [|y l IH]; intros m H x Hx; [destruct Hx|].
  cbn [list_max] in H. destruct (list_max l) as [m'|] eqn:E.
  - inversion H; subst. destruct Hx as [<- | Hx]; [lia|]. specialize (IH m' eq_refl x Hx). lia.
  - inversion H; subst. destruct l; [|cbn [list_max] in E; destruct (list_max l); discriminate].
    destruct Hx as [<- | []]. lia.
Qed.

Lemma list_min_in : forall l m, list_min l = Some m -> In m l.
Proof.
  induction l as [|y l IH]; intros m H; [discriminate|].
  cbn [list_min] in H. destruct (list_min l) as [m'|] eqn:E; inversion H; subst; [|left; reflexivity].
  destruct (N.min_spec y m') as [[_ ->] | [_ ->]]; [left; reflexivity | right; apply IH; reflexivity].
Qed.

Lemma list_max_in : forall l m, list_max l = Some m -> In m l.
Proof.
  induction l as [|y l IH]; intros m H; [discriminate|].
  cbn [list_max] in H. destruct (list_max l) as [m'|] eqn:E; inversion H; subst; [|left; reflexivity].
  destruct (N.max_spec y m') as [[_ ->] | [_ ->]]; [right; apply IH; reflexivity | left; reflexivity].
Qed.

Lemma list_min_some : forall l, l <> [] -> exists m, list_min l = Some m.
Proof. intros [|x l] H; [congruence|]. cbn [list_min]. destruct (list_min l); eauto. Qed.
Lemma list_max_some : forall l, l <> [] -> exists m, list_max l = Some m.
Proof. intros [|x l] H; [congruence|]. cbn [list_max]. destruct (list_max l); eauto. Qed.

Lemma map_add_sub : forall mn l, (forall x, In x l -> mn <= x) -> map (N.add mn) (map (fun v => v - mn) l) = l.
Proof.
  intros mn l H. rewrite map_map. rewrite <- (map_id l) at 2. apply map_ext_in. intros x Hx. specialize (H x Hx). lia.
Qed.

Lemma earr_of_list_iter : forall l, earr_iter (earr_of_list l) = l.
Proof.
  intros l. unfold earr_of_list. destruct l as [|x l]; [reflexivity|].
  set (l' := x :: l). destruct (list_min_some l') as [mn Hmn]; [discriminate|]. rewrite Hmn. cbn [or0].
  pose proof (list_min_le _ _ Hmn) as Hle.
  destruct (_ <=? 65535); [|destruct (_ <=? 4294967295)]; cbn [earr_iter]; try apply map_add_sub; try assumption. reflexivity.
Qed.

Lemma earr_of_list_wf : forall l, Forall (fun x => x < two64) l -> earr_wf (earr_of_list l) = true.
Proof.
  intros l Hl. unfold earr_of_list. destruct l as [|x l]; [reflexivity|].
  set (l' := x :: l) in *. destruct (list_min_some l') as [mn Hmn]; [discriminate|].
  destruct (list_max_some l') as [mx Hmx]; [discriminate|]. rewrite Hmn, Hmx. cbn [or0].
  pose proof (list_min_le _ _ Hmn) as Hle. pose proof (list_max_ge _ _ Hmx) as Hge.
  rewrite Forall_forall in Hl.
  destruct (N.leb_spec (mx - mn) 65535); [|destruct (N.leb_spec (mx - mn) 4294967295)]; cbn [earr_wf];
    apply forallb_forall; intros y Hy.
  - apply in_map_iff in Hy as [z [<- Hz]]. specialize (Hle z Hz). specialize (Hge z Hz). specialize (Hl z Hz).
    apply andb_true_iff. split; [apply N.leb_le | apply N.ltb_lt]; lia.
  - apply in_map_iff in Hy as [z [<- Hz]]. specialize (Hle z Hz). specialize (Hge z Hz). specialize (Hl z Hz).
    apply andb_true_iff. split; [apply N.leb_le | apply N.ltb_lt]; lia.
  - apply N.ltb_lt. apply Hl. assumption.
Qed.

Lemma earr_len_iter : forall a, earr_len a = len_N (earr_iter a).
Proof. intros [b o | b o | v]; cbn [earr_len earr_iter]; unfold len_N; rewrite ?map_length; reflexivity. Qed.

Lemma earr_get_iter : forall a i, earr_get a i = nth_N (earr_iter a) i.
Proof.
  intros [b o | b o | v] i; cbn [earr_get earr_iter]; unfold nth_N; rewrite ?nth_error_map;
    try (destruct (nth_error o (N.to_nat i)); reflexivity). reflexivity.
Qed.

Lemma earr_bsearch_iter : forall a v, earr_wf a = true -> earr_bsearch a v = index_of v (earr_iter a).
Proof.
  intros [b o | b o | vs] v Hwf; cbn [earr_bsearch earr_iter earr_wf] in *; [| |reflexivity].
  - destruct (N.ltb_spec v b).
    + symmetry. apply index_of_none. rewrite in_map_iff. intros [x [Hx _]]. lia.
    + destruct (N.ltb_spec 65535 (v - b)).
      * symmetry. apply index_of_none. rewrite in_map_iff. intros [x [Hx Hin]].
        rewrite forallb_forall in Hwf. specialize (Hwf x Hin). apply andb_true_iff in Hwf as [Hw _]. apply N.leb_le in Hw. lia.
      * replace v with (b + (v - b)) at 2 by lia. rewrite index_of_map_add. reflexivity.
  - destruct (N.ltb_spec v b).
    + symmetry. apply index_of_none. rewrite in_map_iff. intros [x [Hx _]]. lia.
    + destruct (N.ltb_spec 4294967295 (v - b)).
      * symmetry. apply index_of_none. rewrite in_map_iff. intros [x [Hx Hin]].
        rewrite forallb_forall in Hwf. specialize (Hwf x Hin). apply andb_true_iff in Hwf as [Hw _]. apply N.leb_le in Hw. lia.
      * replace v with (b + (v - b)) at 2 by lia. rewrite index_of_map_add. reflexivity.
Qed.

Lemma earr_wf_lt : forall a x, earr_wf a = true -> In x (earr_iter a) -> x < two64.
Proof.
  intros [b o | b o | vs] x Hwf Hx; cbn [earr_wf earr_iter] in *; rewrite forallb_forall in Hwf.
  - apply in_map_iff in Hx as [y [<- Hy]]. specialize (Hwf y Hy). apply andb_true_iff in Hwf as [_ Hw]. apply N.ltb_lt in Hw. assumption.
  - apply in_map_iff in Hx as [y [<- Hy]]. specialize (Hwf y Hy). apply andb_true_iff in Hwf as [_ Hw]. apply N.ltb_lt in Hw. assumption.
  - apply N.ltb_lt. apply Hwf. assumption.
Qed.

(* ------------------------------------------------------------------ *)
(* accessors of a well-formed segment agree with its list view         *)
(* ------------------------------------------------------------------ *)
Lemma map_bm_get_range : forall bm s v, v - s <= len_N bm -> s <= v ->
  map (fun x => bm_get bm (x - s)) (range_iter s v) = take_N (v - s) bm.
Proof.
  intros bm s v. remember (N.to_nat (v - s)) as n eqn:En. revert bm s v En.
  induction n as [|n IH]; intros bm s v En Hlen Hsv.
  - unfold take_N. rewrite <- En. rewrite range_iter_empty by lia. reflexivity.
  - destruct bm as [|b bm]; [rewrite len_N_nil in Hlen; lia|].
    rewrite range_iter_cons by lia. cbn [map]. unfold take_N. rewrite <- En. cbn [firstn].
    f_equal; [unfold bm_get; replace (N.to_nat (s - s)) with O by lia; reflexivity|].
    rewrite len_N_cons in Hlen.
    specialize (IH bm (s + 1) v). unfold take_N in IH. replace (N.to_nat (v - (s + 1))) with n in IH by lia.
    rewrite <- IH by lia. apply map_ext_in. intros x Hx. apply range_iter_In in Hx.
    unfold bm_get. replace (N.to_nat (x - s)) with (S (N.to_nat (x - (s + 1)))) by lia. reflexivity.
Qed.

Definition holes_sorted_in (s e : N) (h : earr) : Prop :=
  earr_wf h = true /\ sincr (earr_iter h) /\ forall x, In x (earr_iter h) -> s <= x < e.

Lemma seg_wf_holes : forall s e h, seg_wf (SHoles s e h) = true ->
  s < e /\ e < two64 /\ holes_sorted_in s e h.
Proof.
  intros s e h H. cbn [seg_wf] in H. repeat (apply andb_true_iff in H as [H ?]).
  apply N.ltb_lt in H. apply N.ltb_lt in H3. split; [assumption|]. split; [assumption|].
  split; [assumption|]. split; [apply strict_sorted_sincr; assumption|].
  intros x Hx. rewrite forallb_forall in H0. specialize (H0 x Hx). unfold in_range in H0.
  apply andb_true_iff in H0 as [Ha Hb]. apply N.leb_le in Ha. apply N.ltb_lt in Hb. lia.
Qed.

Lemma holes_iter : forall s e h, earr_wf h = true ->
  seg_iter (SHoles s e h) = filter (fun v => negb (memN v (earr_iter h))) (range_iter s e).
Proof.
  intros. cbn [seg_iter]. apply filter_ext. intro v. rewrite earr_bsearch_iter by assumption. rewrite index_of_is_some. reflexivity.
Qed.

Lemma holes_count : forall s e hs v, sincr hs -> (forall x, In x hs -> s <= x < e) -> s <= v <= e ->
  len_N (filter (fun x => memN x hs) (range_iter s v)) = len_N (filter (fun x => x <? v) hs).
Proof.
  intros s e hs v Hs Hin Hv. f_equal. apply sincr_ext.
  - apply sincr_filter, sincr_range_iter.
  - apply sincr_filter. assumption.
  - intro x. rewrite !filter_In, range_iter_In, memN_In, N.ltb_lt. split; [tauto|].
    intros [H1 H2]. specialize (Hin x H1). split; [lia | assumption].
Qed.

Lemma seg_len_iter : forall sg, seg_wf sg = true -> seg_len sg = len_N (seg_iter sg).
Proof.
  intros [s e | s e h | s e bm | a | a] Hwf; cbn [seg_len].
  - cbn [seg_iter]. rewrite range_iter_len. reflexivity.
  - apply seg_wf_holes in Hwf as [Hse [He [Hw [Hs Hin]]]]. rewrite holes_iter by assumption.
    pose proof (filter_len_split (fun v => memN v (earr_iter h)) (range_iter s e)) as Hsplit.
    rewrite range_iter_len in Hsplit.
    rewrite (holes_count s e (earr_iter h) e Hs Hin) in Hsplit by lia.
    replace (filter (fun x => x <? e) (earr_iter h)) with (earr_iter h) in Hsplit.
    + lia.
    + symmetry. rewrite <- (filter_ext_in (fun _ => true)); [clear; induction (earr_iter h) as [|x l IH]; [reflexivity | cbn [filter]; f_equal; assumption]|].
      intros x Hx. specialize (Hin x Hx). symmetry. apply N.ltb_lt. lia.
  - cbn [seg_wf] in Hwf. repeat (apply andb_true_iff in Hwf as [Hwf ?]). apply N.ltb_lt in Hwf. apply N.eqb_eq in H.
    cbn [seg_iter]. rewrite filter_map_len with (f := fun b : bool => b).
    rewrite map_bm_get_range by lia. unfold take_N. rewrite firstn_all2 by (unfold len_N in H; lia).
    unfold count_true. pose proof (filter_len_le (fun b : bool => b) bm). lia.
  - cbn [seg_iter]. apply earr_len_iter.
  - cbn [seg_iter]. apply earr_len_iter.
Qed.

Lemma seg_get_iter : forall sg i, seg_wf sg = true -> seg_get sg i = nth_N (seg_iter sg) i.
Proof.
  intros sg i Hwf. pose proof (seg_len_iter sg Hwf) as Hlen.
  destruct sg as [s e | s e h | s e bm | a | a]; cbn [seg_get].
  - cbn [seg_wf] in Hwf. apply andb_true_iff in Hwf as [H1 H2]. apply N.leb_le in H1. apply N.ltb_lt in H2.
    cbn [seg_iter]. destruct (N.ltb_spec (s + i) e).
    + replace (s + i <? two64) with true by (symmetry; apply N.ltb_lt; lia). cbn [andb].
      rewrite range_iter_nth by lia. reflexivity.
    + rewrite andb_false_r. symmetry. apply nth_N_none. rewrite range_iter_len. lia.
  - cbn [seg_len] in Hlen. destruct (N.leb_spec (e - s) i); [|reflexivity].
    symmetry. apply nth_N_none. lia.
  - cbn [seg_len] in Hlen. destruct (N.leb_spec (e - s) i); [|reflexivity].
    symmetry. apply nth_N_none. lia.
  - apply earr_get_iter.
  - apply earr_get_iter.
Qed.

Lemma seg_contains_iter : forall sg v, seg_wf sg = true -> seg_contains sg v = memN v (seg_iter sg).
Proof.
  intros [s e | s e h | s e bm | a | a] v Hwf; cbn [seg_contains].
  - cbn [seg_iter]. unfold in_range. destruct (memN v (range_iter s e)) eqn:E.
    + apply memN_In, range_iter_In in E. apply andb_true_iff. split; [apply N.leb_le | apply N.ltb_lt]; lia.
    + apply memN_false in E. rewrite range_iter_In in E. apply andb_false_iff.
      destruct (N.leb_spec s v); [right; apply N.ltb_ge; lia | left; reflexivity].
  - apply seg_wf_holes in Hwf as [Hse [He [Hw [Hs Hin]]]]. rewrite holes_iter by assumption.
    unfold in_range. destruct (memN v (filter _ _)) eqn:E.
    + apply memN_In, filter_In in E as [E1 E2]. apply range_iter_In in E1.
      replace ((s <=? v) && (v <? e)) with true by (symmetry; apply andb_true_iff; split; [apply N.leb_le | apply N.ltb_lt]; lia).
      cbn [negb]. assumption.
    + apply memN_false in E. rewrite filter_In, range_iter_In in E.
      destruct (N.leb_spec s v); destruct (N.ltb_spec v e); cbn [andb negb]; try reflexivity.
      destruct (memN v (earr_iter h)); [reflexivity|]. exfalso. apply E. split; [lia | reflexivity].
  - cbn [seg_iter]. unfold in_range. destruct (memN v (filter _ _)) eqn:E.
    + apply memN_In, filter_In in E as [E1 E2]. apply range_iter_In in E1.
      replace ((s <=? v) && (v <? e)) with true by (symmetry; apply andb_true_iff; split; [apply N.leb_le | apply N.ltb_lt]; lia).
      cbn [negb]. assumption.
    + apply memN_false in E. rewrite filter_In, range_iter_In in E.
      destruct (N.leb_spec s v); destruct (N.ltb_spec v e); cbn [andb negb]; try reflexivity.
      destruct (bm_get bm (v - s)); [|reflexivity]. exfalso. apply E. split; [lia | reflexivity].
  - cbn [seg_wf] in Hwf. repeat (apply andb_true_iff in Hwf as [Hwf ?]). cbn [seg_iter].
    rewrite earr_bsearch_iter by assumption. apply index_of_is_some.
  - reflexivity.
Qed.

Lemma seg_position_iter : forall sg v, seg_wf sg = true -> seg_position sg v = index_of v (seg_iter sg).
Proof.
  intros [s e | s e h | s e bm | a | a] v Hwf; cbn [seg_position].
  - cbn [seg_iter]. unfold in_range. destruct (N.leb_spec s v); destruct (N.ltb_spec v e); cbn [andb].
    + rewrite index_of_range by lia. reflexivity.
    + symmetry. apply index_of_none. rewrite range_iter_In. lia.
    + symmetry. apply index_of_none. rewrite range_iter_In. lia.
    + symmetry. apply index_of_none. rewrite range_iter_In. lia.
  - apply seg_wf_holes in Hwf as [Hse [He [Hw [Hs Hin]]]]. rewrite holes_iter by assumption.
    rewrite earr_bsearch_iter by assumption. rewrite index_of_is_some.
    unfold in_range. destruct (N.leb_spec s v); destruct (N.ltb_spec v e); cbn [andb];
      try (symmetry; apply index_of_none; rewrite filter_In, range_iter_In; lia).
    destruct (memN v (earr_iter h)) eqn:E; cbn [negb].
    + symmetry. apply index_of_filter_none. rewrite E. reflexivity.
    + rewrite index_of_filter_range by (rewrite ?E; auto; lia). f_equal.
      rewrite take_while_lt_sincr by assumption.
      pose proof (filter_len_split (fun x => memN x (earr_iter h)) (range_iter s v)) as Hsp.
      rewrite range_iter_len in Hsp. rewrite (holes_count s e) in Hsp by (auto; lia). lia.
  - cbn [seg_wf] in Hwf. repeat (apply andb_true_iff in Hwf as [Hwf ?]). apply N.ltb_lt in Hwf. apply N.eqb_eq in H.
    cbn [seg_iter]. unfold in_range. destruct (N.leb_spec s v); destruct (N.ltb_spec v e); cbn [andb];
      try (symmetry; apply index_of_none; rewrite filter_In, range_iter_In; lia).
    destruct (bm_get bm (v - s)) eqn:E.
    + rewrite (index_of_filter_range (fun x => bm_get bm (x - s))) by (auto; lia). f_equal.
      pose proof (filter_len_split (fun x => bm_get bm (x - s)) (range_iter s v)) as Hsp.
      rewrite range_iter_len in Hsp.
      rewrite (filter_map_len negb (fun x => bm_get bm (x - s))) in Hsp.
      rewrite map_bm_get_range in Hsp by lia. unfold count_false. lia.
    + symmetry. apply index_of_filter_none. assumption.
  - cbn [seg_wf] in Hwf. repeat (apply andb_true_iff in Hwf as [Hwf ?]). cbn [seg_iter].
    apply earr_bsearch_iter. assumption.
  - reflexivity.
Qed.

(* ------------------------------------------------------------------ *)
(* compute_stats                                                       *)
(* ------------------------------------------------------------------ *)
Definition nondecr (l : list N) : Prop := forall l1 x l2 y l3, l = l1 ++ x :: l2 ++ y :: l3 -> x <= y.

Lemma nondecr_nil : nondecr [].
Proof. intros l1 x l2 y l3 H. destruct l1; discriminate. Qed.

Lemma nondecr_snoc : forall l v, nondecr (l ++ [v]) <-> (nondecr l /\ forall x, In x l -> x <= v).
Proof.
  intros l v. split.
  - intro H. split.
    + intros l1 x l2 y l3 E. apply (H l1 x l2 y (l3 ++ [v])). rewrite E. repeat (rewrite <- app_assoc; cbn [app]). reflexivity.
    + intros x Hx. apply in_split in Hx as [l1 [l2 E]]. apply (H l1 x l2 v []). rewrite E. rewrite <- app_assoc. reflexivity.
  - intros [H1 H2] l1 x l2 y l3 E.
    destruct (list_eq_dec N.eq_dec l3 []) as [-> | Hne].
    + assert (Ey : y = v /\ l = l1 ++ x :: l2).
      { replace (l1 ++ x :: l2 ++ [y]) with ((l1 ++ x :: l2) ++ [y]) in E by (rewrite <- app_assoc; reflexivity).
        apply app_inj_tail in E as [E1 E2]. split; [symmetry; assumption | assumption]. }
      destruct Ey as [-> ->]. apply H2. apply in_or_app. right. left. reflexivity.
    + destruct (exists_last Hne) as [l3' [z E3]]. subst l3.
      replace (l1 ++ x :: l2 ++ y :: l3' ++ [z]) with ((l1 ++ x :: l2 ++ y :: l3') ++ [z]) in E
        by (repeat (rewrite <- app_assoc; cbn [app]); reflexivity).
      apply app_inj_tail in E as [E1 E2]. apply (H1 l1 x l2 y l3'). assumption.
Qed.

Lemma nondecr_cons : forall x l, nondecr (x :: l) -> nondecr l /\ forall y, In y l -> x <= y.
Proof.
  intros x l H. split.
  - intros l1 a l2 b l3 E. apply (H (x :: l1) a l2 b l3). rewrite E. reflexivity.
  - intros y Hy. apply in_split in Hy as [l1 [l2 E]]. apply (H [] x l1 y l2). rewrite E. reflexivity.
Qed.

Lemma nondecr_NoDup_sincr : forall l, nondecr l -> NoDup l -> sincr l.
Proof.
  induction l as [|x l IH]; intros H1 H2; [constructor|].
  apply nondecr_cons in H1 as [H1a H1b]. inversion H2; subst.
  apply sincr_cons_iff. split; [apply IH; assumption|].
  intros y Hy. specialize (H1b y Hy). assert (x <> y) by (intro; subst; contradiction). lia.
Qed.

Lemma sincr_nondecr : forall l, sincr l -> nondecr l.
Proof.
  intros l Hs l1 x l2 y l3 E. subst l. apply sincr_app_inv in Hs as [_ [Hs _]].
  apply sincr_cons_iff in Hs as [_ Hs]. assert (x < y); [|lia]. apply Hs. apply in_or_app. right. left. reflexivity.
Qed.

Definition stats0 : stats := {| st_min := u64max; st_max := 0; st_count := 0; st_sorted := true |}.
Definition raw_stats (l : list N) : stats := fold_left stats_step l stats0.

Lemma raw_stats_snoc : forall l v, raw_stats (l ++ [v]) = stats_step (raw_stats l) v.
Proof. intros. unfold raw_stats. rewrite fold_left_app. reflexivity. Qed.

Definition bounds (l : list N) (mn mx : N) : Prop :=
  In mn l /\ In mx l /\ forall x, In x l -> mn <= x <= mx.

Lemma raw_stats_spec : forall l, Forall (fun x => x < two64) l ->
  st_count (raw_stats l) = len_N l
  /\ (st_sorted (raw_stats l) = true <-> nondecr l)
  /\ (l <> [] -> bounds l (st_min (raw_stats l)) (st_max (raw_stats l))).
Proof.
  induction l as [|v l IH] using rev_ind; intro Hall.
  - split; [reflexivity|]. split; [split; [intros _; apply nondecr_nil | reflexivity]|]. congruence.
  - apply Forall_app in Hall as [Hall Hv]. apply Forall_inv in Hv.
    destruct (IH Hall) as [Hc [Hs Hb]]. rewrite raw_stats_snoc. unfold stats_step. cbn [st_count st_sorted st_min st_max].
    split; [rewrite Hc, len_N_app; unfold len_N; cbn [length]; lia|].
    destruct l as [|a l'].
    + (* first element *)
      cbn [raw_stats fold_left stats0 st_min st_max st_count st_sorted app] in *.
      replace (0 + 1) with 1 by lia. rewrite N.ltb_irrefl, andb_false_r. cbn [andb].
      split.
      * split; [|reflexivity]. intros _ l1 x l2 y l3 E. destruct l1 as [|? [|? ?]]; try discriminate.
        inversion E. destruct l2; discriminate.
      * intros _. assert (Hb1 : forall m1 m2, m1 = v -> m2 = v -> bounds [v] m1 m2).
        { intros m1 m2 -> ->. unfold bounds. split; [left; reflexivity|]. split; [left; reflexivity|]. intros z [<- | []]. lia. }
        destruct (N.ltb_spec v u64max); destruct (N.ltb_spec 0 v); apply Hb1; unfold u64max, two64 in *; lia.
    + set (l := a :: l') in *. assert (Hne : l <> []) by discriminate.
      destruct (Hb Hne) as [Hmn [Hmx Hbd]]. set (st := raw_stats l) in *.
      assert (H1lt : (1 <? st_count st + 1) = true).
      { apply N.ltb_lt. rewrite Hc. unfold l. rewrite len_N_cons. lia. }
      rewrite H1lt, andb_true_r.
      split.
      * rewrite nondecr_snoc.
        destruct (st_sorted st) eqn:Es; cbn [andb].
        -- destruct (N.ltb_spec (st_max st) v) as [Hlt | Hge].
           ++ rewrite N.ltb_irrefl. split; [intros _; split; [apply Hs; reflexivity | intros x Hx; specialize (Hbd x Hx); lia] | reflexivity].
           ++ destruct (N.ltb_spec v (st_max st)) as [Hlt2 | Hge2].
              ** split; [discriminate|]. intros [_ H2]. specialize (H2 _ Hmx). lia.
              ** split; [intros _; split; [apply Hs; reflexivity | intros x Hx; specialize (Hbd x Hx); lia] | reflexivity].
        -- split; [discriminate|]. intros [H1 _]. apply Hs in H1. discriminate.
      * intros _. unfold bounds.
        destruct (N.ltb_spec v (st_min st)); destruct (N.ltb_spec (st_max st) v); (split; [|split]);
          try (apply in_or_app; (left; assumption) || (right; left; reflexivity));
          intros z Hz; apply in_app_or in Hz as [Hz | [<- | []]]; try specialize (Hbd z Hz); lia.
Qed.

Lemma compute_stats_spec : forall l, Forall (fun x => x < two64) l ->
  st_count (compute_stats l) = len_N l
  /\ (st_sorted (compute_stats l) = true <-> nondecr l)
  /\ (l <> [] -> bounds l (st_min (compute_stats l)) (st_max (compute_stats l))).
Proof.
  intros l Hall. destruct (raw_stats_spec l Hall) as [Hc [Hs Hb]].
  unfold compute_stats. fold stats0. fold (raw_stats l).
  destruct (N.eqb_spec (st_count (raw_stats l)) 0) as [E | E]; cbn [st_count st_sorted st_min st_max].
  - split; [assumption|]. split; [assumption|]. intro Hne. exfalso. rewrite Hc in E. destruct l; [congruence | rewrite len_N_cons in E; lia].
  - split; [assumption|]. split; assumption.
Qed.

(* bounds of a strictly increasing list are its ends *)
Lemma bounds_sincr_cons : forall x l mn mx, sincr (x :: l) -> bounds (x :: l) mn mx -> mn = x.
Proof.
  intros x l mn mx Hs [Hmn [_ Hb]]. destruct Hmn as [<- | Hmn]; [reflexivity|].
  pose proof (sincr_head_lt x l Hs mn Hmn). specialize (Hb x (or_introl eq_refl)). lia.
Qed.

(* ------------------------------------------------------------------ *)
(* from_stats                                                          *)
(* ------------------------------------------------------------------ *)
Lemma nsort_sincr : forall l, sincr l -> nsort l = l.
Proof.
  induction l as [|x l IH]; intro H; [reflexivity|].
  unfold nsort in *. cbn [fold_right]. pose proof H as H0. apply sincr_cons_iff in H as [H1 H2]. rewrite IH by assumption.
  destruct l as [|y l]; [reflexivity|]. cbn [ninsert]. specialize (H2 y (or_introl eq_refl)).
  destruct (N.leb_spec x y); [reflexivity | lia].
Qed.

Lemma holes_in_spec : forall r l, sincr r -> sincr l -> (forall x, In x l -> In x r) ->
  holes_in r l = filter (fun v => negb (memN v l)) r.
Proof.
  induction r as [|v vs IH]; intros l Hr Hl Hsub; [reflexivity|].
  apply sincr_cons_iff in Hr as [Hr1 Hr2]. cbn [holes_in filter].
  destruct l as [|e es].
  - cbn [memN existsb negb]. f_equal. rewrite (IH [] Hr1 sincr_nil) by (intros x []). reflexivity.
  - pose proof Hl as Hl0. apply sincr_cons_iff in Hl as [Hl1 Hl2].
    destruct (N.eqb_spec e v) as [-> | Hne].
    + replace (memN v (v :: es)) with true by (symmetry; apply memN_In; left; reflexivity). cbn [negb].
      rewrite IH; [| assumption | assumption |].
      * apply filter_ext_in. intros x Hx. f_equal. unfold memN. cbn [existsb].
        destruct (N.eqb_spec x v); [subst; specialize (Hr2 v Hx); lia | reflexivity].
      * intros x Hx. specialize (Hl2 x Hx). destruct (Hsub x (or_intror Hx)) as [<- | H]; [lia | assumption].
    + assert (Hev : v < e).
      { destruct (Hsub e (or_introl eq_refl)) as [E | H]; [congruence | apply Hr2; assumption]. }
      assert (Hnot : memN v (e :: es) = false).
      { apply memN_false. intros [E | H]; [lia | specialize (Hl2 v H); lia]. }
      rewrite Hnot. cbn [negb]. f_equal. apply IH; [assumption | assumption |].
      intros x Hx. destruct (Hsub x Hx) as [<- | H]; [|assumption].
      destruct Hx as [E | Hx]; [lia | specialize (Hl2 v Hx); lia].
Qed.

Lemma bm_update_length : forall bm i b, length (bm_update bm i b) = length bm.
Proof.
  induction bm as [|x bm IH]; intros [|i] b; cbn [bm_update length]; try reflexivity. rewrite IH. reflexivity.
Qed.

Lemma bm_update_nth : forall bm i j b, (j < length bm)%nat ->
  nth j (bm_update bm i b) false = if Nat.eqb j i then b else nth j bm false.
Proof.
  induction bm as [|x bm IH]; intros i j b Hj; [cbn [length] in Hj; lia|].
  destruct i as [|i], j as [|j]; cbn [bm_update nth Nat.eqb]; try reflexivity.
  apply IH. cbn [length] in Hj. lia.
Qed.

Lemma fold_clear_length : forall mn hs bm,
  length (fold_left (fun bm h => bm_clear bm (h - mn)) hs bm) = length bm.
Proof.
  intros mn hs. induction hs as [|h hs IH]; intro bm; [reflexivity|].
  cbn [fold_left]. rewrite IH. unfold bm_clear. apply bm_update_length.
Qed.

Lemma fold_clear_get : forall mn hs bm i, i < len_N bm ->
  bm_get (fold_left (fun bm h => bm_clear bm (h - mn)) hs bm) i
  = bm_get bm i && negb (existsb (fun h => h - mn =? i) hs).
Proof.
  intros mn hs. induction hs as [|h hs IH]; intros bm i Hi; [cbn [fold_left existsb negb]; rewrite andb_true_r; reflexivity|].
  cbn [fold_left existsb]. rewrite IH by (unfold len_N, bm_clear in *; rewrite bm_update_length; assumption).
  unfold bm_get, bm_clear. rewrite bm_update_nth by (unfold len_N in Hi; lia).
  destruct (N.eqb_spec (h - mn) i) as [E | E].
  - subst i. rewrite Nat.eqb_refl. cbn [orb negb andb]. rewrite andb_false_r. reflexivity.
  - replace (Nat.eqb (N.to_nat i) (N.to_nat (h - mn))) with false by (symmetry; apply Nat.eqb_neq; lia).
    cbn [orb]. reflexivity.
Qed.

Lemma bm_get_full : forall n i, i < n -> bm_get (bm_new_full n) i = true.
Proof.
  intros n i H. unfold bm_get, bm_new_full. apply nth_repeat_lt || idtac.
  rewrite nth_indep with (d' := true) by (rewrite repeat_length; lia). apply nth_repeat.
Qed.

Definition no_sorted_overflow (st : stats) : Prop :=
  st_sorted st = true -> 24 + 4 * (st_max st - st_min st + 1 - st_count st) < two64.

Lemma sincr_len_span : forall l mn mx, sincr l -> (forall x, In x l -> mn <= x <= mx) -> len_N l <= mx + 1 - mn.
Proof.
  intros l mn mx Hs Hb.
  rewrite <- (sincr_filter_range l mn (mx + 1) Hs) by (intros v Hv; specialize (Hb v Hv); lia).
  etransitivity; [apply filter_len_le|]. rewrite range_iter_len. lia.
Qed.

Lemma sincr_full_range : forall l mn mx, sincr l -> (forall x, In x l -> mn <= x <= mx) -> len_N l = mx + 1 - mn ->
  l = range_iter mn (mx + 1).
Proof.
  intros l mn mx Hs Hb Hlen.
  pose proof (sincr_filter_range l mn (mx + 1) Hs) as Hf. rewrite <- Hf at 1 by (intros v Hv; specialize (Hb v Hv); lia).
  assert (Hneg : len_N (filter (fun v => negb (memN v l)) (range_iter mn (mx + 1))) = 0).
  { pose proof (filter_len_split (fun v => memN v l) (range_iter mn (mx + 1))) as Hsp.
    rewrite Hf in Hsp by (intros v Hv; specialize (Hb v Hv); lia). rewrite range_iter_len in Hsp. lia. }
  clear Hf. induction (range_iter mn (mx + 1)) as [|x r IH]; [reflexivity|].
  cbn [filter] in *. destruct (memN x l); cbn [negb] in *.
  - f_equal. apply IH. assumption.
  - rewrite len_N_cons in Hneg. lia.
Qed.

Theorem from_stats_ok : forall st l,
  st_count st = len_N l ->
  (st_sorted st = true -> sincr l /\ (l <> [] -> bounds l (st_min st) (st_max st))) ->
  (st_sorted st = false -> l <> []) ->
  Forall (fun x => x < u64max) l ->
  no_sorted_overflow st ->
  exists sg, from_stats st l = Ok sg /\ seg_wf sg = true /\ seg_iter sg = l.
Proof.
  intros st l Hc Hs Hns Hall Hov. unfold from_stats.
  assert (Hall64 : Forall (fun x => x < two64) l).
  { eapply Forall_impl; [|exact Hall]. intros a Ha. unfold u64max in Ha. lia. }
  destruct (st_sorted st) eqn:Es.
  2:{ (* Array *)
    eexists. split; [reflexivity|]. cbn [seg_wf seg_iter]. rewrite earr_of_list_iter. split; [|reflexivity].
    rewrite earr_of_list_wf by assumption. rewrite earr_len_iter, earr_of_list_iter.
    specialize (Hns eq_refl). destruct l; [congruence|]. reflexivity. }
  destruct (Hs eq_refl) as [Hsi Hb]. clear Hs Hns.
  destruct (N.eqb_spec (st_count st) 0) as [E0 | E0].
  { unfold n_holes. rewrite E0. cbn [N.eqb obind]. replace (0 =? 0) with true by reflexivity. cbn [obind].
    exists (SRange 0 0). split; [reflexivity|]. split; [reflexivity|].
    rewrite Hc in E0. destruct l; [reflexivity | rewrite len_N_cons in E0; lia]. }
  assert (Hne : l <> []) by (intro; subst; apply E0; rewrite Hc; reflexivity).
  destruct (Hb Hne) as [Hmn [Hmx Hbd]].
  set (mn := st_min st) in *. set (mx := st_max st) in *.
  assert (Hmnmx : mn <= mx) by (specialize (Hbd mn Hmn); lia).
  assert (Hmx64 : mx < u64max) by (rewrite Forall_forall in Hall; apply Hall; assumption).
  pose proof (sincr_len_span l mn mx Hsi Hbd) as Hspan.
  specialize (Hov Es). fold mn mx in Hov.
  unfold n_holes. replace (st_count st =? 0) with false by (symmetry; apply N.eqb_neq; assumption).
  unfold csub, cadd. fold mn mx.
  replace (mn <=? mx) with true by (symmetry; apply N.leb_le; assumption). cbn [obind].
  replace (mx - mn + 1 <? two64) with true by (symmetry; apply N.ltb_lt; unfold u64max in *; lia). cbn [obind].
  replace (st_count st <=? mx - mn + 1) with true by (symmetry; apply N.leb_le; lia). cbn [obind].
  destruct (N.eqb_spec (mx - mn + 1 - st_count st) 0) as [Eh | Eh].
  { (* Range *)
    replace (mx + 1 <? two64) with true by (symmetry; apply N.ltb_lt; unfold u64max in *; lia). cbn [obind].
    exists (SRange mn (mx + 1)). split; [reflexivity|]. split.
    - cbn [seg_wf]. apply andb_true_iff. split; [apply N.leb_le | apply N.ltb_lt]; unfold u64max in *; lia.
    - cbn [seg_iter]. symmetry. apply sincr_full_range; [assumption | assumption | lia]. }
  set (nh := mx - mn + 1 - st_count st) in *.
  unfold seq_sizes, n_holes, csub, cadd, cmul. fold mn mx.
  replace (st_count st =? 0) with false by (symmetry; apply N.eqb_neq; assumption).
  replace (mn <=? mx) with true by (symmetry; apply N.leb_le; assumption). cbn [obind].
  replace (mx - mn + 1 <? two64) with true by (symmetry; apply N.ltb_lt; unfold u64max in *; lia). cbn [obind].
  replace (st_count st <=? mx - mn + 1) with true by (symmetry; apply N.leb_le; lia). cbn [obind]. fold nh.
  replace (4 * nh <? two64) with true by (symmetry; apply N.ltb_lt; lia). cbn [obind].
  replace (24 + 4 * nh <? two64) with true by (symmetry; apply N.ltb_lt; lia). cbn [obind].
  replace (mx + 1 <? two64) with true by (symmetry; apply N.ltb_lt; unfold u64max in *; lia).
  assert (Hinr : forall v, In v l -> mn <= v < mx + 1) by (intros v Hv; specialize (Hbd v Hv); lia).
  assert (Hholes : holes_in (incl_range mn mx) l = filter (fun v => negb (memN v l)) (range_iter mn (mx + 1))).
  { unfold incl_range. change (nrange mn (N.to_nat (mx + 1 - mn))) with (range_iter mn (mx + 1)).
    apply holes_in_spec; [apply sincr_range_iter | assumption |]. intros x Hx. apply range_iter_In. apply Hinr. assumption. }
  set (holes := filter (fun v => negb (memN v l)) (range_iter mn (mx + 1))) in *.
  assert (Hhs : sincr holes) by (apply sincr_filter, sincr_range_iter).
  assert (Hhin : forall x, In x holes -> mn <= x < mx + 1 /\ ~ In x l).
  { intros x Hx. apply filter_In in Hx as [Hx1 Hx2]. apply range_iter_In in Hx1. split; [assumption|].
    apply memN_false. destruct (memN x l); [discriminate | reflexivity]. }
  match goal with |- context [N.min ?a (N.min ?b ?c)] => set (m := N.min a (N.min b c)); set (rwh := a) end.
  destruct (m =? rwh).
  - (* RangeWithHoles *)
    cbn [obind]. eexists. split; [reflexivity|]. rewrite Hholes. rewrite nsort_sincr by assumption.
    assert (Hwf : earr_wf (earr_of_list holes) = true).
    { apply earr_of_list_wf. apply Forall_forall. intros x Hx. destruct (Hhin x Hx). unfold u64max in *. lia. }
    split.
    + cbn [seg_wf]. rewrite Hwf, earr_of_list_iter.
      replace (strict_sorted holes) with true by (symmetry; apply strict_sorted_sincr; assumption).
      replace (mn <? mx + 1) with true by (symmetry; apply N.ltb_lt; lia).
      replace (mx + 1 <? two64) with true by (symmetry; apply N.ltb_lt; unfold u64max in *; lia).
      cbn [andb]. apply forallb_forall. intros x Hx. destruct (Hhin x Hx) as [Hr _]. unfold in_range.
      apply andb_true_iff. split; [apply N.leb_le | apply N.ltb_lt]; lia.
    + rewrite holes_iter by assumption. rewrite earr_of_list_iter.
      etransitivity; [|apply (sincr_filter_range l mn (mx + 1) Hsi Hinr)].
      apply filter_ext_in. intros v Hv. unfold holes.
      destruct (memN v l) eqn:E; cbn [negb].
      * apply negb_true_iff. apply memN_false. rewrite filter_In. intros [_ H2]. rewrite E in H2. discriminate.
      * apply negb_false_iff. apply memN_In. apply filter_In. split; [assumption | rewrite E; reflexivity].
  - destruct (m =? _).
    + (* RangeWithBitmap *)
      cbn [obind]. eexists. split; [reflexivity|]. rewrite Hholes.
      assert (Hlen : len_N (fold_left (fun bm h => bm_clear bm (h - mn)) holes (bm_new_full (mx - mn + 1))) = mx - mn + 1).
      { unfold len_N. rewrite fold_clear_length. unfold bm_new_full. rewrite repeat_length. lia. }
      split.
      * cbn [seg_wf]. rewrite Hlen.
        replace (mn <? mx + 1) with true by (symmetry; apply N.ltb_lt; lia).
        replace (mx + 1 <? two64) with true by (symmetry; apply N.ltb_lt; unfold u64max in *; lia).
        cbn [andb]. apply N.eqb_eq. lia.
      * cbn [seg_iter]. etransitivity; [|apply (sincr_filter_range l mn (mx + 1) Hsi Hinr)].
        apply filter_ext_in. intros v Hv. apply range_iter_In in Hv.
        rewrite fold_clear_get by (unfold len_N, bm_new_full; rewrite repeat_length; lia).
        rewrite bm_get_full by lia. cbn [andb].
        destruct (memN v l) eqn:E.
        -- apply negb_true_iff. apply not_true_iff_false. intro Hex. apply existsb_exists in Hex as [h [Hh1 Hh2]].
           apply N.eqb_eq in Hh2. destruct (Hhin h Hh1) as [Hr Hnot]. assert (h = v) by lia. subst h.
           apply Hnot. apply memN_In. assumption.
        -- apply negb_false_iff. apply existsb_exists. exists v. split; [|apply N.eqb_refl].
           apply filter_In. split; [apply range_iter_In; lia | rewrite E; reflexivity].
    + (* SortedArray *)
      eexists. split; [reflexivity|]. cbn [seg_wf seg_iter]. rewrite earr_of_list_iter. split; [|reflexivity].
      rewrite earr_of_list_wf by assumption. rewrite earr_len_iter, earr_of_list_iter.
      replace (strict_sorted l) with true by (symmetry; apply strict_sorted_sincr; assumption).
      destruct l; [congruence | reflexivity].
Qed.

(* ------------------------------------------------------------------ *)
(* from_slice holds exactly the ids                                    *)
(* ------------------------------------------------------------------ *)
Definition holds (sg : seg) (l : list N) : Prop := seg_wf sg = true /\ seg_iter sg = l.

Lemma compute_stats_nil_sorted : forall l, Forall (fun x => x < two64) l -> st_sorted (compute_stats l) = false -> l <> [].
Proof. intros l Hall H E. subst. vm_compute in H. discriminate. Qed.

Theorem from_slice_holds : forall l,
  Forall (fun x => x < two64) l -> NoDup l ->
  Known_C34_u64max l = false -> Known_C34_span_overflow l = false ->
  exists sg, from_slice l = Ok sg /\ holds sg l.
Proof.
  intros l Hall Hnd Hmax Hspan. unfold from_slice, holds.
  destruct (compute_stats_spec l Hall) as [Hc [Hs Hb]].
  apply from_stats_ok.
  - assumption.
  - intro Es. split; [apply nondecr_NoDup_sincr; [apply Hs; assumption | assumption] | assumption].
  - apply compute_stats_nil_sorted. assumption.
  - apply Forall_forall. intros x Hx. rewrite Forall_forall in Hall. specialize (Hall x Hx).
    unfold Known_C34_u64max in Hmax. apply memN_false in Hmax.
    assert (x <> u64max) by (intro; subst; contradiction). unfold u64max in *. lia.
  - intro Es. unfold Known_C34_span_overflow in Hspan. rewrite Es in Hspan. cbn [andb] in Hspan.
    destruct (N.eqb_spec (st_count (compute_stats l)) 0) as [E0 | E0]; cbn [negb andb] in Hspan.
    + assert (l = []) by (rewrite Hc in E0; destruct l; [reflexivity | rewrite len_N_cons in E0; lia]). subst l.
      vm_compute. reflexivity.
    + apply N.leb_gt in Hspan. assumption.
Qed.

Theorem holds_accessors : forall sg l, holds sg l ->
  seg_len sg = len_N l
  /\ (forall i, seg_get sg i = nth_N l i)
  /\ (forall v, seg_position sg v = index_of v l)
  /\ (forall v, seg_contains sg v = memN v l).
Proof.
  intros sg l [Hwf <-]. split; [apply seg_len_iter; assumption|].
  split; [intro; apply seg_get_iter; assumption|].
  split; [intro; apply seg_position_iter; assumption | intro; apply seg_contains_iter; assumption].
Qed.

(* ------------------------------------------------------------------ *)
(* the domain of the operations: unique ids, no u64::MAX, span < 2^62-6 (closed under sub-sequences) *)
(* ------------------------------------------------------------------ *)
Definition span_ok (l : list N) : Prop := forall x y, In x l -> In y l -> y - x < 2 ^ 62 - 6.
Definition ids_ok (l : list N) : Prop := NoDup l /\ Forall (fun x => x < u64max) l /\ span_ok l.

Inductive subseq : list N -> list N -> Prop :=
| sub_nil : subseq [] []
| sub_skip : forall x l' l, subseq l' l -> subseq l' (x :: l)
| sub_keep : forall x l' l, subseq l' l -> subseq (x :: l') (x :: l).

Lemma subseq_In : forall l' l, subseq l' l -> forall x, In x l' -> In x l.
Proof.
  intros l' l H. induction H; intros y Hy; [destruct Hy | right; apply IHsubseq; assumption|].
  destruct Hy as [<- | Hy]; [left; reflexivity | right; apply IHsubseq; assumption].
Qed.

Lemma subseq_NoDup : forall l' l, subseq l' l -> NoDup l -> NoDup l'.
Proof.
  intros l' l H. induction H; intro Hnd; [constructor | inversion Hnd; subst; apply IHsubseq; assumption|].
  inversion Hnd; subst. constructor; [|apply IHsubseq; assumption].
  intro Hin. apply H2. eapply subseq_In; eauto.
Qed.

Lemma subseq_refl : forall l, subseq l l.
Proof. induction l; constructor; assumption. Qed.

Lemma subseq_nil_l : forall l, subseq [] l.
Proof. induction l; constructor; assumption. Qed.

Lemma subseq_filter : forall p l, subseq (filter p l) l.
Proof. intros p. induction l as [|x l IH]; [constructor|]. cbn [filter]. destruct (p x); constructor; assumption. Qed.

Lemma subseq_trans : forall l1 l2 l3, subseq l1 l2 -> subseq l2 l3 -> subseq l1 l3.
Proof.
  intros l1 l2 l3 H12 H23. revert l1 H12. induction H23; intros l1 H12.
  - assumption.
  - constructor. apply IHsubseq. assumption.
  - inversion H12; subst; [constructor; apply IHsubseq; assumption | apply sub_keep; apply IHsubseq; assumption].
Qed.

Lemma subseq_app : forall a a' b b', subseq a' a -> subseq b' b -> subseq (a' ++ b') (a ++ b).
Proof. intros a a' b b' Ha Hb. induction Ha; cbn [app]; [assumption | constructor; assumption | constructor; assumption]. Qed.

Lemma subseq_firstn : forall n l, subseq (firstn n l) l.
Proof.
  intros n l. rewrite <- (firstn_skipn n l) at 2. rewrite <- (app_nil_r (firstn n l)) at 1.
  apply subseq_app; [apply subseq_refl | apply subseq_nil_l].
Qed.

Lemma subseq_skipn : forall n l, subseq (skipn n l) l.
Proof.
  intros n l. rewrite <- (firstn_skipn n l) at 2. change (skipn n l) with ([] ++ skipn n l) at 1.
  apply subseq_app; [apply subseq_nil_l | apply subseq_refl].
Qed.

Lemma subseq_sincr : forall l' l, subseq l' l -> sincr l -> sincr l'.
Proof.
  intros l' l H. induction H; intro Hs; [constructor | apply IHsubseq; eapply sincr_tail; eauto|].
  apply sincr_cons_iff in Hs as [Hs1 Hs2]. apply sincr_cons_iff. split; [apply IHsubseq; assumption|].
  intros y Hy. apply Hs2. eapply subseq_In; eauto.
Qed.

Lemma ids_ok_subseq : forall l' l, subseq l' l -> ids_ok l -> ids_ok l'.
Proof.
  intros l' l H [Hnd [Hall Hsp]]. split; [eapply subseq_NoDup; eauto|]. split.
  - apply Forall_forall. intros x Hx. rewrite Forall_forall in Hall. apply Hall. eapply subseq_In; eauto.
  - intros x y Hx Hy. apply Hsp; eapply subseq_In; eauto.
Qed.

Lemma ids_ok_from_slice : forall l, ids_ok l -> exists sg, from_slice l = Ok sg /\ holds sg l.
Proof.
  intros l [Hnd [Hall Hsp]].
  assert (Hall64 : Forall (fun x => x < two64) l).
  { eapply Forall_impl; [|exact Hall]. intros a Ha. unfold u64max in Ha. lia. }
  apply from_slice_holds; try assumption.
  - unfold Known_C34_u64max. apply memN_false. intro Hin. rewrite Forall_forall in Hall. specialize (Hall _ Hin). lia.
  - unfold Known_C34_span_overflow. destruct (compute_stats_spec l Hall64) as [Hc [Hs Hb]].
    destruct (st_sorted (compute_stats l)); [|reflexivity]. cbn [andb].
    destruct (N.eqb_spec (st_count (compute_stats l)) 0) as [E0 | E0]; [reflexivity|]. cbn [negb andb].
    apply N.leb_gt.
    assert (Hne : l <> []) by (intro; subst; apply E0; rewrite Hc; reflexivity).
    destruct (Hb Hne) as [Hmn [Hmx Hbd]]. specialize (Hsp _ _ Hmn Hmx).
    assert (1 <= st_count (compute_stats l)) by lia.
    change (2 ^ 62 - 6) with 4611686018427387898 in Hsp. unfold two64. lia.
Qed.

(* ------------------------------------------------------------------ *)
(* slice                                                               *)
(* ------------------------------------------------------------------ *)
Theorem seg_slice_ok : forall sg offset len, seg_wf sg = true -> ids_ok (seg_iter sg) ->
  exists sg', seg_slice sg offset len = Ok sg' /\ holds sg' (take_N len (skip_N offset (seg_iter sg))).
Proof.
  intros sg offset len Hwf Hok. unfold seg_slice. destruct (N.eqb_spec len 0) as [-> | Hne].
  - exists (SRange 0 0). split; [reflexivity|]. split; reflexivity.
  - apply ids_ok_from_slice. eapply ids_ok_subseq; [|exact Hok].
    eapply subseq_trans; [apply subseq_firstn | apply subseq_skipn].
Qed.

(* ------------------------------------------------------------------ *)
(* delete                                                              *)
(* ------------------------------------------------------------------ *)
Lemma drop_vals_spec : forall l vals, subseq vals l -> NoDup l ->
  drop_vals l vals = filter (fun x => negb (memN x vals)) l.
Proof.
  intros l vals H. induction H; intro Hnd.
  - reflexivity.
  - inversion Hnd; subst. cbn [drop_vals filter].
    assert (Hx : memN x l' = false) by (apply memN_false; intro Hin; apply H2; eapply subseq_In; eauto).
    rewrite Hx. cbn [negb]. destruct l' as [|v vs].
    + f_equal. rewrite IHsubseq by assumption. reflexivity.
    + destruct (N.eqb_spec v x) as [-> | Hne]; [exfalso; apply memN_false in Hx; apply Hx; left; reflexivity|].
      f_equal. apply IHsubseq. assumption.
  - inversion Hnd; subst. cbn [drop_vals filter]. rewrite N.eqb_refl.
    replace (memN x (x :: l')) with true by (symmetry; apply memN_In; left; reflexivity). cbn [negb].
    rewrite IHsubseq by assumption. apply filter_ext_in. intros y Hy. f_equal. unfold memN. cbn [existsb].
    destruct (N.eqb_spec y x); [subst; contradiction | reflexivity].
Qed.

Lemma last_opt_app {A} : forall (l : list A) x, last_opt (l ++ [x]) = Some x.
Proof. intros. unfold last_opt. rewrite rev_app_distr. reflexivity. Qed.

Lemma last_opt_in {A} : forall (l : list A) x, last_opt l = Some x -> In x l.
Proof.
  intros l x H. unfold last_opt in H. destruct (rev l) eqn:E; [discriminate|]. inversion H; subst.
  apply in_rev. rewrite E. left. reflexivity.
Qed.

Lemma last_opt_some {A} : forall (l : list A), l <> [] -> exists x, last_opt l = Some x.
Proof.
  intros l H. destruct (exists_last H) as [l' [x ->]]. exists x. apply last_opt_app.
Qed.

Lemma sincr_last_max : forall l x, sincr l -> last_opt l = Some x -> forall y, In y l -> y <= x.
Proof.
  intros l x Hs Hl y Hy. destruct (list_eq_dec N.eq_dec l []) as [-> | Hne]; [destruct Hy|].
  destruct (exists_last Hne) as [l' [z ->]]. rewrite last_opt_app in Hl. inversion Hl; subst.
  apply sincr_app_inv in Hs as [_ [_ Hs]]. apply in_app_or in Hy as [Hy | [<- | []]]; [|lia].
  specialize (Hs y x Hy (or_introl eq_refl)). lia.
Qed.

(* range() of a well-formed non-empty segment is Some interval that contains all its ids *)
Lemma seg_range_contains : forall sg, seg_wf sg = true -> seg_iter sg <> [] ->
  exists lo hi, seg_range sg = Ok (Some (lo, hi)) /\ forall v, In v (seg_iter sg) -> lo <= v <= hi.
Proof.
  intros [s e | s e h | s e bm | a | a] Hwf Hne; cbn [seg_range].
  - cbn [seg_iter] in *. destruct (N.leb_spec e s); [exfalso; apply Hne; apply range_iter_empty; assumption|].
    exists s, (e - 1). split; [reflexivity|]. intros v Hv. apply range_iter_In in Hv. lia.
  - apply seg_wf_holes in Hwf as [Hse [He [Hw _]]]. destruct (N.eqb_spec e 0); [lia|].
    exists s, (e - 1). split; [reflexivity|]. intros v Hv. cbn [seg_iter] in Hv. apply filter_In in Hv as [Hv _].
    apply range_iter_In in Hv. lia.
  - cbn [seg_wf] in Hwf. repeat (apply andb_true_iff in Hwf as [Hwf ?]). apply N.ltb_lt in Hwf.
    destruct (N.eqb_spec e 0); [lia|].
    exists s, (e - 1). split; [reflexivity|]. intros v Hv. cbn [seg_iter] in Hv. apply filter_In in Hv as [Hv _].
    apply range_iter_In in Hv. lia.
  - cbn [seg_wf] in Hwf. repeat (apply andb_true_iff in Hwf as [Hwf ?]). apply strict_sorted_sincr in H0.
    cbn [seg_iter] in *.
    assert (Hf : exists x, earr_first a = Some x /\ In x (earr_iter a) /\ forall v, In v (earr_iter a) -> x <= v).
    { destruct a as [b o | b o | vs]; cbn [earr_first earr_iter] in *.
      - destruct o as [|x o]; [exfalso; apply Hne; reflexivity|]. exists (b + x). split; [reflexivity|]. split; [left; reflexivity|].
        intros v [<- | Hv]; [lia|]. cbn [map] in H0. pose proof (sincr_head_lt _ _ H0 v Hv). lia.
      - destruct o as [|x o]; [exfalso; apply Hne; reflexivity|]. exists (b + x). split; [reflexivity|]. split; [left; reflexivity|].
        intros v [<- | Hv]; [lia|]. cbn [map] in H0. pose proof (sincr_head_lt _ _ H0 v Hv). lia.
      - destruct vs as [|x o]; [exfalso; apply Hne; reflexivity|]. exists x. split; [reflexivity|]. split; [left; reflexivity|].
        intros v [<- | Hv]; [lia|]. pose proof (sincr_head_lt _ _ H0 v Hv). lia. }
    assert (Hl : exists y, earr_last a = Some y /\ forall v, In v (earr_iter a) -> v <= y).
    { destruct (last_opt_some (earr_iter a) Hne) as [y Hy]. exists y. split; [|apply sincr_last_max; assumption].
      destruct a as [b o | b o | vs]; cbn [earr_last earr_iter] in *; try assumption.
      - unfold last_opt in *. rewrite <- map_rev in Hy. destruct (rev o); [discriminate|]. cbn [map] in Hy. inversion Hy. reflexivity.
      - unfold last_opt in *. rewrite <- map_rev in Hy. destruct (rev o); [discriminate|]. cbn [map] in Hy. inversion Hy. reflexivity. }
    destruct Hf as [x [Hx1 [_ Hx3]]]. destruct Hl as [y [Hy1 Hy2]]. rewrite Hx1, Hy1.
    exists x, y. split; [reflexivity|]. intros v Hv. split; [apply Hx3 | apply Hy2]; assumption.
  - cbn [seg_iter] in *.
    assert (Hm : exists x y, earr_min a = Some x /\ earr_max a = Some y /\ forall v, In v (earr_iter a) -> x <= v <= y).
    { destruct a as [b o | b o | vs]; cbn [earr_min earr_max earr_iter] in *.
      - assert (Ho : o <> []) by (intro; subst; apply Hne; reflexivity).
        destruct (list_max_some o Ho) as [m Hm]. rewrite Hm. exists b, (b + m). destruct o; [congruence|].
        split; [reflexivity|]. split; [reflexivity|]. intros v Hv. apply in_map_iff in Hv as [z [<- Hz]].
        pose proof (list_max_ge _ _ Hm z Hz). lia.
      - assert (Ho : o <> []) by (intro; subst; apply Hne; reflexivity).
        destruct (list_max_some o Ho) as [m Hm]. rewrite Hm. exists b, (b + m). destruct o; [congruence|].
        split; [reflexivity|]. split; [reflexivity|]. intros v Hv. apply in_map_iff in Hv as [z [<- Hz]].
        pose proof (list_max_ge _ _ Hm z Hz). lia.
      - destruct (list_min_some vs Hne) as [x Hx]. destruct (list_max_some vs Hne) as [y Hy]. rewrite Hx, Hy.
        exists x, y. split; [reflexivity|]. split; [reflexivity|]. intros v Hv.
        pose proof (list_min_le _ _ Hx v Hv). pose proof (list_max_ge _ _ Hy v Hv). lia. }
    destruct Hm as [x [y [Hx [Hy Hb]]]]. rewrite Hx, Hy. exists x, y. split; [reflexivity | assumption].
Qed.

Theorem seg_delete_ok : forall sg vals, seg_wf sg = true -> ids_ok (seg_iter sg) -> subseq vals (seg_iter sg) ->
  exists sg', seg_delete sg vals = Ok sg' /\ holds sg' (filter (fun x => negb (memN x vals)) (seg_iter sg)).
Proof.
  intros sg vals Hwf Hok Hsub. unfold seg_delete.
  assert (Hassert : (match vals with
           | [] => Ok tt
           | _ => do r <- seg_range sg;
                  match r with
                  | None => Panic
                  | Some (lo, hi) => if forallb (fun v => (lo <=? v) && (v <=? hi)) vals then Ok tt else Panic
                  end
           end) = Ok tt).
  { destruct vals as [|v0 vs] eqn:Ev; [reflexivity|]. rewrite <- Ev in *.
    assert (Hne : seg_iter sg <> []).
    { intro E. rewrite E in Hsub. inversion Hsub. subst. discriminate. }
    destruct (seg_range_contains sg Hwf Hne) as [lo [hi [Hr Hb]]]. rewrite Hr. cbn [obind].
    replace (forallb _ vals) with true; [reflexivity|]. symmetry. apply forallb_forall. intros v Hv.
    specialize (Hb v (subseq_In _ _ Hsub v Hv)). apply andb_true_iff. split; apply N.leb_le; lia. }
  rewrite Hassert. cbn [obind].
  rewrite drop_vals_spec by (try assumption; apply Hok).
  change (from_stats (compute_stats ?l) ?l) with (from_slice l).
  apply ids_ok_from_slice. eapply ids_ok_subseq; [apply subseq_filter | exact Hok].
Qed.

(* ------------------------------------------------------------------ *)
(* RowIdSequence: len / iter / extend / get / slice / select           *)
(* ------------------------------------------------------------------ *)
Lemma nth_N_app {A} : forall (l1 l2 : list A) i,
  nth_N (l1 ++ l2) i = if i <? len_N l1 then nth_N l1 i else nth_N l2 (i - len_N l1).
Proof.
  intros l1 l2 i. unfold nth_N, len_N. destruct (N.ltb_spec i (N.of_nat (length l1))).
  - apply nth_error_app1. lia.
  - rewrite nth_error_app2 by lia. f_equal. lia.
Qed.

Lemma take_N_app_le {A} : forall (l1 l2 : list A) n, n <= len_N l1 -> take_N n (l1 ++ l2) = take_N n l1.
Proof.
  intros l1 l2 n H. unfold take_N, len_N in *. rewrite firstn_app.
  replace (N.to_nat n - length l1)%nat with O by lia. cbn [firstn]. apply app_nil_r.
Qed.

Lemma take_N_app_ge {A} : forall (l1 l2 : list A) n, len_N l1 <= n -> take_N n (l1 ++ l2) = l1 ++ take_N (n - len_N l1) l2.
Proof.
  intros l1 l2 n H. unfold take_N, len_N in *. rewrite firstn_app.
  rewrite firstn_all2 by lia. f_equal. f_equal. lia.
Qed.

Lemma skip_N_app_le {A} : forall (l1 l2 : list A) n, n <= len_N l1 -> skip_N n (l1 ++ l2) = skip_N n l1 ++ l2.
Proof.
  intros l1 l2 n H. unfold skip_N, len_N in *. rewrite skipn_app.
  replace (N.to_nat n - length l1)%nat with O by lia. reflexivity.
Qed.

Lemma skip_N_app_ge {A} : forall (l1 l2 : list A) n, len_N l1 <= n -> skip_N n (l1 ++ l2) = skip_N (n - len_N l1) l2.
Proof.
  intros l1 l2 n H. unfold skip_N, len_N in *. rewrite skipn_app.
  rewrite skipn_all2 by lia. cbn [app]. f_equal. lia.
Qed.

Lemma rseq_wf_cons : forall sg q, rseq_wf (sg :: q) = true <-> seg_wf sg = true /\ rseq_wf q = true.
Proof. intros. unfold rseq_wf. cbn [forallb]. apply andb_true_iff. Qed.

Lemma rseq_wf_app : forall a b, rseq_wf (a ++ b) = true <-> rseq_wf a = true /\ rseq_wf b = true.
Proof. intros. unfold rseq_wf. rewrite forallb_app. apply andb_true_iff. Qed.

Lemma rs_iter_app : forall a b, rs_iter (a ++ b) = rs_iter a ++ rs_iter b.
Proof. intros. unfold rs_iter. apply flat_map_app. Qed.

Lemma rs_iter_cons : forall sg q, rs_iter (sg :: q) = seg_iter sg ++ rs_iter q.
Proof. reflexivity. Qed.

Lemma rs_len_go : forall q acc, rseq_wf q = true ->
  fold_left (fun acc sg => acc + seg_len sg) q acc = acc + len_N (rs_iter q).
Proof.
  induction q as [|sg q IH]; intros acc Hwf; [cbn [fold_left rs_iter flat_map]; rewrite len_N_nil; lia|].
  apply rseq_wf_cons in Hwf as [H1 H2]. cbn [fold_left]. rewrite IH by assumption.
  rewrite rs_iter_cons. rewrite len_N_app. rewrite (seg_len_iter sg H1). lia.
Qed.

Theorem rs_len_iter : forall q, rseq_wf q = true -> rs_len q = len_N (rs_iter q).
Proof. intros q H. unfold rs_len. rewrite rs_len_go by assumption. lia. Qed.

Lemma last_opt_split {A} : forall (l : list A) x, last_opt l = Some x -> l = removelast l ++ [x].
Proof.
  intros l x H. destruct l as [|y l]; [discriminate|].
  assert (Hne : y :: l <> []) by discriminate. destruct (exists_last Hne) as [l' [z E]]. rewrite E in *.
  rewrite last_opt_app in H. inversion H; subst. rewrite removelast_last. reflexivity.
Qed.

Theorem rs_extend_ok : forall a b, rseq_wf a = true -> rseq_wf b = true ->
  rseq_wf (rs_extend a b) = true /\ rs_iter (rs_extend a b) = rs_iter a ++ rs_iter b.
Proof.
  intros a b Ha Hb. unfold rs_extend.
  assert (Hdefault : rseq_wf (a ++ b) = true /\ rs_iter (a ++ b) = rs_iter a ++ rs_iter b).
  { split; [apply rseq_wf_app; split; assumption | apply rs_iter_app]. }
  destruct (last_opt a) as [[s1 e1 | | | | ]|] eqn:El; try exact Hdefault.
  destruct b as [|[s2 e2 | | | | ] b']; try exact Hdefault.
  destruct (N.eqb_spec e1 s2) as [-> | Hne]; [|exact Hdefault].
  apply last_opt_split in El. rewrite El in Ha. apply rseq_wf_app in Ha as [Ha1 Ha2].
  apply rseq_wf_cons in Ha2 as [Ha2 _]. apply rseq_wf_cons in Hb as [Hb1 Hb2].
  cbn [seg_wf] in Ha2, Hb1. apply andb_true_iff in Ha2 as [Ha2 _]. apply andb_true_iff in Hb1 as [Hb1 Hb1'].
  apply N.leb_le in Ha2. apply N.leb_le in Hb1.
  split.
  - apply rseq_wf_app. split; [assumption|]. cbn [app]. apply rseq_wf_cons. split; [|assumption].
    cbn [seg_wf]. apply andb_true_iff. split; [apply N.leb_le; lia | assumption].
  - set (r := removelast a) in *. rewrite El. rewrite !rs_iter_app. rewrite !rs_iter_cons.
    cbn [seg_iter rs_iter flat_map]. rewrite !app_nil_r. rewrite <- !app_assoc. f_equal. rewrite app_assoc. f_equal.
    apply range_iter_split. lia.
Qed.

Lemma rs_get_go_spec : forall q index offset, rseq_wf q = true -> offset <= index ->
  rs_get_go q index offset = nth_N (rs_iter q) (index - offset).
Proof.
  induction q as [|sg q IH]; intros index offset Hwf Hle.
  - cbn. unfold nth_N. destruct (N.to_nat (index - offset)); reflexivity.
  - apply rseq_wf_cons in Hwf as [H1 H2]. cbn [rs_get_go]. rewrite rs_iter_cons, nth_N_app.
    rewrite seg_len_iter by assumption.
    destruct (N.ltb_spec index (offset + len_N (seg_iter sg))).
    + replace (index - offset <? len_N (seg_iter sg)) with true by (symmetry; apply N.ltb_lt; lia).
      apply seg_get_iter. assumption.
    + replace (index - offset <? len_N (seg_iter sg)) with false by (symmetry; apply N.ltb_ge; lia).
      rewrite IH by (assumption || lia). f_equal. lia.
Qed.

Theorem rs_get_ok : forall q i, rseq_wf q = true -> rs_get q i = nth_N (rs_iter q) i.
Proof. intros. unfold rs_get. rewrite rs_get_go_spec by (assumption || lia). f_equal. lia. Qed.

(* slice *)
Lemma slice_start_spec : forall q offset, rseq_wf q = true -> offset < len_N (rs_iter q) ->
  exists sg rest os, slice_start q offset = (sg :: rest, os) /\ rseq_wf (sg :: rest) = true
    /\ os < len_N (seg_iter sg) /\ skip_N offset (rs_iter q) = skip_N os (rs_iter (sg :: rest)).
Proof.
  induction q as [|sg q IH]; intros offset Hwf Hlt; [cbn [rs_iter flat_map] in Hlt; rewrite len_N_nil in Hlt; lia|].
  pose proof Hwf as Hwf0. apply rseq_wf_cons in Hwf as [H1 H2]. cbn [slice_start]. rewrite seg_len_iter by assumption.
  destruct (N.ltb_spec offset (len_N (seg_iter sg))).
  - exists sg, q, offset. repeat split; assumption.
  - rewrite rs_iter_cons, len_N_app in Hlt.
    destruct (IH (offset - len_N (seg_iter sg)) H2) as [sg' [rest [os [E [Hw [Hos Hsk]]]]]]; [lia|].
    exists sg', rest, os. split; [assumption|]. split; [assumption|]. split; [assumption|].
    rewrite rs_iter_cons, skip_N_app_ge by assumption. assumption.
Qed.

Lemma slice_end_spec : forall q n acc, rseq_wf q = true -> 0 < n -> n <= len_N (rs_iter q) ->
  exists segs ol, slice_end q n acc = Ok (acc ++ segs, ol) /\ segs <> []
    /\ slice_iter_tail segs ol = take_N n (rs_iter q)
    /\ (forall sg, segs = [sg] -> ol = n /\ n <= len_N (seg_iter sg)).
Proof.
  induction q as [|sg q IH]; intros n acc Hwf Hpos Hle; [cbn [rs_iter flat_map] in Hle; rewrite len_N_nil in Hle; lia|].
  apply rseq_wf_cons in Hwf as [H1 H2]. cbn [slice_end]. rewrite seg_len_iter by assumption.
  rewrite rs_iter_cons in *. rewrite len_N_app in Hle.
  destruct (N.leb_spec n (len_N (seg_iter sg))).
  - exists [sg], n. split; [reflexivity|]. split; [discriminate|]. split; [|intros sg0 E0; inversion E0; subst; split; [reflexivity | assumption]].
    cbn [slice_iter_tail]. rewrite take_N_app_le by assumption. reflexivity.
  - destruct (IH (n - len_N (seg_iter sg)) (acc ++ [sg]) H2) as [segs [ol [E [Hne [Ht _]]]]]; [lia | lia |].
    exists (sg :: segs), ol. split; [rewrite E; rewrite <- app_assoc; reflexivity|]. split; [discriminate|]. split.
    + destruct segs as [|s2 segs']; [congruence|]. cbn [slice_iter_tail] in *. rewrite Ht.
      rewrite take_N_app_ge by lia. reflexivity.
    + intros sg0 E0. inversion E0; subst. congruence.
Qed.

Lemma skip_take_comm {A} : forall (l : list A) m n, skip_N m (take_N n l) = take_N (n - m) (skip_N m l).
Proof.
  intros. unfold skip_N, take_N. rewrite skipn_firstn_comm. f_equal.
  destruct (N.leb_spec m n); lia.
Qed.

Theorem rs_slice_ok : forall q offset len, rseq_wf q = true -> offset + len <= len_N (rs_iter q) ->
  rs_slice q offset len = Ok (take_N len (skip_N offset (rs_iter q))).
Proof.
  intros q offset len Hwf Hle. unfold rs_slice. destruct (N.eqb_spec len 0) as [-> | Hne]; [reflexivity|].
  destruct (slice_start_spec q offset Hwf) as [sg [rest [os [E [Hw [Hos Hsk]]]]]]; [lia|].
  rewrite E. rewrite Hsk.
  assert (Hlen : len_N (skip_N offset (rs_iter q)) = len_N (rs_iter q) - offset).
  { unfold skip_N, len_N. rewrite skipn_length. lia. }
  assert (Hlen2 : len_N (skip_N os (rs_iter (sg :: rest))) = len_N (rs_iter (sg :: rest)) - os).
  { unfold skip_N, len_N. rewrite skipn_length. lia. }
  rewrite Hsk in Hlen.
  destruct (slice_end_spec (sg :: rest) (os + len) [] Hw) as [segs [ol [E2 [Hne2 [Ht Hone]]]]]; [lia | lia |].
  rewrite E2. cbn [obind app].
  assert (Hsegs : exists rest', segs = sg :: rest').
  { cbn [slice_end] in E2. destruct (_ <=? _) in E2.
    - inversion E2. eexists; reflexivity.
    - clear -E2. assert (forall q n acc r, slice_end q n acc = Ok r -> exists t, fst r = acc ++ t).
      { induction q as [|s q IH]; intros n acc r H; [discriminate|]. cbn [slice_end] in H. destruct (_ <=? _) in H.
        - inversion H. eexists; reflexivity.
        - apply IH in H as [t Ht]. exists (s :: t). rewrite Ht, <- app_assoc. reflexivity. }
      apply H in E2 as [t Ht]. cbn [fst app] in Ht. exists t. exact Ht. }
  destruct Hsegs as [rest' ->].
  destruct rest' as [|s2 rest''].
  - destruct (Hone sg eq_refl) as [-> Hfit]. unfold csub. replace (os <=? os + len) with true by (symmetry; apply N.leb_le; lia).
    cbn [obind]. replace (os + len - os) with len by lia. cbn [slice_iter_tail] in Ht.
    f_equal. rewrite rs_iter_cons. rewrite skip_N_app_le by lia.
    rewrite take_N_app_le; [reflexivity|]. unfold skip_N, len_N in *. rewrite skipn_length. lia.
  - f_equal. change (slice_iter_tail (sg :: s2 :: rest'') ol) with (seg_iter sg ++ slice_iter_tail (s2 :: rest'') ol) in Ht.
    assert (skip_N os (seg_iter sg ++ slice_iter_tail (s2 :: rest'') ol) = skip_N os (take_N (os + len) (rs_iter (sg :: rest)))) by (rewrite Ht; reflexivity).
    rewrite skip_N_app_le in H by lia. rewrite H. rewrite skip_take_comm. f_equal. lia.
Qed.

(* ------------------------------------------------------------------ *)
(* select                                                              *)
(* ------------------------------------------------------------------ *)
Definition opt_list {A} (o : option A) : list A := match o with Some x => [x] | None => [] end.
Definition select_spec (l : list N) (sel : list N) : list N := flat_map (fun i => opt_list (nth_N l i)) sel.

Fixpoint sorted_from (b : N) (sel : list N) : Prop :=
  match sel with [] => True | i :: r => b <= i /\ sorted_from i r end.

Lemma select_advance_spec : forall (rest : rseq) c index rp P L,
  rseq_wf (c :: rest) = true -> L = P ++ seg_iter c ++ rs_iter rest -> len_N P = rp -> rp <= index ->
  match select_advance c rest index rp with
  | Some (c', rest', rp') =>
      exists P', L = P' ++ seg_iter c' ++ rs_iter rest' /\ len_N P' = rp'
                 /\ rp' <= index < rp' + len_N (seg_iter c') /\ rseq_wf (c' :: rest') = true
  | None => len_N L <= index
  end.
Proof.
  induction rest as [|nx rest IH]; intros c index rp P L Hwf HL HP Hle.
  - cbn [select_advance]. pose proof Hwf as Hwf0. apply rseq_wf_cons in Hwf as [H1 _]. rewrite seg_len_iter by assumption.
    destruct (N.ltb_spec (index - rp) (len_N (seg_iter c))).
    + exists P. repeat split; try assumption; lia.
    + subst L. rewrite !len_N_app. cbn [rs_iter flat_map]. rewrite len_N_nil. lia.
  - cbn [select_advance]. pose proof Hwf as Hwf0. apply rseq_wf_cons in Hwf as [H1 H2]. rewrite seg_len_iter by assumption.
    destruct (N.ltb_spec (index - rp) (len_N (seg_iter c))).
    + exists P. repeat split; try assumption; lia.
    + apply (IH nx index (rp + len_N (seg_iter c)) (P ++ seg_iter c) L); try assumption.
      * rewrite HL, rs_iter_cons, <- !app_assoc. reflexivity.
      * rewrite len_N_app. lia.
      * lia.
Qed.

Lemma select_none : forall sel rp last L, sorted_from last sel -> len_N L <= last ->
  rs_select_go None rp last sel = Ok (select_spec L sel).
Proof.
  induction sel as [|i sel IH]; intros rp last L Hs Hl; [reflexivity|].
  destruct Hs as [Hs1 Hs2]. cbn [rs_select_go]. replace (i <? last) with false by (symmetry; apply N.ltb_ge; assumption).
  rewrite (IH rp i L) by (assumption || lia). unfold select_spec. cbn [flat_map].
  rewrite nth_N_none by lia. reflexivity.
Qed.

Lemma select_some : forall sel c (rest : rseq) rp last P L,
  rseq_wf (c :: rest) = true -> L = P ++ seg_iter c ++ rs_iter rest -> len_N P = rp -> rp <= last ->
  sorted_from last sel ->
  rs_select_go (Some (c, rest)) rp last sel = Ok (select_spec L sel).
Proof.
  induction sel as [|i sel IH]; intros c rest rp last P L Hwf HL HP Hle Hs; [reflexivity|].
  destruct Hs as [Hs1 Hs2]. cbn [rs_select_go]. replace (i <? last) with false by (symmetry; apply N.ltb_ge; assumption).
  pose proof (select_advance_spec rest c i rp P L Hwf HL HP) as Hadv.
  destruct (select_advance c rest i rp) as [[[c' rest'] rp']|].
  - destruct Hadv as [P' [HL' [HP' [Hr Hwf']]]]; [lia|].
    pose proof Hwf' as Hwf0. apply rseq_wf_cons in Hwf' as [Hc' _].
    rewrite seg_get_iter by assumption.
    assert (Hnth : nth_N L i = nth_N (seg_iter c') (i - rp')).
    { rewrite HL'. rewrite nth_N_app. replace (i <? len_N P') with false by (symmetry; apply N.ltb_ge; lia).
      rewrite nth_N_app. rewrite HP'. replace (i - rp' <? len_N (seg_iter c')) with true by (symmetry; apply N.ltb_lt; lia). reflexivity. }
    destruct (nth_N_some (seg_iter c') (i - rp')) as [v Hv]; [lia|].
    rewrite Hv. cbv iota beta. assert (Hgo := IH c' rest' rp' i P' L Hwf0 HL' HP' ltac:(lia) Hs2). rewrite Hgo. cbn [obind].
    unfold select_spec. cbn [flat_map]. rewrite Hnth, Hv. reflexivity.
  - specialize (Hadv ltac:(lia)). rewrite (select_none sel rp i L) by assumption.
    unfold select_spec. cbn [flat_map]. rewrite nth_N_none by assumption. reflexivity.
Qed.

Theorem rs_select_ok : forall q sel, rseq_wf q = true -> sorted_from 0 sel ->
  rs_select q sel = Ok (select_spec (rs_iter q) sel).
Proof.
  intros q sel Hwf Hs. unfold rs_select. destruct q as [|c rest].
  - apply select_none; [assumption | cbn; lia].
  - apply (select_some sel c rest 0 0 [] (rs_iter (c :: rest))); try assumption; try reflexivity; lia.
Qed.

(* ------------------------------------------------------------------ *)
(* RowIdSequence::delete                                               *)
(* ------------------------------------------------------------------ *)
Lemma ninsert_In : forall x l y, In y (ninsert x l) <-> y = x \/ In y l.
Proof.
  intros x l y. induction l as [|z l IH]; cbn [ninsert In]; [intuition congruence|].
  destruct (x <=? z); cbn [In]; [intuition congruence|]. rewrite IH. intuition congruence.
Qed.

Lemma ninsert_sincr : forall x l, sincr l -> ~ In x l -> sincr (ninsert x l).
Proof.
  intros x l. induction l as [|z l IH]; intros Hs Hn; [constructor|].
  cbn [ninsert]. destruct (N.leb_spec x z).
  - apply sincr_cons_iff. split; [assumption|]. intros y [<- | Hy].
    + assert (x <> z) by (intro; subst; apply Hn; left; reflexivity). lia.
    + pose proof (sincr_head_lt z l Hs y Hy). lia.
  - apply sincr_cons_iff in Hs as [Hs1 Hs2]. apply sincr_cons_iff. split.
    + apply IH; [assumption | intro; apply Hn; right; assumption].
    + intros y Hy. apply ninsert_In in Hy as [-> | Hy]; [assumption | apply Hs2; assumption].
Qed.

Lemma nsort_In : forall l y, In y (nsort l) <-> In y l.
Proof.
  induction l as [|x l IH]; intro y; [reflexivity|]. unfold nsort in *. cbn [fold_right In].
  rewrite ninsert_In, IH. intuition congruence.
Qed.

Lemma nsort_NoDup_sincr : forall l, NoDup l -> sincr (nsort l).
Proof.
  induction l as [|x l IH]; intro H; [constructor|]. inversion H; subst. unfold nsort in *. cbn [fold_right].
  apply ninsert_sincr; [apply IH; assumption|]. fold (nsort l). rewrite nsort_In. assumption.
Qed.

(* elements of l at the given positions *)
Definition pick (l : list N) (ps : list N) : list N := flat_map (fun p => opt_list (nth_N l p)) ps.

Lemma pick_cons_pos : forall x l ps, (forall p, In p ps -> 0 < p) ->
  pick (x :: l) ps = pick l (map (fun p => p - 1) ps).
Proof.
  intros x l ps. induction ps as [|p ps IH]; intro H; [reflexivity|].
  unfold pick in *. cbn [flat_map map]. rewrite IH by (intros; apply H; right; assumption).
  f_equal. rewrite nth_N_pos by (apply H; left; reflexivity). reflexivity.
Qed.

Lemma sincr_map_pred : forall ps, sincr ps -> (forall p, In p ps -> 0 < p) -> sincr (map (fun p => p - 1) ps).
Proof.
  induction ps as [|p ps IH]; intros Hs Hp; [constructor|].
  apply sincr_cons_iff in Hs as [Hs1 Hs2]. cbn [map]. apply sincr_cons_iff. split.
  - apply IH; [assumption | intros; apply Hp; right; assumption].
  - intros y Hy. apply in_map_iff in Hy as [z [<- Hz]]. specialize (Hs2 z Hz).
    specialize (Hp p (or_introl eq_refl)). lia.
Qed.

Lemma pick_subseq : forall l ps, sincr ps -> (forall p, In p ps -> p < len_N l) -> subseq (pick l ps) l.
Proof.
  induction l as [|x l IH]; intros ps Hs Hlt.
  - destruct ps as [|p ps]; [constructor|]. specialize (Hlt p (or_introl eq_refl)). rewrite len_N_nil in Hlt. lia.
  - destruct ps as [|p ps]; [apply subseq_nil_l|].
    pose proof Hs as Hs0. apply sincr_cons_iff in Hs as [Hs1 Hs2].
    destruct (N.eqb_spec p 0) as [-> | Hp].
    + unfold pick. cbn [flat_map]. rewrite nth_N_0. cbn [opt_list app]. apply sub_keep.
      fold (pick (x :: l) ps). rewrite pick_cons_pos by (intros q Hq; specialize (Hs2 q Hq); lia).
      apply IH.
      * apply sincr_map_pred; [assumption | intros q Hq; specialize (Hs2 q Hq); lia].
      * intros q Hq. apply in_map_iff in Hq as [z [<- Hz]]. specialize (Hlt z (or_intror Hz)). specialize (Hs2 z Hz).
        rewrite len_N_cons in Hlt. lia.
    + assert (Hall : forall q, In q (p :: ps) -> 0 < q).
      { intros q [<- | Hq]; [lia | specialize (Hs2 q Hq); lia]. }
      rewrite pick_cons_pos by assumption. apply sub_skip. apply IH.
      * apply sincr_map_pred; assumption.
      * intros q Hq. apply in_map_iff in Hq as [z [<- Hz]]. specialize (Hlt z Hz). specialize (Hall z Hz).
        rewrite len_N_cons in Hlt. lia.
Qed.

Lemma pick_In : forall l ps x, In x (pick l ps) <-> exists p, In p ps /\ nth_N l p = Some x.
Proof.
  intros l ps x. unfold pick. rewrite in_flat_map. split.
  - intros [p [Hp Hx]]. exists p. split; [assumption|]. destruct (nth_N l p); cbn [opt_list In] in Hx; [|destruct Hx].
    destruct Hx as [-> | []]. reflexivity.
  - intros [p [Hp Hx]]. exists p. split; [assumption|]. rewrite Hx. left. reflexivity.
Qed.

Lemma map_get_pick : forall sg ps, seg_wf sg = true -> (forall p, In p ps -> p < len_N (seg_iter sg)) ->
  map_get sg ps = Ok (pick (seg_iter sg) ps).
Proof.
  intros sg ps Hwf. induction ps as [|p ps IH]; intro Hlt; [reflexivity|].
  cbn [map_get]. rewrite seg_get_iter by assumption.
  destruct (nth_N_some (seg_iter sg) p) as [v Hv]; [apply Hlt; left; reflexivity|].
  rewrite Hv. rewrite IH by (intros; apply Hlt; right; assumption). cbn [obind].
  unfold pick. cbn [flat_map]. rewrite Hv. reflexivity.
Qed.

Lemma seg_range_ok : forall sg, seg_wf sg = true ->
  exists r, seg_range sg = Ok r /\
    forall v, In v (seg_iter sg) -> match r with Some (lo, hi) => lo <= v <= hi | None => False end.
Proof.
  intros sg Hwf. destruct (list_eq_dec N.eq_dec (seg_iter sg) []) as [E | Hne].
  - assert (exists r, seg_range sg = Ok r) as [r Hr].
    { destruct sg as [s e | s e h | s e bm | a | a]; cbn [seg_range].
      - destruct (e <=? s); eauto.
      - apply seg_wf_holes in Hwf as [Hse _]. destruct (N.eqb_spec e 0); [lia | eauto].
      - cbn [seg_wf] in Hwf. repeat (apply andb_true_iff in Hwf as [Hwf ?]). apply N.ltb_lt in Hwf.
        destruct (N.eqb_spec e 0); [lia | eauto].
      - cbn [seg_wf] in Hwf. repeat (apply andb_true_iff in Hwf as [Hwf ?]). cbn [seg_iter] in E.
        rewrite earr_len_iter, E in H. discriminate.
      - cbn [seg_wf] in Hwf. repeat (apply andb_true_iff in Hwf as [Hwf ?]). cbn [seg_iter] in E.
        rewrite earr_len_iter, E in H. discriminate. }
    exists r. split; [assumption|]. rewrite E. intros v [].
  - destruct (seg_range_contains sg Hwf Hne) as [lo [hi [Hr Hb]]]. exists (Some (lo, hi)). split; assumption.
Qed.

Lemma index_of_lt : forall v l i, index_of v l = Some i -> i < len_N l.
Proof.
  intros v l i H. apply index_of_some_nth in H. unfold nth_N, len_N in *.
  assert (nth_error l (N.to_nat i) <> None) by congruence. apply nth_error_Some in H0. lia.
Qed.

Lemma index_of_inj : forall l a b i, index_of a l = Some i -> index_of b l = Some i -> a = b.
Proof. intros l a b i Ha Hb. apply index_of_some_nth in Ha, Hb. congruence. Qed.

Lemma index_of_In : forall v l, In v l -> exists i, index_of v l = Some i.
Proof.
  intros v l H. destruct (index_of v l) eqn:E; [eauto|]. apply index_of_none in E. contradiction.
Qed.

Lemma NoDup_flat_map_pos : forall (f : N -> list N) R,
  NoDup R -> (forall r, length (f r) <= 1)%nat -> (forall r1 r2 p, In p (f r1) -> In p (f r2) -> r1 = r2) ->
  NoDup (flat_map f R).
Proof.
  intros f R Hnd H1 Hinj. induction R as [|r R IH]; [constructor|]. inversion Hnd; subst. cbn [flat_map].
  specialize (H1 r) as H1r. destruct (f r) as [|p [|p' t]] eqn:E; cbn [app length] in *; [apply IH; assumption | | lia].
  constructor; [|apply IH; assumption]. intro Hin. apply in_flat_map in Hin as [r2 [Hr2 Hp]].
  assert (r = r2) by (apply (Hinj r r2 p); [rewrite E; left; reflexivity | assumption]). subst. contradiction.
Qed.

Lemma seg_matches_spec : forall sg R, seg_wf sg = true -> NoDup R ->
  exists M, seg_matches sg R = Ok M /\ sincr M /\
    (forall p, In p M <-> exists r, In r R /\ index_of r (seg_iter sg) = Some p).
Proof.
  intros sg R Hwf HR. unfold seg_matches. destruct (seg_range_ok sg Hwf) as [rg [Hr Hb]]. rewrite Hr. cbn [obind].
  set (f := fun id => match rg with
        | Some (lo, hi) => if (lo <=? id) && (id <=? hi) then match seg_position sg id with Some p => [p] | None => [] end else []
        | None => [] end).
  assert (Hf : forall id, f id = opt_list (index_of id (seg_iter sg))).
  { intro id. unfold f. destruct (index_of id (seg_iter sg)) as [p|] eqn:E.
    - assert (Hin : In id (seg_iter sg)).
      { apply index_of_some_nth in E. unfold nth_N in E. eapply nth_error_In; eauto. }
      specialize (Hb id Hin). destruct rg as [[lo hi]|]; [|destruct Hb].
      replace ((lo <=? id) && (id <=? hi)) with true by (symmetry; apply andb_true_iff; split; apply N.leb_le; lia).
      rewrite seg_position_iter by assumption. rewrite E. reflexivity.
    - destruct rg as [[lo hi]|]; [|reflexivity]. destruct ((lo <=? id) && (id <=? hi)); [|reflexivity].
      rewrite seg_position_iter by assumption. rewrite E. reflexivity. }
  eexists. split; [reflexivity|]. split.
  - apply nsort_NoDup_sincr. apply NoDup_flat_map_pos; [assumption | |].
    + intro r. rewrite Hf. destruct (index_of r (seg_iter sg)); cbn; lia.
    + intros r1 r2 p H1 H2. rewrite Hf in H1, H2.
      destruct (index_of r1 (seg_iter sg)) eqn:E1; cbn [opt_list In] in H1; [|destruct H1].
      destruct (index_of r2 (seg_iter sg)) eqn:E2; cbn [opt_list In] in H2; [|destruct H2].
      destruct H1 as [-> | []]. destruct H2 as [-> | []]. eapply index_of_inj; eauto.
  - intro p. rewrite nsort_In, in_flat_map. split.
    + intros [r [Hr1 Hr2]]. exists r. split; [assumption|]. rewrite Hf in Hr2.
      destruct (index_of r (seg_iter sg)); cbn [opt_list In] in Hr2; [|destruct Hr2]. destruct Hr2 as [-> | []]. reflexivity.
    + intros [r [Hr1 Hr2]]. exists r. split; [assumption|]. rewrite Hf, Hr2. left. reflexivity.
Qed.

Lemma subseq_app_l : forall a b, subseq a (a ++ b).
Proof. intros. rewrite <- (app_nil_r a) at 1. apply subseq_app; [apply subseq_refl | apply subseq_nil_l]. Qed.
Lemma subseq_app_r : forall a b, subseq b (a ++ b).
Proof. intros. change b with ([] ++ b) at 1. apply subseq_app; [apply subseq_nil_l | apply subseq_refl]. Qed.

Theorem rs_delete_ok : forall q R, rseq_wf q = true -> ids_ok (rs_iter q) -> NoDup R ->
  exists q', rs_delete q R = Ok q' /\ rseq_wf q' = true
             /\ rs_iter q' = filter (fun x => negb (memN x R)) (rs_iter q).
Proof.
  induction q as [|sg q IH]; intros R Hwf Hok HR; [exists []; repeat split|].
  apply rseq_wf_cons in Hwf as [H1 H2]. rewrite rs_iter_cons in Hok.
  assert (Hok1 : ids_ok (seg_iter sg)) by (eapply ids_ok_subseq; [apply subseq_app_l | exact Hok]).
  assert (Hok2 : ids_ok (rs_iter q)) by (eapply ids_ok_subseq; [apply subseq_app_r | exact Hok]).
  destruct (IH R H2 Hok2 HR) as [q' [Eq [Hwq Hiq]]].
  destruct (seg_matches_spec sg R H1 HR) as [M [EM [HMs HMin]]].
  cbn [rs_delete].
  assert (EM' : (match R with [] => Ok [] | _ => seg_matches sg R end) = Ok M).
  { destruct R as [|r0 R']; [|assumption]. f_equal. destruct M as [|p M']; [reflexivity|].
    exfalso. destruct (proj1 (HMin p) (or_introl eq_refl)) as [r [[] _]]. }
  rewrite EM'. cbn [obind].
  assert (Hsg : exists sg', (match M with [] => Ok sg | _ => do ids <- map_get sg M; seg_delete sg ids end) = Ok sg'
            /\ holds sg' (filter (fun x => negb (memN x R)) (seg_iter sg))).
  { assert (Hlt : forall p, In p M -> p < len_N (seg_iter sg)).
    { intros p Hp. apply HMin in Hp as [r [_ Hr]]. eapply index_of_lt; eauto. }
    assert (Hmem : forall x, In x (seg_iter sg) -> memN x (pick (seg_iter sg) M) = memN x R).
    { intros x Hx. destruct (memN x R) eqn:E.
      - apply memN_In. apply memN_In in E. apply pick_In. destruct (index_of_In x _ Hx) as [i Hi].
        exists i. split; [apply HMin; exists x; split; assumption | apply index_of_some_nth; assumption].
      - apply memN_false. apply memN_false in E. intro Hin. apply E. apply pick_In in Hin as [p [Hp Hnth]].
        apply HMin in Hp as [r [Hr1 Hr2]]. apply index_of_some_nth in Hr2. congruence. }
    destruct M as [|p0 M'] eqn:EMM.
    - exists sg. split; [reflexivity|]. split; [assumption|].
      symmetry. rewrite <- (filter_ext_in (fun _ => true)).
      + clear. induction (seg_iter sg) as [|x l IHl]; [reflexivity | cbn [filter]; f_equal; assumption].
      + intros x Hx. rewrite <- (Hmem x Hx). reflexivity.
    - rewrite <- EMM in *. rewrite map_get_pick by assumption. cbn [obind].
      destruct (seg_delete_ok sg (pick (seg_iter sg) M) H1 Hok1) as [sg' [Ed Hh]]; [apply pick_subseq; assumption|].
      exists sg'. split; [assumption|]. destruct Hh as [Hw Hi]. split; [assumption|]. rewrite Hi.
      apply filter_ext_in. intros x Hx. rewrite Hmem by assumption. reflexivity. }
  destruct Hsg as [sg' [Esg [Hwsg Hisg]]]. rewrite Esg. cbn [obind]. rewrite Eq. cbn [obind].
  exists (sg' :: q'). split; [reflexivity|]. split; [apply rseq_wf_cons; split; assumption|].
  rewrite !rs_iter_cons, filter_app, Hisg, Hiq. reflexivity.
Qed.

(* ------------------------------------------------------------------ *)
(* mask_to_offset_ranges                                               *)
(* ------------------------------------------------------------------ *)
Fixpoint enum_from (b : N) (l : list N) : list (N * N) :=
  match l with [] => [] | x :: xs => (b, x) :: enum_from (b + 1) xs end.

Definition flat_ranges (rs : list (N * N)) : list N := flat_map (fun r => range_iter (fst r) (snd r)) rs.

Lemma take_split {A} : forall (l : list A) p q, p <= q -> take_N q l = take_N p l ++ take_N (q - p) (skip_N p l).
Proof.
  intros l p q H. unfold take_N, skip_N. rewrite <- (firstn_skipn (N.to_nat p) l) at 1.
  rewrite firstn_app. rewrite firstn_firstn. replace (Init.Nat.min (N.to_nat q) (N.to_nat p)) with (N.to_nat p) by lia.
  f_equal. rewrite firstn_length.
  destruct (Nat.le_gt_cases (N.to_nat p) (length l)).
  - replace (N.to_nat q - Init.Nat.min (N.to_nat p) (length l))%nat with (N.to_nat (q - p)) by lia. reflexivity.
  - rewrite skipn_all2 by lia. rewrite !firstn_nil. reflexivity.
Qed.

Lemma skip_skip {A} : forall (l : list A) p n, skip_N n (skip_N p l) = skip_N (p + n) l.
Proof.
  intros l p n. unfold skip_N. replace (N.to_nat (p + n)) with (N.to_nat p + N.to_nat n)%nat by lia.
  generalize (N.to_nat p) as a. generalize (N.to_nat n) as b. intros b a. revert l.
  induction a as [|a IH]; intro l; [reflexivity|]. destruct l as [|x l]; [cbn [skipn Nat.add]; destruct b; reflexivity|].
  cbn [skipn Nat.add]. apply IH.
Qed.


Lemma enum_from_app : forall l1 l2 b, enum_from b (l1 ++ l2) = enum_from b l1 ++ enum_from (b + len_N l1) l2.
Proof.
  induction l1 as [|x l1 IH]; intros l2 b; cbn [app enum_from].
  - rewrite len_N_nil. f_equal. lia.
  - rewrite IH. cbn [app]. do 3 f_equal. rewrite len_N_cons. lia.
Qed.

Lemma combine_seq_enum : forall l k, combine (map N.of_nat (seq k (length l))) l = enum_from (N.of_nat k) l.
Proof.
  induction l as [|x l IH]; intro k; [reflexivity|]. cbn [length seq map combine enum_from]. f_equal.
  rewrite IH. f_equal. lia.
Qed.

Lemma group_go_flat : forall l cur, (match cur with Some (s, e) => s <= e | None => True end) ->
  flat_ranges (group_go cur l) = (match cur with Some (s, e) => range_iter s e | None => [] end) ++ l.
Proof.
  induction l as [|id l IH]; intros cur Hc.
  - destruct cur as [[s e]|]; cbn [group_go flat_ranges flat_map fst snd]; rewrite ?app_nil_r; reflexivity.
  - assert (Hid : id <= id + 1) by lia.
    assert (Hone : range_iter id (id + 1) = [id]).
    { rewrite (range_iter_cons id (id + 1)) by lia. rewrite range_iter_empty by lia. reflexivity. }
    cbn [group_go]. destruct cur as [[s e]|].
    + destruct (N.eqb_spec e id) as [-> | Hne].
      * assert (Hs : s <= id + 1) by lia. rewrite (IH (Some (s, id + 1)) Hs).
        rewrite range_iter_snoc by assumption. rewrite <- app_assoc. reflexivity.
      * unfold flat_ranges in *. cbn [flat_map fst snd]. rewrite (IH (Some (id, id + 1)) Hid). rewrite Hone. reflexivity.
    + rewrite (IH (Some (id, id + 1)) Hid). rewrite Hone. reflexivity.
Qed.

Lemma group_ranges_flat : forall l, flat_ranges (group_ranges l) = l.
Proof. intro l. unfold group_ranges. rewrite group_go_flat by exact I. reflexivity. Qed.

Lemma flat_ranges_app : forall a b, flat_ranges (a ++ b) = flat_ranges a ++ flat_ranges b.
Proof. intros. unfold flat_ranges. apply flat_map_app. Qed.

Lemma filter_lt_split : forall hs a a', a <= a' ->
  len_N (filter (fun h => h <? a') hs)
  = len_N (filter (fun h => h <? a) hs) + len_N (filter (fun h => h <? a') (filter (fun h => negb (h <? a)) hs)).
Proof.
  intros hs a a' Hle. induction hs as [|h hs IH]; [reflexivity|]. cbn [filter].
  destruct (N.ltb_spec h a); cbn [negb filter].
  - replace (h <? a') with true by (symmetry; apply N.ltb_lt; lia). rewrite !len_N_cons. lia.
  - destruct (h <? a'); rewrite ?len_N_cons; lia.
Qed.

Lemma holes_offsets_spec : forall addrs hs passed s base, sincr addrs -> sincr hs ->
  holes_offsets addrs hs passed s base
  = map (fun a => a - s + base - (passed + len_N (filter (fun h => h <? a) hs))) addrs.
Proof.
  induction addrs as [|a addrs IH]; intros hs passed s base Ha Hh; [reflexivity|].
  cbn [holes_offsets map]. rewrite take_while_lt_sincr, drop_while_lt_sincr by assumption. f_equal.
  pose proof Ha as Ha0. apply sincr_cons_iff in Ha as [Ha1 Ha2].
  rewrite IH by (try assumption; apply sincr_filter; assumption).
  apply map_ext_in. intros a' Ha'. specialize (Ha2 a' Ha'). rewrite (filter_lt_split hs a a') by lia. f_equal. lia.
Qed.

Lemma remove_count_spec : forall hs all, NoDup hs -> (forall h, In h hs -> In h all) -> remove_count all hs = len_N hs.
Proof.
  induction hs as [|h hs IH]; intros all Hnd Hin; [reflexivity|]. inversion Hnd; subst.
  cbn [remove_count]. replace (memN h all) with true by (symmetry; apply memN_In; apply Hin; left; reflexivity).
  rewrite IH; [rewrite len_N_cons; reflexivity | assumption |].
  intros h' Hh'. apply filter_In. split; [apply Hin; right; assumption|].
  apply negb_true_iff. apply N.eqb_neq. intro; subst. contradiction.
Qed.

Lemma count_false_app : forall a b, count_false (a ++ b) = count_false a + count_false b.
Proof. intros. unfold count_false. rewrite filter_app, len_N_app. reflexivity. Qed.

Lemma bitmap_offsets_spec : forall addrs s e bm pos passed base,
  sincr addrs -> (forall a, In a addrs -> s + pos <= a < e) -> len_N bm = e - s ->
  passed = count_false (take_N pos bm) ->
  bitmap_offsets addrs s (skip_N pos bm) pos passed base
  = Ok (map (fun a => (a - s) + base - count_false (take_N (a - s) bm)) addrs).
Proof.
  induction addrs as [|a addrs IH]; intros s e bm pos passed base Hs Hin Hlen Hp; [reflexivity|].
  cbn [bitmap_offsets map]. pose proof (Hin a (or_introl eq_refl)) as Ha.
  assert (Hlb : len_N (skip_N pos bm) = e - s - pos).
  { unfold skip_N, len_N in *. rewrite skipn_length. lia. }
  replace (len_N (skip_N pos bm) <? a - s - pos) with false by (symmetry; apply N.ltb_ge; lia).
  rewrite skip_skip. replace (pos + (a - s - pos)) with (a - s) by lia.
  replace (if pos <? a - s then a - s else pos) with (a - s) by (destruct (N.ltb_spec pos (a - s)); lia).
  assert (Hcf : passed + count_false (take_N (a - s - pos) (skip_N pos bm)) = count_false (take_N (a - s) bm)).
  { rewrite (take_split bm pos (a - s)) by lia. rewrite count_false_app. lia. }
  rewrite Hcf. apply sincr_cons_iff in Hs as [Hs1 Hs2].
  rewrite (IH s e bm (a - s) (count_false (take_N (a - s) bm)) base); try assumption; try reflexivity.
  intros a' Ha'. specialize (Hs2 a' Ha'). specialize (Hin a' (or_intror Ha')). lia.
Qed.

Lemma seg_iter_NoDup : forall sg, seg_wf sg = true -> (seg_is_array sg = false) -> sincr (seg_iter sg).
Proof.
  intros [s e | s e h | s e bm | a | a] Hwf Hna; try discriminate; cbn [seg_iter].
  - apply sincr_range_iter.
  - apply sincr_filter, sincr_range_iter.
  - apply sincr_filter, sincr_range_iter.
  - cbn [seg_wf] in Hwf. repeat (apply andb_true_iff in Hwf as [Hwf ?]). apply strict_sorted_sincr. assumption.
Qed.

Section M2O.
  Variable selected : N -> bool.

  (* offsets (starting at base) of the selected ids of l: the specification *)
  Definition sel_off (base : N) (l : list N) : list N :=
    map fst (filter (fun p => selected (snd p)) (enum_from base l)).


  Lemma sel_off_app : forall l1 l2 b, sel_off b (l1 ++ l2) = sel_off b l1 ++ sel_off (b + len_N l1) l2.
  Proof. intros. unfold sel_off. rewrite enum_from_app, filter_app, map_app. reflexivity. Qed.


  Lemma sel_off_shift : forall l b off,
    map (fun p => fst p + off) (filter (fun p => selected (snd p)) (enum_from b l)) = sel_off (b + off) l.
  Proof.
    induction l as [|x l IH]; intros b off; [reflexivity|]. unfold sel_off in *. cbn [enum_from filter snd].
    destruct (selected x); cbn [map fst]; rewrite IH; [f_equal|]; do 3 f_equal; lia.
  Qed.

  Lemma sel_off_index : forall l base, NoDup l ->
    map (fun a => base + or0 (index_of a l)) (filter selected l) = sel_off base l.
  Proof.
    induction l as [|x l IH]; intros base Hnd; [reflexivity|]. inversion Hnd; subst.
    unfold sel_off in *. cbn [enum_from filter snd].
    assert (Htail : map (fun a => base + or0 (index_of a (x :: l))) (filter selected l)
                    = map fst (filter (fun p => selected (snd p)) (enum_from (base + 1) l))).
    { rewrite <- IH by assumption. apply map_ext_in. intros a Ha. apply filter_In in Ha as [Ha _].
      rewrite index_of_cons. destruct (N.eqb_spec a x); [subst; contradiction|].
      destruct (index_of_In a l Ha) as [i Hi]. rewrite Hi. cbn [or0]. lia. }
    destruct (selected x); cbn [map fst]; [|assumption].
    rewrite index_of_cons, N.eqb_refl. cbn [or0]. f_equal; [lia | assumption].
  Qed.




  (* Range arm *)
  Lemma range_arm : forall n s' b,
    map (fun a => a - s' + b) (filter selected (nrange s' n)) = sel_off b (nrange s' n).
  Proof.
    induction n as [|n IH]; intros s' b; [reflexivity|]. unfold sel_off in *. cbn [nrange enum_from filter snd].
    assert (Htail : map (fun a => a - s' + b) (filter selected (nrange (s' + 1) n))
                    = map fst (filter (fun p => selected (snd p)) (enum_from (b + 1) (nrange (s' + 1) n)))).
    { rewrite <- IH. apply map_ext_in. intros a Ha. apply filter_In in Ha as [Ha _]. apply nrange_In in Ha. lia. }
    destruct (selected s'); cbn [map fst]; [f_equal; [lia | assumption] | assumption].
  Qed.

  (* RangeWithHoles arm *)



  (* RangeWithBitmap arm *)



  (* one segment: the ranges it contributes and the offset after it *)
  Lemma m2o_segment : forall sg rest offset, seg_wf sg = true -> NoDup (seg_iter sg) ->
    exists ranges, m2o_go selected (sg :: rest) offset
                   = (do r <- m2o_go selected rest (offset + len_N (seg_iter sg)); Ok (ranges ++ r))
                   /\ flat_ranges ranges = sel_off offset (seg_iter sg).
  Proof.
    intros sg rest offset Hwf Hnd. pose proof (seg_len_iter sg Hwf) as Hlen.
    destruct sg as [s e | s e h | s e bm | a | a]; cbn [m2o_go].
    - cbn [seg_wf] in Hwf. apply andb_true_iff in Hwf as [Hse _]. apply N.leb_le in Hse.
      eexists. cbn [obind]. cbn [seg_iter seg_len] in *. rewrite range_iter_len. split; [reflexivity|].
      rewrite group_ranges_flat. apply range_arm.
    - pose proof Hwf as Hwf0. apply seg_wf_holes in Hwf as [Hse [He [Hw [Hs Hin]]]].
      rewrite nsort_sincr by assumption.
      assert (Hrem : remove_count (range_iter s e) (earr_iter h) = len_N (earr_iter h)).
      { apply remove_count_spec; [apply sincr_NoDup; assumption|]. intros x Hx. apply range_iter_In. apply Hin. assumption. }
      rewrite Hrem. cbn [seg_len] in Hlen.
      assert (Hsum : len_N (seg_iter (SHoles s e h)) + len_N (earr_iter h) = e - s).
      { rewrite holes_iter by assumption.
        pose proof (filter_len_split (fun v => memN v (earr_iter h)) (range_iter s e)) as Hsp. rewrite range_iter_len in Hsp.
        rewrite (holes_count s e (earr_iter h) e Hs Hin) in Hsp by lia.
        replace (filter (fun x => x <? e) (earr_iter h)) with (earr_iter h) in Hsp; [lia|].
        symmetry. rewrite <- (filter_ext_in (fun _ => true)); [clear; induction (earr_iter h) as [|x l IH]; [reflexivity | cbn [filter]; f_equal; assumption]|].
        intros x Hx. specialize (Hin x Hx). symmetry. apply N.ltb_lt. lia. }
      eexists. cbn [obind]. replace (offset + (e - s) - len_N (earr_iter h)) with (offset + len_N (seg_iter (SHoles s e h))) by lia.
      split; [reflexivity|]. rewrite group_ranges_flat.
      rewrite <- holes_iter by assumption.
      rewrite holes_offsets_spec; [| apply sincr_filter; apply seg_iter_NoDup; [assumption | reflexivity] | assumption].
      rewrite <- (sel_off_index (seg_iter (SHoles s e h)) offset Hnd).
      apply map_ext_in. intros a Ha. apply filter_In in Ha as [Ha _].
      rewrite <- seg_position_iter by assumption. cbn [seg_position].
      assert (Har : s <= a < e).
      { rewrite holes_iter in Ha by assumption. apply filter_In in Ha as [Ha _]. apply range_iter_In in Ha. assumption. }
      assert (Hnh : memN a (earr_iter h) = false).
      { rewrite holes_iter in Ha by assumption. apply filter_In in Ha as [_ Ha]. apply negb_true_iff in Ha. assumption. }
      unfold in_range. replace ((s <=? a) && (a <? e)) with true by (symmetry; apply andb_true_iff; split; [apply N.leb_le | apply N.ltb_lt]; lia).
      rewrite earr_bsearch_iter by assumption. rewrite index_of_is_some, Hnh. cbn [andb negb or0].
      rewrite take_while_lt_sincr by assumption.
      assert (Hk : len_N (filter (fun hole => hole <? a) (earr_iter h)) <= a - s).
      { rewrite <- (holes_count s e (earr_iter h) a Hs Hin) by lia.
        etransitivity; [apply filter_len_le|]. rewrite range_iter_len. lia. }
      lia.
    - pose proof Hwf as Hwf0. cbn [seg_wf] in Hwf. repeat (apply andb_true_iff in Hwf as [Hwf ?]).
      apply N.ltb_lt in Hwf. apply N.eqb_eq in H. rename H into Hbl.
      cbn [seg_len seg_iter] in *.
      assert (Hbo := bitmap_offsets_spec (filter selected (filter (fun v => bm_get bm (v - s)) (range_iter s e))) s e bm 0 0 offset).
      change (skip_N 0 bm) with bm in Hbo. rewrite Hbo; try assumption; try reflexivity.
      2:{ apply sincr_filter, sincr_filter, sincr_range_iter. }
      2:{ intros a Ha. apply filter_In in Ha as [Ha _]. apply filter_In in Ha as [Ha _]. apply range_iter_In in Ha. lia. }
      clear Hbo.
      cbn [obind]. eexists.
      replace (offset + (e - s) - (len_N (range_iter s e) - len_N (filter (fun v => bm_get bm (v - s)) (range_iter s e))))
        with (offset + len_N (filter (fun v => bm_get bm (v - s)) (range_iter s e))).
      2:{ rewrite range_iter_len. pose proof (filter_len_le (fun v => bm_get bm (v - s)) (range_iter s e)). rewrite range_iter_len in H. lia. }
      split; [reflexivity|]. rewrite group_ranges_flat.
      rewrite <- (sel_off_index _ offset Hnd).
      apply map_ext_in. intros a Ha. apply filter_In in Ha as [Ha _].
      pose proof (seg_position_iter (SBitmap s e bm) a Hwf0) as Hpos. cbn [seg_position seg_iter] in Hpos. rewrite <- Hpos.
      apply filter_In in Ha as [Ha1 Ha2]. apply range_iter_In in Ha1.
      unfold in_range. replace ((s <=? a) && (a <? e)) with true by (symmetry; apply andb_true_iff; split; [apply N.leb_le | apply N.ltb_lt]; lia).
      rewrite Ha2. cbn [andb or0].
      assert (Hk : count_false (take_N (a - s) bm) <= a - s).
      { unfold count_false. etransitivity; [apply filter_len_le|]. unfold take_N, len_N. rewrite firstn_length. lia. }
      lia.
    - eexists. cbn [obind]. cbn [seg_iter seg_len] in *. rewrite earr_len_iter. split; [reflexivity|].
      rewrite group_ranges_flat. rewrite combine_seq_enum. rewrite sel_off_shift. reflexivity.
    - eexists. cbn [obind]. cbn [seg_iter seg_len] in *. rewrite earr_len_iter. split; [reflexivity|].
      rewrite group_ranges_flat. rewrite combine_seq_enum. rewrite sel_off_shift. reflexivity.
  Qed.

  Theorem m2o_go_ok : forall q offset, rseq_wf q = true -> (forall sg, In sg q -> NoDup (seg_iter sg)) ->
    exists rs, m2o_go selected q offset = Ok rs /\ flat_ranges rs = sel_off offset (rs_iter q).
  Proof.
    induction q as [|sg q IH]; intros offset Hwf Hnd; [exists []; split; reflexivity|].
    apply rseq_wf_cons in Hwf as [H1 H2].
    destruct (m2o_segment sg q offset H1 (Hnd sg (or_introl eq_refl))) as [ranges [E Hf]].
    destruct (IH (offset + len_N (seg_iter sg)) H2) as [rs [Ers Hrs]]; [intros; apply Hnd; right; assumption|].
    exists (ranges ++ rs). rewrite E, Ers. cbn [obind]. split; [reflexivity|].
    rewrite flat_ranges_app, Hf, Hrs, rs_iter_cons, sel_off_app. reflexivity.
  Qed.
End M2O.

Theorem rs_mask_to_offset_ranges_ok : forall selected q, rseq_wf q = true -> NoDup (rs_iter q) ->
  exists rs, rs_mask_to_offset_ranges selected q = Ok rs /\ flat_ranges rs = sel_off selected 0 (rs_iter q).
Proof.
  intros selected q Hwf Hnd. apply m2o_go_ok; [assumption|].
  intros sg Hin. apply in_split in Hin as [q1 [q2 ->]]. rewrite rs_iter_app, rs_iter_cons in Hnd.
  eapply subseq_NoDup; [|exact Hnd]. eapply subseq_trans; [apply subseq_app_l | apply subseq_app_r].
Qed.

(* ------------------------------------------------------------------ *)
(* rechunk_sequences                                                   *)
(* ------------------------------------------------------------------ *)
(* the ids not yet handed out: the rest of the first segment, then the other segments *)
Definition remaining_ids (segs : rseq) (so : N) : list N :=
  match segs with [] => [] | sg :: rest => skip_N so (seg_iter sg) ++ rs_iter rest end.

Lemma skip_N_len {A} : forall (l : list A) n, len_N (skip_N n l) = len_N l - n.
Proof. intros. unfold skip_N, len_N. rewrite skipn_length. lia. Qed.

Lemma take_N_len {A} : forall (l : list A) n, n <= len_N l -> len_N (take_N n l) = n.
Proof. intros. unfold take_N, len_N in *. rewrite firstn_length. lia. Qed.

Lemma skip_N_all {A} : forall (l : list A) n, len_N l <= n -> skip_N n l = [].
Proof. intros. unfold skip_N, len_N in *. apply skipn_all2. lia. Qed.

Lemma take_skip_app {A} : forall (l : list A) a b, skip_N a l = take_N b (skip_N a l) ++ skip_N (a + b) l.
Proof.
  intros l a b. rewrite <- (skip_skip l a b). unfold take_N. unfold skip_N at 2 4.
  symmetry. exact (firstn_skipn (N.to_nat b) (skip_N a l)).
Qed.

Lemma take_N_all {A} : forall (l : list A) n, len_N l <= n -> take_N n l = l.
Proof. intros. unfold take_N, len_N in *. apply firstn_all2. lia. Qed.

Ltac splits := repeat match goal with |- _ /\ _ => split end.

Lemma rechunk_fill_spec : forall segs so remaining acc allow,
  rseq_wf segs = true -> rseq_wf acc = true -> ids_ok (rs_iter segs) ->
  so <= match segs with [] => 0 | sg :: _ => len_N (seg_iter sg) end ->
  forall chunk segs' so', rechunk_fill segs so remaining acc allow = Ok (chunk, segs', so') ->
  exists taken,
    rs_iter chunk = rs_iter acc ++ taken
    /\ remaining_ids segs so = taken ++ remaining_ids segs' so'
    /\ (len_N taken = remaining \/ (allow = true /\ segs' = [] /\ len_N taken <= remaining))
    /\ rseq_wf chunk = true /\ rseq_wf segs' = true /\ ids_ok (rs_iter segs')
    /\ so' <= match segs' with [] => 0 | sg :: _ => len_N (seg_iter sg) end.
Proof.
  induction segs as [|sg rest IH]; intros so remaining acc allow Hwf Hacc Hok Hso chunk segs' so' E.
  - cbn [rechunk_fill] in E. destruct (N.eqb_spec remaining 0) as [-> | Hr].
    + inversion E; subst. exists []. rewrite app_nil_r. splits; try assumption; try reflexivity. left. reflexivity.
    + destruct allow; [|discriminate]. inversion E; subst. exists []. rewrite app_nil_r.
      splits; try assumption; try reflexivity. right. repeat split. rewrite len_N_nil. lia.
  - cbn [rechunk_fill] in E. destruct (N.eqb_spec remaining 0) as [-> | Hr].
    + inversion E; subst. exists []. rewrite app_nil_r. splits; try assumption; try reflexivity. left. reflexivity.
    + pose proof Hwf as Hwf0. apply rseq_wf_cons in Hwf as [H1 H2].
      rewrite seg_len_iter in E by assumption. unfold csub in E.
      replace (so <=? len_N (seg_iter sg)) with true in E by (symmetry; apply N.leb_le; assumption). cbn [obind] in E.
      rewrite rs_iter_cons in Hok.
      assert (Hok1 : ids_ok (seg_iter sg)) by (eapply ids_ok_subseq; [apply subseq_app_l | exact Hok]).
      assert (Hok2 : ids_ok (rs_iter rest)) by (eapply ids_ok_subseq; [apply subseq_app_r | exact Hok]).
      destruct (N.eqb_spec (len_N (seg_iter sg) - so) 0) as [E0 | E0].
      * (* nothing left in this segment: skip it *)
        destruct (IH 0 remaining acc allow H2 Hacc Hok2 ltac:(destruct rest; lia) chunk segs' so' E)
          as [taken [Hc [Hrem [Hlen [Hwc [Hws [Hoks Hso']]]]]]].
        exists taken. splits; try assumption.
        cbn [remaining_ids]. rewrite skip_N_all by lia. cbn [app]. rewrite <- Hrem.
        destruct rest; [reflexivity|]. cbn [remaining_ids]. reflexivity.
      * destruct (N.ltb_spec remaining (len_N (seg_iter sg) - so)) as [Hlt | Hge].
        -- (* the segment is larger than what is needed: slice it, stay on it *)
           destruct (seg_slice_ok sg so remaining H1 Hok1) as [piece [Ep [Hwp Hip]]]. rewrite Ep in E. cbn [obind] in E.
           inversion E; subst.
           destruct (rs_extend_ok acc [piece] Hacc) as [Hwe Hie]; [apply rseq_wf_cons; split; [assumption | reflexivity]|].
           exists (take_N remaining (skip_N so (seg_iter sg))). split.
           { rewrite Hie. cbn [rs_iter flat_map]. rewrite app_nil_r, Hip. reflexivity. }
           split.
           { cbn [remaining_ids]. rewrite app_assoc. f_equal. apply take_skip_app. }
           split; [left; apply take_N_len; rewrite skip_N_len; lia|].
           splits; try assumption; try (rewrite rs_iter_cons; assumption). lia.
        -- (* the whole rest of the segment goes into the chunk *)
           destruct (seg_slice_ok sg so (len_N (seg_iter sg) - so) H1 Hok1) as [piece [Ep [Hwp Hip]]]. rewrite Ep in E. cbn [obind] in E.
           destruct (rs_extend_ok acc [piece] Hacc) as [Hwe Hie]; [apply rseq_wf_cons; split; [assumption | reflexivity]|].
           destruct (IH 0 (remaining - (len_N (seg_iter sg) - so)) (rs_extend acc [piece]) allow H2 Hwe Hok2 ltac:(destruct rest; lia) chunk segs' so' E)
             as [taken [Hc [Hrem [Hlen [Hwc [Hws [Hoks Hso']]]]]]].
           assert (Hpiece : seg_iter piece = skip_N so (seg_iter sg)).
           { rewrite Hip. apply take_N_all. rewrite skip_N_len. lia. }
           exists (skip_N so (seg_iter sg) ++ taken). split.
           { rewrite Hc, Hie. cbn [rs_iter flat_map]. rewrite app_nil_r, Hpiece, <- app_assoc. reflexivity. }
           split.
           { cbn [remaining_ids]. rewrite <- app_assoc. f_equal. rewrite <- Hrem.
             destruct rest; [reflexivity|]. cbn [remaining_ids]. reflexivity. }
           split.
           { rewrite len_N_app, skip_N_len. destruct Hlen as [Hl | [Ha [Hs Hl]]]; [left; lia | right; splits; try assumption; lia]. }
           splits; assumption.
Qed.

Definition chunk_len_ok (allow : bool) (chunk : rseq) (size : N) : Prop :=
  if allow then len_N (rs_iter chunk) <= size else len_N (rs_iter chunk) = size.

Lemma rechunk_go_spec : forall sizes segs so allow chunks,
  rseq_wf segs = true -> ids_ok (rs_iter segs) ->
  so <= match segs with [] => 0 | sg :: _ => len_N (seg_iter sg) end ->
  rechunk_go segs so sizes allow = Ok chunks ->
  concat (map rs_iter chunks) = remaining_ids segs so
  /\ Forall2 (chunk_len_ok allow) chunks sizes
  /\ Forall (fun c => rseq_wf c = true) chunks.
Proof.
  induction sizes as [|c sizes IH]; intros segs so allow chunks Hwf Hok Hso E.
  - cbn [rechunk_go] in E. destruct segs; [|discriminate]. inversion E; subst. repeat split; constructor.
  - cbn [rechunk_go] in E.
    destruct (rechunk_fill segs so c [] allow) as [[[chunk segs'] so']| |] eqn:Ef; try discriminate. cbn [obind] in E.
    destruct (rechunk_go segs' so' sizes allow) as [more| |] eqn:Eg; try discriminate. cbn [obind] in E. inversion E; subst.
    destruct (rechunk_fill_spec segs so c [] allow Hwf eq_refl Hok Hso chunk segs' so' Ef)
      as [taken [Hc [Hrem [Hlen [Hwc [Hws [Hoks Hso']]]]]]].
    destruct (IH segs' so' allow more Hws Hoks Hso' Eg) as [Hcat [Hf2 Hfw]].
    cbn [map concat]. rewrite Hcat, Hc, Hrem. cbn [rs_iter flat_map app]. split; [reflexivity|]. split.
    + constructor; [|assumption]. unfold chunk_len_ok. rewrite Hc. cbn [rs_iter flat_map app].
      destruct Hlen as [Hl | [Ha [_ Hl]]]; [destruct allow; lia | subst allow; assumption].
    + constructor; assumption.
Qed.

Lemma rs_iter_concat : forall seqs, rs_iter (concat seqs) = concat (map rs_iter seqs).
Proof. induction seqs as [|q seqs IH]; [reflexivity|]. cbn [concat map]. rewrite rs_iter_app, IH. reflexivity. Qed.

Theorem rechunk_sequences_ok : forall seqs sizes allow chunks,
  Forall (fun q => rseq_wf q = true) seqs -> ids_ok (concat (map rs_iter seqs)) ->
  rechunk_sequences seqs sizes allow = Ok chunks ->
  concat (map rs_iter chunks) = concat (map rs_iter seqs)
  /\ Forall2 (chunk_len_ok allow) chunks sizes
  /\ Forall (fun c => rseq_wf c = true) chunks.
Proof.
  intros seqs sizes allow chunks Hwf Hok E. unfold rechunk_sequences in E.
  assert (Hwc : rseq_wf (concat seqs) = true).
  { clear -Hwf. induction seqs as [|q seqs IH]; [reflexivity|]. inversion Hwf; subst. cbn [concat]. apply rseq_wf_app. split; [assumption | apply IH; assumption]. }
  rewrite <- rs_iter_concat in Hok.
  destruct (rechunk_go_spec sizes (concat seqs) 0 allow chunks Hwc Hok ltac:(destruct (concat seqs); lia) E) as [Hcat [Hf2 Hfw]].
  split; [|split; assumption]. rewrite Hcat, <- rs_iter_concat.
  destruct (concat seqs) as [|sg rest]; [reflexivity|]. cbn [remaining_ids]. reflexivity.
Qed.

(* ------------------------------------------------------------------ *)
(* U64Segment::mask / RowIdSequence::mask                               *)
(* ------------------------------------------------------------------ *)
(* elements of l (enumerated from i) whose position is not in ps: the specification of mask *)
Definition remove_at (i : N) (ps : list N) (l : list N) : list N :=
  map snd (filter (fun p => negb (memN (fst p) ps)) (enum_from i l)).

Lemma drop_positions_spec : forall l i ps, sincr ps -> (forall p, In p ps -> i <= p) ->
  drop_positions l i ps = remove_at i ps l.
Proof.
  induction l as [|x l IH]; intros i ps Hs Hge; [reflexivity|].
  unfold remove_at in *. cbn [drop_positions enum_from filter fst].
  destruct ps as [|p ps'].
  - cbn [memN existsb negb map snd]. f_equal. apply (IH (i + 1) [] sincr_nil). intros q [].
  - pose proof Hs as Hs0. apply sincr_cons_iff in Hs as [Hs1 Hs2].
    destruct (N.eqb_spec p i) as [-> | Hne].
    + replace (memN i (i :: ps')) with true by (symmetry; apply memN_In; left; reflexivity). cbn [negb].
      rewrite IH; [| assumption | intros q Hq; specialize (Hs2 q Hq); lia].
      f_equal. apply filter_ext_in. intros [j y] Hj. cbn [fst]. f_equal. unfold memN. cbn [existsb].
      destruct (N.eqb_spec j i); [|reflexivity]. subst j. exfalso.
      assert (Hfst : forall l b q, In q (enum_from b l) -> b <= fst q).
      { clear. induction l as [|z l IHl]; intros b q Hq; [destruct Hq|]. cbn [enum_from] in Hq.
        destruct Hq as [<- | Hq]; [cbn; lia | specialize (IHl (b + 1) q Hq); lia]. }
      specialize (Hfst l (i + 1) (i, y) Hj). cbn [fst] in Hfst. lia.
    + assert (Hip : i < p) by (specialize (Hge p (or_introl eq_refl)); lia).
      assert (Hm : memN i (p :: ps') = false).
      { apply memN_false. intros [E | Hin]; [lia | specialize (Hs2 i Hin); lia]. }
      rewrite Hm. cbn [negb map snd]. f_equal. apply IH; [assumption|].
      intros q [<- | Hq]; [lia | specialize (Hs2 q Hq); lia].
Qed.

Lemma enum_from_fst : forall l b, map fst (enum_from b l) = nrange b (length l).
Proof. induction l as [|x l IH]; intro b; [reflexivity|]. cbn [enum_from map fst length nrange]. f_equal. apply IH. Qed.

Lemma enum_from_snd : forall l b, map snd (enum_from b l) = l.
Proof. induction l as [|x l IH]; intro b; [reflexivity|]. cbn [enum_from map snd]. f_equal. apply IH. Qed.

Lemma enum_from_In : forall l b j y, In (j, y) (enum_from b l) <-> (b <= j /\ nth_N l (j - b) = Some y).
Proof.
  induction l as [|x l IH]; intros b j y.
  - cbn. split; [intros [] | intros [_ H]; unfold nth_N in H; destruct (N.to_nat (j - b)); discriminate].
  - cbn [enum_from In]. rewrite IH. split.
    + intros [H | [H1 H2]].
      * inversion H; subst. split; [lia|]. replace (j - j) with 0 by lia. reflexivity.
      * split; [lia|]. rewrite nth_N_pos by lia. replace (j - b - 1) with (j - (b + 1)) by lia. assumption.
    + intros [H1 H2]. destruct (N.eqb_spec j b) as [-> | Hne].
      * left. replace (b - b) with 0 in H2 by lia. rewrite nth_N_0 in H2. inversion H2. reflexivity.
      * right. split; [lia|]. rewrite nth_N_pos in H2 by lia. replace (j - b - 1) with (j - (b + 1)) in H2 by lia. assumption.
Qed.

Lemma remove_at_subseq : forall l i ps, subseq (remove_at i ps l) l.
Proof.
  induction l as [|x l IH]; intros i ps; [constructor|]. unfold remove_at in *. cbn [enum_from filter fst].
  destruct (negb (memN i ps)); cbn [map snd]; constructor; apply IH.
Qed.

Lemma remove_at_In : forall l ps y, In y (remove_at 0 ps l) <-> exists j, nth_N l j = Some y /\ ~ In j ps.
Proof.
  intros l ps y. unfold remove_at. rewrite in_map_iff. split.
  - intros [[j y'] [E Hin]]. cbn [snd] in E. subst y'. apply filter_In in Hin as [H1 H2]. cbn [fst] in H2.
    apply enum_from_In in H1 as [_ H1]. replace (j - 0) with j in H1 by lia. exists j. split; [assumption|].
    apply memN_false. apply negb_true_iff. assumption.
  - intros [j [H1 H2]]. exists (j, y). split; [reflexivity|]. apply filter_In. split.
    + apply enum_from_In. split; [lia|]. replace (j - 0) with j by lia. assumption.
    + cbn [fst]. apply negb_true_iff. apply memN_false. assumption.
Qed.

Lemma remove_at_len : forall l ps, sincr ps -> (forall p, In p ps -> p < len_N l) ->
  len_N (remove_at 0 ps l) + len_N ps = len_N l.
Proof.
  intros l ps Hs Hlt. unfold remove_at. unfold len_N at 1. rewrite map_length. fold (len_N (filter (fun p => negb (memN (fst p) ps)) (enum_from 0 l))).
  pose proof (filter_len_split (fun p : N * N => memN (fst p) ps) (enum_from 0 l)) as Hsp.
  assert (Hin : len_N (filter (fun p : N * N => memN (fst p) ps) (enum_from 0 l)) = len_N ps).
  { rewrite (filter_map_len (fun j => memN j ps) fst). rewrite enum_from_fst.
    f_equal. change (nrange 0 (length l)) with (range_iter 0 (0 + N.of_nat (length l))) || idtac.
    replace (nrange 0 (length l)) with (range_iter 0 (len_N l)) by (unfold range_iter, len_N; f_equal; lia).
    apply sincr_filter_range; [assumption|]. intros v Hv. specialize (Hlt v Hv). lia. }
  assert (Hl : len_N (enum_from 0 l) = len_N l).
  { unfold len_N. rewrite <- (map_length fst), enum_from_fst, nrange_length. reflexivity. }
  lia.
Qed.

(* the identity prefix of a position list *)
Fixpoint idpref (b : N) (ps : list N) : nat :=
  match ps with p :: r => if p =? b then S (idpref (b + 1) r) else O | [] => O end.

Lemma idpref_spec : forall ps b, sincr ps -> (forall p, In p ps -> b <= p) ->
  (idpref b ps <= length ps)%nat
  /\ (forall t, (t < idpref b ps)%nat -> nth t ps 0 = b + N.of_nat t)
  /\ ((idpref b ps < length ps)%nat -> b + N.of_nat (idpref b ps) < nth (idpref b ps) ps 0)
  /\ ~ In (b + N.of_nat (idpref b ps)) ps
  /\ (forall i, b <= i < b + N.of_nat (idpref b ps) -> In i ps).
Proof.
  induction ps as [|p ps IH]; intros b Hs Hge.
  - cbn [idpref length]. repeat split; try lia; try (intros; lia). intros [].
  - pose proof Hs as Hs0. apply sincr_cons_iff in Hs as [Hs1 Hs2]. cbn [idpref].
    destruct (N.eqb_spec p b) as [-> | Hne].
    + destruct (IH (b + 1) Hs1) as [H1 [H2 [H3 [H4 H5]]]]; [intros q Hq; specialize (Hs2 q Hq); lia|].
      cbn [length]. split; [lia|]. split; [|split; [|split]].
      * intros [|t] Ht; cbn [nth]; [lia|]. rewrite H2 by lia. lia.
      * intro Hlt. cbn [nth]. specialize (H3 ltac:(lia)). lia.
      * intros [E | Hin]; [lia|]. apply H4. replace (b + 1 + N.of_nat (idpref (b + 1) ps)) with (b + N.of_nat (S (idpref (b + 1) ps))) by lia. assumption.
      * intros i Hi. destruct (N.eqb_spec i b) as [-> | Hib]; [left; reflexivity|]. right. apply H5. lia.
    + assert (b < p) by (specialize (Hge p (or_introl eq_refl)); lia).
      cbn [length]. split; [lia|]. split; [intros t Ht; lia|]. split; [intros _; cbn [nth]; lia|]. split.
      * replace (b + N.of_nat 0) with b by lia. intros [E | Hin]; [lia | specialize (Hs2 b Hin); lia].
      * intros i Hi. lia.
Qed.

Lemma find_seq_first : forall (p : nat -> bool) n a j, (a <= j < a + n)%nat -> p j = true ->
  (forall i, (a <= i < j)%nat -> p i = false) -> find p (seq a n) = Some j.
Proof.
  intros p n. induction n as [|n IH]; intros a j Hj Hp Hnot; [lia|].
  cbn [seq find]. destruct (Nat.eq_dec a j) as [-> | Hne]; [rewrite Hp; reflexivity|].
  rewrite (Hnot a) by lia. apply IH; [lia | assumption | intros; apply Hnot; lia].
Qed.

Lemma first_unmasked_spec : forall len ps, sincr ps -> (forall p, In p ps -> p < len) ->
  ps <> [] -> len_N ps < len ->
  exists m, first_unmasked len ps = Some m /\ m < len /\ ~ In m ps /\ (forall i, i < m -> In i ps).
Proof.
  intros len ps Hs Hlt Hne Hk. unfold first_unmasked.
  destruct (idpref_spec ps 0 Hs ltac:(intros; lia)) as [H1 [H2 [H3 [H4 H5]]]].
  set (m := idpref 0 ps) in *. set (k := length ps) in *.
  assert (Hk0 : (0 < k)%nat) by (unfold k; destruct ps; [congruence | cbn [length]; lia]).
  assert (Hkl : (k < N.to_nat len)%nat) by (unfold len_N in Hk; fold k in Hk; lia).
  rewrite (find_seq_first _ (N.to_nat len) 0%nat m).
  - exists (N.of_nat m). split; [reflexivity|]. split; [lia|]. split.
    + replace (0 + N.of_nat m) with (N.of_nat m) in H4 by lia. assumption.
    + intros i Hi. apply H5. lia.
  - lia.
  - apply negb_true_iff. apply N.eqb_neq. destruct (Nat.eq_dec m k) as [E | E].
    + rewrite E. rewrite Nat.mod_same by lia. rewrite H2 by lia. lia.
    + rewrite Nat.mod_small by lia. specialize (H3 ltac:(lia)). lia.
  - intros i Hi. apply negb_false_iff. apply N.eqb_eq. rewrite Nat.mod_small by lia. rewrite H2 by lia. lia.
Qed.

(* mirror image of a position list *)
Definition mirror (len : N) (ps : list N) : list N := map (fun p => len - 1 - p) (rev ps).

Lemma sincr_rev_map : forall len ps, sincr ps -> (forall p, In p ps -> p < len) -> sincr (mirror len ps).
Proof.
  intros len ps. unfold mirror. induction ps as [|p ps IH]; intros Hs Hlt; [constructor|].
  apply sincr_cons_iff in Hs as [Hs1 Hs2]. cbn [rev]. rewrite map_app. cbn [map].
  apply sincr_app; [apply IH; [assumption | intros; apply Hlt; right; assumption] | constructor |].
  intros a b Ha [<- | []]. apply in_map_iff in Ha as [q [<- Hq]]. apply in_rev in Hq.
  specialize (Hs2 q Hq). specialize (Hlt q (or_intror Hq)). lia.
Qed.

Lemma mirror_In : forall len ps i, i < len -> (forall p, In p ps -> p < len) ->
  (In i (mirror len ps) <-> In (len - 1 - i) ps).
Proof.
  intros len ps i Hi Hlt. unfold mirror. rewrite in_map_iff. split.
  - intros [q [E Hq]]. apply in_rev in Hq. specialize (Hlt q Hq). replace (len - 1 - i) with q by lia. assumption.
  - intro H. exists (len - 1 - i). split; [lia | apply (proj1 (in_rev ps (len - 1 - i))); assumption].
Qed.

Lemma last_unmasked_spec : forall len ps, sincr ps -> (forall p, In p ps -> p < len) ->
  ps <> [] -> len_N ps < len ->
  exists m, last_unmasked len ps = Some m /\ m < len /\ ~ In m ps /\ (forall i, m < i < len -> In i ps).
Proof.
  intros len ps Hs Hlt Hne Hk.
  assert (Hms : sincr (mirror len ps)) by (apply sincr_rev_map; assumption).
  assert (Hmlt : forall p, In p (mirror len ps) -> p < len).
  { intros p Hp. unfold mirror in Hp. apply in_map_iff in Hp as [q [<- Hq]]. lia. }
  assert (Hmne : mirror len ps <> []).
  { unfold mirror. destruct ps; [congruence|]. cbn [rev]. rewrite map_app. intro E. apply app_eq_nil in E as [_ E]. discriminate. }
  assert (Hmk : len_N (mirror len ps) < len).
  { unfold mirror, len_N in *. rewrite map_length, rev_length. assumption. }
  destruct (first_unmasked_spec len (mirror len ps) Hms Hmlt Hmne Hmk) as [m [Em [Hm1 [Hm2 Hm3]]]].
  exists (len - 1 - m). split.
  - unfold last_unmasked, first_unmasked in *.
    assert (Hlen : length (mirror len ps) = length ps) by (unfold mirror; rewrite map_length, rev_length; reflexivity).
    rewrite Hlen in Em.
    replace (find (fun t => negb (nth (t mod length ps) (rev ps) 0 =? len - 1 - N.of_nat t)) (seq 0 (N.to_nat len)))
      with (find (fun j => negb (nth (j mod length ps) (mirror len ps) 0 =? N.of_nat j)) (seq 0 (N.to_nat len))).
    + destruct (find _ _) as [j|]; [|discriminate]. inversion Em; subst. reflexivity.
    + assert (Hfe : forall (p q : nat -> bool) l, (forall x, In x l -> p x = q x) -> find p l = find q l).
      { clear. intros p q l. induction l as [|x l IH]; intro H; [reflexivity|]. cbn [find].
        rewrite (H x (or_introl eq_refl)). destruct (q x); [reflexivity|]. apply IH. intros; apply H; right; assumption. }
      apply Hfe. intros t Ht. apply in_seq in Ht. f_equal.
      assert (Hk0 : (0 < length ps)%nat) by (destruct ps; [congruence | cbn [length]; lia]).
      assert (Htk : (t mod length ps < length ps)%nat) by (apply Nat.mod_upper_bound; lia).
      unfold mirror. rewrite nth_indep with (d' := (fun p => len - 1 - p) 0) by (rewrite map_length, rev_length; assumption).
      rewrite map_nth.
      assert (Hq : nth (t mod length ps) (rev ps) 0 < len).
      { apply Hlt. apply (proj2 (in_rev ps _)). apply nth_In. rewrite rev_length. assumption. }
      destruct (N.eqb_spec (len - 1 - nth (t mod length ps) (rev ps) 0) (N.of_nat t));
        destruct (N.eqb_spec (nth (t mod length ps) (rev ps) 0) (len - 1 - N.of_nat t)); try reflexivity; lia.
  - split; [lia|]. split.
    + intro Hin. apply Hm2. apply (proj2 (mirror_In len ps m Hm1 Hlt)). assumption.
    + intros i Hi. assert (Hi' : In (len - 1 - i) (mirror len ps)) by (apply Hm3; lia).
      apply (proj1 (mirror_In len ps (len - 1 - i) ltac:(lia) Hlt)) in Hi'. assert (E : len - 1 - (len - 1 - i) = i) by lia. rewrite E in Hi'. exact Hi'.
Qed.

(* monotonicity of positions in a strictly increasing list *)
Lemma sincr_nth_mono : forall l i j x y, sincr l -> nth_N l i = Some x -> nth_N l j = Some y -> i <= j -> x <= y.
Proof.
  induction l as [|z l IH]; intros i j x y Hs Hi Hj Hle; [unfold nth_N in Hi; destruct (N.to_nat i); discriminate|].
  destruct (N.eqb_spec i 0) as [-> | Hi0].
  - rewrite nth_N_0 in Hi. inversion Hi; subst. destruct (N.eqb_spec j 0) as [-> | Hj0].
    + rewrite nth_N_0 in Hj. inversion Hj. lia.
    + rewrite nth_N_pos in Hj by lia. assert (In y l) by (unfold nth_N in Hj; eapply nth_error_In; eauto).
      pose proof (sincr_head_lt _ _ Hs y H). lia.
  - rewrite nth_N_pos in Hi, Hj by lia. apply (IH (i - 1) (j - 1) x y); [eapply sincr_tail; eauto | assumption | assumption | lia].
Qed.

Theorem seg_mask_ok : forall sg ps, seg_wf sg = true -> ids_ok (seg_iter sg) ->
  sincr ps -> (forall p, In p ps -> p < len_N (seg_iter sg)) ->
  exists sg', seg_mask sg ps = Ok sg' /\ holds sg' (remove_at 0 ps (seg_iter sg)).
Proof.
  intros sg ps Hwf Hok Hs Hlt. unfold seg_mask.
  destruct ps as [|p0 ps0] eqn:Eps.
  { exists sg. split; [reflexivity|]. split; [assumption|]. unfold remove_at. cbn [memN existsb negb].
    rewrite <- (enum_from_snd (seg_iter sg) 0) at 1. f_equal. symmetry.
    clear. induction (enum_from 0 (seg_iter sg)) as [|x l IH]; [reflexivity | cbn [filter]; f_equal; assumption]. }
  rewrite <- Eps in *. assert (Hne : ps <> []) by (rewrite Eps; discriminate). clear Eps p0 ps0.
  set (L := seg_iter sg) in *. rewrite seg_len_iter by assumption. fold L.
  pose proof (remove_at_len L ps Hs Hlt) as Hrl.
  destruct (N.eqb_spec (len_N ps) (len_N L)) as [Eall | Enot].
  { exists (SRange 0 0). split; [reflexivity|]. split; [reflexivity|].
    assert (len_N (remove_at 0 ps L) = 0) by lia. destruct (remove_at 0 ps L); [reflexivity | rewrite len_N_cons in H; lia]. }
  unfold csub. replace (len_N ps <=? len_N L) with true by (symmetry; apply N.leb_le; lia). cbn [obind].
  assert (Hk : len_N ps < len_N L) by lia.
  destruct (first_unmasked_spec (len_N L) ps Hs Hlt Hne Hk) as [fu [Efu [Hfu1 [Hfu2 Hfu3]]]].
  destruct (last_unmasked_spec (len_N L) ps Hs Hlt Hne Hk) as [lu [Elu [Hlu1 [Hlu2 Hlu3]]]].
  rewrite Efu, Elu. rewrite !seg_get_iter by assumption. fold L.
  destruct (nth_N_some L fu Hfu1) as [mn Hmn]. destruct (nth_N_some L lu Hlu1) as [mx Hmx]. rewrite Hmn, Hmx.
  rewrite drop_positions_spec by (assumption || (intros; lia)).
  set (R := remove_at 0 ps L) in *.
  assert (HokR : ids_ok R) by (eapply ids_ok_subseq; [apply remove_at_subseq | exact Hok]).
  assert (HmnR : In mn R) by (apply remove_at_In; exists fu; split; assumption).
  assert (HmxR : In mx R) by (apply remove_at_In; exists lu; split; assumption).
  destruct HokR as [HndR [HallR HspR]].
  apply from_stats_ok; cbn [st_count st_sorted st_min st_max].
  - lia.
  - intro Hsorted. apply negb_true_iff in Hsorted.
    assert (HsL : sincr L) by (apply seg_iter_NoDup; assumption).
    split; [eapply subseq_sincr; [apply remove_at_subseq | assumption]|].
    intros _. split; [assumption|]. split; [assumption|].
    intros x Hx. apply remove_at_In in Hx as [j [Hj1 Hj2]].
    assert (Hjl : j < len_N L).
    { destruct (N.ltb_spec j (len_N L)); [assumption|]. rewrite nth_N_none in Hj1 by assumption. discriminate. }
    assert (fu <= j) by (destruct (N.leb_spec fu j); [assumption | exfalso; apply Hj2; apply Hfu3; assumption]).
    assert (j <= lu) by (destruct (N.leb_spec j lu); [assumption | exfalso; apply Hj2; apply Hlu3; lia]).
    split; [eapply sincr_nth_mono; eauto | eapply sincr_nth_mono; eauto].
  - intros _ E. rewrite E in HmnR. destruct HmnR.
  - assumption.
  - intros _. cbn [st_count st_sorted st_min st_max]. specialize (HspR mn mx HmnR HmxR).
    change (2 ^ 62 - 6) with 4611686018427387898 in HspR. unfold two64. lia.
Qed.

(* ---- RowIdSequence::mask ---- *)
Lemma enum_from_bounds : forall l b q, In q (enum_from b l) -> b <= fst q < b + len_N l.
Proof.
  induction l as [|z l IH]; intros b q Hq; [destruct Hq|]. cbn [enum_from] in Hq. rewrite len_N_cons.
  destruct Hq as [<- | Hq]; [cbn [fst]; lia | specialize (IH (b + 1) q Hq); lia].
Qed.

Lemma remove_at_ext : forall l i ps ps', (forall j, i <= j < i + len_N l -> memN j ps = memN j ps') ->
  remove_at i ps l = remove_at i ps' l.
Proof.
  intros l i ps ps' H. unfold remove_at. f_equal. apply filter_ext_in. intros q Hq. f_equal. apply H.
  apply enum_from_bounds. assumption.
Qed.

Lemma remove_at_shift : forall l a d ps, remove_at (a + d) (map (fun p => p + d) ps) l = remove_at a ps l.
Proof.
  induction l as [|x l IH]; intros a d ps; [reflexivity|]. unfold remove_at in *. cbn [enum_from filter fst].
  assert (Hm : memN (a + d) (map (fun p => p + d) ps) = memN a ps).
  { clear. induction ps as [|p ps IHp]; [reflexivity|]. unfold memN in *. cbn [map existsb]. rewrite IHp. f_equal.
    destruct (N.eqb_spec (a + d) (p + d)), (N.eqb_spec a p); try reflexivity; lia. }
  rewrite Hm. replace (a + d + 1) with (a + 1 + d) by lia.
  destruct (negb (memN a ps)); cbn [map snd]; rewrite IH; reflexivity.
Qed.

Lemma remove_at_app : forall l1 l2 i ps, remove_at i ps (l1 ++ l2) = remove_at i ps l1 ++ remove_at (i + len_N l1) ps l2.
Proof. intros. unfold remove_at. rewrite enum_from_app, filter_app, map_app. reflexivity. Qed.

Lemma rs_mask_go_ok : forall q ps offset, rseq_wf q = true -> ids_ok (rs_iter q) -> sincr ps ->
  (forall p, In p ps -> offset <= p < offset + len_N (rs_iter q)) ->
  exists q', rs_mask_go q ps offset = Ok q' /\ rseq_wf q' = true /\ rs_iter q' = remove_at offset ps (rs_iter q).
Proof.
  induction q as [|sg q IH]; intros ps offset Hwf Hok Hs Hin.
  - exists []. split; [reflexivity|]. split; reflexivity.
  - apply rseq_wf_cons in Hwf as [H1 H2]. rewrite rs_iter_cons in *.
    assert (Hok1 : ids_ok (seg_iter sg)) by (eapply ids_ok_subseq; [apply subseq_app_l | exact Hok]).
    assert (Hok2 : ids_ok (rs_iter q)) by (eapply ids_ok_subseq; [apply subseq_app_r | exact Hok]).
    cbn [rs_mask_go]. rewrite seg_len_iter by assumption. set (cutoff := offset + len_N (seg_iter sg)).
    rewrite take_while_lt_sincr, drop_while_lt_sincr by assumption.
    set (local := filter (fun h => h <? cutoff) ps). set (ps' := filter (fun h => negb (h <? cutoff)) ps).
    assert (Hloc : forall p, In p local -> offset <= p < cutoff).
    { intros p Hp. apply filter_In in Hp as [Hp1 Hp2]. apply N.ltb_lt in Hp2. specialize (Hin p Hp1). lia. }
    replace (existsb (fun p => p <? offset) local) with false.
    2:{ symmetry. apply not_true_iff_false. intro Hex. apply existsb_exists in Hex as [p [Hp1 Hp2]]. apply N.ltb_lt in Hp2. specialize (Hloc p Hp1). lia. }
    assert (Hseg : exists sg', (match local with [] => Ok sg | _ => seg_mask sg (map (fun p => p - offset) local) end) = Ok sg'
                    /\ holds sg' (remove_at offset ps (seg_iter sg))).
    { assert (Hshift : remove_at offset ps (seg_iter sg) = remove_at 0 (map (fun p => p - offset) local) (seg_iter sg)).
      { rewrite <- (remove_at_shift (seg_iter sg) 0 offset (map (fun p => p - offset) local)). rewrite map_map.
        replace (0 + offset) with offset by lia. apply remove_at_ext. intros j Hj.
        destruct (memN j ps) eqn:E.
        - symmetry. apply memN_In. apply memN_In in E. apply in_map_iff. exists j. split; [lia|].
          apply filter_In. split; [assumption | apply N.ltb_lt; unfold cutoff; lia].
        - symmetry. apply memN_false. apply memN_false in E. intro Hc. apply in_map_iff in Hc as [p [Hp1 Hp2]].
          specialize (Hloc p Hp2). apply filter_In in Hp2 as [Hp2 _]. assert (Hpj : p = j) by lia. rewrite Hpj in Hp2. exact (E Hp2). }
      destruct local as [|l0 ls] eqn:El.
      - exists sg. split; [reflexivity|]. split; [assumption|]. rewrite Hshift. cbn [map]. unfold remove_at. cbn [memN existsb negb].
        rewrite <- (enum_from_snd (seg_iter sg) 0) at 1. f_equal. symmetry.
        clear. induction (enum_from 0 (seg_iter sg)) as [|x l IHl]; [reflexivity | cbn [filter]; f_equal; assumption].
      - rewrite <- El in *. rewrite Hshift. apply seg_mask_ok; try assumption.
        + assert (Hsl : sincr local) by (apply sincr_filter; assumption).
          clear -Hsl Hloc. induction local as [|a l IHl]; [constructor|].
          apply sincr_cons_iff in Hsl as [Hs1 Hs2]. cbn [map]. apply sincr_cons_iff. split.
          * apply IHl; [intros; apply Hloc; right; assumption | assumption].
          * intros y Hy. apply in_map_iff in Hy as [z [<- Hz]]. specialize (Hs2 z Hz).
            pose proof (Hloc a (or_introl eq_refl)). pose proof (Hloc z (or_intror Hz)). lia.
        + intros p Hp. apply in_map_iff in Hp as [z [<- Hz]]. specialize (Hloc z Hz). unfold cutoff in Hloc. lia. }
    destruct Hseg as [sg' [Esg [Hwsg Hisg]]]. rewrite Esg. cbn [obind].
    destruct (IH ps' cutoff H2 Hok2) as [q' [Eq [Hwq Hiq]]].
    { apply sincr_filter. assumption. }
    { intros p Hp. apply filter_In in Hp as [Hp1 Hp2]. apply negb_true_iff in Hp2. apply N.ltb_ge in Hp2.
      specialize (Hin p Hp1). rewrite len_N_app in Hin. unfold cutoff in *. lia. }
    rewrite Eq. cbn [obind]. exists (sg' :: q'). split; [reflexivity|]. split; [apply rseq_wf_cons; split; assumption|].
    rewrite rs_iter_cons, Hisg, Hiq, remove_at_app. f_equal. fold cutoff. apply remove_at_ext. intros j Hj.
    unfold ps'. destruct (memN j ps) eqn:E.
    + apply memN_In. apply memN_In in E. apply filter_In. split; [assumption|]. apply negb_true_iff. apply N.ltb_ge. lia.
    + apply memN_false. apply memN_false in E. intro Hc. apply filter_In in Hc as [Hc _]. contradiction.
Qed.

Lemma filter_nonempty_iter : forall q, rseq_wf q = true ->
  rseq_wf (filter (fun sg => negb (seg_len sg =? 0)) q) = true
  /\ rs_iter (filter (fun sg => negb (seg_len sg =? 0)) q) = rs_iter q.
Proof.
  induction q as [|sg q IH]; intro Hwf; [split; reflexivity|]. apply rseq_wf_cons in Hwf as [H1 H2].
  destruct (IH H2) as [Hw Hi]. cbn [filter]. rewrite seg_len_iter by assumption.
  destruct (N.eqb_spec (len_N (seg_iter sg)) 0) as [E | E]; cbn [negb].
  - split; [assumption|]. rewrite rs_iter_cons, Hi. destruct (seg_iter sg); [reflexivity | rewrite len_N_cons in E; lia].
  - split; [apply rseq_wf_cons; split; assumption|]. rewrite !rs_iter_cons, Hi. reflexivity.
Qed.

Theorem rs_mask_ok : forall q ps, rseq_wf q = true -> ids_ok (rs_iter q) -> sincr ps ->
  (forall p, In p ps -> p < len_N (rs_iter q)) ->
  exists q', rs_mask q ps = Ok q' /\ rseq_wf q' = true /\ rs_iter q' = remove_at 0 ps (rs_iter q).
Proof.
  intros q ps Hwf Hok Hs Hlt. unfold rs_mask.
  destruct (rs_mask_go_ok q ps 0 Hwf Hok Hs) as [q' [E [Hw Hi]]]; [intros p Hp; specialize (Hlt p Hp); lia|].
  rewrite E. cbn [obind]. destruct (filter_nonempty_iter q' Hw) as [Hw' Hi']. eexists. split; [reflexivity|].
  split; [assumption|]. rewrite Hi'. assumption.
Qed.
