(* C34 - proofs about Core/Model_RowIdIndex.v *)
From LanceV Require Import Common.Base Core.Model_RowIds Core.Proofs_RowIds Core.Model_RowIdIndex.
Local Open Scope N_scope.
