(* C34 - proofs about Core/Model_RowIdIndex.v *)
From LanceV Require Import Common.Base Core.Model_RowIds Core.Proofs_RowIds Core.Model_RowIdIndex.
Local Open Scope N_scope.

(* What RowIdIndex::get needs from the chunk list built by RowIdIndex::new. *)
Definition chunk_ok (c : chunk) : Prop :=
  seg_wf (fst (snd c)) = true /\ seg_wf (snd (snd c)) = true
  /\ len_N (seg_iter (fst (snd c))) = len_N (seg_iter (snd (snd c)))
  /\ NoDup (seg_iter (fst (snd c)))
  /\ forall v, In v (seg_iter (fst (snd c))) -> c_lo c <= v <= c_hi c.

Fixpoint disjoint_chunks (idx : list chunk) : Prop :=
  match idx with
  | [] => True
  | c :: r => (forall c', In c' r -> c_hi c < c_lo c' \/ c_hi c' < c_lo c) /\ disjoint_chunks r
  end.

Definition chunk_pairs (c : chunk) : list (N * N) := combine (seg_iter (fst (snd c))) (seg_iter (snd (snd c))).
Definition index_pairs (idx : list chunk) : list (N * N) := flat_map chunk_pairs idx.

Lemma combine_nth : forall (l a : list N) i x y, nth_N l i = Some x -> nth_N a i = Some y -> In (x, y) (combine l a).
Proof.
  induction l as [|x0 l IH]; intros a i x y Hl Ha; [unfold nth_N in Hl; destruct (N.to_nat i); discriminate|].
  destruct a as [|y0 a]; [unfold nth_N in Ha; destruct (N.to_nat i); discriminate|].
  destruct (N.eqb_spec i 0) as [-> | Hi].
  - rewrite nth_N_0 in Hl, Ha. inversion Hl; inversion Ha; subst. left. reflexivity.
  - rewrite nth_N_pos in Hl, Ha by lia. right. eapply IH; eauto.
Qed.

Lemma combine_In_nth : forall (l a : list N) x y, In (x, y) (combine l a) ->
  exists i, nth_N l i = Some x /\ nth_N a i = Some y.
Proof.
  induction l as [|x0 l IH]; intros a x y H; [destruct H|]. destruct a as [|y0 a]; [destruct H|].
  destruct H as [H | H].
  - inversion H; subst. exists 0. split; reflexivity.
  - destruct (IH a x y H) as [i [H1 H2]]. exists (i + 1). rewrite !nth_N_succ. split; assumption.
Qed.

Lemma NoDup_index_of : forall l i x, NoDup l -> nth_N l i = Some x -> index_of x l = Some i.
Proof.
  induction l as [|x0 l IH]; intros i x Hnd Hn; [unfold nth_N in Hn; destruct (N.to_nat i); discriminate|].
  inversion Hnd; subst. rewrite index_of_cons. destruct (N.eqb_spec i 0) as [-> | Hi].
  - rewrite nth_N_0 in Hn. inversion Hn; subst. rewrite N.eqb_refl. reflexivity.
  - rewrite nth_N_pos in Hn by lia. destruct (N.eqb_spec x x0) as [-> | Hne].
    + exfalso. apply H1. unfold nth_N in Hn. eapply nth_error_In; eauto.
    + rewrite (IH (i - 1) x H2 Hn). f_equal. lia.
Qed.

Lemma chunk_get_spec : forall c id addr, chunk_ok c ->
  (match seg_position (fst (snd c)) id with None => None | Some pos => seg_get (snd (snd c)) pos end) = Some addr
  <-> In (id, addr) (chunk_pairs c).
Proof.
  intros c id addr [Hw1 [Hw2 [Hlen [Hnd Hb]]]]. unfold chunk_pairs.
  rewrite seg_position_iter by assumption. split.
  - destruct (index_of id (seg_iter (fst (snd c)))) as [pos|] eqn:E; [|discriminate]. intro Hg.
    rewrite seg_get_iter in Hg by assumption. apply index_of_some_nth in E. eapply combine_nth; eauto.
  - intro Hin. apply combine_In_nth in Hin as [i [H1 H2]]. rewrite (NoDup_index_of _ i id Hnd H1).
    rewrite seg_get_iter by assumption. assumption.
Qed.

Theorem index_get_spec : forall idx, Forall chunk_ok idx -> disjoint_chunks idx ->
  forall id addr, index_get idx id = Some addr <-> In (id, addr) (index_pairs idx).
Proof.
  induction idx as [|c idx IH]; intros Hok Hdis id addr.
  - cbn. split; [discriminate | intros []].
  - inversion Hok as [|? ? Hc Hrest]; subst. destruct Hdis as [Hd1 Hd2].
    unfold index_get, index_pairs in *. cbn [find flat_map]. rewrite in_app_iff.
    destruct ((c_lo c <=? id) && (id <=? c_hi c)) eqn:Er.
    + apply andb_true_iff in Er as [Er1 Er2]. apply N.leb_le in Er1, Er2.
      rewrite chunk_get_spec by assumption. split; [intro; left; assumption|].
      intros [H | H]; [assumption|]. exfalso.
      apply in_flat_map in H as [c' [Hc' Hp]]. rewrite Forall_forall in Hrest. specialize (Hrest c' Hc').
      destruct Hrest as [_ [_ [_ [_ Hb']]]]. unfold chunk_pairs in Hp. apply in_combine_l in Hp. specialize (Hb' id Hp).
      destruct (Hd1 c' Hc'); lia.
    + rewrite (IH Hrest Hd2 id addr). split; [intro; right; assumption|].
      intros [H | H]; [|assumption]. exfalso. destruct Hc as [_ [_ [_ [_ Hb]]]].
      unfold chunk_pairs in H. apply in_combine_l in H. specialize (Hb id H).
      apply andb_false_iff in Er as [Er | Er]; [apply N.leb_gt in Er | apply N.leb_gt in Er]; lia.
Qed.
