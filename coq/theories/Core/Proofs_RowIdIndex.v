(* C34 - proofs about Core/Model_RowIdIndex.v *)
From LanceV Require Import Common.Base Core.Model_RowIds Core.Proofs_RowIds Core.Model_RowIdIndex.
Local Open Scope N_scope.

(* What RowIdIndex::get needs from the chunk list built by RowIdIndex::new. *)
Definition chunk_ok (c : chunk) : Prop :=
  seg_wf (fst (snd c)) = true /\ seg_wf (snd (snd c)) = true
  /\ len_N (seg_iter (fst (snd c))) = len_N (seg_iter (snd (snd c)))
  /\ NoDup (seg_iter (fst (snd c)))
  /\ forall v, In v (seg_iter (fst (snd c))) -> c_lo c <= v <= c_hi c.

Fixpoint disjoint_chunks (idx : list chunk) : Prop :=
  match idx with
  | [] => True
  | c :: r => (forall c', In c' r -> c_hi c < c_lo c' \/ c_hi c' < c_lo c) /\ disjoint_chunks r
  end.

Definition chunk_pairs (c : chunk) : list (N * N) := combine (seg_iter (fst (snd c))) (seg_iter (snd (snd c))).
Definition index_pairs (idx : list chunk) : list (N * N) := flat_map chunk_pairs idx.

Lemma combine_nth : forall (l a : list N) i x y, nth_N l i = Some x -> nth_N a i = Some y -> In (x, y) (combine l a).
Proof.
  induction l as [|x0 l IH]; intros a i x y Hl Ha; [unfold nth_N in Hl; destruct (N.to_nat i); discriminate|].
  destruct a as [|y0 a]; [unfold nth_N in Ha; destruct (N.to_nat i); discriminate|].
  destruct (N.eqb_spec i 0) as [-> | Hi].
  - rewrite nth_N_0 in Hl, Ha. inversion Hl; inversion Ha; subst. left. reflexivity.
  - rewrite nth_N_pos in Hl, Ha by lia. right. eapply IH; eauto.
Qed.

Lemma combine_In_nth : forall (l a : list N) x y, In (x, y) (combine l a) ->
  exists i, nth_N l i = Some x /\ nth_N a i = Some y.
Proof.
  induction l as [|x0 l IH]; intros a x y H; [destruct H|]. destruct a as [|y0 a]; [destruct H|].
  destruct H as [H | H].
  - inversion H; subst. exists 0. split; reflexivity.
  - destruct (IH a x y H) as [i [H1 H2]]. exists (i + 1). rewrite !nth_N_succ. split; assumption.
Qed.

Lemma NoDup_index_of : forall l i x, NoDup l -> nth_N l i = Some x -> index_of x l = Some i.
Proof.
  induction l as [|x0 l IH]; intros i x Hnd Hn; [unfold nth_N in Hn; destruct (N.to_nat i); discriminate|].
  inversion Hnd; subst. rewrite index_of_cons. destruct (N.eqb_spec i 0) as [-> | Hi].
  - rewrite nth_N_0 in Hn. inversion Hn; subst. rewrite N.eqb_refl. reflexivity.
  - rewrite nth_N_pos in Hn by lia. destruct (N.eqb_spec x x0) as [-> | Hne].
    + exfalso. apply H1. unfold nth_N in Hn. eapply nth_error_In; eauto.
    + rewrite (IH (i - 1) x H2 Hn). f_equal. lia.
Qed.

Lemma chunk_get_spec : forall c id addr, chunk_ok c ->
  (match seg_position (fst (snd c)) id with None => None | Some pos => seg_get (snd (snd c)) pos end) = Some addr
  <-> In (id, addr) (chunk_pairs c).
Proof.
  intros c id addr [Hw1 [Hw2 [Hlen [Hnd Hb]]]]. unfold chunk_pairs.
  rewrite seg_position_iter by assumption. split.
  - destruct (index_of id (seg_iter (fst (snd c)))) as [pos|] eqn:E; [|discriminate]. intro Hg.
    rewrite seg_get_iter in Hg by assumption. apply index_of_some_nth in E. eapply combine_nth; eauto.
  - intro Hin. apply combine_In_nth in Hin as [i [H1 H2]]. rewrite (NoDup_index_of _ i id Hnd H1).
    rewrite seg_get_iter by assumption. assumption.
Qed.

Theorem index_get_spec : forall idx, Forall chunk_ok idx -> disjoint_chunks idx ->
  forall id addr, index_get idx id = Some addr <-> In (id, addr) (index_pairs idx).
Proof.
  induction idx as [|c idx IH]; intros Hok Hdis id addr.
  - cbn. split; [discriminate | intros []].
  - inversion Hok as [|? ? Hc Hrest]; subst. destruct Hdis as [Hd1 Hd2].
    unfold index_get, index_pairs in *. cbn [find flat_map]. rewrite in_app_iff.
    destruct ((c_lo c <=? id) && (id <=? c_hi c)) eqn:Er.
    + apply andb_true_iff in Er as [Er1 Er2]. apply N.leb_le in Er1, Er2.
      rewrite chunk_get_spec by assumption. split; [intro; left; assumption|].
      intros [H | H]; [assumption|]. exfalso.
      apply in_flat_map in H as [c' [Hc' Hp]]. rewrite Forall_forall in Hrest. specialize (Hrest c' Hc').
      destruct Hrest as [_ [_ [_ [_ Hb']]]]. unfold chunk_pairs in Hp. apply in_combine_l in Hp. specialize (Hb' id Hp).
      destruct (Hd1 c' Hc'); lia.
    + rewrite (IH Hrest Hd2 id addr). split; [intro; right; assumption|].
      intros [H | H]; [|assumption]. exfalso. destruct Hc as [_ [_ [_ [_ Hb]]]].
      unfold chunk_pairs in H. apply in_combine_l in H. specialize (Hb id H).
      apply andb_false_iff in Er as [Er | Er]; [apply N.leb_gt in Er | apply N.leb_gt in Er]; lia.
Qed.

(* ------------------------------------------------------------------ *)
(* RowIdIndex::new when no two chunk ranges overlap                    *)
(* ------------------------------------------------------------------ *)
(* the live rows of a fragment: (row id, address) for every non-deleted row offset *)
Definition live_pairs (l deleted : list N) (co sa : N) : list (N * N) :=
  map (fun p => (snd p, sa + (fst p - co))) (filter (fun p => negb (memN (fst p) deleted)) (enum_from co l)).

Definition frag_live (f : frag) : list (N * N) :=
  let '(fid, q, deleted) := f in live_pairs (rs_iter q) deleted 0 (fid * two32).

Lemma live_pairs_app : forall l1 l2 d co sa,
  live_pairs (l1 ++ l2) d co sa = live_pairs l1 d co sa ++ live_pairs l2 d (co + len_N l1) (sa + len_N l1).
Proof.
  intros. unfold live_pairs. rewrite enum_from_app, filter_app, map_app. f_equal.
  apply map_ext_in. intros p Hp. apply filter_In in Hp as [Hp _]. apply enum_from_bounds in Hp. f_equal. lia.
Qed.

Lemma enum_from_shift : forall l a d, enum_from (a + d) l = map (fun p => (fst p + d, snd p)) (enum_from a l).
Proof.
  induction l as [|x l IH]; intros a d; [reflexivity|]. cbn [enum_from map fst snd]. f_equal.
  replace (a + d + 1) with (a + 1 + d) by lia. apply IH.
Qed.

Lemma enumerate_enum : forall l, enumerate l = enum_from 0 l.
Proof. intro l. unfold enumerate. apply (combine_seq_enum l 0). Qed.

Lemma filter_map_comm {A B} : forall (f : B -> bool) (g : A -> B) l, filter f (map g l) = map g (filter (fun x => f (g x)) l).
Proof. intros f g l. induction l as [|x l IH]; [reflexivity|]. cbn [map filter]. destruct (f (g x)); cbn [map]; rewrite IH; reflexivity. Qed.

Lemma map_snd_filter_subseq : forall (f : N * N -> bool) l b, subseq (map snd (filter f (enum_from b l))) l.
Proof.
  intros f. induction l as [|x l IH]; intro b; [constructor|]. cbn [enum_from filter].
  destruct (f (b, x)); cbn [map snd]; constructor; apply IH.
Qed.

Lemma combine_map_pair {A} : forall (l : list A) (f g : A -> N), combine (map f l) (map g l) = map (fun x => (f x, g x)) l.
Proof. intros l f g. induction l as [|x l IH]; [reflexivity|]. cbn [map combine]. f_equal. assumption. Qed.

Definition small_addr (sa n : N) : Prop := sa + n < 2 ^ 62 - 6.

Lemma decompose_go_spec : forall q deleted co sa, rseq_wf q = true -> ids_ok (rs_iter q) ->
  small_addr sa (len_N (rs_iter q)) ->
  exists chunks, decompose_go q deleted co sa = Ok chunks
    /\ Forall chunk_ok chunks /\ Forall (fun c => c_lo c <= c_hi c) chunks
    /\ flat_map chunk_pairs chunks = live_pairs (rs_iter q) deleted co sa.
Proof.
  induction q as [|sg q IH]; intros deleted co sa Hwf Hok Hsm.
  - exists []. split; [reflexivity|]. repeat split; constructor.
  - apply rseq_wf_cons in Hwf as [H1 H2]. rewrite rs_iter_cons in *.
    assert (Hok1 : ids_ok (seg_iter sg)) by (eapply ids_ok_subseq; [apply subseq_app_l | exact Hok]).
    assert (Hok2 : ids_ok (rs_iter q)) by (eapply ids_ok_subseq; [apply subseq_app_r | exact Hok]).
    unfold small_addr in *. rewrite len_N_app in Hsm.
    cbn [decompose_go]. rewrite seg_len_iter by assumption. rewrite enumerate_enum.
    set (active := filter (fun p => negb (memN (co + fst p) deleted)) (enum_from 0 (seg_iter sg))).
    destruct (IH deleted (co + len_N (seg_iter sg)) (sa + len_N (seg_iter sg)) H2 Hok2) as [more [Em [Hcm [Hlm Hpm]]]]; [unfold small_addr; lia|].
    rewrite Em.
    assert (Hlive : map (fun p => (snd p, sa + fst p)) active = live_pairs (seg_iter sg) deleted co sa).
    { unfold live_pairs, active. pose proof (enum_from_shift (seg_iter sg) 0 co) as Hsh.
      replace (0 + co) with co in Hsh by lia. rewrite Hsh.
      rewrite filter_map_comm. rewrite map_map. cbn [fst snd].
      rewrite (filter_ext (fun x : N * N => negb (memN (fst x + co) deleted)) (fun p => negb (memN (co + fst p) deleted)))
        by (intro; do 2 f_equal; lia).
      apply map_ext. intros p. f_equal. lia. }
    assert (Hhere : exists here : list chunk,
       (match active with
        | [] => Ok []
        | _ => do rs <- from_slice (map snd active);
               do ad <- from_slice (map (fun p => sa + fst p) active);
               do cov <- seg_range rs;
               match cov with None => Ok [] | Some c => Ok [(c, (rs, ad))] end
        end) = Ok here
       /\ Forall chunk_ok here /\ Forall (fun c => c_lo c <= c_hi c) here
       /\ flat_map chunk_pairs here = map (fun p => (snd p, sa + fst p)) active).
    { destruct active as [|a0 act] eqn:Ea.
      - exists (@nil chunk). split; [reflexivity|]. repeat split; constructor.
      - rewrite <- Ea in *.
        assert (Hids : ids_ok (map snd active)) by (eapply ids_ok_subseq; [apply map_snd_filter_subseq | exact Hok1]).
        destruct (ids_ok_from_slice _ Hids) as [rs [Ers [Hwrs Hirs]]].
        assert (Hfst : map fst active = filter (fun i => negb (memN (co + i) deleted)) (range_iter 0 (len_N (seg_iter sg)))).
        { unfold active. rewrite <- (filter_map_comm (fun i => negb (memN (co + i) deleted)) fst). rewrite enum_from_fst.
          unfold range_iter, len_N. do 2 f_equal. lia. }
        assert (Haddr : ids_ok (map (fun p => sa + fst p) active)).
        { rewrite <- (map_map fst (fun i => sa + i)). rewrite Hfst.
          set (offs := filter (fun i => negb (memN (co + i) deleted)) (range_iter 0 (len_N (seg_iter sg)))).
          assert (Hoffs : forall i, In i offs -> i < len_N (seg_iter sg)).
          { intros i Hi. apply filter_In in Hi as [Hi _]. apply range_iter_In in Hi. lia. }
          assert (Hso : sincr offs) by (apply sincr_filter, sincr_range_iter).
          assert (Hsm' : sincr (map (fun i => sa + i) offs)).
          { clear -Hso. induction offs as [|x l IHl]; [constructor|]. apply sincr_cons_iff in Hso as [Hs1 Hs2].
            cbn [map]. apply sincr_cons_iff. split; [apply IHl; assumption|].
            intros y Hy. apply in_map_iff in Hy as [z [<- Hz]]. specialize (Hs2 z Hz). lia. }
          split; [apply sincr_NoDup; assumption|]. split.
          - apply Forall_forall. intros x Hx. apply in_map_iff in Hx as [i [<- Hi]]. specialize (Hoffs i Hi).
            change (2 ^ 62 - 6) with 4611686018427387898 in Hsm. unfold u64max, two64. lia.
          - intros x y Hx Hy. apply in_map_iff in Hx as [i [<- Hi]]. apply in_map_iff in Hy as [j [<- Hj]].
            pose proof (Hoffs i Hi). pose proof (Hoffs j Hj). lia. }
        destruct (ids_ok_from_slice _ Haddr) as [ad [Ead [Hwad Hiad]]].
        rewrite Ers, Ead. cbn [obind].
        assert (Hne : seg_iter rs <> []) by (rewrite Hirs, Ea; discriminate).
        destruct (seg_range_contains rs Hwrs Hne) as [lo [hi [Hr Hb]]]. rewrite Hr. cbn [obind].
        exists [((lo, hi), (rs, ad)) : chunk]. split; [reflexivity|].
        assert (Hlohi : lo <= hi).
        { destruct (seg_iter rs) as [|v vs] eqn:Ev; [congruence|]. specialize (Hb v (or_introl eq_refl)). lia. }
        split; [|split].
        + constructor; [|constructor]. unfold chunk_ok. cbn [fst snd c_lo c_hi]. split; [assumption|]. split; [assumption|].
          split; [rewrite Hirs, Hiad; unfold len_N; rewrite !map_length; reflexivity|].
          split; [rewrite Hirs; apply Hids | assumption].
        + constructor; [assumption | constructor].
        + cbn [flat_map]. rewrite app_nil_r. unfold chunk_pairs. cbn [fst snd]. rewrite Hirs, Hiad. apply combine_map_pair. }
    destruct Hhere as [here [Eh [Hch [Hlh Hph]]]]. rewrite Eh. cbn [obind].
    exists (here ++ more). split; [reflexivity|]. split; [apply Forall_app; split; assumption|].
    split; [apply Forall_app; split; assumption|].
    rewrite flat_map_app, Hph, Hpm, Hlive, live_pairs_app. reflexivity.
Qed.

Definition frag_ok (f : frag) : Prop :=
  let '(fid, q, _) := f in rseq_wf q = true /\ ids_ok (rs_iter q) /\ small_addr (fid * two32) (len_N (rs_iter q)).

Lemma decompose_all_spec : forall frags, Forall frag_ok frags ->
  exists chunks, decompose_all frags = Ok chunks
    /\ Forall chunk_ok chunks /\ Forall (fun c => c_lo c <= c_hi c) chunks
    /\ flat_map chunk_pairs chunks = flat_map frag_live frags.
Proof.
  induction frags as [|f frags IH]; intro Hok.
  - exists []. split; [reflexivity|]. repeat split; constructor.
  - inversion Hok as [|? ? Hf Hrest]; subst. destruct (IH Hrest) as [more [Em [Hcm [Hlm Hpm]]]].
    destruct f as [[fid q] deleted]. destruct Hf as [Hw [Hi Hs]].
    destruct (decompose_go_spec q deleted 0 (fid * two32) Hw Hi Hs) as [here [Eh [Hch [Hlh Hph]]]].
    cbn [decompose_all decompose_sequence]. rewrite Eh. cbn [obind]. rewrite Em. cbn [obind].
    exists (here ++ more). split; [reflexivity|]. split; [apply Forall_app; split; assumption|].
    split; [apply Forall_app; split; assumption|].
    rewrite flat_map_app, Hph, Hpm. reflexivity.
Qed.

(* consecutive chunks (in processing order) do not overlap *)
Fixpoint asc_disjoint (cs : list chunk) : bool :=
  match cs with
  | c1 :: (c2 :: _) as r => (c_hi c1 <? c_lo c2) && asc_disjoint r
  | _ => true
  end.

Lemma prep_go_disjoint : forall rest lastc out r0, asc_disjoint (lastc :: rest) = true ->
  prep_go rest (NonOv lastc :: out) r0 [] = Ok (rev out ++ map NonOv (lastc :: rest)).
Proof.
  induction rest as [|ch rest IH]; intros lastc out r0 H.
  - cbn [prep_go map]. cbn [rev]. reflexivity.
  - cbn [asc_disjoint] in H. apply andb_true_iff in H as [Hlt Hrest]. apply N.ltb_lt in Hlt.
    cbn [prep_go raw_end]. replace (c_lo ch <=? c_hi lastc) with false by (symmetry; apply N.leb_gt; assumption).
    rewrite IH by assumption. cbn [rev map]. rewrite <- app_assoc. reflexivity.
Qed.

Lemma finalize_nonov : forall cs, finalize (map NonOv cs) = Ok cs.
Proof. induction cs as [|c cs IH]; [reflexivity|]. cbn [map finalize]. rewrite IH. reflexivity. Qed.

Lemma insert_by_In {A} : forall (key : A -> N) x l y, In y (insert_by key x l) <-> y = x \/ In y l.
Proof.
  intros key x l y. induction l as [|z l IH]; cbn [insert_by In]; [intuition congruence|].
  destruct (key x <=? key z); cbn [In]; [intuition congruence|]. rewrite IH. intuition congruence.
Qed.

Lemma processing_order_In : forall chunks c, In c (processing_order chunks) <-> In c chunks.
Proof.
  intros chunks c. unfold processing_order. rewrite <- in_rev. unfold stable_sort_by.
  induction chunks as [|x l IH]; [reflexivity|]. cbn [fold_right In]. rewrite insert_by_In, IH. intuition congruence.
Qed.

Lemma asc_disjoint_chunks : forall cs, asc_disjoint cs = true -> Forall (fun c => c_lo c <= c_hi c) cs -> disjoint_chunks cs.
Proof.
  induction cs as [|c1 cs IH]; intros Ha Hl; [exact I|]. inversion Hl as [|? ? Hl1 Hl2]; subst.
  cbn [disjoint_chunks]. destruct cs as [|c2 cs']; [split; [intros c' [] | exact I]|].
  cbn [asc_disjoint] in Ha. apply andb_true_iff in Ha as [Hlt Hrest]. apply N.ltb_lt in Hlt.
  specialize (IH Hrest Hl2). split; [|assumption].
  intros c' [<- | Hin]; [left; assumption|]. left.
  cbn [disjoint_chunks] in IH. destruct IH as [IH1 _]. inversion Hl2; subst.
  destruct (IH1 c' Hin) as [H | H]; [lia|].
  (* c' after c2 in an ascending chain cannot end before c2 starts *)
  exfalso. clear -Hrest Hin H Hl2. revert c2 Hrest H Hl2. induction cs' as [|c3 cs IHc]; intros c2 Hrest H Hl2; [destruct Hin|].
  cbn [asc_disjoint] in Hrest. apply andb_true_iff in Hrest as [Hlt Hr]. apply N.ltb_lt in Hlt.
  inversion Hl2 as [|? ? Ha Hb]; subst. inversion Hb as [|? ? Hc Hd]; subst.
  destruct Hin as [<- | Hin]; [lia|]. apply (IHc Hin c3 Hr); [lia | assumption].
Qed.

Theorem index_new_no_overlap : forall frags chunks, Forall frag_ok frags ->
  decompose_all frags = Ok chunks -> asc_disjoint (processing_order chunks) = true ->
  exists idx, index_new frags = Ok idx /\
    forall id addr, index_get idx id = Some addr <-> In (id, addr) (flat_map frag_live frags).
Proof.
  intros frags chunks Hok Ed Hasc. destruct (decompose_all_spec frags Hok) as [chunks' [Ed' [Hc [Hl Hp]]]].
  rewrite Ed in Ed'. inversion Ed'; subst chunks'. clear Ed'.
  unfold index_new. rewrite Ed. cbn [obind]. unfold prep_index_chunks.
  set (P := processing_order chunks) in *.
  assert (HcP : Forall chunk_ok P).
  { apply Forall_forall. intros c Hc'. apply (proj1 (processing_order_In chunks c)) in Hc'. rewrite Forall_forall in Hc. apply Hc. assumption. }
  assert (HlP : Forall (fun c => c_lo c <= c_hi c) P).
  { apply Forall_forall. intros c Hc'. apply (proj1 (processing_order_In chunks c)) in Hc'. rewrite Forall_forall in Hl. apply Hl. assumption. }
  assert (HpP : forall pr, In pr (index_pairs P) <-> In pr (flat_map frag_live frags)).
  { intro pr. rewrite <- Hp. unfold index_pairs. rewrite !in_flat_map. split; intros [c [H1 H2]]; exists c; split; try assumption.
    - apply (proj1 (processing_order_In chunks c)). assumption.
    - apply (proj2 (processing_order_In chunks c)). assumption. }
  exists P. split.
  - destruct P as [|first rest] eqn:EP; [reflexivity|].
    rewrite (prep_go_disjoint rest first [] (0, 0) Hasc). cbn [obind rev app]. apply finalize_nonov.
  - intros id addr. rewrite <- HpP. apply index_get_spec; [assumption | apply asc_disjoint_chunks; assumption].
Qed.
