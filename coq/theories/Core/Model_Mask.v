(* Model of rust/lance-core/src/utils/mask.rs: RowIdTreeMap (a BTreeMap<u32, Full | Partial(RoaringBitmap)>)
   and RowIdMask (allow list / block list).  Executable definitions only (+ the chk_* correspondence
   checkers at the end).  Transcribed from the tree as it is AFTER the repairs 0357916 (Not / BitOr),
   e79147a (insert_range) and 7f76aa9 (SubAssign drops a fragment entry that became empty).

   Representation choices (the only non-literal parts):
   * RoaringBitmap (external crate) = a finite set of u32.  It is represented either by the strictly
     increasing list of its elements [Pos l] or by the strictly increasing list of the elements it does
     NOT contain [Neg l] (needed because `remove` on a Full fragment and `Full - Partial` build
     RoaringBitmap::full() minus a few elements).  The harness prints a real bitmap as Pos when it holds
     at most 2^31 elements and as Neg otherwise.
   * BTreeMap<u32, V> = association list kept sorted by key. *)
From LanceV Require Import Common.Base.
Local Open Scope N_scope.

Definition u32max : N := 4294967295.
Definition u64max : N := 18446744073709551615.

(* ---------- strictly increasing lists of N used as finite sets ---------- *)
Definition lmem (x : N) (l : list N) : bool := existsb (N.eqb x) l.
Fixpoint lins (x : N) (l : list N) : list N :=
  match l with
  | [] => [x]
  | y :: r => if x <? y then x :: l else if x =? y then l else y :: lins x r
  end.
Definition lrem (x : N) (l : list N) : list N := filter (fun y => negb (y =? x)) l.
(* the elements of a inserted into b *)
Definition lunion (a b : list N) : list N := fold_right lins b a.
Definition linter (a b : list N) : list N := filter (fun x => lmem x b) a.
Definition ldiff (a b : list N) : list N := filter (fun x => negb (lmem x b)) a.
Fixpoint nseq (start : N) (len : nat) : list N :=
  match len with O => [] | S n => start :: nseq (start + 1) n end.
(* lo ..= hi *)
Definition nrange (lo hi : N) : list N := if hi <? lo then [] else nseq lo (N.to_nat (hi - lo + 1)).
Definition llen {A} (l : list A) : N := N.of_nat (length l).

(* ---------- RoaringBitmap ---------- *)
Inductive bitmap := Pos (l : list N) | Neg (l : list N).
Definition bm_empty : bitmap := Pos [].            (* RoaringBitmap::new() *)
Definition bm_full : bitmap := Neg [].             (* RoaringBitmap::full() *)
Definition bm_mem (b : bitmap) (x : N) : bool :=   (* contains *)
  match b with
  | Pos l => (x <? two32) && lmem x l
  | Neg l => (x <? two32) && negb (lmem x l)
  end.
(* insert: returns (bitmap, true iff newly inserted) *)
Definition bm_insert (x : N) (b : bitmap) : bitmap * bool :=
  match b with
  | Pos l => (Pos (lins x l), negb (lmem x l))
  | Neg l => (Neg (lrem x l), lmem x l)
  end.
(* remove: returns (bitmap, true iff it was present) *)
Definition bm_remove (x : N) (b : bitmap) : bitmap * bool :=
  match b with
  | Pos l => (Pos (lrem x l), lmem x l)
  | Neg l => (Neg (lins x l), negb (lmem x l))
  end.
(* insert_range(lo..=hi): returns (bitmap, number of newly inserted values) *)
Definition bm_insert_range (lo hi : N) (b : bitmap) : bitmap * N :=
  match b with
  | Pos l => let l' := lunion (nrange lo hi) l in (Pos l', llen l' - llen l)
  | Neg l => let l' := ldiff l (nrange lo hi) in (Neg l', llen l - llen l')
  end.
Definition bm_union (a b : bitmap) : bitmap :=     (* |= *)
  match a, b with
  | Pos x, Pos y => Pos (lunion x y)
  | Pos x, Neg y => Neg (ldiff y x)
  | Neg x, Pos y => Neg (ldiff x y)
  | Neg x, Neg y => Neg (linter x y)
  end.
Definition bm_inter (a b : bitmap) : bitmap :=     (* &= *)
  match a, b with
  | Pos x, Pos y => Pos (linter x y)
  | Pos x, Neg y => Pos (ldiff x y)
  | Neg x, Pos y => Pos (ldiff y x)
  | Neg x, Neg y => Neg (lunion x y)
  end.
Definition bm_diff (a b : bitmap) : bitmap :=      (* -= *)
  match a, b with
  | Pos x, Pos y => Pos (ldiff x y)
  | Pos x, Neg y => Pos (linter x y)
  | Neg x, Pos y => Neg (lunion x y)
  | Neg x, Neg y => Pos (ldiff y x)
  end.
Definition bm_len (b : bitmap) : N :=
  match b with Pos l => llen l | Neg l => two32 - llen l end.
Definition bm_is_empty (b : bitmap) : bool :=
  match b with Pos l => match l with [] => true | _ => false end | Neg l => llen l =? two32 end.
(* iteration order (ascending) *)
Definition bm_elems (b : bitmap) : list N :=
  match b with Pos l => l | Neg l => ldiff (nrange 0 u32max) l end.

(* ---------- BTreeMap<u32, V> ---------- *)
Section AMap.
  Context {V : Type}.
  Fixpoint aget (k : N) (t : list (N * V)) : option V :=
    match t with
    | [] => None
    | (k', v) :: r => if k =? k' then Some v else aget k r
    end.
  Fixpoint aput (k : N) (v : V) (t : list (N * V)) : list (N * V) :=
    match t with
    | [] => [(k, v)]
    | (k', v') :: r =>
      if k <? k' then (k, v) :: t else if k =? k' then (k, v) :: r else (k', v') :: aput k v r
    end.
  Definition adel (k : N) (t : list (N * V)) : list (N * V) :=
    filter (fun e => negb (fst e =? k)) t.
End AMap.

(* ---------- RowIdSelection / RowIdTreeMap ---------- *)
Inductive sel := Full | Partial (b : bitmap).
Definition treemap := list (N * sel).

Definition is_full (s : sel) : bool := match s with Full => true | Partial _ => false end.

(* (value >> 32) as u32, value as u32 *)
Definition hi32 (v : N) : N := wrap32 (v / two32).
Definition lo32 (v : N) : N := wrap32 v.

Definition tm_new : treemap := [].
Definition tm_is_empty (t : treemap) : bool := match t with [] => true | _ => false end.

(* RowIdTreeMap::len: try_fold over the values; None as soon as a Full is met.
   (The u64 overflow of `next + acc` is not modelled: it needs 2^32 fragments each holding a full
   bitmap, 2^41 bytes; listed among the assumptions of the property.) *)
Fixpoint tm_len_from (acc : N) (t : treemap) : option N :=
  match t with
  | [] => Some acc
  | (_, Full) :: _ => None
  | (_, Partial b) :: r => tm_len_from (bm_len b + acc) r
  end.
Definition tm_len (t : treemap) : option N := tm_len_from 0 t.

(* RowIdTreeMap::row_ids (as u64 row addresses, in iteration order) *)
Definition addr (frag off : N) : N := frag * two32 + off.
Definition tm_row_ids (t : treemap) : option (list N) :=
  if existsb (fun e => is_full (snd e)) t then None
  else Some (flat_map (fun e => match snd e with
                                | Full => []
                                | Partial b => map (addr (fst e)) (bm_elems b)
                                end) t).

Definition tm_insert (v : N) (t : treemap) : treemap * bool :=
  let f := hi32 v in
  let r := lo32 v in
  match aget f t with
  | None => (aput f (Partial (fst (bm_insert r bm_empty))) t, true)
  | Some Full => (t, false)
  | Some (Partial b) => let '(b', ch) := bm_insert r b in (aput f (Partial b') t, ch)
  end.

(* std::ops::Bound<u64> *)
Inductive bound := Incl (n : N) | Excl (n : N) | Unb.

(* The `loop { .. }` of insert_range.  [n] = fuel = number of fragments still to visit after the
   current one; out of fuel is [Err] (the Rust function has no Err return; Proofs shows it is never
   produced with the fuel insert_range passes).  [Panic] = debug-build overflow of `start_high += 1`
   or of `count += ..`. *)
Fixpoint ir_loop (n : nat) (t : treemap) (sh sl eh el count : N) : outcome (treemap * N) :=
  let en := if sh =? eh then el else u32max in
  let '(t', c) :=
    match aget sh t with
    | None => let '(b, c) := bm_insert_range sl en bm_empty in (aput sh (Partial b) t, c)
    | Some Full => (t, 0)
    | Some (Partial b) => let '(b', c) := bm_insert_range sl en b in (aput sh (Partial b') t, c)
    end in
  if two64 <=? count + c then Panic else
  let count' := count + c in
  if sh =? eh then Ok (t', count') else
  if two32 <=? sh + 1 then Panic else
  match n with
  | O => Err
  | S n' => ir_loop n' t' (sh + 1) 0 eh el count'
  end.

Definition pair_ltb (a b : N * N) : bool :=
  (fst a <? fst b) || ((fst a =? fst b) && (snd a <? snd b)).

Definition tm_insert_range (s e : bound) (t : treemap) : outcome (treemap * N) :=
  let start :=
    match s with
    | Incl st => (hi32 st, lo32 st)
    | Excl st => let st' := if two64 <=? st + 1 then u64max else st + 1 in (hi32 st', lo32 st')
    | Unb => (0, 0)
    end in
  let oend :=
    match e with
    | Incl en => Some (hi32 en, lo32 en)
    | Excl en => if en =? 0 then None else Some (hi32 (en - 1), lo32 (en - 1))
    | Unb => Some (u32max, u32max)
    end in
  match oend with
  | None => Ok (t, 0)
  | Some en =>
    if pair_ltb en start || match s with Excl st => st =? u64max | _ => false end then Ok (t, 0)
    else ir_loop (N.to_nat (fst en - fst start)) t (fst start) (snd start) (fst en) (snd en) 0
  end.

Definition tm_insert_bitmap (f : N) (b : bitmap) (t : treemap) : treemap := aput f (Partial b) t.
Definition tm_insert_fragment (f : N) (t : treemap) : treemap := aput f Full t.
Definition tm_get_fragment_bitmap (f : N) (t : treemap) : option bitmap :=
  match aget f t with Some (Partial b) => Some b | _ => None end.

Definition tm_contains (t : treemap) (v : N) : bool :=
  match aget (hi32 v) t with
  | None => false
  | Some Full => true
  | Some (Partial b) => bm_mem b (lo32 v)
  end.

Definition tm_remove (v : N) (t : treemap) : treemap * bool :=
  let up := hi32 v in
  let low := lo32 v in
  match aget up t with
  | None => (t, false)
  | Some Full => (aput up (Partial (fst (bm_remove low bm_full))) t, true)
  | Some (Partial b) =>
    let '(b', removed) := bm_remove low b in
    if bm_is_empty b' then (adel up t, removed) else (aput up (Partial b') t, removed)
  end.

Definition tm_retain_fragments (frags : list N) (t : treemap) : treemap :=
  filter (fun e => lmem (fst e) frags) t.

(* FromIterator<u64> / Extend<u64> *)
Definition extend_step (t : treemap) (v : N) : treemap :=
  let up := hi32 v in
  let low := lo32 v in
  match aget up t with
  | None => aput up (Partial (fst (bm_insert low bm_empty))) t
  | Some Full => t
  | Some (Partial b) => aput up (Partial (fst (bm_insert low b))) t
  end.
Definition tm_extend (t : treemap) (vs : list N) : treemap := fold_left extend_step vs t.
Definition tm_from_iter (vs : list N) : treemap := tm_extend tm_new vs.

(* BitOrAssign *)
Definition or_step (acc : treemap) (e : N * sel) : treemap :=
  let '(f, rs) := e in
  match aget f acc with
  | Some Full => acc
  | Some (Partial lb) =>
    match rs with
    | Full => aput f Full acc
    | Partial rb => aput f (Partial (bm_union lb rb)) acc
    end
  | None => aput f rs acc
  end.
Definition tm_or (a b : treemap) : treemap := fold_left or_step b a.

(* BitAndAssign: retain keys of rhs; intersect; drop empty bitmaps *)
Definition and_entry (b : treemap) (e : N * sel) : N * sel :=
  let '(f, ls) := e in
  match ls, aget f b with
  | _, None => e
  | _, Some Full => e
  | Partial lb, Some (Partial rb) => (f, Partial (bm_inter lb rb))
  | Full, Some (Partial rb) => (f, Partial rb)
  end.
Definition sel_nonempty (s : sel) : bool :=
  match s with Partial b => negb (bm_is_empty b) | Full => true end.
Definition tm_and (a b : treemap) : treemap :=
  let a1 := filter (fun e => match aget (fst e) b with Some _ => true | None => false end) a in
  let a2 := map (and_entry b) a1 in
  filter (fun e => sel_nonempty (snd e)) a2.

(* SubAssign *)
Definition sub_step (acc : treemap) (e : N * sel) : treemap :=
  let '(f, rs) := e in
  match aget f acc with
  | None => acc
  | Some Full =>
    match rs with
    | Full => adel f acc
    | Partial rb => let b' := bm_diff bm_full rb in
                    if bm_is_empty b' then adel f acc else aput f (Partial b') acc
    end
  | Some (Partial lb) =>
    match rs with
    | Full => adel f acc
    | Partial rb => let b' := bm_diff lb rb in
                    if bm_is_empty b' then adel f acc else aput f (Partial b') acc
    end
  end.
Definition tm_sub (a b : treemap) : treemap := fold_left sub_step b a.

(* RowIdSelection::union_all and RowIdTreeMap::union_all *)
Definition sel_union_all (ss : list sel) : sel :=
  if existsb is_full ss then Full
  else Partial (fold_left (fun acc s => match s with Partial b => bm_union acc b | Full => acc end) ss bm_empty).
Definition ua_step (acc : list (N * list sel)) (e : N * sel) : list (N * list sel) :=
  match aget (fst e) acc with
  | None => aput (fst e) [snd e] acc
  | Some l => aput (fst e) (l ++ [snd e]) acc
  end.
Definition tm_union_all (maps : list treemap) : treemap :=
  map (fun e => (fst e, sel_union_all (snd e))) (fold_left (fun acc m => fold_left ua_step m acc) maps []).

(* Extend<Self>: cumulative union (same case analysis as BitOrAssign, owned rhs) *)
Definition tm_extend_maps (t : treemap) (others : list treemap) : treemap :=
  fold_left (fun acc o => fold_left or_step o acc) others t.

(* ---------- serialization layout ---------- *)
Definition le32 (x : N) : list N :=
  [x mod 256; (x / 256) mod 256; (x / 65536) mod 256; (x / 16777216) mod 256].
Definition rd32 (bs : list N) : option (N * list N) :=
  match bs with
  | a :: b :: c :: d :: r => Some (a + 256 * b + 65536 * c + 16777216 * d, r)
  | _ => None
  end.

Section Serialize.
  (* RoaringBitmap::serialize_into / deserialize_from: external *)
  Variable rb_ser : bitmap -> list N.
  Variable rb_de : list N -> option bitmap.

  Definition tm_serialized_size (t : treemap) : N :=
    fold_left (fun size e => match snd e with
                             | Partial b => size + 8 + llen (rb_ser b)
                             | Full => size + 8
                             end) t 4.

  Definition ser_entry (e : N * sel) : list N :=
    le32 (fst e) ++
    match snd e with
    | Partial b => le32 (wrap32 (llen (rb_ser b))) ++ rb_ser b
    | Full => le32 0
    end.
  Definition tm_serialize (t : treemap) : list N :=
    le32 (wrap32 (llen t)) ++ flat_map ser_entry t.
  (* generic over the entry type so that llen applies to the map itself *)

  Fixpoint de_entries (n : nat) (bs : list N) (acc : treemap) : outcome treemap :=
    match n with
    | O => Ok acc
    | S n' =>
      match rd32 bs with
      | None => Err
      | Some (frag, bs1) =>
        match rd32 bs1 with
        | None => Err
        | Some (size, bs2) =>
          if size =? 0 then de_entries n' bs2 (aput frag Full acc)
          else if llen bs2 <? size then Err
          else match rb_de (firstn (N.to_nat size) bs2) with
               | None => Err
               | Some b => de_entries n' (skipn (N.to_nat size) bs2) (aput frag (Partial b) acc)
               end
        end
      end
    end.
  Definition tm_deserialize (bs : list N) : outcome treemap :=
    match rd32 bs with
    | None => Err
    | Some (n, r) => de_entries (N.to_nat n) r []
    end.
End Serialize.

(* ---------- RowIdMask ---------- *)
Record mask := { allow : option treemap; block : option treemap }.
Definition all_rows : mask := {| allow := None; block := None |}.
Definition allow_nothing : mask := {| allow := Some tm_new; block := None |}.
Definition from_allowed (a : treemap) : mask := {| allow := Some a; block := None |}.
Definition from_block (b : treemap) : mask := {| allow := None; block := Some b |}.

Definition normalize (m : mask) : mask :=
  match allow m, block m with
  | Some a, Some b => {| allow := Some (tm_sub a b); block := None |}
  | _, _ => m
  end.

Definition selected (m : mask) (x : N) : bool :=
  match allow m, block m with
  | None, None => true
  | Some a, None => tm_contains a x
  | None, Some b => negb (tm_contains b x)
  | Some a, Some b => tm_contains a x && negb (tm_contains b x)
  end.

(* positions (0-based) of the ids that pass; Panic when there is nothing to filter with *)
Fixpoint sel_idx (m : mask) (i : N) (ids : list N) : list N :=
  match ids with
  | [] => []
  | x :: r => if selected m x then i :: sel_idx m (i + 1) r else sel_idx m (i + 1) r
  end.
Definition selected_indices (m : mask) (ids : list N) : outcome (list N) :=
  match allow m, block m with
  | None, None => Panic
  | _, _ => Ok (sel_idx m 0 ids)
  end.

Definition also_block (m : mask) (b : treemap) : mask :=
  if tm_is_empty b then m
  else match block m with
       | Some ex => {| allow := allow m; block := Some (tm_or ex b) |}
       | None => {| allow := allow m; block := Some b |}
       end.
Definition also_allow (m : mask) (a : treemap) : mask :=
  match allow m with
  | Some ex => {| allow := Some (tm_or ex a); block := block m |}
  | None => {| allow := None; block := block m |}
  end.

Definition max_len (m : mask) : option N :=
  match allow m with Some a => tm_len a | None => None end.

(* iter_ids: merge of the (ascending) allow ids with the (ascending) block ids *)
Fixpoint skip_lt (a : N) (bl : list N) : list N :=
  match bl with
  | b :: r => if b <? a then skip_lt a r else bl
  | [] => []
  end.
Fixpoint iter_merge (al bl : list N) : list N :=
  match al with
  | [] => []
  | a :: ar =>
    let bl' := skip_lt a bl in
    match bl' with
    | b :: _ => if b =? a then iter_merge ar bl' else a :: iter_merge ar bl'
    | [] => a :: iter_merge ar bl'
    end
  end.
Definition iter_ids (m : mask) : option (list N) :=
  match match allow m with Some a => tm_row_ids a | None => None end with
  | Some al =>
    match block m with
    | Some b => match tm_row_ids b with
                | Some bl => Some (iter_merge al bl)
                | None => None
                end
    | None => Some al
    end
  | None => None
  end.

(* std::ops::Not *)
Definition mnot (m : mask) : mask :=
  let n := normalize m in
  match allow n, block n with
  | None, None => allow_nothing
  | a, b => {| allow := b; block := a |}
  end.

(* std::ops::BitAnd *)
Definition mand (l r : mask) : mask :=
  {| block := match block l, block r with
              | None, None => None
              | Some x, None => Some x
              | None, Some y => Some y
              | Some x, Some y => Some (tm_or x y)
              end;
     allow := match allow l, allow r with
              | None, None => None
              | Some x, None => Some x
              | None, Some y => Some y
              | Some x, Some y => Some (tm_and x y)
              end |}.

(* std::ops::BitOr; Panic = the unreachable!() arm *)
Definition mor (l r : mask) : outcome mask :=
  let this := normalize l in
  let rhs := normalize r in
  let oblock : outcome (option treemap) :=
    match block this with
    | Some sb =>
      match allow rhs, block rhs with
      | None, None => Ok None
      | Some al, None => Ok (Some (tm_sub sb al))
      | None, Some bl => Ok (Some (tm_and sb bl))
      | Some _, Some _ => Panic
      end
    | None =>
      match block rhs with
      | Some rb =>
        match allow this with
        | Some al => Ok (Some (tm_sub rb al))
        | None => Ok None
        end
      | None => Ok None
      end
    end in
  match oblock with
  | Ok bl =>
    Ok {| block := bl;
          allow := match allow this, allow rhs with
                   | Some x, Some y => Some (tm_or x y)
                   | _, _ => None
                   end |}
  | Err => Err
  | Panic => Panic
  end.

(* RowIdTreeMap::mask *)
Definition tm_mask (t : treemap) (m : mask) : treemap :=
  let t1 := match allow m with Some a => tm_and t a | None => t end in
  match block m with Some b => tm_sub t1 b | None => t1 end.

(* ---------- equality of observations ---------- *)
Definition bm_eqb (a b : bitmap) : bool :=
  match a, b with
  | Pos x, Pos y => list_eqb N.eqb x y
  | Neg x, Neg y => list_eqb N.eqb x y
  | _, _ => false
  end.
Definition sel_eqb (a b : sel) : bool :=
  match a, b with
  | Full, Full => true
  | Partial x, Partial y => bm_eqb x y
  | _, _ => false
  end.
Definition tm_eqb (a b : treemap) : bool := list_eqb (pair_eqb N.eqb sel_eqb) a b.
Definition mask_eqb (a b : mask) : bool :=
  option_eqb tm_eqb (allow a) (allow b) && option_eqb tm_eqb (block a) (block b).
Definition nlist_eqb : list N -> list N -> bool := list_eqb N.eqb.

(* ---------- correspondence checkers ---------- *)
(* The harness prints a mask as (allow, block). *)
Definition mk (p : option treemap * option treemap) : mask := {| allow := fst p; block := snd p |}.
Definition mask_obs_eqb (m : mask) (p : option treemap * option treemap) : bool := mask_eqb m (mk p).

(* a script of mutating operations applied to a treemap; the implementation output is the per-step
   return value plus the final map *)
Inductive tm_op :=
| OInsert (v : N) | ORemove (v : N) | OInsertRange (s e : bound) | OInsertBitmap (f : N) (b : bitmap)
| OInsertFragment (f : N) | ORetain (fs : list N) | OExtend (vs : list N)
| OOr (o : treemap) | OAnd (o : treemap) | OSub (o : treemap) | OMask (m : option treemap * option treemap).
(* per-step observable: 0/1 for the bools, the count for insert_range, 0 otherwise *)
Fixpoint run_ops (ops : list tm_op) (t : treemap) (acc : list N) : outcome (treemap * list N) :=
  match ops with
  | [] => Ok (t, rev acc)
  | o :: r =>
    match o with
    | OInsert v => let '(t', b) := tm_insert v t in run_ops r t' ((if b then 1 else 0) :: acc)
    | ORemove v => let '(t', b) := tm_remove v t in run_ops r t' ((if b then 1 else 0) :: acc)
    | OInsertRange s e =>
      match tm_insert_range s e t with
      | Ok (t', c) => run_ops r t' (c :: acc)
      | Err => Err
      | Panic => Panic
      end
    | OInsertBitmap f b => run_ops r (tm_insert_bitmap f b t) (0 :: acc)
    | OInsertFragment f => run_ops r (tm_insert_fragment f t) (0 :: acc)
    | ORetain fs => run_ops r (tm_retain_fragments fs t) (0 :: acc)
    | OExtend vs => run_ops r (tm_extend t vs) (0 :: acc)
    | OOr o => run_ops r (tm_or t o) (0 :: acc)
    | OAnd o => run_ops r (tm_and t o) (0 :: acc)
    | OSub o => run_ops r (tm_sub t o) (0 :: acc)
    | OMask m => run_ops r (tm_mask t (mk m)) (0 :: acc)
    end
  end.

(* observables of a final map: (len, is_empty, row_ids, contains on the probe points) *)
Definition tm_obs := (option N * bool * option (list N) * list bool)%type.
Definition tm_observe (t : treemap) (probes : list N) : tm_obs :=
  (tm_len t, tm_is_empty t, tm_row_ids t, map (tm_contains t) probes).
Definition tm_obs_eqb (a b : tm_obs) : bool :=
  let '(l1, e1, r1, c1) := a in
  let '(l2, e2, r2, c2) := b in
  option_eqb N.eqb l1 l2 && Bool.eqb e1 e2 && option_eqb nlist_eqb r1 r2 && list_eqb Bool.eqb c1 c2.

(* stream "ops": input (skip_ids, (initial map, script, probes)); output (final map, per-step results,
   observables).  skip_ids = the final map holds a nearly full bitmap whose ids the harness cannot list. *)
Definition chk_ops_x (i : bool * (treemap * list tm_op * list N)) (o : outcome (treemap * list N * tm_obs)) : bool :=
  let '(skip_ids, (t0, ops, probes)) := i in
  match run_ops ops t0 [], o with
  | Ok (t, rs), Ok (t', rs', obs) =>
    tm_eqb t t' && nlist_eqb rs rs'
    && tm_obs_eqb (tm_len t, tm_is_empty t, if skip_ids then None else tm_row_ids t, map (tm_contains t) probes) obs
  | Err, Err => true
  | Panic, Panic => true
  | _, _ => false
  end.

(* stream "setops": input (a, b); output (a|b, a&b, a-b, union_all [a;b], union_all [b;a;a]) *)
Definition chk_setops (i : treemap * treemap) (o : treemap * treemap * treemap * treemap * treemap) : bool :=
  let '(a, b) := i in
  let '(o1, o2, o3, o4, o5) := o in
  tm_eqb (tm_or a b) o1 && tm_eqb (tm_and a b) o2 && tm_eqb (tm_sub a b) o3
  && tm_eqb (tm_union_all [a; b]) o4 && tm_eqb (tm_union_all [b; a; a]) o5.

(* stream "union_all": input list of maps; output (union_all, Extend<Self> from the first) *)
Definition chk_union_all (i : list treemap) (o : treemap * treemap) : bool :=
  tm_eqb (tm_union_all i) (fst o)
  && tm_eqb (match i with [] => [] | t :: r => tm_extend_maps t r end) (snd o).

(* stream "from_iter": input values; output from_iter *)
Definition chk_from_iter (i : list N) (o : treemap) : bool := tm_eqb (tm_from_iter i) o.

(* stream "mask1": unary mask operations.
   input (mask, probes); output (normalize, !m, selected on probes, max_len, iter_ids) *)
Definition chk_mask1 (i : (option treemap * option treemap) * list N)
    (o : (option treemap * option treemap) * (option treemap * option treemap) * list bool * option N * option (list N)) : bool :=
  let '(p, probes) := i in
  let m := mk p in
  let '(o_norm, o_not, o_sel, o_max, o_iter) := o in
  mask_obs_eqb (normalize m) o_norm && mask_obs_eqb (mnot m) o_not
  && list_eqb Bool.eqb (map (selected m) probes) o_sel
  && option_eqb N.eqb (max_len m) o_max && option_eqb nlist_eqb (iter_ids m) o_iter.

(* stream "mask2": binary mask operations.  input (l, r); output (l & r, l | r) *)
Definition chk_mask2 (i : (option treemap * option treemap) * (option treemap * option treemap))
    (o : (option treemap * option treemap) * outcome (option treemap * option treemap)) : bool :=
  let '(l, r) := i in
  mask_obs_eqb (mand (mk l) (mk r)) (fst o)
  && match mor (mk l) (mk r), snd o with
     | Ok m, Ok p => mask_obs_eqb m p
     | Panic, Panic => true
     | Err, Err => true
     | _, _ => false
     end.

(* stream "mask_also": input (mask, treemap); output (also_block, also_allow) *)
Definition chk_mask_also (i : (option treemap * option treemap) * treemap)
    (o : (option treemap * option treemap) * (option treemap * option treemap)) : bool :=
  let '(p, t) := i in
  mask_obs_eqb (also_block (mk p) t) (fst o) && mask_obs_eqb (also_allow (mk p) t) (snd o).

(* stream "selidx": input (mask, ids); output selected_indices *)
Definition chk_selidx (i : (option treemap * option treemap) * list N) (o : outcome (list N)) : bool :=
  outcome_eqb nlist_eqb (selected_indices (mk (fst i)) (snd i)) o.

(* serialization streams: the roaring encoder/decoder are instantiated by the table of
   (bitmap, bytes) pairs the harness recorded from the real RoaringBitmap::serialize_into *)
Definition tbl_ser (tbl : list (bitmap * list N)) (b : bitmap) : list N :=
  match find (fun e => bm_eqb (fst e) b) tbl with Some e => snd e | None => [] end.
Definition tbl_de (tbl : list (bitmap * list N)) (bs : list N) : option bitmap :=
  match find (fun e => nlist_eqb (snd e) bs) tbl with Some e => Some (fst e) | None => None end.
(* stream "ser": input (map, table); output (serialized bytes, serialized_size) *)
Definition chk_ser (i : treemap * list (bitmap * list N)) (o : list N * N) : bool :=
  nlist_eqb (tm_serialize (tbl_ser (snd i)) (fst i)) (fst o)
  && (tm_serialized_size (tbl_ser (snd i)) (fst i) =? snd o).
(* stream "de": input (bytes, table); output deserialize result *)
Definition chk_de (i : list N * list (bitmap * list N)) (o : outcome treemap) : bool :=
  outcome_eqb tm_eqb (tm_deserialize (tbl_de (snd i)) (fst i)) o.
