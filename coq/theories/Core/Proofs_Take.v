(* Proofs about Core/Model_Take.v. *)
From LanceV Require Import Common.Base Core.Model_Deletion Core.Proofs_Deletion Core.Model_Take.
Local Open Scope N_scope.
