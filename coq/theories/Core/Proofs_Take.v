(* Proofs about Core/Model_Take.v. *)
From LanceV Require Import Common.Base Core.Model_Deletion Core.Proofs_Deletion Core.Model_Take.
From Coq Require Import Sorting.Sorted Sorting.Permutation.
Local Open Scope N_scope.

(* ================= A. sorting with a permutation ================= *)
Section SortBy.
  Context {A : Type} (key : A -> N).
  Definition key_le (a b : A) : Prop := key a <= key b.

  Lemma insert_by_perm (x : A) (l : list A) : Permutation (insert_by key x l) (x :: l).
  Proof.
    induction l as [|y ys IH]; cbn [insert_by]; [apply Permutation_refl|].
    destruct (key x <=? key y); [apply Permutation_refl|].
    eapply Permutation_trans; [apply perm_skip, IH | apply perm_swap].
  Qed.

  Lemma sort_by_perm (l : list A) : Permutation (sort_by key l) l.
  Proof.
    induction l as [|x xs IH]; cbn [sort_by fold_right]; [apply Permutation_refl|].
    eapply Permutation_trans; [apply insert_by_perm | apply perm_skip, IH].
  Qed.

  Lemma insert_by_sorted (x : A) (l : list A) :
    StronglySorted key_le l -> StronglySorted key_le (insert_by key x l).
  Proof.
    induction l as [|y ys IH]; intro Hs; cbn [insert_by].
    - constructor; constructor.
    - inversion Hs as [|? ? Hs' Hall]; subst.
      destruct (N.leb_spec (key x) (key y)) as [Hle|Hgt].
      + constructor; [exact Hs|]. constructor; [exact Hle|].
        eapply Forall_impl; [|exact Hall]. unfold key_le. intros z Hz. lia.
      + constructor; [apply IH; exact Hs'|].
        apply (Permutation_Forall (Permutation_sym (insert_by_perm x ys))).
        constructor; [unfold key_le; lia | exact Hall].
  Qed.

  Lemma sort_by_sorted (l : list A) : StronglySorted key_le (sort_by key l).
  Proof.
    induction l as [|x xs IH]; cbn [sort_by fold_right]; [constructor|]. apply insert_by_sorted, IH.
  Qed.
End SortBy.

Lemma StronglySorted_map_le {A} (key : A -> N) (l : list A) :
  StronglySorted (key_le key) l -> StronglySorted N.le (map key l).
Proof.
  induction 1 as [|x xs Hs IH Hall]; cbn [map]; constructor; [exact IH|].
  apply Forall_map. exact Hall.
Qed.

Lemma lookup_idx_in {A} (i : N) (a : A) (l : list (N * A)) :
  NoDup (map fst l) -> In (i, a) l -> lookup_idx i l = Some a.
Proof.
  unfold lookup_idx. induction l as [|[j b] l IH]; intros ND Hin; [destruct Hin|].
  cbn [find fst]. cbn [map fst] in ND. inversion ND as [|? ? Hnotin ND']; subst.
  destruct Hin as [E|Hin].
  - inversion E; subst. rewrite N.eqb_refl. reflexivity.
  - destruct (N.eqb_spec j i) as [->|Hne].
    + exfalso. apply Hnotin. apply in_map_iff. exists (i, a). split; [reflexivity | exact Hin].
    + apply IH; assumption.
Qed.

Lemma lookup_idx_some {A} (i : N) (a : A) (l : list (N * A)) : lookup_idx i l = Some a -> In (i, a) l.
Proof.
  unfold lookup_idx. destruct (find (fun p => fst p =? i) l) as [[j b]|] eqn:F; [|discriminate].
  intro E. inversion E; subst. apply find_some in F. destruct F as [Hin Hj]. cbn [fst] in Hj.
  apply N.eqb_eq in Hj. subst. exact Hin.
Qed.

Lemma enumerate_from_fst_ge {A} (l : list A) : forall i p, In p (enumerate_from i l) -> i <= fst p.
Proof.
  induction l as [|x xs IH]; intros i p Hin; [destruct Hin|]. cbn [enumerate_from] in Hin.
  destruct Hin as [<-|Hin]; [cbn; lia|]. apply IH in Hin. lia.
Qed.

Lemma enumerate_from_nodup {A} (l : list A) : forall i, NoDup (map fst (enumerate_from i l)).
Proof.
  induction l as [|x xs IH]; intro i; cbn [enumerate_from map fst]; constructor; [|apply IH].
  intro Hin. apply in_map_iff in Hin. destruct Hin as [p [Hp Hin]]. apply enumerate_from_fst_ge in Hin. lia.
Qed.

Lemma enumerate_from_nth {A} (d : A) (l : list A) : forall i k, (k < length l)%nat ->
  In (i + N.of_nat k, nth k l d) (enumerate_from i l).
Proof.
  induction l as [|x xs IH]; intros i k Hk; [cbn in Hk; lia|]. cbn [enumerate_from].
  destruct k as [|k]; [left; f_equal; lia|]. right. cbn [nth].
  replace (i + N.of_nat (S k)) with ((i + 1) + N.of_nat k) by lia. apply IH. cbn in Hk. lia.
Qed.

Lemma combine_map_fst_g {A B C} (g : B -> C) (l : list (A * B)) :
  combine (map fst l) (map g (map snd l)) = map (fun p => (fst p, g (snd p))) l.
Proof. induction l as [|[a b] l IH]; cbn; [reflexivity | rewrite IH; reflexivity]. Qed.

Lemma map_nth_seq {A B} (f : A -> B) (d : A) (l : list A) :
  map (fun k => f (nth k l d)) (seq 0 (length l)) = map f l.
Proof.
  induction l as [|x xs IH]; [reflexivity|]. cbn [length seq map nth]. f_equal.
  rewrite <- seq_shift, map_map. exact IH.
Qed.

(* the un-sorting step returns, at index i, the value computed for the i-th requested offset *)
Lemma unsort_correct (g : N -> N) (offs : list N) :
  let sp := sort_by snd (enumerate_from 0 offs) in
  map (fun i => match lookup_idx i (combine (map fst sp) (map g (map snd sp))) with Some a => a | None => 0 end)
      (N_range (N.of_nat (length offs))) = map g offs.
Proof.
  intro sp. rewrite combine_map_fst_g.
  unfold N_range. rewrite Nat2N.id, map_map, <- (map_nth_seq g 0 offs).
  apply map_ext_in. intros k Hk. apply in_seq in Hk.
  rewrite (lookup_idx_in (N.of_nat k) (g (nth k offs 0))); [reflexivity| |].
  - rewrite map_map. cbn [fst]. change (fun x : N * N => fst x) with (@fst N N).
    apply (Permutation_NoDup (l := map fst (enumerate_from 0 offs))).
    + apply Permutation_map, Permutation_sym, sort_by_perm.
    + apply enumerate_from_nodup.
  - apply in_map_iff. exists (N.of_nat k, nth k offs 0). split; [reflexivity|].
    apply (Permutation_in (l := enumerate_from 0 offs)); [apply Permutation_sym, sort_by_perm|].
    replace (N.of_nat k) with (0 + N.of_nat k) by lia. apply enumerate_from_nth. lia.
Qed.

Lemma enumerate_from_snd {A} (l : list A) : forall i, map snd (enumerate_from i l) = l.
Proof. induction l as [|x xs IH]; intro i; cbn; [reflexivity | rewrite IH; reflexivity]. Qed.

(* ================= B. fragments, scan, and the walk ================= *)
Lemma dv_nodup_NoDup (D : dvec) : dv_nodup D = true -> NoDup D.
Proof.
  induction D as [|x xs IH]; intro H; [constructor|]. cbn in H. apply andb_true_iff in H. destruct H as [H1 H2].
  constructor; [|apply IH; exact H2]. intro Hin. apply dv_contains_In in Hin. unfold dv_contains in Hin.
  rewrite Hin in H1. discriminate.
Qed.

Record frag_wfP (f : frag) : Prop := {
  wf_id : f_id f < two32 - 1;
  wf_phys : f_phys f < two32;
  wf_nodup : NoDup (f_dv f);
  wf_inside : forall d, In d (f_dv f) -> d < f_phys f }.

Lemma frag_wf_P (f : frag) : frag_wf f = true -> frag_wfP f.
Proof.
  unfold frag_wf. intro H. repeat (apply andb_true_iff in H; destruct H as [H ?]).
  constructor.
  - apply N.ltb_lt. assumption.
  - apply N.ltb_lt. assumption.
  - apply dv_nodup_NoDup. assumption.
  - intros d Hd. match goal with Hf : forallb _ _ = true |- _ => rewrite forallb_forall in Hf; apply Hf in Hd end.
    apply N.ltb_lt. exact Hd.
Qed.

Definition f_rows (f : frag) : N := f_phys f - dv_len (f_dv f).

Lemma card_below_all (D : dvec) (n : N) : (forall d, In d D -> d < n) -> dv_card_below D n = dv_len D.
Proof.
  intro H. unfold dv_card_below, dv_len. f_equal.
  induction D as [|x xs IH]; [reflexivity|]. cbn [filter].
  destruct (N.ltb_spec x n) as [_|Hge]; [|specialize (H x (or_introl eq_refl)); lia].
  cbn [length]. f_equal. apply IH. intros d Hd. apply H. right. exact Hd.
Qed.

Lemma live_below_phys (f : frag) : frag_wfP f -> live_below (f_dv f) (f_phys f) = f_rows f /\ dv_len (f_dv f) <= f_phys f.
Proof.
  intros [_ _ ND Hin]. pose proof (live_plus_card (f_dv f) (f_phys f) ND) as E.
  rewrite (card_below_all _ _ Hin) in E. unfold f_rows. lia.
Qed.

Lemma f_count_rows_ok (f : frag) : frag_wfP f -> f_count_rows f = Ok (f_rows f).
Proof.
  intro W. destruct (live_below_phys f W) as [_ Hle]. unfold f_count_rows, f_rows.
  destruct (N.ltb_spec (f_phys f) (dv_len (f_dv f))); [lia | reflexivity].
Qed.

Lemma frag_scan_length (f : frag) : frag_wfP f -> N.of_nat (length (frag_scan f)) = f_rows f.
Proof.
  intro W. destruct (live_below_phys f W) as [E _]. unfold frag_scan. rewrite map_length.
  unfold f_live. exact E.
Qed.

(* the o-th element of the live positions below n *)
Lemma nth_live_positions (D : dvec) (d : N) : forall n o a,
  is_nth_live D o a -> a < n -> nth (N.to_nat o) (filter (dv_live D) (N_range n)) d = a.
Proof.
  induction n as [|n IH] using N.peano_ind; intros o a Hans Han; [lia|].
  rewrite <- N.add_1_r, N_range_succ, filter_app.
  destruct Hans as [Ha La].
  destruct (N.eq_dec a n) as [->|Hne].
  - rewrite app_nth2.
    + assert (length (filter (dv_live D) (N_range n)) = N.to_nat o) as ->.
      { unfold live_below in La. lia. }
      rewrite Nat.sub_diag. cbn [filter]. unfold dv_live. rewrite Ha. reflexivity.
    + unfold live_below in La. lia.
  - rewrite app_nth1.
    + apply IH; [split; assumption | lia].
    + pose proof (live_below_mono D (a + 1) n ltac:(lia)) as M. rewrite live_below_succ, Ha in M.
      unfold live_below in M at 2. lia.
Qed.

Lemma nth_live_lt (D : dvec) (n o a : N) : is_nth_live D o a -> o < live_below D n -> a < n.
Proof.
  intros [Ha La] H. destruct (N.lt_ge_cases a n) as [C|C]; [exact C | exfalso].
  pose proof (live_below_mono D n a C). lia.
Qed.

Lemma frag_scan_nth (f : frag) (o a : N) : frag_wfP f -> is_nth_live (f_dv f) o a -> o < f_rows f ->
  a < f_phys f /\ nth (N.to_nat o) (frag_scan f) TOMBSTONE_ROW = mk_addr (f_id f) a.
Proof.
  intros W Hans Ho. destruct (live_below_phys f W) as [E _].
  assert (a < f_phys f) as Hlt by (apply (nth_live_lt (f_dv f) _ o); [exact Hans | lia]).
  split; [exact Hlt|]. unfold frag_scan.
  rewrite (nth_indep _ TOMBSTONE_ROW (mk_addr (f_id f) 0)).
  - rewrite map_nth. f_equal. apply nth_live_positions; assumption.
  - rewrite map_length. pose proof (frag_scan_length f W) as L. unfold frag_scan in L. rewrite map_length in L.
    unfold f_live in *. lia.
Qed.

Lemma scan_cons (f : frag) (frs : list frag) : scan (f :: frs) = frag_scan f ++ scan frs.
Proof. reflexivity. Qed.

Lemma scan_app (l1 l2 : list frag) : scan (l1 ++ l2) = scan l1 ++ scan l2.
Proof. unfold scan. apply flat_map_app. Qed.

Lemma scan_len_cons (f : frag) (frs : list frag) : frag_wfP f -> scan_len (f :: frs) = f_rows f + scan_len frs.
Proof.
  intro W. unfold scan_len. rewrite scan_cons, app_length, <- (frag_scan_length f W). lia.
Qed.

(* mapper invariant of the current fragment, for local offsets >= lo *)
Definition head_inv (frs : list frag) (st : om_state) (lo : N) : Prop :=
  match frs with
  | f :: _ => match f_del f with Some D => om_inv D st lo | None => True end
  | [] => True
  end.

Lemma skip_frags_spec : forall (frs : list frag) (fo : N) (st : om_state) (so : N),
  Forall frag_wfP frs -> fo <= so -> fo + scan_len frs < two64 ->
  exists skipped frs' st',
    skip_frags frs fo st so = Ok (frs', fo + scan_len skipped, st') /\
    frs = skipped ++ frs' /\
    fo + scan_len skipped <= so /\
    (skipped = [] -> st' = st) /\ (skipped <> [] -> st' = om_new) /\
    match frs' with [] => True | f :: _ => so < fo + scan_len skipped + f_rows f end.
Proof.
  induction frs as [|f rest IH]; intros fo st so Hwf Hfo Hov.
  - exists [], [], st. cbn [skip_frags app]. unfold scan_len. cbn. rewrite N.add_0_r.
    repeat split; try reflexivity; try lia; intro; congruence.
  - inversion Hwf as [|? ? W Hwf']; subst. cbn [skip_frags]. rewrite (f_count_rows_ok f W).
    rewrite (scan_len_cons f rest W) in Hov.
    destruct (N.leb_spec two64 (fo + f_rows f)); [lia|].
    destruct (N.leb_spec (fo + f_rows f) so) as [Hskip|Hstay].
    + destruct (IH (fo + f_rows f) om_new so Hwf' Hskip ltac:(lia)) as [sk [frs' [st' [E [Hsplit [Hle [Hsame [Hnew Hhead]]]]]]]].
      exists (f :: sk), frs', st'.
      assert (fo + scan_len (f :: sk) = fo + f_rows f + scan_len sk) as Elen by (rewrite (scan_len_cons f sk W); lia).
      rewrite Elen. repeat split.
      * exact E.
      * cbn [app]. f_equal. exact Hsplit.
      * exact Hle.
      * intro C; discriminate C.
      * intros _. destruct sk as [|s sk']; [apply Hsame; reflexivity | apply Hnew; discriminate].
      * exact Hhead.
    + exists [], (f :: rest), st. change (scan_len []) with 0. rewrite !N.add_0_r.
      repeat split; try reflexivity; try lia. intro C; congruence.
Qed.

(* the address the scan shows at logical position o, seen from a suffix of the fragment list that
   starts at logical position fo *)
Definition spec_addr (frs : list frag) (fo o : N) : N := nth (N.to_nat (o - fo)) (scan frs) TOMBSTONE_ROW.

Lemma spec_addr_skip (sk frs' : list frag) (fo o : N) : fo + scan_len sk <= o ->
  spec_addr (sk ++ frs') fo o = spec_addr frs' (fo + scan_len sk) o.
Proof.
  intro H. unfold spec_addr, scan_len in *. rewrite scan_app, app_nth2 by lia. f_equal. lia.
Qed.

Lemma scan_len_app (l1 l2 : list frag) : scan_len (l1 ++ l2) = scan_len l1 + scan_len l2.
Proof. unfold scan_len. rewrite scan_app, app_length. lia. Qed.

Lemma live_below_nil (p : N) : live_below [] p = p.
Proof. pose proof (live_plus_card [] p (NoDup_nil N)) as E. change (dv_card_below [] p) with 0 in E. lia. Qed.

Lemma nth_nil {A} (n : nat) (d : A) : nth n [] d = d.
Proof. destruct n; reflexivity. Qed.

Lemma walk_spec : forall (sorted : list N) (frs : list frag) (fo : N) (st : om_state) (lo : N),
  Forall frag_wfP frs -> fo + scan_len frs < two64 ->
  StronglySorted N.le (lo :: sorted) -> fo <= lo -> head_inv frs st (lo - fo) ->
  walk_offsets frs fo st sorted = Ok (map (spec_addr frs fo) sorted).
Proof.
  induction sorted as [|so more IH]; intros frs fo st lo Hwf Hov Hs Hfo Hinv; [reflexivity|].
  inversion Hs as [|? ? Hs' Hall]; subst. inversion Hall as [|? ? Hlo _]; subst.
  destruct (skip_frags_spec frs fo st so Hwf ltac:(lia) Hov) as [sk [frs' [st' [E [Hsplit [Hle [Hsame [Hnew Hhead]]]]]]]].
  cbn [walk_offsets]. rewrite E. subst frs.
  rewrite (map_ext_in (spec_addr (sk ++ frs') fo) (spec_addr frs' (fo + scan_len sk))).
  2:{ intros o Ho. apply spec_addr_skip. destruct Ho as [<-|Ho]; [exact Hle|].
      inversion Hs' as [|? ? _ Hall']; subst. rewrite Forall_forall in Hall'. specialize (Hall' o Ho). lia. }
  apply Forall_app in Hwf. destruct Hwf as [Hwf_sk Hwf'].
  rewrite scan_len_app in Hov.
  set (fo' := fo + scan_len sk) in *.
  destruct frs' as [|f rest'].
  - assert (walk_offsets [] fo' st' more = Ok (map (spec_addr [] fo') more)) as R.
    { apply (IH [] fo' st' so); [constructor | change (scan_len []) with 0; lia | exact Hs' | lia | exact I]. }
    rewrite R. cbn [map]. unfold spec_addr at 2. cbn [scan flat_map]. rewrite nth_nil. reflexivity.
  - inversion Hwf' as [|? ? W _]; subst.
    destruct (live_below_phys f W) as [Hlive Hdle]. pose proof (wf_phys f W) as Hphys.
    destruct (N.ltb_spec so fo'); [lia|].
    assert (so - fo' < f_rows f) as Hlocal by lia.
    rewrite wrap32_small by (unfold f_rows in *; lia).
    (* the address of the head element *)
    assert (forall a, is_nth_live (f_dv f) (so - fo') a -> spec_addr (f :: rest') fo' so = mk_addr (f_id f) a) as Hhd.
    { intros a Hans. unfold spec_addr. rewrite scan_cons, app_nth1.
      - apply (frag_scan_nth f (so - fo') a W Hans Hlocal).
      - pose proof (frag_scan_length f W). lia. }
    destruct (f_del f) as [D|] eqn:Edel.
    + assert (f_dv f = D) as EDv by (unfold f_dv; rewrite Edel; reflexivity).
      pose proof (wf_nodup f W) as ND. rewrite EDv in ND.
      assert (exists lo', om_inv D st' lo' /\ lo' <= so - fo') as [lo' [Hinv' Hlo']].
      { destruct sk as [|s sk'].
        - rewrite (Hsame eq_refl). exists (lo - fo). unfold head_inv in Hinv. cbn [app] in Hinv. rewrite Edel in Hinv.
          split; [exact Hinv|]. unfold fo'. change (scan_len []) with 0. lia.
        - rewrite (Hnew ltac:(discriminate)). exists 0. split; [apply om_inv_new; exact ND | lia]. }
      destruct (map_offset_correct D st' lo' (so - fo') MAP_FUEL ND Hinv' Hlo') as [a [st'' [E2 [Hans Hinv'']]]].
      { rewrite <- EDv. unfold f_rows in Hlocal. lia. }
      { unfold MAP_FUEL. lia. }
      unfold map_offset. rewrite E2.
      assert (walk_offsets (f :: rest') fo' st'' more = Ok (map (spec_addr (f :: rest') fo') more)) as R.
      { apply (IH (f :: rest') fo' st'' so); [exact Hwf' | lia | exact Hs' | lia |].
        unfold head_inv. rewrite Edel. exact Hinv''. }
      rewrite R. cbn [map]. rewrite (Hhd a); [reflexivity | rewrite EDv; exact Hans].
    + assert (f_dv f = []) as EDv by (unfold f_dv; rewrite Edel; reflexivity).
      assert (walk_offsets (f :: rest') fo' st' more = Ok (map (spec_addr (f :: rest') fo') more)) as R.
      { apply (IH (f :: rest') fo' st' so); [exact Hwf' | lia | exact Hs' | lia |].
        unfold head_inv. rewrite Edel. exact I. }
      rewrite R. cbn [map]. rewrite (Hhd (so - fo')); [reflexivity|]. rewrite EDv. split; [reflexivity | apply live_below_nil].
Qed.

(* every fragment list, every offset list (unsorted, duplicates, out of range): the address vector is,
   position by position, the address a scan shows at that offset; tombstone past the end *)
Theorem row_offsets_to_row_addresses_correct (frs : list frag) (offs : list N) :
  Forall frag_wfP frs -> scan_len frs < two64 ->
  row_offsets_to_row_addresses frs offs = Ok (map (fun o => nth (N.to_nat o) (scan frs) TOMBSTONE_ROW) offs).
Proof.
  intros Hwf Hov. unfold row_offsets_to_row_addresses.
  rewrite (walk_spec (map snd (sort_by snd (enumerate_from 0 offs))) frs 0 om_new 0 Hwf).
  - rewrite (unsort_correct (spec_addr frs 0) offs). f_equal. apply map_ext. intro o.
    unfold spec_addr. rewrite N.sub_0_r. reflexivity.
  - lia.
  - constructor.
    + apply StronglySorted_map_le. apply sort_by_sorted.
    + apply Forall_forall. intros x _. lia.
  - lia.
  - unfold head_inv. destruct frs as [|f rest]; [exact I|]. destruct (f_del f) as [D|] eqn:Edel; [|exact I].
    inversion Hwf as [|? ? W _]; subst. apply om_inv_new. pose proof (wf_nodup f W) as ND.
    unfold f_dv in ND. rewrite Edel in ND. exact ND.
Qed.

(* ================= C. do_take_rows ================= *)
(* ---- row address arithmetic ---- *)
Definition join (fid off : N) : N := N.lor (N.shiftl fid 32) off.

Lemma two32_pow : two32 = 2 ^ 32.
Proof. reflexivity. Qed.

Lemma join_split (a : N) : join (addr_frag a) (addr_off a) = a.
Proof.
  unfold join, addr_frag, addr_off, wrap32. rewrite two32_pow. apply N.bits_inj. intro n.
  rewrite N.lor_spec. destruct (N.lt_ge_cases n 32) as [H|H].
  - rewrite N.shiftl_spec_low by exact H. rewrite N.mod_pow2_bits_low by exact H. reflexivity.
  - rewrite N.shiftl_spec_high' by exact H. rewrite N.shiftr_spec'.
    rewrite N.mod_pow2_bits_high by exact H. rewrite orb_false_r. f_equal. lia.
Qed.

Lemma testbit_small_high (x n : N) : x < 2 ^ 32 -> 32 <= n -> N.testbit x n = false.
Proof. intros Hx Hn. rewrite <- (N.mod_small x (2 ^ 32) Hx). apply N.mod_pow2_bits_high. exact Hn. Qed.

Lemma addr_frag_join (fid off : N) : off < two32 -> addr_frag (join fid off) = fid.
Proof.
  rewrite two32_pow. intro Ho. unfold addr_frag, join. apply N.bits_inj. intro n.
  rewrite N.shiftr_spec', N.lor_spec, N.shiftl_spec_high' by lia.
  rewrite (testbit_small_high off (n + 32) Ho) by lia. rewrite orb_false_r. f_equal. lia.
Qed.

Lemma addr_off_join (fid off : N) : off < two32 -> addr_off (join fid off) = off.
Proof.
  rewrite two32_pow. intro Ho. unfold addr_off, wrap32, join. rewrite two32_pow. apply N.bits_inj. intro n.
  destruct (N.lt_ge_cases n 32) as [H|H].
  - rewrite N.mod_pow2_bits_low by exact H. rewrite N.lor_spec, N.shiftl_spec_low by exact H. reflexivity.
  - rewrite N.mod_pow2_bits_high by exact H. symmetry. apply testbit_small_high; assumption.
Qed.

Lemma mk_addr_join (fid off : N) : fid < two32 -> mk_addr fid off = join fid off.
Proof. intro H. unfold mk_addr, join. rewrite wrap32_small by exact H. reflexivity. Qed.

Lemma addr_frag_div (a : N) : addr_frag a = a / two32.
Proof. unfold addr_frag. rewrite N.shiftr_div_pow2. reflexivity. Qed.

Lemma addr_off_succ (a : N) : addr_frag (a + 1) = addr_frag a -> addr_off (a + 1) = addr_off a + 1.
Proof.
  rewrite !addr_frag_div. unfold addr_off, wrap32. rewrite two32_val. intro H.
  pose proof (N.div_mod a 4294967296 ltac:(lia)). pose proof (N.div_mod (a + 1) 4294967296 ltac:(lia)).
  pose proof (N.mod_lt a 4294967296 ltac:(lia)). pose proof (N.mod_lt (a + 1) 4294967296 ltac:(lia)).
  rewrite H in *. lia.
Qed.

Lemma addr_off_lt (a : N) : addr_off a < two32.
Proof. unfold addr_off, wrap32. apply N.mod_lt. rewrite two32_val. lia. Qed.

(* ---- lists of consecutive numbers ---- *)
Lemma N_span_cons (lo hi : N) : lo < hi -> N_span lo hi = lo :: N_span (lo + 1) hi.
Proof.
  intro H. unfold N_span, N_range.
  replace (N.to_nat (hi - lo)) with (S (N.to_nat (hi - (lo + 1)))) by lia.
  cbn [seq map]. f_equal; [lia|]. rewrite <- seq_shift, !map_map. apply map_ext. intro k. cbv beta.
  rewrite Nat2N.inj_succ. lia.
Qed.

Lemma N_span_nil (lo hi : N) : hi <= lo -> N_span lo hi = [].
Proof. intro H. unfold N_span, N_range. replace (hi - lo) with 0 by lia. reflexivity. Qed.

Lemma in_N_span (lo hi x : N) : In x (N_span lo hi) <-> lo <= x /\ x < hi.
Proof.
  unfold N_span. rewrite in_map_iff. split.
  - intros [k [Hk Hin]]. apply in_N_range in Hin. lia.
  - intros [H1 H2]. exists (x - lo). split; [lia|]. apply in_N_range. lia.
Qed.

Fixpoint consec (last : N) (l : list N) : Prop :=
  match l with [] => True | x :: xs => x = last + 1 /\ consec x xs end.

Lemma contiguous_from_consec (l : list N) : forall lst, contiguous_from lst l = true -> consec lst l.
Proof.
  induction l as [|x xs IH]; intros lst H; [exact I|]. cbn [contiguous_from] in H.
  apply andb_true_iff in H. destruct H as [H1 H2]. apply N.eqb_eq in H1. split; [exact H1 | apply IH; exact H2].
Qed.

Lemma consec_span (l : list N) : forall x, consec x l ->
  x :: l = N_span x (x + 1 + N.of_nat (length l)) /\ last (x :: l) 0 = x + N.of_nat (length l).
Proof.
  induction l as [|y ys IH]; intros x H.
  - cbn [length N.of_nat]. rewrite N.add_0_r. rewrite N_span_cons by lia. rewrite N_span_nil by lia.
    split; [reflexivity | cbn; lia].
  - destruct H as [-> H]. destruct (IH (x + 1) H) as [E1 E2]. split.
    + rewrite N_span_cons by lia. f_equal. etransitivity; [exact E1|]. f_equal. cbn [length].
      rewrite Nat2N.inj_succ. lia.
    + change (last (x :: (x + 1) :: ys) 0) with (last ((x + 1) :: ys) 0). rewrite E2. cbn [length].
      rewrite Nat2N.inj_succ. lia.
Qed.

(* ---- fragment reads in closed form ---- *)
Definition in_phys (f : frag) (o : N) : bool := o <? f_phys f.
Definition take_in_frag (f : frag) (offs : list N) : outcome (list N) :=
  if forallb (in_phys f) offs then Ok (filter (f_live f) offs) else Err.

Lemma forallb_in_phys_span (f : frag) (lo hi : N) : lo < hi ->
  forallb (in_phys f) (N_span lo hi) = (hi <=? f_phys f).
Proof.
  intro H. destruct (N.leb_spec hi (f_phys f)) as [Hle|Hgt].
  - apply forallb_forall. intros x Hx. apply in_N_span in Hx. unfold in_phys. apply N.ltb_lt. lia.
  - apply not_true_is_false. intro C. rewrite forallb_forall in C.
    specialize (C (hi - 1)). unfold in_phys in C. rewrite N.ltb_lt in C.
    assert (In (hi - 1) (N_span lo hi)) as Hin by (apply in_N_span; lia). specialize (C Hin). lia.
Qed.

Lemma frag_read_range_eq (f : frag) (lo hi : N) : lo < hi ->
  frag_read_range f lo hi = take_in_frag f (N_span lo hi).
Proof.
  intro H. unfold frag_read_range, take_in_frag. rewrite (forallb_in_phys_span f lo hi H).
  destruct (N.ltb_spec (f_phys f) hi); destruct (N.leb_spec hi (f_phys f)); try lia; reflexivity.
Qed.

Lemma forallb_negb_existsb {A} (p : A -> bool) (l : list A) : forallb p l = negb (existsb (fun x => negb (p x)) l).
Proof. induction l as [|x xs IH]; [reflexivity|]. cbn [forallb existsb]. rewrite IH. destruct (p x); reflexivity. Qed.

Lemma existsb_ext {A} (p q : A -> bool) (l : list A) : (forall x, p x = q x) -> existsb p l = existsb q l.
Proof. intro H. induction l as [|x xs IH]; [reflexivity|]. cbn [existsb]. rewrite H, IH. reflexivity. Qed.

Lemma frag_take_rows_eq (f : frag) (offs : list N) : frag_take_rows f offs = take_in_frag f offs.
Proof.
  unfold frag_take_rows.
  destruct ((1 <? N.of_nat (length offs)) && row_ids_contiguous offs) eqn:C.
  - apply andb_true_iff in C. destruct C as [_ C]. destruct offs as [|x l]; [discriminate C|].
    cbn [row_ids_contiguous] in C. apply contiguous_from_consec in C.
    destruct (consec_span l x C) as [E1 E2]. cbn [hd]. rewrite E2.
    rewrite frag_read_range_eq by lia. f_equal. symmetry. etransitivity; [exact E1|]. f_equal. lia.
  - unfold take_in_frag. rewrite forallb_negb_existsb.
    assert (existsb (fun o => f_phys f <=? o) offs = existsb (fun x => negb (in_phys f x)) offs) as ->.
    { apply existsb_ext. intro x. unfold in_phys. destruct (N.leb_spec (f_phys f) x); destruct (N.ltb_spec x (f_phys f)); try lia; reflexivity. }
    destruct (existsb (fun x => negb (in_phys f x)) offs); reflexivity.
Qed.

(* ---- the closed form of a take by address ---- *)
Definition take_spec (frs : list frag) (addrs : list N) : outcome (list N) :=
  if forallb (addr_in_bounds frs) addrs then Ok (filter (addr_live frs) addrs) else Err.

Definition ids_nodup (frs : list frag) : Prop := NoDup (map f_id frs).

Lemma find_frag_some (frs : list frag) (id : N) (f : frag) : find_frag frs id = Some f -> In f frs /\ f_id f = id.
Proof.
  unfold find_frag. intro H. apply find_some in H. destruct H as [H1 H2]. apply N.eqb_eq in H2. split; assumption.
Qed.

Section TakeSpec.
  Variable frs : list frag.
  Hypothesis Hwf : Forall frag_wfP frs.

  Lemma found_wf (id : N) (f : frag) : find_frag frs id = Some f -> frag_wfP f /\ f_id f = id.
  Proof.
    intro H. apply find_frag_some in H. destruct H as [Hin Hid]. split; [|exact Hid].
    rewrite Forall_forall in Hwf. apply Hwf. exact Hin.
  Qed.

  Lemma found_addr (a : N) (f : frag) : find_frag frs (addr_frag a) = Some f -> mk_addr (f_id f) (addr_off a) = a.
  Proof.
    intro H. destruct (found_wf _ _ H) as [W Hid]. rewrite mk_addr_join by (pose proof (wf_id f W); lia).
    rewrite Hid. apply join_split.
  Qed.

  Lemma take_spec_cons_none (a : N) (rest : list N) :
    find_frag frs (addr_frag a) = None -> take_spec frs (a :: rest) = Err.
  Proof. intro H. unfold take_spec. cbn [forallb]. unfold addr_in_bounds at 1. rewrite H. reflexivity. Qed.

  Lemma take_spec_cons_some (a : N) (rest : list N) (f : frag) :
    find_frag frs (addr_frag a) = Some f ->
    take_spec frs (a :: rest) =
      if in_phys f (addr_off a) then
        match take_spec frs rest with
        | Ok r => Ok ((if f_live f (addr_off a) then [a] else []) ++ r)
        | Err => Err
        | Panic => Panic
        end
      else Err.
  Proof.
    intro H. unfold take_spec. cbn [forallb filter]. unfold addr_in_bounds at 1, addr_live at 1. rewrite H.
    unfold in_phys. destruct (addr_off a <? f_phys f); cbn [andb]; [|reflexivity].
    destruct (forallb (addr_in_bounds frs) rest); [|reflexivity].
    destruct (f_live f (addr_off a)); reflexivity.
  Qed.

  Lemma take_spec_not_panic (addrs : list N) : take_spec frs addrs <> Panic.
  Proof. unfold take_spec. destruct (forallb (addr_in_bounds frs) addrs); discriminate. Qed.

  Lemma take_groups_cons (fid : N) (offs : list N) (more : list (N * list N)) :
    take_groups frs ((fid, offs) :: more) =
      match find_frag frs fid with
      | None => Err
      | Some f =>
        match take_in_frag f offs with
        | Ok rows => match take_groups frs more with
                     | Ok r => Ok (map (mk_addr (f_id f)) rows ++ r) | Err => Err | Panic => Panic end
        | Err => Err
        | Panic => Panic
        end
      end.
  Proof. cbn [take_groups]. destruct (find_frag frs fid) as [f|]; [|reflexivity]. rewrite frag_take_rows_eq. reflexivity. Qed.

  Lemma take_in_frag_cons (f : frag) (o : N) (offs : list N) :
    take_in_frag f (o :: offs) =
      if in_phys f o then
        match take_in_frag f offs with
        | Ok rows => Ok ((if f_live f o then [o] else []) ++ rows) | Err => Err | Panic => Panic end
      else Err.
  Proof.
    unfold take_in_frag. cbn [forallb filter]. destruct (in_phys f o); cbn [andb]; [|reflexivity].
    destruct (forallb (in_phys f) offs); [|reflexivity]. destruct (f_live f o); reflexivity.
  Qed.

  Lemma group_runs_nil (l : list N) : group_runs l = [] -> l = [].
  Proof.
    destruct l as [|a rest]; [reflexivity|]. cbn [group_runs].
    destruct (group_runs rest) as [|[fid offs] gs]; [discriminate|]. destruct (addr_frag a =? fid); discriminate.
  Qed.

  (* the sorted path (and, in fact, any grouping into runs) *)
  Lemma take_groups_eq (addrs : list N) : take_groups frs (group_runs addrs) = take_spec frs addrs.
  Proof.
    induction addrs as [|a rest IH]; [reflexivity|]. cbn [group_runs].
    destruct (group_runs rest) as [|[fid offs] gs] eqn:G.
    - apply group_runs_nil in G. subst rest. rewrite take_groups_cons.
      destruct (find_frag frs (addr_frag a)) as [f|] eqn:F; [|rewrite take_spec_cons_none by exact F; reflexivity].
      rewrite (take_spec_cons_some a [] f F), take_in_frag_cons.
      destruct (in_phys f (addr_off a)); [|reflexivity].
      cbn. rewrite !app_nil_r. destruct (f_live f (addr_off a)); cbn [map]; [rewrite (found_addr a f F)|]; reflexivity.
    - destruct (N.eqb_spec (addr_frag a) fid) as [Efid|Nfid].
      + subst fid. rewrite take_groups_cons. rewrite take_groups_cons in IH.
        destruct (find_frag frs (addr_frag a)) as [f|] eqn:F; [|rewrite take_spec_cons_none by exact F; reflexivity].
        rewrite (take_spec_cons_some a rest f F), take_in_frag_cons.
        destruct (in_phys f (addr_off a)); [|reflexivity].
        rewrite <- IH.
        destruct (take_in_frag f offs) as [rows| |]; try reflexivity.
        destruct (take_groups frs gs) as [r| |]; try reflexivity.
        rewrite map_app, <- app_assoc. f_equal. f_equal.
        destruct (f_live f (addr_off a)); cbn [map]; [rewrite (found_addr a f F)|]; reflexivity.
      + rewrite take_groups_cons, IH.
        destruct (find_frag frs (addr_frag a)) as [f|] eqn:F; [|rewrite take_spec_cons_none by exact F; reflexivity].
        rewrite (take_spec_cons_some a rest f F), take_in_frag_cons.
        destruct (in_phys f (addr_off a)); [|reflexivity].
        cbn [take_in_frag forallb filter]. unfold take_in_frag. cbn [forallb filter]. rewrite app_nil_r.
        destruct (take_spec frs rest) as [r| |]; try reflexivity.
        destruct (f_live f (addr_off a)); cbn [map]; [rewrite (found_addr a f F)|]; reflexivity.
  Qed.

  Lemma group_runs_single (fid : N) (addrs : list N) :
    addrs <> [] -> Forall (fun a => addr_frag a = fid) addrs -> group_runs addrs = [(fid, map addr_off addrs)].
  Proof.
    induction addrs as [|a rest IH]; intros Hne Hall; [congruence|].
    inversion Hall as [|? ? Ha Hrest]; subst. cbn [group_runs map].
    destruct rest as [|b rest']; [reflexivity|].
    rewrite IH by (congruence || exact Hrest). rewrite N.eqb_refl. reflexivity.
  Qed.

  (* check_row_addrs says "contiguous": consecutive addresses within one fragment *)
  Lemma check_loop_contiguous : forall (rest : list N) (lst ff : N) (s c s' : bool),
    check_row_addrs_loop lst ff rest s c = Ok (s', true) ->
    c = true /\ consec lst rest /\ Forall (fun a => addr_frag a = ff) rest.
  Proof.
    induction rest as [|a more IH]; intros lst ff s c s' H; cbn [check_row_addrs_loop] in H.
    - inversion H; subst. repeat split; constructor.
    - apply IH in H. destruct H as [Hc [Hcons Hall]].
      apply andb_true_iff in Hc. destruct Hc as [Hc Hf]. apply andb_true_iff in Hc. destruct Hc as [Hc He].
      apply andb_true_iff in He. destruct He as [_ He].
      apply N.eqb_eq in He. apply N.eqb_eq in Hf. repeat split; try assumption. constructor; assumption.
  Qed.

  Lemma consec_offs : forall (rest : list N) (lst : N),
    consec lst rest -> Forall (fun a => addr_frag a = addr_frag lst) rest ->
    consec (addr_off lst) (map addr_off rest).
  Proof.
    induction rest as [|a more IH]; intros lst Hc Hall; [exact I|].
    destruct Hc as [-> Hc]. inversion Hall as [|? ? Ha Hmore]; subst. cbn [map consec]. split.
    - apply addr_off_succ. exact Ha.
    - apply IH; [exact Hc|]. rewrite Ha. exact Hmore.
  Qed.

  Lemma last_map {A B} (g : A -> B) (l : list A) (d : A) : l <> [] -> last (map g l) (g d) = g (last l d).
  Proof.
    induction l as [|x xs IH]; intro H; [congruence|]. destruct xs as [|y ys]; [reflexivity|].
    change (last (map g (x :: y :: ys)) (g d)) with (last (map g (y :: ys)) (g d)).
    change (last (x :: y :: ys) d) with (last (y :: ys) d). apply IH. discriminate.
  Qed.

  Lemma contiguous_path_eq (start : N) (rest : list N) (s : bool) :
    check_row_addrs (start :: rest) = Ok (s, true) ->
    match find_frag frs (addr_frag start) with
    | None => Err
    | Some f => outcome_map (map (mk_addr (f_id f)))
                  (frag_read_range f (addr_off start) (addr_off (last (start :: rest) 0) + 1))
    end = take_spec frs (start :: rest).
  Proof.
    intro H. cbn [check_row_addrs] in H. apply check_loop_contiguous in H. destruct H as [_ [Hc Hall]].
    rewrite <- take_groups_eq.
    rewrite (group_runs_single (addr_frag start) (start :: rest)); [|discriminate | constructor; [reflexivity | exact Hall]].
    rewrite take_groups_cons.
    destruct (find_frag frs (addr_frag start)) as [f|]; [|reflexivity].
    pose proof (consec_offs rest start Hc Hall) as Ho.
    destruct (consec_span (map addr_off rest) (addr_off start) Ho) as [E1 E2].
    assert (addr_off (last (start :: rest) 0) = last (map addr_off (start :: rest)) 0) as ->.
    { change 0 with (addr_off 0) at 2. symmetry. apply last_map. discriminate. }
    cbn [map]. rewrite E2. rewrite frag_read_range_eq by lia.
    replace (addr_off start + N.of_nat (length (map addr_off rest)) + 1)
      with (addr_off start + 1 + N.of_nat (length (map addr_off rest))) by lia.
    rewrite <- E1. cbn [take_groups].
    destruct (take_in_frag f (addr_off start :: map addr_off rest)); cbn [outcome_map]; try reflexivity.
    rewrite app_nil_r. reflexivity.
  Qed.
End TakeSpec.

(* ---- generic list facts for the re-mapping path ---- *)
Lemma NoDup_app_intro {A} (l1 l2 : list A) :
  NoDup l1 -> NoDup l2 -> (forall x, In x l1 -> ~ In x l2) -> NoDup (l1 ++ l2).
Proof.
  induction l1 as [|a l1 IH]; intros N1 N2 H; cbn [app]; [exact N2|].
  inversion N1 as [|? ? Hna N1']; subst. constructor.
  - intro C. apply in_app_or in C. destruct C as [C|C]; [contradiction|]. apply (H a); [left; reflexivity | exact C].
  - apply IH; [exact N1' | exact N2|]. intros x Hx. apply H. right. exact Hx.
Qed.

Lemma NoDup_map_inj_in {A B} (g : A -> B) (l : list A) :
  (forall x y, In x l -> In y l -> g x = g y -> x = y) -> NoDup l -> NoDup (map g l).
Proof.
  induction l as [|a l IH]; intros Hinj ND; cbn [map]; [constructor|].
  inversion ND as [|? ? Hna ND']; subst. constructor.
  - intro C. apply in_map_iff in C. destruct C as [y [E Hy]].
    assert (y = a) by (apply Hinj; [right; exact Hy | left; reflexivity | exact E]). subst. contradiction.
  - apply IH; [|exact ND']. intros x y Hx Hy. apply Hinj; right; assumption.
Qed.

Lemma StronglySorted_lt_NoDup (l : list N) : StronglySorted N.lt l -> NoDup l.
Proof.
  induction 1 as [|x xs Hs IH Hall]; constructor; [|exact IH].
  intro C. rewrite Forall_forall in Hall. specialize (Hall x C). lia.
Qed.

Lemma dedup_adj_cons2 (x y : N) (ys : list N) :
  dedup_adj (x :: y :: ys) = if x =? y then dedup_adj (y :: ys) else x :: dedup_adj (y :: ys).
Proof. reflexivity. Qed.

Lemma dedup_adj_in (l : list N) (z : N) : In z (dedup_adj l) <-> In z l.
Proof.
  induction l as [|x xs IH]; [tauto|]. destruct xs as [|y ys]; [cbn; tauto|].
  rewrite dedup_adj_cons2. destruct (N.eqb_spec x y) as [->|Hne].
  - rewrite IH. cbn [In]. tauto.
  - cbn [In] in *. rewrite IH. tauto.
Qed.

Lemma dedup_adj_sorted (l : list N) : StronglySorted N.le l -> StronglySorted N.lt (dedup_adj l).
Proof.
  induction l as [|x xs IH]; intro Hs; [constructor|]. destruct xs as [|y ys]; [cbn; constructor; constructor|].
  inversion Hs as [|? ? Hs' Hall]; subst. rewrite dedup_adj_cons2.
  destruct (N.eqb_spec x y) as [->|Hne]; [apply IH; exact Hs'|].
  constructor; [apply IH; exact Hs'|]. apply Forall_forall. intros z Hz. rewrite dedup_adj_in in Hz.
  inversion Hall as [|? ? Hxy Hall']; subst. inversion Hs' as [|? ? _ Hy]; subst.
  destruct Hz as [<-|Hz]; [lia|]. rewrite Forall_forall in Hy. specialize (Hy z Hz). lia.
Qed.

(* ---- group_runs ---- *)
Definition ungroup (g : N * list N) : list N := map (join (fst g)) (snd g).

Lemma group_runs_cons (a : N) (rest : list N) :
  group_runs (a :: rest) =
    match group_runs rest with
    | (fid, offs) :: gs =>
      if addr_frag a =? fid then (fid, addr_off a :: offs) :: gs
      else (addr_frag a, [addr_off a]) :: (fid, offs) :: gs
    | [] => [(addr_frag a, [addr_off a])]
    end.
Proof. reflexivity. Qed.

Lemma group_runs_flat (l : list N) : flat_map ungroup (group_runs l) = l.
Proof.
  induction l as [|a rest IH]; [reflexivity|]. rewrite group_runs_cons.
  destruct (group_runs rest) as [|[fid offs] gs].
  - cbn in IH. subst rest. cbn. rewrite join_split. reflexivity.
  - destruct (N.eqb_spec (addr_frag a) fid) as [<-|Hne].
    + cbn [flat_map ungroup fst snd map app] in *. rewrite join_split, IH. reflexivity.
    + cbn [flat_map] in *. rewrite IH. cbn. rewrite join_split. reflexivity.
Qed.

Lemma group_runs_offs_small (l : list N) : forall fid offs o,
  In (fid, offs) (group_runs l) -> In o offs -> o < two32.
Proof.
  induction l as [|a rest IH]; intros fid offs o Hg Ho; [destruct Hg|]. rewrite group_runs_cons in Hg.
  destruct (group_runs rest) as [|[fid' offs'] gs].
  - destruct Hg as [E|[]]. inversion E; subst. destruct Ho as [<-|[]]. apply addr_off_lt.
  - destruct (addr_frag a =? fid').
    + destruct Hg as [E|Hg].
      * inversion E; subst. destruct Ho as [<-|Ho]; [apply addr_off_lt|]. apply (IH fid offs' o); [left; reflexivity | exact Ho].
      * apply (IH fid offs o); [right; exact Hg | exact Ho].
    + destruct Hg as [E|Hg].
      * inversion E; subst. destruct Ho as [<-|[]]. apply addr_off_lt.
      * apply (IH fid offs o); [exact Hg | exact Ho].
Qed.

Lemma group_runs_in (l : list N) (fid : N) (offs : list N) (o : N) :
  In (fid, offs) (group_runs l) -> In o offs -> In (join fid o) l.
Proof.
  intros Hg Ho. rewrite <- (group_runs_flat l). apply in_flat_map. exists (fid, offs). split; [exact Hg|].
  unfold ungroup. cbn [fst snd]. apply in_map. exact Ho.
Qed.

Lemma group_runs_has (l : list N) (a : N) : In a l ->
  exists offs, In (addr_frag a, offs) (group_runs l) /\ In (addr_off a) offs.
Proof.
  induction l as [|b rest IH]; intro Hin; [destruct Hin|]. rewrite group_runs_cons.
  destruct Hin as [->|Hin].
  - destruct (group_runs rest) as [|[fid offs] gs].
    + exists [addr_off a]. split; left; reflexivity.
    + destruct (N.eqb_spec (addr_frag a) fid) as [<-|Hne].
      * exists (addr_off a :: offs). split; left; reflexivity.
      * exists [addr_off a]. split; left; reflexivity.
  - destruct (IH Hin) as [offs [Hg Ho]]. destruct (group_runs rest) as [|[fid offs'] gs]; [destruct Hg|].
    destruct (N.eqb_spec (addr_frag b) fid) as [Eb|Hne].
    + destruct Hg as [E|Hg].
      * inversion E; subst. exists (addr_off b :: offs). split; [left; reflexivity | right; exact Ho].
      * exists offs. split; [right; exact Hg | exact Ho].
    + exists offs. split; [right; exact Hg | exact Ho].
Qed.

Lemma group_runs_head (b : N) (r : list N) : exists offs gs, group_runs (b :: r) = (addr_frag b, offs) :: gs.
Proof.
  rewrite group_runs_cons. destruct (group_runs r) as [|[fid offs] gs]; [eexists; eexists; reflexivity|].
  destruct (N.eqb_spec (addr_frag b) fid) as [<-|Hne]; eexists; eexists; reflexivity.
Qed.

Lemma group_runs_keys_sorted (l : list N) :
  StronglySorted N.le (map addr_frag l) -> StronglySorted N.lt (map fst (group_runs l)).
Proof.
  induction l as [|a rest IH]; intro Hs; [constructor|]. cbn [map] in Hs.
  inversion Hs as [|? ? Hs' Hall]; subst. specialize (IH Hs'). rewrite group_runs_cons.
  destruct rest as [|b r]; [cbn; constructor; constructor|].
  destruct (group_runs_head b r) as [offs [gs E]]. rewrite E in *. cbn [map fst] in IH.
  cbn [map] in Hall. inversion Hall as [|? ? Hab _]; subst.
  destruct (N.eqb_spec (addr_frag a) (addr_frag b)) as [Eab|Nab]; cbn [map fst]; [exact IH|].
  constructor; [exact IH|]. inversion IH as [|? ? _ Hk]; subst.
  constructor; [lia|]. eapply Forall_impl; [|exact Hk]. intros k Hk'. cbv beta in Hk'. lia.
Qed.

Lemma addr_frag_mono (l : list N) : StronglySorted N.lt l -> StronglySorted N.le (map addr_frag l).
Proof.
  induction 1 as [|x xs Hs IH Hall]; cbn [map]; constructor; [exact IH|].
  apply Forall_map. eapply Forall_impl; [|exact Hall]. intros y Hy. cbv beta in Hy.
  rewrite !addr_frag_div. apply N.div_le_mono; [rewrite two32_val; lia | lia].
Qed.

(* ---- take_per_fragment ---- *)
Lemma find_frag_nodup (frs : list frag) (f : frag) : NoDup (map f_id frs) -> In f frs -> find_frag frs (f_id f) = Some f.
Proof.
  unfold find_frag. induction frs as [|g frs IH]; intros ND Hin; [destruct Hin|]. cbn [find].
  cbn [map] in ND. inversion ND as [|? ? Hna ND']; subst.
  destruct Hin as [->|Hin]; [rewrite N.eqb_refl; reflexivity|].
  destruct (N.eqb_spec (f_id g) (f_id f)) as [E|Hne]; [|apply IH; assumption].
  exfalso. apply Hna. rewrite E. apply in_map. exact Hin.
Qed.

Section PerFragment.
  Variable G : list (N * list N).
  Definition grp (f : frag) : option (list N) := lookup_idx (wrap32 (f_id f)) G.

  Lemma tpf_cons (f : frag) (more : list frag) :
    take_per_fragment (f :: more) G =
      match grp f with
      | None => take_per_fragment more G
      | Some offs =>
        match take_in_frag f offs with
        | Ok rows => match take_per_fragment more G with
                     | Ok r => Ok (map (mk_addr (f_id f)) rows :: r) | Err => Err | Panic => Panic end
        | Err => Err
        | Panic => Panic
        end
      end.
  Proof. cbn [take_per_fragment]. unfold grp. destruct (lookup_idx (wrap32 (f_id f)) G); [|reflexivity]. rewrite frag_take_rows_eq. reflexivity. Qed.

  Lemma tpf_ok_in : forall (all : list frag) (batches : list (list N)),
    take_per_fragment all G = Ok batches ->
    forall x, In x (concat batches) <->
      exists f offs o, In f all /\ grp f = Some offs /\ In o offs /\ f_live f o = true /\ x = mk_addr (f_id f) o.
  Proof.
    induction all as [|f more IH]; intros batches H x.
    - cbn in H. inversion H; subst. cbn. split; [tauto|]. intros [f [offs [o [[] _]]]].
    - rewrite tpf_cons in H. destruct (grp f) as [offs|] eqn:Eg.
      + unfold take_in_frag in H. destruct (forallb (in_phys f) offs); [|discriminate H].
        destruct (take_per_fragment more G) as [r| |] eqn:Er; try discriminate H. inversion H; subst.
        cbn [concat]. rewrite in_app_iff, (IH r eq_refl x). split.
        * intros [Hx|[g [offs' [o [Hg Hrest]]]]].
          -- apply in_map_iff in Hx. destruct Hx as [o [Ex Ho]]. apply filter_In in Ho. destruct Ho as [Ho Hl].
             exists f, offs, o. repeat split; try assumption; [left; reflexivity | symmetry; exact Ex].
          -- exists g, offs', o. split; [right; exact Hg | exact Hrest].
        * intros [g [offs' [o [[<-|Hg] [Hgrp [Ho [Hl Ex]]]]]]].
          -- left. rewrite Eg in Hgrp. inversion Hgrp; subst. apply in_map. apply filter_In. split; assumption.
          -- right. exists g, offs', o. repeat split; assumption.
      + rewrite (IH batches H x). split.
        * intros [g [offs' [o [Hg Hrest]]]]. exists g, offs', o. split; [right; exact Hg | exact Hrest].
        * intros [g [offs' [o [[<-|Hg] [Hgrp Hrest]]]]]; [rewrite Eg in Hgrp; discriminate|].
          exists g, offs', o. repeat split; try assumption; apply Hrest.
  Qed.

  Lemma tpf_ok_bounds : forall (all : list frag) (batches : list (list N)),
    take_per_fragment all G = Ok batches ->
    forall f offs, In f all -> grp f = Some offs -> forallb (in_phys f) offs = true.
  Proof.
    induction all as [|f more IH]; intros batches H g offs Hg Hgrp; [destruct Hg|].
    rewrite tpf_cons in H. destruct (grp f) as [offs0|] eqn:Eg.
    - unfold take_in_frag in H. destruct (forallb (in_phys f) offs0) eqn:Eb; [|discriminate H].
      destruct (take_per_fragment more G) as [r| |] eqn:Er; try discriminate H.
      destruct Hg as [<-|Hg]; [rewrite Eg in Hgrp; inversion Hgrp; subst; exact Eb|].
      apply (IH r eq_refl g offs Hg Hgrp).
    - destruct Hg as [<-|Hg]; [rewrite Eg in Hgrp; discriminate|]. apply (IH batches H g offs Hg Hgrp).
  Qed.

  Lemma tpf_total : forall (all : list frag),
    (forall f offs, In f all -> grp f = Some offs -> forallb (in_phys f) offs = true) ->
    exists batches, take_per_fragment all G = Ok batches /\
                    (batches = [] -> forall f, In f all -> grp f = None).
  Proof.
    induction all as [|f more IH]; intro Hb.
    - exists []. split; [reflexivity|]. intros _ f [].
    - destruct IH as [r [Er Hr]]; [intros g offs Hg; apply Hb; right; exact Hg|].
      rewrite tpf_cons. destruct (grp f) as [offs|] eqn:Eg.
      + unfold take_in_frag. rewrite (Hb f offs (or_introl eq_refl) Eg), Er.
        eexists. split; [reflexivity|]. intro C. discriminate C.
      + exists r. split; [exact Er|]. intros C g [<-|Hg]; [exact Eg | apply Hr; assumption].
  Qed.

  Lemma tpf_nodup : forall (all : list frag) (batches : list (list N)),
    take_per_fragment all G = Ok batches ->
    NoDup (map f_id all) -> (forall f, In f all -> f_id f < two32) ->
    (forall f offs, In f all -> grp f = Some offs -> NoDup offs /\ (forall o, In o offs -> o < two32)) ->
    NoDup (concat batches).
  Proof.
    induction all as [|f more IH]; intros batches H ND Hid Hoffs.
    - cbn in H. inversion H; subst. constructor.
    - cbn [map] in ND. inversion ND as [|? ? Hna ND']; subst.
      assert (forall r, take_per_fragment more G = Ok r -> NoDup (concat r)) as IH'.
      { intros r Er. apply (IH r Er ND'); [intros g Hg; apply Hid; right; exact Hg|].
        intros g offs Hg. apply Hoffs. right. exact Hg. }
      pose proof H as H0. rewrite tpf_cons in H. destruct (grp f) as [offs|] eqn:Eg; [|apply IH'; exact H].
      unfold take_in_frag in H. destruct (forallb (in_phys f) offs); [|discriminate H].
      destruct (take_per_fragment more G) as [r| |] eqn:Er; try discriminate H. inversion H; subst.
      destruct (Hoffs f offs (or_introl eq_refl) Eg) as [NDo Hsmall].
      pose proof (Hid f (or_introl eq_refl)) as Hidf.
      cbn [concat]. apply NoDup_app_intro; [| apply IH'; reflexivity |].
      + apply NoDup_map_inj_in; [|apply NoDup_filter; exact NDo].
        intros x y Hx Hy E. apply filter_In in Hx. apply filter_In in Hy.
        rewrite !mk_addr_join in E by exact Hidf.
        rewrite <- (addr_off_join (f_id f) x), <- (addr_off_join (f_id f) y), E; try reflexivity; apply Hsmall; tauto.
      + intros x Hx Hx'. apply in_map_iff in Hx. destruct Hx as [o [Ex Ho]]. apply filter_In in Ho.
        apply (tpf_ok_in more r Er x) in Hx'. destruct Hx' as [g [offs' [o' [Hg [Hgrp [Ho' [_ Ex']]]]]]].
        apply Hna. replace (f_id f) with (f_id g); [apply in_map; exact Hg|].
        rewrite <- Ex in Ex'. rewrite !mk_addr_join in Ex' by (try exact Hidf; apply Hid; right; exact Hg).
        rewrite <- (addr_frag_join (f_id g) o'), <- Ex', addr_frag_join; try reflexivity.
        * apply Hsmall. tauto.
        * destruct (Hoffs g offs' (or_intror Hg) Hgrp) as [_ Hs]. apply Hs. exact Ho'.
  Qed.
End PerFragment.

Lemma NoDup_app_l {A} (l1 l2 : list A) : NoDup (l1 ++ l2) -> NoDup l1.
Proof.
  induction l1 as [|a l1 IH]; intro H; [constructor|]. cbn [app] in H. inversion H as [|? ? Hna H']; subst.
  constructor; [|apply IH; exact H']. intro C. apply Hna. apply in_or_app. left. exact C.
Qed.

Lemma NoDup_app_r {A} (l1 l2 : list A) : NoDup (l1 ++ l2) -> NoDup l2.
Proof. induction l1 as [|a l1 IH]; intro H; [exact H|]. cbn [app] in H. inversion H; subst. apply IH. assumption. Qed.

Lemma NoDup_flat_map_in {A B} (h : A -> list B) (l : list A) (x : A) : NoDup (flat_map h l) -> In x l -> NoDup (h x).
Proof.
  induction l as [|y l IH]; intros ND Hin; [destruct Hin|]. cbn [flat_map] in ND.
  destruct Hin as [->|Hin]; [apply NoDup_app_l in ND; exact ND|]. apply IH; [apply NoDup_app_r in ND; exact ND | exact Hin].
Qed.

Lemma existsb_eqb_iff (a : N) (l : list N) : existsb (N.eqb a) l = true <-> In a l.
Proof. exact (dv_contains_In l a). Qed.

Lemma filter_all {A} (p : A -> bool) (l : list A) : (forall x, In x l -> p x = true) -> filter p l = l.
Proof.
  induction l as [|x xs IH]; intro H; [reflexivity|]. cbn [filter]. rewrite (H x (or_introl eq_refl)).
  f_equal. apply IH. intros y Hy. apply H. right. exact Hy.
Qed.

(* ---- the re-mapping ("slow") path ---- *)
Definition slow_path (frs : list frag) (row_addrs : list N) : outcome (list N) :=
  let sorted_row_addrs := dedup_adj (sort_by (fun a => a) row_addrs) in
  match take_per_fragment frs (group_runs sorted_row_addrs) with
  | Err => Err
  | Panic => Panic
  | Ok batches =>
    match batches with
    | [] => Panic
    | _ =>
      let returned := concat batches in
      let remapped := filter (fun o => existsb (N.eqb o) returned) row_addrs in
      if N.of_nat (length remapped) <? N.of_nat (length returned) then Panic else Ok remapped
    end
  end.

Definition batch_of (frs : list frag) (start : N) (row_addrs : list N) (sorted contiguous : bool) : outcome (list N) :=
  if contiguous then
    match find_frag frs (addr_frag start) with
    | None => Err
    | Some f => outcome_map (map (mk_addr (f_id f)))
                  (frag_read_range f (addr_off start) (addr_off (last row_addrs 0) + 1))
    end
  else if sorted then take_groups frs (group_runs row_addrs)
  else slow_path frs row_addrs.

Lemma do_take_rows_unfold (frs : list frag) (start : N) (rest : list N) (wra : bool) :
  do_take_rows frs (start :: rest) wra =
    match check_row_addrs (start :: rest) with
    | Err => Err
    | Panic => Panic
    | Ok (sorted, contiguous) =>
      match batch_of frs start (start :: rest) sorted contiguous with
      | Ok rows => if wra && negb (N.of_nat (length rows) =? N.of_nat (length (start :: rest))) then Err else Ok rows
      | Err => Err
      | Panic => Panic
      end
    end.
Proof. reflexivity. Qed.

Section SlowPath.
  Variable frs : list frag.
  Hypothesis Hwf : Forall frag_wfP frs.
  Hypothesis Hnd : ids_nodup frs.
  Variable addrs : list N.
  Let S := dedup_adj (sort_by (fun a => a) addrs).
  Let G := group_runs S.

  Lemma S_in (a : N) : In a S <-> In a addrs.
  Proof.
    unfold S. rewrite dedup_adj_in. split; intro H.
    - apply (Permutation_in _ (sort_by_perm (fun a => a) addrs)). exact H.
    - apply (Permutation_in _ (Permutation_sym (sort_by_perm (fun a => a) addrs))). exact H.
  Qed.

  Lemma S_sorted : StronglySorted N.lt S.
  Proof.
    unfold S. apply dedup_adj_sorted.
    pose proof (StronglySorted_map_le (fun a => a) _ (sort_by_sorted (fun a => a) addrs)) as H.
    rewrite map_id in H. exact H.
  Qed.

  Lemma G_keys_nodup : NoDup (map fst G).
  Proof. apply StronglySorted_lt_NoDup. apply group_runs_keys_sorted. apply addr_frag_mono. exact S_sorted. Qed.

  Lemma wf_in (f : frag) : In f frs -> frag_wfP f.
  Proof. intro H. rewrite Forall_forall in Hwf. apply Hwf. exact H. Qed.

  Lemma grp_in (f : frag) (offs : list N) : In f frs -> grp G f = Some offs -> In (f_id f, offs) G.
  Proof.
    intros Hf H. unfold grp in H. rewrite wrap32_small in H by (pose proof (wf_id f (wf_in f Hf)); lia).
    apply lookup_idx_some. exact H.
  Qed.

  Lemma grp_complete (a : N) (f : frag) : In a addrs -> find_frag frs (addr_frag a) = Some f ->
    exists offs, grp G f = Some offs /\ In (addr_off a) offs.
  Proof.
    intros Ha Hf. destruct (found_wf frs Hwf _ _ Hf) as [W Hid].
    destruct (group_runs_has S a (proj2 (S_in a) Ha)) as [offs [Hg Ho]]. exists offs. split; [|exact Ho].
    unfold grp. rewrite wrap32_small by (pose proof (wf_id f W); lia). rewrite Hid.
    apply lookup_idx_in; [exact G_keys_nodup | exact Hg].
  Qed.

  (* an address produced by a fragment's group is a requested, physically present slot *)
  Lemma grp_member (f : frag) (offs : list N) (o : N) : In f frs -> grp G f = Some offs -> In o offs ->
    o < two32 /\ In (mk_addr (f_id f) o) addrs /\ addr_frag (mk_addr (f_id f) o) = f_id f /\
    addr_off (mk_addr (f_id f) o) = o /\ find_frag frs (f_id f) = Some f.
  Proof.
    intros Hf Hg Ho. pose proof (grp_in f offs Hf Hg) as HG.
    pose proof (group_runs_offs_small S _ _ _ HG Ho) as Hsmall.
    pose proof (wf_id f (wf_in f Hf)) as Hid.
    rewrite mk_addr_join by lia. repeat split.
    - exact Hsmall.
    - apply S_in. apply (group_runs_in S _ _ _ HG Ho).
    - apply addr_frag_join. exact Hsmall.
    - apply addr_off_join. exact Hsmall.
    - apply find_frag_nodup; assumption.
  Qed.

  Lemma slow_returned_iff (batches : list (list N)) (a : N) :
    take_per_fragment frs G = Ok batches -> In a addrs ->
    (In a (concat batches) <-> addr_live frs a = true).
  Proof.
    intros Hb Ha. rewrite (tpf_ok_in G frs batches Hb a). split.
    - intros [f [offs [o [Hf [Hg [Ho [Hl ->]]]]]]].
      destruct (grp_member f offs o Hf Hg Ho) as [_ [_ [E1 [E2 E3]]]].
      pose proof (tpf_ok_bounds G frs batches Hb f offs Hf Hg) as Hb'. rewrite forallb_forall in Hb'. specialize (Hb' o Ho).
      unfold addr_live. rewrite E1, E3, E2. unfold in_phys in Hb'. rewrite Hb', Hl. reflexivity.
    - intro Hl. unfold addr_live in Hl. destruct (find_frag frs (addr_frag a)) as [f|] eqn:F; [|discriminate Hl].
      apply andb_true_iff in Hl. destruct Hl as [_ Hl].
      destruct (grp_complete a f Ha F) as [offs [Hg Ho]].
      exists f, offs, (addr_off a). repeat split; try assumption.
      + apply (find_frag_some _ _ _ F).
      + symmetry. apply (found_addr frs Hwf a f F).
  Qed.

  Lemma slow_path_sound (l : list N) : slow_path frs addrs = Ok l -> l = filter (addr_live frs) addrs.
  Proof.
    unfold slow_path. fold S. fold G. destruct (take_per_fragment frs G) as [batches| |] eqn:Hb; try discriminate.
    destruct batches as [|b bs]; [discriminate|].
    pose proof (fun a Ha => slow_returned_iff (b :: bs) a Hb Ha) as I0.
    set (R := concat (b :: bs)) in *. clearbody R.
    destruct (N.of_nat (length (filter (fun o => existsb (N.eqb o) R) addrs)) <? N.of_nat (length R));
      [discriminate|].
    intro H. injection H as <-. apply filter_ext_in. intros a Ha. cbv beta.
    pose proof (I0 a Ha) as I. rewrite <- existsb_eqb_iff in I.
    destruct (existsb (N.eqb a) R); destruct (addr_live frs a); try reflexivity.
    - destruct I as [I _]. specialize (I eq_refl). discriminate I.
    - destruct I as [_ I]. specialize (I eq_refl). discriminate I.
  Qed.

  (* totality: every requested address is a physical slot or belongs to no fragment at all, and at
     least one belongs to a fragment *)
  Lemma slow_path_total :
    (forall a, In a addrs -> addr_in_bounds frs a = true \/ find_frag frs (addr_frag a) = None) ->
    (exists a, In a addrs /\ addr_in_bounds frs a = true) ->
    slow_path frs addrs = Ok (filter (addr_live frs) addrs).
  Proof.
    intros Hall [a0 [Ha0 Hb0]].
    destruct (tpf_total G frs) as [batches [Hb Hempty]].
    { intros f offs Hf Hg. apply forallb_forall. intros o Ho.
      destruct (grp_member f offs o Hf Hg Ho) as [_ [Hin [E1 [E2 E3]]]].
      destruct (Hall _ Hin) as [B|B].
      - unfold addr_in_bounds in B. rewrite E1, E3, E2 in B. exact B.
      - rewrite E1, E3 in B. discriminate B. }
    assert (slow_path frs addrs = Ok (filter (fun o => existsb (N.eqb o) (concat batches)) addrs)) as E.
    { unfold slow_path. fold S. fold G. rewrite Hb. destruct batches as [|b bs].
      - exfalso. unfold addr_in_bounds in Hb0. destruct (find_frag frs (addr_frag a0)) as [f|] eqn:F; [|discriminate Hb0].
        destruct (grp_complete a0 f Ha0 F) as [offs [Hg _]].
        rewrite (Hempty eq_refl f (proj1 (find_frag_some _ _ _ F))) in Hg. discriminate Hg.
      - set (R := concat (b :: bs)) in *.
        assert (length R <= length (filter (fun o => existsb (N.eqb o) R) addrs))%nat as Hlen.
        { apply NoDup_incl_length.
          - apply (tpf_nodup G frs (b :: bs) Hb Hnd).
            + intros f Hf. pose proof (wf_id f (wf_in f Hf)). lia.
            + intros f offs Hf Hg. split.
              * pose proof (grp_in f offs Hf Hg) as HG.
                pose proof (NoDup_flat_map_in ungroup G (f_id f, offs)) as ND.
                unfold G in ND at 1. rewrite group_runs_flat in ND. specialize (ND (StronglySorted_lt_NoDup S S_sorted) HG).
                unfold ungroup in ND. cbn [fst snd] in ND. apply NoDup_map_inv in ND. exact ND.
              * intros o Ho. apply (grp_member f offs o Hf Hg Ho).
          - intros x Hx. apply filter_In. split; [|apply existsb_eqb_iff; exact Hx].
            apply (tpf_ok_in G frs (b :: bs) Hb x) in Hx. destruct Hx as [f [offs [o [Hf [Hg [Ho [_ ->]]]]]]].
            apply (grp_member f offs o Hf Hg Ho). }
        destruct (N.ltb_spec (N.of_nat (length (filter (fun o => existsb (N.eqb o) R) addrs))) (N.of_nat (length R))); [lia|].
        reflexivity. }
    rewrite E. f_equal. apply slow_path_sound. exact E.
  Qed.
End SlowPath.

(* ================= D. do_take_rows, take, take_scan, take by row id ================= *)
Definition table_wf (frs : list frag) : Prop := Forall frag_wfP frs /\ ids_nodup frs.

Lemma frags_wf_P (frs : list frag) : frags_wf frs = true -> table_wf frs.
Proof.
  unfold frags_wf. intro H. apply andb_true_iff in H. destruct H as [H1 H2]. split.
  - apply Forall_forall. intros f Hf. rewrite forallb_forall in H1. apply frag_wf_P, H1, Hf.
  - apply dv_nodup_NoDup. exact H2.
Qed.

Lemma take_spec_ok (frs : list frag) (addrs rows : list N) :
  take_spec frs addrs = Ok rows -> rows = filter (addr_live frs) addrs.
Proof. unfold take_spec. destruct (forallb (addr_in_bounds frs) addrs); [|discriminate]. intro H. inversion H. reflexivity. Qed.

Lemma batch_sound (frs : list frag) (start : N) (rest : list N) (s c : bool) (rows : list N) :
  table_wf frs -> check_row_addrs (start :: rest) = Ok (s, c) ->
  batch_of frs start (start :: rest) s c = Ok rows -> rows = filter (addr_live frs) (start :: rest).
Proof.
  intros [Hwf Hnd] Hc. unfold batch_of. destruct c.
  - rewrite (contiguous_path_eq frs Hwf start rest s Hc). apply take_spec_ok.
  - destruct s.
    + rewrite (take_groups_eq frs Hwf). apply take_spec_ok.
    + apply slow_path_sound; assumption.
Qed.

(* whatever do_take_rows returns is exactly the live requested rows, in request order, duplicates kept *)
Theorem do_take_rows_sound (frs : list frag) (addrs : list N) (wra : bool) (l : list N) :
  table_wf frs -> do_take_rows frs addrs wra = Ok l -> l = filter (addr_live frs) addrs.
Proof.
  intros W H. destruct addrs as [|start rest]; [cbn in H; inversion H; reflexivity|].
  rewrite do_take_rows_unfold in H.
  destruct (check_row_addrs (start :: rest)) as [[s c]| |] eqn:Hc; try discriminate H.
  destruct (batch_of frs start (start :: rest) s c) as [rows| |] eqn:Hb; try discriminate H.
  destruct (wra && negb (N.of_nat (length rows) =? N.of_nat (length (start :: rest)))); [discriminate H|].
  inversion H; subst. apply (batch_sound frs start rest s c l W Hc Hb).
Qed.

Lemma in_bounds_lt (frs : list frag) (a : N) : Forall frag_wfP frs -> addr_in_bounds frs a = true -> a + 1 < two64.
Proof.
  intros Hwf H. unfold addr_in_bounds in H. destruct (find_frag frs (addr_frag a)) as [f|] eqn:F; [|discriminate H].
  destruct (found_wf frs Hwf _ _ F) as [W Hid]. pose proof (wf_id f W) as Hlt. rewrite Hid, addr_frag_div in Hlt.
  rewrite two32_val in Hlt. change two64 with 18446744073709551616.
  pose proof (N.div_mod a 4294967296 ltac:(lia)). pose proof (N.mod_lt a 4294967296 ltac:(lia)). lia.
Qed.

(* since repo commit 33efb4f check_row_addrs cannot fail, whatever the addresses *)
Lemma check_loop_ok : forall (rest : list N) (lst ff : N) (s c : bool),
  exists s' c', check_row_addrs_loop lst ff rest s c = Ok (s', c').
Proof.
  induction rest as [|a more IH]; intros lst ff s c; [eexists; eexists; reflexivity|].
  cbn [check_row_addrs_loop]. apply IH.
Qed.

Lemma live_in_bounds (frs : list frag) (a : N) : addr_live frs a = true -> addr_in_bounds frs a = true.
Proof.
  unfold addr_live, addr_in_bounds. destruct (find_frag frs (addr_frag a)); [|discriminate].
  intro H. apply andb_true_iff in H. tauto.
Qed.

(* no panic and no spurious error: every requested address names a physical slot, or belongs to no
   fragment at all (those are dropped or reported as an error), and at least one names a slot *)
Theorem do_take_rows_total (frs : list frag) (addrs : list N) :
  table_wf frs ->
  (forall a, In a addrs -> addr_in_bounds frs a = true \/ find_frag frs (addr_frag a) = None) ->
  (exists a, In a addrs /\ addr_in_bounds frs a = true) ->
  (do_take_rows frs addrs false = Ok (filter (addr_live frs) addrs) \/
   (do_take_rows frs addrs false = Err /\ forallb (addr_in_bounds frs) addrs = false)).
Proof.
  intros [Hwf Hnd] Hall Hex. destruct addrs as [|start rest]; [destruct Hex as [a [[] _]]|].
  rewrite do_take_rows_unfold.
  destruct (check_loop_ok rest start (addr_frag start) true true) as [s [c Hc]].
  cbn [check_row_addrs]. rewrite Hc. cbn [andb].
  assert (batch_of frs start (start :: rest) s c = take_spec frs (start :: rest) \/
          batch_of frs start (start :: rest) s c = Ok (filter (addr_live frs) (start :: rest))) as [E|E].
  { unfold batch_of. destruct c.
    - left. apply (contiguous_path_eq frs Hwf start rest s). exact Hc.
    - destruct s; [left; apply (take_groups_eq frs Hwf)|]. right. apply slow_path_total; assumption. }
  - rewrite E. unfold take_spec. destruct (forallb (addr_in_bounds frs) (start :: rest)); [left | right; split]; reflexivity.
  - rewrite E. left. reflexivity.
Qed.

Corollary do_take_rows_in_bounds (frs : list frag) (addrs : list N) :
  table_wf frs -> addrs <> [] -> forallb (addr_in_bounds frs) addrs = true ->
  do_take_rows frs addrs false = Ok (filter (addr_live frs) addrs).
Proof.
  intros W Hne Hb. rewrite forallb_forall in Hb.
  destruct (do_take_rows_total frs addrs W) as [E|[_ E]].
  - intros a Ha. left. apply Hb. exact Ha.
  - destruct addrs as [|a r]; [congruence|]. exists a. split; [left; reflexivity | apply Hb; left; reflexivity].
  - exact E.
  - exfalso. assert (forallb (addr_in_bounds frs) addrs = true) by (apply forallb_forall; exact Hb). congruence.
Qed.

(* with_row_address: same rows, or an error exactly when a requested row is deleted *)
Lemma filter_length_lt {A} (p : A -> bool) (l : list A) : forallb p l = false -> (length (filter p l) < length l)%nat.
Proof.
  induction l as [|x xs IH]; intro H; [discriminate H|]. cbn [forallb filter] in *.
  destruct (p x); cbn [andb length] in *.
  - specialize (IH H). lia.
  - pose proof (filter_length_le p xs). lia.
Qed.

Corollary do_take_rows_with_row_address (frs : list frag) (addrs : list N) :
  table_wf frs -> addrs <> [] -> forallb (addr_in_bounds frs) addrs = true ->
  do_take_rows frs addrs true = if forallb (addr_live frs) addrs then Ok addrs else Err.
Proof.
  intros W Hne Hb. pose proof (do_take_rows_in_bounds frs addrs W Hne Hb) as E.
  assert (forallb (addr_live frs) addrs = true -> filter (addr_live frs) addrs = addrs) as HF1
    by (intro L; apply filter_all; apply forallb_forall; exact L).
  pose proof (filter_length_lt (addr_live frs) addrs) as HF2.
  remember (filter (addr_live frs) addrs) as F eqn:HF. clear HF.
  destruct addrs as [|start rest]; [congruence|]. rewrite do_take_rows_unfold in *.
  destruct (check_row_addrs (start :: rest)) as [[s c]| |]; try discriminate E.
  destruct (batch_of frs start (start :: rest) s c) as [rows| |]; try discriminate E.
  cbn [andb] in E. injection E as E'. cbn [andb]. subst rows.
  destruct (forallb (addr_live frs) (start :: rest)) eqn:L.
  - rewrite (HF1 eq_refl). rewrite N.eqb_refl. reflexivity.
  - specialize (HF2 eq_refl).
    destruct (N.eqb_spec (N.of_nat (length F)) (N.of_nat (length (start :: rest)))); [lia | reflexivity].
Qed.

(* ---- scan rows are live ---- *)
Lemma scan_live (frs : list frag) (a : N) : table_wf frs -> In a (scan frs) -> addr_live frs a = true.
Proof.
  intros [Hwf Hnd] Hin. unfold scan in Hin. apply in_flat_map in Hin. destruct Hin as [f [Hf Ha]].
  unfold frag_scan in Ha. apply in_map_iff in Ha. destruct Ha as [p [<- Hp]]. apply filter_In in Hp.
  destruct Hp as [Hp Hl]. apply in_N_range in Hp.
  assert (frag_wfP f) as W by (rewrite Forall_forall in Hwf; apply Hwf; exact Hf).
  pose proof (wf_id f W). pose proof (wf_phys f W).
  rewrite mk_addr_join by lia. unfold addr_live.
  rewrite addr_frag_join, addr_off_join by lia. rewrite (find_frag_nodup frs f Hnd Hf).
  apply andb_true_iff. split; [apply N.ltb_lt; exact Hp | exact Hl].
Qed.

Lemma find_frag_none (frs : list frag) (id : N) : (forall f, In f frs -> f_id f <> id) -> find_frag frs id = None.
Proof.
  unfold find_frag. induction frs as [|g frs IH]; intro H; [reflexivity|]. cbn [find].
  destruct (N.eqb_spec (f_id g) id) as [E|_]; [exfalso; apply (H g); [left; reflexivity | exact E]|].
  apply IH. intros f Hf. apply H. right. exact Hf.
Qed.

Lemma tombstone_no_frag (frs : list frag) : Forall frag_wfP frs -> find_frag frs (addr_frag TOMBSTONE_ROW) = None.
Proof.
  intro Hwf. apply find_frag_none. intros f Hf. rewrite Forall_forall in Hwf. pose proof (wf_id f (Hwf f Hf)) as H.
  change (addr_frag TOMBSTONE_ROW) with 4294967295. rewrite two32_val in H. lia.
Qed.

Lemma tombstone_not_live (frs : list frag) : Forall frag_wfP frs -> addr_live frs TOMBSTONE_ROW = false.
Proof. intro Hwf. unfold addr_live. rewrite (tombstone_no_frag frs Hwf). reflexivity. Qed.

(* ---- take(offsets) ---- *)
Lemma at_offset_in (frs : list frag) (o : N) : in_range frs o = true -> In (at_offset frs o) (scan frs).
Proof. unfold in_range, scan_len, at_offset. intro H. apply N.ltb_lt in H. apply nth_In. lia. Qed.

Lemma at_offset_oob (frs : list frag) (o : N) : in_range frs o = false -> at_offset frs o = TOMBSTONE_ROW.
Proof. unfold in_range, scan_len, at_offset. intro H. apply N.ltb_ge in H. apply nth_overflow. lia. Qed.

Lemma filter_live_at_offsets (frs : list frag) (offs : list N) : table_wf frs ->
  filter (addr_live frs) (map (at_offset frs) offs) = expected_rows frs offs.
Proof.
  intro W. unfold expected_rows. induction offs as [|o rest IH]; [reflexivity|]. cbn [map filter].
  destruct (in_range frs o) eqn:R.
  - rewrite (scan_live frs _ W (at_offset_in frs o R)). cbn [map]. f_equal. exact IH.
  - rewrite (at_offset_oob frs o R), (tombstone_not_live frs (proj1 W)). exact IH.
Qed.

Theorem take_sound (frs : list frag) (offs l : list N) :
  table_wf frs -> scan_len frs < two64 -> take frs offs = Ok l -> l = expected_rows frs offs.
Proof.
  intros W Hov H. unfold take in H. destruct offs as [|o rest]; [inversion H; reflexivity|].
  rewrite (row_offsets_to_row_addresses_correct frs (o :: rest) (proj1 W) Hov) in H.
  unfold take_rows_by_addr in H. apply (do_take_rows_sound frs _ false l W) in H.
  rewrite H. apply (filter_live_at_offsets frs (o :: rest) W).
Qed.

(* Known_C15_all_offsets_oob and take_agrees_with_scan are defined in Core/Model_Take.v *)

Lemma removelast_map {A B} (g : A -> B) (l : list A) : removelast (map g l) = map g (removelast l).
Proof.
  induction l as [|x xs IH]; [reflexivity|]. destruct xs as [|y ys]; [reflexivity|].
  change (removelast (map g (x :: y :: ys))) with (g x :: removelast (map g (y :: ys))).
  change (removelast (x :: y :: ys)) with (x :: removelast (y :: ys)). cbn [map]. f_equal. exact IH.
Qed.

Lemma existsb_false_forallb_negb {A} (p : A -> bool) (l : list A) :
  existsb p l = false -> forallb (fun x => negb (p x)) l = true.
Proof.
  induction l as [|x xs IH]; intro H; [reflexivity|]. cbn [existsb forallb] in *.
  apply orb_false_iff in H. destruct H as [H1 H2]. rewrite H1, (IH H2). reflexivity.
Qed.

(* Outside the class (some offset is in range, or a single offset is requested): the rows of the in-range
   offsets in request order - out-of-range offsets are dropped - or an error due to an out-of-range offset. *)
Theorem take_outside_known_class (frs : list frag) (offs : list N) :
  table_wf frs -> scan_len frs < two64 -> Known_C15_all_offsets_oob frs offs = false ->
  take_agrees_with_scan frs offs.
Proof.
  intros W Hov K. unfold take_agrees_with_scan, take.
  destruct offs as [|o0 rest0] eqn:Eoffs; [left; reflexivity|]. rewrite <- Eoffs in *.
  rewrite (row_offsets_to_row_addresses_correct frs offs (proj1 W) Hov). unfold take_rows_by_addr.
  fold (at_offset frs). rewrite <- (filter_live_at_offsets frs offs W).
  replace (match offs with [] => Ok [] | _ :: _ => do_take_rows frs (map (at_offset frs) offs) false end)
    with (do_take_rows frs (map (at_offset frs) offs) false) by (rewrite Eoffs; reflexivity).
  destruct (existsb (in_range frs) offs) eqn:Ex.
  - (* some offset is in range *)
    apply existsb_exists in Ex. destruct Ex as [o1 [Ho1 R1]].
    destruct (do_take_rows_total frs (map (at_offset frs) offs) W) as [E|[E Hb]].
    + intros a Ha. apply in_map_iff in Ha. destruct Ha as [o [<- Ho]]. destruct (in_range frs o) eqn:R.
      * left. apply live_in_bounds, (scan_live frs _ W), at_offset_in, R.
      * right. rewrite (at_offset_oob frs o R). apply tombstone_no_frag, W.
    + exists (at_offset frs o1). split; [apply in_map; exact Ho1|].
      apply live_in_bounds, (scan_live frs _ W), at_offset_in, R1.
    + left. exact E.
    + right. split; [exact E|].
      destruct (existsb (fun o => negb (in_range frs o)) offs) eqn:X; [reflexivity|]. exfalso.
      assert (forallb (addr_in_bounds frs) (map (at_offset frs) offs) = true) as C; [|congruence].
      apply forallb_forall. intros a Ha. apply in_map_iff in Ha. destruct Ha as [o [<- Ho]].
      destruct (in_range frs o) eqn:R; [apply live_in_bounds, (scan_live frs _ W), at_offset_in, R|].
      exfalso. assert (existsb (fun o => negb (in_range frs o)) offs = true) as C
        by (apply existsb_exists; exists o; split; [exact Ho | rewrite R; reflexivity]). congruence.
  - (* no offset is in range: outside the class there is exactly one offset *)
    pose proof (existsb_false_forallb_negb _ _ Ex) as Hall.
    unfold Known_C15_all_offsets_oob in K. rewrite Hall, andb_true_r in K.
    rewrite Eoffs in K. cbn [length] in K. destruct rest0 as [|o1 rest1]; [|exfalso; apply N.leb_gt in K; cbn [length] in K; lia].
    right. rewrite Eoffs in *. cbn [forallb existsb] in *. rewrite andb_true_r in Hall. apply negb_true_iff in Hall.
    cbn [map]. rewrite (at_offset_oob frs o0 Hall). split.
    + rewrite do_take_rows_unfold. cbn [check_row_addrs check_row_addrs_loop]. unfold batch_of.
      rewrite (tombstone_no_frag frs (proj1 W)). reflexivity.
    + rewrite Hall. reflexivity.
Qed.

Corollary take_in_range (frs : list frag) (offs : list N) :
  table_wf frs -> scan_len frs < two64 -> forallb (in_range frs) offs = true ->
  take frs offs = Ok (map (at_offset frs) offs).
Proof.
  intros W Hov H. pose proof H as H0. rewrite forallb_forall in H.
  assert (expected_rows frs offs = map (at_offset frs) offs) as <- by (unfold expected_rows; rewrite filter_all; [reflexivity | exact H]).
  destruct (take_outside_known_class frs offs W Hov) as [E|[_ E]].
  - unfold Known_C15_all_offsets_oob. destruct offs as [|o r]; [reflexivity|]. cbn [forallb] in *.
    apply andb_true_iff in H0. destruct H0 as [R _]. rewrite R. cbn [negb andb]. apply andb_false_r.
  - exact E.
  - exfalso. apply existsb_exists in E. destruct E as [o [Ho C]]. rewrite (H o Ho) in C. discriminate C.
Qed.

(* take_scan: one batch per range; the batch of [s, e) is scan[s], .., scan[e-1] *)
Theorem take_scan_correct (frs : list frag) (ranges : list (N * N)) :
  table_wf frs -> scan_len frs < two64 -> Forall (fun r => snd r <= scan_len frs) ranges ->
  take_scan frs ranges = map (fun r => Ok (map (at_offset frs) (N_span (fst r) (snd r)))) ranges.
Proof.
  intros W Hov H. unfold take_scan. apply map_ext_in. intros r Hr. rewrite Forall_forall in H. specialize (H r Hr).
  apply take_in_range; [exact W | exact Hov|]. apply forallb_forall. intros o Ho. apply in_N_span in Ho.
  unfold in_range. apply N.ltb_lt. lia.
Qed.

(* ---- take by row id ---- *)
Lemma get_row_addrs_in (get : N -> option N) (ids : list N) (a : N) :
  In a (get_row_addrs (Some get) ids) <-> exists id, In id ids /\ get id = Some a.
Proof.
  unfold get_row_addrs. rewrite in_flat_map. split.
  - intros [id [Hid Ha]]. exists id. split; [exact Hid|]. destruct (get id) as [b|]; [|destruct Ha]. destruct Ha as [->|[]]. reflexivity.
  - intros [id [Hid Hg]]. exists id. split; [exact Hid|]. rewrite Hg. left. reflexivity.
Qed.

Section RowIds.
  Variable frs : list frag.
  Hypothesis W : table_wf frs.
  (* the row id index (RowIdIndex::get, property C34) as a function, with what C34 guarantees of it:
     it answers only with addresses of rows a scan shows *)
  Variable get : N -> option N.
  Hypothesis get_sound : forall id a, get id = Some a -> In a (scan frs).

  Theorem take_rows_by_id_correct (ids : list N) :
    take_rows_by_id (Some get) frs ids false = Ok (get_row_addrs (Some get) ids).
  Proof.
    unfold take_rows_by_id. set (addrs := get_row_addrs (Some get) ids).
    assert (forall a, In a addrs -> addr_live frs a = true) as Hl.
    { intros a Ha. apply get_row_addrs_in in Ha. destruct Ha as [id [_ Hg]]. apply (scan_live frs a W), (get_sound id a Hg). }
    destruct addrs as [|a0 r] eqn:E; [reflexivity|]. rewrite <- E in *.
    rewrite do_take_rows_in_bounds; [f_equal; apply filter_all; exact Hl | exact W | rewrite E; discriminate|].
    apply forallb_forall. intros a Ha. apply live_in_bounds, Hl, Ha.
  Qed.
End RowIds.

(* without stable row ids the row id is the address: each row a scan shows is returned for its own
   _rowid / _rowaddr, and nothing is returned for a deleted or absent one *)
Theorem take_by_scan_address (frs : list frag) (addrs : list N) :
  table_wf frs -> addrs <> [] -> Forall (fun a => In a (scan frs)) addrs ->
  take_rows_by_id None frs addrs false = Ok addrs /\ take_rows_by_id None frs addrs true = Ok addrs.
Proof.
  intros W Hne H. rewrite Forall_forall in H. unfold take_rows_by_id, get_row_addrs.
  assert (forallb (addr_live frs) addrs = true) as Hl by (apply forallb_forall; intros a Ha; apply (scan_live frs a W), H, Ha).
  assert (forallb (addr_in_bounds frs) addrs = true) as Hb.
  { apply forallb_forall. intros a Ha. rewrite forallb_forall in Hl. apply live_in_bounds, Hl, Ha. }
  split.
  - rewrite do_take_rows_in_bounds by assumption. f_equal. apply filter_all. rewrite forallb_forall in Hl. exact Hl.
  - rewrite do_take_rows_with_row_address by assumption. rewrite Hl. reflexivity.
Qed.

(* ================= E. statements over the executable well-formedness check ================= *)
Lemma offsets_to_addresses_wf (frs : list frag) (offs : list N) :
  frags_wf frs = true -> scan_len frs < two64 ->
  row_offsets_to_row_addresses frs offs = Ok (map (at_offset frs) offs).
Proof. intros H Hov. apply row_offsets_to_row_addresses_correct; [apply (frags_wf_P frs H) | exact Hov]. Qed.

Lemma take_rows_sound_wf (frs : list frag) (addrs : list N) (wra : bool) (l : list N) :
  frags_wf frs = true -> do_take_rows frs addrs wra = Ok l -> l = filter (addr_live frs) addrs.
Proof. intro H. apply do_take_rows_sound, frags_wf_P, H. Qed.

Lemma take_rows_total_wf (frs : list frag) (addrs : list N) :
  frags_wf frs = true -> addrs <> [] -> forallb (addr_in_bounds frs) addrs = true ->
  do_take_rows frs addrs false = Ok (filter (addr_live frs) addrs) /\
  do_take_rows frs addrs true = (if forallb (addr_live frs) addrs then Ok addrs else Err).
Proof.
  intros H Hne Hb. split; [apply do_take_rows_in_bounds | apply do_take_rows_with_row_address];
    try assumption; apply frags_wf_P, H.
Qed.

Lemma take_rows_no_panic_wf (frs : list frag) (addrs : list N) :
  frags_wf frs = true ->
  (forall a, In a addrs -> addr_in_bounds frs a = true \/ find_frag frs (addr_frag a) = None) ->
  (exists a, In a addrs /\ addr_in_bounds frs a = true) ->
  (do_take_rows frs addrs false = Ok (filter (addr_live frs) addrs) \/
   (do_take_rows frs addrs false = Err /\ forallb (addr_in_bounds frs) addrs = false)).
Proof. intro H. apply do_take_rows_total, frags_wf_P, H. Qed.

Lemma take_by_offset_wf (frs : list frag) (offs : list N) :
  frags_wf frs = true -> scan_len frs < two64 ->
  (forall l, take frs offs = Ok l -> l = expected_rows frs offs) /\
  (Known_C15_all_offsets_oob frs offs = false -> take_agrees_with_scan frs offs) /\
  (forallb (in_range frs) offs = true -> take frs offs = Ok (map (at_offset frs) offs)).
Proof.
  intros H Hov. pose proof (frags_wf_P frs H) as W. repeat split.
  - intros l Hl. apply (take_sound frs offs l W Hov Hl).
  - apply (take_outside_known_class frs offs W Hov).
  - apply (take_in_range frs offs W Hov).
Qed.

Definition refuting_table : list frag := [{| f_id := 0; f_phys := 3; f_del := None |}].

(* the former class oob_offset_not_last (repaired by repo commit 33efb4f), kept as a regression:
   an out-of-range offset that is not the last one is now dropped, the in-range rows come back *)
Lemma oob_offset_not_last_regression :
  take refuting_table [3; 0] = Ok [0] /\ take refuting_table [0; 3] = Err /\ take refuting_table [3] = Err /\
  Known_C15_all_offsets_oob refuting_table [3; 0] = false /\ take_agrees_with_scan refuting_table [3; 0].
Proof.
  repeat split; try (vm_compute; reflexivity).
  left. vm_compute. reflexivity.
Qed.

Lemma all_offsets_oob_refuted :
  exists frs offs, frags_wf frs = true /\ scan_len frs < two64 /\
    Known_C15_all_offsets_oob frs offs = true /\ ~ take_agrees_with_scan frs offs.
Proof.
  exists refuting_table, [3; 3]. repeat split; try (vm_compute; reflexivity).
  assert (take refuting_table [3; 3] = Panic) as E by (vm_compute; reflexivity).
  unfold take_agrees_with_scan. rewrite E. intros [C|[C _]]; discriminate C.
Qed.

Lemma take_scan_wf (frs : list frag) (ranges : list (N * N)) :
  frags_wf frs = true -> scan_len frs < two64 -> Forall (fun r => snd r <= scan_len frs) ranges ->
  take_scan frs ranges = map (fun r => Ok (map (at_offset frs) (N_span (fst r) (snd r)))) ranges.
Proof. intros H. apply take_scan_correct, frags_wf_P, H. Qed.

Lemma take_by_row_id_wf (frs : list frag) (get : N -> option N) (ids : list N) :
  frags_wf frs = true -> (forall id a, get id = Some a -> In a (scan frs)) ->
  take_rows_by_id (Some get) frs ids false = Ok (get_row_addrs (Some get) ids) /\
  (forall a, In a (get_row_addrs (Some get) ids) <-> exists id, In id ids /\ get id = Some a).
Proof.
  intros H Hg. split; [apply take_rows_by_id_correct; [apply frags_wf_P, H | exact Hg]|].
  intro a. apply get_row_addrs_in.
Qed.

Lemma scan_rows_resolve_wf (frs : list frag) :
  frags_wf frs = true -> scan_len frs < two64 ->
  (forall a, In a (scan frs) -> take_rows_by_id None frs [a] false = Ok [a] /\ take_rows_by_id None frs [a] true = Ok [a]) /\
  (forall o, o < scan_len frs -> take frs [o] = Ok [at_offset frs o] /\ In (at_offset frs o) (scan frs)) /\
  (forall a, addr_in_bounds frs a = true -> ~ In a (scan frs) -> take_rows_by_id None frs [a] false = Ok []).
Proof.
  intros H Hov. pose proof (frags_wf_P frs H) as W. repeat split.
  - apply (take_by_scan_address frs [a] W); [discriminate | constructor; [assumption | constructor]].
  - apply (take_by_scan_address frs [a] W); [discriminate | constructor; [assumption | constructor]].
  - apply (take_in_range frs [o] W Hov). cbn [forallb]. unfold in_range. apply andb_true_iff. split; [apply N.ltb_lt; assumption | reflexivity].
  - apply at_offset_in. unfold in_range. apply N.ltb_lt. assumption.
  - intros a Hb Hnot. unfold take_rows_by_id, get_row_addrs.
    rewrite (do_take_rows_in_bounds frs [a] W); [|discriminate | cbn [forallb]; rewrite Hb; reflexivity].
    cbn [filter]. destruct (addr_live frs a) eqn:L; [|reflexivity]. exfalso. apply Hnot.
    (* a live address is in the scan *)
    unfold addr_live in L. destruct (find_frag frs (addr_frag a)) as [f|] eqn:F; [|discriminate L].
    apply andb_true_iff in L. destruct L as [L1 L2]. apply N.ltb_lt in L1.
    destruct (find_frag_some _ _ _ F) as [Hf Hid].
    unfold scan. apply in_flat_map. exists f. split; [exact Hf|]. unfold frag_scan.
    rewrite <- (found_addr frs (proj1 W) a f F). apply in_map. apply filter_In. split; [apply in_N_range; exact L1 | exact L2].
Qed.
