(* Proofs about Core/Model_Take.v. *)
From LanceV Require Import Common.Base Core.Model_Deletion Core.Proofs_Deletion Core.Model_Take.
From Coq Require Import Sorting.Sorted Sorting.Permutation.
Local Open Scope N_scope.

(* ================= A. sorting with a permutation ================= *)
Section SortBy.
  Context {A : Type} (key : A -> N).
  Definition key_le (a b : A) : Prop := key a <= key b.

  Lemma insert_by_perm (x : A) (l : list A) : Permutation (insert_by key x l) (x :: l).
  Proof.
    induction l as [|y ys IH]; cbn [insert_by]; [apply Permutation_refl|].
    destruct (key x <=? key y); [apply Permutation_refl|].
    eapply Permutation_trans; [apply perm_skip, IH | apply perm_swap].
  Qed.

  Lemma sort_by_perm (l : list A) : Permutation (sort_by key l) l.
  Proof.
    induction l as [|x xs IH]; cbn [sort_by fold_right]; [apply Permutation_refl|].
    eapply Permutation_trans; [apply insert_by_perm | apply perm_skip, IH].
  Qed.

  Lemma insert_by_sorted (x : A) (l : list A) :
    StronglySorted key_le l -> StronglySorted key_le (insert_by key x l).
  Proof.
    induction l as [|y ys IH]; intro Hs; cbn [insert_by].
    - constructor; constructor.
    - inversion Hs as [|? ? Hs' Hall]; subst.
      destruct (N.leb_spec (key x) (key y)) as [Hle|Hgt].
      + constructor; [exact Hs|]. constructor; [exact Hle|].
        eapply Forall_impl; [|exact Hall]. unfold key_le. intros z Hz. lia.
      + constructor; [apply IH; exact Hs'|].
        apply (Permutation_Forall (Permutation_sym (insert_by_perm x ys))).
        constructor; [unfold key_le; lia | exact Hall].
  Qed.

  Lemma sort_by_sorted (l : list A) : StronglySorted key_le (sort_by key l).
  Proof.
    induction l as [|x xs IH]; cbn [sort_by fold_right]; [constructor|]. apply insert_by_sorted, IH.
  Qed.
End SortBy.

Lemma StronglySorted_map_le {A} (key : A -> N) (l : list A) :
  StronglySorted (key_le key) l -> StronglySorted N.le (map key l).
Proof.
  induction 1 as [|x xs Hs IH Hall]; cbn [map]; constructor; [exact IH|].
  apply Forall_map. exact Hall.
Qed.

Lemma lookup_idx_in {A} (i : N) (a : A) (l : list (N * A)) :
  NoDup (map fst l) -> In (i, a) l -> lookup_idx i l = Some a.
Proof.
  unfold lookup_idx. induction l as [|[j b] l IH]; intros ND Hin; [destruct Hin|].
  cbn [find fst]. cbn [map fst] in ND. inversion ND as [|? ? Hnotin ND']; subst.
  destruct Hin as [E|Hin].
  - inversion E; subst. rewrite N.eqb_refl. reflexivity.
  - destruct (N.eqb_spec j i) as [->|Hne].
    + exfalso. apply Hnotin. apply in_map_iff. exists (i, a). split; [reflexivity | exact Hin].
    + apply IH; assumption.
Qed.

Lemma lookup_idx_some {A} (i : N) (a : A) (l : list (N * A)) : lookup_idx i l = Some a -> In (i, a) l.
Proof.
  unfold lookup_idx. destruct (find (fun p => fst p =? i) l) as [[j b]|] eqn:F; [|discriminate].
  intro E. inversion E; subst. apply find_some in F. destruct F as [Hin Hj]. cbn [fst] in Hj.
  apply N.eqb_eq in Hj. subst. exact Hin.
Qed.

Lemma enumerate_from_fst_ge {A} (l : list A) : forall i p, In p (enumerate_from i l) -> i <= fst p.
Proof.
  induction l as [|x xs IH]; intros i p Hin; [destruct Hin|]. cbn [enumerate_from] in Hin.
  destruct Hin as [<-|Hin]; [cbn; lia|]. apply IH in Hin. lia.
Qed.

Lemma enumerate_from_nodup {A} (l : list A) : forall i, NoDup (map fst (enumerate_from i l)).
Proof.
  induction l as [|x xs IH]; intro i; cbn [enumerate_from map fst]; constructor; [|apply IH].
  intro Hin. apply in_map_iff in Hin. destruct Hin as [p [Hp Hin]]. apply enumerate_from_fst_ge in Hin. lia.
Qed.

Lemma enumerate_from_nth {A} (d : A) (l : list A) : forall i k, (k < length l)%nat ->
  In (i + N.of_nat k, nth k l d) (enumerate_from i l).
Proof.
  induction l as [|x xs IH]; intros i k Hk; [cbn in Hk; lia|]. cbn [enumerate_from].
  destruct k as [|k]; [left; f_equal; lia|]. right. cbn [nth].
  replace (i + N.of_nat (S k)) with ((i + 1) + N.of_nat k) by lia. apply IH. cbn in Hk. lia.
Qed.

Lemma combine_map_fst_g {A B C} (g : B -> C) (l : list (A * B)) :
  combine (map fst l) (map g (map snd l)) = map (fun p => (fst p, g (snd p))) l.
Proof. induction l as [|[a b] l IH]; cbn; [reflexivity | rewrite IH; reflexivity]. Qed.

Lemma map_nth_seq {A B} (f : A -> B) (d : A) (l : list A) :
  map (fun k => f (nth k l d)) (seq 0 (length l)) = map f l.
Proof.
  induction l as [|x xs IH]; [reflexivity|]. cbn [length seq map nth]. f_equal.
  rewrite <- seq_shift, map_map. exact IH.
Qed.

(* the un-sorting step returns, at index i, the value computed for the i-th requested offset *)
Lemma unsort_correct (g : N -> N) (offs : list N) :
  let sp := sort_by snd (enumerate_from 0 offs) in
  map (fun i => match lookup_idx i (combine (map fst sp) (map g (map snd sp))) with Some a => a | None => 0 end)
      (N_range (N.of_nat (length offs))) = map g offs.
Proof.
  intro sp. rewrite combine_map_fst_g.
  unfold N_range. rewrite Nat2N.id, map_map, <- (map_nth_seq g 0 offs).
  apply map_ext_in. intros k Hk. apply in_seq in Hk.
  rewrite (lookup_idx_in (N.of_nat k) (g (nth k offs 0))); [reflexivity| |].
  - rewrite map_map. cbn [fst]. change (fun x : N * N => fst x) with (@fst N N).
    apply (Permutation_NoDup (l := map fst (enumerate_from 0 offs))).
    + apply Permutation_map, Permutation_sym, sort_by_perm.
    + apply enumerate_from_nodup.
  - apply in_map_iff. exists (N.of_nat k, nth k offs 0). split; [reflexivity|].
    apply (Permutation_in (l := enumerate_from 0 offs)); [apply Permutation_sym, sort_by_perm|].
    replace (N.of_nat k) with (0 + N.of_nat k) by lia. apply enumerate_from_nth. lia.
Qed.

Lemma enumerate_from_snd {A} (l : list A) : forall i, map snd (enumerate_from i l) = l.
Proof. induction l as [|x xs IH]; intro i; cbn; [reflexivity | rewrite IH; reflexivity]. Qed.

(* ================= B. fragments, scan, and the walk ================= *)
Lemma dv_nodup_NoDup (D : dvec) : dv_nodup D = true -> NoDup D.
Proof.
  induction D as [|x xs IH]; intro H; [constructor|]. cbn in H. apply andb_true_iff in H. destruct H as [H1 H2].
  constructor; [|apply IH; exact H2]. intro Hin. apply dv_contains_In in Hin. unfold dv_contains in Hin.
  rewrite Hin in H1. discriminate.
Qed.

Record frag_wfP (f : frag) : Prop := {
  wf_id : f_id f < two32 - 1;
  wf_phys : f_phys f < two32;
  wf_nodup : NoDup (f_dv f);
  wf_inside : forall d, In d (f_dv f) -> d < f_phys f }.

Lemma frag_wf_P (f : frag) : frag_wf f = true -> frag_wfP f.
Proof.
  unfold frag_wf. intro H. repeat (apply andb_true_iff in H; destruct H as [H ?]).
  constructor.
  - apply N.ltb_lt. assumption.
  - apply N.ltb_lt. assumption.
  - apply dv_nodup_NoDup. assumption.
  - intros d Hd. match goal with Hf : forallb _ _ = true |- _ => rewrite forallb_forall in Hf; apply Hf in Hd end.
    apply N.ltb_lt. exact Hd.
Qed.

Definition f_rows (f : frag) : N := f_phys f - dv_len (f_dv f).

Lemma card_below_all (D : dvec) (n : N) : (forall d, In d D -> d < n) -> dv_card_below D n = dv_len D.
Proof.
  intro H. unfold dv_card_below, dv_len. f_equal.
  induction D as [|x xs IH]; [reflexivity|]. cbn [filter].
  destruct (N.ltb_spec x n) as [_|Hge]; [|specialize (H x (or_introl eq_refl)); lia].
  cbn [length]. f_equal. apply IH. intros d Hd. apply H. right. exact Hd.
Qed.

Lemma live_below_phys (f : frag) : frag_wfP f -> live_below (f_dv f) (f_phys f) = f_rows f /\ dv_len (f_dv f) <= f_phys f.
Proof.
  intros [_ _ ND Hin]. pose proof (live_plus_card (f_dv f) (f_phys f) ND) as E.
  rewrite (card_below_all _ _ Hin) in E. unfold f_rows. lia.
Qed.

Lemma f_count_rows_ok (f : frag) : frag_wfP f -> f_count_rows f = Ok (f_rows f).
Proof.
  intro W. destruct (live_below_phys f W) as [_ Hle]. unfold f_count_rows, f_rows.
  destruct (N.ltb_spec (f_phys f) (dv_len (f_dv f))); [lia | reflexivity].
Qed.

Lemma frag_scan_length (f : frag) : frag_wfP f -> N.of_nat (length (frag_scan f)) = f_rows f.
Proof.
  intro W. destruct (live_below_phys f W) as [E _]. unfold frag_scan. rewrite map_length.
  unfold f_live. exact E.
Qed.

(* the o-th element of the live positions below n *)
Lemma nth_live_positions (D : dvec) (d : N) : forall n o a,
  is_nth_live D o a -> a < n -> nth (N.to_nat o) (filter (dv_live D) (N_range n)) d = a.
Proof.
  induction n as [|n IH] using N.peano_ind; intros o a Hans Han; [lia|].
  rewrite <- N.add_1_r, N_range_succ, filter_app.
  destruct Hans as [Ha La].
  destruct (N.eq_dec a n) as [->|Hne].
  - rewrite app_nth2.
    + assert (length (filter (dv_live D) (N_range n)) = N.to_nat o) as ->.
      { unfold live_below in La. lia. }
      rewrite Nat.sub_diag. cbn [filter]. unfold dv_live. rewrite Ha. reflexivity.
    + unfold live_below in La. lia.
  - rewrite app_nth1.
    + apply IH; [split; assumption | lia].
    + pose proof (live_below_mono D (a + 1) n ltac:(lia)) as M. rewrite live_below_succ, Ha in M.
      unfold live_below in M at 2. lia.
Qed.

Lemma nth_live_lt (D : dvec) (n o a : N) : is_nth_live D o a -> o < live_below D n -> a < n.
Proof.
  intros [Ha La] H. destruct (N.lt_ge_cases a n) as [C|C]; [exact C | exfalso].
  pose proof (live_below_mono D n a C). lia.
Qed.

Lemma frag_scan_nth (f : frag) (o a : N) : frag_wfP f -> is_nth_live (f_dv f) o a -> o < f_rows f ->
  a < f_phys f /\ nth (N.to_nat o) (frag_scan f) TOMBSTONE_ROW = mk_addr (f_id f) a.
Proof.
  intros W Hans Ho. destruct (live_below_phys f W) as [E _].
  assert (a < f_phys f) as Hlt by (apply (nth_live_lt (f_dv f) _ o); [exact Hans | lia]).
  split; [exact Hlt|]. unfold frag_scan.
  rewrite (nth_indep _ TOMBSTONE_ROW (mk_addr (f_id f) 0)).
  - rewrite map_nth. f_equal. apply nth_live_positions; assumption.
  - rewrite map_length. pose proof (frag_scan_length f W) as L. unfold frag_scan in L. rewrite map_length in L.
    unfold f_live in *. lia.
Qed.

Lemma scan_cons (f : frag) (frs : list frag) : scan (f :: frs) = frag_scan f ++ scan frs.
Proof. reflexivity. Qed.

Lemma scan_app (l1 l2 : list frag) : scan (l1 ++ l2) = scan l1 ++ scan l2.
Proof. unfold scan. apply flat_map_app. Qed.

Definition scan_len (frs : list frag) : N := N.of_nat (length (scan frs)).

Lemma scan_len_cons (f : frag) (frs : list frag) : frag_wfP f -> scan_len (f :: frs) = f_rows f + scan_len frs.
Proof.
  intro W. unfold scan_len. rewrite scan_cons, app_length, <- (frag_scan_length f W). lia.
Qed.

(* mapper invariant of the current fragment, for local offsets >= lo *)
Definition head_inv (frs : list frag) (st : om_state) (lo : N) : Prop :=
  match frs with
  | f :: _ => match f_del f with Some D => om_inv D st lo | None => True end
  | [] => True
  end.

Lemma skip_frags_spec : forall (frs : list frag) (fo : N) (st : om_state) (so : N),
  Forall frag_wfP frs -> fo <= so -> fo + scan_len frs < two64 ->
  exists skipped frs' st',
    skip_frags frs fo st so = Ok (frs', fo + scan_len skipped, st') /\
    frs = skipped ++ frs' /\
    fo + scan_len skipped <= so /\
    (skipped = [] -> st' = st) /\ (skipped <> [] -> st' = om_new) /\
    match frs' with [] => True | f :: _ => so < fo + scan_len skipped + f_rows f end.
Proof.
  induction frs as [|f rest IH]; intros fo st so Hwf Hfo Hov.
  - exists [], [], st. cbn [skip_frags app]. unfold scan_len. cbn. rewrite N.add_0_r.
    repeat split; try reflexivity; try lia; intro; congruence.
  - inversion Hwf as [|? ? W Hwf']; subst. cbn [skip_frags]. rewrite (f_count_rows_ok f W).
    rewrite (scan_len_cons f rest W) in Hov.
    destruct (N.leb_spec two64 (fo + f_rows f)); [lia|].
    destruct (N.leb_spec (fo + f_rows f) so) as [Hskip|Hstay].
    + destruct (IH (fo + f_rows f) om_new so Hwf' Hskip ltac:(lia)) as [sk [frs' [st' [E [Hsplit [Hle [Hsame [Hnew Hhead]]]]]]]].
      exists (f :: sk), frs', st'.
      assert (fo + scan_len (f :: sk) = fo + f_rows f + scan_len sk) as Elen by (rewrite (scan_len_cons f sk W); lia).
      rewrite Elen. repeat split.
      * exact E.
      * cbn [app]. f_equal. exact Hsplit.
      * exact Hle.
      * intro C; discriminate C.
      * intros _. destruct sk as [|s sk']; [apply Hsame; reflexivity | apply Hnew; discriminate].
      * exact Hhead.
    + exists [], (f :: rest), st. change (scan_len []) with 0. rewrite !N.add_0_r.
      repeat split; try reflexivity; try lia. intro C; congruence.
Qed.
