(* Model of rust/lance-core/src/utils/deletion.rs: DeletionVector queries used by OffsetMapper and
   OffsetMapper::map_offset itself (with its persistent state).  Executable definitions only. *)
From LanceV Require Import Common.Base.
Local Open Scope N_scope.

(* A deletion vector (NoDeletions / Set / Bitmap all denote a finite set of u32 offsets) is a list
   of DISTINCT local row offsets, in any order.  The three Rust variants differ only in
   representation; the harness feeds Set and Bitmap variants to the same checker. *)
Definition dvec := list N.

(* DeletionVector::len *)
Definition dv_len (D : dvec) : N := N.of_nat (length D).
(* DeletionVector::contains *)
Definition dv_contains (D : dvec) (i : N) : bool := existsb (N.eqb i) D.
(* DeletionVector::range_cardinality(0..hi) *)
Definition dv_card_below (D : dvec) (hi : N) : N := N.of_nat (length (filter (fun d => d <? hi) D)).

(* ---- OffsetMapper ---- *)
Record om_state := { om_left : N; om_last_diff : N }.
(* OffsetMapper::new *)
Definition om_new : om_state := {| om_left := 0; om_last_diff := 0 |}.

(* The `loop { .. }` of map_offset.  Arguments are the loop-carried variables (self.left, right, mid);
   returns (mid, self.left) at the `return`.  All variables are u32: `Panic` is a debug-build
   arithmetic overflow / the assert_ne!.  The Rust loop has no bound; [fuel] exhausted is reported
   as [Err] (the Rust function has no Err return, so Err here means "did not terminate within
   fuel iterations"); the theorems exclude it. *)
Fixpoint map_offset_loop (fuel : nat) (D : dvec) (offset left right mid : N) : outcome (N * N) :=
  match fuel with
  | O => Err
  | S fuel' =>
    (* self.dv.range_cardinality(0..(mid + 1)) as u32 *)
    if two32 <=? mid + 1 then Panic else
    let deleted_in_range := wrap32 (dv_card_below D (mid + 1)) in
    (* offset + deleted_in_range *)
    if two32 <=? offset + deleted_in_range then Panic else
    let go_lower :=
      (* Greater | Equal (deleted):  right = mid; mid = left + (right - left) / 2 *)
      let right' := mid in
      if right' <? left then Panic else
      map_offset_loop fuel' D offset left right' (left + (right' - left) / 2) in
    match mid ?= offset + deleted_in_range with
    | Eq =>
      if negb (dv_contains D mid) then
        (* self.last_diff = mid - offset (cannot underflow: mid = offset + deleted_in_range) *)
        Ok (mid, left)
      else go_lower
    | Lt =>
      (* assert_ne!(self.left, mid + 1); self.left = mid + 1; mid = left + (right - left) / 2 *)
      if left =? mid + 1 then Panic else
      let left' := mid + 1 in
      if right <? left' then Panic else
      map_offset_loop fuel' D offset left' right (left' + (right - left') / 2)
    | Gt => go_lower
    end
  end.

(* OffsetMapper::map_offset: returns (result, new state). *)
Definition map_offset_fuel (fuel : nat) (D : dvec) (st : om_state) (offset : N) : outcome (N * om_state) :=
  (* let mut mid = offset + self.last_diff; *)
  if two32 <=? offset + om_last_diff st then Panic else
  let mid := offset + om_last_diff st in
  (* let mut right = offset + self.dv.len() as u32; *)
  if two32 <=? offset + wrap32 (dv_len D) then Panic else
  let right := offset + wrap32 (dv_len D) in
  match map_offset_loop fuel D offset (om_left st) right mid with
  | Ok (m, l) => Ok (m, {| om_left := l; om_last_diff := m - offset |})
  | Err => Err
  | Panic => Panic
  end.

(* One first probe plus a bisection of a window narrower than 2^32 needs at most 34 iterations
   (Proofs_Deletion.map_offset_correct); 40 leaves slack. *)
Definition MAP_FUEL : nat := 40%nat.
Definition map_offset : dvec -> om_state -> N -> outcome (N * om_state) := map_offset_fuel MAP_FUEL.

(* A mapper used for a sequence of calls (the only way the Rust type is used). *)
Fixpoint map_offsets_from (D : dvec) (st : om_state) (offs : list N) : outcome (list N) :=
  match offs with
  | [] => Ok []
  | o :: rest =>
    match map_offset D st o with
    | Ok (p, st') =>
      match map_offsets_from D st' rest with
      | Ok ps => Ok (p :: ps)
      | Err => Err
      | Panic => Panic
      end
    | Err => Err
    | Panic => Panic
    end
  end.
Definition map_offsets (D : dvec) (offs : list N) : outcome (list N) := map_offsets_from D om_new offs.

(* ---- specification vocabulary ---- *)
(* [0; 1; ..; n-1] *)
Definition N_range (n : N) : list N := map N.of_nat (seq 0 (N.to_nat n)).
Definition dv_live (D : dvec) (p : N) : bool := negb (dv_contains D p).
(* number of non-deleted positions strictly below p *)
Definition live_below (D : dvec) (p : N) : N := N.of_nat (length (filter (dv_live D) (N_range p))).
(* p is the position of the o-th (0-based) non-deleted row *)
Definition is_nth_live (D : dvec) (o p : N) : Prop := dv_contains D p = false /\ live_below D p = o.

(* executable reference: walk the positions upwards *)
Fixpoint nth_live_from (fuel : nat) (D : dvec) (p o : N) : option N :=
  match fuel with
  | O => None
  | S f => if dv_contains D p then nth_live_from f D (p + 1) o
           else if o =? 0 then Some p else nth_live_from f D (p + 1) (o - 1)
  end.
Definition nth_live_ref (D : dvec) (o : N) : option N :=
  nth_live_from (S (N.to_nat o + length D)) D 0 o.

(* ---- correspondence checkers ---- *)
(* stream "map_offsets": a fresh OffsetMapper over D, called on offs left to right; the recorded
   implementation output is the list of results, or Panic if any call panicked. *)
Definition chk_map_offsets (i : list N * list N) (out : outcome (list N)) : bool :=
  outcome_eqb (list_eqb N.eqb) (map_offsets (fst i) (snd i)) out.

(* stream "dv_queries": DeletionVector::len and ::contains for each query q (range_cardinality is
   private; it is exercised through map_offset) *)
Definition chk_dv_queries (i : list N * list N) (out : N * list bool) : bool :=
  let '(D, qs) := i in
  (dv_len D =? fst out) && list_eqb Bool.eqb (map (dv_contains D) qs) (snd out).
