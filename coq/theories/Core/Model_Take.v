(* Model of rust/lance/src/dataset/take.rs: row_offsets_to_row_addresses, check_row_addrs,
   do_take_rows (contiguous / sorted / re-mapping paths), take, take_scan, TakeBuilder::get_row_addrs.
   A table is the list of its fragments (id, physical rows, deletion vector); a row is identified by
   its row address, so "which rows come back, in which order" is a list of addresses.
   Executable definitions only. *)
From LanceV Require Import Common.Base Core.Model_Deletion.
Local Open Scope N_scope.

(* ---- fragments and row addresses ---- *)
(* f_del = None: the fragment has no deletion file (get_deletion_vector() = None). *)
Record frag := { f_id : N; f_phys : N; f_del : option dvec }.

(* RowAddress::TOMBSTONE_ROW *)
Definition TOMBSTONE_ROW : N := two64 - 1.
(* RowAddress::new_from_parts(id as u32, off): ((id as u32 as u64) << 32) | off *)
Definition mk_addr (fid off : N) : N := N.lor (N.shiftl (wrap32 fid) 32) off.
(* addr >> 32   and   addr as u32 *)
Definition addr_frag (a : N) : N := N.shiftr a 32.
Definition addr_off (a : N) : N := wrap32 a.

Definition f_dv (f : frag) : dvec := match f_del f with Some D => D | None => [] end.
Definition f_live (f : frag) (off : N) : bool := dv_live (f_dv f) off.
(* FileFragment::count_rows(None) = physical_rows - count_deletions   (usize subtraction).
   count_deletions is the manifest's num_deleted_rows when present, else dv.len(); the two agree
   on every manifest the writer produces (harness records the deletion vector itself). *)
Definition f_count_rows (f : frag) : outcome N :=
  let ndel := dv_len (f_dv f) in
  if f_phys f <? ndel then Panic else Ok (f_phys f - ndel).

(* ---- permutation::sort / apply_slice / apply_inv_slice_in_place ---- *)
(* stable insertion sort by a key *)
Fixpoint insert_by {A} (key : A -> N) (x : A) (l : list A) : list A :=
  match l with
  | [] => [x]
  | y :: ys => if key x <=? key y then x :: l else y :: insert_by key x ys
  end.
Definition sort_by {A} (key : A -> N) (l : list A) : list A := fold_right (insert_by key) [] l.

Fixpoint enumerate_from {A} (i : N) (l : list A) : list (N * A) :=
  match l with
  | [] => []
  | x :: xs => (i, x) :: enumerate_from (i + 1) xs
  end.
Definition lookup_idx {A} (i : N) (l : list (N * A)) : option A :=
  match find (fun p => fst p =? i) l with Some p => Some (snd p) | None => None end.

(* ---- row_offsets_to_row_addresses ---- *)
(* the inner `while cur_frag.is_some() && sorted_offset >= frag_offset + cur_frag_rows` loop.
   State: remaining fragments (head = cur_frag, [] = None), frag_offset, the OffsetMapper state of
   cur_frag (a fresh mapper whenever cur_frag advances). *)
Fixpoint skip_frags (frs : list frag) (frag_offset : N) (st : om_state) (so : N)
  : outcome (list frag * N * om_state) :=
  match frs with
  | [] => Ok ([], frag_offset, st)
  | f :: rest =>
    match f_count_rows f with
    | Ok rows =>
      if two64 <=? frag_offset + rows then Panic else
      if frag_offset + rows <=? so then skip_frags rest (frag_offset + rows) om_new so
      else Ok (frs, frag_offset, st)
    | Err => Err
    | Panic => Panic
    end
  end.

(* the `for sorted_offset in sorted_offsets` loop *)
Fixpoint walk_offsets (frs : list frag) (frag_offset : N) (st : om_state) (sorted : list N)
  : outcome (list N) :=
  match sorted with
  | [] => Ok []
  | so :: more =>
    match skip_frags frs frag_offset st so with
    | Ok (frs', fo', st') =>
      match frs' with
      | [] =>
        match walk_offsets frs' fo' st' more with
        | Ok r => Ok (TOMBSTONE_ROW :: r) | Err => Err | Panic => Panic
        end
      | f :: _ =>
        (* (sorted_offset - frag_offset) as u32 *)
        if so <? fo' then Panic else
        let local := wrap32 (so - fo') in
        match f_del f with
        | Some D =>
          match map_offset D st' local with
          | Ok (p, st'') =>
            match walk_offsets frs' fo' st'' more with
            | Ok r => Ok (mk_addr (f_id f) p :: r) | Err => Err | Panic => Panic
            end
          | Err => Err
          | Panic => Panic
          end
        | None =>
          match walk_offsets frs' fo' st' more with
          | Ok r => Ok (mk_addr (f_id f) local :: r) | Err => Err | Panic => Panic
          end
        end
      end
    | Err => Err
    | Panic => Panic
    end
  end.

Definition row_offsets_to_row_addresses (frs : list frag) (offs : list N) : outcome (list N) :=
  (* perm = permutation::sort(row_indices): stable sort of the indices by offset *)
  let sp := sort_by snd (enumerate_from 0 offs) in
  match walk_offsets frs 0 om_new (map snd sp) with
  | Ok addrs =>
    (* perm.apply_inv_slice_in_place(&mut addrs): out[perm[k]] = addrs[k] *)
    let placed := combine (map fst sp) addrs in
    Ok (map (fun i => match lookup_idx i placed with Some a => a | None => 0 end)
            (N_range (N.of_nat (length offs))))
  | Err => Err
  | Panic => Panic
  end.

(* ---- FileFragment reads (lance file reader behaviour, assumed; rows named by local offset) ----
   Out-of-bounds offsets are an error; deleted rows are silently skipped. *)
Definition N_span (lo hi : N) : list N := map (N.add lo) (N_range (hi - lo)).
(* FragmentReader::legacy_read_range_as_batch(lo..hi) *)
Definition frag_read_range (f : frag) (lo hi : N) : outcome (list N) :=
  if f_phys f <? hi then Err else Ok (filter (f_live f) (N_span lo hi)).
(* FileFragment::row_ids_contiguous *)
Fixpoint contiguous_from (last : N) (l : list N) : bool :=
  match l with
  | [] => true
  | x :: xs => (x =? last + 1) && contiguous_from x xs
  end.
Definition row_ids_contiguous (l : list N) : bool :=
  match l with [] => false | x :: xs => contiguous_from x xs end.
(* FileFragment::take_rows(row_offsets) *)
Definition frag_take_rows (f : frag) (offs : list N) : outcome (list N) :=
  if (1 <? N.of_nat (length offs)) && row_ids_contiguous offs then
    frag_read_range f (hd 0 offs) (last offs 0 + 1)
  else if existsb (fun o => f_phys f <=? o) offs then Err
  else Ok (filter (f_live f) offs).

(* Dataset::get_fragment *)
Definition find_frag (frs : list frag) (id : N) : option frag := find (fun f => f_id f =? id) frs.

(* ---- check_row_addrs ---- *)
Fixpoint check_row_addrs_loop (last first_frag : N) (rest : list N) (sorted contiguous : bool)
  : outcome (bool * bool) :=
  match rest with
  | [] => Ok (sorted, contiguous)
  | a :: more =>
    (* contiguous &= (last_offset.checked_add(1) == Some of addr)   (repo commit 33efb4f; before it
       `last_offset + 1` overflowed when last_offset was the tombstone u64::MAX).
       The function cannot fail any more; the outcome type is kept so that callers read the same. *)
    check_row_addrs_loop a first_frag more (sorted && (last <? a))
      (contiguous && ((last + 1 <? two64) && (a =? last + 1)) && (addr_frag a =? first_frag))
  end.
Definition check_row_addrs (addrs : list N) : outcome (bool * bool) :=
  match addrs with
  | [] => Ok (true, true)
  | a :: rest => check_row_addrs_loop a (addr_frag a) rest true true
  end.

(* consecutive runs of equal fragment id: [(fragment id, local offsets)] *)
Fixpoint group_runs (l : list N) : list (N * list N) :=
  match l with
  | [] => []
  | a :: rest =>
    match group_runs rest with
    | (fid, offs) :: gs =>
      if addr_frag a =? fid then (fid, addr_off a :: offs) :: gs
      else (addr_frag a, [addr_off a]) :: (fid, offs) :: gs
    | [] => [(addr_frag a, [addr_off a])]
    end
  end.

(* Vec::dedup on a sorted vector *)
Fixpoint dedup_adj (l : list N) : list N :=
  match l with
  | [] => []
  | x :: xs => match xs with
               | y :: _ => if x =? y then dedup_adj xs else x :: dedup_adj xs
               | [] => [x]
               end
  end.

Definition outcome_map {A B} (g : A -> B) (x : outcome A) : outcome B :=
  match x with Ok a => Ok (g a) | Err => Err | Panic => Panic end.

(* try_collect over the per-fragment takes of the sorted path *)
Fixpoint take_groups (frs : list frag) (gs : list (N * list N)) : outcome (list N) :=
  match gs with
  | [] => Ok []
  | (fid, offs) :: more =>
    match find_frag frs fid with
    | None => Err
    | Some f =>
      match frag_take_rows f offs with
      | Ok rows =>
        match take_groups frs more with
        | Ok r => Ok (map (mk_addr (f_id f)) rows ++ r) | Err => Err | Panic => Panic
        end
      | Err => Err
      | Panic => Panic
      end
    end
  end.

(* slow path: dataset fragments in manifest order, each with its group if any.
   Returns the list of batches (one per fragment that had a group). *)
Fixpoint take_per_fragment (all : list frag) (groups : list (N * list N)) : outcome (list (list N)) :=
  match all with
  | [] => Ok []
  | f :: more =>
    match lookup_idx (wrap32 (f_id f)) groups with
    | None => take_per_fragment more groups
    | Some offs =>
      match frag_take_rows f offs with
      | Ok rows =>
        match take_per_fragment more groups with
        | Ok r => Ok (map (mk_addr (f_id f)) rows :: r) | Err => Err | Panic => Panic
        end
      | Err => Err
      | Panic => Panic
      end
    end
  end.

(* do_take_rows on a non-empty address list; with_row_address = builder.with_row_address *)
Definition do_take_rows (frs : list frag) (row_addrs : list N) (with_row_address : bool)
  : outcome (list N) :=
  match row_addrs with
  | [] => Ok []
  | start :: _ =>
    match check_row_addrs row_addrs with
    | Err => Err
    | Panic => Panic
    | Ok (sorted, contiguous) =>
      let batch : outcome (list N) :=
        if contiguous then
          let fragment_id := addr_frag start in
          let range_start := addr_off start in
          let range_end := addr_off (last row_addrs 0) in
          match find_frag frs fragment_id with
          | None => Err
          | Some f => outcome_map (map (mk_addr (f_id f))) (frag_read_range f range_start (range_end + 1))
          end
        else if sorted then take_groups frs (group_runs row_addrs)
        else
          let sorted_row_addrs := dedup_adj (sort_by (fun a => a) row_addrs) in
          match take_per_fragment frs (group_runs sorted_row_addrs) with
          | Err => Err
          | Panic => Panic
          | Ok batches =>
            match batches with
            | [] => Panic   (* batches.pop().unwrap() *)
            | _ =>
              let returned := concat batches in
              let remapped := filter (fun o => existsb (N.eqb o) returned) row_addrs in
              (* debug_assert!(remapping_index.len() >= one_batch.num_rows()) *)
              if N.of_nat (length remapped) <? N.of_nat (length returned) then Panic else Ok remapped
            end
          end in
      match batch with
      | Ok rows =>
        if with_row_address && negb (N.of_nat (length rows) =? N.of_nat (length row_addrs)) then Err
        else Ok rows
      | Err => Err
      | Panic => Panic
      end
    end
  end.

(* take_rows(builder) for a builder made from addresses *)
Definition take_rows_by_addr (frs : list frag) (addrs : list N) (with_row_address : bool) : outcome (list N) :=
  do_take_rows frs addrs with_row_address.

(* TakeBuilder::get_row_addrs: with a row id index (stable row ids) ids are looked up and unknown
   ids dropped; without, ids are addresses.  The index is C34's object; here it is a function. *)
Definition get_row_addrs (idx : option (N -> option N)) (ids : list N) : list N :=
  match idx with
  | Some get => flat_map (fun id => match get id with Some a => [a] | None => [] end) ids
  | None => ids
  end.
Definition take_rows_by_id (idx : option (N -> option N)) (frs : list frag) (ids : list N)
  (with_row_address : bool) : outcome (list N) :=
  do_take_rows frs (get_row_addrs idx ids) with_row_address.

(* take(dataset, offsets, projection) *)
Definition take (frs : list frag) (offs : list N) : outcome (list N) :=
  match offs with
  | [] => Ok []
  | _ =>
    match row_offsets_to_row_addresses frs offs with
    | Ok addrs => take_rows_by_addr frs addrs false
    | Err => Err
    | Panic => Panic
    end
  end.

(* take_scan: one take per range, batches in range order *)
Definition take_scan (frs : list frag) (ranges : list (N * N)) : list (outcome (list N)) :=
  map (fun r => take frs (N_span (fst r) (snd r))) ranges.

(* ---- specification vocabulary ---- *)
(* what a full scan yields: fragments in manifest order, live rows in physical order *)
Definition frag_scan (f : frag) : list N := map (mk_addr (f_id f)) (filter (f_live f) (N_range (f_phys f))).
Definition scan (frs : list frag) : list N := flat_map frag_scan frs.
(* the row an address denotes exists and is not deleted *)
Definition addr_live (frs : list frag) (a : N) : bool :=
  match find_frag frs (addr_frag a) with
  | Some f => (addr_off a <? f_phys f) && f_live f (addr_off a)
  | None => false
  end.
(* the address names a physical slot of some fragment *)
Definition addr_in_bounds (frs : list frag) (a : N) : bool :=
  match find_frag frs (addr_frag a) with
  | Some f => addr_off a <? f_phys f
  | None => false
  end.

(* number of rows a scan yields; the row at logical offset o (tombstone past the end) *)
Definition scan_len (frs : list frag) : N := N.of_nat (length (scan frs)).
Definition at_offset (frs : list frag) (o : N) : N := nth (N.to_nat o) (scan frs) TOMBSTONE_ROW.
Definition in_range (frs : list frag) (o : N) : bool := o <? scan_len frs.
(* the rows a request by offsets denotes: the scan rows at the in-range offsets, in request order,
   duplicates kept *)
Definition expected_rows (frs : list frag) (offs : list N) : list N :=
  map (at_offset frs) (filter (in_range frs) offs).
(* the property for take(offsets): exactly those rows, or an error that is due to an out-of-range offset *)
Definition take_agrees_with_scan (frs : list frag) (offs : list N) : Prop :=
  take frs offs = Ok (expected_rows frs offs) \/
  (take frs offs = Err /\ existsb (fun o => negb (in_range frs o)) offs = true).
(* known-finding class (what is left after repo commit 33efb4f repaired the `last_offset + 1`
   overflow of check_row_addrs): TWO OR MORE offsets are requested and ALL of them are out of range.
   All addresses are then the tombstone u64::MAX: not sorted, not contiguous, so the re-mapping path
   runs, no fragment owns the address, `batches` is empty and `batches.pop().unwrap()` panics. *)
Definition Known_C15_all_offsets_oob (frs : list frag) (offs : list N) : bool :=
  (2 <=? N.of_nat (length offs)) && forallb (fun o => negb (in_range frs o)) offs.

(* well-formed fragment: u32 ids and sizes; deletions distinct and inside the fragment *)
Definition dv_nodup (D : dvec) : bool :=
  (fix go (l : list N) := match l with [] => true | x :: xs => negb (existsb (N.eqb x) xs) && go xs end) D.
Definition frag_wf (f : frag) : bool :=
  (f_id f <? two32 - 1) && (f_phys f <? two32) && dv_nodup (f_dv f) && forallb (fun d => d <? f_phys f) (f_dv f).
Definition frags_wf (frs : list frag) : bool :=
  forallb frag_wf frs && dv_nodup (map f_id frs).

(* ---- correspondence checkers ---- *)
Definition mk_frag (t : N * N * option (list N)) : frag :=
  let '(id, phys, del) := t in {| f_id := id; f_phys := phys; f_del := del |}.
Definition frags_in := list (N * N * option (list N)).

(* stream "offs2addr": lance::dataset::verif_hooks::row_offsets_to_row_addresses on a real dataset *)
Definition chk_offs2addr (i : frags_in * list N) (out : outcome (list N)) : bool :=
  outcome_eqb (list_eqb N.eqb) (row_offsets_to_row_addresses (map mk_frag (fst i)) (snd i)) out.

(* stream "take_addr": Dataset::take_builder(addresses).with_row_address(b).execute() without stable
   row ids; output = addresses of the returned rows, in order *)
Definition chk_take_addr (i : frags_in * (list N * bool)) (out : outcome (list N)) : bool :=
  let '(frs, (addrs, wra)) := i in
  outcome_eqb (list_eqb N.eqb) (take_rows_by_id None (map mk_frag frs) addrs wra) out.

(* stream "take_off": Dataset::take(offsets); output = addresses of the returned rows *)
Definition chk_take_off (i : frags_in * list N) (out : outcome (list N)) : bool :=
  outcome_eqb (list_eqb N.eqb) (take (map mk_frag (fst i)) (snd i)) out.

(* stream "take_scan": Dataset::take_scan(ranges); output = per batch the addresses, or Err for the stream *)
Definition chk_take_scan (i : frags_in * list (N * N)) (out : outcome (list (list N))) : bool :=
  let res := take_scan (map mk_frag (fst i)) (snd i) in
  let all_ok := forallb (fun r => match r with Ok _ => true | _ => false end) res in
  let any_panic := existsb (fun r => match r with Panic => true | _ => false end) res in
  (* the harness issues at most one failing range, so "which failure surfaces first" is not at issue:
     a panicking take panics the stream (JoinError unwrap), an Err ends it with an error *)
  match out with
  | Ok batches => all_ok && list_eqb (list_eqb N.eqb) (flat_map (fun r => match r with Ok l => [l] | _ => [] end) res) batches
  | Err => negb all_ok && negb any_panic
  | Panic => any_panic
  end.

(* stream "scan": the _rowaddr column of an ordered full scan; also: every real table state satisfies
   the well-formedness hypothesis of the theorems (frags_wf) *)
Definition chk_scan (i : frags_in) (out : list N) : bool :=
  frags_wf (map mk_frag i) && list_eqb N.eqb (scan (map mk_frag i)) out.

(* stream "take_id": take_builder(row ids) on a table with stable row ids; the row id index is taken
   to be the (_rowid, _rowaddr) association the scan reports (RowIdIndex itself is C34's object) *)
Definition chk_take_id (i : frags_in * list (N * N) * (list N * bool)) (out : outcome (list N)) : bool :=
  let '(frs, pairs, (ids, wra)) := i in
  outcome_eqb (list_eqb N.eqb)
    (take_rows_by_id (Some (fun id => lookup_idx id pairs)) (map mk_frag frs) ids wra) out.
