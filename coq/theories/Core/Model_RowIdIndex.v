(* C34 - model of rust/lance-table/src/rowids/index.rs (RowIdIndex::new / get).
   Executable definitions only (+ chk_index).
   * A fragment is (fragment_id, row id sequence, deleted row offsets).  DeletionVector::contains is
     modelled by membership in the list of deleted offsets.
   * The RangeInclusiveMap is modelled by the list of final chunks in insertion order, looked up by
     "the first chunk whose range contains the id" (the chunks pushed by RowIdIndex::new have pairwise
     disjoint, ascending ranges - proved in Proofs_RowIdIndex - so insertion never splits or overwrites).
   * The debug_assert_eq!s inside prep_index_chunks are invariants of its own loop (they compare
     current_range with the min start / max end of current_overlap, which the loop maintains by
     construction) and are not modelled; the one in RowIdIndex::new ("Wrong range", relaxed to >= by ac0e2db) is modelled. *)
From LanceV Require Import Common.Base Core.Model_RowIds.
Local Open Scope N_scope.

Definition frag : Type := N * rseq * list N.
Definition chunk : Type := (N * N) * (seg * seg).     (* (first..=last, (row ids, addresses)) *)

Definition enumerate (l : list N) : list (N * N) := combine (map N.of_nat (seq 0 (length l))) l.

(* decompose_sequence *)
Fixpoint decompose_go (segs : rseq) (deleted : list N) (current_offset start_address : N) : outcome (list chunk) :=
  match segs with
  | [] => Ok []
  | sg :: rest =>
      let active := filter (fun p => negb (memN (current_offset + fst p) deleted)) (enumerate (seg_iter sg)) in
      let row_ids := map snd active in
      let addresses := map (fun p => start_address + fst p) active in
      do here <- (match active with
                  | [] => Ok []
                  | _ => do rs <- from_slice row_ids;
                         do ad <- from_slice addresses;
                         do cov <- seg_range rs;
                         match cov with None => Ok [] | Some c => Ok [(c, (rs, ad))] end
                  end);
      do more <- decompose_go rest deleted (current_offset + seg_len sg) (start_address + seg_len sg);
      Ok (here ++ more)
  end.
Definition decompose_sequence (f : frag) : outcome (list chunk) :=
  let '(fid, q, deleted) := f in decompose_go q deleted 0 (fid * two32).

Fixpoint decompose_all (frags : list frag) : outcome (list chunk) :=
  match frags with
  | [] => Ok []
  | f :: fs => do a <- decompose_sequence f; do b <- decompose_all fs; Ok (a ++ b)
  end.

Definition c_lo (c : chunk) : N := fst (fst c).
Definition c_hi (c : chunk) : N := snd (fst c).

(* chunks.sort_by_key(|(range, _)| u64::MAX - *range.start()) (stable), then popped from the back *)
Fixpoint insert_by {A} (key : A -> N) (x : A) (l : list A) : list A :=
  match l with [] => [x] | y :: ys => if key x <=? key y then x :: l else y :: insert_by key x ys end.
Definition stable_sort_by {A} (key : A -> N) (l : list A) : list A := fold_right (insert_by key) [] l.
Definition processing_order (chunks : list chunk) : list chunk :=
  rev (stable_sort_by (fun c => u64max - c_lo c) chunks).

Inductive raw :=
| NonOv (c : chunk)
| Ov (r : N * N) (cs : list chunk).
Definition raw_end (r : raw) : N := match r with NonOv c => c_hi c | Ov (_, hi) _ => hi end.

(* the while loop of prep_index_chunks; `out` is the output vector reversed (head = output.last()) *)
Fixpoint prep_go (chunks : list chunk) (out : list raw) (cur_range : N * N) (cur_overlap : list chunk)
  : outcome (list raw) :=
  match chunks with
  | [] => Ok (rev (match cur_overlap with [] => out | _ => Ov cur_range cur_overlap :: out end))
  | ch :: rest =>
      match cur_overlap with
      | [] =>
          match out with
          | [] => Panic                                   (* output.last().unwrap() *)
          | lastc :: out' =>
              if c_lo ch <=? raw_end lastc then
                match lastc with
                | NonOv c0 => prep_go rest out' (c_lo c0, N.max (c_hi ch) (c_hi c0)) [c0; ch]
                | Ov _ _ => Panic                         (* unreachable!() *)
                end
              else prep_go rest (NonOv ch :: out) cur_range cur_overlap
          end
      | _ =>
          if c_lo ch <=? snd cur_range then
            prep_go rest out (fst cur_range, N.max (c_hi ch) (snd cur_range)) (cur_overlap ++ [ch])
          else prep_go rest (NonOv ch :: Ov cur_range cur_overlap :: out) (0, 0) []
      end
  end.
Definition prep_index_chunks (chunks : list chunk) : outcome (list raw) :=
  match processing_order chunks with
  | [] => Ok []
  | first :: rest => prep_go rest [NonOv first] (0, 0) []
  end.

Definition chunk_len (c : chunk) : N := seg_len (fst (snd c)).
Definition sum_N (l : list N) : N := fold_left N.add l 0.

Definition merge_overlapping_chunks (cs : list chunk) : outcome chunk :=
  let values := flat_map (fun c => combine (seg_iter (fst (snd c))) (seg_iter (snd (snd c)))) cs in
  let sorted := stable_sort_by fst values in
  do rs <- from_slice (map fst sorted);
  do ad <- from_slice (map snd sorted);
  do r <- seg_range rs;
  match r with None => Panic | Some c => Ok (c, (rs, ad)) end.

Fixpoint finalize (raws : list raw) : outcome (list chunk) :=
  match raws with
  | [] => Ok []
  | NonOv c :: rest => do more <- finalize rest; Ok (c :: more)
  | Ov (lo, hi) cs :: rest =>
      (* debug_assert!(range.end() - range.start() + 1 >= sum of lens, "Wrong range ...") - relaxed by ac0e2db
         (was an equality, F18): the chunks need not tile the range *)
      if hi - lo + 1 <? sum_N (map chunk_len cs) then Panic
      else do m <- merge_overlapping_chunks cs; do more <- finalize rest; Ok (m :: more)
  end.

Definition index_new (frags : list frag) : outcome (list chunk) :=
  do chunks <- decompose_all frags;
  do raws <- prep_index_chunks chunks;
  finalize raws.

Definition index_get (idx : list chunk) (row_id : N) : option N :=
  match find (fun c => (c_lo c <=? row_id) && (row_id <=? c_hi c)) idx with
  | None => None
  | Some c => match seg_position (fst (snd c)) row_id with
              | None => None
              | Some pos => seg_get (snd (snd c)) pos
              end
  end.

(* ---------- correspondence ---------- *)
Definition frag_wf (f : frag) : bool := let '(fid, q, _) := f in (fid <? two32) && rseq_wf q.
Definition chk_index (i : list frag * list N) (o : outcome (list (option N))) : bool :=
  let '(frags, probes) := i in
  forallb frag_wf frags &&
  outcome_eqb (list_eqb (option_eqb N.eqb))
    (do idx <- index_new frags; Ok (map (index_get idx) probes)) o.

(* Rust unit test test_new_index *)
Example ut_index :
  let frags := [ (10, [SRange 0 10; SHoles 10 17 (EU16 12 [0; 3]); SSorted (EU16 20 [0; 5; 10])], []);
                 (20, [SBitmap 17 20 [true; false; true]; SArray (EU16 40 [0; 10; 20])], []) ] in
  (do idx <- index_new frags; Ok (map (index_get idx) [0; 15; 16; 17; 25; 40; 60; 61]))
  = Ok [Some (10 * two32); None; Some (10 * two32 + 14); Some (20 * two32); Some (10 * two32 + 16);
        Some (20 * two32 + 2); Some (20 * two32 + 4); None].
Proof. vm_compute. reflexivity. Qed.

(* F18 regression (repaired by ac0e2db): old fragment keeps {1,2,4,5,8}, the updated row carries id 7 into a
   new fragment; new succeeds through merge_overlapping_chunks and get is exact *)
Example ut_index_f18 :
  (do idx <- index_new [ (0, [SBitmap 1 9 [true; true; false; true; true; false; false; true]], []); (1, [SRange 7 8], []) ];
   Ok (map (index_get idx) [0; 1; 2; 3; 4; 5; 6; 7; 8; 9]))
  = Ok [None; Some 0; Some 1; None; Some 2; Some 3; None; Some two32; Some 4; None].
Proof. vm_compute. reflexivity. Qed.
