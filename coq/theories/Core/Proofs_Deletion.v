(* Proofs about Core/Model_Deletion.v: OffsetMapper::map_offset returns the position of the o-th
   non-deleted row, never panics, and terminates within 34 iterations, for every deletion set and
   every non-decreasing sequence of offsets (Appendix A of DESIGN.md). *)
From LanceV Require Import Common.Base Core.Model_Deletion.
From Coq Require Import Sorting.Sorted.
Local Open Scope N_scope.

(* the inputs of the Rust unit test test_map_offsets *)
Lemma rust_unit_tests :
  map_offsets [3; 5] [0; 1; 2; 3; 4; 5; 6] = Ok [0; 1; 2; 4; 6; 7; 8] /\
  map_offsets [0; 1; 2] [0; 1; 2; 3; 4; 5; 6] = Ok [3; 4; 5; 6; 7; 8; 9].
Proof. split; vm_compute; reflexivity. Qed.

(* ---------- lists ---------- *)
Lemma N_range_0 : N_range 0 = [].
Proof. reflexivity. Qed.

Lemma N_range_succ (n : N) : N_range (n + 1) = N_range n ++ [n].
Proof.
  unfold N_range. replace (N.to_nat (n + 1)) with (S (N.to_nat n)) by lia.
  rewrite seq_S, map_app. cbn [map Nat.add]. rewrite N2Nat.id. reflexivity.
Qed.

Lemma N_range_length (n : N) : length (N_range n) = N.to_nat n.
Proof. unfold N_range. rewrite map_length, seq_length. reflexivity. Qed.

Lemma in_N_range (n x : N) : In x (N_range n) <-> x < n.
Proof.
  unfold N_range. rewrite in_map_iff. split.
  - intros [k [Hk Hin]]. apply in_seq in Hin. lia.
  - intro H. exists (N.to_nat x). split; [apply N2Nat.id|]. apply in_seq. lia.
Qed.

Lemma filter_length_le {A} (f : A -> bool) (l : list A) : (length (filter f l) <= length l)%nat.
Proof. induction l as [|x xs IH]; cbn [filter length]; [lia|]. destruct (f x); cbn [length]; lia. Qed.

Lemma filter_length_mono {A} (f g : A -> bool) (l : list A) :
  (forall x, f x = true -> g x = true) -> (length (filter f l) <= length (filter g l))%nat.
Proof.
  intro H. induction l as [|x xs IH]; cbn [filter length]; [lia|].
  destruct (f x) eqn:Ef.
  - rewrite (H x Ef). cbn [length]. lia.
  - destruct (g x); cbn [length]; lia.
Qed.

Lemma existsb_eqb_false (p : N) (l : list N) : ~ In p l -> existsb (N.eqb p) l = false.
Proof.
  induction l as [|x xs IH]; intro H; cbn [existsb]; [reflexivity|].
  rewrite IH by (intro; apply H; right; assumption).
  destruct (N.eqb_spec p x) as [->|]; [exfalso; apply H; left; reflexivity | reflexivity].
Qed.

Lemma dv_contains_In (D : dvec) (p : N) : dv_contains D p = true <-> In p D.
Proof.
  unfold dv_contains. rewrite existsb_exists. split.
  - intros [x [Hin Hx]]. apply N.eqb_eq in Hx. subst. exact Hin.
  - intro H. exists p. split; [exact H | apply N.eqb_refl].
Qed.

(* ---------- counting ---------- *)
Lemma live_below_0 (D : dvec) : live_below D 0 = 0.
Proof. reflexivity. Qed.

Lemma live_below_succ (D : dvec) (p : N) :
  live_below D (p + 1) = live_below D p + (if dv_contains D p then 0 else 1).
Proof.
  unfold live_below. rewrite N_range_succ, filter_app, app_length. cbn [filter]. unfold dv_live at 2.
  destruct (dv_contains D p); cbn [negb length]; lia.
Qed.

Lemma live_below_le_succ (D : dvec) (p : N) : live_below D (p + 1) <= live_below D p + 1.
Proof. rewrite live_below_succ. destruct (dv_contains D p); lia. Qed.

Lemma live_below_mono_add (D : dvec) (p k : N) : live_below D p <= live_below D (p + k).
Proof.
  induction k as [|k IH] using N.peano_ind.
  - rewrite N.add_0_r. lia.
  - replace (p + N.succ k) with ((p + k) + 1) by lia. rewrite live_below_succ.
    destruct (dv_contains D (p + k)); lia.
Qed.

Lemma live_below_mono (D : dvec) (p q : N) : p <= q -> live_below D p <= live_below D q.
Proof. intro H. replace q with (p + (q - p)) by lia. apply live_below_mono_add. Qed.

Lemma card_below_0 (D : dvec) : dv_card_below D 0 = 0.
Proof.
  unfold dv_card_below. induction D as [|d D IH]; [reflexivity|]. cbn [filter].
  destruct (N.ltb_spec d 0); [lia | exact IH].
Qed.

Lemma card_below_succ (D : dvec) (p : N) : NoDup D ->
  dv_card_below D (p + 1) = dv_card_below D p + (if dv_contains D p then 1 else 0).
Proof.
  unfold dv_card_below, dv_contains. intro ND. induction ND as [|d D Hnotin ND IH]; [reflexivity|].
  cbn [filter existsb].
  destruct (N.ltb_spec d (p + 1)) as [H1|H1]; destruct (N.ltb_spec d p) as [H2|H2];
    destruct (N.eqb_spec p d) as [E|E]; try lia; cbn [orb length].
  - (* d < p *) destruct (existsb (N.eqb p) D); lia.
  - (* d = p *) subst d. rewrite (existsb_eqb_false p D Hnotin) in IH. lia.
  - (* d > p *) destruct (existsb (N.eqb p) D); lia.
Qed.

Lemma card_below_le_len (D : dvec) (p : N) : dv_card_below D p <= dv_len D.
Proof. unfold dv_card_below, dv_len. pose proof (filter_length_le (fun d => d <? p) D). lia. Qed.

Lemma card_below_mono (D : dvec) (p q : N) : p <= q -> dv_card_below D p <= dv_card_below D q.
Proof.
  intro H. unfold dv_card_below.
  pose proof (filter_length_mono (fun d => d <? p) (fun d => d <? q) D) as M.
  assert (forall x, (x <? p) = true -> (x <? q) = true) as Himp by (intros x Hx; apply N.ltb_lt in Hx; apply N.ltb_lt; lia).
  specialize (M Himp). lia.
Qed.

(* live positions below p + deleted positions below p = p *)
Lemma live_plus_card (D : dvec) (p : N) : NoDup D -> live_below D p + dv_card_below D p = p.
Proof.
  intro ND. induction p as [|p IH] using N.peano_ind.
  - rewrite live_below_0, card_below_0. reflexivity.
  - rewrite <- N.add_1_r, live_below_succ, card_below_succ by exact ND.
    destruct (dv_contains D p); lia.
Qed.

(* ---------- the specification: the o-th live position ---------- *)
Lemma nth_live_unique (D : dvec) (o a a' : N) : is_nth_live D o a -> is_nth_live D o a' -> a = a'.
Proof.
  intros [Ha La] [Ha' La'].
  destruct (N.lt_trichotomy a a') as [H|[H|H]]; [exfalso | exact H | exfalso].
  - pose proof (live_below_mono D (a + 1) a' ltac:(lia)) as M. rewrite live_below_succ, Ha in M. lia.
  - pose proof (live_below_mono D (a' + 1) a ltac:(lia)) as M. rewrite live_below_succ, Ha' in M. lia.
Qed.

Lemma nth_live_mono (D : dvec) (o o' a a' : N) :
  is_nth_live D o a -> is_nth_live D o' a' -> o <= o' -> a <= a'.
Proof.
  intros [Ha La] [Ha' La'] Hoo. destruct (N.le_gt_cases a a') as [H|H]; [exact H | exfalso].
  pose proof (live_below_mono D (a' + 1) a ltac:(lia)) as M. rewrite live_below_succ, Ha' in M. lia.
Qed.

Lemma nth_live_eq_card (D : dvec) (o a : N) : NoDup D -> is_nth_live D o a ->
  a = o + dv_card_below D a /\ dv_card_below D (a + 1) = dv_card_below D a.
Proof.
  intros ND [Ha La]. pose proof (live_plus_card D a ND) as E. split; [lia|].
  rewrite card_below_succ, Ha by exact ND. lia.
Qed.

Lemma nth_live_bounds (D : dvec) (o a : N) : NoDup D -> is_nth_live D o a -> o <= a /\ a <= o + dv_len D.
Proof.
  intros ND H. destruct (nth_live_eq_card D o a ND H) as [E _].
  pose proof (card_below_le_len D a). lia.
Qed.

Lemma nth_live_exists (D : dvec) (o : N) : NoDup D -> exists a, is_nth_live D o a.
Proof.
  intro ND.
  assert (forall n, o + 1 <= live_below D n -> exists a, a < n /\ is_nth_live D o a) as IVT.
  { induction n as [|n IH] using N.peano_ind.
    - rewrite live_below_0. lia.
    - rewrite <- N.add_1_r, live_below_succ. intro H.
      destruct (N.le_gt_cases (o + 1) (live_below D n)) as [Hn|Hn].
      + destruct (IH Hn) as [a [Ha1 Ha2]]. exists a. split; [lia | exact Ha2].
      + exists n. split; [lia|]. unfold is_nth_live.
        destruct (dv_contains D n); [lia|]. split; [reflexivity | lia]. }
  destruct (IVT (o + dv_len D + 1)) as [a [_ Ha]]; [|exists a; exact Ha].
  pose proof (live_plus_card D (o + dv_len D + 1) ND). pose proof (card_below_le_len D (o + dv_len D + 1)). lia.
Qed.

(* the reference walk agrees with the relational specification on the small sweep below; the
   relational form is what the theorems use *)

(* ---------- what one comparison of the loop tells about the answer ---------- *)
Section Step.
  Variable D : dvec.
  Hypothesis ND : NoDup D.
  Variables o a : N.
  Hypothesis Hans : is_nth_live D o a.

  Lemma step_less (mid : N) : mid < o + dv_card_below D (mid + 1) -> mid < a.
  Proof.
    intro H. destruct Hans as [Ha La]. destruct (N.le_gt_cases a mid) as [C|C]; [exfalso | exact C].
    pose proof (live_plus_card D (mid + 1) ND) as E.
    pose proof (live_below_mono D (a + 1) (mid + 1) ltac:(lia)) as M.
    rewrite live_below_succ, Ha in M. lia.
  Qed.

  Lemma step_equal_live (mid : N) :
    mid = o + dv_card_below D (mid + 1) -> dv_contains D mid = false -> mid = a.
  Proof.
    intros H Hl. apply (nth_live_unique D o); [|exact Hans]. split; [exact Hl|].
    pose proof (live_plus_card D (mid + 1) ND) as E. rewrite live_below_succ, Hl in E. lia.
  Qed.

  Lemma step_go_lower (mid : N) :
    (o + dv_card_below D (mid + 1) < mid \/ (mid = o + dv_card_below D (mid + 1) /\ dv_contains D mid = true)) ->
    a < mid.
  Proof.
    intro H. destruct Hans as [Ha La]. destruct (N.le_gt_cases mid a) as [C|C]; [exfalso | exact C].
    pose proof (live_plus_card D (mid + 1) ND) as E.
    pose proof (live_below_mono D mid a C) as M.
    pose proof (live_below_succ D mid) as S1.
    destruct H as [H|[H Hd]].
    - destruct (dv_contains D mid); lia.
    - rewrite Hd in S1. lia.
  Qed.
End Step.

(* ---------- the loop ---------- *)
Lemma map_offset_loop_unfold (f : nat) (D : dvec) (offset left right mid : N) :
  map_offset_loop (S f) D offset left right mid =
    if two32 <=? mid + 1 then Panic else
    let deleted_in_range := wrap32 (dv_card_below D (mid + 1)) in
    if two32 <=? offset + deleted_in_range then Panic else
    let go_lower :=
      let right' := mid in
      if right' <? left then Panic else
      map_offset_loop f D offset left right' (left + (right' - left) / 2) in
    match mid ?= offset + deleted_in_range with
    | Eq => if negb (dv_contains D mid) then Ok (mid, left) else go_lower
    | Lt => if left =? mid + 1 then Panic else
            let left' := mid + 1 in
            if right <? left' then Panic else
            map_offset_loop f D offset left' right (left' + (right - left') / 2)
    | Gt => go_lower
    end.
Proof. reflexivity. Qed.

Lemma wrap32_small (x : N) : x < two32 -> wrap32 x = x.
Proof. intro H. unfold wrap32. apply N.mod_small. exact H. Qed.

Lemma two32_val : two32 = 4294967296.
Proof. reflexivity. Qed.

Lemma pow2_succ (n : nat) : 2 ^ N.of_nat (S n) = 2 * 2 ^ N.of_nat n.
Proof. rewrite Nat2N.inj_succ, N.pow_succ_r'. reflexivity. Qed.

Section Loop.
  Variable D : dvec.
  Hypothesis ND : NoDup D.
  Variables o a : N.
  Hypothesis Hans : is_nth_live D o a.
  Hypothesis Hfit : o + dv_len D + 1 < two32.

  (* bisection of a window [left, right] containing the answer, narrower than 2^n: at most n+1 probes *)
  Lemma loop_bisect : forall (n : nat) (left right : N),
    left <= a -> a <= right -> right <= o + dv_len D -> right - left < 2 ^ N.of_nat n ->
    exists l', map_offset_loop (S n) D o left right (left + (right - left) / 2) = Ok (a, l')
               /\ left <= l' /\ l' <= a.
  Proof.
    induction n as [|n IH]; intros left right Hl Hr Hrb Hw.
    - (* window of width 0: mid = left = right = a *)
      change (2 ^ N.of_nat 0) with 1 in Hw.
      assert (right = left) by lia. subst right. assert (left = a) by lia. subst left.
      replace (a + (a - a) / 2) with a by (rewrite N.sub_diag; cbn; lia).
      rewrite map_offset_loop_unfold.
      pose proof (card_below_le_len D (a + 1)) as Hc.
      destruct (N.leb_spec two32 (a + 1)); [lia|].
      rewrite wrap32_small by lia. cbv zeta.
      destruct (N.leb_spec two32 (o + dv_card_below D (a + 1))); [lia|].
      destruct (nth_live_eq_card D o a ND Hans) as [E1 E2].
      replace (a ?= o + dv_card_below D (a + 1)) with Eq by (symmetry; apply N.compare_eq_iff; lia).
      destruct Hans as [Ha _]. rewrite Ha. cbn [negb]. exists a. split; [reflexivity | lia].
    - set (mid := left + (right - left) / 2).
      assert (left <= mid /\ mid <= right) as [Hm1 Hm2] by (unfold mid; split; lia).
      rewrite pow2_succ in Hw.
      rewrite map_offset_loop_unfold. fold mid.
      pose proof (card_below_le_len D (mid + 1)) as Hc.
      destruct (N.leb_spec two32 (mid + 1)); [lia|].
      rewrite wrap32_small by lia. cbv zeta.
      destruct (N.leb_spec two32 (o + dv_card_below D (mid + 1))); [lia|].
      assert (forall (Hlow : a < mid),
        exists l', (if mid <? left then Panic
                    else map_offset_loop (S n) D o left mid (left + (mid - left) / 2)) = Ok (a, l')
                   /\ left <= l' /\ l' <= a) as Lower.
      { intro Hlow. destruct (N.ltb_spec mid left); [lia|].
        apply IH; try lia; try (unfold mid; lia). }
      destruct (N.compare_spec mid (o + dv_card_below D (mid + 1))) as [Heq|Hlt|Hgt].
      + destruct (dv_contains D mid) eqn:Hd; cbn [negb].
        * apply Lower. apply (step_go_lower D ND o a Hans). right. split; assumption.
        * pose proof (step_equal_live D ND o a Hans mid Heq Hd). subst a.
          exists left. split; [reflexivity | lia].
      + pose proof (step_less D ND o a Hans mid Hlt) as Hma.
        destruct (N.eqb_spec left (mid + 1)); [lia|].
        destruct (N.ltb_spec right (mid + 1)); [lia|].
        destruct (IH (mid + 1) right) as [l' [E [B1 B2]]]; try lia; try (unfold mid; lia).
        exists l'. split; [exact E | lia].
      + apply Lower. apply (step_go_lower D ND o a Hans). left. exact Hgt.
  Qed.

  (* the first probe mid0 = offset + last_diff lies in [left, a] *)
  Lemma loop_first (left mid : N) :
    left <= mid -> mid <= a ->
    exists l', map_offset_loop 34 D o left (o + dv_len D) mid = Ok (a, l') /\ left <= l' /\ l' <= a.
  Proof.
    intros Hlm Hma. destruct (nth_live_bounds D o a ND Hans) as [Hoa Hab].
    rewrite map_offset_loop_unfold.
    pose proof (card_below_le_len D (mid + 1)) as Hc.
    destruct (N.leb_spec two32 (mid + 1)); [lia|].
    rewrite wrap32_small by lia. cbv zeta.
    destruct (N.leb_spec two32 (o + dv_card_below D (mid + 1))); [lia|].
    destruct (N.compare_spec mid (o + dv_card_below D (mid + 1))) as [Heq|Hlt|Hgt].
    - destruct (dv_contains D mid) eqn:Hd; cbn [negb].
      + exfalso. pose proof (step_go_lower D ND o a Hans mid (or_intror (conj Heq Hd))). lia.
      + pose proof (step_equal_live D ND o a Hans mid Heq Hd). subst a.
        exists left. split; [reflexivity | lia].
    - pose proof (step_less D ND o a Hans mid Hlt) as Hlt'.
      destruct (N.eqb_spec left (mid + 1)); [lia|].
      destruct (N.ltb_spec (o + dv_len D) (mid + 1)); [lia|].
      destruct (loop_bisect 32 (mid + 1) (o + dv_len D)) as [l' [E [B1 B2]]]; try lia;
        try (change (2 ^ N.of_nat 32) with two32; rewrite two32_val in *; lia).
      exists l'. split; [exact E | lia].
    - exfalso. pose proof (step_go_lower D ND o a Hans mid (or_introl Hgt)). lia.
  Qed.
End Loop.

(* more fuel does not change a result *)
Lemma map_offset_loop_fuel_mono : forall (f f' : nat) D o left right mid r,
  (f <= f')%nat -> map_offset_loop f D o left right mid = Ok r -> map_offset_loop f' D o left right mid = Ok r.
Proof.
  induction f as [|f IH]; intros f' D o left right mid r Hle H; [discriminate H|].
  destruct f' as [|f']; [lia|].
  rewrite map_offset_loop_unfold in *. cbv zeta in *.
  destruct (two32 <=? mid + 1); [discriminate H|].
  destruct (two32 <=? o + wrap32 (dv_card_below D (mid + 1))); [discriminate H|].
  destruct (mid ?= o + wrap32 (dv_card_below D (mid + 1))).
  - destruct (negb (dv_contains D mid)); [exact H|].
    destruct (mid <? left); [discriminate H|]. apply (IH f'); [lia | exact H].
  - destruct (left =? mid + 1); [discriminate H|].
    destruct (right <? mid + 1); [discriminate H|]. apply (IH f'); [lia | exact H].
  - destruct (mid <? left); [discriminate H|]. apply (IH f'); [lia | exact H].
Qed.

(* ---------- map_offset with its persistent state ---------- *)
(* State invariant between calls, for all later offsets >= lo:
   left <= lo + last_diff (so left <= first probe) and  o + last_diff <= answer(o). *)
Definition om_inv (D : dvec) (st : om_state) (lo : N) : Prop :=
  om_left st <= lo + om_last_diff st /\
  forall o a, lo <= o -> is_nth_live D o a -> o + om_last_diff st <= a.

Lemma om_inv_new (D : dvec) : NoDup D -> om_inv D om_new 0.
Proof.
  intro ND. split; cbn [om_new om_left om_last_diff]; [lia|].
  intros o a _ H. destruct (nth_live_bounds D o a ND H). lia.
Qed.

Lemma om_inv_weaken (D : dvec) (st : om_state) (lo lo' : N) : lo <= lo' -> om_inv D st lo -> om_inv D st lo'.
Proof.
  intros Hle [I1 I2]. split; [lia|]. intros o a Ho. apply I2. lia.
Qed.

Theorem map_offset_correct (D : dvec) (st : om_state) (lo o : N) (fuel : nat) :
  NoDup D -> om_inv D st lo -> lo <= o -> o + dv_len D + 1 < two32 -> (34 <= fuel)%nat ->
  exists a st', map_offset_fuel fuel D st o = Ok (a, st') /\ is_nth_live D o a /\ om_inv D st' o.
Proof.
  intros ND [I1 I2] Hlo Hfit Hfuel.
  destruct (nth_live_exists D o ND) as [a Hans].
  destruct (nth_live_bounds D o a ND Hans) as [Hoa Hab].
  pose proof (I2 o a Hlo Hans) as Hmid.
  unfold map_offset_fuel.
  destruct (N.leb_spec two32 (o + om_last_diff st)); [lia|].
  rewrite wrap32_small by lia.
  destruct (N.leb_spec two32 (o + dv_len D)); [lia|].
  destruct (loop_first D ND o a Hans Hfit (om_left st) (o + om_last_diff st)) as [l' [E [B1 B2]]]; try lia.
  rewrite (map_offset_loop_fuel_mono 34 fuel _ _ _ _ _ _ Hfuel E).
  exists a, {| om_left := l'; om_last_diff := a - o |}. split; [reflexivity|]. split; [exact Hans|].
  split; cbn [om_left om_last_diff]; [lia|].
  intros o' a' Ho' Hans'.
  pose proof (nth_live_mono D o o' a a' Hans Hans' Ho') as Haa.
  destruct (nth_live_eq_card D o a ND Hans) as [E1 _].
  destruct (nth_live_eq_card D o' a' ND Hans') as [E1' _].
  pose proof (card_below_mono D a a' Haa). lia.
Qed.

(* a mapper run over a non-decreasing sequence *)
Lemma map_offsets_from_correct (D : dvec) : NoDup D ->
  forall offs st lo, om_inv D st lo -> StronglySorted N.le (lo :: offs) ->
  Forall (fun o => o + dv_len D + 1 < two32) offs ->
  exists res, map_offsets_from D st offs = Ok res /\ Forall2 (is_nth_live D) offs res.
Proof.
  intro ND. induction offs as [|o rest IH]; intros st lo Hinv Hs Hfit.
  - exists []. split; [reflexivity | constructor].
  - inversion Hs as [|? ? Hs' Hall]; subst. inversion Hall as [|? ? Hlo Hall']; subst.
    inversion Hfit as [|? ? Hf Hfit']; subst.
    destruct (map_offset_correct D st lo o MAP_FUEL ND Hinv Hlo Hf) as [a [st' [E [Ha Hinv']]]];
      [unfold MAP_FUEL; lia|].
    cbn [map_offsets_from]. unfold map_offset. rewrite E.
    destruct (IH st' o Hinv') as [res [E' F]]; [exact Hs' | exact Hfit' |].
    rewrite E'. exists (a :: res). split; [reflexivity | constructor; assumption].
Qed.

Theorem map_offsets_correct (D : dvec) (offs : list N) :
  NoDup D -> StronglySorted N.le offs -> Forall (fun o => o + dv_len D + 1 < two32) offs ->
  exists res, map_offsets D offs = Ok res /\ Forall2 (is_nth_live D) offs res.
Proof.
  intros ND Hs Hfit. unfold map_offsets.
  apply (map_offsets_from_correct D ND offs om_new 0 (om_inv_new D ND)); [|exact Hfit].
  constructor; [exact Hs|]. apply Forall_forall. intros x _. lia.
Qed.

(* the reference walk computes the specification (used to state concrete expectations) *)
Lemma nth_live_from_sound : forall fuel D p o r,
  nth_live_from fuel D p o = Some r -> dv_contains D r = false /\ live_below D r = live_below D p + o /\ p <= r.
Proof.
  induction fuel as [|f IH]; intros D p o r H; [discriminate H|]. cbn [nth_live_from] in H.
  destruct (dv_contains D p) eqn:Hd.
  - apply IH in H. destruct H as [H1 [H2 H3]]. rewrite live_below_succ, Hd in H2. repeat split; [exact H1 | lia | lia].
  - destruct (N.eqb_spec o 0) as [->|Hne].
    + inversion H; subst. repeat split; [exact Hd | lia | lia].
    + apply IH in H. destruct H as [H1 [H2 H3]]. rewrite live_below_succ, Hd in H2. repeat split; [exact H1 | lia | lia].
Qed.

Lemma nth_live_ref_sound (D : dvec) (o r : N) : nth_live_ref D o = Some r -> is_nth_live D o r.
Proof.
  unfold nth_live_ref. intro H. apply nth_live_from_sound in H. destruct H as [H1 [H2 _]].
  split; [exact H1|]. rewrite H2, live_below_0. lia.
Qed.

(* small-universe sweep (a test, kept as regression): all 64 deletion sets over [0,6), all
   non-decreasing offset pairs over [0,8): the model equals the reference walk *)
Definition sweep_sets : list (list N) :=
  fold_right (fun x acc => acc ++ map (cons x) acc) [[]] [0; 1; 2; 3; 4; 5].
Definition sweep_pairs : list (N * N) :=
  flat_map (fun a => map (fun b => (a, a + b)) (N_range (8 - a))) (N_range 8).
Definition sweep_ok : bool :=
  forallb (fun D => forallb (fun ab =>
    match map_offsets D [fst ab; snd ab], nth_live_ref D (fst ab), nth_live_ref D (snd ab) with
    | Ok [x; y], Some x', Some y' => (x =? x') && (y =? y')
    | _, _, _ => false
    end) sweep_pairs) sweep_sets.
Lemma sweep_small_universe : length sweep_sets = 64%nat /\ length sweep_pairs = 36%nat /\ sweep_ok = true.
Proof. repeat split; vm_compute; reflexivity. Qed.
